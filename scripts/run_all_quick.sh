#!/bin/bash
# Runs every claimed quick check in /verif against /repo (regenerates all evidence files).
cd "$(dirname "$0")/.."
python3 - <<'PY' > /tmp/quick_cmds.txt
import json
m=json.load(open('MANIFEST.json'))
for c in m['checks']: print(c['property_id']+'\t'+c['quick_cmd'])
PY
rc=0
while IFS=$'\t' read -r id cmd; do
  s=$(date +%s); out=$(bash -c "$cmd" 2>&1); code=$?
  echo "$id exit=$code $(( $(date +%s)-s ))s | $(echo "$out" | grep -E "^$id (quick|thorough):" | cut -c1-150)"
  echo "$out" | grep -E "^VIOLATION|HARNESS-ERROR" | head -3
  [ $code != 0 ] && rc=1
done < /tmp/quick_cmds.txt
exit $rc
