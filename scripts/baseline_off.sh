#!/bin/bash
# Runs the repository's pinned test suite (guard OFF: plain go test, no overlay, no tags) and
# checks that every test listed as stable_pass in /root/.vp/BASELINE.json passes.
set -u
export GOFLAGS=-mod=mod GOPROXY=off
REPO=${REPO:-/repo}
OUT=$(mktemp)
trap 'rm -f "$OUT"' EXIT
for m in . ./tests/latex ./tests/svg; do
  if [ -f "$REPO/$m/go.mod" ]; then
    (cd "$REPO/$m" && go test -mod=mod -json -vet=off -count=1 -timeout 25m ./... 2>/dev/null) >> "$OUT"
  fi
done
python3 - "$OUT" <<'PY'
import json, sys
base = json.load(open('/root/.vp/BASELINE.json'))
want = set(base['stable_pass'])
passed, failed = set(), set()
for line in open(sys.argv[1], errors='replace'):
    line = line.strip()
    if not line.startswith('{'):
        continue
    try:
        ev = json.loads(line)
    except Exception:
        continue
    t = ev.get('Test')
    if not t:
        continue
    name = ev.get('Package', '') + '::' + t
    if ev.get('Action') == 'pass':
        passed.add(name)
    elif ev.get('Action') == 'fail':
        failed.add(name)
missing = sorted(want - passed)
print(f"baseline: {len(want & passed)}/{len(want)} stable tests pass; {len(failed)} failing tests in total")
for m in missing[:20]:
    print("  NOT PASSING:", m)
sys.exit(1 if missing else 0)
PY
