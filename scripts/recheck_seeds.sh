#!/bin/bash
# usage: scripts/recheck_seeds.sh [seed-dir ...]   (default: all of seeded/*)
# Runs the property's quick check against every seeded change (overlay build, /repo untouched) with
# the checks as they are now; verdicts go to seeded/RECHECK_RESULTS.txt (one line per seed).
set -u
cd "$(dirname "$0")/.."
dirs=("$@"); [ ${#dirs[@]} = 0 ] && dirs=(seeded/*/)
one() {
  d=${1%/}; [ -f "$d/meta.json" ] || exit 0
  id=$(python3 -c "import json;print(json.load(open('$d/meta.json'))['property'])")
  patch="$d/patch.diff"; [ -f "$d/patch_against_current_head.diff" ] && patch="$d/patch_against_current_head.diff"
  out=$(scripts/mutant.sh "$patch" "$id" 2>&1 | tail -3 | cut -c1-200)
  v=$(echo "$out" | tail -1 | sed 's/^MUTANT [^ ]* on //')
  echo "$(basename "$d") $v | $(echo "$out" | grep -m1 -o 'class=[^ ]*')"
}
export -f one
printf '%s\n' "${dirs[@]}" | xargs -P 3 -I{} bash -c 'one {}' | sort > seeded/RECHECK_RESULTS.txt.new
if [ $# -gt 0 ] && [ -f seeded/RECHECK_RESULTS.txt ]; then
  # a subset: replace the lines of these seeds, keep the others
  cut -d' ' -f1 seeded/RECHECK_RESULTS.txt.new > seeded/.redone
  grep -v '^repo HEAD' seeded/RECHECK_RESULTS.txt | grep -v -w -F -f seeded/.redone >> seeded/RECHECK_RESULTS.txt.new
  sort -o seeded/RECHECK_RESULTS.txt.new seeded/RECHECK_RESULTS.txt.new; rm -f seeded/.redone
fi
mv seeded/RECHECK_RESULTS.txt.new seeded/RECHECK_RESULTS.txt
echo "repo HEAD $(git -C /repo log --format=%h -1), verif HEAD $(git log --format=%h -1)" >> seeded/RECHECK_RESULTS.txt
grep -c CAUGHT seeded/RECHECK_RESULTS.txt
