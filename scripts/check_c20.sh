#!/bin/bash
# usage: scripts/check_c20.sh [quick|thorough]
# C20 = (1) exhaustive controlled-scheduler exploration on an overlay build in which "sync" is
# replaced by verif/vsync, generated from /repo's current working tree, then (2) a free-running
# -race pass of the same bodies on the real sync package.
set -u
cd "$(dirname "$0")/.."
export GOFLAGS=-mod=mod GOPROXY=off
TIER=${1:-${VERIF_TIER:-quick}}
mkdir -p bin evidence replays
[ -f go.sum ] || cp /repo/go.sum go.sum
exec 9>bin/.build.lock
flock 9
if ! scripts/gen_overlay.sh >bin/build_c20.log 2>&1 || ! go build -overlay bin/overlay/ov.json -o bin/verif-c20 ./cmd/verif >>bin/build_c20.log 2>&1; then
  echo "HARNESS-ERROR: overlay build of the C20 checker failed" >&2; tail -30 bin/build_c20.log >&2; exit 2
fi
if ! go build -race -o bin/c20race ./cmd/c20race >>bin/build_c20.log 2>&1; then
  echo "HARNESS-ERROR: -race build failed" >&2; tail -30 bin/build_c20.log >&2; exit 2
fi
flock -u 9
bin/verif-c20 check C20 "$TIER"
rc=$?
[ $rc = 2 ] && exit 2
ROUNDS=25; [ "$TIER" = thorough ] && ROUNDS=1500
RACELOG=replays/C20-race.log
GORACE="halt_on_error=1 exitcode=66" bin/c20race $ROUNDS evidence/C20.json >"$RACELOG" 2>&1
rrc=$?
tail -2 "$RACELOG"
if [ $rrc != 0 ]; then
  echo "VIOLATION property=C20 replay=$(readlink -f "$RACELOG")"
  echo "  class=$([ $rrc = 66 ] && echo data-race-reported || echo result-mismatch-free-running) (free-running -race pass)"
  exit 1
fi
rm -f "$RACELOG"
exit $rc
