#!/bin/bash
# usage: scripts/seed_wave_setup.sh <N>
# Prepares wave N of independently seeded changes: one scratch worktree of /repo's HEAD per
# property under /tmp/seed<N>/<ID> (outside /repo and /verif), the property text in
# <worktree>/_seed/property.json, and the common instructions in /tmp/seed<N>/INSTRUCTIONS.md.
# Then start one fresh sub-agent per property with only: its id, its worktree, "read
# /tmp/seed<N>/INSTRUCTIONS.md" and (for diversity) the functions earlier seeds already touched,
# printed below. Afterwards: scripts/ingest_seed.sh /tmp/seed<N>/<ID>/_seed <ID>, and
# scripts/seed_wave_cleanup.sh <N>.
set -eu
N=$1
mkdir -p /tmp/seed$N
cd /repo
for i in $(seq -w 1 20); do git worktree add -q /tmp/seed$N/C$i HEAD; mkdir -p /tmp/seed$N/C$i/_seed; done
python3 - "$N" <<'PY'
import json, sys
for l in open('/verif/properties.jsonl'):
    d = json.loads(l)
    d.pop('added_in_round', None); d.pop('source', None)
    open('/tmp/seed%s/%s/_seed/property.json' % (sys.argv[1], d['id']), 'w').write(json.dumps(d, indent=1))
PY
sed "s|__N__|$N|g" > /tmp/seed$N/INSTRUCTIONS.md <<'INSTR'
# Instructions (common to all seed agents)

You are helping to test a verification harness for the Go vector-graphics library tdewolff/canvas.
Work ONLY inside your own scratch git worktree /tmp/seed__N__/<ID> (a checkout of the library; <ID> is the property id you were given).
Do NOT read or touch /verif or /repo or any sibling directory under /tmp/seed__N__.
Do NOT use `git stash` (the stash is shared between all worktrees of the repository and other agents work next to you): to switch
between the patched and the unpatched tree use `git diff > /tmp/seed__N__/<ID>/_seed/patch.diff; git checkout -- .` and
`git apply _seed/patch.diff`.

Go environment (no network): begin every shell command with `export GOFLAGS=-mod=mod GOPROXY=off`
(do NOT set GOTOOLCHAIN or GOSUMDB). Existing test suite:
`go test -vet=off -count=1 . ./text ./renderers/pdf ./renderers/ps ./renderers/svg` (root package ~20-60 s; the machine is busy,
TestBentleyOttmannPerformance is a timing test and may fail under load with or without your change - ignore it).
TestRichText in the root package FAILS on the unchanged tree; that is expected - ignore it, but everything else must give
identical results with and without your change.

The property you must break is in /tmp/seed__N__/<ID>/_seed/property.json (read it: statement, quantifier, anchors; line numbers
in the anchors may have drifted a little).

TASK: write ONE small change to the library's non-test source that
 (a) still compiles and leaves the results of the existing test suite exactly as on the unchanged tree (run the suite before
     and after and compare),
 (b) breaks the property for some inputs/programs/schedules - a genuine semantic violation of the statement, not a cosmetic difference,
 (c) needs something SPECIFIC to manifest - best of all TWO or THREE conditions that must hold together (a particular input shape AND a
     particular option or earlier call), a multi-step sequence of calls, a particular interleaving, or two cooperating code sites
     that each look fine alone - NOT something ordinary use would expose at once.
     Think of a plausible regression a maintainer could introduce: an optimisation/shortcut with a subtly wrong precondition,
     a cache keyed on too little, a boundary comparison off by one, a sign/ordering slip in a rarely taken branch, stale state reused,
     a refactoring that merges two branches that differ in one detail, a helper reused in a place with different units.
     The rarer and more specific the trigger, the better - as long as you can still demonstrate it. Look for code that is
     reached only by unusual inputs (rarely taken branches, fallbacks, special cases) and put the change there.

DELIVERABLES, written into /tmp/seed__N__/<ID>/_seed/ :
 - patch.diff : `git diff` of the source change only (must apply with `git apply` to a clean checkout of HEAD; must not
   contain the demo test or _seed files),
 - seed_demo_test.go : a Go test file containing a single test named TestSeedDemo (package clause matching the directory it is
   to be placed in; public API preferred) that PASSES on the unchanged tree and FAILS with the patch. It must judge the property
   semantically (against an independently computed expectation), not compare with a literal string captured from the
   unpatched code. No external files other than what is already in the repository (e.g. resources/ fonts).
 - pkgdir.txt : the directory relative to the repo root where the test file has to be placed (e.g. `.` or `renderers/pdf`),
 - meta.json : {"property":"<ID>","breaks":"what the change does and where","needs":"what an input/sequence needs in order to
   manifest it","ran":"the commands you ran and what you observed"}  (add "demo_flags":"-race" if the demo needs the race detector).
Verify everything yourself (demo passes without the patch and fails with it; suite results identical). Finally leave the
worktree with the patch NOT applied (`git checkout -- .`, remove your copy of the demo test from the package directory; _seed
stays as an untracked directory; do not leave other files there). Reply with a 5-line summary. If you notice behaviour of the UNCHANGED tree that
already contradicts the property, mention it in one extra line.
INSTR
python3 - <<'PY'
import json, re, glob, collections
av = collections.defaultdict(set)
for d in sorted(glob.glob('/verif/seeded/C*/')):
    m = json.load(open(d + 'meta.json'))
    p = open(d + 'patch.diff').read()
    for f in re.findall(r'^@@.*@@ func (?:\([^)]*\) )?(\w+)', p, re.M): av[m['property']].add(f)
for k in sorted(av): print(k, ', '.join(sorted(av[k])))
PY
