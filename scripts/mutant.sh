#!/bin/bash
# usage: scripts/mutant.sh <patch.diff> <ID> [tier]
# Builds the checker against /repo + the patch WITHOUT touching /repo (go build -overlay on
# patched copies of the touched files in a temp dir), runs the check with evidence/replays
# redirected to the temp dir, prints the verdict. exit 0 if the check reported a VIOLATION.
set -u
cd "$(dirname "$0")/.."
export GOFLAGS=-mod=mod GOPROXY=off
PATCH=$(readlink -f "$1"); ID=$2; TIER=${3:-quick}
T=$(mktemp -d)
trap 'rm -rf "$T"' EXIT
mkdir -p "$T/src" "$T/root/evidence" "$T/root/replays"
cp -r known_findings.json c03_known_cases.json known_cases "$T/root/"
FILES=$(grep '^+++ ' "$PATCH" | sed 's#^+++ [ab]/##; s#\t.*##')
echo '{"Replace": {' > "$T/ov.json"
first=1
for f in $FILES; do
  mkdir -p "$T/src/$(dirname "$f")"
  cp "/repo/$f" "$T/src/$f"
  [ $first = 1 ] || echo ',' >> "$T/ov.json"
  first=0
  echo "\"/repo/$f\": \"$T/src/$f\"" >> "$T/ov.json"
done
echo '}}' >> "$T/ov.json"
if ! (cd "$T/src" && patch -p1 -s -F3 < "$PATCH"); then echo "MUTANT: patch does not apply"; exit 3; fi
if ! go build -overlay "$T/ov.json" -o "$T/verif" ./cmd/verif 2> "$T/build.log"; then echo "MUTANT: does not build"; tail -5 "$T/build.log"; exit 3; fi
if [ "$ID" = C20 ]; then
  # scheduler exploration on (mutant + vsync overlay), then the free-running -race pass on the mutant
  if ! OUT="$T/ov20" SRC_OVERRIDE="$T/src" scripts/gen_overlay.sh || ! go build -overlay "$T/ov20/ov.json" -o "$T/verif20" ./cmd/verif 2> "$T/build.log"; then echo "MUTANT: C20 overlay does not build"; tail -5 "$T/build.log"; exit 3; fi
  VERIF_ROOT="$T/root" "$T/verif20" check C20 "$TIER" > "$T/out.txt" 2>&1
  rc=$?
  if [ $rc = 0 ]; then
    go build -race -overlay "$T/ov.json" -o "$T/c20race" ./cmd/c20race 2>> "$T/build.log" || { echo "MUTANT: race build failed"; exit 3; }
    if ! GORACE="halt_on_error=1 exitcode=66" "$T/c20race" 60 "$T/root/evidence/C20.json" > "$T/race.txt" 2>&1; then
      grep -m1 -A12 "DATA RACE" "$T/race.txt" | head -14; tail -2 "$T/race.txt"
      echo "VIOLATION (free-running -race pass)" >> "$T/out.txt"; rc=1
    fi
  fi
else
VERIF_ROOT="$T/root" "$T/verif" check "$ID" "$TIER" > "$T/out.txt" 2>&1
rc=$?
fi
grep -m3 -A2 '^VIOLATION' "$T/out.txt"
tail -1 "$T/out.txt"
record() { # keep the latest verdict per (mutant, property, tier); only for the patches kept under mutants/
  case "$PATCH" in */mutants/c[0-9][0-9]-*) ;; *) return 0;; esac
  local f=mutants/RESULTS.tsv key="$(basename "$PATCH")	$ID	$TIER"
  (
  flock 8
  touch "$f"; grep -v "^$key	" "$f" > "$f.tmp" || true
  echo "$key	$1	$(grep -m1 -o 'class=[^ ]*' "$T/out.txt" | head -1)" >> "$f.tmp"; sort -o "$f" "$f.tmp"; rm -f "$f.tmp"
  ) 8>bin/.results.lock
}
if [ $rc = 1 ]; then record CAUGHT; echo "MUTANT $(basename "$PATCH") on $ID: CAUGHT"; exit 0; fi
record "MISSED(exit $rc)"
echo "MUTANT $(basename "$PATCH") on $ID: MISSED (exit $rc)"; exit 1
