#!/bin/bash
# usage: scripts/check.sh <ID> [quick|thorough]
# Rebuilds the checker against /repo's current working tree, then runs the check.
# exit 0 = property held on everything explored; 1 = VIOLATION; 2 = harness/build problem.
set -u
cd "$(dirname "$0")/.."
export GOFLAGS=-mod=mod GOPROXY=off
ID=$1
TIER=${2:-${VERIF_TIER:-quick}}
mkdir -p bin evidence replays
if ! scripts/build.sh >bin/build.log 2>&1; then
  echo "HARNESS-ERROR: checker does not build against the current /repo tree" >&2
  tail -30 bin/build.log >&2
  exit 2
fi
exec bin/verif check "$ID" "$TIER"
