#!/bin/bash
# usage: scripts/ingest_seed.sh <scratch-worktree>/_seed <PROPERTY-ID>
# Copies a sub-agent's deliverables to seeded/<ID>-<next> and confirms them with verify_seed.sh.
set -u
cd "$(dirname "$0")/.."
SRC=$1; ID=$2
n=1; while [ -e "seeded/$ID-$n" ]; do n=$((n+1)); done
D="seeded/$ID-$n"
mkdir -p "$D"
cp "$SRC/patch.diff" "$SRC/seed_demo_test.go" "$SRC/meta.json" "$D/"
[ -f "$SRC/pkgdir.txt" ] && tr -d ' \n' < "$SRC/pkgdir.txt" > "$D/pkgdir.txt"
[ "$(cat "$D/pkgdir.txt" 2>/dev/null)" = "." ] && rm -f "$D/pkgdir.txt"
flags=$(python3 -c "import json;print(json.load(open('$D/meta.json')).get('demo_flags',''))" 2>/dev/null)
DEMO_FLAGS="$flags" scripts/verify_seed.sh "$D" "$ID" > "$D/verify.log" 2>&1
echo "$D: $(grep -E 'SUITE-UNCHANGED|^MUTANT' "$D/verified.txt" | tr '\n' ' ')"
