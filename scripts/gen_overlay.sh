#!/bin/bash
# Generates, from /repo's CURRENT working tree, the build overlay used by the C20 check:
# copies of the files that import "sync" with the import redirected to verif/vsync, and a
# scheduling point in front of every statement that touches the package-level font counter.
# Nothing under /repo is modified. Output: $OUT/ov.json (default bin/overlay).
# SRC_OVERRIDE=<dir>: read <dir>/<file> instead of /repo/<file> when it exists (mutation runs);
# every other file found under SRC_OVERRIDE is added to the overlay unchanged.
set -eu
cd "$(dirname "$0")/.."
REPO=/repo
OUT=${OUT:-bin/overlay}
SRC_OVERRIDE=${SRC_OVERRIDE:-}
rm -rf "$OUT"; mkdir -p "$OUT"
printf "module overlayfiles\n" > "$OUT/go.mod" # keeps the generated files out of ./... of the verif module
OUTABS=$(readlink -f "$OUT")
entries=()
for f in path_intersection.go font.go; do
  src="$REPO/$f"
  [ -n "$SRC_OVERRIDE" ] && [ -f "$SRC_OVERRIDE/$f" ] && src="$SRC_OVERRIDE/$f"
  [ -f "$src" ] || continue
  if grep -q '^	"sync"$' "$src"; then
    sed -e 's#^	"sync"$#	sync "verif/vsync"#' \
        -e '/^var nonameFonts/! s#^\(	\+\)\(.*nonameFonts.*\)$#\1sync.Touch("nonameFonts"); \2#' \
        "$src" > "$OUT/$f"
    entries+=("\"$REPO/$f\": \"$OUTABS/$f\"")
  elif [ "$src" != "$REPO/$f" ]; then
    entries+=("\"$REPO/$f\": \"$(readlink -f "$src")\"")
  fi
done
if [ -n "$SRC_OVERRIDE" ]; then
  while IFS= read -r p; do
    rel=${p#"$SRC_OVERRIDE"/}
    case "$rel" in path_intersection.go|font.go) continue;; esac
    entries+=("\"$REPO/$rel\": \"$(readlink -f "$p")\"")
  done < <(find "$SRC_OVERRIDE" -type f -name '*.go')
fi
{
  echo '{"Replace": {'
  n=${#entries[@]}
  for ((i=0;i<n;i++)); do
    if [ $i -lt $((n-1)) ]; then echo "${entries[$i]},"; else echo "${entries[$i]}"; fi
  done
  echo '}}'
} > "$OUT/ov.json"
