#!/bin/bash
# Runs every mutant under mutants/ against the check of the property its file name starts with
# (cNN-*.diff -> CNN), quick tier, and records the verdicts in mutants/RESULTS.tsv.
# usage: scripts/run_mutants.sh [pattern]
cd "$(dirname "$0")/.."
for f in mutants/${1:-c}*.diff; do
  b=$(basename "$f"); id=$(echo "${b:0:3}" | tr a-z A-Z)
  scripts/mutant.sh "$f" "$id" 2>&1 | tail -1
done
