#!/bin/bash
# usage: scripts/verify_seed.sh seeded/<ID-n> <PROPERTY-ID>
# Confirms a seeded change independently in a scratch worktree of /repo's HEAD (outside /repo and
# /verif, removed afterwards): (1) demo passes without the patch, (2) patch applies, builds, and the
# repository's tests fail exactly as before (only TestRichText), (3) demo fails with the patch;
# then (4) runs the property's quick check against the patched sources (overlay build, /repo
# untouched) and writes the verdicts to <dir>/verified.txt.
set -u
cd "$(dirname "$0")/.."
export GOFLAGS=-mod=mod GOPROXY=off
D=$(readlink -f "$1"); ID=$2
WT=$(mktemp -d /tmp/vseed.XXXXXX); rmdir "$WT"
git -C /repo worktree add -q "$WT" HEAD || exit 2
trap 'git -C /repo worktree remove --force "$WT" >/dev/null 2>&1; rm -rf "$WT"' EXIT
demo=$(ls "$D"/*_test.go | head -1)
# a patch written against an older HEAD that no longer applies is kept next to its rebased twin
PATCHF="$D/patch.diff"; [ -f "$D/patch_against_current_head.diff" ] && PATCHF="$D/patch_against_current_head.diff"
pkgdir=.
[ -f "$D/pkgdir.txt" ] && pkgdir=$(cat "$D/pkgdir.txt")
cp "$demo" "$WT/$pkgdir/"
run_demo() { (cd "$WT/$pkgdir" && go test -vet=off -count=1 ${DEMO_FLAGS:-} -run 'TestSeedDemo$' . 2>&1 | grep -v '^WARNING' | tail -3); }
suite() { (cd "$WT" && go test -vet=off -count=1 -skip 'TestSeedDemo$' . ./text ./renderers/pdf ./renderers/ps ./renderers/svg 2>&1 | grep -E '^(--- FAIL|FAIL|ok)' | sed -E 's/[ \t(]+[0-9.]+s\)?$//' | sort | tr '\n' ';'); }
{
echo "seed: $D  property: $ID  repo HEAD: $(git -C /repo log --format=%h -1)"
echo "== demo without patch:"; run_demo
base=$(suite)
if ! git -C "$WT" apply "$PATCHF"; then echo "PATCH DOES NOT APPLY"; exit 3; fi
echo "== suite baseline : $base"
with=$(suite)
echo "== suite with patch: $with"
[ "$base" = "$with" ] && echo "SUITE-UNCHANGED: yes" || echo "SUITE-UNCHANGED: NO"
echo "== demo with patch:"; run_demo
echo "== check $ID quick against the patched tree:"
scripts/mutant.sh "$PATCHF" "$ID" 2>&1 | tail -4 | cut -c1-300
} | tee "$D/verified.txt"
