#!/usr/bin/env python3
"""usage: scripts/calibrate_c03.py [--grow] dump.json [dump.json ...]
Adds to c03_known_cases.json the C03 violations of dumps (VERIF_DUMP=... VERIF_VIOCAP=1000000
bin/verif check C03 <tier>) taken on the pinned tree: key "<case>|<class>", value the error/t of the
violation rounded up (0 for structural classes). Existing entries are never changed unless --grow
is given (used only while a new family is introduced): a check never re-calibrates itself, and
this script is not part of any registered command."""
import json, sys, math, re, os
grow = '--grow' in sys.argv
paths = [a for a in sys.argv[1:] if a != '--grow']
path = 'c03_known_cases.json'
tab = json.load(open(path)) if os.path.exists(path) else {"_comment": "C03: inputs for which the unchanged tree breaks the statement, with the error/t observed; see DESIGN.md (C03) and internal/props/c03", "cases": {}}
cases = tab['cases']
tag = re.compile(r'\{bucket=([^ ]+) ratio=([-+0-9.eInfNa]+)\}$')
added = 0
new = {}
def up(x, nd=4):
    if x == 0: return 0.0
    mag = 10 ** (nd - 1 - math.floor(math.log10(abs(x))))
    return math.ceil(x * mag) / mag
for p in paths:
    for v in json.load(open(p)):
        if v.get('property') != 'C03': continue
        m = tag.search(v['detail'])
        if not m: continue
        ratio = float(m.group(2))
        if ratio != ratio or ratio in (float('inf'), float('-inf')): continue
        k = v['case'] + '|' + v['class']
        new[k] = max(new.get(k, 0.0), ratio)
for k, ratio in new.items():
    if k not in cases or (grow and cases[k] < ratio):
        cases[k] = up(ratio); added += 1
json.dump(tab, open(path, 'w'), indent=0, sort_keys=True)
print('entries added:', added, 'total:', len(cases))
