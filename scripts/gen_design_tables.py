#!/usr/bin/env python3
"""Regenerates the generated blocks of DESIGN.md (findings, mutants, seeded changes) from
known_findings.json, mutants/RESULTS.tsv and seeded/*/meta.json."""
import json, os, re, glob
ROOT = os.path.dirname(os.path.dirname(os.path.abspath(__file__)))
def esc(s): return s.replace('|', '\\|').replace('\n', ' ')
kf = json.load(open(os.path.join(ROOT, 'known_findings.json')))['findings']
out = []
out.append('### 7a. Findings confirmed by the machinery\n')
out.append('**Repaired** (one minimal `fix:` commit each in /repo; the check of the property caught the defect, and catches the revert patch under `mutants/`):\n')
out.append('| id | property | commit | failing input / what failed |\n|---|---|---|---|')
for f in kf:
    if f['status'] == 'fixed':
        m = re.match(r'fixed: property=(\S+) (\S+) (.*)', f['line'], re.S)
        out.append('| %s | %s | %s | %s |' % (f['id'], m.group(1), m.group(2), esc(m.group(3))))
out.append('\n**Recorded as known findings** (genuine defects without a small safe repair, or whose behaviour the repository\'s own tests pin; the check prints one `KNOWN-FINDING:` line per entry and still reports every violation the entry does not match):\n')
out.append('| id | property | matched by | what fails |\n|---|---|---|---|')
for f in kf:
    if f['status'] == 'known':
        m = f['match']
        how = []
        if m.get('predicate'): how.append('predicate `%s`' % m['predicate'])
        if m.get('cases'): how.append('%d exact case(s)' % len(m['cases']))
        if m.get('case_regex'): how.append('case regex')
        if m.get('class'): how.append('class `%s`' % m['class'])
        if m.get('class_regex'): how.append('class regex')
        if m.get('listed'): how.append('listed (case, class) pairs')
        out.append('| %s | %s | %s | %s |' % (f['id'], f['property'], esc(' + '.join(how)), esc(f['what'])))
out.append('\n### 6a. Detection demonstrated\n')
out.append('**Seeded changes written by fresh sub-agents** that saw only the property text and a scratch worktree (`seeded/<id>/`: patch, demonstration test, meta.json; each confirmed by `scripts/verify_seed.sh`: the repository\'s tests fail exactly as before, the demonstration fails with and passes without the patch):\n')
out.append('| seed | property | what it needs to manifest | result |\n|---|---|---|---|')
for d in sorted(glob.glob(os.path.join(ROOT, 'seeded', '*'))):
    mp = os.path.join(d, 'meta.json')
    if os.path.exists(mp):
        m = json.load(open(mp))
        out.append('| %s | %s | %s | %s |' % (os.path.basename(d), m['property'], esc(m['needs']), esc(m.get('detected_by', '(being evaluated)'))))
res = os.path.join(ROOT, 'mutants', 'RESULTS.tsv')
if os.path.exists(res):
    rows = [l.rstrip('\n').split('\t') for l in open(res) if l.strip()]
    caught = sum(1 for r in rows if r[3] == 'CAUGHT')
    out.append('\n**Own mutants** (`mutants/*.diff`, run with `scripts/run_mutants.sh`, quick tier, overlay build; latest verdicts in `mutants/RESULTS.tsv`): %d of %d caught.\n' % (caught, len(rows)))
    out.append('| mutant | property | verdict | first class reported |\n|---|---|---|---|')
    for r in rows:
        out.append('| %s | %s | %s | %s |' % (r[0], r[1], r[3], esc(r[4]) if len(r) > 4 else ''))
block = '\n'.join(out) + '\n'
p = os.path.join(ROOT, 'DESIGN.md')
s = open(p).read()
B, E = '<!-- BEGIN GENERATED TABLES -->', '<!-- END GENERATED TABLES -->'
if B in s:
    s = s[:s.index(B) + len(B)] + '\n' + block + s[s.index(E):]
else:
    anchor = '## 8. Soundness log'
    s = s.replace(anchor, B + '\n' + block + E + '\n\n' + anchor, 1)
open(p, 'w').write(s)
print('DESIGN.md tables regenerated')
