#!/usr/bin/env python3
"""Generates /verif/MANIFEST.json from the table below (kept in one place so it stays valid)."""
import json, os, subprocess
ROOT = os.path.dirname(os.path.dirname(os.path.abspath(__file__)))
ALL = ["C%02d" % i for i in range(1, 21)]

# id -> (category, technique, level text, level note, design_ref)
CLAIMED = {
 "C01": ("exploration", "exhaustive enumeration of lattice operand pairs x 5 operations against a point-membership oracle on the arrangement of the input edges",
         "Every ordered pair of closed contours from the named lattice families (all vertex tuples incl. degenerate/collinear/self-crossing, rectilinear shapes with holes in all orientations, coarse snap grids, translated copies, Path and Paths entry points) is run through And/Or/Xor/Not/DivideBy on the real code; the filled region of each result is compared with the Boolean combination at probes on both sides of every piece of the input-edge arrangement. Complete within the lattices; says nothing beyond them.",
         "trusted: internal/oracle (winding, distance, arrangement probes), Go toolchain; assumes delta=1e-6 (2*eps on coarse grids) is a fair reading of 'not within the snap-grid tolerance of a boundary'", "DESIGN.md §3 C01"),
 "C02": ("exploration", "exhaustive enumeration of lattice paths x 4 fill rules against a winding-number oracle on the arrangement of the input edges, plus canonical-form and idempotence checks",
         "Every path of the named lattice families (all vertex tuples incl. degenerate/self-crossing up to pentagons/hexagons, two-contour combinations, rectilinear outer+inner+bar arrangements in all orientations, coarse snap grids, open subpaths) x 4 fill rules is settled by the real code; region equality, winding in {0,1}, absence of proper crossings among output segments and idempotence are checked on every case. Complete within the lattices.",
         "trusted: internal/oracle; delta=1e-6 (2*eps on coarse grids); one known finding (open subpaths are kept open) is keyed by the predicate 'input has an open subpath'", "DESIGN.md §3 C02"),
 "C06": ("exploration", "exhaustive enumeration of lattice/curved shapes x all lattice and half-lattice query points against a half-open-rule winding oracle",
         "Every shape of the named families (all lattice triangles/quadrilaterals/pentagons incl. degenerate and self-crossing, triangles with one edge replaced by a quadratic/cubic/arc, rectangle nestings in all orientations, open variants) is queried at every lattice and half-lattice point of its bounding box +-1 (exactly the points level with vertices, horizontal edges, curve extremes and tangent rays) and at off-lattice points; Windings, Contains (4 rules), Crossings, the boundary flag, CCW and Filling are compared with the oracle on every query. Complete within the families.",
         "trusted: internal/oracle dense polylines (1024 samples per curve; queries within 2e-5 of a curve skipped and counted); two known findings keyed by predicates computed from the input (ray passes a vertex/extreme -> Crossings parity; open subpath)", "DESIGN.md §3 C06"),
 "C20": ("model_checking", "stateless model checking of the real code under a hand-written cooperative scheduler (DFS over replayed choice prefixes, iterated preemption and pool-answer deviation bounds), plus a free-running -race pass",
         "sync is replaced by a shim (verif/vsync) through a build overlay generated from the working tree; 2-3 harness threads each run one library call (boolean ops, Settle, Stroke, DivideBy, LoadFont of a font without name records) on their own inputs; every Pool.Get/Put, OnceFunc, Mutex operation and access to the font-name counter is a scheduling point and every Pool.Get is a data choice (newest/oldest/fresh or any pooled object); all schedules x pool answers within the bounds are enumerated and every call's result is compared bit-for-bit with its run-alone result; sequential pool-dirtying histories followed by a probe are enumerated the same way; a separate -race build runs the same bodies (plus text layout with a shared font, rasterizer, Flatten/Dash/Offset) free-running on all cores.",
         "trusted: the scheduler (one replay of every violation in a fresh process, divergence = hard error), Go's race detector for unhooked accesses (sampling); granularity = hooked operations; <=3 threads, preemptions <=2, deviations <=2", "DESIGN.md §5 C20"),
 "C14": ("exploration", "exhaustive enumeration of the shape x fill rule x view x resolution x paint x colour space menus against a per-pixel winding oracle",
         "Every combination of the menus is rendered by the real rasterizer; every pixel whose centre is more than one pixel from the transformed outline is compared with rule.Fills(winding) computed by the oracle on its own dense flattening; render-twice identity, immutability of path data and gradient stops, image size, vertical flip and paint order are checked on every case; strokes for all cap/join menus against the region of the outline Path.Stroke returns.",
         "trusted: internal/oracle; 4/255 paint tolerance (scanline rasterizer quantisation, measured in the evidence); one known finding keyed by the input-only predicate 'outline leaves the image rectangle'", "DESIGN.md §5 C14"),
 "C19": ("model_checking", "exhaustive enumeration of the documents of a small SVG grammar, each parsed by the real ParseSVG and compared with an independent evaluator of the SVG semantics",
         "All documents of the grammar (7 size/viewBox forms x 10 transform lists nested up to 2 x 11 shapes x 18 style sources incl. attribute orders, style attribute, inheritance, CSS rules, colour syntaxes) are generated; for each one an independent evaluator written from the SVG specification gives canvas size, geometry in mm and computed style, which are compared with what the parsed canvas replays (two-sided dense Hausdorff distance, paints, effective stroke width, cap, join, miter limit).",
         "trusted: the evaluator (shape-to-path equivalences of SVG 1.1 ch. 9, cascade rules), internal/oracle; two known findings keyed by predicates on the document (rx!=ry, anisotropic viewBox)", "DESIGN.md §4 C19"),
 "C04": ("exploration", "exhaustive enumeration of lattice polylines/contours and a curved menu x widths x cappers x joiners x tolerances against an analytic stroke/offset region oracle",
         "Every open polyline with 1-2 (thorough 1-3) segments and every closed triangle/quadrilateral on the 4x4 lattice (simple, self-touching, self-crossing tallied separately) plus a curved menu, x 3 widths x 3 cappers x 7 joiners x 2 tolerances, is stroked by the real code; probes on an offset grid and at w/2 +- margins along normals and around vertices must be inside the result when within the SVG/PDF stroke region minus the margin and outside when beyond w/2 + margin and outside every allowed join/cap shape; Offset on simple closed contours against Minkowski dilation/erosion.",
         "trusted: internal/oracle/stroke.go (segment bands, join sectors, bevel triangles, caps; weak bound limit*w/2 for miter/arcs joins); points beyond a butt cut are exempt as in the statement; three known findings keyed by input-only predicates (inradius < w/2, closed self-touching, curvature radius < w/2)", "DESIGN.md §3 C04"),
 "C05": ("exploration", "exhaustive enumeration of a path menu x dash arrays x offsets against an independent model of the dash pattern and dense arc-length location of every returned piece",
         "All paths of the menu (every segment type, all two-segment combinations in thorough, closed and multi-subpath paths) x all dash arrays of length 0-3 over {0,1,2.5} plus repeated patterns x 7 offsets (negative, beyond the period) are dashed by the real code; every returned piece is located on the input by arc length on the oracle's dense polyline and compared with the intervals an independent 15-line pattern model prescribes (on the path, in path order, interval ends, drawn length, joined piece on closed subpaths, degenerate patterns); the caller's slice must be unchanged.",
         "trusted: internal/oracle/dash.go; tolerance 1e-9 relative on straight segments, max(1 %, 1e-3) per curved segment; one known finding keyed by the predicate 'path contains the exact-cusp cubic'", "DESIGN.md §3 C05"),
 "C07": ("exploration", "exhaustive enumeration of a segment menu x all matrix words of length <= 2 (3) over 15 generators, and of all ordered pairs of matrix words for the algebraic laws",
         "Every segment type (incl. arcs with all flag pairs and rotations) and two-segment path is transformed by every generator word through the real Path.Transform; the image under the independently composed matrix of the dense input samples must coincide (in order) with the dense samples of the output, arcs must stay canonical arcs whose radii fit the chord; Mul/Dot/Inv/T/Det/Decompose/ToSVG/Rect.Transform are checked against an independent 2x3 affine algebra written from the doc comments on all ordered pairs of words.",
         "trusted: internal/oracle (Aff algebra, dense evaluation); words with condition number > 1e4 are skipped for Transform and counted; two known findings (ToSVG without translation ignores the height: pinned by the repository's tests; arcs under the 1000:1 scale)", "DESIGN.md §3 C07"),
 "C08": ("exploration", "exhaustive enumeration of all lattice quadratics/cubics/arcs and two-subpath paths against exact extrema",
         "All 2401 quadratics, 15625 cubics and 7680 canonical arcs (incl. ellipse rotations 0/15/45/90/135) and two-subpath paths: Bounds must contain every dense sample and touch the true extreme on each side (extrema from the oracle's own closed forms), FastBounds must contain Bounds, both equivariant under integer translation and axis reflections applied to the raw data.",
         "trusted: internal/oracle/curves.go (B'(t)=0 roots, ellipse extreme angles); tolerances 1e-9 containment, 1e-6*scale tightness", "DESIGN.md §3 C08"),
 "C09": ("exploration", "exhaustive enumeration of a path menu x all split sets of size <= 2 (3) over a menu of arc-length positions",
         "All paths of the menu (every segment type, two-segment combinations, closed, multi-subpath) x all subsets of split positions {0, L/4, L/2, 3L/4, L, vertex arc lengths, vertex +- 1e-3}: Length within 1 % of the dense arc length, pieces consecutive and geometrically the input, lengths summing to Length, cuts at the requested arc lengths; Reverse an involution preserving length/bounds/closedness and negating the winding at all decidable probes.",
         "trusted: internal/oracle dense arc length; cut tolerance 1e-9*L on straight prefixes, max(1 % of curved length, 1e-3) after curved segments; two known findings (exact-cusp cubic, long eccentric arc)", "DESIGN.md §3 C09"),
 "C03": ("exploration", "exhaustive enumeration of all lattice quadratics, cubics and canonical arcs, two-segment chains and two-subpath paths x a tolerance menu against dense curve evaluation",
         "All 2401 quadratics ([-3..3]^4), 15625 cubics ([-2..2]^6, incl. cusps, loops, inflections, collinear and coincident control points), 7680 canonical arcs, all 2-segment chains over a 12-curve menu and 2-subpath paths x tolerances {1,0.1,0.01} (thorough +0.001, coordinate scales 0.01 and 100): Flatten keeps structure/end points/closedness, every vertex within t of the curve in curve order, every curve point within c*t of the polyline; ReplaceArcs within 3e-3 rx; XMonotone pieces x-monotone and the same point set.",
         "trusted: internal/oracle/curves.go; c = max(2, 1.3 x the maximum observed once per (shape class, t/scale) cell on the pinned tree, /verif/calibration.json) for the classes whose error/t is bounded, c = 2 otherwise; four known findings keyed by input-only predicates (collinear/closed Beziers, cusps, ellipse arcs, one cubic family at a coarse tolerance)", "DESIGN.md §3 C03"),
 "C10": ("model_checking", "explicit-state search over builder call histories on the real Path (exact deduplicated state graph to depth 3/4), with an independent validator in every state and a requested-geometry reference model on every transition",
         "BFS over 61 builder calls (MoveTo/LineTo over the 3x3 lattice, QuadTo, CubeTo, ArcTo with radii/flag menus, Arc, Close, Join, Append) plus 30 shape sources and ParseSVGPath(String()); every distinct Data() state is validated (decodable from both ends, subpaths start with MoveTo, Close returns to the start, no zero-length segments, valid arcs); every transition is compared with a model of the requested geometry (only zero-length commands may vanish, only same-direction collinear lines may merge); on every distinct state 77 query/derivation calls are run under recover and receiver, arguments, argument slices and Paths are deep-compared before/after.",
         "trusted: the request model (written from the doc comments), internal/oracle decoder; two known findings keyed by input predicates (MoveTo directly followed by Close; receiver with an open subpath in boolean operations)", "DESIGN.md §4 C10"),
 "C11": ("model_checking", "printer round trips on every distinct state of the C10 search; exhaustive enumeration of all short byte strings and one-byte mutations for the parsers",
         "On every distinct C10 state: ParseSVGPath(String()) equals the path; ParseSVGPath(ToSVG()) is geometrically the path to the output precision (Precision 8 and 3); ToPDF and ToPS are executed by independent mini interpreters and must trace the same dense geometry. Parsers: all byte strings of length <= 5 (6) over a 20-symbol alphabet, all one-byte deletions/truncations/substitutions of 30 valid path strings, and ParseSVG on mutated small documents must return a value or an error (no panic, no hang) and every parsed path must pass the C10 validator.",
         "trusted: the mini PDF/PS interpreters (operator definitions from the specs and the PS prologue the back-end emits); tolerance 10^(1-Precision)*scale; one known finding (exact case)", "DESIGN.md §4 C11"),
 "C15": ("model_checking", "exhaustive enumeration of all Context call histories up to depth 4 (5) on the real Context/Canvas against an independent matrix-and-style stack machine",
         "All histories over 52 Context calls (Push/Pop, 4 coordinate systems, setters, dashes, view compositions, SetView/SetCoordView, z-index, DrawPath/DrawText/DrawImage, Fill/Stroke) are run on a recording renderer and on a Canvas; the recorded renderer calls (count, order by z-index then draw order, path data, style incl. dash values at draw time, matrices to 1e-12, text/image un-flipping) must equal what an independent model written from the doc comments predicts; Context state after the history and after popping everything; Canvas replay, RenderViewTo, Transform, Clip and Fit(margin) are checked on every history.",
         "trusted: the reference machine (own 2x3 algebra, doc comments); a recorded dash pattern passes if it is equivalent under either reading of the dash unit (millimetres per the doc comment, stroke widths per the renderers), the difference is tallied", "DESIGN.md §4 C15"),
 "C13": ("model_checking", "exhaustive enumeration of document programs (call histories on the real PDF writer) validated by an independent PDF reader",
         "Every history of up to 3 (4) calls over a 25-call alphabet (pages, 6 path styles incl. alpha and gradients, TrueType and CFF text incl. >95 glyphs, images, links, metadata with ASCII / escapes / Latin-1 / UTF-16 containing CR ( ) \\ bytes, language) x Compress x SubsetFonts is written by the real writer on a fresh instance and closed; an independent reader (tokenizer, xref, object resolution, filters, page tree, content-stream operator table and state machine, text strings) checks every clause of the statement on every document.",
         "trusted: internal/pdfread (written from ISO 32000-1), compress/zlib, image/jpeg; documents longer than the depth bound and fonts other than the two bundled ones are outside the bound", "DESIGN.md §4 C13"),
 "C12": ("model_checking", "exhaustive enumeration of drawing programs (histories of styled DrawPath calls under a view and coordinate-system menu) x back-ends; independent interpreters of the emitted SVG/PDF/PS vs the display list the rasterizer semantics define",
         "All programs of depth <= 2 (3) over 26 styles (differing pairwise in one caching-relevant field) x 5 paths x 4 views x 2 coordinate systems are recorded on a Canvas and rendered by the real SVG, PDF (compressed or not) and PS/EPS back-ends; the emitted bytes are interpreted by independent interpreters (XML + path/transform/style parsers; pdfread + a full graphics-state machine with ExtGState alpha and shadings; a mini PostScript interpreter incl. the emitted prologue; any unknown operator is a violation) into display lists; expected and actual lists are composited at 3840 decidable sample points and compared (colour within 3/255), plus paint-operation counts and the effective line width exactly; the real rasterizer is tallied against the expected list.",
         "trusted: the three interpreters, internal/pdfread; canvas's own Stroke/Dash materialise stroke regions on both sides (C04/C05 judge them); dash lengths are multiples of the stroke width as the rasterizer does; PS paints with alpha or gradients are not compared (documented as unsupported)", "DESIGN.md §4 C12"),
 "C16": ("exploration", "exhaustive enumeration of all strings of <= 4 (5) tokens over a 10-token alphabet x faces x widths x alignments x indents through the real text layout",
         "Every string over {a, V, fi, space, soft hyphen, no-break space, newline, hyphen, a Hebrew letter, ideographic space} x 3 faces (+ a RichText face change) x 5 widths x 4 alignments x 2 indent/line-stretch settings is laid out by NewTextBox/RichText; from WalkLines/WalkSpans: every character exactly once in logical order (only line-ending whitespace dropped, soft hyphen at a break shown as '-'), lines stacked by their heights, spans disjoint, no line beyond the box unless Overflows, the alignment equations per line, newlines start lines, Bounds/Heights enclose the spans.",
         "trusted: the shaper (go-text) and fribidi port as environment; the natural advance of a stretched space is read from the no-wrap layout of the same string; sub-font-unit overshoot of justified lines (2 font units per glyph) is tolerance, observed maximum in the evidence", "DESIGN.md §5 C16"),
 "C17": ("exploration", "exhaustive enumeration of all item sequences up to length 5 (6) over a box/glue/penalty alphabet x 8 widths against a brute-force Knuth-Plass reference over all legal breakings",
         "Every sequence over {Box 1/2/3, glue variants, Penalty 0 / 50 flagged with width / -50 / -inf / +inf} plus GlyphsToItems macro groups, word paragraphs with hyphens and independent glue per gap, followed by the finishing glue and forced break, x widths 2..9 (and other tunable sets): the returned breakpoints are strictly increasing, legal, contain every forced break and end at the final one; reported Width/Ratio equal the recomputed ones; if a feasible breaking exists the result is feasible and demerit-minimal (brute force over all subsets of legal breakpoints), otherwise complete, relaxed no further than needed, and overflow only if some line cannot be shrunk to fit.",
         "trusted: internal/oracle/knuthplass.go (conventions from the paper/TeX: glue after a break discarded up to the next box, start = fitness class 1, unflagged)", "DESIGN.md §5 C17"),
}
CUSTOM_CMD = {"C20": ("scripts/check_c20.sh quick", "scripts/check_c20.sh thorough")}
REASON_PENDING = "check not built yet in this session (planned in DESIGN.md §9); not claimed until it exists and is green"

def main():
    props = {}
    for line in open(os.path.join(ROOT, "properties.jsonl")):
        p = json.loads(line)
        props[p["id"]] = p
    try:
        commits = subprocess.run(["git", "-C", "/repo", "log", "--format=%h %s", "597bc6e..HEAD"], capture_output=True, text=True).stdout.strip().splitlines()
    except Exception:
        commits = []
    checks = []
    for pid in ALL:
        if pid not in CLAIMED:
            continue
        cat, tech, text, note, ref = CLAIMED[pid]
        checks.append({
            "property_id": pid,
            "quick_cmd": CUSTOM_CMD.get(pid, ("scripts/check.sh %s quick" % pid,))[0],
            "thorough_cmd": CUSTOM_CMD.get(pid, (0, "scripts/check.sh %s thorough" % pid))[1],
            "evidence_file": "/verif/evidence/%s.json" % pid,
            "replay_cmd_template": "bin/verif replay {path}",
            "engine": "verif",
            "level_claimed": {"category": cat, "text": text, "design_ref": ref},
            "level_note": note,
            "technique": tech,
        })
    man = {
        "version": 1,
        "setup_cmd": "bash scripts/setup.sh",
        "hooks": {
            "guard": "verif",
            "enable": "no source hooks are needed: checks link /repo's working tree through a go.mod replace directive and, where unexported state must be reached, add files through `go build -overlay` generated from the working tree; nothing in /repo is guarded or changed for instrumentation",
            "baseline_off_cmd": "bash scripts/baseline_off.sh",
            "source_commits": [],
            "add_only": True,
        },
        "engines": [
            {"name": "verif", "path": "/verif/cmd/verif", "serves_properties": sorted(CLAIMED),
             "kind_free_text": "hand-written bounded exhaustive explorer: complete enumeration of finite input spaces / explicit-state search over call histories / controlled-scheduler DFS, sharded over worker subprocesses, every violation confirmed by replay in a fresh process"},
        ],
        "checks": checks,
        "notes": "fix: commits in /repo (genuine defects repaired): " + "; ".join(c for c in commits if " fix:" in c),
        "not_applicable": [{"property_id": pid, "reason": REASON_PENDING} for pid in ALL if pid not in CLAIMED],
    }
    json.dump(man, open(os.path.join(ROOT, "MANIFEST.json"), "w"), indent=1)
    print("wrote MANIFEST.json with", len(checks), "checks")

main()
