#!/bin/bash
set -eu
cd "$(dirname "$0")/.."
export GOFLAGS=-mod=mod GOPROXY=off
[ -f go.sum ] || cp /repo/go.sum go.sum
# serialise concurrent builds (several checks may be started at once)
exec 9>bin/.build.lock
flock 9
go build -o bin/verif ./cmd/verif
