#!/bin/bash
# usage: scripts/coverage.sh [tier] [IDs...]
# Measures which statements of tdewolff/canvas the checks execute (Go coverage instrumentation of
# the checker binary, workers included) and prints the per-function table to coverage/func.txt.
# A planning aid for extending alphabets: it is not evidence and decides nothing.
set -u
cd "$(dirname "$0")/.."
export GOFLAGS=-mod=mod GOPROXY=off
TIER=${1:-quick}; shift || true
IDS=${*:-C01 C02 C03 C04 C05 C06 C07 C08 C09 C10 C11 C12 C13 C14 C15 C16 C17 C18 C19}
T=$(mktemp -d); trap 'rm -rf "$T"' EXIT
PK=verif/cmd/verif,github.com/tdewolff/canvas,github.com/tdewolff/canvas/text,github.com/tdewolff/canvas/renderers/pdf,github.com/tdewolff/canvas/renderers/svg,github.com/tdewolff/canvas/renderers/ps,github.com/tdewolff/canvas/renderers/rasterizer
go build -cover -coverpkg=$PK -o "$T/verif" ./cmd/verif || exit 2
mkdir -p "$T/cov" "$T/root/evidence" "$T/root/replays" coverage
cp -r known_findings.json c03_known_cases.json known_cases "$T/root/"
for id in $IDS; do
  GOCOVERDIR="$T/cov" VERIF_ROOT="$T/root" "$T/verif" check $id $TIER > "$T/out_$id.txt" 2>&1
  echo "$id exit=$? $(tail -1 "$T/out_$id.txt" | cut -c1-150)"
done
go tool covdata textfmt -i="$T/cov" -o "$T/prof.txt"
go tool cover -func="$T/prof.txt" | grep -v "^verif/" > coverage/func.txt
tail -1 coverage/func.txt
