#!/bin/bash
# usage: scripts/seed_wave_cleanup.sh <N>   (removes the scratch worktrees of wave N)
N=$1
for i in $(seq -w 1 20); do git -C /repo worktree remove --force /tmp/seed$N/C$i 2>/dev/null; done
git -C /repo worktree prune; rm -rf /tmp/seed$N
