#!/bin/bash
# usage: scripts/seed_inplace.sh [seed-dir ...]   (default: all of seeded/*)
# The way a seeded change is meant to be exercised: apply it to /repo itself
# (git -C /repo apply), run the property's registered quick check, undo it straight afterwards
# (git -C /repo checkout -- .). Requires a clean /repo working tree and nobody else using /repo.
# Appends the verdicts to seeded/INPLACE_RESULTS.txt.
set -u
cd "$(dirname "$0")/.."
if [ -n "$(git -C /repo status --porcelain --untracked-files=no)" ]; then echo "/repo has local modifications, refusing"; exit 2; fi
dirs=("$@"); [ ${#dirs[@]} = 0 ] && dirs=(seeded/*/)
for d in "${dirs[@]}"; do
  d=${d%/}; [ -f "$d/meta.json" ] || continue
  id=$(python3 -c "import json,sys;print(json.load(open('$d/meta.json'))['property'])")
  patch="$d/patch.diff"; [ -f "$d/patch_against_current_head.diff" ] && patch="$d/patch_against_current_head.diff"
  if ! git -C /repo apply --check "$(readlink -f "$patch")" 2>/dev/null; then echo "$(basename $d) $id: patch does not apply to the current /repo HEAD" | tee -a seeded/INPLACE_RESULTS.txt; continue; fi
  git -C /repo apply "$(readlink -f "$patch")"
  cmd=$(python3 -c "import json;print([c['quick_cmd'] for c in json.load(open('MANIFEST.json'))['checks'] if c['property_id']=='$id'][0])")
  out=$(VERIF_ROOT=$(mktemp -d) bash -c "mkdir -p \$VERIF_ROOT/evidence \$VERIF_ROOT/replays; cp -r known_findings.json c03_known_cases.json known_cases \$VERIF_ROOT/; $cmd" 2>&1); rc=$?
  git -C /repo checkout -- .
  v=$(echo "$out" | grep -m1 -A1 '^VIOLATION' | tail -1 | cut -c1-160)
  echo "$(basename $d) $id: exit=$rc $([ $rc = 1 ] && echo CAUGHT || echo NOT-CAUGHT) $v" | tee -a seeded/INPLACE_RESULTS.txt
done
