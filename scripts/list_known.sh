#!/bin/bash
# usage: scripts/list_known.sh <ID> [<ID> ...]
# Writes known_cases/<finding id>.json for the known findings of the given properties that are
# marked "listed" in known_findings.json: the (case, class) pairs (hashed) that those findings
# match in a COMPLETE quick and a COMPLETE thorough run on the pinned tree. Run once when a finding
# is recorded or a family is added; a check never rebuilds its lists, and no registered command
# calls this script. Refuses to write a list from a run that was cut by its deadline.
set -eu
cd "$(dirname "$0")/.."
export GOFLAGS=-mod=mod GOPROXY=off
scripts/build.sh
for id in "$@"; do
  T=$(mktemp -d); mkdir -p "$T/root/evidence" "$T/root/replays" "$T/dump"
  cp -r known_findings.json c03_known_cases.json known_cases "$T/root/"
  for tier in quick thorough; do
    VERIF_LIST_DUMP="$T/dump" VERIF_ROOT="$T/root" VERIF_DEADLINE_S=6000 bin/verif check "$id" $tier > "$T/out_$tier.txt" 2>&1 || true
    grep "^$id $tier: " "$T/out_$tier.txt" | tail -1
    if ! grep "^$id $tier: " "$T/out_$tier.txt" | tail -1 | grep -q "exhaustive=true"; then echo "list_known: $id $tier was not exhaustive, nothing written"; rm -rf "$T"; exit 1; fi
  done
  python3 - "$T/dump" "$id" <<'PY'
import glob, json, os, sys, collections
keys = collections.defaultdict(set)
for f in json.load(open('known_findings.json'))['findings']:
    if f['status'] == 'known' and f['property'] == sys.argv[2] and f['match'].get('listed'):
        keys[f['id']] = set()
for p in glob.glob(sys.argv[1] + '/*.txt'):
    fid = os.path.basename(p).rsplit('.', 2)[0]
    keys[fid].update(l.strip() for l in open(p) if l.strip())
for fid, ks in sorted(keys.items()):
    out = {"_comment": "known finding %s: sha1-64 of '<case>|<class>' for every violation it matches in complete quick and thorough runs on the pinned tree (scripts/list_known.sh)" % fid, "keys": sorted(ks)}
    json.dump(out, open('known_cases/%s.json' % fid, 'w'), indent=0)
    print(fid, len(ks), 'keys')
PY
  rm -rf "$T"
done
