#!/bin/bash
# One-time setup after a fresh restore: build the checker (warms the Go build cache). Offline.
set -eu
cd "$(dirname "$0")/.."
mkdir -p bin evidence replays
scripts/build.sh
bin/verif list
