#!/bin/bash
# One-time setup after a fresh restore: build the checker (warms the Go build cache). Offline.
set -eu
export GOFLAGS=-mod=mod GOPROXY=off
cd "$(dirname "$0")/.."
mkdir -p bin evidence replays
scripts/build.sh
bin/verif list
# warm the caches of the overlay and -race builds used by the C20 check
scripts/gen_overlay.sh && go build -overlay bin/overlay/ov.json -o bin/verif-c20 ./cmd/verif && go build -race -o bin/c20race ./cmd/c20race
