package main

import (
	"verif/internal/fw"
	"verif/internal/props/c10"
)

func main() { fw.Register(c10.Prop()); fw.Main() }
