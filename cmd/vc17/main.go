package main

import (
	"verif/internal/fw"
	"verif/internal/props/c17"
)

func main() { fw.Register(c17.Prop()); fw.Main() }
