package main

import (
	"verif/internal/fw"
	"verif/internal/props/c03"
)

func init() { fw.Register(c03.Prop()) }
