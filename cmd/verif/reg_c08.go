package main

import (
	"verif/internal/fw"
	"verif/internal/props/c08"
)

func init() { fw.Register(c08.Prop()) }
