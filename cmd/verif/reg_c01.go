package main

import (
	"verif/internal/fw"
	"verif/internal/props/c01"
)

func init() { fw.Register(c01.Prop()) }
