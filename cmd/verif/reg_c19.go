package main

import (
	"verif/internal/fw"
	"verif/internal/props/c19"
)

func init() { fw.Register(c19.Prop()) }
