package main

import (
	"verif/internal/fw"
	"verif/internal/props/c07"
)

func init() { fw.Register(c07.Prop()) }
