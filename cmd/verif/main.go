// Command verif runs the property checks:
//
//	verif check <ID> [quick|thorough] | replay <file> | list   (worker … is internal)
//
// The reg_cNN.go files next to this one register the individual property checks.
package main

import "verif/internal/fw"

func main() { fw.Main() }
