// Command verif runs the property checks: verif check <ID> [quick|thorough] | replay <file> | worker … | list
package main

import (
	"fmt"
	"os"
	"sort"
	"strconv"
	"time"

	"verif/internal/fw"
	"verif/internal/props/c01"
)

func registry() map[string]*fw.Property {
	m := map[string]*fw.Property{}
	for _, p := range []*fw.Property{
		c01.Prop(),
	} {
		m[p.ID] = p
	}
	return m
}

func main() {
	if len(os.Args) < 2 {
		fmt.Fprintln(os.Stderr, "usage: verif check <ID> [quick|thorough] | replay <file> | list")
		os.Exit(2)
	}
	props := registry()
	switch os.Args[1] {
	case "list":
		var ids []string
		for id := range props {
			ids = append(ids, id)
		}
		sort.Strings(ids)
		for _, id := range ids {
			fmt.Println(id)
		}
	case "check":
		if len(os.Args) < 3 {
			os.Exit(2)
		}
		p := props[os.Args[2]]
		if p == nil {
			fmt.Fprintln(os.Stderr, "unknown property", os.Args[2])
			os.Exit(2)
		}
		tier := "quick"
		if len(os.Args) > 3 {
			tier = os.Args[3]
		}
		if t := os.Getenv("VERIF_TIER"); t != "" && len(os.Args) <= 3 {
			tier = t
		}
		os.Exit(fw.RunCheck(p, tier))
	case "replay":
		os.Exit(fw.Replay(props, os.Args[2]))
	case "worker":
		// worker ID tier shard n out deadlineUnixNano hangS
		p := props[os.Args[2]]
		shard, _ := strconv.Atoi(os.Args[4])
		n, _ := strconv.Atoi(os.Args[5])
		dl, _ := strconv.ParseInt(os.Args[7], 10, 64)
		hang, _ := strconv.Atoi(os.Args[8])
		fw.Worker(p, os.Args[3], shard, n, os.Args[6], time.Unix(0, dl), time.Duration(hang)*time.Second)
	default:
		os.Exit(2)
	}
}
