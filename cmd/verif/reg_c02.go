package main

import (
	"verif/internal/fw"
	"verif/internal/props/c02"
)

func init() { fw.Register(c02.Prop()) }
