package main

import (
	"verif/internal/fw"
	"verif/internal/props/c18"
)

func init() { fw.Register(c18.Prop()) }
