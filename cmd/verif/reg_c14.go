package main

import (
	"verif/internal/fw"
	"verif/internal/props/c14"
)

func init() { fw.Register(c14.Prop()) }
