package main

import (
	"verif/internal/fw"
	"verif/internal/props/c15"
)

func init() { fw.Register(c15.Prop()) }
