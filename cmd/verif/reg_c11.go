package main

import (
	"verif/internal/fw"
	"verif/internal/props/c11"
)

func init() { fw.Register(c11.Prop()) }
