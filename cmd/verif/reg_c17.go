package main

import (
	"verif/internal/fw"
	"verif/internal/props/c17"
)

func init() { fw.Register(c17.Prop()) }
