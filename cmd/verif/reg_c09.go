package main

import (
	"verif/internal/fw"
	"verif/internal/props/c09"
)

func init() { fw.Register(c09.Prop()) }
