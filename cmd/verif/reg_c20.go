package main

import (
	"verif/internal/fw"
	"verif/internal/props/c20"
)

func init() { fw.Register(c20.Prop()) }
