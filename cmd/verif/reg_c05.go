package main

import (
	"verif/internal/fw"
	"verif/internal/props/c05"
)

func init() { fw.Register(c05.Prop()) }
