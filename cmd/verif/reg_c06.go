package main

import (
	"verif/internal/fw"
	"verif/internal/props/c06"
)

func init() { fw.Register(c06.Prop()) }
