package main

import (
	"verif/internal/fw"
	"verif/internal/props/c13"
)

func init() { fw.Register(c13.Prop()) }
