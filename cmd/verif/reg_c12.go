package main

import (
	"verif/internal/fw"
	"verif/internal/props/c12"
)

func init() { fw.Register(c12.Prop()) }
