package main

import (
	"verif/internal/fw"
	"verif/internal/props/c04"
)

func init() { fw.Register(c04.Prop()) }
