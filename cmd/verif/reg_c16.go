package main

import (
	"verif/internal/fw"
	"verif/internal/props/c16"
)

func init() { fw.Register(c16.Prop()) }
