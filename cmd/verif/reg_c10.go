package main

import (
	"verif/internal/fw"
	"verif/internal/props/c10"
)

func init() { fw.Register(c10.Prop()) }
