package main

import (
	"fmt"

	"github.com/tdewolff/canvas"
)

func main() {
	fam := canvas.NewFontFamily("dejavu-serif")
	if err := fam.LoadFontFile("/repo/resources/DejaVuSerif.ttf", canvas.FontRegular); err != nil {
		panic(err)
	}
	face := fam.Face(12, canvas.Black, canvas.FontRegular, canvas.FontNormal)
	for _, s := range []string{"a­a", "a　a", "a a", "a a", "\na", "a \nb"} {
		for _, w := range []float64{25, 4} {
			t := canvas.NewTextBox(face, s, w, 0, canvas.Right, canvas.Top, 0, 0)
			fmt.Printf("%q w=%g overflows=%v:", s, w, t.Overflows)
			t.WalkLines(func(y float64, spans []canvas.TextSpan) {
				fmt.Printf(" | y=%.3g", y)
				for _, sp := range spans {
					fmt.Printf(" %q@[%.4g,%.4g]", sp.Text, sp.X, sp.X+sp.Width)
					for _, g := range sp.Glyphs {
						fmt.Printf(" {%q id=%d adv=%d hmtx=%d}", g.Text, g.ID, g.XAdvance, sp.Face.Font.SFNT.GlyphAdvance(g.ID))
					}
				}
			})
			fmt.Println()
		}
	}
	fmt.Println(face.TextWidth("　"), face.TextWidth(" "), face.TextWidth("­"), face.MmPerEm)
}
