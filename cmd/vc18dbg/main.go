package main

import (
	"bytes"
	"fmt"
	"os"

	"github.com/tdewolff/canvas"
	"github.com/tdewolff/canvas/renderers/pdf"
)

func main() {
	b, _ := os.ReadFile("/repo/resources/" + os.Args[1])
	cf, _ := canvas.LoadFont(b, 0, canvas.FontRegular)
	for k, s := range []string{"A", "i", "AV"} {
		buf := &bytes.Buffer{}
		p := pdf.New(buf, 100, 80, &pdf.Options{Compress: false, SubsetFonts: true})
		p.RenderText(canvas.NewTextLine(cf.Face(12, canvas.Black), s, canvas.Left), canvas.Identity)
		p.Close()
		fmt.Println("doc", k, s, len(buf.Bytes()))
	}
}
