package main

import (
	"fmt"
	"os"

	"github.com/tdewolff/canvas"
	"verif/internal/fontread"
)

func main() {
	b, _ := os.ReadFile("/repo/resources/EBGaramond12-Regular.otf")
	f, _ := fontread.Open(b)
	segs, _ := f.Outline(89)
	fmt.Println(fontread.FmtOutline(segs))
	cf, _ := canvas.LoadFont(b, 0, canvas.FontRegular)
	face := cf.Face(1000*72/25.4, canvas.Black) // 1 unit = 1 mm
	p, _, _ := face.ToPath("x")
	fmt.Println(p.String())
}
