// Command c20race is the free-running pass of the C20 check: the same harness bodies as the
// controlled-scheduler exploration, but on the real "sync" package, built with -race, all cores.
// It samples schedules (supporting evidence; the deciding step is the exhaustive exploration).
// usage: c20race <rounds> <evidence.json> <racelog>
// exit 0: no race report and all results equal to the run-alone results; exit 1: violation.
package main

import (
	"encoding/json"
	"fmt"
	"os"
	"strconv"
	"sync"
	"time"

	"verif/internal/props/c20"
)

func main() {
	rounds, _ := strconv.Atoi(os.Args[1])
	evPath := os.Args[2]
	start := time.Now()
	n := len(c20.Bodies)
	want := make([]string, n)
	for i, b := range c20.Bodies {
		want[i] = b.Run()
	}
	mismatches := 0
	var firstMismatch string
	calls := 0
	for r := 0; r < rounds; r++ {
		// each round: every body twice (so that every body also runs against itself), all at once
		got := make([]string, 2*n)
		var wg sync.WaitGroup
		startGate := make(chan struct{})
		for k := 0; k < 2*n; k++ {
			wg.Add(1)
			go func(k int) {
				defer wg.Done()
				<-startGate
				if c20.Bodies[k%n].Heavy && r%8 != 0 {
					got[k] = want[k%n]
					return
				}
				got[k] = c20.Bodies[k%n].Run()
			}(k)
		}
		close(startGate)
		wg.Wait()
		calls += 2 * n
		names := map[string]bool{}
		for k := range got {
			b := c20.Bodies[k%n]
			if b.Relative {
				if names[got[k]] {
					mismatches++
					if firstMismatch == "" {
						firstMismatch = fmt.Sprintf("round %d: %s returned duplicate name %q", r, b.Name, got[k])
					}
				}
				names[got[k]] = true
				continue
			}
			if got[k] != want[k%n] {
				mismatches++
				if firstMismatch == "" {
					firstMismatch = fmt.Sprintf("round %d: %s returned %.120q, alone %.120q", r, b.Name, got[k], want[k%n])
				}
			}
		}
	}
	summary := map[string]any{
		"rounds": rounds, "goroutines_per_round": 2 * n, "calls": calls, "result_mismatches": mismatches,
		"race_detector": "enabled (-race), GORACE=halt_on_error=1: a report aborts this process",
		"wall_s":        time.Since(start).Seconds(), "note": "free-running pass: samples schedules, supports but does not decide",
	}
	if b, err := os.ReadFile(evPath); err == nil {
		var ev map[string]any
		if json.Unmarshal(b, &ev) == nil {
			if cov, ok := ev["coverage"].(map[string]any); ok {
				cov["race_pass"] = summary
				if mismatches > 0 {
					if v, ok := ev["violations"].(float64); ok {
						ev["violations"] = v + float64(mismatches)
					}
				}
				out, _ := json.MarshalIndent(ev, "", " ")
				os.WriteFile(evPath, out, 0o644)
			}
		}
	}
	fmt.Printf("c20race: rounds=%d calls=%d mismatches=%d wall=%.1fs\n", rounds, calls, mismatches, time.Since(start).Seconds())
	if mismatches > 0 {
		fmt.Println(firstMismatch)
		os.Exit(1)
	}
}
