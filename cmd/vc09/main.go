package main

import (
	"verif/internal/fw"
	"verif/internal/props/c09"
)

func main() { fw.Register(c09.Prop()); fw.Main() }
