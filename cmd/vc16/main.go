package main

import (
	"verif/internal/fw"
	"verif/internal/props/c16"
)

func main() { fw.Register(c16.Prop()); fw.Main() }
