package main

import (
	"verif/internal/fw"
	"verif/internal/props/c03"
)

func main() { fw.Register(c03.Prop()); fw.Main() }
