package main

import (
	"verif/internal/fw"
	"verif/internal/props/c04"
)

func main() { fw.Register(c04.Prop()); fw.Main() }
