// temporary design aid: random search for inputs on which a mutant differs from the oracle
package main

import (
	"fmt"
	"math/rand"
	"os"
	"strconv"

	"github.com/tdewolff/canvas/text"

	"verif/internal/fw"
	"verif/internal/oracle"
	"verif/internal/props/c17"
)

func main() {
	mode := os.Args[1]
	nmax, _ := strconv.Atoi(os.Args[2])
	rng := rand.New(rand.NewSource(1))
	if len(os.Args) > 3 {
		text.Tolerance, _ = strconv.ParseFloat(os.Args[3], 64)
	}
	if len(os.Args) > 4 {
		text.DemeritsFitness, _ = strconv.ParseFloat(os.Args[4], 64)
	}
	best := 1 << 30
	for it := 0; it < 3000000; it++ {
		var items []oracle.KPItem
		n := 2 + rng.Intn(nmax-1)
		switch mode {
		case "left": // words + left-aligned spaces
			for i := 0; i < n; i++ {
				if i > 0 {
					s := float64(1 + rng.Intn(2))
					items = append(items, oracle.KPItem{Kind: oracle.KPGlue, Y: s}, oracle.KPItem{Kind: oracle.KPPenalty}, oracle.KPItem{Kind: oracle.KPGlue, W: 1, Y: -s})
				}
				items = append(items, oracle.KPItem{Kind: oracle.KPBox, W: float64(1 + rng.Intn(3))})
			}
		case "just":
			for i := 0; i < n; i++ {
				if i > 0 {
					items = append(items, oracle.KPItem{Kind: oracle.KPGlue, W: float64(rng.Intn(2) + 1), Y: float64(1 + rng.Intn(2)), Z: float64(rng.Intn(2))})
				}
				items = append(items, oracle.KPItem{Kind: oracle.KPBox, W: float64(1 + rng.Intn(3))})
				if len(os.Args) > 5 && rng.Intn(4) == 0 {
					items = append(items, oracle.KPItem{Kind: oracle.KPPenalty, W: 1, P: 50, Flagged: true}, oracle.KPItem{Kind: oracle.KPBox, W: float64(1 + rng.Intn(2))})
				}
			}
		}
		items = append(items, oracle.KPItem{Kind: oracle.KPGlue, Y: text.Infinity}, oracle.KPItem{Kind: oracle.KPPenalty, P: -text.Infinity})
		if len(items) >= best {
			continue
		}
		for w := 2.0; w <= 9; w++ {
			r := fw.NewR("C17")
			c17.CheckOne(r, items, w)
			if len(r.Violations) > 0 {
				best = len(items)
				fmt.Println(len(items), c17.FmtItems(items), r.Violations[0].Class, r.Violations[0].Detail)
				break
			}
		}
	}
}
