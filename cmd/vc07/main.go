package main

import (
	"verif/internal/fw"
	"verif/internal/props/c07"
)

func main() { fw.Register(c07.Prop()); fw.Main() }
