package main

import (
	"verif/internal/fw"
	"verif/internal/props/c13"
)

func main() { fw.Register(c13.Prop()); fw.Main() }
