package main

import (
	"verif/internal/fw"
	"verif/internal/props/c18"
)

func main() { fw.Register(c18.Prop()); fw.Main() }
