// dev tool: runs every case of the C18 families in-process and prints the first cases of every
// violation class with full detail.
package main

import (
	"fmt"
	"os"
	"strconv"
	"strings"
	"time"

	"verif/internal/fw"
	"verif/internal/props/c18"
)

func main() {
	tier := "quick"
	only := ""
	per := 2
	if len(os.Args) > 1 {
		only = os.Args[1]
	}
	if len(os.Args) > 2 {
		per, _ = strconv.Atoi(os.Args[2])
	}
	stride := int64(1)
	if len(os.Args) > 3 {
		s, _ := strconv.Atoi(os.Args[3])
		stride = int64(s)
	}
	seen := map[string]int{}
	total := map[string]int{}
	for _, fam := range c18.Prop().Families(tier) {
		if only != "" && !strings.Contains(fam.Name, only) {
			continue
		}
		start := time.Now()
		for i := int64(0); i < fam.N; i += stride {
			r := fw.NewR("C18")
			fam.Check(i, r)
			for _, v := range r.Violations {
				total[v.Class]++
				if seen[v.Class] < per {
					seen[v.Class]++
					fmt.Printf("===== %s\n  family %s #%d\n  CASE %s\n  DETAIL %s\n\n", v.Class, fam.Name, i, fam.Desc(i), v.Detail)
				}
			}
		}
		fmt.Fprintf(os.Stderr, "%s: %d cases in %v\n", fam.Name, fam.N/stride, time.Since(start))
	}
	for c, n := range total {
		fmt.Printf("TOTAL %6d %s\n", n, c)
	}
}
