package main

import (
	"bytes"
	"fmt"
	"os"

	"github.com/tdewolff/canvas"
	"github.com/tdewolff/canvas/renderers/pdf"
	"golang.org/x/image/font/sfnt"

	"verif/internal/pdfread"
)

func main() {
	files := []string{"DejaVuSerif.ttf", "EBGaramond12-Regular.otf", "Dynalight-Regular.otf"}
	for _, fn := range files {
		for _, subset := range []bool{true, false} {
			b, _ := os.ReadFile("/repo/resources/" + fn)
			f, err := canvas.LoadFont(b, 0, canvas.FontRegular)
			if err != nil {
				panic(err)
			}
			buf := &bytes.Buffer{}
			p := pdf.New(buf, 100, 80, &pdf.Options{Compress: false, SubsetFonts: subset})
			face := f.Face(12, canvas.Black)
			var t *canvas.Text
			switch os.Args[2] {
			case "line":
				t = canvas.NewTextLine(face, os.Args[1], canvas.Left)
			case "box":
				t = canvas.NewTextBox(face, os.Args[1], 6, 0, canvas.Justify, canvas.Top, 0, 0)
			case "vnat", "vup":
				rt := canvas.NewRichText(face)
				rt.SetWritingMode(canvas.VerticalRL)
				if os.Args[2] == "vup" {
					rt.SetTextOrientation(canvas.Upright)
				}
				rt.WriteString(os.Args[1])
				t = rt.ToText(0, 0, canvas.Left, canvas.Top, 0, 0)
			}
			t.WalkSpans(func(x, y float64, s canvas.TextSpan) {
				fmt.Printf("span x=%v y=%v w=%v text=%q dir=%v rot=%v\n", x, y, s.Width, s.Text, s.Direction, s.Rotation)
				for _, g := range s.Glyphs {
					fmt.Printf("   %v vert=%v\n", g, g.Vertical)
				}
			})
			p.RenderText(t, canvas.Identity.Translate(10, 20))
			if err := p.Close(); err != nil {
				panic(err)
			}
			d, err := pdfread.Parse(buf.Bytes())
			if err != nil {
				panic(err)
			}
			fmt.Println("=====", fn, "subset", subset, len(buf.Bytes()))
			pages, _ := d.Pages()
			for _, pg := range pages {
				fmt.Printf("content: %s\n", pg.Content)
				if len(os.Args) > 3 {
					continue
				}
				fonts := d.ResourceCategory(pg.Resources, "Font")
				for name, v := range fonts {
					fd, _ := d.Dict(v)
					fmt.Println(name, pdfread.Fmt(fd))
					desc := d.Resolve(fd["DescendantFonts"]).(pdfread.Array)
					cid, _ := d.Dict(desc[0])
					fdesc, _ := d.Dict(cid["FontDescriptor"])
					if m, ok := cid["CIDToGIDMap"]; ok {
						if st, ok := d.Resolve(m).(*pdfread.Stream); ok {
							mb, _ := st.Decode()
							fmt.Printf("CIDToGIDMap: % x\n", mb)
						}
					}
					tu := d.Resolve(fd["ToUnicode"]).(*pdfread.Stream)
					tb, _ := tu.Decode()
					fmt.Printf("ToUnicode:\n%s\n", tb)
					for _, k := range []pdfread.Name{"FontFile2", "FontFile3"} {
						if st, ok := d.Resolve(fdesc[k]).(*pdfread.Stream); ok {
							fb, err := st.Decode()
							fmt.Println(k, len(fb), err)
							sf, err := sfnt.Parse(fb)
							if err != nil {
								fmt.Println("sfnt.Parse ERROR:", err)
								continue
							}
							fmt.Println("sfnt numGlyphs", sf.NumGlyphs(), "upem", sf.UnitsPerEm())
							var sb sfnt.Buffer
							for g := 0; g < sf.NumGlyphs() && g < 8; g++ {
								segs, err := sf.LoadGlyph(&sb, sfnt.GlyphIndex(g), 0x7fffffff&(1<<20), nil)
								fmt.Println("  glyph", g, len(segs), err)
							}
						}
					}
				}
			}
		}
	}
}
