package main

import (
	"verif/internal/fw"
	"verif/internal/props/c11"
)

func main() { fw.Register(c11.Prop()); fw.Main() }
