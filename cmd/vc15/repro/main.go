package main

import (
	"fmt"
	"image"

	"github.com/tdewolff/canvas"
)

type rec struct{}

func (rec) Size() (float64, float64) { return 10, 6 }
func (rec) RenderPath(p *canvas.Path, s canvas.Style, m canvas.Matrix) {
	fmt.Printf("  RenderPath(%v, stroke=%v width=%g dashOffset=%g dashes=%v)\n", p, s.Stroke.Color, s.StrokeWidth, s.DashOffset, s.Dashes)
}
func (rec) RenderText(*canvas.Text, canvas.Matrix)   {}
func (rec) RenderImage(image.Image, canvas.Matrix)  {}

type rec2 = rec

func main() {
	fmt.Println("P4: odd pattern, negative offset, short path")
	c := canvas.New(10, 6)
	ctx := canvas.NewContext(c)
	ctx.SetStrokeColor(canvas.Blue)
	ctx.SetDashes(-1, 6)
	q := canvas.MustParseSVGPath("M0 0L0.5 0")
	ctx.DrawPath(0, 0, q)
	c.RenderTo(rec2{})
	fmt.Println("  q.Dash(-1, 6) =", q.Dash(-1, 6), "empty:", q.Dash(-1, 6).Empty())
}
