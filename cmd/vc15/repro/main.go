package main

import (
	"fmt"
	"image"

	"github.com/tdewolff/canvas"
)

type rec struct{}

func (rec) Size() (float64, float64) { return 10, 6 }
func (rec) RenderPath(p *canvas.Path, s canvas.Style, m canvas.Matrix) {
	fmt.Printf("  RenderPath(%v, stroke=%v width=%g dashOffset=%g dashes=%v)\n", p, s.Stroke.Color, s.StrokeWidth, s.DashOffset, s.Dashes)
}
func (rec) RenderText(*canvas.Text, canvas.Matrix)   {}
func (rec) RenderImage(image.Image, canvas.Matrix)  {}

type rec2 = rec

func main() {
	fmt.Println("F3: canonical pattern recorded with the old offset")
	c := canvas.New(10, 6)
	ctx := canvas.NewContext(c)
	ctx.SetStrokeColor(canvas.Blue)
	ctx.SetDashes(0, 0, 1, 2, 3)
	q := canvas.MustParseSVGPath("M0 0L10 0")
	ctx.DrawPath(0, 0, q)
	c.RenderTo(rec2{})
	fmt.Println("  q.Dash(0, 0,1,2,3) =", q.Dash(0, 0, 1, 2, 3), " recorded means", q.Dash(0, 2, 4))
	c = canvas.New(10, 6)
	ctx = canvas.NewContext(c)
	ctx.SetStrokeColor(canvas.Blue)
	ctx.SetDashes(0, 2, 1, 3, 0)
	ctx.DrawPath(0, 0, q)
	c.RenderTo(rec2{})
	fmt.Println("  q.Dash(0, 2,1,3,0) =", q.Dash(0, 2, 1, 3, 0))
}
