package main

import (
	"verif/internal/fw"
	"verif/internal/props/c15"
)

func main() { fw.Register(c15.Prop()); fw.Main() }
