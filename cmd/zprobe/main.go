package main

import (
	"fmt"

	"github.com/tdewolff/canvas"
)

func main() {
	for _, m := range []canvas.Matrix{
		canvas.Identity.Rotate(30).Scale(2, 1),
		canvas.Identity.Scale(2, 1).Rotate(30),
		canvas.Identity.Shear(0.5, 0).Translate(3, -2),
		canvas.Identity.Scale(1, -1).Rotate(30),
		canvas.Identity.Rotate(90),
		canvas.Identity.Scale(-1, -1),
		canvas.Identity.Translate(3, -2),
	} {
		tx, ty, r3, sx, sy, r6 := m.Decompose()
		docForm := canvas.Identity.Translate(tx, ty).Rotate(r6).Scale(sx, sy).Rotate(r3)  // doc: 3rd=theta, 6th=phi; Translate.Rotate(phi).Scale.Rotate(theta)
		altForm := canvas.Identity.Translate(tx, ty).Rotate(r3).Scale(sx, sy).Rotate(r6)
		fmt.Println(m, "decompose", tx, ty, r3, sx, sy, r6)
		fmt.Println("   doc formula equals m:", docForm.Equals(m), " swapped formula equals m:", altForm.Equals(m))
		fmt.Printf("   ToSVG(10)=%q T=%v\n", m.ToSVG(10), m.T())
	}
}
