package main

import (
	"fmt"
	"math"

	"github.com/tdewolff/canvas"
	"verif/internal/oracle"
)

func main() {
	for _, s := range []oracle.Seg{
		oracle.MkArc(oracle.Pt{}, 1, 1, 0, true, false, oracle.Pt{X: 1, Y: 2}),
		oracle.MkArc(oracle.Pt{}, 1, 2, 15, false, false, oracle.Pt{X: 1, Y: -1}),
	} {
		d := oracle.PathData([]oracle.Subpath{oracle.Chain(false, s)})
		p := canvas.NewPathFromData(d)
		fmt.Println(oracle.Fmt(d), d)
		fmt.Println(" bounds", p.Bounds(), "fast", p.FastBounds(), "len", p.Length())
		c, th0, dth, rx, ry := oracle.ArcCenter(s.P0, s.Rx, s.Ry, s.Phi, s.Large, s.Sweep, s.P1)
		fmt.Println(" oracle center", c, th0, dth, rx, ry)
		lo, hi := s.ExactBBox()
		fmt.Println(" oracle box", lo, hi, "len", oracle.SegLength(s))
		fmt.Println(" flatten", p.Flatten(0.1))
		q := &canvas.Path{}
		q.MoveTo(0, 0)
		q.ArcTo(s.Rx, s.Ry, s.Phi*180/math.Pi, s.Large, s.Sweep, s.P1.X, s.P1.Y)
		fmt.Println(" builder", q.Data())
	}
}
