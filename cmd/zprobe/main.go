package main

import (
	"fmt"
	"math"

	"github.com/tdewolff/canvas"
	"verif/internal/oracle"
)

func main() {
	P := func(x, y float64) oracle.Pt { return oracle.Pt{X: x, Y: y} }
	s := oracle.MkArc(P(0.5, -1), 2, 1, 90, false, false, P(2.5, 0))
	sps := []oracle.Subpath{oracle.Chain(false, s)}
	cm := canvas.Identity.Scale(0.001, 1).Rotate(30)
	am := oracle.AffScale(0.001, 1).After(oracle.AffRotate(30))
	od := canvas.NewPathFromData(oracle.PathData(sps)).Transform(cm).Data()
	out, _ := oracle.Decode(od)
	o := out[0].Segs[0]
	lam := oracle.ArcLambda(o.P0, o.Rx, o.Ry, o.Phi, o.P1)
	k := math.Sqrt(lam)
	o.Rx, o.Ry = o.Rx*k, o.Ry*k
	q := am.Apply(oracle.SegAt(s, 16.0/24))
	n := 64
	best, bi := math.Inf(1), 0
	for i := 0; i <= 4000000; i++ {
		if d := q.Dist(oracle.SegAt(o, float64(i)/4000000)); d < best {
			best, bi = d, i
		}
	}
	tstar := float64(bi) / 4000000
	fmt.Println("t*", tstar, "interval", tstar*float64(n), best)
	for i := int(tstar*float64(n)) - 2; i <= int(tstar*float64(n))+3; i++ {
		p := oracle.SegAt(o, float64(i)/float64(n))
		fmt.Println(i, p, q.Dist(p))
	}
	a, b := math.Floor(tstar*float64(n))/float64(n), (math.Floor(tstar*float64(n))+1)/float64(n)
	for k := 0; k <= 10; k++ {
		t := a + (b-a)*float64(k)/10
		fmt.Println("   ", t, q.Dist(oracle.SegAt(o, t)))
	}
}
