package main

import (
	"fmt"

	"github.com/tdewolff/canvas"
)

func main() {
	p := canvas.MustParseSVGPath("M0 0C3 3 0 3 3 0C6 3 3 3 6 0")
	fmt.Println(p.Length())
	for _, s := range p.SplitAt(0.2, 1.2, 3.7, 4.7, 7.2, 8.2, 10.7) {
		fmt.Println(s.Length(), s)
	}
}
