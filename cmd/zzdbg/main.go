package main

import (
	"fmt"

	"github.com/tdewolff/canvas"
)

func main() {
	for _, s := range []string{"M2 0A2 2 0 0 0 -2 0A2 2 0 0 0 2 0z", "M2 0A2 2 0 0 1 -2 0A2 2 0 0 1 2 0z"} {
		p := canvas.MustParseSVGPath(s)
		fmt.Println("CCW", p.CCW())
		for _, d := range []float64{0.3, -0.3} {
			canvas.FastStroke = true
			fmt.Println(d, "fast:", p.Offset(d, 0.01))
			canvas.FastStroke = false
			fmt.Println(d, "settled:", p.Offset(d, 0.01))
		}
	}
	p := canvas.MustParseSVGPath("M1.7 0A1.7 1.7 0 0 0 -1.7 0A1.7 1.7 0 0 0 1.7 0z")
	fmt.Println(p.Settle(canvas.Negative))
	fmt.Println(p.Settle(canvas.NonZero))
	fmt.Println(p.Reverse().Settle(canvas.Positive))
}
