package main

import (
	"verif/internal/fw"
	"verif/internal/props/c05"
)

func main() { fw.Register(c05.Prop()); fw.Main() }
