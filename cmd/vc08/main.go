package main

import (
	"verif/internal/fw"
	"verif/internal/props/c08"
)

func main() { fw.Register(c08.Prop()); fw.Main() }
