package main

import (
	"verif/internal/fw"
	"verif/internal/props/c12"
)

func main() { fw.Register(c12.Prop()); fw.Main() }
