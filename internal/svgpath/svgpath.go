// Package svgpath is an interpreter of SVG path data written from the SVG 1.1 specification
// (chapter 8.3 and the arc implementation notes F.6), independent of canvas.ParseSVGPath. It is
// the same code as the path data part of the C12 SVG interpreter, shared with C11.
package svgpath

import (
	"fmt"
	"math"
	"strconv"
	"strings"

	"verif/internal/oracle"
)

type svgScanner struct {
	s   string
	pos int
}

func (sc *svgScanner) skipWS() {
	for sc.pos < len(sc.s) {
		switch sc.s[sc.pos] {
		case ' ', '\t', '\n', '\r', '\f':
			sc.pos++
		default:
			return
		}
	}
}

func (sc *svgScanner) skipCommaWS() {
	sc.skipWS()
	if sc.pos < len(sc.s) && sc.s[sc.pos] == ',' {
		sc.pos++
		sc.skipWS()
	}
}

// number scans an SVG number: sign? (digits ('.' digits?)? | '.' digits) exponent?
func (sc *svgScanner) number() (float64, bool) {
	i := sc.pos
	s := sc.s
	if i < len(s) && (s[i] == '+' || s[i] == '-') {
		i++
	}
	nd := 0
	for i < len(s) && s[i] >= '0' && s[i] <= '9' {
		i++
		nd++
	}
	if i < len(s) && s[i] == '.' {
		i++
		for i < len(s) && s[i] >= '0' && s[i] <= '9' {
			i++
			nd++
		}
	}
	if nd == 0 {
		return 0, false
	}
	if i < len(s) && (s[i] == 'e' || s[i] == 'E') {
		j := i + 1
		if j < len(s) && (s[j] == '+' || s[j] == '-') {
			j++
		}
		k := j
		for k < len(s) && s[k] >= '0' && s[k] <= '9' {
			k++
		}
		if k > j {
			i = k
		}
	}
	v, err := strconv.ParseFloat(s[sc.pos:i], 64)
	if err != nil {
		return 0, false
	}
	sc.pos = i
	return v, true
}

// flag scans a single '0' or '1' (arc flags may be packed without separators).
func (sc *svgScanner) flag() (bool, bool) {
	if sc.pos < len(sc.s) && (sc.s[sc.pos] == '0' || sc.s[sc.pos] == '1') {
		v := sc.s[sc.pos] == '1'
		sc.pos++
		return v, true
	}
	return false, false
}

// svgLength parses a length into millimetres (CSS absolute units; user units are px = 1/96 in).
// ---- path data (SVG 1.1 §8.3) --------------------------------------------------------------

// Parse interprets SVG path data.
func Parse(d string) ([]oracle.Subpath, error) {
	sc := &svgScanner{s: d}
	var sps []oracle.Subpath
	var cur *oracle.Subpath
	var pos, start oracle.Pt
	var lastCtrl oracle.Pt
	lastKind := byte(0)
	var cmd byte
	first := true
	num := func() (float64, error) {
		sc.skipCommaWS()
		v, ok := sc.number()
		if !ok {
			return 0, fmt.Errorf("number expected at offset %d of %q", sc.pos, clipStr(d, 80))
		}
		return v, nil
	}
	nums := func(n int) ([]float64, error) {
		out := make([]float64, n)
		for i := range out {
			v, err := num()
			if err != nil {
				return nil, err
			}
			out[i] = v
		}
		return out, nil
	}
	ensure := func() {
		if cur == nil {
			sps = append(sps, oracle.Subpath{Start: pos})
			cur = &sps[len(sps)-1]
			start = pos
		}
	}
	for {
		sc.skipWS()
		if sc.pos >= len(sc.s) {
			break
		}
		c := sc.s[sc.pos]
		isCmd := strings.IndexByte("MmZzLlHhVvCcSsQqTtAa", c) >= 0
		if isCmd {
			cmd = c
			sc.pos++
		} else {
			// implicit repetition of the previous command
			if cmd == 0 || cmd == 'Z' || cmd == 'z' {
				return nil, fmt.Errorf("unexpected %q at offset %d of %q", c, sc.pos, clipStr(d, 80))
			}
			if cmd == 'M' {
				cmd = 'L'
			} else if cmd == 'm' {
				cmd = 'l'
			}
			sc.skipCommaWS()
		}
		if first && cmd != 'M' && cmd != 'm' {
			return nil, fmt.Errorf("path data does not start with a moveto: %q", clipStr(d, 80))
		}
		first = false
		rel := cmd >= 'a' && cmd <= 'z'
		abs := func(x, y float64) oracle.Pt {
			if rel {
				return oracle.Pt{X: pos.X + x, Y: pos.Y + y}
			}
			return oracle.Pt{X: x, Y: y}
		}
		switch cmd {
		case 'M', 'm':
			v, err := nums(2)
			if err != nil {
				return nil, err
			}
			pos = abs(v[0], v[1])
			sps = append(sps, oracle.Subpath{Start: pos})
			cur = &sps[len(sps)-1]
			start = pos
		case 'Z', 'z':
			ensure()
			cur.Segs = append(cur.Segs, oracle.Seg{Kind: oracle.CmdClose, P0: pos, P1: start})
			cur.Closed = true
			pos = start
			cur = nil // the next drawing command starts a new subpath at the same point
		case 'L', 'l':
			v, err := nums(2)
			if err != nil {
				return nil, err
			}
			ensure()
			p := abs(v[0], v[1])
			cur.Segs = append(cur.Segs, oracle.MkLine(pos, p))
			pos = p
		case 'H', 'h':
			v, err := num()
			if err != nil {
				return nil, err
			}
			ensure()
			p := oracle.Pt{X: v, Y: pos.Y}
			if rel {
				p.X = pos.X + v
			}
			cur.Segs = append(cur.Segs, oracle.MkLine(pos, p))
			pos = p
		case 'V', 'v':
			v, err := num()
			if err != nil {
				return nil, err
			}
			ensure()
			p := oracle.Pt{X: pos.X, Y: v}
			if rel {
				p.Y = pos.Y + v
			}
			cur.Segs = append(cur.Segs, oracle.MkLine(pos, p))
			pos = p
		case 'C', 'c':
			v, err := nums(6)
			if err != nil {
				return nil, err
			}
			ensure()
			c1, c2, p := abs(v[0], v[1]), abs(v[2], v[3]), abs(v[4], v[5])
			cur.Segs = append(cur.Segs, oracle.MkCube(pos, c1, c2, p))
			lastCtrl, pos = c2, p
		case 'S', 's':
			v, err := nums(4)
			if err != nil {
				return nil, err
			}
			ensure()
			c1 := pos
			if lastKind == 'C' {
				c1 = oracle.Pt{X: 2*pos.X - lastCtrl.X, Y: 2*pos.Y - lastCtrl.Y}
			}
			c2, p := abs(v[0], v[1]), abs(v[2], v[3])
			cur.Segs = append(cur.Segs, oracle.MkCube(pos, c1, c2, p))
			lastCtrl, pos = c2, p
		case 'Q', 'q':
			v, err := nums(4)
			if err != nil {
				return nil, err
			}
			ensure()
			c1, p := abs(v[0], v[1]), abs(v[2], v[3])
			cur.Segs = append(cur.Segs, oracle.MkQuad(pos, c1, p))
			lastCtrl, pos = c1, p
		case 'T', 't':
			v, err := nums(2)
			if err != nil {
				return nil, err
			}
			ensure()
			c1 := pos
			if lastKind == 'Q' {
				c1 = oracle.Pt{X: 2*pos.X - lastCtrl.X, Y: 2*pos.Y - lastCtrl.Y}
			}
			p := abs(v[0], v[1])
			cur.Segs = append(cur.Segs, oracle.MkQuad(pos, c1, p))
			lastCtrl, pos = c1, p
		case 'A', 'a':
			v, err := nums(3)
			if err != nil {
				return nil, err
			}
			sc.skipCommaWS()
			large, ok1 := sc.flag()
			sc.skipCommaWS()
			sweep, ok2 := sc.flag()
			if !ok1 || !ok2 {
				return nil, fmt.Errorf("arc flag expected at offset %d of %q", sc.pos, clipStr(d, 80))
			}
			e, err := nums(2)
			if err != nil {
				return nil, err
			}
			ensure()
			p := abs(e[0], e[1])
			rx, ry := math.Abs(v[0]), math.Abs(v[1])
			switch {
			case p == pos:
				// F.6.2: identical end points: the segment is omitted
			case rx == 0 || ry == 0:
				cur.Segs = append(cur.Segs, oracle.MkLine(pos, p))
			default:
				cur.Segs = append(cur.Segs, oracle.Seg{Kind: oracle.CmdArc, P0: pos, P1: p, Rx: rx, Ry: ry, Phi: v[2] * math.Pi / 180, Large: large, Sweep: sweep})
			}
			pos = p
		}
		switch cmd {
		case 'C', 'c', 'S', 's':
			lastKind = 'C'
		case 'Q', 'q', 'T', 't':
			lastKind = 'Q'
		default:
			lastKind = 0
		}
	}
	return sps, nil
}

func clipStr(s string, n int) string {
	if len(s) > n {
		return s[:n] + "…"
	}
	return s
}
