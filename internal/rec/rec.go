// Package rec is a recording canvas.Renderer: it keeps what a canvas replays, deep-copied.
package rec

import (
	"image"

	"github.com/tdewolff/canvas"
)

// Op is one renderer call.
type Op struct {
	Kind  string // "path", "text", "image"
	Data  []float64
	Style canvas.Style
	M     canvas.Matrix
	Text  *canvas.Text
	Image image.Image
}

// Recorder implements canvas.Renderer.
type Recorder struct {
	W, H float64
	Ops  []Op
}

func (r *Recorder) Size() (float64, float64) { return r.W, r.H }

func (r *Recorder) RenderPath(path *canvas.Path, style canvas.Style, m canvas.Matrix) {
	st := style
	st.Dashes = append([]float64(nil), style.Dashes...)
	r.Ops = append(r.Ops, Op{Kind: "path", Data: append([]float64(nil), path.Data()...), Style: st, M: m})
}

func (r *Recorder) RenderText(text *canvas.Text, m canvas.Matrix) {
	r.Ops = append(r.Ops, Op{Kind: "text", Text: text, M: m})
}

func (r *Recorder) RenderImage(img image.Image, m canvas.Matrix) {
	r.Ops = append(r.Ops, Op{Kind: "image", Image: img, M: m})
}

// Record replays the canvas into a fresh recorder.
func Record(c *canvas.Canvas) *Recorder {
	r := &Recorder{W: c.W, H: c.H}
	c.RenderTo(r)
	return r
}
