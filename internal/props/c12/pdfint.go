package c12

// Independent interpreter of a PDF page's content stream, written from ISO 32000-1: §8.2 graphics
// objects, §8.4 graphics state, §8.5 path construction and painting, §8.6 colour spaces,
// §8.7.4 shading patterns (axial and radial), §7.10 functions (types 2 and 3), §11.3.7 constant alpha.
// File structure, page tree, resources and content tokenisation come from internal/pdfread.
// The result is a display list in canvas millimetres (default user space unit = 1/72 inch).

import (
	"fmt"
	"math"
	"strings"

	"verif/internal/oracle"
	"verif/internal/pdfread"
)

const mmPerPt = 25.4 / 72

type pdfColour struct {
	space   string // DeviceGray, DeviceRGB, DeviceCMYK, Pattern
	comps   []float64
	pattern pdfread.Name
}

type pdfGState struct {
	ctm            aff
	fill, stroke   pdfColour
	ca, CA         float64
	width          float64
	cap, join      int
	miter          float64
	dashes         []float64
	phase          float64
	clips          []region
	fillCS, strkCS string
}

func pdfInitialState() pdfGState {
	return pdfGState{ctm: ident, fill: pdfColour{space: "DeviceGray", comps: []float64{0}}, stroke: pdfColour{space: "DeviceGray", comps: []float64{0}},
		ca: 1, CA: 1, width: 1, miter: 10, fillCS: "DeviceGray", strkCS: "DeviceGray"}
}

type pdfInterp struct {
	doc      *pdfread.Doc
	page     *pdfread.Page
	dl       *displayList
	toMM     aff // default user space (pt) -> canvas mm
	gs       pdfGState
	stack    []pdfGState
	sps      []oracle.Subpath // current path in user space (of the CTM in force while it is built)
	cur      *oracle.Subpath
	pos      oracle.Pt
	src      strings.Builder // operators of the current path object, for messages
	clipNext *region
}

func nums(op pdfread.Op) []float64 {
	out := make([]float64, 0, len(op.Operands))
	for _, o := range op.Operands {
		if f, ok := pdfread.Num(o); ok {
			out = append(out, f)
		}
	}
	return out
}

func fmtOp(op pdfread.Op) string {
	var sb strings.Builder
	for _, o := range op.Operands {
		sb.WriteString(pdfread.Fmt(o))
		sb.WriteByte(' ')
	}
	sb.WriteString(op.Operator)
	return sb.String()
}

// pdfFunction evaluates a function dictionary of type 2 or 3 at x (one input), giving n outputs.
func (in *pdfInterp) pdfFunction(o pdfread.Object, x float64) ([]float64, error) {
	d, ok := in.doc.Dict(o)
	if !ok {
		return nil, fmt.Errorf("function is not a dictionary")
	}
	arr := func(k pdfread.Name) []float64 {
		a, _ := in.doc.Resolve(d[k]).(pdfread.Array)
		out := make([]float64, 0, len(a))
		for _, e := range a {
			f, ok := pdfread.Num(in.doc.Resolve(e))
			if !ok {
				return nil
			}
			out = append(out, f)
		}
		return out
	}
	dom := arr("Domain")
	if len(dom) < 2 {
		return nil, fmt.Errorf("function without /Domain")
	}
	x = math.Max(dom[0], math.Min(dom[1], x))
	ft, _ := pdfread.Num(in.doc.Resolve(d["FunctionType"]))
	switch int(ft) {
	case 2:
		c0, c1 := arr("C0"), arr("C1")
		if d["C0"] == nil {
			c0 = []float64{0}
		}
		if d["C1"] == nil {
			c1 = []float64{1}
		}
		n, ok := pdfread.Num(in.doc.Resolve(d["N"]))
		if !ok || len(c0) != len(c1) || len(c0) == 0 {
			return nil, fmt.Errorf("type 2 function: bad C0/C1/N")
		}
		out := make([]float64, len(c0))
		xn := math.Pow(x, n)
		for i := range out {
			out[i] = c0[i] + xn*(c1[i]-c0[i])
		}
		return out, nil
	case 3:
		fns, _ := in.doc.Resolve(d["Functions"]).(pdfread.Array)
		bounds, enc := arr("Bounds"), arr("Encode")
		k := len(fns)
		if k == 0 || len(bounds) != k-1 || len(enc) != 2*k {
			return nil, fmt.Errorf("type 3 function: %d functions, %d bounds (need %d), %d encode values (need %d)", k, len(bounds), k-1, len(enc), 2*k)
		}
		for i := 1; i < len(bounds); i++ {
			if bounds[i] < bounds[i-1] {
				return nil, fmt.Errorf("type 3 function: /Bounds %v is not in increasing order", bounds)
			}
		}
		for _, b := range bounds {
			if b < dom[0] || b > dom[1] {
				return nil, fmt.Errorf("type 3 function: /Bounds %v outside /Domain %v", bounds, dom)
			}
		}
		// subdomain i is [b(i-1), b(i)) with b(-1)=Domain0, b(k-1)=Domain1; the last one is closed
		i := 0
		for i < k-1 && x >= bounds[i] {
			i++
		}
		lo, hi := dom[0], dom[1]
		if i > 0 {
			lo = bounds[i-1]
		}
		if i < k-1 {
			hi = bounds[i]
		}
		t := enc[2*i]
		if hi > lo {
			t = enc[2*i] + (x-lo)*(enc[2*i+1]-enc[2*i])/(hi-lo)
		}
		return in.pdfFunction(fns[i], t)
	}
	return nil, fmt.Errorf("function type %v is not interpreted", ft)
}

// resolvePaint turns a colour of the graphics state into a display-list paint.
func (in *pdfInterp) resolvePaint(c pdfColour, alpha float64) (paint, bool) {
	comp := func(i int) float64 {
		if i < len(c.comps) {
			return math.Max(0, math.Min(1, c.comps[i]))
		}
		return 0
	}
	switch c.space {
	case "DeviceGray":
		return paint{solid: colour{comp(0), comp(0), comp(0), alpha}}, true
	case "DeviceRGB":
		return paint{solid: colour{comp(0), comp(1), comp(2), alpha}}, true
	case "DeviceCMYK":
		k := comp(3)
		return paint{solid: colour{1 - math.Min(1, comp(0)+k), 1 - math.Min(1, comp(1)+k), 1 - math.Min(1, comp(2)+k), alpha}}, true
	case "Pattern":
		pats := in.doc.ResourceCategory(in.page.Resources, "Pattern")
		pd, ok := in.doc.Dict(pats[c.pattern])
		if !ok {
			in.dl.problem("pdf-missing-resource", "pattern /%s is not in the page's /Pattern resources", c.pattern)
			return paint{}, false
		}
		pt, _ := pdfread.Num(in.doc.Resolve(pd["PatternType"]))
		if int(pt) != 2 {
			in.dl.problem("pdf-interpreter-limit", "pattern type %v is not interpreted", pt)
			return paint{}, false
		}
		sh, ok := in.doc.Dict(pd["Shading"])
		if !ok {
			in.dl.problem("pdf-bad-shading", "pattern /%s has no /Shading dictionary", c.pattern)
			return paint{}, false
		}
		st, _ := pdfread.Num(in.doc.Resolve(sh["ShadingType"]))
		if int(st) != 2 && int(st) != 3 {
			in.dl.problem("pdf-interpreter-limit", "shading type %v is not interpreted", st)
			return paint{}, false
		}
		if cs, _ := in.doc.Resolve(sh["ColorSpace"]).(pdfread.Name); cs != "DeviceRGB" {
			in.dl.problem("pdf-interpreter-limit", "shading colour space %v is not interpreted", sh["ColorSpace"])
			return paint{}, false
		}
		num := func(o pdfread.Object) []float64 {
			a, _ := in.doc.Resolve(o).(pdfread.Array)
			var out []float64
			for _, e := range a {
				if f, ok := pdfread.Num(in.doc.Resolve(e)); ok {
					out = append(out, f)
				}
			}
			return out
		}
		co := num(sh["Coords"])
		if int(st) == 2 && len(co) != 4 {
			in.dl.problem("pdf-bad-shading", "axial shading /Coords has %d numbers", len(co))
			return paint{}, false
		}
		if int(st) == 3 && (len(co) != 6 || co[2] < 0 || co[5] < 0) {
			in.dl.problem("pdf-bad-shading", "radial shading /Coords is %v (six numbers with non-negative radii)", co)
			return paint{}, false
		}
		dom := []float64{0, 1}
		if d := num(sh["Domain"]); len(d) == 2 {
			dom = d
		}
		ext := [2]bool{}
		if e, ok := in.doc.Resolve(sh["Extend"]).(pdfread.Array); ok && len(e) == 2 {
			ext[0], _ = in.doc.Resolve(e[0]).(bool)
			ext[1], _ = in.doc.Resolve(e[1]).(bool)
		}
		pm := ident
		if m := num(pd["Matrix"]); len(m) == 6 {
			pm = aff{m[0], m[1], m[2], m[3], m[4], m[5]}
		}
		// 8.7.3.1: the pattern matrix maps pattern space to the DEFAULT coordinate space of the page,
		// independently of the CTM in force when the pattern is used
		inv, ok := in.toMM.mul(pm).inv()
		if !ok {
			in.dl.problem("pdf-bad-shading", "pattern matrix is singular")
			return paint{}, false
		}
		fn := sh["Function"]
		if _, err := in.pdfFunction(fn, dom[0]); err != nil {
			in.dl.problem("pdf-bad-shading-function", "pattern /%s: %v", c.pattern, err)
			return paint{}, false
		}
		g := &gradient{toGrad: inv, p0: oracle.Pt{X: co[0], Y: co[1]}, p1: oracle.Pt{X: co[2], Y: co[3]}, extend: ext, alpha: alpha,
			desc: fmt.Sprintf("/%s axial (%.4g,%.4g)->(%.4g,%.4g) pt", c.pattern, co[0], co[1], co[2], co[3])}
		if int(st) == 3 {
			// 8.7.4.5.4: circles (x0,y0,r0) at t=0 and (x1,y1,r1) at t=1
			g = &gradient{toGrad: inv, radial: true, p0: oracle.Pt{X: co[0], Y: co[1]}, r0: co[2], p1: oracle.Pt{X: co[3], Y: co[4]}, r1: co[5], extend: ext, alpha: alpha,
				desc: fmt.Sprintf("/%s radial (%.4g,%.4g) r=%.4g -> (%.4g,%.4g) r=%.4g pt", c.pattern, co[0], co[1], co[2], co[3], co[4], co[5])}
		}
		g.colourAt = func(t float64) colour {
			v, err := in.pdfFunction(fn, dom[0]+t*(dom[1]-dom[0]))
			if err != nil || len(v) < 3 {
				return colour{}
			}
			cl := func(x float64) float64 { return math.Max(0, math.Min(1, x)) }
			return colour{cl(v[0]), cl(v[1]), cl(v[2]), 1}
		}
		return paint{grad: g}, true
	}
	in.dl.problem("pdf-interpreter-limit", "colour space %q is not interpreted", c.space)
	return paint{}, false
}

func (in *pdfInterp) pathKey() string {
	return "pdf|" + subpathsKey(in.sps) + "|" + in.gs.ctm.String()
}

func (in *pdfInterp) paintFill(evenOdd bool) {
	p, ok := in.resolvePaint(in.gs.fill, in.gs.ca)
	if !ok || len(in.sps) == 0 {
		return
	}
	total := in.toMM.mul(in.gs.ctm)
	pls := mapPolys(oracle.Dense(in.sps, 48), total)
	for i := range pls {
		pls[i].Closed = true // 8.5.3.3: filling implicitly closes open subpaths
	}
	in.dl.items = append(in.dl.items, item{role: "fill", reg: region{key: in.pathKey(), pls: pls, evenOdd: evenOdd}, clips: in.gs.clips, paint: p,
		src: clipStr(in.src.String(), 160)})
}

func (in *pdfInterp) paintStroke() {
	p, ok := in.resolvePaint(in.gs.stroke, in.gs.CA)
	if !ok || len(in.sps) == 0 {
		return
	}
	par := strokeParams{width: in.gs.width, cap: in.gs.cap, join: in.gs.join, limit: in.gs.miter, phase: in.gs.phase}
	sum := 0.0
	for _, d := range in.gs.dashes {
		sum += d
	}
	if sum > 0 {
		par.dashes = in.gs.dashes
	}
	if par.width == 0 {
		in.dl.tally("pdf-zero-width-stroke(thinnest device line)")
		return
	}
	total := in.toMM.mul(in.gs.ctm)
	it := item{role: "stroke", clips: in.gs.clips, paint: p, src: clipStr(in.src.String(), 160) + " {" + par.String() + "}"}
	it.reg = region{key: in.pathKey() + "|stroke|" + par.key(), pls: mapPolys(strokeOutline(in.sps, par, false), total)}
	it.widthMM = effectiveWidth(total, par.width)
	if len(par.dashes) > 0 && hasClosedSubpath(in.sps) {
		it.alt = &region{key: in.pathKey() + "|stroke-joined|" + par.key(), pls: mapPolys(strokeOutline(in.sps, par, true), total)}
	}
	in.dl.items = append(in.dl.items, it)
}

func (in *pdfInterp) closeSubpath() {
	if in.cur != nil && !in.cur.Closed {
		in.cur.Segs = append(in.cur.Segs, oracle.Seg{Kind: oracle.CmdClose, P0: in.pos, P1: in.cur.Start})
		in.cur.Closed = true
		in.pos = in.cur.Start
		in.cur = nil
	}
}

func (in *pdfInterp) endPath() {
	in.sps, in.cur = nil, nil
	in.src.Reset()
}

func (in *pdfInterp) ensure() bool {
	if in.cur == nil {
		if len(in.sps) == 0 {
			return false
		}
		// after h the current point is the start of the closed subpath; a new segment starts a new subpath there
		in.sps = append(in.sps, oracle.Subpath{Start: in.pos})
		in.cur = &in.sps[len(in.sps)-1]
	}
	return true
}

// interpretPDF parses the file and interprets the first page.
func interpretPDF(data []byte) *displayList {
	dl := &displayList{}
	doc, err := pdfread.Parse(data)
	if err != nil {
		dl.problem("pdf-structure", "%v", err)
		return dl
	}
	for _, p := range doc.Problems {
		dl.problem("pdf-structure", "%s", p.String())
	}
	pages, probs := doc.Pages()
	for _, p := range probs {
		dl.problem("pdf-structure", "%s", p.String())
	}
	if len(pages) != 1 {
		dl.problem("pdf-structure", "%d pages for one canvas", len(pages))
		if len(pages) == 0 {
			return dl
		}
	}
	pg := pages[0]
	in := &pdfInterp{doc: doc, page: pg, dl: dl, gs: pdfInitialState()}
	if !pg.HasBox {
		return dl
	}
	mb := pg.MediaBox
	wmm, hmm := (mb[2]-mb[0])*mmPerPt, (mb[3]-mb[1])*mmPerPt
	if math.Abs(wmm-CW) > 1e-3 || math.Abs(hmm-CH) > 1e-3 {
		dl.problem("pdf-mediabox", "MediaBox %v is %.5g mm x %.5g mm, the canvas is %g x %g mm", mb, wmm, hmm, CW, CH)
	}
	if ur, ok := pdfread.Num(doc.Resolve(pg.Dict["UserUnit"])); ok && ur != 1 {
		dl.problem("pdf-interpreter-limit", "/UserUnit %v", ur)
	}
	if rot, ok := pdfread.Num(doc.Resolve(pg.Dict["Rotate"])); ok && rot != 0 {
		dl.problem("pdf-interpreter-limit", "/Rotate %v", rot)
	}
	in.toMM = aff{mmPerPt, 0, 0, mmPerPt, -mb[0] * mmPerPt, -mb[1] * mmPerPt}
	ops, err := pdfread.ParseContent(pg.Content)
	if err != nil {
		dl.problem("pdf-content-syntax", "%v", err)
		return dl
	}
	// Table 51 membership, operand counts/types and the graphics-object state machine first:
	// what an invalid operator does is undefined, so nothing after it is interpreted
	for _, p := range pdfread.ValidateContent(ops) {
		cl := "pdf-" + p.Class
		if p.Class == "content-operator-invalid" {
			cl = "pdf-invalid-operator"
		}
		dl.problem(cl, "%s; content: %s", p.Detail, clipStr(string(pg.Content), 300))
	}
	if len(dl.problems) > 0 {
		return dl
	}
	for _, u := range pdfread.UsedResources(ops) {
		if doc.ResourceCategory(pg.Resources, u.Category)[u.Name] == nil {
			dl.problem("pdf-missing-resource", "%s /%s is not in the page's /%s resources", u.Operator, u.Name, u.Category)
		}
	}
	for _, op := range ops {
		v := nums(op)
		isPath := false
		switch op.Operator {
		// ---- graphics state
		case "q":
			s := in.gs
			s.dashes = append([]float64(nil), in.gs.dashes...)
			s.clips = append([]region(nil), in.gs.clips...)
			in.stack = append(in.stack, s)
		case "Q":
			in.gs = in.stack[len(in.stack)-1]
			in.stack = in.stack[:len(in.stack)-1]
		case "cm":
			in.gs.ctm = in.gs.ctm.mul(aff{v[0], v[1], v[2], v[3], v[4], v[5]})
		case "w":
			in.gs.width = v[0]
		case "J":
			in.gs.cap = int(v[0])
			if v[0] < 0 || v[0] > 2 {
				dl.problem("pdf-bad-operand", "line cap %v", v[0])
			}
		case "j":
			in.gs.join = int(v[0])
			if v[0] < 0 || v[0] > 2 {
				dl.problem("pdf-bad-operand", "line join %v", v[0])
			}
		case "M":
			in.gs.miter = v[0]
		case "d":
			arr, _ := op.Operands[0].(pdfread.Array)
			in.gs.dashes = nil
			for _, e := range arr {
				f, _ := pdfread.Num(e)
				in.gs.dashes = append(in.gs.dashes, f)
			}
			in.gs.phase, _ = pdfread.Num(op.Operands[1])
			if in.gs.phase < 0 {
				dl.problem("pdf-bad-operand", "negative dash phase %v", in.gs.phase)
			}
			if len(in.gs.dashes)%2 == 1 {
				// 8.4.3.6: the array is used cyclically, so an odd array alternates roles on each pass
				in.gs.dashes = append(in.gs.dashes, in.gs.dashes...)
			}
		case "ri", "i":
		case "gs":
			name := op.Operands[0].(pdfread.Name)
			egs, ok := doc.Dict(doc.ResourceCategory(pg.Resources, "ExtGState")[name])
			if !ok {
				break // reported above as pdf-missing-resource
			}
			for k, val := range egs {
				val = doc.Resolve(val)
				f, isNum := pdfread.Num(val)
				switch k {
				case "Type":
				case "CA":
					in.gs.CA = f
				case "ca":
					in.gs.ca = f
				case "LW":
					in.gs.width = f
				case "LC":
					in.gs.cap = int(f)
				case "LJ":
					in.gs.join = int(f)
				case "ML":
					in.gs.miter = f
				case "D":
					if a, ok := val.(pdfread.Array); ok && len(a) == 2 {
						da, _ := doc.Resolve(a[0]).(pdfread.Array)
						in.gs.dashes = nil
						for _, e := range da {
							x, _ := pdfread.Num(doc.Resolve(e))
							in.gs.dashes = append(in.gs.dashes, x)
						}
						in.gs.phase, _ = pdfread.Num(doc.Resolve(a[1]))
					}
				default:
					_ = isNum
					dl.tally("pdf-extgstate-key-not-interpreted:" + string(k))
				}
			}
		// ---- colour
		case "g":
			in.gs.fill = pdfColour{space: "DeviceGray", comps: v}
			in.gs.fillCS = "DeviceGray"
		case "G":
			in.gs.stroke = pdfColour{space: "DeviceGray", comps: v}
			in.gs.strkCS = "DeviceGray"
		case "rg":
			in.gs.fill = pdfColour{space: "DeviceRGB", comps: v}
			in.gs.fillCS = "DeviceRGB"
		case "RG":
			in.gs.stroke = pdfColour{space: "DeviceRGB", comps: v}
			in.gs.strkCS = "DeviceRGB"
		case "k":
			in.gs.fill = pdfColour{space: "DeviceCMYK", comps: v}
			in.gs.fillCS = "DeviceCMYK"
		case "K":
			in.gs.stroke = pdfColour{space: "DeviceCMYK", comps: v}
			in.gs.strkCS = "DeviceCMYK"
		case "cs", "CS":
			name, _ := op.Operands[0].(pdfread.Name)
			var init pdfColour
			switch name {
			case "DeviceGray":
				init = pdfColour{space: "DeviceGray", comps: []float64{0}}
			case "DeviceRGB":
				init = pdfColour{space: "DeviceRGB", comps: []float64{0, 0, 0}}
			case "DeviceCMYK":
				init = pdfColour{space: "DeviceCMYK", comps: []float64{0, 0, 0, 1}}
			case "Pattern":
				init = pdfColour{space: "Pattern"} // initial colour: a pattern that paints nothing
			default:
				dl.problem("pdf-interpreter-limit", "colour space /%s is not interpreted", name)
				init = pdfColour{space: string(name)}
			}
			if op.Operator == "cs" {
				in.gs.fill, in.gs.fillCS = init, init.space
			} else {
				in.gs.stroke, in.gs.strkCS = init, init.space
			}
		case "sc", "scn", "SC", "SCN":
			fillSide := op.Operator == "sc" || op.Operator == "scn"
			cs := in.gs.strkCS
			if fillSide {
				cs = in.gs.fillCS
			}
			c := pdfColour{space: cs, comps: v}
			if cs == "Pattern" {
				n, ok := op.Operands[len(op.Operands)-1].(pdfread.Name)
				if !ok {
					dl.problem("pdf-bad-operand", "%s in the Pattern colour space without a pattern name", op.Operator)
				}
				c.pattern = n
			} else {
				want := map[string]int{"DeviceGray": 1, "DeviceRGB": 3, "DeviceCMYK": 4}[cs]
				if want != 0 && len(v) != want {
					dl.problem("pdf-bad-operand", "%s with %d components in %s", op.Operator, len(v), cs)
				}
			}
			if fillSide {
				in.gs.fill = c
			} else {
				in.gs.stroke = c
			}
		// ---- path construction
		case "m":
			isPath = true
			in.pos = oracle.Pt{X: v[0], Y: v[1]}
			in.sps = append(in.sps, oracle.Subpath{Start: in.pos})
			in.cur = &in.sps[len(in.sps)-1]
		case "l":
			isPath = true
			if in.ensure() {
				p := oracle.Pt{X: v[0], Y: v[1]}
				in.cur.Segs = append(in.cur.Segs, oracle.MkLine(in.pos, p))
				in.pos = p
			}
		case "c", "v", "y":
			isPath = true
			if in.ensure() {
				var c1, c2, p oracle.Pt
				switch op.Operator {
				case "c":
					c1, c2, p = oracle.Pt{X: v[0], Y: v[1]}, oracle.Pt{X: v[2], Y: v[3]}, oracle.Pt{X: v[4], Y: v[5]}
				case "v":
					c1, c2, p = in.pos, oracle.Pt{X: v[0], Y: v[1]}, oracle.Pt{X: v[2], Y: v[3]}
				case "y":
					c1, c2, p = oracle.Pt{X: v[0], Y: v[1]}, oracle.Pt{X: v[2], Y: v[3]}, oracle.Pt{X: v[2], Y: v[3]}
				}
				in.cur.Segs = append(in.cur.Segs, oracle.MkCube(in.pos, c1, c2, p))
				in.pos = p
			}
		case "h":
			isPath = true
			in.closeSubpath()
		case "re":
			isPath = true
			x, y, w, h := v[0], v[1], v[2], v[3]
			a, b, c, d := oracle.Pt{X: x, Y: y}, oracle.Pt{X: x + w, Y: y}, oracle.Pt{X: x + w, Y: y + h}, oracle.Pt{X: x, Y: y + h}
			in.sps = append(in.sps, oracle.Chain(true, oracle.MkLine(a, b), oracle.MkLine(b, c), oracle.MkLine(c, d)))
			in.cur = nil
			in.pos = a
		// ---- clipping: takes effect after the painting operator that ends the path
		case "W", "W*":
			isPath = true
			total := in.toMM.mul(in.gs.ctm)
			pls := mapPolys(oracle.Dense(in.sps, 48), total)
			for i := range pls {
				pls[i].Closed = true
			}
			in.clipNext = &region{key: in.pathKey() + "|clip", pls: pls, evenOdd: op.Operator == "W*"}
		// ---- painting
		case "S":
			in.src.WriteString(" S")
			in.paintStroke()
			in.finishPath()
		case "s":
			in.src.WriteString(" s")
			in.closeSubpath()
			in.paintStroke()
			in.finishPath()
		case "f", "F":
			in.src.WriteString(" " + op.Operator)
			in.paintFill(false)
			in.finishPath()
		case "f*":
			in.src.WriteString(" f*")
			in.paintFill(true)
			in.finishPath()
		case "B", "B*", "b", "b*":
			in.src.WriteString(" " + op.Operator)
			if op.Operator[0] == 'b' {
				in.closeSubpath()
			}
			// 8.5.3.1: B = fill then stroke
			n0 := len(dl.items)
			in.paintFill(strings.HasSuffix(op.Operator, "*"))
			n1 := len(dl.items)
			in.paintStroke()
			if (in.gs.ca < 1 || in.gs.CA < 1) && n1 == n0+1 && len(dl.items) == n1+1 {
				// 11.7.4.4: fill and stroke of ONE operator are an implied non-isolated knockout
				// group: the stroke replaces, not overlays, the fill of the same object
				dl.items[n1].knocksOutPrev = true
				dl.tally("pdf-fill-and-stroke-in-one-operator-with-alpha(knockout group)")
			}
			in.finishPath()
		case "n":
			in.finishPath()
		case "Do":
			name, _ := op.Operands[0].(pdfread.Name)
			in.paintXObject(name, fmtOp(op))
		case "BT", "ET", "Tf", "Tm", "Td", "TD", "T*", "Tr", "Tc", "Tw", "Tz", "TL", "Ts", "Tj", "TJ", "'", "\"":
			// text objects and text state: not part of the compared display list (the graphics state
			// operators between BT and ET are interpreted as everywhere else)
		default:
			dl.problem("pdf-unexpected-operator", "operator %q (%s) in the content of a path-only drawing", op.Operator, pdfread.Operators[op.Operator].Category)
		}
		if isPath {
			in.src.WriteByte(' ')
			in.src.WriteString(fmtOp(op))
		}
	}
	return dl
}

func (in *pdfInterp) finishPath() {
	if in.clipNext != nil {
		in.gs.clips = append(append([]region(nil), in.gs.clips...), *in.clipNext)
		in.clipNext = nil
	}
	in.endPath()
}

// pdfImageSamples decodes an image XObject of 8 bits per component in DeviceRGB or DeviceGray
// (8.9.5): rows top to bottom, each row padded to a whole byte (trivially so at 8 bits).
func (in *pdfInterp) pdfImageSamples(st *pdfread.Stream, what string) (w, h, ncomp int, data []byte, ok bool) {
	num := func(k pdfread.Name) (int, bool) {
		v, ok := in.doc.Resolve(st.Dict[k]).(int64)
		return int(v), ok
	}
	if sub, _ := in.doc.Resolve(st.Dict["Subtype"]).(pdfread.Name); sub != "Image" {
		in.dl.problem("pdf-interpreter-limit", "%s: XObject subtype %v is not interpreted", what, st.Dict["Subtype"])
		return
	}
	w, ok1 := num("Width")
	h, ok2 := num("Height")
	bpc, ok3 := num("BitsPerComponent")
	if !ok1 || !ok2 || !ok3 || w <= 0 || h <= 0 {
		in.dl.problem("pdf-bad-image", "%s: /Width, /Height or /BitsPerComponent missing or not integers", what)
		return
	}
	if bpc != 8 {
		in.dl.problem("pdf-interpreter-limit", "%s: %d bits per component", what, bpc)
		return
	}
	switch cs, _ := in.doc.Resolve(st.Dict["ColorSpace"]).(pdfread.Name); cs {
	case "DeviceRGB":
		ncomp = 3
	case "DeviceGray":
		ncomp = 1
	default:
		in.dl.problem("pdf-interpreter-limit", "%s: colour space %v", what, st.Dict["ColorSpace"])
		return
	}
	if _, has := st.Dict["Decode"]; has {
		in.dl.problem("pdf-interpreter-limit", "%s: /Decode array", what)
		return
	}
	if _, has := st.Dict["Mask"]; has {
		in.dl.problem("pdf-interpreter-limit", "%s: /Mask", what)
		return
	}
	if im, _ := in.doc.Resolve(st.Dict["ImageMask"]).(bool); im {
		in.dl.problem("pdf-interpreter-limit", "%s: /ImageMask", what)
		return
	}
	fs, _ := st.Filters()
	for _, f := range fs {
		if f == "DCTDecode" || f == "DCT" {
			in.dl.problem("pdf-interpreter-limit", "%s: DCTDecode (lossy encoding is outside the bound)", what)
			return
		}
	}
	data, err := st.Decode()
	if err != nil {
		in.dl.problem("pdf-bad-image", "%s: %v", what, err)
		return
	}
	if !st.LengthOK {
		in.dl.problem("pdf-bad-image", "%s: stream /Length is wrong", what)
	}
	if len(data) < w*h*ncomp {
		in.dl.problem("pdf-bad-image", "%s: %d bytes of sample data, %d x %d x %d = %d needed", what, len(data), w, h, ncomp, w*h*ncomp)
		return 0, 0, 0, nil, false
	}
	if len(data) > w*h*ncomp {
		in.dl.tally("pdf-image-data-longer-than-needed")
	}
	return w, h, ncomp, data, true
}

// paintXObject: Do with an image XObject paints the image into the unit square of user space,
// the first sample row along the TOP edge (y = 1), 8.9.4 / Figure 34; a soft mask image (SMask,
// 11.6.5.3) gives the per-sample alpha; the nonstroking alpha constant applies on top.
func (in *pdfInterp) paintXObject(name pdfread.Name, src string) {
	xo := in.doc.ResourceCategory(in.page.Resources, "XObject")
	st, ok := in.doc.Resolve(xo[name]).(*pdfread.Stream)
	if !ok {
		return // reported as pdf-missing-resource, or not a stream
	}
	w, h, nc, data, ok := in.pdfImageSamples(st, "image /"+string(name))
	if !ok {
		return
	}
	var alpha []byte
	if sm, has := st.Dict["SMask"]; has {
		ms, ok := in.doc.Resolve(sm).(*pdfread.Stream)
		if !ok {
			in.dl.problem("pdf-bad-image", "image /%s: /SMask is not a stream", name)
			return
		}
		mw, mh, mnc, md, ok := in.pdfImageSamples(ms, "soft mask of /"+string(name))
		if !ok {
			return
		}
		if mnc != 1 {
			in.dl.problem("pdf-bad-image", "soft mask of /%s is not DeviceGray", name)
			return
		}
		if mw != w || mh != h {
			in.dl.problem("pdf-interpreter-limit", "soft mask of /%s is %dx%d, the image %dx%d", name, mw, mh, w, h)
			return
		}
		alpha = md
	}
	pix := make([]colour, w*h)
	for k := range pix {
		a := 1.0
		if alpha != nil {
			a = float64(alpha[k]) / 255
		}
		if nc == 3 {
			pix[k] = colour{float64(data[3*k]) / 255, float64(data[3*k+1]) / 255, float64(data[3*k+2]) / 255, a}
		} else {
			g := float64(data[k]) / 255
			pix[k] = colour{g, g, g, a}
		}
	}
	// image space (u,v) -> unit square (u/w, 1 - v/h) -> CTM -> page -> mm
	total := in.toMM.mul(in.gs.ctm).mul(aff{1 / float64(w), 0, 0, -1 / float64(h), 0, 1})
	im, ok := newRaster(w, h, pix, total, in.gs.ca, fmt.Sprintf("/%s %dx%d", name, w, h))
	if !ok {
		in.dl.tally("pdf-image-under-singular-ctm")
		return
	}
	in.dl.items = append(in.dl.items, item{role: "image", reg: im.quad("pdf"), clips: in.gs.clips, paint: paint{img: im},
		src: fmt.Sprintf("CTM %s %s (ca %.3g, %d clipping paths)", in.gs.ctm.String(), src, in.gs.ca, len(in.gs.clips))})
}
