package c12

// Independent interpreter of the SVG subset a path-only canvas can produce, written from the
// SVG 1.1 specification (chapters 7 coordinate systems, 8 paths, 11 painting, 13 gradients) and
// the SVG 2 additions to stroke-linejoin. The result is a display list in canvas millimetres
// with the y axis pointing up.

import (
	"bytes"
	"encoding/base64"
	"encoding/xml"
	"fmt"
	"image"
	"image/color"
	"image/png"
	"math"
	"strconv"
	"strings"

	"verif/internal/oracle"
)

// ---- numbers, lengths ----------------------------------------------------------------------

type svgScanner struct {
	s   string
	pos int
}

func (sc *svgScanner) skipWS() {
	for sc.pos < len(sc.s) {
		switch sc.s[sc.pos] {
		case ' ', '\t', '\n', '\r', '\f':
			sc.pos++
		default:
			return
		}
	}
}

func (sc *svgScanner) skipCommaWS() {
	sc.skipWS()
	if sc.pos < len(sc.s) && sc.s[sc.pos] == ',' {
		sc.pos++
		sc.skipWS()
	}
}

// number scans an SVG number: sign? (digits ('.' digits?)? | '.' digits) exponent?
func (sc *svgScanner) number() (float64, bool) {
	i := sc.pos
	s := sc.s
	if i < len(s) && (s[i] == '+' || s[i] == '-') {
		i++
	}
	nd := 0
	for i < len(s) && s[i] >= '0' && s[i] <= '9' {
		i++
		nd++
	}
	if i < len(s) && s[i] == '.' {
		i++
		for i < len(s) && s[i] >= '0' && s[i] <= '9' {
			i++
			nd++
		}
	}
	if nd == 0 {
		return 0, false
	}
	if i < len(s) && (s[i] == 'e' || s[i] == 'E') {
		j := i + 1
		if j < len(s) && (s[j] == '+' || s[j] == '-') {
			j++
		}
		k := j
		for k < len(s) && s[k] >= '0' && s[k] <= '9' {
			k++
		}
		if k > j {
			i = k
		}
	}
	v, err := strconv.ParseFloat(s[sc.pos:i], 64)
	if err != nil {
		return 0, false
	}
	sc.pos = i
	return v, true
}

// flag scans a single '0' or '1' (arc flags may be packed without separators).
func (sc *svgScanner) flag() (bool, bool) {
	if sc.pos < len(sc.s) && (sc.s[sc.pos] == '0' || sc.s[sc.pos] == '1') {
		v := sc.s[sc.pos] == '1'
		sc.pos++
		return v, true
	}
	return false, false
}

// svgLength parses a length into millimetres (CSS absolute units; user units are px = 1/96 in).
func svgLength(s string) (mm float64, unit string, ok bool) {
	sc := &svgScanner{s: strings.TrimSpace(s)}
	v, ok := sc.number()
	if !ok {
		return 0, "", false
	}
	unit = strings.TrimSpace(sc.s[sc.pos:])
	switch unit {
	case "mm":
		return v, unit, true
	case "cm":
		return v * 10, unit, true
	case "in":
		return v * 25.4, unit, true
	case "pt":
		return v * 25.4 / 72, unit, true
	case "pc":
		return v * 25.4 / 6, unit, true
	case "px", "":
		return v * 25.4 / 96, unit, true
	}
	return 0, unit, false
}

// ---- path data (SVG 1.1 §8.3) --------------------------------------------------------------

func parseSVGPath(d string) ([]oracle.Subpath, error) {
	sc := &svgScanner{s: d}
	var sps []oracle.Subpath
	var cur *oracle.Subpath
	var pos, start oracle.Pt
	var lastCtrl oracle.Pt
	lastKind := byte(0)
	var cmd byte
	first := true
	num := func() (float64, error) {
		sc.skipCommaWS()
		v, ok := sc.number()
		if !ok {
			return 0, fmt.Errorf("number expected at offset %d of %q", sc.pos, clipStr(d, 80))
		}
		return v, nil
	}
	nums := func(n int) ([]float64, error) {
		out := make([]float64, n)
		for i := range out {
			v, err := num()
			if err != nil {
				return nil, err
			}
			out[i] = v
		}
		return out, nil
	}
	ensure := func() {
		if cur == nil {
			sps = append(sps, oracle.Subpath{Start: pos})
			cur = &sps[len(sps)-1]
			start = pos
		}
	}
	for {
		sc.skipWS()
		if sc.pos >= len(sc.s) {
			break
		}
		c := sc.s[sc.pos]
		isCmd := strings.IndexByte("MmZzLlHhVvCcSsQqTtAa", c) >= 0
		if isCmd {
			cmd = c
			sc.pos++
		} else {
			// implicit repetition of the previous command
			if cmd == 0 || cmd == 'Z' || cmd == 'z' {
				return nil, fmt.Errorf("unexpected %q at offset %d of %q", c, sc.pos, clipStr(d, 80))
			}
			if cmd == 'M' {
				cmd = 'L'
			} else if cmd == 'm' {
				cmd = 'l'
			}
			sc.skipCommaWS()
		}
		if first && cmd != 'M' && cmd != 'm' {
			return nil, fmt.Errorf("path data does not start with a moveto: %q", clipStr(d, 80))
		}
		first = false
		rel := cmd >= 'a' && cmd <= 'z'
		abs := func(x, y float64) oracle.Pt {
			if rel {
				return oracle.Pt{X: pos.X + x, Y: pos.Y + y}
			}
			return oracle.Pt{X: x, Y: y}
		}
		switch cmd {
		case 'M', 'm':
			v, err := nums(2)
			if err != nil {
				return nil, err
			}
			pos = abs(v[0], v[1])
			sps = append(sps, oracle.Subpath{Start: pos})
			cur = &sps[len(sps)-1]
			start = pos
		case 'Z', 'z':
			ensure()
			cur.Segs = append(cur.Segs, oracle.Seg{Kind: oracle.CmdClose, P0: pos, P1: start})
			cur.Closed = true
			pos = start
			cur = nil // the next drawing command starts a new subpath at the same point
		case 'L', 'l':
			v, err := nums(2)
			if err != nil {
				return nil, err
			}
			ensure()
			p := abs(v[0], v[1])
			cur.Segs = append(cur.Segs, oracle.MkLine(pos, p))
			pos = p
		case 'H', 'h':
			v, err := num()
			if err != nil {
				return nil, err
			}
			ensure()
			p := oracle.Pt{X: v, Y: pos.Y}
			if rel {
				p.X = pos.X + v
			}
			cur.Segs = append(cur.Segs, oracle.MkLine(pos, p))
			pos = p
		case 'V', 'v':
			v, err := num()
			if err != nil {
				return nil, err
			}
			ensure()
			p := oracle.Pt{X: pos.X, Y: v}
			if rel {
				p.Y = pos.Y + v
			}
			cur.Segs = append(cur.Segs, oracle.MkLine(pos, p))
			pos = p
		case 'C', 'c':
			v, err := nums(6)
			if err != nil {
				return nil, err
			}
			ensure()
			c1, c2, p := abs(v[0], v[1]), abs(v[2], v[3]), abs(v[4], v[5])
			cur.Segs = append(cur.Segs, oracle.MkCube(pos, c1, c2, p))
			lastCtrl, pos = c2, p
		case 'S', 's':
			v, err := nums(4)
			if err != nil {
				return nil, err
			}
			ensure()
			c1 := pos
			if lastKind == 'C' {
				c1 = oracle.Pt{X: 2*pos.X - lastCtrl.X, Y: 2*pos.Y - lastCtrl.Y}
			}
			c2, p := abs(v[0], v[1]), abs(v[2], v[3])
			cur.Segs = append(cur.Segs, oracle.MkCube(pos, c1, c2, p))
			lastCtrl, pos = c2, p
		case 'Q', 'q':
			v, err := nums(4)
			if err != nil {
				return nil, err
			}
			ensure()
			c1, p := abs(v[0], v[1]), abs(v[2], v[3])
			cur.Segs = append(cur.Segs, oracle.MkQuad(pos, c1, p))
			lastCtrl, pos = c1, p
		case 'T', 't':
			v, err := nums(2)
			if err != nil {
				return nil, err
			}
			ensure()
			c1 := pos
			if lastKind == 'Q' {
				c1 = oracle.Pt{X: 2*pos.X - lastCtrl.X, Y: 2*pos.Y - lastCtrl.Y}
			}
			p := abs(v[0], v[1])
			cur.Segs = append(cur.Segs, oracle.MkQuad(pos, c1, p))
			lastCtrl, pos = c1, p
		case 'A', 'a':
			v, err := nums(3)
			if err != nil {
				return nil, err
			}
			sc.skipCommaWS()
			large, ok1 := sc.flag()
			sc.skipCommaWS()
			sweep, ok2 := sc.flag()
			if !ok1 || !ok2 {
				return nil, fmt.Errorf("arc flag expected at offset %d of %q", sc.pos, clipStr(d, 80))
			}
			e, err := nums(2)
			if err != nil {
				return nil, err
			}
			ensure()
			p := abs(e[0], e[1])
			rx, ry := math.Abs(v[0]), math.Abs(v[1])
			switch {
			case p == pos:
				// F.6.2: identical end points: the segment is omitted
			case rx == 0 || ry == 0:
				cur.Segs = append(cur.Segs, oracle.MkLine(pos, p))
			default:
				cur.Segs = append(cur.Segs, oracle.Seg{Kind: oracle.CmdArc, P0: pos, P1: p, Rx: rx, Ry: ry, Phi: v[2] * math.Pi / 180, Large: large, Sweep: sweep})
			}
			pos = p
		}
		switch cmd {
		case 'C', 'c', 'S', 's':
			lastKind = 'C'
		case 'Q', 'q', 'T', 't':
			lastKind = 'Q'
		default:
			lastKind = 0
		}
	}
	return sps, nil
}

// ---- transform lists (SVG 1.1 §7.6) --------------------------------------------------------

func parseSVGTransform(s string) (aff, error) {
	m := ident
	sc := &svgScanner{s: s}
	for {
		sc.skipCommaWS()
		if sc.pos >= len(sc.s) {
			return m, nil
		}
		i := sc.pos
		for sc.pos < len(sc.s) && (sc.s[sc.pos] >= 'a' && sc.s[sc.pos] <= 'z' || sc.s[sc.pos] >= 'A' && sc.s[sc.pos] <= 'Z') {
			sc.pos++
		}
		name := sc.s[i:sc.pos]
		sc.skipWS()
		if sc.pos >= len(sc.s) || sc.s[sc.pos] != '(' {
			return m, fmt.Errorf("transform %q: '(' expected after %q", s, name)
		}
		sc.pos++
		var args []float64
		for {
			sc.skipCommaWS()
			if sc.pos < len(sc.s) && sc.s[sc.pos] == ')' {
				sc.pos++
				break
			}
			v, ok := sc.number()
			if !ok {
				return m, fmt.Errorf("transform %q: number expected at offset %d", s, sc.pos)
			}
			args = append(args, v)
		}
		var t aff
		n := len(args)
		switch {
		case name == "matrix" && n == 6:
			t = aff{args[0], args[1], args[2], args[3], args[4], args[5]}
		case name == "translate" && n == 1:
			t = affTranslate(args[0], 0)
		case name == "translate" && n == 2:
			t = affTranslate(args[0], args[1])
		case name == "scale" && n == 1:
			t = affScale(args[0], args[0])
		case name == "scale" && n == 2:
			t = affScale(args[0], args[1])
		case name == "rotate" && n == 1:
			t = affRotate(args[0])
		case name == "rotate" && n == 3:
			t = affTranslate(args[1], args[2]).mul(affRotate(args[0])).mul(affTranslate(-args[1], -args[2]))
		case name == "skewX" && n == 1:
			t = aff{1, 0, math.Tan(args[0] * math.Pi / 180), 1, 0, 0}
		case name == "skewY" && n == 1:
			t = aff{1, math.Tan(args[0] * math.Pi / 180), 0, 1, 0, 0}
		default:
			return m, fmt.Errorf("transform %q: unknown function %q with %d arguments", s, name, n)
		}
		m = m.mul(t) // the list is applied right to left: the leftmost is outermost
	}
}

// ---- colours -------------------------------------------------------------------------------

var svgNamedColours = map[string][3]float64{
	"black": {0, 0, 0}, "white": {255, 255, 255}, "red": {255, 0, 0}, "lime": {0, 255, 0}, "green": {0, 128, 0},
	"blue": {0, 0, 255}, "gray": {128, 128, 128}, "grey": {128, 128, 128}, "yellow": {255, 255, 0},
	"silver": {192, 192, 192}, "maroon": {128, 0, 0}, "navy": {0, 0, 128}, "teal": {0, 128, 128},
	"olive": {128, 128, 0}, "purple": {128, 0, 128}, "fuchsia": {255, 0, 255}, "aqua": {0, 255, 255},
	"cyan": {0, 255, 255}, "magenta": {255, 0, 255}, "orange": {255, 165, 0},
}

// parseSVGColour parses #rgb, #rrggbb, rgb(), rgba() (CSS Color 3) and the basic keywords.
func parseSVGColour(s string) (colour, bool) {
	s = strings.TrimSpace(s)
	ls := strings.ToLower(s)
	if strings.HasPrefix(ls, "#") {
		h := ls[1:]
		hv := func(c byte) (float64, bool) {
			switch {
			case c >= '0' && c <= '9':
				return float64(c - '0'), true
			case c >= 'a' && c <= 'f':
				return float64(c-'a') + 10, true
			}
			return 0, false
		}
		var v [6]float64
		switch len(h) {
		case 3:
			for i := 0; i < 3; i++ {
				x, ok := hv(h[i])
				if !ok {
					return colour{}, false
				}
				v[2*i], v[2*i+1] = x, x
			}
		case 6:
			for i := 0; i < 6; i++ {
				x, ok := hv(h[i])
				if !ok {
					return colour{}, false
				}
				v[i] = x
			}
		default:
			return colour{}, false
		}
		return colour{(v[0]*16 + v[1]) / 255, (v[2]*16 + v[3]) / 255, (v[4]*16 + v[5]) / 255, 1}, true
	}
	if c, ok := svgNamedColours[ls]; ok {
		return colour{c[0] / 255, c[1] / 255, c[2] / 255, 1}, true
	}
	for _, fn := range []string{"rgba(", "rgb("} {
		if strings.HasPrefix(ls, fn) && strings.HasSuffix(ls, ")") {
			parts := strings.Split(ls[len(fn):len(ls)-1], ",")
			if len(parts) != 3 && len(parts) != 4 {
				return colour{}, false
			}
			var comp [4]float64
			comp[3] = 1
			for i, p := range parts {
				p = strings.TrimSpace(p)
				pct := strings.HasSuffix(p, "%")
				p = strings.TrimSuffix(p, "%")
				v, err := strconv.ParseFloat(p, 64)
				if err != nil {
					return colour{}, false
				}
				if i < 3 {
					if pct {
						v = v / 100
					} else {
						v = v / 255
					}
				} else if pct {
					v = v / 100
				}
				comp[i] = math.Max(0, math.Min(1, v))
			}
			return colour{comp[0], comp[1], comp[2], comp[3]}, true
		}
	}
	return colour{}, false
}

// ---- properties ----------------------------------------------------------------------------

type svgProps struct {
	fill, stroke               string
	fillRule                   string
	fillOpacity, strokeOpacity float64
	strokeWidth                float64
	linecap, linejoin          string
	miterlimit                 float64
	dasharray                  []float64
	dashoffset                 float64
}

func svgInitial() svgProps {
	return svgProps{fill: "black", stroke: "none", fillRule: "nonzero", fillOpacity: 1, strokeOpacity: 1, strokeWidth: 1,
		linecap: "butt", linejoin: "miter", miterlimit: 4}
}

var svgKnownIgnorable = map[string]bool{"d": true, "transform": true, "style": true, "class": true, "id": true, "opacity": true,
	"xmlns": true, "version": true, "width": true, "height": true, "viewBox": true, "xlink": true}

// apply sets one property; returns false for a name that is not a painting property handled here.
func (p *svgProps) apply(name, val string, dl *displayList) bool {
	val = strings.TrimSpace(val)
	f := func() (float64, bool) {
		sc := &svgScanner{s: val}
		v, ok := sc.number()
		rest := strings.TrimSpace(val[sc.pos:])
		if !ok || (rest != "" && rest != "px") {
			dl.problem("svg-bad-value", "property %s has value %q", name, val)
			return 0, false
		}
		return v, true
	}
	switch name {
	case "fill":
		p.fill = val
	case "stroke":
		p.stroke = val
	case "fill-rule":
		if val != "nonzero" && val != "evenodd" {
			dl.problem("svg-bad-value", "fill-rule %q", val)
		}
		p.fillRule = val
	case "fill-opacity":
		if v, ok := f(); ok {
			p.fillOpacity = math.Max(0, math.Min(1, v))
		}
	case "stroke-opacity":
		if v, ok := f(); ok {
			p.strokeOpacity = math.Max(0, math.Min(1, v))
		}
	case "stroke-width":
		if v, ok := f(); ok {
			if v < 0 {
				dl.problem("svg-bad-value", "negative stroke-width %q", val)
			}
			p.strokeWidth = v
		}
	case "stroke-linecap":
		if val != "butt" && val != "round" && val != "square" {
			dl.problem("svg-bad-value", "stroke-linecap %q", val)
		}
		p.linecap = val
	case "stroke-linejoin":
		switch val {
		case "miter", "round", "bevel":
		case "arcs", "miter-clip":
			dl.tally("svg-linejoin-" + val + "-is-SVG2-only-in-a-version-1.1-document")
		default:
			dl.problem("svg-bad-value", "stroke-linejoin %q", val)
		}
		p.linejoin = val
	case "stroke-miterlimit":
		if v, ok := f(); ok {
			if v < 1 {
				dl.problem("svg-bad-value", "stroke-miterlimit %q is less than 1", val)
			}
			p.miterlimit = v
		}
	case "stroke-dasharray":
		p.dasharray = nil
		if val != "none" {
			sc := &svgScanner{s: val}
			for {
				sc.skipCommaWS()
				if sc.pos >= len(sc.s) {
					break
				}
				v, ok := sc.number()
				if !ok || v < 0 {
					dl.problem("svg-bad-value", "stroke-dasharray %q", val)
					p.dasharray = nil
					break
				}
				p.dasharray = append(p.dasharray, v)
			}
		}
	case "stroke-dashoffset":
		if v, ok := f(); ok {
			p.dashoffset = v
		}
	default:
		return false
	}
	return true
}

type svgGradient struct {
	units          string
	x1, y1, x2, y2 float64
	// radial: end circle (cx, cy, r), focal (start) circle (fx, fy, fr); fx/fy default to cx/cy, fr to 0, r to 50%
	radial                bool
	cx, cy, r, fx, fy, fr float64
	hasFx, hasFy          bool
	transform      aff
	stops          []struct {
		off float64
		c   colour
	}
	spread string
}

// ---- the interpreter -----------------------------------------------------------------------

func attrMap(se xml.StartElement) map[string]string {
	m := map[string]string{}
	for _, a := range se.Attr {
		m[a.Name.Local] = a.Value
	}
	return m
}

func interpretSVG(doc []byte) *displayList {
	dl := &displayList{}
	dec := xml.NewDecoder(strings.NewReader(string(doc)))
	type frame struct {
		props   svgProps
		ctm     aff // element user space -> root user space
		opacity float64
	}
	stack := []frame{{props: svgInitial(), ctm: ident, opacity: 1}}
	grads := map[string]*svgGradient{}
	var curGrad *svgGradient
	var toMM aff // root user units -> canvas mm, y up
	haveRoot := false
	depth := 0
	inDefs := 0
	type pending struct {
		sps     []oracle.Subpath
		d       string
		props   svgProps
		ctm     aff
		opacity float64
		image   *svgImage
	}
	var shapes []pending
	for {
		tok, err := dec.Token()
		if err != nil {
			if err.Error() != "EOF" {
				dl.problem("svg-xml", "%v", err)
			}
			break
		}
		switch t := tok.(type) {
		case xml.StartElement:
			depth++
			am := attrMap(t)
			top := stack[len(stack)-1]
			fr := frame{props: top.props, ctm: top.ctm, opacity: 1}
			fr.props.dasharray = append([]float64(nil), top.props.dasharray...)
			// presentation attributes first, then the style attribute (CSS declarations win)
			for _, a := range t.Attr {
				if a.Name.Space != "" && a.Name.Space != "http://www.w3.org/2000/svg" {
					continue
				}
				if !fr.props.apply(a.Name.Local, a.Value, dl) && !svgKnownIgnorable[a.Name.Local] {
					switch t.Name.Local {
					case "linearGradient", "radialGradient", "stop", "svg", "image":
					default:
						dl.tally("svg-attribute-not-interpreted:" + a.Name.Local)
					}
				}
			}
			if st, ok := am["style"]; ok {
				for _, decl := range strings.Split(st, ";") {
					if strings.TrimSpace(decl) == "" {
						continue
					}
					kv := strings.SplitN(decl, ":", 2)
					if len(kv) != 2 {
						dl.problem("svg-bad-value", "style declaration %q", decl)
						continue
					}
					name := strings.TrimSpace(kv[0])
					if name == "opacity" {
						am["opacity"] = kv[1]
						continue
					}
					if !fr.props.apply(name, kv[1], dl) {
						dl.tally("svg-style-property-not-interpreted:" + name)
					}
				}
			}
			if o, ok := am["opacity"]; ok {
				v, err := strconv.ParseFloat(strings.TrimSpace(o), 64)
				if err != nil {
					dl.problem("svg-bad-value", "opacity %q", o)
				} else {
					fr.opacity = math.Max(0, math.Min(1, v))
				}
			}
			fr.opacity *= top.opacity
			if tr, ok := am["transform"]; ok && t.Name.Local != "svg" {
				m, err := parseSVGTransform(tr)
				if err != nil {
					dl.problem("svg-transform-syntax", "%v", err)
				}
				fr.ctm = top.ctm.mul(m)
			}
			switch t.Name.Local {
			case "svg":
				if depth != 1 {
					dl.problem("svg-unsupported-element", "nested svg element")
					break
				}
				haveRoot = true
				wmm, wu, ok1 := svgLength(am["width"])
				hmm, hu, ok2 := svgLength(am["height"])
				if !ok1 || !ok2 {
					dl.problem("svg-size", "width=%q height=%q are not lengths", am["width"], am["height"])
					wmm, hmm = CW, CH
				}
				_ = wu
				_ = hu
				vb := []float64{0, 0, wmm * 96 / 25.4, hmm * 96 / 25.4}
				if s, ok := am["viewBox"]; ok {
					sc := &svgScanner{s: s}
					var v []float64
					for {
						sc.skipCommaWS()
						x, ok := sc.number()
						if !ok {
							break
						}
						v = append(v, x)
					}
					if len(v) != 4 || v[2] <= 0 || v[3] <= 0 || strings.TrimSpace(sc.s[sc.pos:]) != "" {
						dl.problem("svg-size", "viewBox %q", s)
					} else {
						vb = v
					}
				}
				if math.Abs(wmm-CW) > 1e-6 || math.Abs(hmm-CH) > 1e-6 {
					dl.problem("svg-size", "the document is %.6g mm x %.6g mm (width=%q height=%q), the canvas is %g x %g mm", wmm, hmm, am["width"], am["height"], CW, CH)
				}
				sx, sy := wmm/vb[2], hmm/vb[3]
				if !(math.Abs(sx-sy) <= 1e-9*math.Max(sx, sy)) {
					// preserveAspectRatio (default xMidYMid meet) would apply: uniform scale, centred
					s := math.Min(sx, sy)
					dl.tally("svg-viewbox-aspect-differs")
					ox, oy := (wmm-vb[2]*s)/2, (hmm-vb[3]*s)/2
					toMM = aff{s, 0, 0, -s, ox - vb[0]*s, hmm - oy + vb[1]*s}
				} else {
					toMM = aff{sx, 0, 0, -sy, -vb[0] * sx, hmm + vb[1]*sy}
				}
			case "defs":
				inDefs++
			case "g":
			case "linearGradient", "radialGradient":
				g := &svgGradient{units: "objectBoundingBox", x1: 0, y1: 0, x2: 1, y2: 0, transform: ident, spread: "pad", radial: t.Name.Local == "radialGradient", cx: 0.5, cy: 0.5, r: 0.5}
				pf := func(name string, dst *float64) {
					if s, ok := am[name]; ok {
						s = strings.TrimSpace(s)
						pct := strings.HasSuffix(s, "%")
						v, err := strconv.ParseFloat(strings.TrimSuffix(s, "%"), 64)
						if err != nil {
							dl.problem("svg-bad-value", "linearGradient %s=%q", name, s)
							return
						}
						if pct {
							v /= 100
							dl.tally("svg-gradient-percentage-coordinate")
						}
						*dst = v
					}
				}
				pf("x1", &g.x1)
				pf("y1", &g.y1)
				pf("x2", &g.x2)
				pf("y2", &g.y2)
				if g.radial {
					pf("cx", &g.cx)
					pf("cy", &g.cy)
					pf("r", &g.r)
					_, g.hasFx = am["fx"]
					_, g.hasFy = am["fy"]
					pf("fx", &g.fx)
					pf("fy", &g.fy)
					pf("fr", &g.fr)
					if !g.hasFx {
						g.fx = g.cx
					}
					if !g.hasFy {
						g.fy = g.cy
					}
					if g.r < 0 || g.fr < 0 {
						dl.problem("svg-bad-value", "radialGradient with a negative radius r=%g fr=%g", g.r, g.fr)
					}
				}
				if u, ok := am["gradientUnits"]; ok {
					g.units = u
				}
				if s, ok := am["spreadMethod"]; ok {
					g.spread = s
				}
				if s, ok := am["gradientTransform"]; ok {
					m, err := parseSVGTransform(s)
					if err != nil {
						dl.problem("svg-transform-syntax", "%v", err)
					}
					g.transform = m
				}
				if id := am["id"]; id != "" {
					grads[id] = g
				}
				curGrad = g
			case "stop":
				if curGrad == nil {
					dl.problem("svg-unsupported-element", "stop outside a gradient")
					break
				}
				off := 0.0
				if s, ok := am["offset"]; ok {
					s = strings.TrimSpace(s)
					pct := strings.HasSuffix(s, "%")
					v, err := strconv.ParseFloat(strings.TrimSuffix(s, "%"), 64)
					if err != nil {
						dl.problem("svg-bad-value", "stop offset %q", s)
					}
					if pct {
						v /= 100
					}
					off = math.Max(0, math.Min(1, v))
				}
				sc, so := "black", "1"
				if s, ok := am["stop-color"]; ok {
					sc = s
				}
				if s, ok := am["stop-opacity"]; ok {
					so = s
				}
				if st, ok := am["style"]; ok {
					for _, decl := range strings.Split(st, ";") {
						kv := strings.SplitN(decl, ":", 2)
						if len(kv) == 2 {
							switch strings.TrimSpace(kv[0]) {
							case "stop-color":
								sc = kv[1]
							case "stop-opacity":
								so = kv[1]
							}
						}
					}
				}
				c, ok := parseSVGColour(sc)
				if !ok {
					dl.problem("svg-unparsable-paint", "stop-color %q", sc)
				}
				if o, err := strconv.ParseFloat(strings.TrimSpace(so), 64); err == nil {
					c.a *= math.Max(0, math.Min(1, o))
				}
				// each offset must be >= the previous one (13.2.4)
				if n := len(curGrad.stops); n > 0 && off < curGrad.stops[n-1].off {
					off = curGrad.stops[n-1].off
				}
				curGrad.stops = append(curGrad.stops, struct {
					off float64
					c   colour
				}{off, c})
			case "path":
				if inDefs > 0 {
					break
				}
				sps, err := parseSVGPath(am["d"])
				if err != nil {
					dl.problem("svg-path-syntax", "%v", err)
					break
				}
				shapes = append(shapes, pending{sps: sps, d: am["d"], props: fr.props, ctm: fr.ctm, opacity: fr.opacity})
			case "image":
				if inDefs > 0 {
					break
				}
				if im := parseSVGImage(am, dl); im != nil {
					shapes = append(shapes, pending{ctm: fr.ctm, opacity: fr.opacity, image: im})
				}
			case "style":
				dl.tally("svg-style-element-not-interpreted")
			default:
				dl.problem("svg-unsupported-element", "element <%s> in the output of a path-only drawing", t.Name.Local)
			}
			stack = append(stack, fr)
		case xml.EndElement:
			depth--
			stack = stack[:len(stack)-1]
			switch t.Name.Local {
			case "defs":
				inDefs--
			case "linearGradient", "radialGradient":
				curGrad = nil
			}
		}
	}
	if !haveRoot {
		dl.problem("svg-xml", "no svg root element")
		return dl
	}
	// paint the shapes in document order (gradients may be defined anywhere in the document)
	for _, sh := range shapes {
		total := toMM.mul(sh.ctm)
		if im := sh.image; im != nil {
			// 5.7 / 7.8: the image is fitted into the viewport (x,y,width,height) of the element's user
			// space under preserveAspectRatio (default xMidYMid meet); its first row is at the top (y)
			sx, sy := im.width/float64(im.w), im.height/float64(im.h)
			ox, oy := im.x, im.y
			if im.par != "none" && math.Abs(sx-sy) > 1e-12*math.Max(sx, sy) {
				sc := math.Min(sx, sy)
				ox += (im.width - sc*float64(im.w)) / 2
				oy += (im.height - sc*float64(im.h)) / 2
				sx, sy = sc, sc
				dl.tally("svg-image-viewport-aspect-differs(xMidYMid meet)")
			}
			from := total.mul(aff{sx, 0, 0, sy, ox, oy})
			ra, ok := newRaster(im.w, im.h, im.pix, from, sh.opacity, fmt.Sprintf("%s %dx%d", im.mime, im.w, im.h))
			if !ok {
				dl.tally("svg-image-with-zero-size")
				continue
			}
			dl.items = append(dl.items, item{role: "image", reg: ra.quad("svg"), paint: paint{img: ra},
				src: fmt.Sprintf(`<image x="%g" y="%g" width="%g" height="%g" transform="%s" href="data:%s;…">`, im.x, im.y, im.width, im.height, im.transform, im.mime)})
			continue
		}
		mkPaint := func(spec string, opacity float64, what string) (paint, bool) {
			spec = strings.TrimSpace(spec)
			if spec == "none" || spec == "" {
				return paint{}, false
			}
			if strings.HasPrefix(spec, "url(") {
				end := strings.IndexByte(spec, ')')
				if end < 0 {
					dl.problem("svg-unparsable-paint", "%s=%q", what, spec)
					return paint{}, false
				}
				ref := strings.Trim(strings.TrimSpace(spec[4:end]), `"'`)
				g := grads[strings.TrimPrefix(ref, "#")]
				if g == nil || !strings.HasPrefix(ref, "#") {
					// 11.2: a reference that cannot be resolved and has no fallback makes the document erroneous
					dl.problem("svg-dangling-paint-reference", "%s=%q refers to no gradient in the document", what, spec)
					return paint{}, false
				}
				if g.units != "userSpaceOnUse" {
					dl.problem("svg-interpreter-limit", "gradientUnits=%q is not interpreted", g.units)
					return paint{}, false
				}
				if g.spread != "pad" {
					dl.problem("svg-interpreter-limit", "spreadMethod=%q is not interpreted", g.spread)
					return paint{}, false
				}
				if len(g.stops) == 0 {
					return paint{}, false // 13.2.4: zero stops = none
				}
				stops := g.stops
				inv, ok := total.mul(g.transform).inv()
				if !ok {
					return paint{}, false
				}
				gr := &gradient{toGrad: inv, p0: oracle.Pt{X: g.x1, Y: g.y1}, p1: oracle.Pt{X: g.x2, Y: g.y2}, extend: [2]bool{true, true}, alpha: opacity,
					desc: fmt.Sprintf("(%g,%g)->(%g,%g) user units, %d stops", g.x1, g.y1, g.x2, g.y2, len(stops))}
				if g.radial {
					// SVG 2 13.2.3: offset 0 on the focal circle (fx, fy, fr), offset 1 on the circle (cx, cy, r)
					gr = &gradient{toGrad: inv, radial: true, p0: oracle.Pt{X: g.fx, Y: g.fy}, r0: g.fr, p1: oracle.Pt{X: g.cx, Y: g.cy}, r1: g.r, extend: [2]bool{true, true}, alpha: opacity,
						desc: fmt.Sprintf("radial focal (%g,%g) fr=%g -> (%g,%g) r=%g user units, %d stops", g.fx, g.fy, g.fr, g.cx, g.cy, g.r, len(stops))}
				}
				gr.colourAt = func(t float64) colour {
					if t <= stops[0].off {
						return stops[0].c
					}
					for i := 1; i < len(stops); i++ {
						if t < stops[i].off {
							u := (t - stops[i-1].off) / (stops[i].off - stops[i-1].off)
							a, b := stops[i-1].c, stops[i].c
							return colour{a.r + (b.r-a.r)*u, a.g + (b.g-a.g)*u, a.b + (b.b-a.b)*u, a.a + (b.a-a.a)*u}
						}
					}
					return stops[len(stops)-1].c
				}
				return paint{grad: gr}, true
			}
			c, ok := parseSVGColour(spec)
			if !ok {
				dl.problem("svg-unparsable-paint", "%s=%q", what, spec)
				return paint{}, false
			}
			c.a *= opacity
			return paint{solid: c}, true
		}
		src := fmt.Sprintf(`<path d="%s" …> fill=%s fill-rule=%s fill-opacity=%g stroke=%s`, clipStr(sh.d, 70), sh.props.fill, sh.props.fillRule, sh.props.fillOpacity, sh.props.stroke)
		dkey := "svg|" + sh.d + "|" + total.String()
		if fp, ok := mkPaint(sh.props.fill, sh.props.fillOpacity*sh.opacity, "fill"); ok {
			pls := mapPolys(oracle.Dense(sh.sps, 48), total)
			for i := range pls {
				pls[i].Closed = true
			}
			dl.items = append(dl.items, item{role: "fill", reg: region{key: dkey, pls: pls, evenOdd: sh.props.fillRule == "evenodd"}, paint: fp, src: src})
		}
		if sp, ok := mkPaint(sh.props.stroke, sh.props.strokeOpacity*sh.opacity, "stroke"); ok && sh.props.strokeWidth > 0 {
			par := strokeParams{width: sh.props.strokeWidth, limit: sh.props.miterlimit, phase: sh.props.dashoffset}
			switch sh.props.linecap {
			case "round":
				par.cap = 1
			case "square":
				par.cap = 2
			}
			switch sh.props.linejoin {
			case "round":
				par.join = 1
			case "bevel":
				par.join = 2
			case "arcs":
				par.join = 3
			case "miter-clip":
				par.join = 4
			}
			// 11.4: an odd number of values is repeated to yield an even number; a sum of zero = solid
			da := sh.props.dasharray
			if len(da)%2 == 1 {
				da = append(append([]float64(nil), da...), da...)
			}
			sum := 0.0
			for _, v := range da {
				sum += v
			}
			if sum > 0 {
				par.dashes = da
			}
			it := item{role: "stroke", paint: sp,
				src: src + " " + par.String()}
			it.reg = region{key: dkey + "|stroke|" + par.key(), pls: mapPolys(strokeOutline(sh.sps, par, false), total)}
			it.widthMM = effectiveWidth(total, par.width)
			if len(par.dashes) > 0 && hasClosedSubpath(sh.sps) {
				it.alt = &region{key: dkey + "|stroke-joined|" + par.key(), pls: mapPolys(strokeOutline(sh.sps, par, true), total)}
			}
			if sh.opacity < 1 && sh.props.fill != "none" {
				dl.tally("svg-element-opacity-with-fill-and-stroke-approximated")
			}
			dl.items = append(dl.items, it)
		}
	}
	return dl
}

// ---- images (SVG 1.1 §5.7) -----------------------------------------------------------------

type svgImage struct {
	x, y, width, height float64
	par                 string
	transform           string
	mime                string
	w, h                int
	pix                 []colour
}

// parseSVGImage reads the geometry attributes and decodes the data: URI (RFC 2397) with the Go
// standard library's PNG/JPEG decoders.
func parseSVGImage(am map[string]string, dl *displayList) *svgImage {
	im := &svgImage{par: "xMidYMid meet", transform: am["transform"]}
	for _, k := range []struct {
		name string
		dst  *float64
		req  bool
	}{{"x", &im.x, false}, {"y", &im.y, false}, {"width", &im.width, true}, {"height", &im.height, true}} {
		s, ok := am[k.name]
		if !ok {
			if k.req {
				dl.problem("svg-bad-value", "image without %s", k.name)
				return nil
			}
			continue
		}
		sc := &svgScanner{s: strings.TrimSpace(s)}
		v, ok := sc.number()
		if rest := strings.TrimSpace(sc.s[sc.pos:]); !ok || (rest != "" && rest != "px") {
			dl.problem("svg-bad-value", "image %s=%q", k.name, s)
			return nil
		}
		*k.dst = v
	}
	if im.width <= 0 || im.height <= 0 {
		return nil // disables rendering of the element
	}
	if p, ok := am["preserveAspectRatio"]; ok {
		p = strings.TrimSpace(p)
		if p != "none" && p != "xMidYMid" && p != "xMidYMid meet" {
			dl.problem("svg-interpreter-limit", "preserveAspectRatio=%q", p)
			return nil
		}
		if p == "none" {
			im.par = "none"
		}
	}
	href, ok := am["href"]
	if !ok {
		dl.problem("svg-bad-value", "image without href")
		return nil
	}
	if !strings.HasPrefix(href, "data:") {
		dl.problem("svg-interpreter-limit", "image href %q is not a data: URI", clipStr(href, 40))
		return nil
	}
	comma := strings.IndexByte(href, ',')
	if comma < 0 {
		dl.problem("svg-bad-value", "data: URI without a comma")
		return nil
	}
	meta := strings.Split(href[5:comma], ";")
	im.mime = meta[0]
	b64 := false
	for _, m := range meta[1:] {
		if m == "base64" {
			b64 = true
		}
	}
	if !b64 {
		dl.problem("svg-interpreter-limit", "data: URI that is not base64")
		return nil
	}
	raw, err := base64.StdEncoding.DecodeString(strings.Map(func(r rune) rune {
		if r == ' ' || r == '\n' || r == '\r' || r == '\t' {
			return -1
		}
		return r
	}, href[comma+1:]))
	if err != nil {
		dl.problem("svg-bad-image", "base64: %v", err)
		return nil
	}
	var img image.Image
	switch im.mime {
	case "image/png":
		img, err = png.Decode(bytes.NewReader(raw))
	case "image/jpeg":
		dl.problem("svg-interpreter-limit", "JPEG image (lossy encoding is outside the bound)")
		return nil
	default:
		dl.problem("svg-bad-image", "media type %q", im.mime)
		return nil
	}
	if err != nil {
		dl.problem("svg-bad-image", "%s does not decode: %v", im.mime, err)
		return nil
	}
	b := img.Bounds()
	im.w, im.h = b.Dx(), b.Dy()
	for y := b.Min.Y; y < b.Max.Y; y++ {
		for x := b.Min.X; x < b.Max.X; x++ {
			c := color.NRGBA64Model.Convert(img.At(x, y)).(color.NRGBA64)
			im.pix = append(im.pix, colour{float64(c.R) / 65535, float64(c.G) / 65535, float64(c.B) / 65535, float64(c.A) / 65535})
		}
	}
	return im
}
