package c12

import (
	"fmt"
	"math"
	"strings"

	"verif/internal/oracle"
)

// Canvas size of every program (mm).
const (
	CW = 40.0
	CH = 24.0
)

// aff is a 2x3 affine map p -> (a*x + c*y + e, b*x + d*y + f), independent of canvas.Matrix.
// It is the PDF/PostScript/SVG matrix [a b c d e f].
type aff struct{ a, b, c, d, e, f float64 }

var ident = aff{1, 0, 0, 1, 0, 0}

// mul returns m∘n (n is applied first).
func (m aff) mul(n aff) aff {
	return aff{
		m.a*n.a + m.c*n.b, m.b*n.a + m.d*n.b,
		m.a*n.c + m.c*n.d, m.b*n.c + m.d*n.d,
		m.a*n.e + m.c*n.f + m.e, m.b*n.e + m.d*n.f + m.f,
	}
}
func (m aff) apply(p oracle.Pt) oracle.Pt {
	return oracle.Pt{X: m.a*p.X + m.c*p.Y + m.e, Y: m.b*p.X + m.d*p.Y + m.f}
}
func (m aff) det() float64 { return m.a*m.d - m.b*m.c }
func (m aff) inv() (aff, bool) {
	d := m.det()
	if d == 0 || math.IsNaN(d) || math.IsInf(d, 0) {
		return ident, false
	}
	return aff{m.d / d, -m.b / d, -m.c / d, m.a / d, (m.c*m.f - m.d*m.e) / d, (m.b*m.e - m.a*m.f) / d}, true
}
func (m aff) String() string {
	return fmt.Sprintf("[%.6g %.6g %.6g %.6g %.6g %.6g]", m.a, m.b, m.c, m.d, m.e, m.f)
}
func affTranslate(x, y float64) aff { return aff{1, 0, 0, 1, x, y} }
func affScale(x, y float64) aff     { return aff{x, 0, 0, y, 0, 0} }
func affRotate(deg float64) aff {
	s, c := math.Sincos(deg * math.Pi / 180)
	return aff{c, s, -s, c, 0, 0}
}

func mapPolys(pls []oracle.Polyline, m aff) []oracle.Polyline {
	out := make([]oracle.Polyline, len(pls))
	for i, pl := range pls {
		q := oracle.Polyline{Closed: pl.Closed, P: make([]oracle.Pt, len(pl.P))}
		for j, p := range pl.P {
			q.P[j] = m.apply(p)
		}
		out[i] = q
	}
	return out
}

// ---- paints --------------------------------------------------------------------------------

// colour is straight (non-premultiplied) RGB in 0..1 plus alpha in 0..1.
type colour struct{ r, g, b, a float64 }

func (c colour) String() string {
	return fmt.Sprintf("rgb(%.3f,%.3f,%.3f) alpha %.3f", c.r, c.g, c.b, c.a)
}

// gradient is an axial gradient: q (canvas mm, y up) is taken into gradient space by toGrad,
// projected on the axis p0->p1, and the colour function is evaluated at the (extended) parameter.
type gradient struct {
	toGrad   aff
	p0, p1   oracle.Pt
	colourAt func(t float64) colour // t in [0,1]
	extend   [2]bool                // paint beyond the start / the end
	alpha    float64                // constant alpha applied on top (PDF ca, SVG fill-opacity)
	desc     string
	// radial: the gradient between the circle (p0, r0) at t=0 and the circle (p1, r1) at t=1 (PDF
	// 8.7.4.5.4, SVG 2 13.2.3: the focal circle is the start): a point takes the largest t for which
	// it lies on the circle (p0 + t(p1-p0), r0 + t(r1-r0)) of non-negative radius
	radial bool
	r0, r1 float64
}

// at returns the paint at q and whether anything is painted there.
func (g *gradient) at(q oracle.Pt) (colour, bool) {
	p := g.toGrad.apply(q)
	d := g.p1.Sub(g.p0)
	dd := d.Dot(d)
	t := 0.0
	if g.radial {
		var ok bool
		if t, ok = g.radialT(p); !ok {
			return colour{}, false
		}
	} else if dd > 0 {
		t = p.Sub(g.p0).Dot(d) / dd
	}
	if t < 0 {
		if !g.extend[0] {
			return colour{}, false
		}
		t = 0
	}
	if t > 1 {
		if !g.extend[1] {
			return colour{}, false
		}
		t = 1
	}
	c := g.colourAt(t)
	c.a *= g.alpha
	return c, true
}

// radialT solves |p - (p0 + t cd)| = r0 + t dr for the largest t with a non-negative radius.
func (g *gradient) radialT(p oracle.Pt) (float64, bool) {
	cd := g.p1.Sub(g.p0)
	dr := g.r1 - g.r0
	pd := p.Sub(g.p0)
	a := cd.Dot(cd) - dr*dr
	b := pd.Dot(cd) + g.r0*dr
	c := pd.Dot(pd) - g.r0*g.r0
	ok := func(t float64) bool { return g.r0+t*dr >= 0 }
	if math.Abs(a) < 1e-14*math.Max(1, cd.Dot(cd)+dr*dr) {
		if b == 0 {
			return 0, false
		}
		t := c / (2 * b)
		return t, ok(t)
	}
	disc := b*b - a*c
	if disc < 0 {
		return 0, false
	}
	sq := math.Sqrt(disc)
	t1, t2 := (b+sq)/a, (b-sq)/a
	if t1 < t2 {
		t1, t2 = t2, t1
	}
	if ok(t1) {
		return t1, true
	}
	if ok(t2) {
		return t2, true
	}
	return 0, false
}

// raster is a sampled image placed on the canvas: toPix takes a canvas point (mm, y up) to image
// space (u,v) with u in [0,w] running along the rows and v in [0,h] counting rows from row 0, the
// FIRST row of the pixel data (the top of the upright image). Pixel (i,j) is the cell
// [i,i+1] x [j,j+1]. The display list paints every cell with its pixel's colour (no
// interpolation: samples are only compared well inside a cell).
type raster struct {
	w, h    int
	pix     []colour // straight colour and alpha, row-major
	toPix   aff
	corners [4]oracle.Pt // canvas positions of the image corners (0,0), (w,0), (w,h), (0,h) of image space: TL, TR, BR, BL
	alpha   float64      // constant alpha on top
	desc    string
}

func (im *raster) at(q oracle.Pt) (colour, bool) {
	p := im.toPix.apply(q)
	i, j := int(math.Floor(p.X)), int(math.Floor(p.Y))
	if i < 0 || j < 0 || i >= im.w || j >= im.h {
		return colour{}, false
	}
	c := im.pix[j*im.w+i]
	c.a *= im.alpha
	return c, true
}

// newRaster builds the raster from the map image space -> canvas mm.
func newRaster(w, h int, pix []colour, fromPix aff, alpha float64, desc string) (*raster, bool) {
	inv, ok := fromPix.inv()
	if !ok {
		return nil, false
	}
	im := &raster{w: w, h: h, pix: pix, toPix: inv, alpha: alpha, desc: desc}
	fw, fh := float64(w), float64(h)
	for k, c := range [4]oracle.Pt{{X: 0, Y: 0}, {X: fw, Y: 0}, {X: fw, Y: fh}, {X: 0, Y: fh}} {
		im.corners[k] = fromPix.apply(c)
	}
	return im, true
}

// quad is the region covered by the raster.
func (im *raster) quad(prefix string) region {
	pl := oracle.Polyline{Closed: true, P: im.corners[:]}
	return region{key: fmt.Sprintf("%s|quad %.9g", prefix, im.corners), pls: []oracle.Polyline{pl}}
}

// cellBorderBits marks the samples that are within margin (in cells) of a cell border of the
// raster, and those outside the raster up to outer cells from its edge.
func (im *raster) cellBorderBits(margin, outer float64) *bits {
	b := &bits{}
	for i, q := range samples {
		p := im.toPix.apply(q)
		if p.X < -outer || p.Y < -outer || p.X > float64(im.w)+outer || p.Y > float64(im.h)+outer {
			continue
		}
		fx, fy := p.X-math.Floor(p.X), p.Y-math.Floor(p.Y)
		if fx < margin || fx > 1-margin || fy < margin || fy > 1-margin || p.X < 0 || p.Y < 0 || p.X > float64(im.w) || p.Y > float64(im.h) {
			b.set(i)
		}
	}
	return b
}

type paint struct {
	solid colour
	grad  *gradient
	img   *raster
}

func (p paint) at(q oracle.Pt) (colour, bool) {
	if p.img != nil {
		return p.img.at(q)
	}
	if p.grad != nil {
		return p.grad.at(q)
	}
	return p.solid, true
}

func (p paint) String() string {
	if p.img != nil {
		return "image " + p.img.desc
	}
	if p.grad != nil {
		return "gradient " + p.grad.desc
	}
	return p.solid.String()
}

// ---- regions and display lists -------------------------------------------------------------

// region is a set of closed polylines in canvas mm (y up) with a fill rule.
type region struct {
	key     string // identifies the region in the sample caches
	pls     []oracle.Polyline
	evenOdd bool
	sign    int // +1: only winding > 0 fills (Positive), -1: only winding < 0 (Negative); expected lists only
}

type item struct {
	role  string // "fill", "stroke" (natively stroked), "image"
	reg   region
	clips []region
	paint paint
	src   string // the bytes that painted it (for messages)
	note  string // interpreter remarks used for classification
	alt   *region
	// natively stroked items: the line width in canvas mm (parsed width x the scale of the
	// user space, which must then be a similarity; 0 = not applicable)
	widthMM float64
	// knocksOutPrev: this item and the previous one are the stroke and the fill of one PDF
	// fill-and-stroke operator painted with alpha < 1: they form a knockout group (ISO 32000-1
	// 11.7.4.4), i.e. where the stroke paints, the fill of the same object does not show
	knocksOutPrev bool
}

type displayList struct {
	items []item
	// problems found while interpreting (class, detail); a non-empty list makes the document a violation
	problems [][2]string
	tallies  []string
}

func (d *displayList) problem(class, format string, a ...interface{}) {
	if len(d.problems) < 8 {
		d.problems = append(d.problems, [2]string{class, fmt.Sprintf(format, a...)})
	}
}
func (d *displayList) tally(s string) { d.tallies = append(d.tallies, s) }

// ---- sample points -------------------------------------------------------------------------

// The sample points are the centres of the pixels of a 4 px/mm raster: a 1 mm grid plus offset
// copies, so that the rasterizer's image can be looked up at exactly the same points.
var sampleOffsets = [][2]float64{{0.125, 0.125}, {0.625, 0.375}, {0.375, 0.875}, {0.875, 0.625}}

var samples []oracle.Pt

const nWords = (int(CW)*int(CH)*4 + 63) / 64

func init() {
	for _, o := range sampleOffsets {
		for j := 0; j < int(CH); j++ {
			for i := 0; i < int(CW); i++ {
				samples = append(samples, oracle.Pt{X: float64(i) + o[0], Y: float64(j) + o[1]})
			}
		}
	}
}

type bits [nWords]uint64

func (b *bits) set(i int)      { b[i>>6] |= 1 << (uint(i) & 63) }
func (b *bits) get(i int) bool { return b[i>>6]&(1<<(uint(i)&63)) != 0 }
func (b *bits) or(o *bits) {
	for i := range b {
		b[i] |= o[i]
	}
}
func (b *bits) count() int {
	n := 0
	for i := range samples {
		if b.get(i) {
			n++
		}
	}
	return n
}

// Margins (mm). A sample is decidable for the back-end comparison when it is farther than
// deltaBackend from every boundary of the EXPECTED regions, for the rasterizer tally when it is
// farther than deltaRaster (one pixel diagonal at 4 px/mm plus slack).
const (
	deltaBackend = 0.15
	deltaRaster  = 0.40
)

type regionSamples struct {
	inside bits
}

var insideCache = map[string]*bits{}
var nearCache = map[string]*[2]bits{}

func polyBBox(pls []oracle.Polyline) (lo, hi oracle.Pt) {
	lo = oracle.Pt{X: math.Inf(1), Y: math.Inf(1)}
	hi = oracle.Pt{X: math.Inf(-1), Y: math.Inf(-1)}
	for _, pl := range pls {
		for _, p := range pl.P {
			lo.X, lo.Y = math.Min(lo.X, p.X), math.Min(lo.Y, p.Y)
			hi.X, hi.Y = math.Max(hi.X, p.X), math.Max(hi.Y, p.Y)
		}
	}
	return
}

// insideBits evaluates the region at every sample (winding number of the implicitly closed
// polylines under the rule), memoised by the region key.
func insideBits(rg region) *bits {
	k := rg.key
	if rg.evenOdd {
		k += "|eo"
	}
	if rg.sign != 0 {
		k += fmt.Sprintf("|sign%d", rg.sign)
	}
	if b, ok := insideCache[k]; ok {
		return b
	}
	b := &bits{}
	lo, hi := polyBBox(rg.pls)
	for i, q := range samples {
		if q.X < lo.X || q.X > hi.X || q.Y < lo.Y || q.Y > hi.Y {
			continue
		}
		w := oracle.Winding(rg.pls, q)
		switch {
		case rg.sign > 0:
			if w > 0 {
				b.set(i)
			}
		case rg.sign < 0:
			if w < 0 {
				b.set(i)
			}
		case (rg.evenOdd && w%2 != 0) || (!rg.evenOdd && w != 0):
			b.set(i)
		}
	}
	insideCache[k] = b
	return b
}

// nearBits marks the samples within deltaBackend ([0]) and deltaRaster ([1]) of the boundary.
func nearBits(rg region) *[2]bits {
	if b, ok := nearCache[rg.key]; ok {
		return b
	}
	b := &[2]bits{}
	lo, hi := polyBBox(rg.pls)
	for i, q := range samples {
		if q.X < lo.X-deltaRaster || q.X > hi.X+deltaRaster || q.Y < lo.Y-deltaRaster || q.Y > hi.Y+deltaRaster {
			continue
		}
		d := oracle.Dist(rg.pls, q, true)
		if d <= deltaBackend {
			b[0].set(i)
		}
		if d <= deltaRaster {
			b[1].set(i)
		}
	}
	nearCache[rg.key] = b
	return b
}

func itemInside(it *item) *bits {
	in := insideBits(it.reg)
	if len(it.clips) == 0 {
		return in
	}
	out := *in
	for _, c := range it.clips {
		cb := insideBits(c)
		for i := range out {
			out[i] &= cb[i]
		}
	}
	return &out
}

// composite paints the list bottom to top with source-over on a transparent background and
// returns premultiplied RGBA in 0..255 per sample.
func composite(items []item) [][4]float64 {
	out := make([][4]float64, len(samples))
	for k := range items {
		it := &items[k]
		in := itemInside(it)
		var ko *bits
		if k+1 < len(items) && items[k+1].knocksOutPrev {
			ko = itemInside(&items[k+1])
		}
		for i := range samples {
			if !in.get(i) || (ko != nil && ko.get(i)) {
				continue
			}
			c, ok := it.paint.at(samples[i])
			if !ok {
				continue
			}
			d := &out[i]
			ia := 1 - c.a
			d[0] = c.r*c.a*255 + d[0]*ia
			d[1] = c.g*c.a*255 + d[1]*ia
			d[2] = c.b*c.a*255 + d[2]*ia
			d[3] = c.a*255 + d[3]*ia
		}
	}
	return out
}

func fmtPx(p [4]float64) string {
	return fmt.Sprintf("(%.0f,%.0f,%.0f,%.0f)", p[0], p[1], p[2], p[3])
}

func clipStr(s string, n int) string {
	s = strings.TrimSpace(s)
	if len(s) > n {
		return s[:n] + "…"
	}
	return s
}
