package c12

// A small PostScript interpreter written from the PostScript Language Reference (3rd ed.): §3
// syntax and execution (numbers, names, literal names, procedures, arrays, strings, comments),
// §4.3–4.5 coordinate systems, path construction and painting, and the operator pages of ch. 8
// for the operators below. Procedures defined by the program itself (the back-end's prologue)
// are executed from their PostScript definition. Anything else is reported, never guessed.
// The result is a display list in canvas millimetres.

import (
	"bytes"
	"compress/zlib"
	"fmt"
	"io"
	"math"
	"strconv"
	"strings"

	"verif/internal/oracle"
	"verif/internal/pdfread"
)

type psKind int

const (
	psNum   psKind = iota
	psName         // executable name
	psLit          // literal name /x
	psProc         // { ... }
	psArray        // [ ... ] (built at run time) or a matrix
	psMark
	psString
	psBool
	psDict // << ... >>
	psFile // currentfile, possibly behind decoding filters (names in arr, innermost first)
)

type psObj struct {
	kind psKind
	num  float64
	name string
	arr  []psObj
	dict map[string]psObj
}

func (o psObj) String() string {
	switch o.kind {
	case psNum:
		return strconv.FormatFloat(o.num, 'g', 8, 64)
	case psName:
		return o.name
	case psLit:
		return "/" + o.name
	case psProc:
		return "{…}"
	case psArray:
		return fmt.Sprintf("[%d]", len(o.arr))
	case psMark:
		return "mark"
	}
	return "(string)"
}

// psScanner reads the program one object at a time (procedures as nested token lists), so that
// an operator reading from currentfile (image data) can take over at the scanner's position.
type psScanner struct {
	src string
	pos int
}

func psIsWS(c byte) bool {
	return c == ' ' || c == '\t' || c == '\n' || c == '\r' || c == '\f' || c == 0
}
func psIsDelim(c byte) bool { return strings.IndexByte("()<>[]{}/%", c) >= 0 }

// next returns the next object; eof reports the end of the source; closeBrace a '}' (only legal
// inside a procedure body).
func (sc *psScanner) next() (o psObj, eof, closeBrace bool, err error) {
	src := sc.src
	for {
		for sc.pos < len(src) && psIsWS(src[sc.pos]) {
			sc.pos++
		}
		if sc.pos >= len(src) {
			return psObj{}, true, false, nil
		}
		c := src[sc.pos]
		switch {
		case c == '%':
			for sc.pos < len(src) && src[sc.pos] != '\n' && src[sc.pos] != '\r' {
				sc.pos++
			}
			continue
		case c == '{':
			sc.pos++
			var body []psObj
			for {
				e, eof, cb, err := sc.next()
				if err != nil {
					return psObj{}, false, false, err
				}
				if eof {
					return psObj{}, false, false, fmt.Errorf("unterminated procedure")
				}
				if cb {
					break
				}
				body = append(body, e)
			}
			return psObj{kind: psProc, arr: body}, false, false, nil
		case c == '}':
			sc.pos++
			return psObj{}, false, true, nil
		case c == '[' || c == ']':
			sc.pos++
			return psObj{kind: psName, name: string(c)}, false, false, nil
		case c == '<' && sc.pos+1 < len(src) && src[sc.pos+1] == '<':
			sc.pos += 2
			return psObj{kind: psName, name: "<<"}, false, false, nil
		case c == '>' && sc.pos+1 < len(src) && src[sc.pos+1] == '>':
			sc.pos += 2
			return psObj{kind: psName, name: ">>"}, false, false, nil
		case c == '(':
			d := 0
			i := sc.pos
			for ; i < len(src); i++ {
				if src[i] == '\\' {
					i++
				} else if src[i] == '(' {
					d++
				} else if src[i] == ')' {
					d--
					if d == 0 {
						break
					}
				}
			}
			if i >= len(src) {
				return psObj{}, false, false, fmt.Errorf("unterminated string")
			}
			o := psObj{kind: psString, name: src[sc.pos+1 : i]}
			sc.pos = i + 1
			return o, false, false, nil
		case c == '<':
			i := strings.IndexByte(src[sc.pos:], '>')
			if i < 0 {
				return psObj{}, false, false, fmt.Errorf("unterminated hex string")
			}
			o := psObj{kind: psString, name: src[sc.pos+1 : sc.pos+i]}
			sc.pos += i + 1
			return o, false, false, nil
		case c == '/':
			i := sc.pos + 1
			for i < len(src) && !psIsWS(src[i]) && !psIsDelim(src[i]) {
				i++
			}
			o := psObj{kind: psLit, name: src[sc.pos+1 : i]}
			sc.pos = i
			return o, false, false, nil
		case c == ')' || c == '>':
			return psObj{}, false, false, fmt.Errorf("unexpected %q at offset %d", c, sc.pos)
		default:
			i := sc.pos
			for i < len(src) && !psIsWS(src[i]) && !psIsDelim(src[i]) {
				i++
			}
			tok := src[sc.pos:i]
			sc.pos = i
			// §3.2.2: a token that is a valid number is a number, otherwise an executable name.
			// Radix numbers (16#FF) are not interpreted (never expected here).
			if v, err := strconv.ParseFloat(tok, 64); err == nil && !strings.ContainsAny(tok, "xXpPnNiI_") {
				return psObj{kind: psNum, num: v}, false, false, nil
			}
			return psObj{kind: psName, name: tok}, false, false, nil
		}
	}
}

type psGState struct {
	space    string // colour space name set by setcolorspace ("" = DeviceGray/RGB by the colour operators)
	ctm      aff
	rgb      [3]float64
	width    float64
	cap      int
	join     int
	miter    float64
	dashes   []float64
	phase    float64
	path     []oracle.Subpath // device space (default user space units)
	curOpen  bool
	pos      oracle.Pt // device space
	hasPoint bool
	src      string
}

func (g psGState) clone() psGState {
	h := g
	h.dashes = append([]float64(nil), g.dashes...)
	h.path = make([]oracle.Subpath, len(g.path))
	for i, sp := range g.path {
		h.path[i] = sp
		h.path[i].Segs = append([]oracle.Seg(nil), sp.Segs...)
	}
	return h
}

type psInterp struct {
	sc     *psScanner
	dl     *displayList
	stack  []psObj
	dict   map[string]psObj
	gs     psGState
	gstack []psGState
	toMM   aff
	steps  int
	failed bool
	shown  bool
}

func (in *psInterp) fail(class, format string, a ...interface{}) {
	in.dl.problem(class, format, a...)
	in.failed = true
}

func (in *psInterp) pop() (psObj, bool) {
	if len(in.stack) == 0 {
		in.fail("ps-stackunderflow", "operand stack underflow")
		return psObj{}, false
	}
	o := in.stack[len(in.stack)-1]
	in.stack = in.stack[:len(in.stack)-1]
	return o, true
}

func (in *psInterp) popNums(n int, op string) ([]float64, bool) {
	if len(in.stack) < n {
		in.fail("ps-stackunderflow", "%s needs %d operands, the stack holds %d", op, n, len(in.stack))
		return nil, false
	}
	out := make([]float64, n)
	for i := 0; i < n; i++ {
		o := in.stack[len(in.stack)-n+i]
		if o.kind != psNum {
			in.fail("ps-typecheck", "%s: operand %d is %v, not a number", op, i, o)
			return nil, false
		}
		out[i] = o.num
	}
	in.stack = in.stack[:len(in.stack)-n]
	return out, true
}

func (in *psInterp) pushNum(v float64) { in.stack = append(in.stack, psObj{kind: psNum, num: v}) }

func matrixObj(m aff) psObj {
	return psObj{kind: psArray, arr: []psObj{{num: m.a}, {num: m.b}, {num: m.c}, {num: m.d}, {num: m.e}, {num: m.f}}}
}

func objMatrix(o psObj) (aff, bool) {
	if o.kind != psArray || len(o.arr) != 6 {
		return ident, false
	}
	for _, e := range o.arr {
		if e.kind != psNum {
			return ident, false
		}
	}
	return aff{o.arr[0].num, o.arr[1].num, o.arr[2].num, o.arr[3].num, o.arr[4].num, o.arr[5].num}, true
}

func (in *psInterp) moveTo(p oracle.Pt) {
	g := &in.gs
	g.path = append(g.path, oracle.Subpath{Start: p})
	g.curOpen, g.pos, g.hasPoint = true, p, true
}

func (in *psInterp) ensureSub() {
	g := &in.gs
	if !g.curOpen {
		// after closepath the current point is the subpath's start; appending starts a new subpath there
		g.path = append(g.path, oracle.Subpath{Start: g.pos})
		g.curOpen = true
	}
}

func (in *psInterp) lineTo(p oracle.Pt) {
	in.ensureSub()
	g := &in.gs
	sp := &g.path[len(g.path)-1]
	sp.Segs = append(sp.Segs, oracle.MkLine(g.pos, p))
	g.pos = p
}

func (in *psInterp) curveTo(c1, c2, p oracle.Pt) {
	in.ensureSub()
	g := &in.gs
	sp := &g.path[len(g.path)-1]
	sp.Segs = append(sp.Segs, oracle.MkCube(g.pos, c1, c2, p))
	g.pos = p
}

// arc appends a circular arc in USER space (PLRM arc/arcn): a straight line from the current
// point to the arc's start if there is a current point, then the arc as Bézier curves, every
// control point taken through the CTM in force now.
func (in *psInterp) arc(x, y, r, a0, a1 float64, clockwise bool) {
	if clockwise {
		for a1 > a0 {
			a1 -= 360
		}
	} else {
		for a1 < a0 {
			a1 += 360
		}
	}
	ctm := in.gs.ctm
	at := func(deg float64) oracle.Pt {
		s, c := math.Sincos(deg * math.Pi / 180)
		return oracle.Pt{X: x + r*c, Y: y + r*s}
	}
	start := ctm.apply(at(a0))
	if in.gs.hasPoint {
		in.lineTo(start)
	} else {
		in.moveTo(start)
	}
	total := a1 - a0
	n := int(math.Ceil(math.Abs(total) / 45))
	if n == 0 {
		return
	}
	step := total / float64(n)
	for i := 0; i < n; i++ {
		b0 := a0 + float64(i)*step
		b1 := b0 + step
		// cubic approximation of a circular arc of angle step: control distance 4/3 tan(step/4) r
		k := 4.0 / 3.0 * math.Tan(step*math.Pi/180/4) * r
		s0, c0 := math.Sincos(b0 * math.Pi / 180)
		s1, c1 := math.Sincos(b1 * math.Pi / 180)
		p0, p3 := at(b0), at(b1)
		p1 := oracle.Pt{X: p0.X - k*s0, Y: p0.Y + k*c0}
		p2 := oracle.Pt{X: p3.X + k*s1, Y: p3.Y - k*c1}
		in.curveTo(ctm.apply(p1), ctm.apply(p2), ctm.apply(p3))
	}
}

func (in *psInterp) newPath() {
	in.gs.path, in.gs.curOpen, in.gs.hasPoint = nil, false, false
	in.gs.src = ""
}

func (in *psInterp) paint(kind string) {
	g := &in.gs
	if len(g.path) == 0 {
		in.dl.tally("ps-" + kind + "-with-empty-path")
		return
	}
	p := paint{solid: colour{g.rgb[0], g.rgb[1], g.rgb[2], 1}}
	key := "ps|" + subpathsKey(g.path)
	src := clipStr(g.src, 160) + " " + kind
	switch kind {
	case "fill", "eofill":
		pls := mapPolys(oracle.Dense(g.path, 48), in.toMM)
		for i := range pls {
			pls[i].Closed = true
		}
		in.dl.items = append(in.dl.items, item{role: "fill", reg: region{key: key, pls: pls, evenOdd: kind == "eofill"}, paint: p, src: src})
	case "stroke":
		inv, ok := g.ctm.inv()
		if !ok {
			in.fail("ps-undefinedresult", "stroke under a singular CTM")
			return
		}
		// the line width, dash lengths, caps and joins live in the user space of the CTM in force now
		user := make([]oracle.Subpath, len(g.path))
		for i, sp := range g.path {
			u := oracle.Subpath{Start: inv.apply(sp.Start), Closed: sp.Closed}
			for _, s := range sp.Segs {
				t := s
				t.P0, t.P1, t.C1, t.C2 = inv.apply(s.P0), inv.apply(s.P1), inv.apply(s.C1), inv.apply(s.C2)
				u.Segs = append(u.Segs, t)
			}
			user[i] = u
		}
		par := strokeParams{width: g.width, cap: g.cap, join: g.join, limit: g.miter, phase: g.phase}
		sum := 0.0
		for _, d := range g.dashes {
			sum += d
		}
		if sum > 0 {
			par.dashes = g.dashes
			if len(par.dashes)%2 == 1 {
				par.dashes = append(append([]float64(nil), par.dashes...), par.dashes...)
			}
		}
		if par.width == 0 {
			in.dl.tally("ps-zero-width-stroke(thinnest device line)")
			return
		}
		total := in.toMM.mul(g.ctm)
		it := item{role: "stroke", paint: p, src: src + " {" + par.String() + "}"}
		it.reg = region{key: key + "|" + g.ctm.String() + "|stroke|" + par.key(), pls: mapPolys(strokeOutline(user, par, false), total)}
		it.widthMM = effectiveWidth(total, par.width)
		if len(par.dashes) > 0 && hasClosedSubpath(user) {
			it.alt = &region{key: key + "|" + g.ctm.String() + "|stroke-joined|" + par.key(), pls: mapPolys(strokeOutline(user, par, true), total)}
		}
		in.dl.items = append(in.dl.items, it)
	}
}

func (in *psInterp) exec(prog []psObj, depth int) {
	if depth > 50 {
		in.fail("ps-execstackoverflow", "procedures nested deeper than 50")
		return
	}
	for _, o := range prog {
		if in.failed {
			return
		}
		in.steps++
		if in.steps > 2000000 {
			in.fail("ps-interpreter-limit", "more than 2e6 steps")
			return
		}
		switch o.kind {
		case psNum, psLit, psString, psProc, psBool, psDict, psFile, psArray:
			// a procedure met directly is pushed (§3.5.3), it runs only when called by name
			in.stack = append(in.stack, o)
			continue
		}
		name := o.name
		if v, ok := in.dict[name]; ok {
			if v.kind == psProc {
				in.exec(v.arr, depth+1)
			} else {
				in.stack = append(in.stack, v)
			}
			continue
		}
		in.op(name)
	}
}

func (in *psInterp) op(name string) {
	g := &in.gs
	user := func(x, y float64) oracle.Pt { return g.ctm.apply(oracle.Pt{X: x, Y: y}) }
	delta := func(x, y float64) oracle.Pt {
		return oracle.Pt{X: g.ctm.a*x + g.ctm.c*y, Y: g.ctm.b*x + g.ctm.d*y}
	}
	needPoint := func() bool {
		if !g.hasPoint {
			in.fail("ps-nocurrentpoint", "%s without a current point", name)
			return false
		}
		return true
	}
	isPathOp := false
	var args []float64
	switch name {
	// ---- stack, dictionary, arithmetic
	case "def":
		v, ok1 := in.pop()
		k, ok2 := in.pop()
		if ok1 && ok2 {
			if k.kind != psLit {
				in.fail("ps-typecheck", "def: key %v is not a literal name", k)
				return
			}
			in.dict[k.name] = v
		}
	case "bind":
	case "exch":
		if len(in.stack) < 2 {
			in.fail("ps-stackunderflow", "exch")
			return
		}
		n := len(in.stack)
		in.stack[n-1], in.stack[n-2] = in.stack[n-2], in.stack[n-1]
	case "dup":
		if len(in.stack) < 1 {
			in.fail("ps-stackunderflow", "dup")
			return
		}
		in.stack = append(in.stack, in.stack[len(in.stack)-1])
	case "pop":
		in.pop()
	case "add", "sub", "mul", "div":
		if v, ok := in.popNums(2, name); ok {
			switch name {
			case "add":
				in.pushNum(v[0] + v[1])
			case "sub":
				in.pushNum(v[0] - v[1])
			case "mul":
				in.pushNum(v[0] * v[1])
			case "div":
				if v[1] == 0 {
					in.fail("ps-undefinedresult", "division by zero")
					return
				}
				in.pushNum(v[0] / v[1])
			}
		}
	case "neg":
		if v, ok := in.popNums(1, name); ok {
			in.pushNum(-v[0])
		}
	case "[":
		in.stack = append(in.stack, psObj{kind: psMark})
	case "]":
		i := len(in.stack) - 1
		for i >= 0 && in.stack[i].kind != psMark {
			i--
		}
		if i < 0 {
			in.fail("ps-unmatchedmark", "] without [")
			return
		}
		arr := append([]psObj(nil), in.stack[i+1:]...)
		in.stack = append(in.stack[:i], psObj{kind: psArray, arr: arr})
	case "true", "false":
		b := psObj{kind: psBool, name: name}
		if name == "true" {
			b.num = 1
		}
		in.stack = append(in.stack, b)
	case "<<":
		in.stack = append(in.stack, psObj{kind: psMark, name: "<<"})
	case ">>":
		i := len(in.stack) - 1
		for i >= 0 && in.stack[i].kind != psMark {
			i--
		}
		if i < 0 || (len(in.stack)-1-i)%2 != 0 {
			in.fail("ps-unmatchedmark", ">> without << or with an odd number of objects")
			return
		}
		d := map[string]psObj{}
		for k := i + 1; k+1 < len(in.stack); k += 2 {
			if in.stack[k].kind != psLit {
				in.fail("ps-interpreter-limit", "dictionary key %v is not a literal name", in.stack[k])
				return
			}
			d[in.stack[k].name] = in.stack[k+1]
		}
		in.stack = append(in.stack[:i], psObj{kind: psDict, dict: d})
	case "currentfile":
		in.stack = append(in.stack, psObj{kind: psFile})
	case "filter":
		nm, ok1 := in.pop()
		srcObj, ok2 := in.pop()
		if !ok1 || !ok2 {
			return
		}
		if nm.kind != psLit || srcObj.kind != psFile {
			in.fail("ps-typecheck", "filter: operands %v %v", srcObj, nm)
			return
		}
		if nm.name != "ASCII85Decode" && nm.name != "FlateDecode" && nm.name != "ASCIIHexDecode" {
			in.fail("ps-interpreter-limit", "filter /%s is not interpreted", nm.name)
			return
		}
		f := psObj{kind: psFile, arr: append(append([]psObj(nil), srcObj.arr...), nm)}
		in.stack = append(in.stack, f)
	case "setcolorspace":
		if o, ok := in.pop(); ok {
			if o.kind != psLit || (o.name != "DeviceRGB" && o.name != "DeviceGray") {
				in.fail("ps-interpreter-limit", "setcolorspace %v", o)
				return
			}
			// PLRM: setcolorspace also sets the current colour to the space's initial value (black)
			g.space = o.name
			g.rgb = [3]float64{}
		}
	case "image":
		in.image()
	// ---- coordinate system
	case "matrix":
		in.stack = append(in.stack, matrixObj(ident))
	case "currentmatrix":
		if _, ok := in.pop(); ok {
			in.stack = append(in.stack, matrixObj(g.ctm))
		}
	case "setmatrix":
		if o, ok := in.pop(); ok {
			m, ok := objMatrix(o)
			if !ok {
				in.fail("ps-typecheck", "setmatrix: operand %v is not a matrix", o)
				return
			}
			g.ctm = m
		}
	case "concat":
		if o, ok := in.pop(); ok {
			m, ok := objMatrix(o)
			if !ok {
				in.fail("ps-typecheck", "concat: operand %v is not a matrix", o)
				return
			}
			g.ctm = g.ctm.mul(m)
		}
	case "translate":
		if v, ok := in.popNums(2, name); ok {
			g.ctm = g.ctm.mul(affTranslate(v[0], v[1]))
		}
	case "scale":
		if v, ok := in.popNums(2, name); ok {
			g.ctm = g.ctm.mul(affScale(v[0], v[1]))
		}
	case "rotate":
		if v, ok := in.popNums(1, name); ok {
			g.ctm = g.ctm.mul(affRotate(v[0]))
		}
	// ---- graphics state
	case "gsave":
		in.gstack = append(in.gstack, g.clone())
	case "grestore":
		if len(in.gstack) > 0 {
			in.gs = in.gstack[len(in.gstack)-1]
			in.gstack = in.gstack[:len(in.gstack)-1]
		} else {
			// a real interpreter falls back to the state saved by the enclosing save/job; the
			// program has no such thing: report rather than guess
			in.fail("ps-grestore-without-gsave", "grestore on an empty graphics state stack")
		}
	case "setlinewidth":
		if v, ok := in.popNums(1, name); ok {
			g.width = math.Abs(v[0])
		}
	case "setlinecap":
		if v, ok := in.popNums(1, name); ok {
			if v[0] != 0 && v[0] != 1 && v[0] != 2 {
				in.fail("ps-rangecheck", "setlinecap %v", v[0])
				return
			}
			g.cap = int(v[0])
		}
	case "setlinejoin":
		if v, ok := in.popNums(1, name); ok {
			if v[0] != 0 && v[0] != 1 && v[0] != 2 {
				in.fail("ps-rangecheck", "setlinejoin %v", v[0])
				return
			}
			g.join = int(v[0])
		}
	case "setmiterlimit":
		if v, ok := in.popNums(1, name); ok {
			if v[0] < 1 {
				in.fail("ps-rangecheck", "setmiterlimit %v", v[0])
				return
			}
			g.miter = v[0]
		}
	case "setdash":
		off, ok1 := in.popNums(1, name)
		arr, ok2 := in.pop()
		if !ok1 || !ok2 {
			return
		}
		if arr.kind != psArray {
			in.fail("ps-typecheck", "setdash: %v is not an array", arr)
			return
		}
		var d []float64
		sum := 0.0
		for _, e := range arr.arr {
			if e.kind != psNum || e.num < 0 {
				in.fail("ps-rangecheck", "setdash: array element %v", e)
				return
			}
			d = append(d, e.num)
			sum += e.num
		}
		if len(d) > 0 && sum == 0 {
			in.fail("ps-rangecheck", "setdash: all elements are zero")
			return
		}
		// PLRM: the offset is the distance into the pattern at which to start; a negative
		// offset is not defined by the PLRM (Ghostscript accepts it and wraps): wrap and tally
		if off[0] < 0 {
			in.dl.tally("ps-negative-dash-offset(wrapped)")
		}
		g.dashes, g.phase = d, off[0]
	case "setrgbcolor":
		if v, ok := in.popNums(3, name); ok {
			g.space = "DeviceRGB"
			for i := range v {
				g.rgb[i] = math.Max(0, math.Min(1, v[i]))
			}
		}
	case "setgray":
		if v, ok := in.popNums(1, name); ok {
			g.space = "DeviceGray"
			x := math.Max(0, math.Min(1, v[0]))
			g.rgb = [3]float64{x, x, x}
		}
	// ---- path construction
	case "newpath":
		in.newPath()
	case "moveto":
		if args, _ = in.popNums(2, name); args != nil {
			isPathOp = true
			in.moveTo(user(args[0], args[1]))
		}
	case "rmoveto":
		if args, _ = in.popNums(2, name); args != nil && needPoint() {
			isPathOp = true
			d := delta(args[0], args[1])
			in.moveTo(oracle.Pt{X: g.pos.X + d.X, Y: g.pos.Y + d.Y})
		}
	case "lineto":
		if args, _ = in.popNums(2, name); args != nil && needPoint() {
			isPathOp = true
			in.lineTo(user(args[0], args[1]))
		}
	case "rlineto":
		if args, _ = in.popNums(2, name); args != nil && needPoint() {
			isPathOp = true
			d := delta(args[0], args[1])
			in.lineTo(oracle.Pt{X: g.pos.X + d.X, Y: g.pos.Y + d.Y})
		}
	case "curveto":
		if args, _ = in.popNums(6, name); args != nil && needPoint() {
			isPathOp = true
			in.curveTo(user(args[0], args[1]), user(args[2], args[3]), user(args[4], args[5]))
		}
	case "closepath":
		isPathOp = true
		if g.curOpen && len(g.path) > 0 {
			sp := &g.path[len(g.path)-1]
			sp.Segs = append(sp.Segs, oracle.Seg{Kind: oracle.CmdClose, P0: g.pos, P1: sp.Start})
			sp.Closed = true
			g.pos = sp.Start
			g.curOpen = false
		}
	case "arc", "arcn":
		if args, _ = in.popNums(5, name); args != nil {
			isPathOp = true
			if args[2] < 0 {
				in.fail("ps-rangecheck", "%s with negative radius", name)
				return
			}
			in.arc(args[0], args[1], args[2], args[3], args[4], name == "arcn")
		}
	// ---- painting: each consumes the current path (implicit newpath)
	case "fill", "eofill", "stroke":
		in.paint(name)
		in.newPath()
	case "showpage":
		in.shown = true
	default:
		in.fail("ps-unknown-operator", "operator %q is neither defined by the program nor interpreted", name)
		return
	}
	if isPathOp && !in.failed {
		s := ""
		for _, a := range args {
			s += strconv.FormatFloat(a, 'g', 8, 64) + " "
		}
		// only top-level path operators are echoed (prologue internals would be noise)
		in.gs.src += s + name + " "
	}
}

// psHeader extracts the DSC comments the size depends on.
type psHeader struct {
	magic   string
	bbox    [4]float64
	hasBBox bool
	eps     bool
}

func parsePSHeader(src string) psHeader {
	var h psHeader
	lines := strings.Split(src, "\n")
	if len(lines) > 0 {
		h.magic = strings.TrimSpace(lines[0])
		h.eps = strings.Contains(h.magic, "EPSF")
	}
	for _, ln := range lines {
		if !strings.HasPrefix(ln, "%") {
			break // header comments end at the first line that is not a comment (DSC 4.1)
		}
		if strings.HasPrefix(ln, "%%BoundingBox:") {
			f := strings.Fields(strings.TrimPrefix(ln, "%%BoundingBox:"))
			if len(f) == 4 {
				ok := true
				for i := range f {
					v, err := strconv.ParseFloat(f[i], 64)
					if err != nil {
						ok = false
					}
					h.bbox[i] = v
				}
				h.hasBBox = ok
			}
		}
	}
	return h
}

// interpretPS runs the program. Default user space units are 1/72 inch (PLRM 4.3.1) and the
// %%BoundingBox is given in them (DSC 3.0, integers enclosing the marks): when the box so read has
// the canvas's size (within one point) the device space is converted to millimetres absolutely.
// Otherwise the unit error is reported ONCE, by family U, and everywhere else the geometry is
// compared relative to the declared box (box -> canvas rectangle); unitsOK tells which.
func interpretPS(data []byte) (dl *displayList, h psHeader, unitsOK bool) {
	dl = &displayList{}
	src := string(data)
	h = parsePSHeader(src)
	if !strings.HasPrefix(h.magic, "%!PS") {
		dl.problem("ps-header", "first line is %q", clipStr(h.magic, 40))
	}
	if !h.hasBBox {
		dl.problem("ps-header", "no %%%%BoundingBox in the header comments")
		return dl, h, false
	}
	bw, bh := h.bbox[2]-h.bbox[0], h.bbox[3]-h.bbox[1]
	if bw <= 0 || bh <= 0 {
		dl.problem("ps-header", "empty bounding box %v", h.bbox)
		return dl, h, false
	}
	in := &psInterp{dl: dl, dict: map[string]psObj{}}
	in.gs = psGState{ctm: ident, width: 1, miter: 10}
	unitsOK = math.Abs(bw*mmPerPt-CW) <= mmPerPt && math.Abs(bh*mmPerPt-CH) <= mmPerPt && math.Abs(h.bbox[0]) <= 1 && math.Abs(h.bbox[1]) <= 1
	if unitsOK {
		in.toMM = aff{mmPerPt, 0, 0, mmPerPt, 0, 0}
	} else {
		dl.tally("ps-geometry-compared-relative-to-the-bounding-box")
		in.toMM = aff{CW / bw, 0, 0, CH / bh, -h.bbox[0] * CW / bw, -h.bbox[1] * CH / bh}
	}
	in.sc = &psScanner{src: src}
	for !in.failed {
		o, eof, cb, err := in.sc.next()
		if err == nil && cb {
			err = fmt.Errorf("unmatched } at offset %d", in.sc.pos-1)
		}
		if err != nil {
			dl.problem("ps-syntax", "%v", err)
			return dl, h, unitsOK
		}
		if eof {
			break
		}
		in.exec([]psObj{o}, 0)
	}
	if len(in.stack) != 0 && !in.failed {
		dl.tally("ps-operands-left-on-the-stack")
	}
	if len(in.gstack) != 0 && !in.failed {
		dl.tally("ps-unbalanced-gsave")
	}
	if !in.shown && !h.eps {
		dl.tally("ps-no-showpage-in-a-non-EPS-program")
	}
	return dl, h, unitsOK
}

// image: the dictionary form (PLRM 4.10.5, image dictionaries of ImageType 1). The samples come
// from currentfile through the decoding filters, starting after the white-space character that
// ends the "image" token. ImageMatrix maps user space to image space, in which sample (i,j) of
// the data (row j, column i, rows in the order of the data) is the unit square at (i,j).
func (in *psInterp) image() {
	g := &in.gs
	d, ok := in.pop()
	if !ok {
		return
	}
	if d.kind != psDict {
		in.fail("ps-interpreter-limit", "image with operand %v (only the dictionary form is interpreted)", d)
		return
	}
	num := func(k string) (float64, bool) {
		o, ok := d.dict[k]
		return o.num, ok && o.kind == psNum
	}
	if t, ok := num("ImageType"); !ok || t != 1 {
		in.fail("ps-interpreter-limit", "image dictionary /ImageType %v", d.dict["ImageType"])
		return
	}
	wf, ok1 := num("Width")
	hf, ok2 := num("Height")
	bpc, ok3 := num("BitsPerComponent")
	if !ok1 || !ok2 || !ok3 || wf < 1 || hf < 1 || wf != math.Floor(wf) || hf != math.Floor(hf) {
		in.fail("ps-rangecheck", "image dictionary: /Width %v /Height %v /BitsPerComponent %v", d.dict["Width"], d.dict["Height"], d.dict["BitsPerComponent"])
		return
	}
	if bpc != 8 {
		in.fail("ps-interpreter-limit", "image with %v bits per component", bpc)
		return
	}
	ncomp := 0
	switch g.space {
	case "DeviceRGB":
		ncomp = 3
	case "DeviceGray", "":
		ncomp = 1
	}
	dec, okd := d.dict["Decode"]
	if !okd || dec.kind != psArray || len(dec.arr) != 2*ncomp {
		in.fail("ps-rangecheck", "image dictionary: /Decode has %d elements, the colour space %q needs %d", len(dec.arr), g.space, 2*ncomp)
		return
	}
	for k, e := range dec.arr {
		if e.kind != psNum || e.num != float64(k%2) {
			in.fail("ps-interpreter-limit", "image /Decode other than [0 1 ...]")
			return
		}
	}
	imo, okm := d.dict["ImageMatrix"]
	im, okm2 := objMatrix(imo)
	if !okm || !okm2 {
		in.fail("ps-typecheck", "image dictionary: /ImageMatrix %v", imo)
		return
	}
	if mds, has := d.dict["MultipleDataSources"]; has && mds.num != 0 {
		in.fail("ps-interpreter-limit", "MultipleDataSources")
		return
	}
	ds, okf := d.dict["DataSource"]
	if !okf || ds.kind != psFile {
		in.fail("ps-interpreter-limit", "image /DataSource %v (only currentfile behind filters is interpreted)", ds)
		return
	}
	// raw bytes: after exactly one white-space character (CR LF counts as one)
	sc := in.sc
	if sc.pos < len(sc.src) && psIsWS(sc.src[sc.pos]) {
		if sc.src[sc.pos] == '\r' && sc.pos+1 < len(sc.src) && sc.src[sc.pos+1] == '\n' {
			sc.pos++
		}
		sc.pos++
	}
	w, h := int(wf), int(hf)
	need := w * h * ncomp
	var data []byte
	if len(ds.arr) == 0 {
		if sc.pos+need > len(sc.src) {
			in.fail("ps-ioerror", "image: %d bytes of binary data needed, %d left", need, len(sc.src)-sc.pos)
			return
		}
		data = []byte(sc.src[sc.pos : sc.pos+need])
		sc.pos += need
	} else {
		// the innermost filter decides where the encoded data ends in the file
		raw := []byte(nil)
		switch ds.arr[0].name {
		case "ASCII85Decode":
			e := strings.Index(sc.src[sc.pos:], "~>")
			if e < 0 {
				in.fail("ps-ioerror", "image: ASCII85 data without ~>")
				return
			}
			b, err := pdfread.ASCII85Decode([]byte(sc.src[sc.pos : sc.pos+e+2]))
			if err != nil {
				in.fail("ps-ioerror", "image: ASCII85Decode: %v", err)
				return
			}
			raw = b
			sc.pos += e + 2
		case "ASCIIHexDecode":
			e := strings.IndexByte(sc.src[sc.pos:], '>')
			if e < 0 {
				in.fail("ps-ioerror", "image: ASCIIHex data without >")
				return
			}
			b, err := pdfread.ASCIIHexDecode([]byte(sc.src[sc.pos : sc.pos+e+1]))
			if err != nil {
				in.fail("ps-ioerror", "image: ASCIIHexDecode: %v", err)
				return
			}
			raw = b
			sc.pos += e + 1
		default:
			in.fail("ps-interpreter-limit", "image data behind a binary /%s filter directly on currentfile", ds.arr[0].name)
			return
		}
		for _, f := range ds.arr[1:] {
			switch f.name {
			case "FlateDecode":
				zr, err := zlib.NewReader(bytes.NewReader(raw))
				if err != nil {
					in.fail("ps-ioerror", "image: FlateDecode: %v", err)
					return
				}
				b, err := io.ReadAll(zr)
				if err != nil {
					in.fail("ps-ioerror", "image: FlateDecode: %v", err)
					return
				}
				raw = b
			default:
				in.fail("ps-interpreter-limit", "image data filter chain %v", ds.arr)
				return
			}
		}
		if len(raw) < need {
			in.fail("ps-ioerror", "image: %d bytes of sample data, %d x %d x %d = %d needed", len(raw), w, h, ncomp, need)
			return
		}
		if len(raw) > need {
			in.dl.tally("ps-image-data-longer-than-needed")
		}
		data = raw[:need]
	}
	pix := make([]colour, w*h)
	for k := range pix {
		if ncomp == 3 {
			pix[k] = colour{float64(data[3*k]) / 255, float64(data[3*k+1]) / 255, float64(data[3*k+2]) / 255, 1}
		} else {
			v := float64(data[k]) / 255
			pix[k] = colour{v, v, v, 1}
		}
	}
	imInv, ok := im.inv()
	if !ok {
		in.fail("ps-undefinedresult", "image: singular /ImageMatrix")
		return
	}
	// image space -> user space -> device space -> mm
	total := in.toMM.mul(g.ctm).mul(imInv)
	ra, ok := newRaster(w, h, pix, total, 1, fmt.Sprintf("%dx%d %s", w, h, g.space))
	if !ok {
		in.fail("ps-undefinedresult", "image under a singular CTM")
		return
	}
	in.dl.items = append(in.dl.items, item{role: "image", reg: ra.quad("ps"), paint: paint{img: ra},
		src: fmt.Sprintf("CTM %s <</ImageMatrix %s /Width %d /Height %d …>>image", g.ctm.String(), im.String(), w, h)})
}
