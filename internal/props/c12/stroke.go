package c12

import (
	"fmt"
	"math"
	"strings"

	"github.com/tdewolff/canvas"

	"verif/internal/oracle"
)

// Stroke parameters as the three formats define them (PDF 32000-1 §8.4.3, PLRM setlinecap/
// setlinejoin/setmiterlimit/setdash, SVG 1.1 §11.4): cap 0 butt, 1 round, 2 projecting square;
// join 0 miter (bevel beyond the limit), 1 round, 2 bevel; 3 = SVG 2 'arcs', 4 = SVG 2 'miter-clip'.
type strokeParams struct {
	width  float64
	cap    int
	join   int
	limit  float64
	dashes []float64
	phase  float64
}

func (s strokeParams) String() string {
	caps := []string{"butt", "round", "square"}
	joins := []string{"miter", "round", "bevel", "arcs", "miter-clip"}
	d := "solid"
	if len(s.dashes) > 0 {
		d = fmt.Sprintf("dash %v phase %.6g", s.dashes, s.phase)
	}
	c, j := "?", "?"
	if s.cap >= 0 && s.cap < 3 {
		c = caps[s.cap]
	}
	if s.join >= 0 && s.join < 5 {
		j = joins[s.join]
	}
	return fmt.Sprintf("width %.6g cap %s join %s limit %.6g %s", s.width, c, j, s.limit, d)
}

func (s strokeParams) key() string {
	return fmt.Sprintf("w%.9g c%d j%d l%.9g d%.9g p%.9g", s.width, s.cap, s.join, s.limit, s.dashes, s.phase)
}

func (s strokeParams) capper() canvas.Capper {
	switch s.cap {
	case 1:
		return canvas.RoundCap
	case 2:
		return canvas.SquareCap
	}
	return canvas.ButtCap
}

func (s strokeParams) joiner() canvas.Joiner {
	switch s.join {
	case 1:
		return canvas.RoundJoin
	case 2:
		return canvas.BevelJoin
	case 3:
		return canvas.ArcsJoiner{GapJoiner: canvas.BevelJoin, Limit: s.limit}
	case 4:
		return canvas.MiterJoiner{GapJoiner: nil, Limit: s.limit}
	}
	return canvas.MiterJoiner{GapJoiner: canvas.BevelJoin, Limit: s.limit}
}

func subpathsKey(sps []oracle.Subpath) string {
	var sb strings.Builder
	for _, sp := range sps {
		fmt.Fprintf(&sb, "M%.9g %.9g", sp.Start.X, sp.Start.Y)
		for _, s := range sp.Segs {
			switch s.Kind {
			case oracle.CmdLine:
				fmt.Fprintf(&sb, "L%.9g %.9g", s.P1.X, s.P1.Y)
			case oracle.CmdClose:
				fmt.Fprintf(&sb, "z%.9g %.9g", s.P1.X, s.P1.Y)
			case oracle.CmdQuad:
				fmt.Fprintf(&sb, "Q%.9g %.9g %.9g %.9g", s.C1.X, s.C1.Y, s.P1.X, s.P1.Y)
			case oracle.CmdCube:
				fmt.Fprintf(&sb, "C%.9g %.9g %.9g %.9g %.9g %.9g", s.C1.X, s.C1.Y, s.C2.X, s.C2.Y, s.P1.X, s.P1.Y)
			case oracle.CmdArc:
				fmt.Fprintf(&sb, "A%.9g %.9g %.9g %v %v %.9g %.9g", s.Rx, s.Ry, s.Phi, s.Large, s.Sweep, s.P1.X, s.P1.Y)
			}
		}
		if sp.Closed {
			sb.WriteByte('Z')
		}
	}
	return sb.String()
}

// buildPath makes a canvas path from parsed subpaths through the public builder API.
// openClosed replaces the closing of closed subpaths by a plain line back to the start.
func buildPath(sps []oracle.Subpath, openClosed bool) *canvas.Path {
	p := &canvas.Path{}
	for _, sp := range sps {
		p.MoveTo(sp.Start.X, sp.Start.Y)
		for _, s := range sp.Segs {
			switch s.Kind {
			case oracle.CmdLine:
				p.LineTo(s.P1.X, s.P1.Y)
			case oracle.CmdClose:
				if openClosed {
					p.LineTo(s.P1.X, s.P1.Y)
				}
				// otherwise Close below
			case oracle.CmdQuad:
				p.QuadTo(s.C1.X, s.C1.Y, s.P1.X, s.P1.Y)
			case oracle.CmdCube:
				p.CubeTo(s.C1.X, s.C1.Y, s.C2.X, s.C2.Y, s.P1.X, s.P1.Y)
			case oracle.CmdArc:
				p.ArcTo(s.Rx, s.Ry, s.Phi*180/math.Pi, s.Large, s.Sweep, s.P1.X, s.P1.Y)
			}
		}
		if sp.Closed {
			if openClosed {
				if n := len(sp.Segs); n == 0 || sp.Segs[n-1].Kind != oracle.CmdClose {
					p.LineTo(sp.Start.X, sp.Start.Y)
				}
			} else {
				p.Close()
			}
		}
	}
	return p
}

var outlineCache = map[string][]oracle.Polyline{}

// strokeOutline materialises the region painted by stroking sps (user space) with the parsed
// parameters: dashes are laid along each subpath from its start (pattern and phase restart per
// subpath), every dash is an open piece with caps, then the union of the offset outlines.
// canvas's own Dash/Stroke do the materialisation (C04/C05 judge those functions). The result is
// a set of closed polylines in user space to be filled NonZero.
//
// joinAtClosure selects what happens where a dashed closed subpath returns to its start while
// the pattern is "on" at both ends: false = the formats' wording (the pattern simply starts at
// the first point and stops at the last: two caps meet there), true = the two dashes are merged
// into one that runs through the start point with a join (what Path.Dash does).
func strokeOutline(sps []oracle.Subpath, sp strokeParams, joinAtClosure bool) []oracle.Polyline {
	key := subpathsKey(sps) + "|" + sp.key() + fmt.Sprint(joinAtClosure)
	if o, ok := outlineCache[key]; ok {
		return o
	}
	dashed := false
	for _, d := range sp.dashes {
		if d > 0 {
			dashed = true
		}
	}
	var out []oracle.Polyline
	if sp.width > 0 {
		p := buildPath(mergeTinySegments(sps, 1e-4), dashed && !joinAtClosure)
		if dashed {
			p = p.Dash(sp.phase, append([]float64(nil), sp.dashes...)...)
		}
		if !p.Empty() {
			o := p.Stroke(sp.width, sp.capper(), sp.joiner(), 0.01)
			out = oracle.DenseData(o.Data(), 12)
		}
	}
	for i := range out {
		out[i].Closed = true
	}
	outlineCache[key] = out
	return out
}

// hasClosedSubpath reports whether the closure question can arise at all.
func hasClosedSubpath(sps []oracle.Subpath) bool {
	for _, sp := range sps {
		if sp.Closed {
			return true
		}
	}
	return false
}

// mergeTinySegments removes straight segments shorter than eps (user units) by moving the
// neighbouring segment's end onto the other end. PostScript's arc operators are emitted with a
// centre parameterisation rounded to 8 digits: the interpreter must connect the current point to
// the recomputed arc start and close the subpath with straight segments of some 1e-7 units whose
// direction is noise; a join computed from such a segment says nothing about the document.
func mergeTinySegments(sps []oracle.Subpath, eps float64) []oracle.Subpath {
	out := make([]oracle.Subpath, 0, len(sps))
	for _, sp := range sps {
		q := oracle.Subpath{Start: sp.Start, Closed: sp.Closed}
		cur := sp.Start
		for _, s := range sp.Segs {
			if (s.Kind == oracle.CmdLine || s.Kind == oracle.CmdClose) && cur.Dist(s.P1) < eps && cur != s.P1 {
				if s.Kind == oracle.CmdClose && len(q.Segs) > 0 {
					q.Segs[len(q.Segs)-1].P1 = s.P1
					cur = s.P1
					q.Segs = append(q.Segs, oracle.Seg{Kind: oracle.CmdClose, P0: cur, P1: cur})
				}
				continue
			}
			s.P0 = cur
			q.Segs = append(q.Segs, s)
			cur = s.P1
		}
		out = append(out, q)
	}
	return out
}

// effectiveWidth is the line width in the target space when the user space maps to it by a
// similarity (0 otherwise: the stroke is then not a constant-width band).
func effectiveWidth(total aff, w float64) float64 {
	a := total.a*total.a + total.b*total.b
	b := total.c*total.c + total.d*total.d
	c := total.a*total.c + total.b*total.d
	if math.Abs(a-b) > 1e-9*math.Max(a, b) || math.Abs(c) > 1e-9*math.Max(a, b) {
		return 0
	}
	return w * math.Sqrt(math.Abs(total.det()))
}
