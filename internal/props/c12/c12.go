// Package c12: the SVG, PDF and PostScript back-ends encode what the rasterizer paints.
package c12

import (
	"bytes"
	"compress/gzip"
	"fmt"
	"image"
	"image/color"
	"io"
	"math"
	"os"
	"path/filepath"
	"regexp"
	"runtime/debug"
	"strconv"
	"strings"
	"sync"

	"github.com/tdewolff/canvas"
	"github.com/tdewolff/canvas/renderers/pdf"
	"github.com/tdewolff/canvas/renderers/ps"
	"github.com/tdewolff/canvas/renderers/rasterizer"
	"github.com/tdewolff/canvas/renderers/svg"

	"verif/internal/fw"
	"verif/internal/oracle"
	"verif/internal/rec"
)

// ---- menus (simplest first) ----------------------------------------------------------------

type pathSpec struct {
	name  string
	build func() *canvas.Path
	text  string
}

var paths = []pathSpec{
	{"triangle", func() *canvas.Path {
		p := &canvas.Path{}
		p.MoveTo(0, 0)
		p.LineTo(9, 1)
		p.LineTo(3, 7)
		p.Close()
		return p
	}, "M0 0L9 1L3 7z"},
	{"two overlapping squares (winding 2 in the overlap: fill-rule sensitive)", func() *canvas.Path {
		p := &canvas.Path{}
		p.MoveTo(0, 0)
		p.LineTo(5.3, 0)
		p.LineTo(5.3, 5.3)
		p.LineTo(0, 5.3)
		p.Close()
		p.MoveTo(3, 2)
		p.LineTo(8.3, 2)
		p.LineTo(8.3, 7.3)
		p.LineTo(3, 7.3)
		p.Close()
		return p
	}, "M0 0L5.3 0L5.3 5.3L0 5.3zM3 2L8.3 2L8.3 7.3L3 7.3z"},
	{"open zig-zag (40 and 65 degree corners: miter-limit sensitive)", func() *canvas.Path {
		p := &canvas.Path{}
		p.MoveTo(0, 0)
		p.LineTo(8.3, 0)
		p.LineTo(2.94, 4.5)
		p.LineTo(8.3, 7)
		return p
	}, "M0 0L8.3 0L2.94 4.5L8.3 7"},
	{"pentagram bow (self-crossing, winding 2 in the core: fill-rule sensitive)", func() *canvas.Path {
		p := &canvas.Path{}
		p.MoveTo(4.5, 7)
		p.LineTo(1.5, 0)
		p.LineTo(9, 4.5)
		p.LineTo(0, 4.5)
		p.LineTo(7.5, 0)
		p.Close()
		return p
	}, "M4.5 7L1.5 0L9 4.5L0 4.5L7.5 0z"},
	{"closed curve with Q, C and A segments", func() *canvas.Path {
		p := &canvas.Path{}
		p.MoveTo(1, 1)
		p.QuadTo(4.5, -1, 8, 1.5)
		p.CubeTo(9.5, 4, 8, 6.5, 5, 6.5)
		p.ArcTo(4, 3.5, 20, false, true, 1, 1)
		p.Close()
		return p
	}, "M1 1Q4.5 -1 8 1.5C9.5 4 8 6.5 5 6.5A4 3.5 20 0 1 1 1z"},
	// ---- geometry menu of family P only (nBasePaths ends here): shapes that exercise the path
	// data writers (H/V shorthands after each kind of segment, arc flags, several subpaths)
	parsed("arc, then a line to the x of the arc's start", "M1 1A4 3 0 0 1 7 3L1 6z"),
	parsed("quad, line to the y of the quad's start, cubic, line to the x of the cubic's start", "M1 1Q4 -1 7 2L9 1C9 4 8 6 5 6L9 7z"),
	parsed("two triangles, the second starts at the x of the first's start and goes on horizontally", "M2 1L6 1L6 5zM2 5L0 5L0 3z"),
	parsed("rectangle with a rectangular hole, horizontal and vertical lines only", "M0 0L8 0L8 6L0 6zM2 1L2 4L5 4L5 1z"),
	parsed("large arcs with both sweep directions, rotated ellipse", "M0 3A3.5 2 30 1 0 6 3A3.5 2 30 1 1 0 3z"),
	parsed("open: rotated small arc against the sweep, then a vertical line", "M0 0A5 2.5 40 0 0 8 3L8 7"),
	parsed("large arc then a line back to the start's y", "M2 2A3 3 0 1 1 6 2L4 2L4 0z"),
	{"ellipse from canvas.Ellipse", func() *canvas.Path { return canvas.Ellipse(4, 2.5).Translate(4, 2.5) }, "Ellipse(4,2.5) translated by (4,2.5)"},
	{"square with a clockwise hole and a clockwise square beside it, overlapped by a counter clockwise triangle (orientation sensitive)", func() *canvas.Path {
		p := &canvas.Path{}
		p.MoveTo(0, 0)
		p.LineTo(6, 0)
		p.LineTo(6, 6)
		p.LineTo(0, 6)
		p.Close()
		p.MoveTo(1, 1)
		p.LineTo(1, 4)
		p.LineTo(4, 4)
		p.LineTo(4, 1)
		p.Close()
		p.MoveTo(7, 1)
		p.LineTo(7, 5)
		p.LineTo(9, 5)
		p.LineTo(9, 1)
		p.Close()
		p.MoveTo(5, 2)
		p.LineTo(8.5, 3)
		p.LineTo(5, 7)
		p.Close()
		return p
	}, "M0 0L6 0L6 6L0 6zM1 1L1 4L4 4L4 1zM7 1L7 5L9 5L9 1zM5 2L8.5 3L5 7z"},
}

const nBasePaths = 5

var arcRadiiRe = regexp.MustCompile(`A([0-9.]+) ([0-9.]+) `)

func parsed(name, d string) pathSpec {
	return pathSpec{name, func() *canvas.Path { return canvas.MustParseSVGPath(d) }, d}
}

// positions of the k-th draw of a program (user coordinates of the Context): successive draws overlap
var positions = [][2]float64{{3, 2}, {8, 5}, {13, 8}}

type viewSpec struct {
	name string
	m    canvas.Matrix
}

var views = []viewSpec{
	{"identity", canvas.Identity},
	{"similarity: rotate 8 deg, scale 1.2", canvas.Identity.Rotate(8).Scale(1.2, 1.2)},
	{"non-uniform scale (1.4, 0.8)", canvas.Identity.Scale(1.4, 0.8)},
	{"reflection x -> 40-x", canvas.Identity.ReflectXAbout(20)},
	// an image at 0.25 px/mm is then placed with the factors (2.4, 1) resp. (1, -1): one factor is exactly 1
	{"non-uniform scale (0.6, 0.25)", canvas.Identity.Scale(0.6, 0.25)},
	{"mirror y -> 24-y and scale 0.25", canvas.Identity.Translate(0, 24).Scale(0.25, -0.25)},
	// not a similarity although its rows are orthogonal: a non-uniform scale followed by a turn of 45 degrees
	{"scale (0.8, 0.4) then rotate 45", canvas.Identity.Translate(14, -6).Rotate(45).Scale(0.8, 0.4)},
}

var coordSystems = []canvas.CoordSystem{canvas.CartesianI, canvas.CartesianIV}
var coordNames = []string{"CartesianI", "CartesianIV"}

const (
	fillNone = iota
	fillRed
	fillGrey
	fillRedHalf
	fillGradient
	fillRadialRing  // concentric circles, inner radius > 0
	fillRadialDisc  // concentric circles, inner radius 0
	fillRadialFocal // the start circle lies off-centre inside the end circle
)
const (
	strokeNone = iota
	strokeBlue
	strokeBlueHalf
	strokeRed // same colour as fillRed
	strokeGradient
	strokeRadial
)
const (
	joinMiter4 = iota
	joinMiter2
	joinBevel
	joinRound
	joinArcs
	joinMiterClip
)

type styleSpec struct {
	name    string
	fill    int
	stroke  int
	width   float64
	cap     int // 0 butt 1 round 2 square
	join    int
	rule    int // 0: NonZero or EvenOdd (see evenOdd), +1 Positive, -1 Negative
	dash    int // 0 none, 1 [2 1], 2 [1 0 2 3], 3 [2 1] offset -1, 4 [3 3] offset -1 (odd-length after canonicalisation), 5 [1 2 3] offset -2
	evenOdd bool
}

// Colours are premultiplied RGBA as canvas takes them. The opaque red and the half-transparent
// red have the same premultiplied channels (128,0,0): the pure red at alpha 0.5 is (128,0,0,128).
var (
	colRed      = color.RGBA{128, 0, 0, 255}
	colGrey     = color.RGBA{128, 128, 128, 255}
	colRedHalf  = color.RGBA{128, 0, 0, 128}
	colBlue     = color.RGBA{0, 0, 200, 255}
	colBlueHalf = color.RGBA{0, 0, 100, 128}
)

// The menu: every style differs from a base style (0, 5 or 20) in one caching-relevant field.
var styles = []styleSpec{
	{name: "fill red", fill: fillRed, width: 1},
	{name: "fill grey", fill: fillGrey, width: 1},
	{name: "fill red alpha 0.5", fill: fillRedHalf, width: 1},
	{name: "fill gradient", fill: fillGradient, width: 1},
	{name: "fill red EvenOdd", fill: fillRed, width: 1, evenOdd: true},
	{name: "stroke blue w1", stroke: strokeBlue, width: 1},
	{name: "stroke blue alpha 0.5", stroke: strokeBlueHalf, width: 1},
	{name: "stroke blue w2", stroke: strokeBlue, width: 2},
	{name: "stroke blue round cap", stroke: strokeBlue, width: 1, cap: 1},
	{name: "stroke blue square cap", stroke: strokeBlue, width: 1, cap: 2},
	{name: "stroke blue miter limit 2", stroke: strokeBlue, width: 1, join: joinMiter2},
	{name: "stroke blue bevel join", stroke: strokeBlue, width: 1, join: joinBevel},
	{name: "stroke blue round join", stroke: strokeBlue, width: 1, join: joinRound},
	{name: "stroke blue arcs join", stroke: strokeBlue, width: 1, join: joinArcs},
	{name: "stroke blue miter-clip join", stroke: strokeBlue, width: 1, join: joinMiterClip},
	{name: "stroke blue dashes [2 1]", stroke: strokeBlue, width: 1, dash: 1},
	{name: "stroke blue dashes [1 0 2 3]", stroke: strokeBlue, width: 1, dash: 2},
	{name: "stroke blue dashes [2 1] offset -1", stroke: strokeBlue, width: 1, dash: 3},
	{name: "stroke blue dashes [3 3] offset -1", stroke: strokeBlue, width: 1, dash: 4},
	{name: "stroke blue dashes [1 2 3] offset -2", stroke: strokeBlue, width: 1, dash: 5},
	{name: "stroke blue w2 dashes [2 1]", stroke: strokeBlue, width: 2, dash: 1},
	{name: "stroke blue EvenOdd", stroke: strokeBlue, width: 1, evenOdd: true},
	{name: "fill red + stroke blue", fill: fillRed, stroke: strokeBlue, width: 1},
	{name: "fill red + stroke red w2 (same colour)", fill: fillRed, stroke: strokeRed, width: 2},
	{name: "fill red + stroke blue alpha 0.5", fill: fillRed, stroke: strokeBlueHalf, width: 1},
	{name: "fill red alpha 0.5 + stroke blue alpha 0.5", fill: fillRedHalf, stroke: strokeBlueHalf, width: 1},
	{name: "fill gradient + stroke blue", fill: fillGradient, stroke: strokeBlue, width: 1},
	{name: "stroke gradient B w2", stroke: strokeGradient, width: 2},
	{name: "fill gradient + stroke gradient B w2 (two different gradients)", fill: fillGradient, stroke: strokeGradient, width: 2},
	{name: "fill red + stroke blue EvenOdd", fill: fillRed, stroke: strokeBlue, width: 1, evenOdd: true},
	{name: "fill red + stroke blue w2 miter-clip dashes [2 1]", fill: fillRed, stroke: strokeBlue, width: 2, join: joinMiterClip, dash: 1},
}

// styleAt: indices from len(styles) on are the styles of family R.
func styleAt(i int) styleSpec {
	if i >= len(styles) {
		return ruleStyles[i-len(styles)]
	}
	return styles[i]
}

// styles of family R only: the fill rules that no output format knows
var ruleStyles = []styleSpec{
	{name: "fill red Positive", fill: fillRed, width: 1, rule: 1},
	{name: "fill red Negative", fill: fillRed, width: 1, rule: -1},
	{name: "fill red alpha 0.5 + stroke blue Positive", fill: fillRedHalf, stroke: strokeBlue, width: 1, rule: 1},
	{name: "fill gradient + stroke blue alpha 0.5 Negative", fill: fillGradient, stroke: strokeBlueHalf, width: 1, rule: -1},
	// styles of family Q only: radial gradients
	{name: "fill radial gradient, concentric, inner radius 2", fill: fillRadialRing, width: 1},
	{name: "fill radial gradient, concentric, inner radius 0", fill: fillRadialDisc, width: 1},
	{name: "fill radial gradient, start circle off-centre", fill: fillRadialFocal, width: 1},
	{name: "fill red alpha 0.5 + stroke radial gradient w2", fill: fillRedHalf, stroke: strokeRadial, width: 2},
	// styles of family N only: numbers that round up into a new integer digit when printed with 8 significant digits
	{name: "stroke blue w99.9999996", stroke: strokeBlue, width: 99.9999996},
	{name: "stroke blue w9.99999996 round join", stroke: strokeBlue, width: 9.99999996, join: joinRound},
	{name: "stroke blue w0.999999996 dashes [2 1]", stroke: strokeBlue, width: 0.999999996, dash: 1},
}

const nRadialStyles = 4

const nRuleStyles = 4 // the first entries of ruleStyles belong to family R, the rest to family Q

var gradStart, gradEnd = canvas.Point{X: 2, Y: 3}, canvas.Point{X: 30, Y: 18}
var gradC0, gradC1 = color.RGBA{250, 200, 0, 255}, color.RGBA{0, 120, 250, 255}

func mkGradient() *canvas.LinearGradient {
	g := canvas.NewLinearGradient(gradStart, gradEnd)
	g.Add(0, gradC0)
	g.Add(1, gradC1)
	return g
}

// a second gradient, other end points and stops
// mkRadial: three stops, so that the colour at every radius between the circles is distinct.
func mkRadial(c0 canvas.Point, r0 float64, c1 canvas.Point, r1 float64) *canvas.RadialGradient {
	g := canvas.NewRadialGradient(c0, r0, c1, r1)
	g.Add(0, color.RGBA{250, 220, 0, 255})
	g.Add(0.5, color.RGBA{0, 140, 90, 255})
	g.Add(1, color.RGBA{20, 0, 230, 255})
	return g
}

func mkGradientB() *canvas.LinearGradient {
	g := canvas.NewLinearGradient(canvas.Point{X: 30, Y: 2}, canvas.Point{X: 4, Y: 20})
	g.Add(0, color.RGBA{0, 160, 60, 255})
	g.Add(1, color.RGBA{200, 0, 120, 255})
	return g
}

func (s styleSpec) apply(ctx *canvas.Context) {
	ctx.ResetStyle()
	switch s.fill {
	case fillNone:
		ctx.SetFill(canvas.Transparent)
	case fillRed:
		ctx.SetFillColor(colRed)
	case fillGrey:
		ctx.SetFillColor(colGrey)
	case fillRedHalf:
		ctx.SetFillColor(colRedHalf)
	case fillGradient:
		ctx.SetFillGradient(mkGradient())
	case fillRadialRing:
		ctx.SetFillGradient(mkRadial(canvas.Point{X: 12, Y: 9}, 2, canvas.Point{X: 12, Y: 9}, 9))
	case fillRadialDisc:
		ctx.SetFillGradient(mkRadial(canvas.Point{X: 14, Y: 10}, 0, canvas.Point{X: 14, Y: 10}, 12))
	case fillRadialFocal:
		ctx.SetFillGradient(mkRadial(canvas.Point{X: 10, Y: 8}, 1, canvas.Point{X: 13, Y: 10}, 11))
	}
	switch s.stroke {
	case strokeNone:
		ctx.SetStroke(canvas.Transparent)
	case strokeBlue:
		ctx.SetStrokeColor(colBlue)
	case strokeBlueHalf:
		ctx.SetStrokeColor(colBlueHalf)
	case strokeRed:
		ctx.SetStrokeColor(colRed)
	case strokeGradient:
		ctx.SetStrokeGradient(mkGradientB())
	case strokeRadial:
		ctx.SetStrokeGradient(mkRadial(canvas.Point{X: 11, Y: 9}, 1.5, canvas.Point{X: 11, Y: 9}, 10))
	}
	ctx.SetStrokeWidth(s.width)
	ctx.SetStrokeCapper([]canvas.Capper{canvas.ButtCap, canvas.RoundCap, canvas.SquareCap}[s.cap])
	switch s.join {
	case joinMiter4:
		ctx.SetStrokeJoiner(canvas.MiterJoin)
	case joinMiter2:
		ctx.SetStrokeJoiner(canvas.MiterJoiner{GapJoiner: canvas.BevelJoin, Limit: 2})
	case joinBevel:
		ctx.SetStrokeJoiner(canvas.BevelJoin)
	case joinRound:
		ctx.SetStrokeJoiner(canvas.RoundJoin)
	case joinArcs:
		ctx.SetStrokeJoiner(canvas.ArcsJoin)
	case joinMiterClip:
		ctx.SetStrokeJoiner(canvas.MiterClipJoin)
	}
	switch s.dash {
	case 0:
		ctx.SetDashes(0)
	case 1:
		ctx.SetDashes(0, 2, 1)
	case 2:
		ctx.SetDashes(0, 1, 0, 2, 3)
	case 3:
		ctx.SetDashes(-1, 2, 1)
	case 4:
		ctx.SetDashes(-1, 3, 3)
	case 5:
		ctx.SetDashes(-2, 1, 2, 3)
	}
	switch {
	case s.rule > 0:
		ctx.SetFillRule(canvas.Positive)
	case s.rule < 0:
		ctx.SetFillRule(canvas.Negative)
	case s.evenOdd:
		ctx.SetFillRule(canvas.EvenOdd)
	default:
		ctx.SetFillRule(canvas.NonZero)
	}
}

// ---- programs ------------------------------------------------------------------------------

// draw is one Context call: DrawPath(path) under a style, or (img > 0) DrawImage of test image
// img-1 at resolution imageRes[res].
// txt > 0: DrawText of text variant txt-1 (the text itself is not compared - its glyphs are a matter of
// C18 - but it is part of the program: what its graphics state leaves behind shows in the next path).
type draw struct{ path, style, view, cs, img, res, txt int }

var textNames = []string{"\"Hi\" DejaVuSerif 12pt black", "\"Hi\" DejaVuSerif 12pt black, faux bold (Bold of a family with the Regular style only)",
	"\"Hi\" DejaVuSerif 12pt blue, faux bold", "\"Hi\" DejaVuSerif 12pt black, faux italic"}

var (
	textOnce   sync.Once
	textFamily *canvas.FontFamily
)

func mkText(v int) *canvas.Text {
	textOnce.Do(func() {
		dir := os.Getenv("REPO")
		if dir == "" {
			dir = "/repo"
		}
		textFamily = canvas.NewFontFamily("dejavu-serif")
		if err := textFamily.LoadFontFile(filepath.Join(dir, "resources", "DejaVuSerif.ttf"), canvas.FontRegular); err != nil {
			panic("c12: cannot load font: " + err.Error())
		}
	})
	var face *canvas.FontFace
	switch v {
	case 0:
		face = textFamily.Face(12, canvas.Black, canvas.FontRegular)
	case 1:
		face = textFamily.Face(12, canvas.Black, canvas.FontBold)
	case 2:
		face = textFamily.Face(12, colBlue, canvas.FontBold)
	default:
		face = textFamily.Face(12, canvas.Black, canvas.FontItalic)
	}
	return canvas.NewTextLine(face, "Hi", canvas.Left)
}

// Test images, 3 columns x 2 rows, row 0 is the top row. Premultiplied RGBA as image.RGBA stores it.
var imagePixels = [][6]color.RGBA{
	{{230, 20, 20, 255}, {20, 200, 20, 255}, {20, 20, 230, 255}, {230, 220, 20, 255}, {20, 210, 220, 255}, {120, 120, 120, 255}},
	// with an alpha channel: two half-transparent pixels and a fully transparent one
	{{230, 20, 20, 255}, {10, 100, 10, 128}, {20, 20, 230, 255}, {0, 0, 0, 0}, {20, 210, 220, 255}, {60, 60, 60, 128}},
	// the alpha image again, as a sub-image whose bounds start at (2,1) of a larger image
	{{230, 20, 20, 255}, {10, 100, 10, 128}, {20, 20, 230, 255}, {0, 0, 0, 0}, {20, 210, 220, 255}, {60, 60, 60, 128}},
}
var imageNames = []string{"3x2 image of six opaque colours", "3x2 image with alpha (pixels (1,0) and (2,1) at alpha 128, pixel (0,1) transparent)",
					"the same 3x2 image with alpha as a sub-image with bounds (2,1)-(5,3) of a 7x5 image of other colours"}
var imageRes = []float64{0.25, 0.5} // pixels per millimetre: 12 mm x 8 mm and 6 mm x 4 mm

func mkImage(v int) *image.RGBA {
	if v == 2 {
		big := image.NewRGBA(image.Rect(0, 0, 7, 5))
		for y := 0; y < 5; y++ {
			for x := 0; x < 7; x++ {
				big.SetRGBA(x, y, color.RGBA{uint8(40 * x), uint8(250 - 50*y), 90, 255})
			}
		}
		for k, px := range imagePixels[v] {
			big.SetRGBA(2+k%3, 1+k/3, px)
		}
		return big.SubImage(image.Rect(2, 1, 5, 3)).(*image.RGBA)
	}
	im := image.NewRGBA(image.Rect(0, 0, 3, 2))
	for k, px := range imagePixels[v] {
		im.SetRGBA(k%3, k/3, px)
	}
	return im
}

type program []draw

func (p program) String() string {
	var sb strings.Builder
	sb.WriteString("c := canvas.New(40,24); ctx := canvas.NewContext(c)")
	for k, d := range p {
		if d.txt > 0 {
			fmt.Fprintf(&sb, "; ctx.SetCoordSystem(%s); ctx.SetView(%s); ctx.DrawText(%g,%g, %s)", coordNames[d.cs], views[d.view].name, positions[k][0], positions[k][1], textNames[d.txt-1])
			continue
		}
		if d.img > 0 {
			fmt.Fprintf(&sb, "; ctx.SetCoordSystem(%s); ctx.SetView(%s); ctx.DrawImage(%g,%g, %s, canvas.DPMM(%g))",
				coordNames[d.cs], views[d.view].name, positions[k][0], positions[k][1], imageNames[d.img-1], imageRes[d.res])
			continue
		}
		fmt.Fprintf(&sb, "; ctx.SetCoordSystem(%s); ctx.SetView(%s); style{%s}; ctx.DrawPath(%g,%g, %s [%s])",
			coordNames[d.cs], views[d.view].name, styleAt(d.style).name, positions[k][0], positions[k][1], paths[d.path].name, paths[d.path].text)
	}
	return sb.String()
}

func (p program) canvas() *canvas.Canvas {
	c := canvas.New(CW, CH)
	ctx := canvas.NewContext(c)
	for k, d := range p {
		ctx.SetCoordSystem(coordSystems[d.cs])
		ctx.SetView(views[d.view].m)
		if d.txt > 0 {
			ctx.DrawText(positions[k][0], positions[k][1], mkText(d.txt-1))
			continue
		}
		if d.img > 0 {
			ctx.DrawImage(positions[k][0], positions[k][1], mkImage(d.img-1), canvas.DPMM(imageRes[d.res]))
			continue
		}
		styleAt(d.style).apply(ctx)
		ctx.DrawPath(positions[k][0], positions[k][1], paths[d.path].build())
	}
	return c
}

// ---- expected display list -----------------------------------------------------------------

type expItem struct {
	item
	op     int // index of the recorded layer
	dashed bool
	// a dash boundary falls within 1e-3 mm of a vertex or of the end of a subpath: whether the
	// join/cap there is drawn depends on rounding, no output can be called right or wrong
	knife bool
	// diagnosis only: the stroke region with the recorded (unscaled) dash lengths
	unscaled *region
	// images: the undecidable samples ([0]: within 0.1 cell of a cell border; [1], for the
	// rasterizer tally: everything but the 0.1-cell neighbourhood of the cell centres, because the
	// rasterizer interpolates between pixel centres, and 1.5 cells around the image, where its
	// interpolation kernel and the transparent margin it adds under rotation leave faint paint)
	imgNear *[2]bits
}

// expNear returns the samples too close to call for the expected item.
func expNear(e *expItem) *[2]bits {
	if e.imgNear != nil {
		return e.imgNear
	}
	return nearBits(e.reg)
}

// expectedImage turns a recorded image layer into a raster item: RenderImage(img, m) places image
// pixel coordinates (x to the right, y UP, the image occupying [0,w] x [0,h]) by m; row 0 of the
// image is its top row, so image space (u,v) (v counting rows from row 0) is (u, h-v) there.
func expectedImage(op rec.Op, k int) (expItem, string) {
	b := op.Image.Bounds()
	w, h := b.Dx(), b.Dy()
	pix := make([]colour, 0, w*h)
	for y := b.Min.Y; y < b.Max.Y; y++ {
		for x := b.Min.X; x < b.Max.X; x++ {
			n := color.NRGBA64Model.Convert(op.Image.At(x, y)).(color.NRGBA64)
			pix = append(pix, colour{float64(n.R) / 65535, float64(n.G) / 65535, float64(n.B) / 65535, float64(n.A) / 65535})
		}
	}
	from := matAff(op.M).mul(aff{1, 0, 0, -1, 0, float64(h)})
	ra, ok := newRaster(w, h, pix, from, 1, fmt.Sprintf("%dx%d", w, h))
	if !ok {
		return expItem{}, "image under a singular matrix"
	}
	e := expItem{item: item{role: "image", reg: ra.quad("exp"), paint: paint{img: ra}}, op: k}
	e.imgNear = &[2]bits{*ra.cellBorderBits(0.1, 0.1), *ra.cellBorderBits(0.4, 1.5)}
	return e, ""
}

func toColour(c color.RGBA) colour {
	if c.A == 0 {
		return colour{}
	}
	a := float64(c.A)
	return colour{float64(c.R) / a, float64(c.G) / a, float64(c.B) / a, a / 255}
}

func toPaint(p canvas.Paint) (paint, string) {
	if p.IsGradient() {
		var stops canvas.Stops
		var g *gradient
		switch gg := p.Gradient.(type) {
		case *canvas.RadialGradient:
			stops = append(canvas.Stops(nil), gg.Stops...)
			g = &gradient{toGrad: ident, radial: true, p0: oracle.Pt{X: gg.C0.X, Y: gg.C0.Y}, r0: gg.R0, p1: oracle.Pt{X: gg.C1.X, Y: gg.C1.Y}, r1: gg.R1, extend: [2]bool{true, true}, alpha: 1,
				desc: fmt.Sprintf("radial (%g,%g) r=%g -> (%g,%g) r=%g", gg.C0.X, gg.C0.Y, gg.R0, gg.C1.X, gg.C1.Y, gg.R1)}
		}
		lg, ok := p.Gradient.(*canvas.LinearGradient)
		if !ok && g == nil {
			return paint{}, "unsupported gradient type"
		}
		if ok {
			stops = append(canvas.Stops(nil), lg.Stops...)
			g = &gradient{toGrad: ident, p0: oracle.Pt{X: lg.Start.X, Y: lg.Start.Y}, p1: oracle.Pt{X: lg.End.X, Y: lg.End.Y}, extend: [2]bool{true, true}, alpha: 1,
				desc: fmt.Sprintf("(%g,%g)->(%g,%g) mm, %d stops", lg.Start.X, lg.Start.Y, lg.End.X, lg.End.Y, len(stops))}
		}
		g.colourAt = func(t float64) colour {
			// documented semantics: the colour at offset 0 is at the start, at offset 1 at the end,
			// linear in between stops, the end colours continue outside
			if len(stops) == 0 {
				return colour{}
			}
			if t <= stops[0].Offset {
				return toColour(stops[0].Color)
			}
			for i := 1; i < len(stops); i++ {
				if t < stops[i].Offset {
					u := (t - stops[i-1].Offset) / (stops[i].Offset - stops[i-1].Offset)
					a, b := toColour(stops[i-1].Color), toColour(stops[i].Color)
					return colour{a.r + (b.r-a.r)*u, a.g + (b.g-a.g)*u, a.b + (b.b-a.b)*u, a.a + (b.a-a.a)*u}
				}
			}
			return toColour(stops[len(stops)-1].Color)
		}
		return paint{grad: g}, ""
	}
	if p.IsPattern() {
		return paint{}, "pattern paint"
	}
	return paint{solid: toColour(p.Color)}, ""
}

func matAff(m canvas.Matrix) aff { return aff{m[0][0], m[1][0], m[0][1], m[1][1], m[0][2], m[1][2]} }

var expOutlineCache = map[string][]oracle.Polyline{}

// expectedList derives the display list from the layers the canvas replays, by the semantics
// the reference rasterizer implements (rasterizer.RenderPath): fill region = m·path under the
// style's fill rule; stroke region = m·Stroke(Dash(path, dashes scaled by the stroke width),
// width, cap, join), NonZero; fill first, then stroke.
func expectedList(ops []rec.Op) ([]expItem, string) {
	var out []expItem
	for k, op := range ops {
		if op.Kind == "image" {
			e, bad := expectedImage(op, k)
			if bad != "" {
				return nil, bad
			}
			out = append(out, e)
			continue
		}
		if op.Kind != "path" {
			return nil, "the canvas replays a " + op.Kind + " layer"
		}
		m := matAff(op.M)
		st := op.Style
		dataKey := fmt.Sprintf("exp|%.9g|%s", op.Data, m.String())
		if st.HasFill() {
			p, bad := toPaint(st.Fill)
			if bad != "" {
				return nil, bad
			}
			pls := mapPolys(oracle.DenseData(op.Data, 48), m)
			for i := range pls {
				pls[i].Closed = true
			}
			// Positive / Negative: the orientation of the contours as drawn, i.e. after the layer matrix
			// (what rasterizer.RenderPath settles); a reflecting view turns every contour around
			sign := 0
			switch st.FillRule {
			case canvas.Positive:
				sign = 1
			case canvas.Negative:
				sign = -1
			}
			out = append(out, expItem{item: item{role: "fill", reg: region{key: dataKey, pls: pls, evenOdd: st.FillRule == canvas.EvenOdd, sign: sign}, paint: p}, op: k})
		}
		if st.HasStroke() {
			p, bad := toPaint(st.Stroke)
			if bad != "" {
				return nil, bad
			}
			mk := func(scale float64) region {
				key := fmt.Sprintf("%s|stroke w%.9g %v %v d%.9g o%.9g s%.9g", dataKey, st.StrokeWidth, st.StrokeCapper, st.StrokeJoiner, st.Dashes, st.DashOffset, scale)
				if j, ok := st.StrokeJoiner.(canvas.MiterJoiner); ok {
					key += fmt.Sprintf(" limit %.9g", j.Limit)
				}
				if j, ok := st.StrokeJoiner.(canvas.ArcsJoiner); ok {
					key += fmt.Sprintf(" limit %.9g", j.Limit)
				}
				pls, ok := expOutlineCache[key]
				if !ok {
					sp := canvas.NewPathFromData(append([]float64(nil), op.Data...))
					if len(st.Dashes) > 0 {
						off, d := canvas.ScaleDash(scale, st.DashOffset, st.Dashes)
						sp = sp.Dash(off, d...)
					}
					if !sp.Empty() {
						o := sp.Stroke(st.StrokeWidth, st.StrokeCapper, st.StrokeJoiner, canvas.PixelTolerance/4)
						pls = oracle.DenseData(o.Data(), 12)
					}
					for i := range pls {
						pls[i].Closed = true
					}
					expOutlineCache[key] = pls
				}
				return region{key: key, pls: mapPolys(pls, m)}
			}
			e := expItem{item: item{role: "stroke", reg: mk(st.StrokeWidth), paint: p}, op: k, dashed: len(st.Dashes) > 0}
			e.knife = e.dashed && dashBoundaryAtVertex(op.Data, st.StrokeWidth, st.DashOffset, st.Dashes, 1e-3)
			if e.dashed && st.StrokeWidth != 1 {
				u := mk(1)
				e.unscaled = &u
			}
			out = append(out, e)
		}
	}
	return out, ""
}

// dashBoundaryAtVertex decides from the recorded input alone whether a boundary of the dash
// pattern (lengths x width, as the reference renderer scales them) lies within eps of a vertex
// or of the end of a subpath, measured along the path.
func dashBoundaryAtVertex(data []float64, width, offset float64, dashes []float64, eps float64) bool {
	sps, err := oracle.Decode(data)
	if err != nil || len(dashes) == 0 {
		return false
	}
	d := append([]float64(nil), dashes...)
	if len(d)%2 == 1 {
		d = append(d, d...)
	}
	period := 0.0
	var cum []float64
	for _, x := range d {
		period += x * width
		cum = append(cum, period)
	}
	if period <= 0 {
		return false
	}
	near := func(s float64) bool {
		u := math.Mod(s+offset*width, period)
		if u < 0 {
			u += period
		}
		if u < eps || period-u < eps {
			return true
		}
		for _, c := range cum {
			if math.Abs(u-c) < eps {
				return true
			}
		}
		return false
	}
	for _, sp := range sps {
		s := 0.0
		for _, sg := range sp.Segs {
			s += oracle.Length(oracle.Dense([]oracle.Subpath{{Start: sg.P0, Segs: []oracle.Seg{sg}}}, 256))
			if near(s) {
				return true
			}
		}
	}
	return false
}

// ---- back-ends -----------------------------------------------------------------------------

type backend struct {
	name   string
	family string // svg, pdf, ps
	render func(c *canvas.Canvas) []byte
}

var backends = []backend{
	{"SVG", "svg", func(c *canvas.Canvas) []byte {
		var b bytes.Buffer
		r := svg.New(&b, c.W, c.H, nil)
		c.RenderTo(r)
		r.Close()
		return b.Bytes()
	}},
	{"PDF", "pdf", func(c *canvas.Canvas) []byte {
		var b bytes.Buffer
		r := pdf.New(&b, c.W, c.H, nil)
		c.RenderTo(r)
		r.Close()
		return b.Bytes()
	}},
	{"PS", "ps", func(c *canvas.Canvas) []byte {
		var b bytes.Buffer
		r := ps.New(&b, c.W, c.H, nil)
		c.RenderTo(r)
		r.Close()
		return b.Bytes()
	}},
	{"PDF uncompressed", "pdf", func(c *canvas.Canvas) []byte {
		var b bytes.Buffer
		o := pdf.DefaultOptions
		o.Compress = false
		r := pdf.New(&b, c.W, c.H, &o)
		c.RenderTo(r)
		r.Close()
		return b.Bytes()
	}},
	{"SVG gzip", "svg", func(c *canvas.Canvas) []byte {
		var b bytes.Buffer
		o := svg.DefaultOptions
		o.Compression = gzip.BestSpeed
		r := svg.New(&b, c.W, c.H, &o)
		c.RenderTo(r)
		r.Close()
		return b.Bytes()
	}},
	{"EPS", "ps", func(c *canvas.Canvas) []byte {
		var b bytes.Buffer
		o := ps.DefaultOptions
		o.Format = ps.EncapsulatedPostScript
		r := ps.New(&b, c.W, c.H, &o)
		c.RenderTo(r)
		r.Close()
		return b.Bytes()
	}},
}

// gunzip returns the decompressed bytes of a gzip stream (RFC 1952), or the input if it is none.
func gunzip(data []byte) []byte {
	if len(data) > 2 && data[0] == 0x1f && data[1] == 0x8b {
		if zr, err := gzip.NewReader(bytes.NewReader(data)); err == nil {
			if out, err := io.ReadAll(zr); err == nil {
				return out
			}
		}
	}
	return data
}

func interpret(be backend, data []byte) *displayList {
	switch be.family {
	case "svg":
		return interpretSVG(gunzip(data))
	case "pdf":
		return interpretPDF(data)
	}
	dl, _, _ := interpretPS(data)
	return dl
}

// emitted renders the bytes for messages (the content stream for PDF).
func emitted(be backend, data []byte) string {
	switch be.family {
	case "pdf":
		if s := pdfContent(data); s != "" {
			return s
		}
	case "ps":
		s := string(data)
		if i := strings.Index(s, "arcn m setmatrix}def"); i >= 0 {
			return "…" + s[i+len("arcn m setmatrix}def"):]
		}
	}
	return string(gunzip(data))
}

// safeRender renders and turns a panic of the back-end into a message.
func safeRender(be backend, c *canvas.Canvas) (data []byte, pan string) {
	defer func() {
		if e := recover(); e != nil {
			st := string(debug.Stack())
			where := ""
			for _, ln := range strings.Split(st, "\n") {
				if strings.Contains(ln, "/renderers/") && strings.Contains(ln, ".go:") {
					where = strings.TrimSpace(ln)
					break
				}
			}
			pan = fmt.Sprintf("%v (at %s)", e, where)
		}
	}()
	return be.render(c), ""
}

// ---- comparison ----------------------------------------------------------------------------

const colourTol = 3.0

func coloursClose(a, b colour, rgbOnly bool) bool {
	t := colourTol / 255
	if math.Abs(a.r-b.r) > t || math.Abs(a.g-b.g) > t || math.Abs(a.b-b.b) > t {
		return false
	}
	return rgbOnly || math.Abs(a.a-b.a) <= t
}

// regionDiff counts the samples, decidable with respect to the expected boundary, on which the
// two regions disagree.
func regionDiff(e, a *bits, near *bits) (n int, first int) {
	first = -1
	for w := range e {
		d := (e[w] ^ a[w]) &^ near[w]
		for d != 0 {
			bit := d & -d
			if first < 0 {
				i := 0
				for bit>>uint(i) != 1 {
					i++
				}
				first = w*64 + i
			}
			n++
			d &^= bit
		}
	}
	return
}

type verdict struct {
	class, detail string
}

// compareLists compares the expected list with what one back-end's bytes paint.
func compareLists(r *fw.R, be backend, exp []expItem, act *displayList, ops []rec.Op) []verdict {
	var out []verdict
	fam := be.family
	for _, p := range act.problems {
		out = append(out, verdict{p[0], p[1]})
	}
	for _, t := range act.tallies {
		r.Outcome("note:" + t)
	}
	if len(act.problems) > 0 {
		return out // the document is not interpretable as a whole; nothing else is compared
	}
	isPS := fam == "ps"
	structural := len(out)
	// a Positive/Negative fill whose region is empty (every contour turns the other way) need not be written at all
	if len(exp) > len(act.items) {
		var kept []expItem
		for _, e := range exp {
			if e.role == "fill" && e.reg.sign != 0 && insideBits(e.reg).count() == 0 {
				r.Outcome("empty-region-not-written")
				continue
			}
			kept = append(kept, e)
		}
		exp = kept
	}
	if len(exp) != len(act.items) {
		var roles []string
		for _, it := range act.items {
			roles = append(roles, it.role)
		}
		var eroles []string
		for _, it := range exp {
			eroles = append(eroles, it.role)
		}
		out = append(out, verdict{"paint-op-count-" + fam, fmt.Sprintf("the canvas paints %d regions %v, the %s output paints %d %v", len(exp), eroles, be.name, len(act.items), roles)})
	} else {
		for k := range exp {
			e, a := &exp[k], &act.items[k]
			st := ops[e.op].Style
			what := fmt.Sprintf("paint operation %d (%s of draw %d)", k+1, e.role, e.op+1)
			if e.role == "image" || a.role == "image" {
				if e.role != a.role {
					out = append(out, verdict{"paint-order-" + fam, fmt.Sprintf("%s: the canvas paints a %s there, the output a %s; emitted: %s", what, e.role, a.role, a.src)})
				} else {
					out = append(out, compareImage(r, be, what, e, a)...)
				}
				continue
			}
			// role: a stroke may legitimately arrive as an explicit outline (a fill); a fill must be a fill
			if e.role == "fill" && a.role != "fill" {
				out = append(out, verdict{"paint-order-" + fam, fmt.Sprintf("%s: the output strokes where the canvas fills; emitted: %s", what, a.src)})
				continue
			}
			fallback := e.role == "stroke" && a.role == "fill"
			if fallback {
				r.Outcome("stroke-as-explicit-outline-" + fam)
			} else if e.role == "stroke" {
				r.Outcome("stroke-native-" + fam)
			}
			// region
			eb, near := insideBits(e.reg), expNear(e)
			ab := itemInside(a)
			if a.alt != nil && !e.knife {
				// dashed closed subpath whose pattern is "on" at both ends: the formats do not say
				// whether the last and first dash meet with two caps or run through the start point
				// with a join (Skia, cairo and Ghostscript join); either reading is accepted
				if n, _ := regionDiff(eb, ab, &near[0]); n == 0 {
					r.Outcome("dashed-closed-subpath:agrees-with-the-caps-reading-" + fam)
				} else {
					alt := *a
					alt.reg = *a.alt
					if m, _ := regionDiff(eb, itemInside(&alt), &near[0]); m == 0 {
						r.Outcome("dashed-closed-subpath:agrees-with-the-join-reading-only-" + fam)
						a.reg = *a.alt
						ab = itemInside(a)
					}
				}
			}
			if e.knife {
				r.Outcome("skipped-region:dash-boundary-at-a-vertex")
			} else if n, first := regionDiff(eb, ab, &near[0]); n > 0 {
				q := samples[first]
				class := ""
				switch {
				case e.role == "fill":
					class = "fill-region-" + fam
				case fallback:
					class = "stroke-outline-region-" + fam
					if e.unscaled != nil {
						if m, _ := regionDiff(insideBits(*e.unscaled), ab, &nearBits(*e.unscaled)[0]); m == 0 {
							class = "dash-scaling-fallback-" + fam
						}
					}
					if a.reg.evenOdd {
						if m, _ := regionDiff(eb, insideBits(region{key: a.reg.key, pls: a.reg.pls}), &near[0]); m == 0 {
							class = "stroke-outline-evenodd-" + fam
						}
					}
				default:
					class = "stroke-region-" + fam
				}
				out = append(out, verdict{class, fmt.Sprintf("%s: %d decidable samples differ, first (%.3f,%.3f): canvas inside=%v, %s inside=%v; style %s; emitted: %s",
					what, n, q.X, q.Y, eb.get(first), be.name, ab.get(first), styleString(st), a.src)})
			}
			// line width of natively stroked items: implied by the region, checked sharply because
			// the sample grid cannot see errors below the decidability margin
			if e.role == "stroke" && !fallback && a.widthMM > 0 {
				mm := matAff(ops[e.op].M)
				if want := effectiveWidth(mm, st.StrokeWidth); want > 0 {
					if !(math.Abs(a.widthMM-want) <= 1e-4*want) {
						out = append(out, verdict{"stroke-width-" + fam, fmt.Sprintf("%s: the canvas strokes with an effective width of %.6g mm (width %g x view scale), the %s output with %.6g mm; emitted: %s", what, want, st.StrokeWidth, be.name, a.widthMM, a.src)})
					}
				}
			}
			// paint
			if isPS {
				if e.paint.grad != nil {
					r.Outcome("ps-gradient-not-compared")
					continue
				}
				if e.paint.solid.a < 1-1e-9 {
					r.Outcome("ps-alpha-not-compared")
					continue
				}
			}
			if (e.paint.grad != nil) != (a.paint.grad != nil) {
				out = append(out, verdict{"paint-kind-" + fam, fmt.Sprintf("%s: canvas paint is %v, output paint is %v; emitted: %s", what, e.paint, a.paint, a.src)})
				continue
			}
			if e.paint.grad == nil {
				if !coloursClose(e.paint.solid, a.paint.solid, false) {
					class := "paint-colour-" + fam
					if coloursClose(e.paint.solid, a.paint.solid, true) {
						class = "paint-alpha-" + fam
						for j := 0; j < k; j++ {
							if exp[j].role == "image" {
								class = "paint-alpha-after-image-" + fam
							}
						}
					}
					out = append(out, verdict{class, fmt.Sprintf("%s: the canvas paints %v, the %s output paints %v; emitted: %s", what, e.paint.solid, be.name, a.paint.solid, a.src)})
				}
			} else {
				// gradients: compare the paint at every sample inside the expected region
				bad, worst := 0, 0.0
				var at oracle.Pt
				var ce, ca colour
				for i := range samples {
					if !eb.get(i) {
						continue
					}
					c1, ok1 := e.paint.at(samples[i])
					c2, ok2 := a.paint.at(samples[i])
					if !ok2 {
						c2 = colour{}
					}
					_ = ok1
					d := math.Max(math.Max(math.Abs(c1.r*c1.a-c2.r*c2.a), math.Abs(c1.g*c1.a-c2.g*c2.a)), math.Max(math.Abs(c1.b*c1.a-c2.b*c2.a), math.Abs(c1.a-c2.a))) * 255
					if !(d <= colourTol) {
						bad++
						if d > worst {
							worst, at, ce, ca = d, samples[i], c1, c2
						}
					}
				}
				if bad > 0 {
					class := "gradient-" + fam
					if coloursClose(ce, ca, true) {
						class = "paint-alpha-" + fam
						for j := 0; j < k; j++ {
							if exp[j].role == "image" {
								class = "paint-alpha-after-image-" + fam
							}
						}
					}
					out = append(out, verdict{class, fmt.Sprintf("%s: gradient differs at %d samples, worst at (%.3f,%.3f): canvas %v, %s %v (%s); emitted: %s", what, bad, at.X, at.Y, ce, be.name, ca, a.paint, a.src)})
				}
			}
		}
	}
	// the composite: catches whatever the per-operation comparison cannot attribute
	items := make([]item, len(exp))
	var undecidable bits
	for k := range exp {
		items[k] = exp[k].item
		undecidable.or(&expNear(&exp[k])[0])
	}
	ec := composite(items)
	ac := composite(act.items)
	topOpaque := func(i int) bool {
		for k := len(exp) - 1; k >= 0; k-- {
			if insideBits(exp[k].reg).get(i) {
				c, ok := exp[k].paint.at(samples[i])
				return exp[k].paint.grad == nil && ok && c.a >= 1-1e-9
			}
		}
		return true
	}
	nbad, ncmp := 0, 0
	firstBad := -1
	for k := range exp {
		if exp[k].knife {
			r.Outcome("skipped-composite:dash-boundary-at-a-vertex")
			return out
		}
	}
	for i := range samples {
		if undecidable.get(i) {
			continue
		}
		if isPS {
			if !topOpaque(i) {
				r.Count("ps_samples_not_compared_alpha_or_gradient", 1)
				continue
			}
		}
		ncmp++
		for ch := 0; ch < 4; ch++ {
			if !(math.Abs(ec[i][ch]-ac[i][ch]) <= colourTol) {
				nbad++
				if firstBad < 0 {
					firstBad = i
				}
				break
			}
		}
	}
	r.Count("samples_compared_"+fam, int64(ncmp))
	if nbad > 0 && len(out) == structural {
		q := samples[firstBad]
		class := "composite-" + fam
		for k := range act.items {
			if act.items[k].knocksOutPrev {
				plain := append([]item(nil), act.items...)
				for j := range plain {
					plain[j].knocksOutPrev = false
				}
				pc := composite(plain)
				same := true
				for i := range samples {
					if undecidable.get(i) {
						continue
					}
					for ch := 0; ch < 4; ch++ {
						if !(math.Abs(ec[i][ch]-pc[i][ch]) <= colourTol) {
							same = false
						}
					}
				}
				if same {
					class = "fill-stroke-one-operator-alpha-" + fam
				}
				break
			}
		}
		out = append(out, verdict{class, fmt.Sprintf("%d of %d decidable samples differ after compositing although every paint operation agrees, first (%.3f,%.3f): canvas %s, %s %s (premultiplied RGBA)%s", nbad, ncmp, q.X, q.Y, fmtPx(ec[firstBad]), be.name, fmtPx(ac[firstBad]), koNote(act))})
	}
	if nbad == 0 && len(out) > structural {
		r.Outcome("operation-differs-but-composite-agrees-" + fam)
	}
	return out
}

// cornerTol is the tolerance on the four corners of an image (mm). The formats carry 8
// significant digits (canvas.Precision); a matrix entry of magnitude 40 is then off by up to 5e-7.
const cornerTol = 1e-6

// compareImage compares one image paint operation: the four corners of the placed image (so that
// flips and swapped axes are seen exactly), the sample array (size and every sample), the region
// actually painted (clipping), and the colour at every decidable sample.
func compareImage(r *fw.R, be backend, what string, e *expItem, a *item) []verdict {
	var out []verdict
	fam := be.family
	isPS := fam == "ps"
	ei, ai := e.paint.img, a.paint.img
	dist := func(perm [4]int) float64 {
		d := 0.0
		for k := 0; k < 4; k++ {
			d = math.Max(d, ei.corners[k].Dist(ai.corners[perm[k]]))
		}
		return d
	}
	d := dist([4]int{0, 1, 2, 3})
	r.Max("image_corner_error_mm_"+fam, math.Min(d, 1))
	cs := func(c [4]oracle.Pt) string {
		return fmt.Sprintf("TL (%.7f,%.7f) TR (%.7f,%.7f) BR (%.7f,%.7f) BL (%.7f,%.7f)", c[0].X, c[0].Y, c[1].X, c[1].Y, c[2].X, c[2].Y, c[3].X, c[3].Y)
	}
	if !(d <= cornerTol) {
		class := "image-placement-" + fam
		switch {
		case dist([4]int{3, 2, 1, 0}) <= cornerTol:
			class = "image-flipped-top-bottom-" + fam
		case dist([4]int{1, 0, 3, 2}) <= cornerTol:
			class = "image-flipped-left-right-" + fam
		case dist([4]int{2, 3, 0, 1}) <= cornerTol:
			class = "image-rotated-180-" + fam
		}
		out = append(out, verdict{class, fmt.Sprintf("%s: the corners of the image (its top-left, top-right, bottom-right, bottom-left) are placed at %s by the canvas and at %s by the %s output (largest distance %.3g mm); emitted: %s", what, cs(ei.corners), cs(ai.corners), be.name, d, a.src)})
	}
	if ei.w != ai.w || ei.h != ai.h {
		out = append(out, verdict{"image-size-" + fam, fmt.Sprintf("%s: the image has %dx%d pixels, the %s output carries %dx%d samples; emitted: %s", what, ei.w, ei.h, be.name, ai.w, ai.h, a.src)})
		return out
	}
	for k := range ei.pix {
		p, q := ei.pix[k], ai.pix[k]
		if isPS {
			if p.a < 1-1e-9 {
				r.Outcome("ps-alpha-not-compared")
				continue
			}
			q.a = 1
		}
		if math.Abs(p.r*p.a-q.r*q.a) > colourTol/255 || math.Abs(p.g*p.a-q.g*q.a) > colourTol/255 || math.Abs(p.b*p.a-q.b*q.a) > colourTol/255 || math.Abs(p.a-q.a) > colourTol/255 {
			class := "image-pixels-" + fam
			if coloursClose(p, q, true) || p.a == 0 {
				class = "image-alpha-channel-" + fam
			}
			out = append(out, verdict{class, fmt.Sprintf("%s: pixel (column %d, row %d) is %v in the image and %v in the %s output; emitted: %s", what, k%ei.w, k/ei.w, p, q, be.name, a.src)})
			break
		}
	}
	if ai.alpha != 1 && !isPS {
		out = append(out, verdict{"image-alpha-constant-" + fam, fmt.Sprintf("%s: the image is painted under a constant alpha of %.4g; emitted: %s", what, ai.alpha, a.src)})
	}
	// region actually painted (clipping paths) and the colours at the samples
	eb, near := insideBits(e.reg), expNear(e)
	ab := itemInside(a)
	if len(out) == 0 {
		if n, first := regionDiff(eb, ab, &near[0]); n > 0 {
			q := samples[first]
			out = append(out, verdict{"image-clipped-" + fam, fmt.Sprintf("%s: %d decidable samples differ between the image's quad and what the output paints of it (%d clipping paths), first (%.3f,%.3f): canvas inside=%v, %s inside=%v; emitted: %s", what, n, len(a.clips), q.X, q.Y, eb.get(first), be.name, ab.get(first), a.src)})
		}
	}
	nbad, ncmp := 0, 0
	var first string
	for i, q := range samples {
		if near[0].get(i) || !eb.get(i) {
			continue
		}
		c1, _ := e.paint.at(q)
		c2, ok2 := a.paint.at(q)
		if isPS {
			if c1.a < 1-1e-9 {
				continue
			}
		}
		ncmp++
		bad := !ok2 || !ab.get(i) || math.Abs(c1.r*c1.a-c2.r*c2.a) > colourTol/255 || math.Abs(c1.g*c1.a-c2.g*c2.a) > colourTol/255 || math.Abs(c1.b*c1.a-c2.b*c2.a) > colourTol/255 || math.Abs(c1.a-c2.a) > colourTol/255
		if bad {
			nbad++
			if first == "" {
				first = fmt.Sprintf("(%.3f,%.3f): the image has %v there, the %s output %v (painted there: %v)", q.X, q.Y, c1, be.name, c2, ok2 && ab.get(i))
			}
		}
	}
	r.Count("image_cell_samples_compared_"+fam, int64(ncmp))
	if nbad > 0 && len(out) == 0 {
		out = append(out, verdict{"image-samples-" + fam, fmt.Sprintf("%s: %d of %d samples inside pixel cells differ, first %s; emitted: %s", what, nbad, ncmp, first, a.src)})
	}
	if len(out) == 0 {
		r.Outcome("image-agrees-" + fam)
	}
	return out
}

func koNote(act *displayList) string {
	for _, it := range act.items {
		if it.knocksOutPrev {
			return "; the output fills and strokes with ONE operator under alpha < 1, which makes the two a knockout group (ISO 32000-1 11.7.4.4): the stroke replaces the fill where they overlap instead of being painted over it; emitted: " + it.src
		}
	}
	return ""
}

func styleString(st canvas.Style) string {
	var sb strings.Builder
	if st.HasFill() {
		if st.Fill.IsGradient() {
			sb.WriteString("fill gradient")
		} else {
			fmt.Fprintf(&sb, "fill %v", st.Fill.Color)
		}
		fmt.Fprintf(&sb, " %v; ", st.FillRule)
	}
	if st.HasStroke() {
		fmt.Fprintf(&sb, "stroke %v width %g cap %v join %v", st.Stroke.Color, st.StrokeWidth, st.StrokeCapper, st.StrokeJoiner)
		if j, ok := st.StrokeJoiner.(canvas.MiterJoiner); ok {
			fmt.Fprintf(&sb, "(limit %g)", j.Limit)
		}
		if len(st.Dashes) > 0 {
			fmt.Fprintf(&sb, " dashes %v offset %g", st.Dashes, st.DashOffset)
		}
	}
	return sb.String()
}

// rasterTally runs the real rasterizer at 4 px/mm (linear colour space) and tallies its agreement
// with the expected list at the sample points (which are pixel centres). Never a violation here.
func rasterTally(r *fw.R, c *canvas.Canvas, exp []expItem) {
	var img *image.RGBA
	func() {
		defer func() {
			if e := recover(); e != nil {
				r.Outcome("rasterizer-panics")
			}
		}()
		img = rasterizer.Draw(c, canvas.DPMM(4), canvas.LinearColorSpace{})
	}()
	if img == nil {
		return
	}
	items := make([]item, len(exp))
	var undecidable bits
	for k := range exp {
		items[k] = exp[k].item
		undecidable.or(&expNear(&exp[k])[1])
	}
	ec := composite(items)
	nbad, n, nimg := 0, 0, 0
	for i, q := range samples {
		if undecidable.get(i) {
			continue
		}
		px, py := int(math.Floor(q.X*4)), img.Bounds().Dy()-1-int(math.Floor(q.Y*4))
		got := img.RGBAAt(px, py)
		g := [4]float64{float64(got.R), float64(got.G), float64(got.B), float64(got.A)}
		n++
		tol := 5.0
		for k := range exp {
			if exp[k].role == "image" && insideBits(exp[k].reg).get(i) {
				tol = 60 // the rasterizer interpolates (Catmull-Rom, with a transparent margin when rotated): only a wrong pixel shows
				nimg++
			}
		}
		for ch := 0; ch < 4; ch++ {
			if !(math.Abs(g[ch]-ec[i][ch]) <= tol) {
				nbad++
				break
			}
		}
	}
	r.Count("rasterizer_samples_compared_near_image_pixel_centres", int64(nimg))
	r.Count("rasterizer_samples_compared", int64(n))
	r.Count("rasterizer_samples_disagreeing", int64(nbad))
	if nbad == 0 {
		r.Outcome("rasterizer-agrees-with-expected-list")
	} else {
		r.Outcome("rasterizer-disagrees-with-expected-list")
	}
}

// checkProgram runs one program through the given back-ends.
func checkProgram(r *fw.R, p program, bes []backend, raster bool) {
	c := p.canvas()
	ops := rec.Record(c).Ops
	r.States++
	r.Transitions += int64(len(p))
	nText := 0
	for _, d := range p {
		if d.txt > 0 {
			nText++
		}
	}
	if nText > 0 {
		// text is part of the program, not of the comparison (the interpreters skip text objects)
		var kept []rec.Op
		for _, op := range ops {
			if op.Kind != "text" {
				kept = append(kept, op)
			}
		}
		ops = kept
	}
	exp, bad := expectedList(ops)
	if bad != "" {
		r.Outcome("skipped:" + bad)
		return
	}
	if len(ops) != len(p)-nText {
		r.Outcome("layers-differ-from-draws")
	}
	nontrivial := false
	for k := range exp {
		in := insideBits(exp[k].reg)
		near := expNear(&exp[k])
		nin := 0
		for w := range in {
			x := in[w] &^ near[0][w]
			for x != 0 {
				x &= x - 1
				nin++
			}
		}
		if nin > 0 {
			nontrivial = true
		}
		r.Count("decidable_samples_inside_expected_regions", int64(nin))
	}
	if nontrivial {
		r.NontrivialIdx()
	}
	for _, be := range bes {
		data, pan := safeRender(be, c)
		r.Validated++
		if pan != "" {
			r.Outcome("violation:render-panic-" + be.family)
			r.Violate("render-panic-"+be.family, fmt.Sprintf("[%s] rendering the canvas panics: %s", be.name, pan))
			continue
		}
		act := interpret(be, data)
		vs := compareLists(r, be, exp, act, ops)
		if len(vs) == 0 {
			r.Outcome("agrees-" + be.family)
			continue
		}
		seen := map[string]bool{}
		for _, v := range vs {
			if seen[v.class] {
				continue
			}
			seen[v.class] = true
			r.Outcome("violation:" + v.class)
			r.Violate(v.class, fmt.Sprintf("[%s] %s\n%s output: %s", be.name, v.detail, be.name, clipStr(emitted(be, data), 1500)))
		}
	}
	if raster {
		rasterTally(r, c, exp)
	}
}

// ---- families ------------------------------------------------------------------------------

func decodeDraw(g []int) draw { return draw{path: g[1], style: g[0], view: g[2], cs: g[3]} }

// families returns the case spaces of the tier. C12_FAMILIES (development aid) restricts a run to
// the families whose name starts with one of the given letters, e.g. C12_FAMILIES=IJK.
func families(tier string) []fw.Family {
	all := allFamilies(tier)
	sel := os.Getenv("C12_FAMILIES")
	if sel == "" {
		return all
	}
	var out []fw.Family
	for _, f := range all {
		if strings.ContainsRune(sel, rune(f.Name[0])) {
			out = append(out, f)
		}
	}
	return out
}

func allFamilies(tier string) []fw.Family {
	nS, nP, nV, nC := len(styles), nBasePaths, len(views), len(coordSystems)
	main3 := backends[:3]
	var fs []fw.Family

	// A: every single draw through all six back-end variants (SVG, PDF, PS, PDF uncompressed, SVG gzip, EPS)
	radA := []int{nS, nP, nV, nC}
	progA := func(i int64) program { return program{decodeDraw(oracle.Digits(i, radA...))} }
	fs = append(fs, fw.Family{Name: "A depth 1: style x path x view x coordinate system, 6 back-end variants", N: oracle.Prod(radA...),
		Check: func(i int64, r *fw.R) { checkProgram(r, progA(i), backends, true) },
		Desc:  func(i int64) string { return progA(i).String() }})

	// U: declared physical size / units per back-end variant
	fs = append(fs, fw.Family{Name: "U physical size and units per back-end variant", N: int64(len(backends)),
		Check: func(i int64, r *fw.R) { checkUnits(r, backends[i]) },
		Desc:  func(i int64) string { return "one filled square on canvas.New(40,24) through " + backends[i].name }})

	// P: the path data writers: every shape of the extended geometry menu, filled and stroked
	pStyles := []int{0, 5, 4}
	radP := []int{len(pStyles), len(paths) - nBasePaths, nV, nC}
	progP := func(i int64) program {
		g := oracle.Digits(i, radP...)
		return program{{path: nBasePaths + g[1], style: pStyles[g[0]], view: g[2], cs: g[3]}}
	}
	fs = append(fs, fw.Family{Name: "P depth 1: path data: {fill, stroke, fill EvenOdd} x extended geometry menu x view x coordinate system", N: oracle.Prod(radP...),
		Check: func(i int64, r *fw.R) { checkProgram(r, progP(i), main3, true) },
		Desc:  func(i int64) string { return progP(i).String() }})

	// R: the fill rules Positive and Negative (no output format has them: the back-ends must settle the path as the rasterizer does)
	rPaths := []int{1, 3, len(paths) - 1}
	radR := []int{nRuleStyles, len(rPaths), nV, nC}
	progR := func(i int64) program {
		g := oracle.Digits(i, radR...)
		return program{{path: rPaths[g[1]], style: len(styles) + g[0], view: g[2], cs: g[3]}}
	}
	fs = append(fs, fw.Family{Name: "R depth 1: fill rules Positive and Negative: 4 styles x {overlapping squares, pentagram, contours of both orientations} x view x coordinate system", N: oracle.Prod(radR...),
		Check: func(i int64, r *fw.R) { checkProgram(r, progR(i), main3, true) },
		Desc:  func(i int64) string { return progR(i).String() }})

	// Q: radial gradients (SVG and PDF; the PostScript back-end's gradients are not compared)
	qPaths := []int{0, 1, 4}
	radQ := []int{nRadialStyles, len(qPaths), nV, nC}
	progQ := func(i int64) program {
		g := oracle.Digits(i, radQ...)
		return program{{path: qPaths[g[1]], style: len(styles) + nRuleStyles + g[0], view: g[2], cs: g[3]}}
	}
	fs = append(fs, fw.Family{Name: "Q depth 1: radial gradients: {ring, disc, off-centre start circle, stroke} x 3 paths x view x coordinate system", N: oracle.Prod(radQ...),
		Check: func(i int64, r *fw.R) { checkProgram(r, progQ(i), main3, true) },
		Desc:  func(i int64) string { return progQ(i).String() }})

	// N: numbers that round up into a new integer digit (the writers' own number formatters)
	nViews := []int{0, 1}
	radN := []int{len(ruleStyles) - nRuleStyles - nRadialStyles, len(nViews), nC}
	progN := func(i int64) program {
		g := oracle.Digits(i, radN...)
		return program{{path: 2, style: len(styles) + nRuleStyles + nRadialStyles + g[0], view: nViews[g[1]], cs: g[2]}}
	}
	fs = append(fs, fw.Family{Name: "N depth 1: stroke widths 99.9999996, 9.99999996, 0.999999996 x zig-zag x 2 views x coordinate system", N: oracle.Prod(radN...),
		Check: func(i int64, r *fw.R) { checkProgram(r, progN(i), main3, true) },
		Desc:  func(i int64) string { return progN(i).String() }})

	// T: path, text, path through the PDF variants: what a text object leaves in the graphics state
	// (text rendering mode, stroke colour and line width of faux bold, fill colour) for the next path
	tStyles := []int{5, 7, 0, 22, 15, 23}
	radT := []int{len(tStyles), len(textNames), len(tStyles), 2}
	progT := func(i int64) program {
		g := oracle.Digits(i, radT...)
		return program{{path: 2, style: tStyles[g[0]], view: g[3]}, {txt: g[1] + 1, view: g[3]}, {path: 1, style: tStyles[g[2]], view: g[3]}}
	}
	pdfs := []backend{backends[1], backends[3]}
	fs = append(fs, fw.Family{Name: "T depth 3: path, text, path: style x {regular, faux bold black, faux bold blue, faux italic} x style x 2 views, PDF and PDF uncompressed", N: oracle.Prod(radT...),
		Check: func(i int64, r *fw.R) { checkProgram(r, progT(i), pdfs, false) },
		Desc:  func(i int64) string { return progT(i).String() }})

	// G: gradients with more stops
	fs = append(fs, fw.Family{Name: "G gradient stop lists x {SVG, PDF}", N: int64(len(gradientCases) * 2),
		Check: func(i int64, r *fw.R) { checkGradient(r, int(i)/2, []backend{backends[0], backends[1]}[i%2]) },
		Desc: func(i int64) string {
			return fmt.Sprintf("fill of a 30x16 rectangle with %s through %s", gradientCases[i/2].name, []string{"SVG", "PDF"}[i%2])
		}})

	// I: one image draw through all six back-end variants
	nI, nR := len(imagePixels), len(imageRes)
	radI := []int{nI, nR, nV, nC}
	progI := func(i int64) program {
		g := oracle.Digits(i, radI...)
		return program{{img: g[0] + 1, res: g[1], view: g[2], cs: g[3]}}
	}
	fs = append(fs, fw.Family{Name: "I depth 1: DrawImage: image x resolution x view x coordinate system, 6 back-end variants", N: oracle.Prod(radI...),
		Check: func(i int64, r *fw.R) { checkProgram(r, progI(i), backends, true) },
		Desc:  func(i int64) string { return progI(i).String() }})
	// J: an image and a path draw, in both orders (paint order, state set for one leaking into the other)
	jPaths := []int{0, 1}
	jViews := []int{0}
	if tier == "thorough" {
		jPaths = []int{0, 1, 2, 3, 4}
		jViews = []int{0, 1, 2, 3}
	}
	radJ := []int{2, nS, len(jPaths), nI, nR, nV, nC, len(jViews)}
	progJ := func(i int64) program {
		g := oracle.Digits(i, radJ...)
		pd := draw{path: jPaths[g[2]], style: g[1], view: jViews[g[7]]}
		id := draw{img: g[3] + 1, res: g[4], view: g[5], cs: g[6]}
		if g[0] == 0 {
			return program{pd, id}
		}
		return program{id, pd}
	}
	fs = append(fs, fw.Family{Name: "J depth 2: {path then image, image then path} x style x path x image x resolution x image view x coordinate system x path view", N: oracle.Prod(radJ...),
		Check: func(i int64, r *fw.R) { checkProgram(r, progJ(i), main3, i%4 == 0) },
		Desc:  func(i int64) string { return progJ(i).String() }})
	// K: path, image, path: what the image's own graphics state (q..Q, gsave..grestore, alpha) leaves behind
	kViews := []int{0, 1}
	kCS := []int{1}
	if tier == "thorough" {
		kViews = []int{0, 1, 2, 3}
		kCS = []int{0, 1}
	}
	radK := []int{nS, nS, nI, len(kViews), len(kCS)}
	progK := func(i int64) program {
		g := oracle.Digits(i, radK...)
		return program{{path: 0, style: g[0]}, {img: g[2] + 1, res: 1, view: kViews[g[3]], cs: kCS[g[4]]}, {path: 2, style: g[1]}}
	}
	fs = append(fs, fw.Family{Name: "K depth 3: path, image, path: style x style x image x image view x coordinate system", N: oracle.Prod(radK...),
		Check: func(i int64, r *fw.R) { checkProgram(r, progK(i), main3, i%5 == 0) },
		Desc:  func(i int64) string { return progK(i).String() }})

	if tier != "thorough" {
		// B: all ordered style pairs on every combination of views, two geometry pairings
		pairings := [][2]int{{0, 2}, {4, 1}, {1, 3}, {2, 4}, {3, 0}}
		radB := []int{nS, nS, 4, 4, len(pairings), nC} // (the four basic views; the two later ones are in the depth-1 and image families)
		progB := func(i int64) program {
			g := oracle.Digits(i, radB...)
			pr := pairings[g[4]]
			return program{{path: pr[0], style: g[0], view: g[2], cs: g[5]}, {path: pr[1], style: g[1], view: g[3], cs: g[4] % 2}}
		}
		fs = append(fs, fw.Family{Name: "B depth 2: style x style x view x view x 5 path pairings x coordinate system of draw 1", N: oracle.Prod(radB...),
			Check: func(i int64, r *fw.R) { checkProgram(r, progB(i), main3, i%3 == 0) },
			Desc:  func(i int64) string { return progB(i).String() }})
		// C: depth 3 on the caching axis alone: every style triple, identity views
		radC := []int{nS, nS, nS}
		progC := func(i int64) program {
			g := oracle.Digits(i, radC...)
			return program{{path: 0, style: g[0]}, {path: 2, style: g[1]}, {path: 4, style: g[2], cs: 1}}
		}
		fs = append(fs, fw.Family{Name: "C depth 3: style^3 (identity views)", N: oracle.Prod(radC...),
			Check: func(i int64, r *fw.R) { checkProgram(r, progC(i), main3, i%5 == 0) },
			Desc:  func(i int64) string { return progC(i).String() }})
		return fs
	}
	// thorough
	// B': the full product at depth 2
	radB := []int{nS, nP, nV, nC, nS, nP, nV, nC}
	progB := func(i int64) program {
		g := oracle.Digits(i, radB...)
		return program{decodeDraw(g[0:4]), decodeDraw(g[4:8])}
	}
	fs = append(fs, fw.Family{Name: "B depth 2: full product (style x path x view x coordinate system)^2", N: oracle.Prod(radB...),
		Check: func(i int64, r *fw.R) { checkProgram(r, progB(i), main3, false) },
		Desc:  func(i int64) string { return progB(i).String() }})
	// C: depth 3: every style triple x view of the middle and last draw
	geo := [][3]int{{0, 2, 4}}
	radC := []int{nS, nS, nS, nV, nV, len(geo)}
	progC := func(i int64) program {
		g := oracle.Digits(i, radC...)
		ge := geo[g[5]]
		return program{{path: ge[0], style: g[0], view: 0, cs: 0}, {path: ge[1], style: g[1], view: g[3], cs: 0}, {path: ge[2], style: g[2], view: g[4], cs: 1}}
	}
	fs = append(fs, fw.Family{Name: "C depth 3: style^3 x view of draw 2 x view of draw 3", N: oracle.Prod(radC...),
		Check: func(i int64, r *fw.R) { checkProgram(r, progC(i), main3, i%5 == 0) },
		Desc:  func(i int64) string { return progC(i).String() }})
	return fs
}

// Prop is the C12 check.
func Prop() *fw.Property {
	return &fw.Property{
		ID:    "C12",
		Level: "model_checking",
		Rule: "drawing programs (histories of Context.DrawPath on canvas.New(40,24), each draw = style x path x view x coordinate system from the menus) are rendered by the SVG, PDF and PS/EPS back-ends; " +
			"the emitted bytes are interpreted by independent interpreters (SVG: encoding/xml + own path-data, transform, presentation-attribute/style parsers, gradients; PDF: internal/pdfread + a graphics-state machine over Table 51; PostScript: a mini interpreter that executes the prologue from its definition) into a display list (region polylines in canvas mm, fill rule, paint); " +
			"it must equal, operation by operation (count, order, region on the samples farther than 0.15 mm from the expected boundary, paint within 3/255) and after source-over compositing on 3840 sample points, the display list derived from the canvas's recorded layers by the rasterizer's semantics (fill = m·path under the fill rule; stroke = m·Stroke(Dash(path, dashes x width))). " +
			"states = programs, transitions = draw calls, validated = (program, back-end) pairs compared; non-trivial = some expected region has decidable samples inside",
		Assumptions: []string{
			"image draws (families I, J, K): ctx.DrawImage of a 3x2 image (six opaque colours; a variant with two pixels at alpha 128 and one transparent) at 0.25 and 0.5 px/mm x 4 views x 2 coordinate systems, alone through all six back-end variants, with a path draw before or after, and between two path draws; expected from the recorded layer: image pixel (i,j) (row 0 on top) is the cell m·[i,i+1]x[h-j-1,h-j]; the back-end's image (SVG <image> + data: URI decoded with image/png, PDF Do of an image XObject incl. SMask decoded through pdfread, PostScript dictionary-form image with its ImageMatrix and ASCII85/Flate data from currentfile) must have its four corners within 1e-6 mm, the same sample array (3/255), and the same colour at every sample point farther than 0.1 cell from a cell border; lossy (JPEG) encoding is outside the bound; image interpolation is not modelled",
			"the rasterizer interpolates images (Catmull-Rom, transparent margin under rotation): it is tallied against the expected cells only within 0.1 cell of the pixel centres, tolerance 60/255, and not within 1.5 cells around an image",
			"menus: 26 styles (each one field away from a base style), 5 paths, 4 views, 2 coordinate systems, positions fixed per draw index; quick: depth 1 full product, depth 2 styles^2 x views^2 x 5 path pairings x 2, depth 3 styles^3 / full depth-2 product (1 081 600 programs) and styles^3 x views^2 at depth 3 (thorough)",
			"natively emitted strokes are materialised from the PARSED parameters with canvas's own Dash/Stroke in user space and mapped through the parsed CTM (C04/C05 judge Dash/Stroke themselves); where a dashed closed subpath returns to its start with the pattern on at both ends, both readings (two caps / one dash running through with a join) are accepted",
			"PostScript: geometry is compared relative to the %%BoundingBox (the absolute unit is checked once in family U); paints with alpha<1 and gradients are not compared for PS (alpha is documented as unsupported)",
			"the rasterizer's pixels are compared with the expected list at the same points and tallied only (C14 owns the rasterizer)",
			"SVG 2 line joins (arcs, miter-clip) are interpreted with canvas's joiners of the same name",
		},
		Families: families,
		KnownPredicates: map[string]func(*fw.Violation) bool{
			// PDF: DrawImage sets alpha 1 inside q..Q; Q restores the old alpha, the writer's cache keeps 1
			"pdf-alpha-cache-after-image": func(v *fw.Violation) bool {
				return v.Class == "paint-alpha-after-image-pdf" && strings.Contains(v.Case, "DrawImage") && (strings.Contains(v.Case, "alpha 0.5") || strings.Contains(v.Case, "gradient"))
			},
			// PDF: SetFill/SetStroke return early on a cached paint without restoring the shared alpha constant
			"pdf-alpha-after-cached-paint": func(v *fw.Violation) bool {
				return v.Class == "paint-alpha-pdf" && (strings.Contains(v.Case, "alpha 0.5") || strings.Contains(v.Case, "gradient")) && strings.Count(v.Case, "DrawPath") >= 2
			},
			// PS: setPaint compares the new straight colour with the cached premultiplied one
			"ps-paint-cache-premultiplied": func(v *fw.Violation) bool {
				return v.Class == "paint-colour-ps" && strings.Contains(v.Case, "alpha 0.5") && strings.Count(v.Case, "DrawPath") >= 2
			},
			// all back-ends: the explicit-outline fallback dashes with lengths not scaled by the stroke width
			"fallback-dashes-not-scaled-by-width": func(v *fw.Violation) bool {
				return strings.HasPrefix(v.Class, "dash-scaling-fallback-") && strings.Contains(v.Detail, "dashes [") && !strings.Contains(v.Detail, " width 1 cap")
			},
			// SVG: the explicit stroke outline is written with fill-rule="evenodd" when the style's fill rule is EvenOdd
			"svg-stroke-outline-evenodd": func(v *fw.Violation) bool {
				return v.Class == "stroke-outline-evenodd-svg" && strings.Contains(v.Case, "EvenOdd")
			},
			// PDF: fill and stroke with equal alpha < 1 are painted by one operator (b/B), a knockout group
			"pdf-fill-stroke-one-operator-alpha": func(v *fw.Violation) bool {
				return v.Class == "fill-stroke-one-operator-alpha-pdf" && strings.Contains(v.Case, "fill red alpha 0.5 + stroke blue alpha 0.5")
			},
			// rasterizer: canvas strokes an elliptical arc A rx ry with the arcs A rx+-w/2 ry+-w/2 (C04 K27),
			// the back-ends stroke natively: the regions differ for stroked arcs with an axis ratio >= 2
			"stroked-elliptical-arc-axis-ratio-2-or-more": func(v *fw.Violation) bool {
				if !strings.HasPrefix(v.Class, "stroke-region-") || !strings.Contains(v.Case, "stroke") {
					return false
				}
				for _, m := range arcRadiiRe.FindAllStringSubmatch(v.Case, -1) {
					rx, _ := strconv.ParseFloat(m[1], 64)
					ry, _ := strconv.ParseFloat(m[2], 64)
					if rx > 0 && ry > 0 && (rx >= 2*ry || ry >= 2*rx) {
						return true
					}
				}
				return false
			},
			// PS/EPS: millimetres are written as PostScript points
			"ps-millimetres-as-points": func(v *fw.Violation) bool {
				return v.Class == "ps-units" && strings.Contains(v.Detail, "BoundingBox: 0 0 40 24")
			},
		},
	}
}
