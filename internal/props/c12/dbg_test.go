package c12

import (
	"fmt"
	"os"
	"testing"
)

func TestDbgPS(t *testing.T) {
	if os.Getenv("C12_DBG") == "" {
		t.Skip()
	}
	p := program{{path: 4, style: 7, view: 3, cs: 0}}
	c := p.canvas()
	data := backends[2].render(c)
	dl, _, _ := interpretPS(data)
	for _, it := range dl.items {
		fmt.Println(it.role, it.src)
	}
	src := string(data)
	h := parsePSHeader(src)
	_ = h
	in := &psInterp{dl: &displayList{}, dict: map[string]psObj{}}
	in.gs = psGState{ctm: ident, width: 1, miter: 10}
	prog, _ := psTokenize(src)
	// run all but the final stroke
	in.exec(prog[:len(prog)-1], 0)
	for _, sp := range in.gs.path {
		fmt.Printf("start %v closed %v\n", sp.Start, sp.Closed)
		for _, s := range sp.Segs {
			fmt.Printf("  kind %v P0 %.9f,%.9f P1 %.9f,%.9f\n", s.Kind, s.P0.X, s.P0.Y, s.P1.X, s.P1.Y)
		}
	}
}
