package c12

import (
	"bytes"
	"encoding/base64"
	"fmt"
	"image"
	"image/color"
	"image/png"
	"math"
	"os"
	"strings"
	"testing"

	"verif/internal/fw"
	"verif/internal/oracle"
)

func TestSVGPathParser(t *testing.T) {
	sps, err := parseSVGPath("M1 2l3-.5.5.5H10V3zm1 1A5 3 30 0110 20a1 1 0 1 0-2,3Q1 2 3 4T7 8C1 1 2 2 3 3S5 5 6 6 1e1 2E0-3 4")
	if err != nil {
		t.Fatal(err)
	}
	if len(sps) != 2 {
		t.Fatalf("%d subpaths", len(sps))
	}
	a := sps[0]
	want := []oracle.Pt{{X: 4, Y: 1.5}, {X: 4.5, Y: 2}, {X: 10, Y: 2}, {X: 10, Y: 3}, {X: 1, Y: 2}}
	if !a.Closed || len(a.Segs) != 5 {
		t.Fatalf("first subpath %+v", a)
	}
	for i, w := range want {
		if a.Segs[i].P1 != w {
			t.Errorf("seg %d ends at %v want %v", i, a.Segs[i].P1, w)
		}
	}
	b := sps[1]
	if b.Start != (oracle.Pt{X: 2, Y: 3}) {
		t.Errorf("relative moveto after z starts at %v", b.Start)
	}
	s0 := b.Segs[0]
	if s0.Kind != oracle.CmdArc || s0.Large || !s0.Sweep || s0.P1 != (oracle.Pt{X: 10, Y: 20}) {
		t.Errorf("packed arc flags: %+v", s0)
	}
	s1 := b.Segs[1]
	if !s1.Large || s1.Sweep || s1.P1 != (oracle.Pt{X: 8, Y: 23}) {
		t.Errorf("relative arc: %+v", s1)
	}
	// T reflects the previous quadratic control point
	if q := b.Segs[3]; q.Kind != oracle.CmdQuad || q.C1 != (oracle.Pt{X: 5, Y: 6}) {
		t.Errorf("T control %+v", q)
	}
	// S reflects the previous cubic control point; implicit repetition of S with exponents
	if c := b.Segs[5]; c.Kind != oracle.CmdCube || c.C1 != (oracle.Pt{X: 4, Y: 4}) || c.P1 != (oracle.Pt{X: 6, Y: 6}) {
		t.Errorf("S control %+v", c)
	}
	if c := b.Segs[6]; c.C1 != (oracle.Pt{X: 7, Y: 7}) || c.C2 != (oracle.Pt{X: 10, Y: 2}) || c.P1 != (oracle.Pt{X: -3, Y: 4}) {
		t.Errorf("repeated S %+v", c)
	}
	for _, bad := range []string{"L1 2", "M1", "M1 2A1 1 0 2 0 3 3", "M1 2z3"} {
		if _, err := parseSVGPath(bad); err == nil {
			t.Errorf("%q accepted", bad)
		}
	}
}

func TestSVGTransformAndColour(t *testing.T) {
	m, err := parseSVGTransform("translate(10,5) rotate(90) scale(2)")
	if err != nil {
		t.Fatal(err)
	}
	p := m.apply(oracle.Pt{X: 1, Y: 0}) // scale -> (2,0), rotate 90 -> (0,2), translate -> (10,7)
	if math.Abs(p.X-10) > 1e-12 || math.Abs(p.Y-7) > 1e-12 {
		t.Errorf("transform order: %v", p)
	}
	for s, w := range map[string]colour{"#f00": {1, 0, 0, 1}, "#008000": {0, 128.0 / 255, 0, 1}, "rgba(255,0,0,.5)": {1, 0, 0, .5}, "rgb(100%,0%,50%)": {1, 0, .5, 1}, "blue": {0, 0, 1, 1}} {
		c, ok := parseSVGColour(s)
		if !ok || !coloursClose(c, w, false) {
			t.Errorf("%s: %v %v", s, c, ok)
		}
	}
}

func area(b *bits) int { return b.count() }

func TestSVGInterp(t *testing.T) {
	doc := `<svg xmlns="http://www.w3.org/2000/svg" width="40mm" height="24mm" viewBox="0 0 80 48">
<defs><linearGradient id="g" gradientUnits="userSpaceOnUse" x1="0" y1="0" x2="80" y2="0"><stop offset="0" stop-color="#000"/><stop offset="1" stop-color="#fff"/></linearGradient></defs>
<g transform="translate(20,8)" stroke="#00f" stroke-width="4"><path d="M0 0h20v20h-20z" fill="red" style="fill:url(#g);stroke-linejoin:round"/></g></svg>`
	dl := interpretSVG([]byte(doc))
	if len(dl.problems) != 0 || len(dl.items) != 2 {
		t.Fatalf("%v %d", dl.problems, len(dl.items))
	}
	// square 10mm x 10mm at x 10..20, y (from top) 4..14 -> y up 10..20
	in := insideBits(dl.items[0].reg)
	n := area(in)
	if n != 10*10*4 {
		t.Errorf("fill covers %d samples, want 400", n)
	}
	lo, hi := polyBBox(dl.items[0].reg.pls)
	if math.Abs(lo.X-10) > 1e-9 || math.Abs(lo.Y-10) > 1e-9 || math.Abs(hi.X-20) > 1e-9 || math.Abs(hi.Y-20) > 1e-9 {
		t.Errorf("bbox %v %v", lo, hi)
	}
	if dl.items[0].paint.grad == nil {
		t.Fatal("style attribute did not override the presentation attribute")
	}
	c, _ := dl.items[0].paint.at(oracle.Pt{X: 20, Y: 12})
	if math.Abs(c.r-0.25) > 1e-9 { // userSpaceOnUse = the user space of the referencing element: (40-20)/80
		t.Errorf("gradient at the middle: %v", c)
	}
	// stroke width 4 units = 2 mm: ring from 9..21 minus 11..19, round corners
	s := area(insideBits(dl.items[1].reg))
	want := (12.0*12 - 8*8 - (4 - math.Pi)) * 4
	if math.Abs(float64(s)-want) > 12 {
		t.Errorf("stroke covers %d samples, want about %.0f", s, want)
	}
	if !coloursClose(dl.items[1].paint.solid, colour{0, 0, 1, 1}, false) {
		t.Errorf("inherited stroke paint %v", dl.items[1].paint)
	}
}

func buildPDF(content string, resources string, extra ...string) []byte {
	objs := []string{
		"<</Type/Catalog/Pages 2 0 R>>",
		fmt.Sprintf("<</Type/Pages/Kids[3 0 R]/Count 1/MediaBox[0 0 %.6f %.6f]>>", CW/mmPerPt, CH/mmPerPt),
		"<</Type/Page/Parent 2 0 R/Resources<<" + resources + ">>/Contents 4 0 R>>",
		fmt.Sprintf("<</Length %d>>stream\n%s\nendstream", len(content), content),
	}
	objs = append(objs, extra...)
	var b bytes.Buffer
	b.WriteString("%PDF-1.7\n%\xe2\xe3\xcf\xd3\n")
	offs := make([]int, len(objs))
	for i, o := range objs {
		offs[i] = b.Len()
		fmt.Fprintf(&b, "%d 0 obj\n%s\nendobj\n", i+1, o)
	}
	x := b.Len()
	fmt.Fprintf(&b, "xref\n0 %d\n0000000000 65535 f \n", len(objs)+1)
	for _, o := range offs {
		fmt.Fprintf(&b, "%010d 00000 n \n", o)
	}
	fmt.Fprintf(&b, "trailer\n<</Size %d/Root 1 0 R>>\nstartxref\n%d\n%%%%EOF\n", len(objs)+1, x)
	return b.Bytes()
}

func TestPDFInterp(t *testing.T) {
	k := 1 / mmPerPt
	content := fmt.Sprintf("%.6f 0 0 %.6f 0 0 cm q 2 0 0 2 0 0 cm 1 0 0 rg /A0 gs 5 2 5 5 re f Q 0 0 1 RG 2 w 1 j 10 4 m 20 4 l 20 14 l 10 14 l s 0 g 30 4 m 34 4 l 34 8 l f*", k, k)
	dl := interpretPDF(buildPDF(content, "/ExtGState<</A0<</ca 0.5/CA 0.25>>>>"))
	if len(dl.problems) != 0 || len(dl.items) != 3 {
		t.Fatalf("%v %d", dl.problems, len(dl.items))
	}
	lo, hi := polyBBox(dl.items[0].reg.pls)
	if math.Abs(lo.X-10) > 1e-4 || math.Abs(lo.Y-4) > 1e-4 || math.Abs(hi.X-20) > 1e-4 || math.Abs(hi.Y-14) > 1e-4 {
		t.Errorf("re under nested cm: %v %v", lo, hi)
	}
	if !coloursClose(dl.items[0].paint.solid, colour{1, 0, 0, .5}, false) {
		t.Errorf("fill alpha from ExtGState: %v", dl.items[0].paint)
	}
	// Q restored alpha 1, width 1 -> then w 2: stroke ring of the closed square
	if !coloursClose(dl.items[1].paint.solid, colour{0, 0, 1, 1}, false) {
		t.Errorf("stroke paint after Q: %v", dl.items[1].paint)
	}
	s := area(insideBits(dl.items[1].reg))
	want := (12.0*12 - 8*8 - (4 - math.Pi)) * 4
	if math.Abs(float64(s)-want) > 12 {
		t.Errorf("stroke covers %d samples, want about %.0f", s, want)
	}
	if !dl.items[2].reg.evenOdd || area(insideBits(dl.items[2].reg)) != 8*4 {
		t.Errorf("f* triangle: %d samples", area(insideBits(dl.items[2].reg)))
	}
	for src, class := range map[string]string{
		"0 0 m 1 1 l S*":       "pdf-invalid-operator",
		"0 0 m 1 1 l s*":       "pdf-invalid-operator",
		"/A9 gs 0 0 m 1 1 l S": "pdf-missing-resource",
		"BT ET":                "pdf-unexpected-operator",
	} {
		dl := interpretPDF(buildPDF(src, ""))
		if len(dl.problems) == 0 || dl.problems[0][0] != class {
			t.Errorf("%q: %v", src, dl.problems)
		}
	}
}

func TestPDFShading(t *testing.T) {
	k := 1 / mmPerPt
	res := fmt.Sprintf("/Pattern<</P0<</Type/Pattern/PatternType 2/Shading<</ShadingType 2/ColorSpace/DeviceRGB/Coords[0 0 %.6f 0]/Extend[true true]"+
		"/Function<</FunctionType 3/Domain[0 1]/Bounds[0.25]/Encode[0 1 0 1]/Functions[<</FunctionType 2/Domain[0 1]/N 1/C0[0 0 0]/C1[1 0 0]>><</FunctionType 2/Domain[0 1]/N 1/C0[1 0 0]/C1[1 1 1]>>]>>>>>>>>", 40*k)
	content := fmt.Sprintf("%.6f 0 0 %.6f 0 0 cm /Pattern cs /P0 scn 0 0 40 24 re f", k, k)
	dl := interpretPDF(buildPDF(content, res))
	if len(dl.problems) != 0 || len(dl.items) != 1 || dl.items[0].paint.grad == nil {
		t.Fatalf("%v", dl.problems)
	}
	for x, w := range map[float64]colour{5: {0.5, 0, 0, 1}, 10: {1, 0, 0, 1}, 25: {1, .5, .5, 1}} {
		c, _ := dl.items[0].paint.at(oracle.Pt{X: x, Y: 3})
		if !coloursClose(c, w, false) {
			t.Errorf("x=%g: %v want %v", x, c, w)
		}
	}
}

func TestPSInterp(t *testing.T) {
	src := "%!PS-Adobe-3.0\n%%BoundingBox: 0 0 40 24\n" +
		"/ellipse{/rot exch def /a1 exch def /a0 exch def /ry exch def /rx exch def /y exch def /x exch def /m matrix currentmatrix def x y translate rot rotate rx ry scale 0 0 1 a0 a1 arc m setmatrix}def\n" +
		"20 12 moveto 26 12 lineto 20 12 6 3 0 180 0 ellipse closepath 1 0 0 setrgbcolor gsave fill grestore 0 0 1 setrgbcolor 2 setlinewidth 1 setlinejoin[2 1]0 setdash stroke\n" +
		"1 1 moveto 5 1 lineto 5 5 lineto .5 setgray eofill"
	dl, _, _ := interpretPS([]byte(src))
	if len(dl.problems) != 0 || len(dl.items) != 3 {
		t.Fatalf("%v %d", dl.problems, len(dl.items))
	}
	// half ellipse rx 6 ry 3: area pi*6*3/2 = 28.3 mm2
	n := area(insideBits(dl.items[0].reg))
	if math.Abs(float64(n)/4-math.Pi*9) > 2 {
		t.Errorf("half ellipse covers %.1f mm2", float64(n)/4)
	}
	if dl.items[1].role != "stroke" || len(dl.items[1].reg.pls) < 3 {
		t.Errorf("stroke after gsave fill grestore: %+v", dl.items[1].role)
	}
	if !coloursClose(dl.items[2].paint.solid, colour{.5, .5, .5, 1}, false) || !dl.items[2].reg.evenOdd {
		t.Errorf("eofill %v", dl.items[2].paint)
	}
	// without grestore the path is gone
	dl, _, _ = interpretPS([]byte("%!PS\n%%BoundingBox: 0 0 40 24\n1 1 moveto 5 1 lineto 5 5 lineto gsave fill stroke"))
	if len(dl.items) != 1 {
		t.Errorf("fill must consume the path: %d items", len(dl.items))
	}
	dl, _, _ = interpretPS([]byte("%!PS\n%%BoundingBox: 0 0 40 24\n1 1 moveto 5 1 lineto frobnicate"))
	if len(dl.problems) != 1 || dl.problems[0][0] != "ps-unknown-operator" {
		t.Errorf("%v", dl.problems)
	}
}

// TestShow prints what the back-ends emit for the programs given in C12_SHOW (style indices
// separated by commas, optionally path/view/cs as s:p:v:c), e.g. C12_SHOW=0,21,0
func TestShow(t *testing.T) {
	spec := os.Getenv("C12_SHOW")
	if spec == "" {
		t.Skip()
	}
	var p program
	for _, f := range strings.Split(spec, ",") {
		var d draw
		if strings.HasPrefix(f, "i") {
			// i<image 1..>:<res>:<view>:<cs>
			if n, _ := fmt.Sscanf(f[1:], "%d:%d:%d:%d", &d.img, &d.res, &d.view, &d.cs); n == 0 {
				t.Fatal(f)
			}
			p = append(p, d)
			continue
		}
		n, _ := fmt.Sscanf(f, "%d:%d:%d:%d", &d.style, &d.path, &d.view, &d.cs)
		if n == 0 {
			t.Fatal(f)
		}
		p = append(p, d)
	}
	fmt.Println(p.String())
	c := p.canvas()
	for _, be := range backends[:3] {
		fmt.Printf("---- %s ----\n%s\n", be.name, emitted(be, be.render(c)))
	}
	r := fw.NewR("C12")
	checkProgram(r, p, backends[:3], true)
	for _, v := range r.Violations {
		fmt.Printf("VIOLATION %s: %s\n", v.Class, clipStr(v.Detail, 700))
	}
	fmt.Println(r.Outcomes)
}

func TestShowGradient(t *testing.T) {
	if os.Getenv("C12_GRAD") == "" {
		t.Skip()
	}
	for gi := range gradientCases {
		r := fw.NewR("C12")
		checkGradient(r, gi, backends[1])
		fmt.Println(gi, r.Outcomes)
		for _, v := range r.Violations {
			fmt.Printf("VIOLATION %s: %s\n", v.Class, clipStr(v.Detail, 1500))
		}
	}
}

func TestImageInterpreters(t *testing.T) {
	// the same 2x1 image (red, then green at alpha 0.5) placed on [10,14] x [5,7] mm by each format
	want := [4]oracle.Pt{{X: 10, Y: 7}, {X: 14, Y: 7}, {X: 14, Y: 5}, {X: 10, Y: 5}}
	check := func(name string, dl *displayList, alpha bool) {
		t.Helper()
		if len(dl.problems) != 0 || len(dl.items) != 1 || dl.items[0].paint.img == nil {
			t.Fatalf("%s: %v, %d items", name, dl.problems, len(dl.items))
		}
		im := dl.items[0].paint.img
		for k := range want {
			if im.corners[k].Dist(want[k]) > 1e-5 {
				t.Errorf("%s: corner %d at %v, want %v", name, k, im.corners[k], want[k])
			}
		}
		c0, _ := im.at(oracle.Pt{X: 11, Y: 6})
		c1, ok := im.at(oracle.Pt{X: 13, Y: 6})
		a := 1.0
		if alpha {
			a = 128.0 / 255
		}
		if !coloursClose(c0, colour{1, 0, 0, 1}, false) || !ok || !coloursClose(c1, colour{0, 1, 0, a}, false) {
			t.Errorf("%s: pixels %v %v", name, c0, c1)
		}
		if _, ok := im.at(oracle.Pt{X: 9.9, Y: 6}); ok {
			t.Errorf("%s: paints outside", name)
		}
	}
	// PostScript: hex data behind ASCIIHexDecode, rows top to bottom through ImageMatrix [w 0 0 -h 0 h]
	ps := "%!PS\n%%BoundingBox: 0 0 114 69\n2.8346457 dup scale gsave /DeviceRGB setcolorspace [4 0 0 2 10 5] concat" +
		"<</ImageType 1 /Width 2 /Height 1 /BitsPerComponent 8 /Decode [0 1 0 1 0 1] /Interpolate true /ImageMatrix [2 0 0 -1 0 1] /DataSource currentfile /ASCIIHexDecode filter>>image\nff0000 00ff00>\n grestore 1 1 moveto 2 1 lineto 2 2 lineto fill"
	dl, _, ok := interpretPS([]byte(ps))
	if !ok || len(dl.items) != 2 {
		t.Fatalf("ps: units %v, %d items, %v", ok, len(dl.items), dl.problems)
	}
	dl.items = dl.items[:1]
	check("ps", dl, false)
	// PDF: unit square through the CTM, first row on top, SMask gives alpha
	k := 1 / mmPerPt
	content := fmt.Sprintf("%.7f 0 0 %.7f 0 0 cm q 4 0 0 2 10 5 cm /Im0 Do Q", k, k)
	pdf := buildPDF(content, "/XObject<</Im0 5 0 R>>",
		"<</Type/XObject/Subtype/Image/Width 2/Height 1/ColorSpace/DeviceRGB/BitsPerComponent 8/SMask 6 0 R/Filter/ASCIIHexDecode/Length 14>>stream\nff000000ff00>\nendstream",
		"<</Type/XObject/Subtype/Image/Width 2/Height 1/ColorSpace/DeviceGray/BitsPerComponent 8/Filter/ASCIIHexDecode/Length 5>>stream\nff80>\nendstream")
	check("pdf", interpretPDF(pdf), true)
	// SVG: viewport x,y,width,height in the user space of a translated group, y down
	img := image.NewNRGBA(image.Rect(0, 0, 2, 1))
	img.SetNRGBA(0, 0, color.NRGBA{255, 0, 0, 255})
	img.SetNRGBA(1, 0, color.NRGBA{0, 255, 0, 128})
	var pb bytes.Buffer
	png.Encode(&pb, img)
	svg := `<svg xmlns="http://www.w3.org/2000/svg" xmlns:xlink="http://www.w3.org/1999/xlink" width="40mm" height="24mm" viewBox="0 0 40 24"><g transform="translate(8,0)"><image x="2" y="17" width="4" height="2" xlink:href="data:image/png;base64,` +
		base64.StdEncoding.EncodeToString(pb.Bytes()) + `"/></g></svg>`
	check("svg", interpretSVG([]byte(svg)), true)
}
