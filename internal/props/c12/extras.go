package c12

import (
	"fmt"
	"image/color"

	"github.com/tdewolff/canvas"

	"verif/internal/fw"
	"verif/internal/pdfread"
	"verif/internal/rec"
)

// pdfContent returns the decoded content stream of the first page (for messages).
func pdfContent(data []byte) string {
	doc, err := pdfread.Parse(data)
	if err != nil {
		return ""
	}
	pages, _ := doc.Pages()
	if len(pages) == 0 {
		return ""
	}
	return string(pages[0].Content)
}

// checkUnits: the physical size a reader of the format derives from the file must be the canvas
// size (SVG width/height with units, PDF MediaBox in 1/72 inch, PostScript default user space
// unit = 1/72 inch and the %%BoundingBox given in those units), and a 20 mm x 12 mm square at
// (10,6) mm must be painted there in absolute units.
func checkUnits(r *fw.R, be backend) {
	c := canvas.New(CW, CH)
	ctx := canvas.NewContext(c)
	ctx.SetFillColor(colRed)
	p := &canvas.Path{}
	p.MoveTo(0, 0)
	p.LineTo(20, 0)
	p.LineTo(20, 12)
	p.LineTo(0, 12)
	p.Close()
	ctx.DrawPath(10, 6, p)
	ops := rec.Record(c).Ops
	exp, bad := expectedList(ops)
	if bad != "" {
		r.Outcome("skipped:" + bad)
		return
	}
	r.States++
	r.Transitions++
	r.Validated++
	data := be.render(c)
	var act *displayList
	if be.family == "ps" {
		var h psHeader
		var ok bool
		act, h, ok = interpretPS(data)
		if h.hasBBox && !ok {
			// DSC: the bounding box is expressed in the default user coordinate system (1/72 inch)
			w, hh := (h.bbox[2]-h.bbox[0])*mmPerPt, (h.bbox[3]-h.bbox[1])*mmPerPt
			r.Outcome("violation:ps-units")
			r.Violate("ps-units", fmt.Sprintf("[%s] %%%%BoundingBox: %g %g %g %g is in PostScript units of 1/72 inch, i.e. %.3f mm x %.3f mm; the canvas is %g mm x %g mm. The program never scales the user space (no '72 25.4 div dup scale'), so every millimetre of the canvas is emitted as one point (x0.3528)\n%s output: %s",
				be.name, h.bbox[0], h.bbox[1], h.bbox[2], h.bbox[3], w, hh, CW, CH, be.name, clipStr(emitted(be, data), 600)))
			// the geometry relative to the box is what is compared below and in every other family
		}
	} else {
		act = interpret(be, data)
	}
	r.NontrivialIdx()
	vs := compareLists(r, be, exp, act, ops)
	if len(vs) == 0 {
		r.Outcome("size-and-placement-ok-" + be.family)
	}
	for _, v := range vs {
		r.Outcome("violation:" + v.class)
		r.Violate(v.class, fmt.Sprintf("[%s] %s\n%s output: %s", be.name, v.detail, be.name, clipStr(emitted(be, data), 800)))
	}
}

type gradCase struct {
	name  string
	stops []canvas.Stop
}

var gradientCases = []gradCase{
	{"linear gradient (2,3)->(30,18) with stops 0 yellow, 1 blue", []canvas.Stop{{Offset: 0, Color: gradC0}, {Offset: 1, Color: gradC1}}},
	{"linear gradient with stops 0 yellow, 0.5 red, 1 blue", []canvas.Stop{{Offset: 0, Color: gradC0}, {Offset: 0.5, Color: color.RGBA{220, 0, 0, 255}}, {Offset: 1, Color: gradC1}}},
	{"linear gradient with stops 0 yellow, 0.3 red, 0.6 green, 1 blue", []canvas.Stop{{Offset: 0, Color: gradC0}, {Offset: 0.3, Color: color.RGBA{220, 0, 0, 255}}, {Offset: 0.6, Color: color.RGBA{0, 200, 0, 255}}, {Offset: 1, Color: gradC1}}},
	{"linear gradient with stops 0.2 yellow, 0.8 blue", []canvas.Stop{{Offset: 0.2, Color: gradC0}, {Offset: 0.8, Color: gradC1}}},
	{"linear gradient with stops 0 yellow, 0.25 red, 0.5 green, 0.75 white, 1 blue", []canvas.Stop{{Offset: 0, Color: gradC0}, {Offset: 0.25, Color: color.RGBA{220, 0, 0, 255}}, {Offset: 0.5, Color: color.RGBA{0, 200, 0, 255}}, {Offset: 0.75, Color: color.RGBA{255, 255, 255, 255}}, {Offset: 1, Color: gradC1}}},
}

func checkGradient(r *fw.R, gi int, be backend) {
	c := canvas.New(CW, CH)
	ctx := canvas.NewContext(c)
	g := canvas.NewLinearGradient(gradStart, gradEnd)
	for _, s := range gradientCases[gi].stops {
		g.Add(s.Offset, s.Color)
	}
	ctx.SetFillGradient(g)
	p := &canvas.Path{}
	p.MoveTo(0, 0)
	p.LineTo(30, 0)
	p.LineTo(30, 16)
	p.LineTo(0, 16)
	p.Close()
	ctx.DrawPath(5, 4, p)
	ops := rec.Record(c).Ops
	exp, bad := expectedList(ops)
	if bad != "" {
		r.Outcome("skipped:" + bad)
		return
	}
	r.States++
	r.Transitions++
	r.Validated++
	r.NontrivialIdx()
	data, pan := safeRender(be, c)
	if pan != "" {
		r.Outcome("violation:render-panic-" + be.family)
		r.Violate("render-panic-"+be.family, fmt.Sprintf("[%s] rendering the canvas panics: %s", be.name, pan))
		return
	}
	act := interpret(be, data)
	vs := compareLists(r, be, exp, act, ops)
	if len(vs) == 0 {
		r.Outcome("gradient-ok-" + be.family)
	}
	for _, v := range vs {
		r.Outcome("violation:" + v.class)
		r.Violate(v.class, fmt.Sprintf("[%s] %s\n%s output: %s", be.name, v.detail, be.name, clipStr(emitted(be, data), 1500)))
	}
}
