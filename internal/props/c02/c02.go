// Package c02: Settle preserves the filled region and returns a canonical simple path.
package c02

import (
	"fmt"
	"math"
	"strings"

	"github.com/tdewolff/canvas"

	"verif/internal/cv"
	"verif/internal/fw"
	"verif/internal/oracle"
)

var rules = []canvas.FillRule{canvas.NonZero, canvas.EvenOdd, canvas.Positive, canvas.Negative}

type probe struct {
	pt oracle.Pt
	w  int
}

func probesFor(in []oracle.Polyline, delta, eta float64) (ps []probe, skipped int) {
	lo, hi, _ := oracle.BBox(in)
	samples := oracle.ArrangementSamples(in, eta)
	step := math.Max(hi.X-lo.X, hi.Y-lo.Y) / 5.3
	if step <= 0 {
		step = 1
	}
	samples = append(samples, oracle.GridSamples(lo, hi, step/2, step)...)
	for _, s := range samples {
		if oracle.Dist(in, s, true) <= delta {
			skipped++
			continue
		}
		ps = append(ps, probe{s, oracle.Winding(in, s)})
	}
	return
}

// canonical checks winding in {0,1} at the probes and the absence of proper crossings.
func canonical(out []oracle.Polyline, ps []probe, crossEps float64) (string, bool) {
	for _, pr := range ps {
		if w := oracle.Winding(out, pr.pt); w != 0 && w != 1 {
			return fmt.Sprintf("winding %d at (%.6g,%.6g)", w, pr.pt.X, pr.pt.Y), false
		}
	}
	type edge struct{ a, b oracle.Pt }
	var es []edge
	for _, pl := range out {
		n := len(pl.P)
		for i := 0; i < n; i++ {
			a, b := pl.P[i], pl.P[(i+1)%n]
			if a != b {
				es = append(es, edge{a, b})
			}
		}
	}
	for i := range es {
		for j := i + 1; j < len(es); j++ {
			if oracle.SegsProperlyCross(es[i].a, es[i].b, es[j].a, es[j].b, crossEps) {
				return fmt.Sprintf("output segments (%v-%v) and (%v-%v) cross", es[i].a, es[i].b, es[j].a, es[j].b), false
			}
		}
	}
	return "", true
}

func checkSettle(r *fw.R, d []float64, rule canvas.FillRule, eps, delta, eta float64, openInput bool) {
	checkSettleN(r, d, rule, eps, delta, eta, openInput, 1)
}

func checkSettleN(r *fw.R, d []float64, rule canvas.FillRule, eps, delta, eta float64, openInput bool, curveN int) {
	in := oracle.DenseData(d, curveN)
	ps, skipped := probesFor(in, delta, eta)
	r.Count("probes", int64(len(ps)))
	r.Count("probes_skipped_near_boundary", int64(skipped))
	nIn, nOut := 0, 0
	for _, pr := range ps {
		if cv.Fills(rule, pr.w) {
			nIn++
		} else {
			nOut++
		}
	}
	if nIn > 0 && nOut > 0 {
		r.NontrivialIdx()
	}
	res := cv.Path(d).Settle(rule)
	sps, err := oracle.Decode(res.Data())
	if err != nil {
		r.Violate("malformed-result", err.Error())
		return
	}
	out := oracle.Dense(sps, 1)
	bad := 0
	var first string
	for _, pr := range ps {
		want := cv.Fills(rule, pr.w)
		if got := oracle.Winding(out, pr.pt) != 0; got != want {
			if bad == 0 {
				first = fmt.Sprintf("point (%.6g,%.6g): input winding %d, %v fills=%v, result winding=%d; result=%s", pr.pt.X, pr.pt.Y, pr.w, rule, want, oracle.Winding(out, pr.pt), oracle.Fmt(res.Data()))
			}
			bad++
		}
	}
	if bad > 0 {
		r.Violate("region", fmt.Sprintf("%d of %d probes wrong; %s", bad, len(ps), first))
		return
	}
	allClosed := true
	for _, sp := range sps {
		if !sp.Closed {
			allClosed = false
		}
	}
	if openInput && !allClosed {
		// the code keeps open subject subpaths as open polylines (documented work in progress);
		// the canonical-form clauses are only checked for closed results
		r.Outcome("open-result-kept-open")
		return
	}
	if !allClosed {
		r.Violate("open-result", "closed input produced an open subpath: "+oracle.Fmt(res.Data()))
		return
	}
	if msg, ok := canonical(out, ps, 1e-9+eps); !ok {
		r.Violate("not-canonical", msg+"; result="+oracle.Fmt(res.Data()))
		return
	}
	// idempotence: settling the settled path keeps region and canonical form, vertices within 2*eps
	res2 := cv.Path(res.Data()).Settle(canvas.NonZero)
	sps2, err := oracle.Decode(res2.Data())
	if err != nil {
		r.Violate("malformed-result-2", err.Error())
		return
	}
	out2 := oracle.Dense(sps2, 1)
	for _, pr := range ps {
		if (oracle.Winding(out2, pr.pt) != 0) != (oracle.Winding(out, pr.pt) != 0) {
			r.Violate("idempotence-region", fmt.Sprintf("point (%.6g,%.6g); first=%s second=%s", pr.pt.X, pr.pt.Y, oracle.Fmt(res.Data()), oracle.Fmt(res2.Data())))
			return
		}
	}
	if msg, ok := canonical(out2, ps, 1e-9+eps); !ok {
		r.Violate("idempotence-not-canonical", msg+"; second="+oracle.Fmt(res2.Data()))
		return
	}
	for _, pl := range out2 {
		for _, v := range pl.P {
			best := math.Inf(1)
			for _, ql := range out {
				for _, u := range ql.P {
					best = math.Min(best, v.Dist(u))
				}
			}
			if !(best <= 2*eps+1e-12) {
				// a vertex of the second result that is no vertex of the first must at least lie on the first's boundary
				if !(oracle.Dist(out, v, true) <= 2*eps+1e-12) {
					r.Violate("idempotence-vertices", fmt.Sprintf("vertex %v of second result is %.3g from the first result; first=%s second=%s", v, best, oracle.Fmt(res.Data()), oracle.Fmt(res2.Data())))
					return
				}
			}
		}
	}
	switch {
	case len(sps) == 0:
		r.Outcome("empty")
	case len(sps) == 1:
		r.Outcome("one-contour")
	default:
		holes := 0
		for _, pl := range out {
			if oracle.AreaOne(pl) < 0 {
				holes++
			}
		}
		if holes > 0 {
			r.Outcome("multi-contour-with-holes")
		} else {
			r.Outcome("multi-contour")
		}
	}
}

func scale(c []oracle.Pt, f float64) []oracle.Pt {
	o := make([]oracle.Pt, len(c))
	for i, p := range c {
		o[i] = oracle.Pt{X: p.X * f, Y: p.Y * f}
	}
	return o
}

// family enumerates shapes x 4 rules.
func family(name string, shapes [][][]oracle.Pt, f, eps, delta float64, open bool) fw.Family {
	data := func(i int64) ([]float64, canvas.FillRule) {
		si, ri := i/4, i%4
		var cs [][]oracle.Pt
		for _, c := range shapes[si] {
			cs = append(cs, scale(c, f))
		}
		if open {
			var d []float64
			for _, c := range cs {
				d = append(d, oracle.OpenData(c)...)
			}
			return d, rules[ri]
		}
		return oracle.ClosedData(cs...), rules[ri]
	}
	old := canvas.BentleyOttmannEpsilon
	return fw.Family{
		Name: name, N: int64(len(shapes)) * 4,
		Setup:    func() { canvas.BentleyOttmannEpsilon = eps },
		Teardown: func() { canvas.BentleyOttmannEpsilon = old },
		Check: func(i int64, r *fw.R) {
			d, rule := data(i)
			checkSettle(r, d, rule, eps, delta, 1e-3*f, open)
		},
		Desc: func(i int64) string {
			d, rule := data(i)
			return fmt.Sprintf("%s Settle(%v) eps=%g", oracle.Fmt(d), rule, eps)
		},
	}
}

func single(cs [][]oracle.Pt) [][][]oracle.Pt {
	out := make([][][]oracle.Pt, len(cs))
	for i, c := range cs {
		out[i] = [][]oracle.Pt{c}
	}
	return out
}

func pairs(a, b [][]oracle.Pt) [][][]oracle.Pt {
	var out [][][]oracle.Pt
	for _, x := range a {
		for _, y := range b {
			out = append(out, [][]oracle.Pt{x, y})
		}
	}
	return out
}

func rect(x0, y0, x1, y1 int, ccw bool) []oracle.Pt {
	a, b, c, d := float64(x0), float64(y0), float64(x1), float64(y1)
	if ccw {
		return []oracle.Pt{{X: a, Y: b}, {X: c, Y: b}, {X: c, Y: d}, {X: a, Y: d}}
	}
	return []oracle.Pt{{X: a, Y: b}, {X: a, Y: d}, {X: c, Y: d}, {X: c, Y: b}}
}

// rectilinear3: outer rectangle, a rectangle strictly inside it (hole or island), and a third
// rectangle ("bar") anywhere on the lattice; orientations from combos.
func rectilinear3(k int, combos [][3]bool, barsInsideOuterOnly bool) [][][]oracle.Pt {
	type rc struct{ x0, y0, x1, y1 int }
	var all []rc
	for x0 := 0; x0 < k; x0++ {
		for x1 := x0 + 1; x1 < k; x1++ {
			for y0 := 0; y0 < k; y0++ {
				for y1 := y0 + 1; y1 < k; y1++ {
					all = append(all, rc{x0, y0, x1, y1})
				}
			}
		}
	}
	var out [][][]oracle.Pt
	for _, a := range all {
		for _, b := range all {
			if !(a.x0 < b.x0 && b.x1 < a.x1 && a.y0 < b.y0 && b.y1 < a.y1) {
				continue
			}
			for _, c := range all {
				if barsInsideOuterOnly && !(a.x0 <= c.x0 && c.x1 <= a.x1 && a.y0 <= c.y0 && c.y1 <= a.y1) {
					continue
				}
				for _, o := range combos {
					out = append(out, [][]oracle.Pt{rect(a.x0, a.y0, a.x1, a.y1, o[0]), rect(b.x0, b.y0, b.x1, b.y1, o[1]), rect(c.x0, c.y0, c.x1, c.y1, o[2])})
				}
			}
		}
	}
	return out
}

// nestings: chains of k rectangles, each strictly inside the previous one (concentric or pushed
// into a corner of its parent), in every combination of orientations: islands inside holes
// inside islands.
func Nestings(k int) [][][]oracle.Pt {
	type rc struct{ x0, y0, x1, y1 float64 }
	var out [][][]oracle.Pt
	var rec func(chain []rc)
	rec = func(chain []rc) {
		if len(chain) == k {
			for o := 0; o < 1<<k; o++ {
				var cs [][]oracle.Pt
				for i, r := range chain {
					ccw := o&(1<<i) == 0
					if ccw {
						cs = append(cs, []oracle.Pt{{X: r.x0, Y: r.y0}, {X: r.x1, Y: r.y0}, {X: r.x1, Y: r.y1}, {X: r.x0, Y: r.y1}})
					} else {
						cs = append(cs, []oracle.Pt{{X: r.x0, Y: r.y0}, {X: r.x0, Y: r.y1}, {X: r.x1, Y: r.y1}, {X: r.x1, Y: r.y0}})
					}
				}
				out = append(out, cs)
			}
			return
		}
		p := chain[len(chain)-1]
		w, h := p.x1-p.x0, p.y1-p.y0
		// concentric, and shifted towards the lower-left / upper-right corner of the parent
		for _, c := range []rc{
			{p.x0 + w/8, p.y0 + h/8, p.x1 - w/8, p.y1 - h/8},
			{p.x0 + w/16, p.y0 + h/16, p.x0 + w/2, p.y0 + h/2},
			{p.x0 + w/2, p.y0 + h/4, p.x1 - w/16, p.y1 - h/16},
		} {
			rec(append(append([]rc{}, chain...), c))
		}
	}
	rec([]rc{{0, 0, 16, 16}})
	return out
}

// TwoHoles: the outer square [0,6]^2 with two disjoint, non-touching rectangles from the lattice
// {1..5}^2 inside it (side by side, stacked, diagonal, ...), in the given orientation combos of the
// two inner contours (outer counter clockwise).
func TwoHoles(combos [][2]bool) [][][]oracle.Pt {
	type rc struct{ x0, y0, x1, y1 int }
	var all []rc
	for x0 := 1; x0 <= 5; x0++ {
		for x1 := x0 + 1; x1 <= 5; x1++ {
			for y0 := 1; y0 <= 5; y0++ {
				for y1 := y0 + 1; y1 <= 5; y1++ {
					all = append(all, rc{x0, y0, x1, y1})
				}
			}
		}
	}
	var out [][][]oracle.Pt
	for i, a := range all {
		for _, b := range all[i+1:] {
			sepX := a.x1 < b.x0 || b.x1 < a.x0
			sepY := a.y1 < b.y0 || b.y1 < a.y0
			if !sepX && !sepY {
				continue
			}
			for _, o := range combos {
				out = append(out, [][]oracle.Pt{rect(0, 0, 6, 6, true), rect(a.x0, a.y0, a.x1, a.y1, o[0]), rect(b.x0, b.y0, b.x1, b.y1, o[1])})
			}
		}
	}
	return out
}

func CurvedShapes() [][]float64 {
	arc := func(d []float64, rx, ry, phiDeg float64, large, sweep bool, x, y float64) []float64 {
		f := 0.0
		if large {
			f += 1
		}
		if sweep {
			f += 2
		}
		return append(d, oracle.CmdArc, rx, ry, phiDeg*math.Pi/180, f, x, y, oracle.CmdArc)
	}
	ellipse := func(cx, cy, rx, ry, phiDeg float64, ccw bool) []float64 {
		c, sn := math.Cos(phiDeg*math.Pi/180), math.Sin(phiDeg*math.Pi/180)
		x0, y0 := cx+rx*c, cy+rx*sn
		x1, y1 := cx-rx*c, cy-rx*sn
		d := []float64{oracle.CmdMove, x0, y0, oracle.CmdMove}
		d = arc(d, rx, ry, phiDeg, false, ccw, x1, y1)
		d = arc(d, rx, ry, phiDeg, false, ccw, x0, y0)
		return append(d, oracle.CmdClose, x0, y0, oracle.CmdClose)
	}
	rrect := func(x, y, w, h, r float64) []float64 {
		d := []float64{oracle.CmdMove, x + r, y, oracle.CmdMove, oracle.CmdLine, x + w - r, y, oracle.CmdLine}
		d = arc(d, r, r, 0, false, true, x+w, y+r)
		d = append(d, oracle.CmdLine, x+w, y+h-r, oracle.CmdLine)
		d = arc(d, r, r, 0, false, true, x+w-r, y+h)
		d = append(d, oracle.CmdLine, x+r, y+h, oracle.CmdLine)
		d = arc(d, r, r, 0, false, true, x, y+h-r)
		d = append(d, oracle.CmdLine, x, y+r, oracle.CmdLine)
		d = arc(d, r, r, 0, false, true, x+r, y)
		return append(d, oracle.CmdClose, x+r, y, oracle.CmdClose)
	}
	var out [][]float64
	for _, c := range [][2]float64{{2, 2}, {3, 2}, {4, 3}} {
		out = append(out, ellipse(c[0], c[1], 2, 2, 0, true), ellipse(c[0], c[1], 1, 1, 0, false), ellipse(c[0], c[1], 3, 1.5, 0, true), ellipse(c[0], c[1], 3, 1.5, 30, true))
		out = append(out, rrect(c[0]-2, c[1]-1, 4, 2, 0.5))
	}
	out = append(out,
		// lens
		append(arc(arc([]float64{oracle.CmdMove, 0, 0, oracle.CmdMove}, 3, 3, 0, false, true, 4, 0), 3, 3, 0, false, true, 0, 0), oracle.CmdClose, 0, 0, oracle.CmdClose),
		// quadratic and cubic blobs
		[]float64{oracle.CmdMove, 0, 0, oracle.CmdMove, oracle.CmdQuad, 3, 5, 6, 0, oracle.CmdQuad, oracle.CmdQuad, 3, -2, 0, 0, oracle.CmdQuad, oracle.CmdClose, 0, 0, oracle.CmdClose},
		[]float64{oracle.CmdMove, 1, 1, oracle.CmdMove, oracle.CmdCube, 1, 4, 5, 4, 5, 1, oracle.CmdCube, oracle.CmdCube, 4, -1, 2, -1, 1, 1, oracle.CmdCube, oracle.CmdClose, 1, 1, oracle.CmdClose},
		// flat partners
		oracle.ClosedData(rect(1, 1, 4, 3, true)), oracle.ClosedData(rect(2, 0, 3, 5, false)),
	)
	return out
}

// curvedFamily: every ordered pair of curved shapes as one two-contour path x 4 fill rules. The
// path is flattened with canvas.Tolerance first, so probes within 3*Tolerance of an input curve
// are undecidable.
func curvedFamily() fw.Family {
	sh := CurvedShapes()
	n := int64(len(sh))
	data := func(i int64) ([]float64, canvas.FillRule) {
		k := i / 4
		return append(append([]float64{}, sh[k/n]...), sh[k%n]...), rules[i%4]
	}
	return fw.Family{
		Name: "two curved contours (circles, ellipses, rounded rectangles, lens, Bezier blobs) in one path", N: n * n * 4,
		Check: func(i int64, r *fw.R) {
			d, rule := data(i)
			checkSettleN(r, d, rule, 1e-8, 3*canvas.Tolerance+1e-6, 1e-3, false, 256)
		},
		Desc: func(i int64) string {
			d, rule := data(i)
			return fmt.Sprintf("%s Settle(%v)", oracle.Fmt(d), rule)
		},
	}
}

// UlpShapes: every contour with one vertex moved by one unit in the last place in x or in y
// (edges whose x- or y-extent is one ulp: almost vertical/horizontal segments that become exactly
// vertical/horizontal when an intersection splits them).
func UlpShapes(cs [][]oracle.Pt) [][][]oracle.Pt {
	var out [][][]oracle.Pt
	for _, c := range cs {
		for v := range c {
			for k := 0; k < 4; k++ {
				d := append([]oracle.Pt(nil), c...)
				if (k < 2 && d[v].X == 0) || (k >= 2 && d[v].Y == 0) {
					continue // the neighbours of 0 are denormal numbers: outside the bound (the oracle's orientation test underflows there)
				}
				switch k {
				case 0:
					d[v].X = math.Nextafter(d[v].X, math.Inf(1))
				case 1:
					d[v].X = math.Nextafter(d[v].X, math.Inf(-1))
				case 2:
					d[v].Y = math.Nextafter(d[v].Y, math.Inf(1))
				case 3:
					d[v].Y = math.Nextafter(d[v].Y, math.Inf(-1))
				}
				out = append(out, [][]oracle.Pt{d})
			}
		}
	}
	return out
}

// Repeats: a contour covered several times (edges whose coverage adds up to +-2, +-3, +1 with
// three coincident segments): the contour twice and three times in the same direction, twice with
// one reversed copy, and three rectangles with a common left edge.
func Repeats(cs [][]oracle.Pt) [][][]oracle.Pt {
	rev := func(c []oracle.Pt) []oracle.Pt {
		o := make([]oracle.Pt, len(c))
		for i := range c {
			o[i] = c[len(c)-1-i]
		}
		return o
	}
	var out [][][]oracle.Pt
	for _, c := range cs {
		if oracle.Orient(c[0], c[1], c[2]) == 0 && len(c) == 3 {
			continue
		}
		out = append(out, [][]oracle.Pt{c, c}, [][]oracle.Pt{c, c, c}, [][]oracle.Pt{c, c, rev(c)}, [][]oracle.Pt{c, rev(c), c, c})
	}
	R := func(x0, y0, x1, y1 float64) []oracle.Pt {
		return []oracle.Pt{{X: x0, Y: y0}, {X: x1, Y: y0}, {X: x1, Y: y1}, {X: x0, Y: y1}}
	}
	for _, hs := range [][3][2]float64{{{0, 3}, {0, 2}, {1, 3}}, {{0, 1}, {0, 2}, {0, 3}}, {{1, 2}, {0, 3}, {1, 3}}} {
		for _, ws := range [][3]float64{{1, 2, 3}, {3, 2, 1}, {2, 2, 2}} {
			a, b, c := R(0, hs[0][0], ws[0], hs[0][1]), R(0, hs[1][0], ws[1], hs[1][1]), R(0, hs[2][0], ws[2], hs[2][1])
			out = append(out, [][]oracle.Pt{a, b, c}, [][]oracle.Pt{a, rev(b), c}, [][]oracle.Pt{rev(a), rev(b), rev(c)})
		}
	}
	return out
}

// CrossingClosers: two-contour paths in which the last (closing) edge of one contour properly
// crosses the first edge of the next contour, with a third edge between them in the sweep (the
// segment numbers of a path run on across its contours, so these two edges are "neighbours" by
// number without sharing a vertex). Two base shapes on the 6x6 lattice, every start vertex and
// direction of both contours, both orders, under the 8 symmetries of the lattice.
func CrossingClosers() [][][]oracle.Pt {
	P := func(xy ...float64) []oracle.Pt {
		var o []oracle.Pt
		for i := 0; i+1 < len(xy); i += 2 {
			o = append(o, oracle.Pt{X: xy[i], Y: xy[i+1]})
		}
		return o
	}
	bases := [][2][]oracle.Pt{
		{P(0, 2, 5, 1, 5, 4), P(1, 5, 4, 2, 0, 3, 2, 3)},
		{P(4, 4, 2, 0, 1, 0), P(4, 1, 1, 4, 2, 2, 0, 1)},
	}
	rot := func(c []oracle.Pt, k int, rev bool) []oracle.Pt {
		n := len(c)
		o := make([]oracle.Pt, n)
		for i := range o {
			j := (k + i) % n
			if rev {
				j = ((k-i)%n + n) % n
			}
			o[i] = c[j]
		}
		return o
	}
	sym := func(c []oracle.Pt, s int) []oracle.Pt {
		o := make([]oracle.Pt, len(c))
		for i, p := range c {
			x, y := p.X, p.Y
			if s&1 != 0 {
				x = 5 - x
			}
			if s&2 != 0 {
				y = 5 - y
			}
			if s&4 != 0 {
				x, y = y, x
			}
			o[i] = oracle.Pt{X: x, Y: y}
		}
		return o
	}
	var out [][][]oracle.Pt
	for _, b := range bases {
		for ka := 0; ka < len(b[0]); ka++ {
			for kb := 0; kb < len(b[1]); kb++ {
				for dir := 0; dir < 4; dir++ {
					for s := 0; s < 8; s++ {
						a := sym(rot(b[0], ka, dir&1 != 0), s)
						c := sym(rot(b[1], kb, dir&2 != 0), s)
						out = append(out, [][]oracle.Pt{a, c}, [][]oracle.Pt{c, a})
					}
				}
			}
		}
	}
	return out
}

// VertexOnVerticalEdge: three triangles on the 5x5 lattice: C has the vertical edge (1,0)-(1,4)
// and a third vertex to its left; A has the vertex (1,2) in the middle of that edge and its other
// two vertices to the right (x >= 2; with full, anywhere off the line x=1); B has an edge that
// passes through (1,2) (9 lattice chords) and any third vertex. The contours come in the order
// A, B, C.
func VertexOnVerticalEdge(full bool) [][][]oracle.Pt {
	v := oracle.Pt{X: 1, Y: 2}
	var all []oracle.Pt
	for x := 0; x <= 4; x++ {
		for y := 0; y <= 4; y++ {
			all = append(all, oracle.Pt{X: float64(x), Y: float64(y)})
		}
	}
	var cs [][]oracle.Pt // C
	for y := 0; y <= 4; y++ {
		cs = append(cs, []oracle.Pt{{X: 0, Y: float64(y)}, {X: 1, Y: 0}, {X: 1, Y: 4}})
	}
	var as [][]oracle.Pt
	for i, p := range all {
		for _, q := range all[i+1:] {
			if p == v || q == v || oracle.Orient(v, p, q) == 0 {
				continue
			}
			if full {
				if p.X == 1 || q.X == 1 {
					continue
				}
			} else if p.X < 2 || q.X < 2 {
				continue
			}
			as = append(as, []oracle.Pt{v, p, q})
		}
	}
	var bs [][]oracle.Pt
	for i, p := range all {
		for _, q := range all[i+1:] {
			// v strictly inside the segment pq
			if p == v || q == v || oracle.Orient(p, q, v) != 0 || (p.X-v.X)*(q.X-v.X)+(p.Y-v.Y)*(q.Y-v.Y) >= 0 || p.X == q.X {
				continue
			}
			for _, t := range all {
				if oracle.Orient(p, q, t) != 0 {
					bs = append(bs, []oracle.Pt{p, q, t})
				}
			}
		}
	}
	var out [][][]oracle.Pt
	for _, c := range cs {
		for _, a := range as {
			for _, b := range bs {
				out = append(out, [][]oracle.Pt{a, b, c})
			}
		}
	}
	return out
}

func families(tier string) []fw.Family {
	L3, L4 := oracle.Lattice(3), oracle.Lattice(4)
	tri3r := oracle.ContoursModRotation(L3, 3)
	fs := []fw.Family{
		family("tri(L4)", single(oracle.Contours(L4, 3)), 1, 1e-8, 1e-6, false),
		family("quad(L4)/rot", single(oracle.ContoursModRotation(L4, 4)), 1, 1e-8, 1e-6, false),
		family("pent(L3)/rot", single(oracle.ContoursModRotation(L3, 5)), 1, 1e-8, 1e-6, false),
		family("tri(L3)/rot + tri(L3)/rot (two contours)", pairs(tri3r, tri3r), 1, 1e-8, 1e-6, false),
		family("triangle + quadrilateral on L6 whose closing and opening edges cross: 2 base shapes x start vertices x directions x order x 8 symmetries", CrossingClosers(), 1, 1e-8, 1e-6, false),
		family("rectilinear outer+inner+bar (L5), CCW/CW/CCW", rectilinear3(5, [][3]bool{{true, false, true}}, true), 1, 1e-8, 1e-6, false),
		family("square with two separate inner rectangles (L7), both clockwise", TwoHoles([][2]bool{{false, false}}), 1, 1e-8, 1e-6, false),
		curvedFamily(),
		family("nested rectangles, 3 levels, all orientations", Nestings(3), 1, 1e-8, 1e-6, false),
		family("nested rectangles, 4 levels, all orientations", Nestings(4), 1, 1e-8, 1e-6, false),
		family("quad(L3)/rot, coarse grid eps=0.25 on x4 lattice", single(oracle.ContoursModRotation(L3, 4)), 4, 0.25, 0.5, false),
		family("closed walks of 4 steps revisiting a vertex (L4)", single(oracle.WalksModRotation(L4, 4)), 1, 1e-8, 1e-6, false),
		family("closed walks of 5 steps revisiting a vertex (L3)", single(oracle.WalksModRotation(L3, 5)), 1, 1e-8, 1e-6, false),
		family("closed walks of 6 steps revisiting a vertex (L3)", single(oracle.WalksModRotation(L3, 6)), 1, 1e-8, 1e-6, false),
		family("quad(L3)/rot with one vertex moved by one ulp in x or y", UlpShapes(oracle.ContoursModRotation(L3, 4)), 1, 1e-8, 1e-6, false),
		family("a contour covered several times: tri(L3)/rot and quad(L3)/rot twice, three times, with a reversed copy; three rectangles on a common left edge", Repeats(append(append([][]oracle.Pt{}, tri3r...), oracle.ContoursModRotation(L3, 4)...)), 1, 1e-8, 1e-6, false),
		family("open quad(L3)/rot (open subpaths, implicitly closed)", single(oracle.ContoursModRotation(L3, 4)), 1, 1e-8, 1e-6, true),
		family("three triangles (L5): a vertex in the middle of a vertical edge of another contour and an edge of the third through it; the first triangle to the right", VertexOnVerticalEdge(false), 1, 1e-8, 1e-6, false),
		// the same lattice shapes a hundred thousand times smaller: features of 1e-5, a thousand snap-grid cells (absolute epsilons in the builders meet real corners there)
		family("quad(L3)/rot and pent(L3)/rot scaled by 1e-5 (snap grid 1e-8)", single(append(oracle.ContoursModRotation(L3, 4), oracle.ContoursModRotation(L3, 5)...)), 1e-5, 1e-8, 2e-8, false),
	}
	if tier == "thorough" {
		fs = append(fs,
			family("square with two separate inner rectangles (L7), all orientations", TwoHoles([][2]bool{{false, false}, {true, false}, {false, true}, {true, true}}), 1, 1e-8, 1e-6, false),
			family("nested rectangles, 5 levels, all orientations", Nestings(5), 1, 1e-8, 1e-6, false),
			family("pent(L4)/rot", single(oracle.ContoursModRotation(L4, 5)), 1, 1e-8, 1e-6, false),
			family("hex(L3)/rot", single(oracle.ContoursModRotation(L3, 6)), 1, 1e-8, 1e-6, false),
			family("tri(L3) + tri(L3) (two contours, all start vertices)", pairs(oracle.Contours(L3, 3), oracle.Contours(L3, 3)), 1, 1e-8, 1e-6, false),
			family("rectilinear outer+inner+bar (L5), all 8 orientation combos", rectilinear3(5, [][3]bool{{true, false, true}, {true, true, true}, {false, true, true}, {false, false, true}, {true, false, false}, {true, true, false}, {false, true, false}, {false, false, false}}, false), 1, 1e-8, 1e-6, false),
			family("pent(L3)/rot, coarse grid eps=0.25 on x4 lattice", single(oracle.ContoursModRotation(L3, 5)), 4, 0.25, 0.5, false),
			family("quad(L4)/rot, coarse grid eps=1 on x8 lattice", single(oracle.ContoursModRotation(L4, 4)), 8, 1, 2, false),
			family("three triangles (L5): a vertex in the middle of a vertical edge of another contour and an edge of the third through it; the first triangle anywhere off that line", VertexOnVerticalEdge(true), 1, 1e-8, 1e-6, false),
		)
	}
	return fs
}

// Prop is the C02 check.
func Prop() *fw.Property {
	return &fw.Property{
		ID:    "C02",
		Level: "exploration",
		Rule: "every path from the named lattice families (all vertex tuples incl. degenerate and self-crossing, two-contour combinations, rectilinear outer+inner+bar arrangements) x {NonZero,EvenOdd,Positive,Negative}; " +
			"filled(Settle(rule),NonZero) == rule.Fills(winding(input)) at probes on both sides of every piece of the input-edge arrangement plus an offset grid (probes within delta of an input edge skipped); result winding in {0,1} at every probe; no proper crossing among output segments; Settle(Settle(p)) has the same region, is canonical, and its vertices lie on the first result; " +
			"non-trivial = probes exist both inside and outside the expected region",
		Assumptions: []string{
			"coordinates restricted to the stated integer lattices; curved inputs are outside this bound (they are flattened first, C03 covers flattening)",
			"delta=1e-6 at snap grid 1e-8; delta=2*eps on coarse grids; winding in {0,1} at probes beside every input edge piece implies filling contours CCW / holes CW and equality of the NonZero/EvenOdd/Positive readings",
			"open subpaths: only region preservation under implicit closure is checked (the code documents open-subject support as work in progress and keeps them open)",
		},
		Families: families,
		Customs:  func(tier string) []fw.Custom { return []fw.Custom{nearGridCustom()} },
		KnownPredicates: map[string]func(*fw.Violation) bool{
			// the input (first token of the case string) has a subpath that is not closed with z
			"open-subject-subpath": func(v *fw.Violation) bool {
				path := v.Case
				if i := strings.Index(path, " Settle("); i >= 0 {
					path = path[:i]
				}
				for _, sub := range strings.Split(path, "M")[1:] {
					if !strings.HasSuffix(sub, "z") {
						return true
					}
				}
				return false
			},
		},
	}
}
