package c02

import (
	"context"
	"encoding/json"
	"fmt"
	"os"
	"os/exec"
	"strconv"
	"strings"
	"sync"
	"time"

	"github.com/tdewolff/canvas"
	"verif/internal/fw"
	"verif/internal/oracle"
	"verif/internal/svgpath"
)

// Inputs with vertices a few 1e-9 off the integer grid (inside the tolerance squares of the snap
// grid 1e-8), reported in wave 14 by the agent that seeded C02-10 from a random search (a
// discovery aid: the search decides nothing). On the unchanged tree Settle does not return for
// the second one, so each input x rule runs in a process of its own under a time limit: a hang
// costs that process, not the worker. The menu is enumerated completely: inputs x 4 rules.
var nearGridInputs = []string{
	"M1 0L2 2L2 2.00000002L3.000000003 1L1.00000001 2L3 0zM0 0L3 2L3 0L1.00000001 3L1 6e-09zM3 1L2 1L3.000000003 1.999999994L1 -6e-09L2 2L1.000000006 3z",
	"M4 3L0 1.00000002L0 1.999999997L5.000000006 3.99999999L0 1L2 4.00000002L3 0L1 2zM3 4L1.999999997 1.00000002L5 5L4 4L1 3L3.00000002 4zM1 4L1.999999994 5.00000002L2 0.999999994L3 5.000000006L5 1L1.00000001 5z",
	// controls: the same contours on the grid itself
	"M1 0L2 2L3 1L1 2L3 0zM0 0L3 2L3 0L1 3zM3 1L2 1L3 2L1 0L2 2L1 3z",
	"M4 3L0 1L0 2L5 4L2 4L3 0L1 2zM3 4L2 1L5 5L4 4L1 3zM1 4L2 5L2 1L3 5L5 1L1 5z",
}

const nearGridLimit = 10 * time.Second

func nearGridData(k int) []float64 {
	sps, err := svgpath.Parse(nearGridInputs[k])
	if err != nil {
		panic(err)
	}
	return oracle.PathData(sps)
}

type nearGridViolation struct{ Class, Detail string }

const nearGridMarker = "C02-NEARGRID-RESULT:"

func init() {
	// verif c02neargrid <input index> <rule index>: the ordinary Settle check of that case, its
	// violations as JSON on stdout
	fw.Commands["c02neargrid"] = func(args []string) int {
		if len(args) != 2 {
			return 2
		}
		k, _ := strconv.Atoi(args[0])
		ri, _ := strconv.Atoi(args[1])
		r := fw.NewR("C02")
		func() {
			defer func() {
				if e := recover(); e != nil {
					r.Violate("panic", fmt.Sprint(e))
				}
			}()
			checkSettle(r, nearGridData(k), rules[ri], 1e-8, 1e-6, 1e-3, false)
		}()
		var out []nearGridViolation
		for _, v := range r.Violations {
			out = append(out, nearGridViolation{v.Class, v.Detail})
		}
		b, _ := json.Marshal(out)
		// (the library prints its operands to stdout before some panics: the result follows a marker)
		fmt.Printf("\n%s%s\n", nearGridMarker, b)
		return 0
	}
}

func nearGridCase(k, ri int) string {
	return fmt.Sprintf("%s Settle(%v) eps=1e-08", nearGridInputs[k], rules[ri])
}

const nearGridName = "inputs a few 1e-9 off the grid, each in a process of its own"

// nearGridExec runs one case in its own process; hang reports that it did not return in time.
func nearGridExec(k, ri int) (vs []nearGridViolation, hang bool, err error) {
	self, err := os.Executable()
	if err != nil {
		return nil, false, err
	}
	ctx, cancel := context.WithTimeout(context.Background(), nearGridLimit)
	defer cancel()
	cmd := exec.CommandContext(ctx, self, "c02neargrid", strconv.Itoa(k), strconv.Itoa(ri))
	cmd.Env = append(os.Environ(), "GOMAXPROCS=1")
	b, err := cmd.Output()
	if ctx.Err() != nil {
		return nil, true, nil
	}
	if err != nil {
		return nil, false, err
	}
	i := strings.LastIndex(string(b), nearGridMarker)
	if i < 0 {
		return nil, false, fmt.Errorf("no result in the output of the case process")
	}
	err = json.Unmarshal([]byte(strings.TrimSpace(string(b)[i+len(nearGridMarker):])), &vs)
	return vs, false, err
}

func nearGridRecord(r *fw.R, k, ri int, vs []nearGridViolation, hang bool, err error) {
	r.Evaluations++
	switch {
	case hang:
		r.Outcome("neargrid:did-not-return")
		r.ViolateCase(nearGridName, "hang", nearGridCase(k, ri), fmt.Sprintf("Settle did not return within %v (own process)", nearGridLimit))
	case err != nil:
		r.ViolateCase(nearGridName, "harness", nearGridCase(k, ri), err.Error())
	case len(vs) == 0:
		r.Outcome("neargrid:settled")
	}
	for _, v := range vs {
		r.Outcome("neargrid:" + v.Class)
		r.ViolateCase(nearGridName, v.Class, nearGridCase(k, ri), v.Detail)
	}
}

func nearGridCustom() fw.Custom {
	type res struct {
		vs   []nearGridViolation
		hang bool
		err  error
	}
	return fw.Custom{
		Name: nearGridName,
		Run: func(r *fw.R, deadline time.Time) {
			// all cases at once (they are processes of their own), recorded in order
			out := make([]res, len(nearGridInputs)*len(rules))
			var wg sync.WaitGroup
			for i := range out {
				wg.Add(1)
				go func(i int) {
					defer wg.Done()
					out[i].vs, out[i].hang, out[i].err = nearGridExec(i/len(rules), i%len(rules))
				}(i)
			}
			wg.Wait()
			for i, o := range out {
				nearGridRecord(r, i/len(rules), i%len(rules), o.vs, o.hang, o.err)
			}
		},
		Replay: func(c string, r *fw.R) {
			for k := range nearGridInputs {
				for ri := range rules {
					if nearGridCase(k, ri) == c {
						vs, hang, err := nearGridExec(k, ri)
						nearGridRecord(r, k, ri, vs, hang, err)
					}
				}
			}
		},
	}
}

var _ = canvas.NonZero
