// Package c08: Bounds() is the smallest axis-aligned box of the path, FastBounds() contains it,
// both are equivariant under translation and axis reflection.
package c08

import (
	"fmt"
	"math"

	"github.com/tdewolff/canvas"

	"verif/internal/cv"
	"verif/internal/fw"
	"verif/internal/oracle"
	"verif/internal/props/curvefam"
)

type box struct{ x0, y0, x1, y1 float64 }

func fromRect(r canvas.Rect) box { return box{r.X0, r.Y0, r.X1, r.Y1} }

func (b box) String() string {
	return fmt.Sprintf("[%.12g,%.12g]x[%.12g,%.12g]", b.x0, b.x1, b.y0, b.y1)
}

// mapBox is the image of a box under an axis isometry.
func mapBox(m oracle.Iso, b box) box {
	p, q := m.Pt(oracle.Pt{X: b.x0, Y: b.y0}), m.Pt(oracle.Pt{X: b.x1, Y: b.y1})
	return box{math.Min(p.X, q.X), math.Min(p.Y, q.Y), math.Max(p.X, q.X), math.Max(p.Y, q.Y)}
}

func (b box) maxDiff(c box) float64 {
	return math.Max(math.Max(math.Abs(b.x0-c.x0), math.Abs(b.x1-c.x1)), math.Max(math.Abs(b.y0-c.y0), math.Abs(b.y1-c.y1)))
}

// excess is how far inner sticks out of outer (<= 0 when contained).
func excess(outer, inner box) float64 {
	return math.Max(math.Max(outer.x0-inner.x0, inner.x1-outer.x1), math.Max(outer.y0-inner.y0, inner.y1-outer.y1))
}

const denseN = 256

// truth computes the oracle's box: exact stationary points plus dense samples.
func truth(r *fw.R, sps []oracle.Subpath) (box, float64) {
	lo, hi, _ := oracle.ExactBBoxPath(sps)
	ex := box{lo.X, lo.Y, hi.X, hi.Y}
	dl, dh, _ := oracle.BBox(oracle.DenseR(sps, denseN))
	de := box{dl.X, dl.Y, dh.X, dh.Y}
	scale := math.Max(oracle.MaxAbsCoord(sps), 1e-300)
	// self-check of the oracle: dense samples must not stick out of the exact box
	if e := excess(ex, de); !(e <= 1e-12*scale) {
		r.Count("oracle_dense_exceeds_exact", 1)
		r.Max("oracle_dense_exceeds_exact/scale", e/scale)
	}
	t := box{math.Min(ex.x0, de.x0), math.Min(ex.y0, de.y0), math.Max(ex.x1, de.x1), math.Max(ex.y1, de.y1)}
	return t, scale
}

func viol(r *fw.R, sps []oracle.Subpath, class, detail string) {
	if curvefam.ArcChordEqualsRx(sps) {
		detail = "[" + class + "] " + detail
		class = curvefam.ArcShortcutClass
	}
	r.Count("violations:"+class, 1)
	r.Violate(class, detail)
}

func kindName(s oracle.Seg) string {
	switch s.Kind {
	case oracle.CmdQuad:
		return "quad"
	case oracle.CmdCube:
		return "cube"
	case oracle.CmdArc:
		switch {
		case s.Rx == s.Ry:
			return "arc-circle"
		case s.Phi == 0 || s.Phi == math.Pi/2:
			return "arc-ellipse-axis-aligned"
		}
		return "arc-ellipse-rotated"
	}
	return "line"
}

// offender names the kind of the first segment whose exact box sticks out of fb by more than
// tol; if none does (the box is too large rather than too small) the kinds of all curved
// segments present are named.
func offender(sps []oracle.Subpath, fb box, tol float64) string {
	for _, sp := range sps {
		for _, s := range sp.Segs {
			lo, hi := s.ExactBBox()
			if excess(fb, box{lo.X, lo.Y, hi.X, hi.Y}) > tol {
				return kindName(s)
			}
		}
	}
	seen := map[string]bool{}
	out := ""
	for _, sp := range sps {
		for _, s := range sp.Segs {
			if k := kindName(s); s.IsCurve() && !seen[k] {
				seen[k] = true
				if out != "" {
					out += "+"
				}
				out += k
			}
		}
	}
	return out
}

// absolute checks one path against the oracle; returns Bounds, FastBounds and whether all
// absolute clauses held.
func absolute(r *fw.R, sps []oracle.Subpath, label string) (b, fb box, ok bool) {
	data := oracle.PathData(sps)
	b = fromRect(cv.Path(data).Bounds())
	fb = fromRect(cv.Path(data).FastBounds())
	t, scale := truth(r, sps)
	ok = true
	if e := excess(b, t); !(e <= 1e-9*scale) {
		viol(r, sps, "bounds-misses-curve-point:"+offender(sps, b, 1e-9*scale), fmt.Sprintf("%sBounds=%v does not contain the curve: true box %v (sticks out by %.3g); path %s", label, b, t, e, oracle.Fmt(data)))
		ok = false
	} else {
		r.Max("bounds_containment_excess/scale", math.Max(e, 0)/scale)
	}
	if e := excess(t, b); !(e <= 1e-6*scale) {
		viol(r, sps, "bounds-not-tight:"+offender(sps, b, 1e-9*scale), fmt.Sprintf("%sBounds=%v is larger than the true box %v by %.3g (a side is not touched by the path); path %s", label, b, t, e, oracle.Fmt(data)))
		ok = false
	} else {
		r.Max("bounds_slack/scale", math.Max(e, 0)/scale)
	}
	if e := excess(fb, t); !(e <= 1e-9*scale) {
		viol(r, sps, "fastbounds-misses-curve-point:"+offender(sps, fb, 1e-9*scale), fmt.Sprintf("%sFastBounds=%v does not contain the path: true box %v, Bounds=%v (sticks out by %.3g); path %s", label, fb, t, b, e, oracle.Fmt(data)))
		ok = false
	} else if e := excess(fb, b); !(e <= 1e-12*scale) {
		viol(r, sps, "fastbounds-not-superset-of-bounds", fmt.Sprintf("%sFastBounds=%v does not contain Bounds=%v (by %.3g); path %s", label, fb, b, e, oracle.Fmt(data)))
		ok = false
	}
	return
}

var isos = []struct {
	name string
	m    oracle.Iso
}{
	{"translate(7,-13)", oracle.Iso{Sx: 1, Sy: 1, Tx: 7, Ty: -13}},
	{"reflect-x", oracle.Iso{Sx: -1, Sy: 1}},
	{"reflect-y", oracle.Iso{Sx: 1, Sy: -1}},
	{"reflect-xy+translate(-4,9)", oracle.Iso{Sx: -1, Sy: -1, Tx: -4, Ty: 9}},
}

func check(r *fw.R, sps []oracle.Subpath) {
	b, fb, ok := absolute(r, sps, "")
	t, _ := truth(r, sps)
	// outcome: how many sides are decided by an interior stationary point
	ends := box{math.Inf(1), math.Inf(1), math.Inf(-1), math.Inf(-1)}
	curved := false
	for _, sp := range sps {
		for _, p := range append([]oracle.Pt{sp.Start}, endpoints(sp)...) {
			ends = box{math.Min(ends.x0, p.X), math.Min(ends.y0, p.Y), math.Max(ends.x1, p.X), math.Max(ends.y1, p.Y)}
		}
		for _, s := range sp.Segs {
			curved = curved || s.IsCurve()
		}
	}
	k := 0
	for _, d := range []float64{ends.x0 - t.x0, ends.y0 - t.y0, t.x1 - ends.x1, t.y1 - ends.y1} {
		if !(d <= 1e-9) {
			k++
		}
	}
	if curved && k > 0 {
		r.NontrivialIdx()
	}
	cls := "multi"
	if len(sps) == 1 && len(sps[0].Segs) == 1 {
		cls = curvefam.Class(sps[0].Segs[0])
	}
	r.Outcome(fmt.Sprintf("%s:sides-from-interior-extrema=%d", cls, k))
	if !(excess(b, fb) <= 1e-9) {
		r.Outcome("fastbounds-strictly-larger")
	} else {
		r.Outcome("fastbounds-equals-bounds")
	}
	for _, iso := range isos {
		if !ok {
			r.Count("images_skipped_original_failed", 1)
			continue
		}
		img := curvefam.Map(iso.m, sps)
		if !oracle.ArcsWellConditioned(img) {
			r.Count("images_skipped_arc_ill_conditioned", 1)
			continue
		}
		b2, fb2, ok2 := absolute(r, img, "after "+iso.name+": ")
		if !ok2 {
			r.Count("equivariance_skipped_absolute_failed", 1)
			continue
		}
		scale2 := math.Max(oracle.MaxAbsCoord(img), 1e-300)
		// an arc is given by its end points: the direction of a short chord, and with it the centre,
		// is only defined to (rounding of the coordinates / chord length) x radius
		eqTol := 1e-9*scale2 + chordConditioning(img)
		if d := b2.maxDiff(mapBox(iso.m, b)); !(d <= eqTol) {
			viol(r, sps, "bounds-not-equivariant:"+offender(sps, box{math.Inf(-1), math.Inf(-1), math.Inf(1), math.Inf(1)}, 0), fmt.Sprintf("Bounds(%s path)=%v but %s of Bounds=%v (differs by %.3g)", iso.name, b2, iso.name, mapBox(iso.m, b), d))
		} else {
			r.Max("bounds_equivariance_diff/scale", d/scale2)
		}
		if d := fb2.maxDiff(mapBox(iso.m, fb)); !(d <= eqTol) {
			viol(r, sps, "fastbounds-not-equivariant:"+offender(sps, box{math.Inf(-1), math.Inf(-1), math.Inf(1), math.Inf(1)}, 0), fmt.Sprintf("FastBounds(%s path)=%v but %s of FastBounds=%v (differs by %.3g)", iso.name, fb2, iso.name, mapBox(iso.m, fb), d))
		} else {
			r.Max("fastbounds_equivariance_diff/scale", d/scale2)
		}
	}
}

// chordConditioning: how far the centre of the worst conditioned arc of the path may move when
// its end points are rounded (16 ulps of the largest coordinate over the chord length, times the
// larger radius); zero without arcs.
func chordConditioning(sps []oracle.Subpath) float64 {
	c := 0.0
	m := oracle.MaxAbsCoord(sps)
	for _, sp := range sps {
		for _, s := range sp.Segs {
			if s.Kind == oracle.CmdArc {
				if chord := math.Hypot(s.P1.X-s.P0.X, s.P1.Y-s.P0.Y); chord > 0 {
					c = math.Max(c, 16*2.2e-16*m/chord*math.Max(s.Rx, s.Ry))
				}
			}
		}
	}
	return c
}

func endpoints(sp oracle.Subpath) []oracle.Pt {
	var out []oracle.Pt
	for _, s := range sp.Segs {
		out = append(out, s.P1)
	}
	return out
}

func segFamily(name string, n int64, seg func(i int64) oracle.Seg, f float64, off oracle.Pt) fw.Family {
	get := func(i int64) ([]oracle.Subpath, bool) {
		s := seg(i)
		if curvefam.ZeroLength(s) {
			return nil, false
		}
		return curvefam.One(curvefam.Scale(s, f, off)), true
	}
	return fw.Family{
		Name: name, N: n,
		Check: func(i int64, r *fw.R) {
			sps, ok := get(i)
			if !ok {
				r.Outcome("skipped:zero-length-segment")
				return
			}
			if !oracle.ArcsWellConditioned(sps) {
				r.Outcome("skipped:arc-centre-ill-conditioned")
				return
			}
			check(r, sps)
		},
		Desc: func(i int64) string {
			sps, ok := get(i)
			if !ok {
				return "zero-length segment"
			}
			return curvefam.Desc(sps)
		},
	}
}

var rotsQuick = []float64{0, 15, 45, 90, 135}

// twoSubpaths: every ordered pair of the 12-curve menu as two subpaths (second one displaced),
// each subpath open or closed.
func twoSubpaths(offs []oracle.Pt) fw.Family {
	n := int64(12 * 12 * 4 * len(offs))
	get := func(i int64) []oracle.Subpath {
		d := oracle.Digits(i, len(offs), 4, 12, 12)
		a := curvefam.Menu12(oracle.Pt{})[d[2]]
		b := curvefam.Menu12(offs[d[0]])[d[3]]
		return []oracle.Subpath{oracle.Chain(d[1]&1 != 0, a), oracle.Chain(d[1]&2 != 0, b)}
	}
	return fw.Family{
		Name: "two-subpaths(menu12 x menu12 x open/closed x offsets)", N: n,
		Check: func(i int64, r *fw.R) { check(r, get(i)) },
		Desc:  func(i int64) string { return curvefam.Desc(get(i)) },
	}
}

// chains: every ordered k-tuple of the 12-curve menu as consecutive segments of ONE subpath (each
// segment starts where the previous one ended), open and closed, optionally preceded by a line
// (so that the first curve does not start at the subpath start).
func chains(k int) fw.Family {
	rad := []int{2, 2}
	for j := 0; j < k; j++ {
		rad = append(rad, 12)
	}
	get := func(i int64) []oracle.Subpath {
		d := oracle.Digits(i, rad...)
		cur := oracle.Pt{}
		var segs []oracle.Seg
		if d[1] == 1 {
			cur = oracle.Pt{X: 1, Y: -2}
			segs = append(segs, oracle.MkLine(oracle.Pt{}, cur))
		}
		for j := 0; j < k; j++ {
			s := curvefam.Menu12(cur)[d[2+j]]
			segs = append(segs, s)
			cur = s.P1
		}
		return []oracle.Subpath{oracle.Chain(d[0] == 1, segs...)}
	}
	return fw.Family{
		Name: fmt.Sprintf("chains of %d menu12 segments in one subpath x open/closed x leading line", k), N: oracle.Prod(rad...),
		Check: func(i int64, r *fw.R) { check(r, get(i)) },
		Desc:  func(i int64) string { return curvefam.Desc(get(i)) },
	}
}

// tinyChords: arcs whose end points are 1e-8 .. 1e-4 rad apart (far above Epsilon): almost closed
// ellipses drawn by one large arc, and very short arcs, on circles and (rotated) ellipses of size
// 1, 50 and 1000, starting at 5 angles, both directions.
func tinyChords() fw.Family {
	type geo struct{ rx, ry, rot float64 }
	geos := []geo{{1, 1, 0}, {50, 50, 0}, {2, 1, 0}, {2, 1, 30}, {50, 20, 90}, {60, 45, 37}, {1000, 1000, 0}}
	gaps := []float64{1e-8, 3e-7, 1e-6, 1e-5, 1e-4} // central angle between the end points
	th0s := []float64{0, 0.7, 1.5707963267948966, 3, 4.6}
	rad := []int{len(geos), len(gaps), len(th0s), 2, 2}
	get := func(i int64) []oracle.Subpath {
		d := oracle.Digits(i, rad...)
		g := geos[d[0]]
		phi := g.rot * math.Pi / 180
		a0, a1 := th0s[d[2]], th0s[d[2]]+gaps[d[1]]
		sweep := d[4] == 1
		large := d[3] == 1
		if large != sweep { // the long way round from a1 back to a0, or the short way from a1 to a0
			a0, a1 = a1, a0
		}
		p0 := oracle.EllipseAt(oracle.Pt{}, g.rx, g.ry, phi, a0)
		p1 := oracle.EllipseAt(oracle.Pt{}, g.rx, g.ry, phi, a1)
		return curvefam.One(oracle.MkArc(p0, g.rx, g.ry, g.rot, large, sweep, p1))
	}
	return fw.Family{
		Name: "arcs with end points 1e-8..1e-4 rad apart (almost closed large arcs and very short arcs) on 7 ellipses x 5 start angles x both directions", N: oracle.Prod(rad...),
		Check: func(i int64, r *fw.R) {
			sps := get(i)
			if !oracle.ArcsWellConditioned(sps) {
				r.Outcome("skipped:arc-centre-ill-conditioned")
				return
			}
			check(r, sps)
		},
		Desc: func(i int64) string { return curvefam.Desc(get(i)) },
	}
}

func families(tier string) []fw.Family {
	arcQ := func(i int64) oracle.Seg { return curvefam.Arc(i, rotsQuick) }
	fs := []fw.Family{
		segFamily("quad[-3..3]^4", curvefam.NQuad, curvefam.Quad, 1, oracle.Pt{}),
		segFamily("cube[-2..2]^6", curvefam.NCube, curvefam.Cube, 1, oracle.Pt{}),
		segFamily("arc(r in {.5,1,2,3}^2, rot {0,15,45,90,135}, flags, end [-2..2]^2)", curvefam.NArc, arcQ, 1, oracle.Pt{}),
		twoSubpaths([]oracle.Pt{{X: 5, Y: -4}, {X: -1, Y: 1}}),
		chains(2),
		chains(3),
		tinyChords(),
	}
	if tier == "thorough" {
		off := oracle.Pt{X: 1000.5, Y: -37.25}
		for _, f := range []float64{0.01, 100} {
			fs = append(fs,
				segFamily(fmt.Sprintf("quad[-3..3]^4 x%g + (1000.5,-37.25)", f), curvefam.NQuad, curvefam.Quad, f, off),
				segFamily(fmt.Sprintf("cube[-2..2]^6 x%g + (1000.5,-37.25)", f), curvefam.NCube, curvefam.Cube, f, off),
				segFamily(fmt.Sprintf("arc x%g + (1000.5,-37.25)", f), curvefam.NArc, arcQ, f, off),
			)
		}
		for _, rots := range [][]float64{{10, 60, 120, 150, 179}, {0.5, 89.5, 90.5, 30, 75}} {
			rots := rots
			fs = append(fs, segFamily(fmt.Sprintf("arc with rotations %v", rots), curvefam.NArc, func(i int64) oracle.Seg { return curvefam.Arc(i, rots) }, 1, oracle.Pt{}))
		}
		fs = append(fs, twoSubpaths([]oracle.Pt{{X: 0, Y: 0}, {X: 2, Y: 2}, {X: -7, Y: 3}, {X: 100, Y: 100}}))
	}
	return fs
}

// Prop is the C08 check.
func Prop() *fw.Property {
	return &fw.Property{
		ID:    "C08",
		Level: "exploration",
		Rule: "every single quadratic (control, end in [-3..3]^4), cubic ([-2..2]^6) and canonical arc (radii {.5,1,2,3}^2 x 5 rotations x 4 flag pairs x end in [-2..2]^2) from the origin, every ordered pair of a 12-curve menu as two open/closed subpaths, and every ordered pair and triple of that menu as consecutive segments of one subpath (open/closed, with and without a leading line); " +
			"Bounds compared with exact stationary points + 256 dense samples per curve (containment 1e-9*scale, tightness 1e-6*scale), FastBounds must contain the true box (1e-9*scale) and Bounds (1e-12*scale); the same for 4 images under integer translation / axis reflections, and equivariance 1e-9*scale; " +
			"non-trivial = at least one side of the box is decided by an interior stationary point of a curve",
		Assumptions: []string{
			"coordinates restricted to the stated lattices (thorough: also scaled by 0.01 and 100 and translated by (1000.5,-37.25)); zero-length segments (all defining points equal) are not valid path segments and are skipped",
			"paths are built from raw data (NewPathFromData); arcs are canonical (rx>=ry>0, 0<=phi<pi, radii scaled up to span the chord) as the builder would store them",
			"equivariance is only compared when the absolute clauses hold for both the path and its image (otherwise the absolute violation is the report)",
		},
		Families: families,
	}
}
