// Package curvefam holds the finite single-segment and path menus shared by the curve
// properties C03, C07, C08 and C09 (index -> segment decoders, simplest case first).
package curvefam

import (
	"fmt"
	"math"

	"verif/internal/oracle"
)

type Pt = oracle.Pt

var v3 = oracle.SimplestFirst(3)
var v2 = oracle.SimplestFirst(2)

// NQuad: quadratics from the origin with (c, p1) in [-3..3]^4.
const NQuad = 7 * 7 * 7 * 7

func Quad(i int64) oracle.Seg {
	d := oracle.Digits(i, 7, 7, 7, 7)
	return oracle.MkQuad(Pt{}, Pt{X: v3[d[0]], Y: v3[d[1]]}, Pt{X: v3[d[2]], Y: v3[d[3]]})
}

// NCube: cubics from the origin with (c1, c2, p1) in [-2..2]^6.
const NCube = 5 * 5 * 5 * 5 * 5 * 5

func Cube(i int64) oracle.Seg {
	d := oracle.Digits(i, 5, 5, 5, 5, 5, 5)
	return oracle.MkCube(Pt{}, Pt{X: v2[d[0]], Y: v2[d[1]]}, Pt{X: v2[d[2]], Y: v2[d[3]]}, Pt{X: v2[d[4]], Y: v2[d[5]]})
}

var arcR = []float64{1, 2, 0.5, 3}

// NArc: arcs from the origin: rx, ry in {1,2,0.5,3}, 5 rotations, 4 flag pairs, end in [-2..2]^2 \ {0}.
const NArc = 4 * 4 * 5 * 4 * 24

// Arc decodes arc i with the given rotation menu (5 entries, degrees). The arc is canonical
// (rx >= ry, phi in [0,pi), radii scaled up to span the chord).
func Arc(i int64, rots []float64) oracle.Seg {
	d := oracle.Digits(i, 4, 4, 5, 4, 24)
	e := d[4] + 1 // skip (0,0), which is index 0 of the 5x5 simplest-first grid
	end := Pt{X: v2[e/5], Y: v2[e%5]}
	return oracle.MkArc(Pt{}, arcR[d[0]], arcR[d[1]], rots[d[2]], d[3]&1 != 0, d[3]&2 != 0, end)
}

// ZeroLength reports a segment all of whose defining points coincide (not a valid path segment).
func ZeroLength(s oracle.Seg) bool {
	switch s.Kind {
	case oracle.CmdQuad:
		return s.P0 == s.C1 && s.P0 == s.P1
	case oracle.CmdCube:
		return s.P0 == s.C1 && s.P0 == s.C2 && s.P0 == s.P1
	}
	return s.P0 == s.P1
}

func collinear(ps ...Pt) bool {
	// all points on one line through ps[0] and the first point different from it
	var dir Pt
	for _, p := range ps[1:] {
		if p != ps[0] {
			dir = p.Sub(ps[0])
			break
		}
	}
	for _, p := range ps[1:] {
		if dir.Cross(p.Sub(ps[0])) != 0 {
			return false
		}
	}
	return true
}

// Class names the shape class of a lattice segment (used for outcome tallies).
func Class(s oracle.Seg) string {
	switch s.Kind {
	case oracle.CmdQuad:
		switch {
		case collinear(s.P0, s.C1, s.P1):
			return "quad-collinear"
		case s.P0 == s.P1:
			return "quad-closed"
		}
		return "quad-generic"
	case oracle.CmdCube:
		switch {
		case collinear(s.P0, s.C1, s.C2, s.P1):
			return "cube-collinear"
		case s.P0 == s.P1:
			return "cube-closed"
		case HasCusp(s):
			return "cube-cusp"
		case s.P0 == s.C1 || s.C2 == s.P1:
			return "cube-coincident-control"
		}
		// control polygon crosses itself -> loop / cusp candidates
		if oracle.SegsProperlyCross(s.P0, s.C1, s.C2, s.P1, 0) {
			return "cube-crossing-polygon"
		}
		a := oracle.Orient(s.P0, s.C1, s.C2)
		b := oracle.Orient(s.C1, s.C2, s.P1)
		if a*b < 0 {
			return "cube-inflection"
		}
		return "cube-generic"
	case oracle.CmdArc:
		c := "arc"
		if s.Rx == s.Ry {
			c += "-circle"
		} else {
			c += "-ellipse"
		}
		if s.Large {
			c += "-large"
		} else {
			c += "-small"
		}
		return c
	}
	return "line"
}

// MapSeg maps a segment by an axis isometry with uniform scaling. A half ellipse (radii that
// exactly span the chord, which is what ArcTo stores when given too small radii) stays one: its
// radii are made to span the new chord exactly, as ArcTo would do at the new position.
func MapSeg(m oracle.Iso, s oracle.Seg) oracle.Seg {
	o := m.Seg(s)
	if o.Kind == oracle.CmdArc {
		if _, _, _, _, _, st := oracle.ArcGeom(s); st == oracle.ArcHalf {
			k := math.Sqrt(oracle.ArcLambda(o.P0, o.Rx, o.Ry, o.Phi, o.P1))
			o.Rx, o.Ry = o.Rx*k, o.Ry*k
		}
	}
	return o
}

// Map maps whole subpaths with MapSeg.
func Map(m oracle.Iso, sps []oracle.Subpath) []oracle.Subpath {
	out := make([]oracle.Subpath, len(sps))
	for i, sp := range sps {
		out[i] = oracle.Subpath{Start: m.Pt(sp.Start), Closed: sp.Closed}
		for _, sg := range sp.Segs {
			out[i].Segs = append(out[i].Segs, MapSeg(m, sg))
		}
	}
	return out
}

// Scale returns the segment scaled by f about the origin and then translated by off.
func Scale(s oracle.Seg, f float64, off Pt) oracle.Seg {
	return MapSeg(oracle.Iso{Sx: f, Sy: f, Tx: off.X, Ty: off.Y}, s)
}

// One wraps a segment into a one-subpath open path.
func One(s oracle.Seg) []oracle.Subpath { return []oracle.Subpath{oracle.Chain(false, s)} }

// Menu12 is the 12-curve menu (relative to a start point p): every segment type, arcs with all
// flag pairs, a cusp, a loop, an inflection.
func Menu12(p Pt) []oracle.Seg {
	at := func(x, y float64) Pt { return Pt{X: p.X + x, Y: p.Y + y} }
	return []oracle.Seg{
		oracle.MkLine(p, at(3, 1)),
		oracle.MkQuad(p, at(1, 2), at(3, 0)),
		oracle.MkQuad(p, at(3, 0), at(3, 3)),
		oracle.MkCube(p, at(0, 2), at(3, 2), at(3, 0)),
		oracle.MkCube(p, at(1, 2), at(2, -2), at(3, 0)),  // inflection
		oracle.MkCube(p, at(3, 2), at(0, 2), at(3, 0)),   // cusp
		oracle.MkCube(p, at(4, 3), at(-1, 3), at(3, 0)),  // loop
		oracle.MkArc(p, 2, 2, 0, false, true, at(2, 2)),  // quarter circle
		oracle.MkArc(p, 2, 1, 0, false, false, at(2, 1)), // ellipse, small, cw
		oracle.MkArc(p, 2, 1, 30, true, true, at(1, 2)),  // rotated, large, ccw
		oracle.MkArc(p, 3, 1, 120, true, false, at(-1, 1)),
		oracle.MkArc(p, 1, 1, 0, false, true, at(4, 0)), // radii scaled up: half circle
	}
}

var Menu12Names = []string{"line", "quad", "quad-corner", "cube-arch", "cube-inflection", "cube-cusp", "cube-loop", "arc-quarter", "arc-ellipse-cw", "arc-rot30-large", "arc-rot120-large-cw", "arc-scaled-half"}

// Desc renders subpaths for replays.
func Desc(sps []oracle.Subpath) string { return oracle.Fmt(oracle.PathData(sps)) }

// DescF is Desc with a suffix.
func DescF(sps []oracle.Subpath, format string, a ...any) string {
	return Desc(sps) + " " + fmt.Sprintf(format, a...)
}

// ArcChordEqualsRx is the input-only trigger of one root cause found on the pinned tree: a
// non-rotated arc whose chord is horizontal and exactly as long as rx (canvas' ellipseToCenter
// mistakes it for a half ellipse, whose chord would be 2*rx). Violations on such inputs get
// their own class so that they do not hide behind, or impersonate, other root causes.
func ArcChordEqualsRx(sps []oracle.Subpath) bool {
	for _, sp := range sps {
		for _, s := range sp.Segs {
			if s.Kind == oracle.CmdArc && s.Phi <= 1e-9 && abs(s.P0.Y-s.P1.Y) <= 1e-9 {
				if d := abs(abs(s.P1.X-s.P0.X) - s.Rx); d <= 1e-9 || d <= 1e-9*s.Rx {
					return true
				}
			}
		}
	}
	return false
}

func abs(v float64) float64 {
	if v < 0 {
		return -v
	}
	return v
}

// ArcShortcutClass is the violation class used for inputs with ArcChordEqualsRx.
const ArcShortcutClass = "arc-chord-equals-rx-treated-as-half-ellipse"

// HasCusp reports whether a cubic has an interior parameter with B'(t) = 0 (a cusp): a common
// root of x'(t) and y'(t) in (0,1), decided with a relative tolerance on the input only.
func HasCusp(s oracle.Seg) bool {
	if s.Kind != oracle.CmdCube {
		return false
	}
	co := func(p0, c1, c2, p1 float64) (a, b, c float64) {
		return -p0 + 3*c1 - 3*c2 + p1, 2 * (p0 - 2*c1 + c2), c1 - p0
	}
	ax, bx, cx := co(s.P0.X, s.C1.X, s.C2.X, s.P1.X)
	ay, by, cy := co(s.P0.Y, s.C1.Y, s.C2.Y, s.P1.Y)
	m := 0.0
	for _, v := range []float64{ax, bx, cx, ay, by, cy} {
		m = math.Max(m, math.Abs(v))
	}
	if m == 0 {
		return false
	}
	for i := 1; i < 4096; i++ {
		t := float64(i) / 4096
		dx, dy := (ax*t+bx)*t+cx, (ay*t+by)*t+cy
		if math.Hypot(dx, dy) <= 1e-3*m {
			// refine: Newton on |B'|^2 is overkill; a local scan is enough for lattice inputs
			best := math.Inf(1)
			for k := -2048; k <= 2048; k++ {
				u := t + float64(k)/(4096*2048)
				ex, ey := (ax*u+bx)*u+cx, (ay*u+by)*u+cy
				best = math.Min(best, math.Hypot(ex, ey))
			}
			if best <= 1e-6*m {
				return true
			}
		}
	}
	return false
}
