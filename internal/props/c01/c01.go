// Package c01: Boolean path operations compute the set algebra of the filled regions.
package c01

import (
	"fmt"
	"math"
	"sort"

	"verif/internal/props/c02"

	"github.com/tdewolff/canvas"

	"verif/internal/cv"
	"verif/internal/fw"
	"verif/internal/oracle"
	"verif/internal/svgpath"
)

var opNames = []string{"And", "Or", "Xor", "Not", "DivideBy"}

func apply(op int, p, q *canvas.Path) *canvas.Path {
	switch op {
	case 0:
		return p.And(q)
	case 1:
		return p.Or(q)
	case 2:
		return p.Xor(q)
	case 3:
		return p.Not(q)
	}
	return p.DivideBy(q)
}

func applyPaths(op int, p, q canvas.Paths) *canvas.Path {
	switch op {
	case 0:
		return p.And(q)
	case 1:
		return p.Or(q)
	case 2:
		return p.Xor(q)
	case 3:
		return p.Not(q)
	}
	return p.DivideBy(q)
}

func expect(op int, a, b bool) bool {
	switch op {
	case 0:
		return a && b
	case 1:
		return a || b
	case 2:
		return a != b
	case 3:
		return a && !b
	}
	return a
}

// checkPair runs all five operations on (pd,qd) and compares the filled regions at probe
// points that are farther than delta from both input boundaries. curveN > 1 for curved inputs.
func checkPair(r *fw.R, pd, qd []float64, delta, eta float64, curveN int, viaPaths bool) {
	mode := 0
	if viaPaths {
		mode = 1
	}
	checkPairMode(r, pd, qd, delta, eta, curveN, mode)
}

// entry points: 0 = Path.op(Path); 1 = Paths of single contours (Split) on both sides;
// 2 = Paths{p}.op(Paths{q}) with the whole multi-contour paths as single elements;
// 3 = Paths{p}.op(q.Split()); 4 = p.Split().op(Paths{q})
// 5, 6 = lists that hold an empty path as well (what an earlier And of disjoint shapes returns), first or last
var entryNames = []string{"Path.op(Path)", "p.Split().op(q.Split())", "Paths{p}.op(Paths{q})", "Paths{p}.op(q.Split())", "p.Split().op(Paths{q})",
	"Paths{empty, p}.op(Paths{empty, q})", "Paths{p, empty}.op(Paths{q, empty})"}

func checkPairMode(r *fw.R, pd, qd []float64, delta, eta float64, curveN int, mode int) {
	P := oracle.DenseData(pd, curveN)
	Q := oracle.DenseData(qd, curveN)
	both := append(append([]oracle.Polyline{}, P...), Q...)
	lo, hi, _ := oracle.BBox(both)
	var samples []oracle.Pt
	if curveN == 1 {
		samples = oracle.ArrangementSamples(both, eta)
	}
	step := math.Max(hi.X-lo.X, hi.Y-lo.Y) / 5.3
	if step <= 0 {
		step = 1
	}
	samples = append(samples, oracle.GridSamples(lo, hi, step/2, step)...)
	type probe struct {
		pt   oracle.Pt
		a, b bool
	}
	probes := make([]probe, 0, len(samples))
	nIn, nOut := 0, 0
	for _, s := range samples {
		if oracle.Dist(both, s, true) <= delta {
			continue
		}
		a := oracle.Winding(P, s) != 0
		b := oracle.Winding(Q, s) != 0
		probes = append(probes, probe{s, a, b})
		if a || b {
			nIn++
		} else {
			nOut++
		}
	}
	areaP, areaQ := math.Abs(oracle.Area(P)), math.Abs(oracle.Area(Q))
	plo, phi, _ := oracle.BBox(P)
	qlo, qhi, _ := oracle.BBox(Q)
	overlap := plo.X <= qhi.X && qlo.X <= phi.X && plo.Y <= qhi.Y && qlo.Y <= phi.Y
	if overlap && areaP > 0 && areaQ > 0 && nIn > 0 && nOut > 0 {
		r.NontrivialIdx()
	}
	r.Count("probes", int64(len(probes)))
	r.Count("probes_skipped_near_boundary", int64(len(samples)-len(probes)))
	for op := 0; op < 5; op++ {
		var res *canvas.Path
		switch mode {
		case 1:
			res = applyPaths(op, cv.Path(pd).Split(), cv.Path(qd).Split())
		case 2:
			res = applyPaths(op, canvas.Paths{cv.Path(pd)}, canvas.Paths{cv.Path(qd)})
		case 3:
			res = applyPaths(op, canvas.Paths{cv.Path(pd)}, cv.Path(qd).Split())
		case 4:
			res = applyPaths(op, cv.Path(pd).Split(), canvas.Paths{cv.Path(qd)})
		case 5:
			res = applyPaths(op, canvas.Paths{&canvas.Path{}, cv.Path(pd)}, canvas.Paths{&canvas.Path{}, cv.Path(qd)})
		case 6:
			res = applyPaths(op, canvas.Paths{cv.Path(pd), &canvas.Path{}}, canvas.Paths{cv.Path(qd), &canvas.Path{}})
		default:
			res = apply(op, cv.Path(pd), cv.Path(qd))
		}
		sps, err := oracle.Decode(res.Data())
		if err != nil {
			r.Violate("malformed-result-"+opNames[op], err.Error())
			continue
		}
		R := oracle.Dense(sps, curveN)
		bad := 0
		noncanon := false
		var first string
		for _, pr := range probes {
			w := oracle.Winding(R, pr.pt)
			if w != 0 && w != 1 {
				noncanon = true
			}
			want := expect(op, pr.a, pr.b)
			if (w != 0) != want {
				if bad == 0 {
					first = fmt.Sprintf("point (%.6g,%.6g): inP=%v inQ=%v expected filled=%v, result winding=%d; result=%s", pr.pt.X, pr.pt.Y, pr.a, pr.b, want, w, oracle.Fmt(res.Data()))
				}
				bad++
			}
		}
		if bad > 0 {
			r.Violate("region-"+opNames[op], fmt.Sprintf("%d of %d probes wrong; %s", bad, len(probes), first))
		}
		switch {
		case noncanon:
			r.Outcome(opNames[op] + ":winding-not-in-0-1")
		case len(sps) == 0:
			r.Outcome(opNames[op] + ":empty")
		case len(sps) == 1:
			r.Outcome(opNames[op] + ":one-contour")
		default:
			r.Outcome(opNames[op] + ":multi-contour")
		}
	}
}

func withEps(eps float64) (func(), func()) {
	old := canvas.BentleyOttmannEpsilon
	return func() { canvas.BentleyOttmannEpsilon = eps }, func() { canvas.BentleyOttmannEpsilon = old }
}

func scale(c []oracle.Pt, f float64, off oracle.Pt) []oracle.Pt {
	o := make([]oracle.Pt, len(c))
	for i, p := range c {
		o[i] = oracle.Pt{X: p.X*f + off.X, Y: p.Y*f + off.Y}
	}
	return o
}

// pairFamily enumerates all ordered pairs (A[i], B[j]).
func pairFamily(name string, A, B [][][]oracle.Pt, f float64, off oracle.Pt, eps, delta float64, viaPaths bool) fw.Family {
	data := func(i int64) ([]float64, []float64) {
		ai, bi := i/int64(len(B)), i%int64(len(B))
		var pa, pb [][]oracle.Pt
		for _, c := range A[ai] {
			pa = append(pa, scale(c, f, off))
		}
		for _, c := range B[bi] {
			pb = append(pb, scale(c, f, off))
		}
		return oracle.ClosedData(pa...), oracle.ClosedData(pb...)
	}
	set, unset := withEps(eps)
	return fw.Family{
		Name: name, N: int64(len(A)) * int64(len(B)),
		Setup: set, Teardown: unset,
		Check: func(i int64, r *fw.R) {
			pd, qd := data(i)
			checkPair(r, pd, qd, delta, 1e-3*f, 1, viaPaths)
		},
		Desc: func(i int64) string {
			pd, qd := data(i)
			return fmt.Sprintf("P=%s Q=%s eps=%g", oracle.Fmt(pd), oracle.Fmt(qd), eps)
		},
	}
}

// sharedEdgeFamily: P = two triangles on one common edge e (the edge is covered twice by P),
// Q = a triangle on the same edge (third coincident segment, from the other operand) plus a
// further triangle T that may cross the bundle and split it at a point that is not representable.
// edges: unordered lattice point pairs; apexes: every lattice point not on the line of e.
func sharedEdgeFamily(name string, L []oracle.Pt, T [][]oracle.Pt, eps, delta float64) fw.Family {
	type edge struct {
		u, v oracle.Pt
		off  []oracle.Pt
	}
	var edges []edge
	var cum []int64
	var n int64
	for i := range L {
		for j := i + 1; j < len(L); j++ {
			e := edge{u: L[i], v: L[j]}
			for _, a := range L {
				if oracle.Orient(e.u, e.v, a) != 0 {
					e.off = append(e.off, a)
				}
			}
			k := int64(len(e.off))
			edges = append(edges, e)
			cum = append(cum, n)
			n += k * (k - 1) / 2 * k * int64(len(T))
		}
	}
	data := func(i int64) ([]float64, []float64) {
		ei := sort.Search(len(cum), func(k int) bool { return cum[k] > i }) - 1
		e := edges[ei]
		i -= cum[ei]
		k := int64(len(e.off))
		t := T[i%int64(len(T))]
		i /= int64(len(T))
		b := e.off[i%k]
		i /= k
		// i indexes the unordered apex pair
		var a1, a2 oracle.Pt
		for x := int64(0); x < k; x++ {
			if i < k-1-x {
				a1, a2 = e.off[x], e.off[x+1+i]
				break
			}
			i -= k - 1 - x
		}
		return oracle.ClosedData([]oracle.Pt{e.u, e.v, a1}, []oracle.Pt{e.u, e.v, a2}), oracle.ClosedData([]oracle.Pt{e.u, e.v, b}, t)
	}
	set, unset := withEps(eps)
	return fw.Family{
		Name: name, N: n,
		Setup: set, Teardown: unset,
		Check: func(i int64, r *fw.R) {
			pd, qd := data(i)
			checkPair(r, pd, qd, delta, 1e-3, 1, false)
		},
		Desc: func(i int64) string {
			pd, qd := data(i)
			return fmt.Sprintf("P=%s Q=%s eps=%g", oracle.Fmt(pd), oracle.Fmt(qd), eps)
		},
	}
}

// hardCases: operand pairs of one to three lattice triangles each on which the unchanged
// library panicked or filled wrongly; they were found by a random search over such pairs (a
// discovery aid: the search itself decides nothing) and are kept as a fixed menu that is
// enumerated completely: every pair x the 8 symmetries of the square x both operand orders x the
// 5 operations.
var hardCases = [][2]string{
	{"M1 1L3 0L2 0z", "M2 0L1 3L0 2zM2 2L0 3L1 0z"},
	{"M2 0L1 2L1 1zM1 0L0 3L2 2zM2 0L2 2L0 2z", "M3 1L1 2L3 0zM1 1L3 0L1 2z"},
	{"M2 1L0 1L0 2zM0 1L2 2L1 2z", "M0 2L1 2L1 0zM2 1L0 2L2 2zM0 2L2 1L2 0z"},
	{"M1 4L0 4L4 3zM4 0L0 2L2 0z", "M3 0L4 1L3 2zM3 0L4 1L0 0z"},
	{"M4 1L3 0L2 2zM2 1L4 2L3 1z", "M0 4L4 2L2 0zM4 0L4 2L2 4z"},
	{"M1 0L3 2L1 1zM3 2L1 3L2 0zM1 3L2 1L3 1z", "M2 1L3 3L1 2zM2 1L0 0L0 2zM1 0L1 1L2 2z"},
	{"M4 1L0 0L0 3zM4 0L2 4L3 3z", "M3 1L2 4L4 2zM4 0L0 1L1 0zM4 4L0 0L1 3z"},
	{"M2 2L1 0L2 0zM1 2L2 1L2 0z", "M1 0L0 2L2 2zM2 2L0 1L1 0zM2 0L1 1L1 2z"},
	{"M0 1L1 0L1 2zM1 0L2 1L1 1zM1 1L2 1L0 0z", "M1 2L0 2L1 0zM2 0L0 2L1 0zM1 2L2 1L1 0z"},
	{"M1 1L2 0L0 0zM1 2L0 1L1 0z", "M0 2L0 0L1 0zM2 1L0 0L2 0zM1 0L0 0L0 2z"},
	// (wave 13, reported by the agent that seeded C01-8: contours of 3 to 6 vertices on the 3x3 lattice)
	{"M0 1L2 1L1 2zM0 1L1 2L1 0zM2 1L0 2L1 1z", "M2 2L0 0L0 2L0 1L1 2zM2 2L1 0L2 2L0 1L1 0zM2 0L1 1L1 0L0 0L0 1z"},
}

func hardCasesFamily() fw.Family {
	sym := func(k int, p oracle.Pt) oracle.Pt {
		// the 8 symmetries of the square [0,4]^2
		x, y := p.X, p.Y
		if k&4 != 0 {
			x, y = y, x
		}
		if k&1 != 0 {
			x = 4 - x
		}
		if k&2 != 0 {
			y = 4 - y
		}
		return oracle.Pt{X: x, Y: y}
	}
	data := func(i int64) ([]float64, []float64) {
		g := oracle.Digits(i, len(hardCases), 8, 2)
		conv := func(d string) []float64 {
			sps, err := svgpath.Parse(d)
			if err != nil {
				panic(err)
			}
			var cs [][]oracle.Pt
			for _, sp := range sps {
				c := []oracle.Pt{sym(g[1], sp.Start)}
				for _, sg := range sp.Segs {
					if sg.Kind == oracle.CmdLine {
						c = append(c, sym(g[1], sg.P1))
					}
				}
				cs = append(cs, c)
			}
			return oracle.ClosedData(cs...)
		}
		pd, qd := conv(hardCases[g[0]][0]), conv(hardCases[g[0]][1])
		if g[2] == 1 {
			pd, qd = qd, pd
		}
		return pd, qd
	}
	set, unset := withEps(1e-8)
	return fw.Family{Name: "hard cases: operand pairs of 1-3 lattice triangles x 8 symmetries x both operand orders", N: int64(len(hardCases)) * 16,
		Setup: set, Teardown: unset,
		Check: func(i int64, r *fw.R) {
			pd, qd := data(i)
			checkPair(r, pd, qd, 1e-6, 1e-3, 1, false)
		},
		Desc: func(i int64) string {
			pd, qd := data(i)
			return fmt.Sprintf("P=%s Q=%s eps=1e-08", oracle.Fmt(pd), oracle.Fmt(qd))
		}}
}

// staggeredFamily: two triangles whose bases lie on one line and overlap only partially, each
// sticking out beyond the other (a < c < b < d), on lines y = const (and, transposed, x = const)
// whose coordinate is not a power of two, so that interpolating along the line need not
// return the coordinate itself; apexes on either side, both orientations of Q.
func staggeredFamily(ys []float64) fw.Family {
	var xs [][4]float64
	for a := 0; a < 8; a++ {
		for c := a + 1; c < 8; c++ {
			for b := c + 1; b < 8; b++ {
				for d := b + 1; d < 8; d++ {
					xs = append(xs, [4]float64{float64(a), float64(b), float64(c), float64(d)})
				}
			}
		}
	}
	apx := []float64{1, 4, 6}
	apy := []float64{2, 3, -2}
	rad := []int{len(xs), len(ys), 9, 9, 2, 2}
	data := func(i int64) ([]float64, []float64) {
		g := oracle.Digits(i, rad...)
		x, y := xs[g[0]], ys[g[1]]
		tr := func(p oracle.Pt) oracle.Pt {
			if g[5] == 1 {
				return oracle.Pt{X: p.Y, Y: p.X}
			}
			return p
		}
		P := []oracle.Pt{tr(oracle.Pt{X: x[0], Y: y}), tr(oracle.Pt{X: x[1], Y: y}), tr(oracle.Pt{X: apx[g[2]%3], Y: y + apy[g[2]/3]})}
		Q := []oracle.Pt{tr(oracle.Pt{X: x[2], Y: y}), tr(oracle.Pt{X: x[3], Y: y}), tr(oracle.Pt{X: apx[g[3]%3], Y: y + apy[g[3]/3]})}
		if g[4] == 1 {
			Q[1], Q[2] = Q[2], Q[1]
		}
		return oracle.ClosedData(P), oracle.ClosedData(Q)
	}
	set, unset := withEps(1e-8)
	return fw.Family{Name: fmt.Sprintf("triangles with partially overlapping collinear bases (a<c<b<d in 0..7) on the lines y (and x) in %v x 9x9 apexes x 2 orientations", ys), N: oracle.Prod(rad...),
		Setup: set, Teardown: unset,
		Check: func(i int64, r *fw.R) {
			pd, qd := data(i)
			checkPair(r, pd, qd, 1e-6, 1e-3, 1, false)
		},
		Desc: func(i int64) string {
			pd, qd := data(i)
			return fmt.Sprintf("P=%s Q=%s eps=1e-08", oracle.Fmt(pd), oracle.Fmt(qd))
		}}
}

func single(cs [][]oracle.Pt) [][][]oracle.Pt {
	out := make([][][]oracle.Pt, len(cs))
	for i, c := range cs {
		out[i] = [][]oracle.Pt{c}
	}
	return out
}

func rect(x0, y0, x1, y1 float64, ccw bool) []oracle.Pt {
	if ccw {
		return []oracle.Pt{{X: x0, Y: y0}, {X: x1, Y: y0}, {X: x1, Y: y1}, {X: x0, Y: y1}}
	}
	return []oracle.Pt{{X: x0, Y: y0}, {X: x0, Y: y1}, {X: x1, Y: y1}, {X: x1, Y: y0}}
}

// rectilinear returns (holed shapes, rectangles) on the k-lattice: every outer rectangle with
// every rectangle strictly inside it as a second contour, in the given orientation combos.
// rectC: a rectangle with float corners, counter clockwise or clockwise.
func rectC(x0, y0, x1, y1 float64, ccw bool) []oracle.Pt {
	c := []oracle.Pt{{X: x0, Y: y0}, {X: x1, Y: y0}, {X: x1, Y: y1}, {X: x0, Y: y1}}
	if !ccw {
		c[1], c[3] = c[3], c[1]
	}
	return c
}

func rectilinear(k int, combos [][2]bool) (holed [][][]oracle.Pt, rects [][][]oracle.Pt) {
	type rc struct{ x0, y0, x1, y1 int }
	var all []rc
	for x0 := 0; x0 < k; x0++ {
		for x1 := x0 + 1; x1 < k; x1++ {
			for y0 := 0; y0 < k; y0++ {
				for y1 := y0 + 1; y1 < k; y1++ {
					all = append(all, rc{x0, y0, x1, y1})
				}
			}
		}
	}
	for _, a := range all {
		rects = append(rects, [][]oracle.Pt{rect(float64(a.x0), float64(a.y0), float64(a.x1), float64(a.y1), true)})
		for _, b := range all {
			if a.x0 < b.x0 && b.x1 < a.x1 && a.y0 < b.y0 && b.y1 < a.y1 {
				for _, c := range combos {
					holed = append(holed, [][]oracle.Pt{
						rect(float64(a.x0), float64(a.y0), float64(a.x1), float64(a.y1), c[0]),
						rect(float64(b.x0), float64(b.y0), float64(b.x1), float64(b.y1), c[1])})
				}
			}
		}
	}
	return
}

// curved shapes (raw data): circles, ellipses (also rotated), rounded rectangles, a lens of two
// arcs, a quadratic and a cubic blob; at lattice offsets so that they touch and overlap.
func curvedFamily() fw.Family {
	sh := c02.CurvedShapes()
	n := int64(len(sh))
	return fw.Family{
		Name: "curved shapes (circles, ellipses, rounded rectangles, lens, Bezier blobs) x the same", N: n * n,
		Check: func(i int64, r *fw.R) {
			// the operands are flattened with canvas.Tolerance first: probes within 3*Tolerance of an input curve are undecidable
			checkPair(r, sh[i/n], sh[i%n], 3*canvas.Tolerance+1e-6, 1e-3, 256, false)
		},
		Desc: func(i int64) string { return fmt.Sprintf("P=%s Q=%s", oracle.Fmt(sh[i/n]), oracle.Fmt(sh[i%n])) },
	}
}

// entryFamily: two-contour operands mixing flat and curved contours (curve in the first, in the
// second, in both contours; a hole) through every entry point: Path.*, Paths of single contours,
// Paths whose elements hold several contours.
func entryFamily() fw.Family {
	all := c02.CurvedShapes()
	// circle r2 at (2,2), clockwise circle r1 at (2,2) (a hole), rotated ellipse at (3,2), rounded
	// rectangle around (4,3), cubic blob, flat rectangles (ccw, cw)
	pick := []int{0, 1, 8, 14, 17, 18, 19}
	var sh [][]float64
	for _, k := range pick {
		sh = append(sh, all[k])
	}
	var two [][]float64
	for a := range sh {
		for b := range sh {
			if a != b {
				two = append(two, append(append([]float64{}, sh[a]...), sh[b]...))
			}
		}
	}
	n := int64(len(two))
	modes := int64(len(entryNames))
	return fw.Family{
		Name: fmt.Sprintf("entry points: %d two-contour operands mixing flat and curved contours, P x Q x {Path.op, Paths of single contours, Paths with multi-contour elements on either side, Paths with an empty member first or last}", n), N: n * n * modes,
		Check: func(i int64, r *fw.R) {
			m := int(i % modes)
			k := i / modes
			r.Outcome("entry:" + entryNames[m])
			checkPairMode(r, two[k/n], two[k%n], 3*canvas.Tolerance+1e-6, 1e-3, 256, m)
		},
		Desc: func(i int64) string {
			k := i / modes
			return fmt.Sprintf("P=%s Q=%s via %s", oracle.Fmt(two[k/n]), oracle.Fmt(two[k%n]), entryNames[i%modes])
		},
	}
}

func families(tier string) []fw.Family {
	L3 := oracle.Lattice(3)
	tri3 := single(oracle.Contours(L3, 3))
	tri3r := single(oracle.ContoursModRotation(L3, 3))
	quad3r := single(oracle.ContoursModRotation(L3, 4))
	holedQ, rectsQ := rectilinear(5, [][2]bool{{true, false}})
	// zero-area contours (collinear vertex triples) of L4: spikes that start inside the partner
	var spikes4 [][][]oracle.Pt
	for _, c := range oracle.ContoursModRotation(oracle.Lattice(4), 3) {
		if oracle.Orient(c[0], c[1], c[2]) == 0 {
			spikes4 = append(spikes4, [][]oracle.Pt{c})
		}
	}
	tri4q := single(oracle.ContoursModRotation(oracle.Lattice(4), 3))
	// P = a square, Q = two separate rectangles inside it (Not/Xor give several sibling holes), and
	// P = the square with those two holes against bars crossing it
	var outerSq, twoIn, twoHoled [][][]oracle.Pt
	outerSq = [][][]oracle.Pt{{rect(0, 0, 6, 6, true)}}
	for _, sh := range c02.TwoHoles([][2]bool{{true, true}}) {
		twoIn = append(twoIn, sh[1:])
	}
	for i, sh := range c02.TwoHoles([][2]bool{{false, false}}) {
		if i%7 == 0 {
			twoHoled = append(twoHoled, sh)
		}
	}
	bars := [][][]oracle.Pt{{rect(-1, 2, 7, 3, true)}, {rect(3, -1, 4, 7, true)}, {rect(5, 3, 8, 4, true)}, {rect(7, 0, 9, 2, true)}}
	// almost vertical/horizontal edges: L3 quadrilaterals with one vertex moved by one ulp,
	// against partners with half-integer coordinates that cross those edges in their interior
	ulp := c02.UlpShapes(oracle.ContoursModRotation(L3, 4))
	partners := [][][]oracle.Pt{{rect(-1, 0.5, 1, 1.5, true)}, {rect(-1, 0.5, 3, 1.5, true)}, {rect(0.5, -1, 1.5, 3, true)}, {rect(0, 0.5, 2, 5.5, true)},
		{{{X: -1, Y: 0.5}, {X: 3, Y: 0.5}, {X: 1, Y: 2.5}}}, {rect(0.5, 0.5, 1.5, 1.5, false)}}
	// operands that lie apart: every shape with holes (and nestings of depth 3) moved 10 to the
	// right of the triangles it is combined with: the bounding-box shortcuts decide alone
	shift := func(shapes [][][]oracle.Pt, dx, dy float64) [][][]oracle.Pt {
		out := make([][][]oracle.Pt, len(shapes))
		for i, sh := range shapes {
			for _, c := range sh {
				d := make([]oracle.Pt, len(c))
				for k, q := range c {
					d[k] = oracle.Pt{X: q.X + dx, Y: q.Y + dy}
				}
				out[i] = append(out[i], d)
			}
		}
		return out
	}
	var apartShapes [][][]oracle.Pt
	apartShapes = append(apartShapes, holedQ...)
	apartShapes = append(apartShapes, c02.TwoHoles([][2]bool{{false, false}})[:40]...)
	apartShapes = append(apartShapes, c02.Nestings(3)...)
	apart := shift(apartShapes, 10, 0)
	// operands of several contours of which only some touch the other operand (the bounding-box
	// pre-filter sets those aside): two partially overlapping rectangles of either orientation, the
	// first one touching / clear of the partner
	var overlapPairs [][][]oracle.Pt
	for _, x0 := range []float64{1, 3, 6} {
		for _, dx := range [][2]float64{{1.5, 1.5}, {2, -1}, {-1, 2}} {
			for o := 0; o < 4; o++ {
				a := rectC(x0, 1, x0+3, 4, o&1 == 0)
				b := rectC(x0+dx[0], 1+dx[1], x0+dx[0]+3, 4+dx[1], o&2 == 0)
				overlapPairs = append(overlapPairs, [][]oracle.Pt{a, b}, [][]oracle.Pt{b, a})
			}
		}
	}
	loneP := [][][]oracle.Pt{{rectC(0, 0, 2, 2, true)}, {rectC(0, 0, 2, 2, false)}, {rectC(0, 0, 2, 2, true), rectC(12, 0, 13, 1, true)}, {{{X: 0, Y: 0}, {X: 2, Y: 0}, {X: 1, Y: 2.5}}}}
	fewTris := tri3r[:24]
	fs0 := hardCasesFamily()
	var fs []fw.Family
	stagY := []float64{3, 5, 6, 7}
	if tier == "thorough" {
		stagY = []float64{1, 2, 3, 4, 5, 6, 7, 9, 11, 13}
	}
	fs = append(fs, fs0, curvedFamily(), entryFamily(), staggeredFamily(stagY))
	fs = append(fs,
		pairFamily("4 small operands x two partially overlapping rectangles of either orientation, touching or clear of the partner", loneP, overlapPairs, 1, oracle.Pt{}, 1e-8, 1e-6, false),
		pairFamily("two partially overlapping rectangles of either orientation x 4 small operands", overlapPairs, loneP, 1, oracle.Pt{}, 1e-8, 1e-6, false),
	)
	fs = append(fs,
		pairFamily("tri(L3)/rot (first 24) x shapes with holes lying 10 to the right", fewTris, apart, 1, oracle.Pt{}, 1e-8, 1e-6, false),
		pairFamily("shapes with holes lying 10 to the right x tri(L3)/rot (first 24)", apart, fewTris, 1, oracle.Pt{}, 1e-8, 1e-6, false),
	)
	fs = append(fs,
		pairFamily("quad(L3)/rot with one vertex moved by one ulp x half-lattice partners", ulp, partners, 1, oracle.Pt{}, 1e-8, 1e-6, false),
		pairFamily("half-lattice partners x quad(L3)/rot with one vertex moved by one ulp", partners, ulp, 1, oracle.Pt{}, 1e-8, 1e-6, false),
	)
	fs = append(fs,
		pairFamily("square(L7) x two separate rectangles inside it", outerSq, twoIn, 1, oracle.Pt{}, 1e-8, 1e-6, false),
		pairFamily("square with two holes (L7, every 7th) x bars", twoHoled, bars, 1, oracle.Pt{}, 1e-8, 1e-6, false),
		pairFamily("tri(L4)/rot x zero-area spikes(L4)", tri4q, spikes4, 1, oracle.Pt{}, 1e-8, 1e-6, false),
		pairFamily("zero-area spikes(L4) x tri(L4)/rot", spikes4, tri4q, 1, oracle.Pt{}, 1e-8, 1e-6, false),
		sharedEdgeFamily("two triangles on a common edge x (triangle on that edge + tri(L3)/rot)", L3, oracle.ContoursModRotation(L3, 3), 1e-8, 1e-6),
		pairFamily("tri(L3)xtri(L3)", tri3, tri3, 1, oracle.Pt{}, 1e-8, 1e-6, false),
		pairFamily("rectilinear-holed(L5)xrect(L5)", holedQ, rectsQ, 1, oracle.Pt{}, 1e-8, 1e-6, false),
		pairFamily("rect(L5)xrectilinear-holed(L5)", rectsQ, holedQ, 1, oracle.Pt{}, 1e-8, 1e-6, false),
		pairFamily("quad(L3)/rot x tri(L3)/rot", quad3r, tri3r, 1, oracle.Pt{}, 1e-8, 1e-6, false),
		pairFamily("tri(L3)/rot x tri(L3)/rot, coarse grid eps=0.25 on x4 lattice", tri3r, tri3r, 4, oracle.Pt{}, 0.25, 0.5, false),
		pairFamily("tri(L3)/rot x tri(L3)/rot, translated by (-7,13), via Paths", tri3r, tri3r, 1, oracle.Pt{X: -7, Y: 13}, 1e-8, 1e-6, true),
	)
	if tier == "thorough" {
		L4 := oracle.Lattice(4)
		tri4 := single(oracle.ContoursModRotation(L4, 3))
		quad3 := single(oracle.Contours(L3, 4))
		holedT, rectsT := rectilinear(5, [][2]bool{{true, false}, {true, true}, {false, true}, {false, false}})
		fs = append(fs,
			pairFamily("tri(L4)/rot x tri(L4)/rot", tri4, tri4, 1, oracle.Pt{}, 1e-8, 1e-6, false),
			pairFamily("quad(L3) x quad(L3)/rot", quad3, quad3r, 1, oracle.Pt{}, 1e-8, 1e-6, false),
			pairFamily("rectilinear-holed(L5, 4 orientations) x rect(L5)", holedT, rectsT, 1, oracle.Pt{}, 1e-8, 1e-6, false),
			pairFamily("quad(L3)/rot x tri(L3)/rot, coarse grid eps=0.25 on x4 lattice", quad3r, tri3r, 4, oracle.Pt{}, 0.25, 0.5, false),
			pairFamily("tri(L4)/rot x tri(L3)/rot, coarse grid eps=1 on x8 lattice", tri4, tri3r, 8, oracle.Pt{}, 1, 2, false),
		)
	}
	return fs
}

// Prop is the C01 check.
func Prop() *fw.Property {
	return &fw.Property{
		ID:    "C01",
		Level: "exploration",
		Rule: "every ordered pair of closed lattice contours from the named families (all vertex tuples incl. degenerate, collinear, self-crossing; rectilinear shapes with holes) x {And,Or,Xor,Not,DivideBy}; " +
			"filled(result,NonZero) compared with the Boolean combination at probe points on both sides of every piece of the arrangement of the input edges plus an offset grid, skipping probes within delta of an input boundary; " +
			"non-trivial = bounding boxes overlap, both operands have non-zero area, and probes exist inside and outside",
		Assumptions: []string{
			"coordinates restricted to the stated integer lattices (scaled/translated); curved operands only from the 20-shape curved menu (pairs of single shapes, and 42 two-contour mixes of flat and curved contours through the five entry points Path.op, Paths of single contours, Paths with multi-contour elements on either or both sides), probes within 3*Tolerance of a curve undecided",
			"delta=1e-6 at snap grid 1e-8; delta=2*eps on the coarse-grid configurations",
			"commutativity, P op P and lattice-symmetry equivariance follow because the enumeration is closed under swapping operands and under the lattice symmetries and each case is compared with an absolute oracle",
		},
		Families: families,
	}
}
