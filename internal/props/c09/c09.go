// Package c09: Length is the true arc length within about one percent, SplitAt cuts at the
// requested arc lengths into consecutive pieces, Reverse traverses the same points backwards.
package c09

import (
	"fmt"
	"math"
	"regexp"
	"sort"
	"strconv"
	"strings"
	"sync"

	"verif/internal/cv"
	"verif/internal/fw"
	"verif/internal/oracle"
	"verif/internal/props/curvefam"
)

func viol(r *fw.R, sps []oracle.Subpath, class, detail string) {
	if curvefam.ArcChordEqualsRx(sps) {
		detail = "[" + class + "] " + detail
		class = curvefam.ArcShortcutClass
	}
	r.Count("violations:"+class, 1)
	r.Violate(class, detail)
}

// ---- path menu ---------------------------------------------------------------------------

type item struct {
	name  string
	sps   []oracle.Subpath
	L     float64   // true total length (dense summation)
	cands []float64 // split candidates, simplest first
	nsub  int64     // number of split sets of the tier
	segS0 []float64 // arc length at the start of every segment (path order)
	segS1 []float64
	curve []bool
	quad  []bool // quadratic Bezier: measured and cut in closed form (F95, F113)
}

func P(x, y float64) oracle.Pt { return oracle.Pt{X: x, Y: y} }

func menu(tier string) []*item {
	var out []*item
	add := func(name string, sps ...oracle.Subpath) { out = append(out, &item{name: name, sps: sps}) }
	o := P(0, 0)
	m := curvefam.Menu12(o)
	for i, s := range m {
		add(curvefam.Menu12Names[i], oracle.Chain(false, s))
	}
	// cubics with two inflection points inside (0,1) (serpentine), alone, reversed and after a line
	add("cube-serpentine", oracle.Chain(false, oracle.MkCube(o, P(5, 5), P(-1, 4), P(6, 3))))
	add("cube-serpentine-reversed", oracle.Chain(false, oracle.MkCube(P(6, 3), P(-1, 4), P(5, 5), o)))
	add("line+cube-serpentine", oracle.Chain(false, oracle.MkLine(P(-3, 0), o), oracle.MkCube(o, P(5, 5), P(-1, 4), P(6, 3))))
	add("cube-serpentine-flat", oracle.Chain(false, oracle.MkCube(o, P(4, 2), P(0, -2), P(4, 0.5))))
	// Beziers whose control points are collinear with the end points and lie beyond them: the curve
	// runs past an end point and comes back (axis-aligned, diagonal and oblique); the turning points
	// are exact cusps (the velocity vanishes there)
	add("quad-collinear-cusp-beyond-end", oracle.Chain(false, oracle.MkQuad(o, P(3, 0), P(2, 0))))
	add("quad-collinear-cusp-before-start", oracle.Chain(false, oracle.MkQuad(o, P(0, -1), P(0, 2))))
	add("quad-collinear-cusp-diagonal", oracle.Chain(false, oracle.MkQuad(o, P(3, 3), P(2, 2))))
	add("quad-collinear-cusp-oblique", oracle.Chain(false, oracle.MkQuad(o, P(6, 3), P(4, 2))))
	add("line+quad-collinear-cusp-beyond-end", oracle.Chain(false, oracle.MkLine(P(-2, 1), o), oracle.MkQuad(o, P(3, 0), P(2, 0))))
	add("cube-collinear-two-cusps-beyond-both", oracle.Chain(false, oracle.MkCube(o, P(-1, 0), P(4, 0), P(3, 0))))
	add("cube-collinear-two-cusps-oblique", oracle.Chain(false, oracle.MkCube(o, P(4, 2), P(-2, -1), P(2, 1))))
	// the same with both end tangents pointing forward: the first control point lies beyond the end
	// point, the second between the end points (the pen overshoots the end and comes back)
	add("cube-collinear-two-cusps-forward-tangents", oracle.Chain(false, oracle.MkCube(o, P(6, 0), P(1, 0), P(2, 0))))
	// almost a cusp: the speed falls to 2 % of its maximum in a hairpin turn (not collinear, no exact cusp)
	add("cube-near-cusp-hairpin", oracle.Chain(false, oracle.MkCube(o, P(30.4, 28.4), P(-6.8, -5.9), P(2.0, 4.7))))
	add("cube-collinear-two-cusps-forward-tangents-oblique", oracle.Chain(false, oracle.MkCube(o, P(6, 3), P(0.4, 0.2), P(2, 1))))
	// closed shapes
	add("triangle", oracle.Chain(true, oracle.MkLine(o, P(4, 0)), oracle.MkLine(P(4, 0), P(2, 3))))
	add("closed-quad-cube", oracle.Chain(true, oracle.MkQuad(o, P(2, 2), P(4, 0)), oracle.MkCube(P(4, 0), P(5, -2), P(1, -3), P(1, -1))))
	add("circle-as-two-arcs", oracle.Chain(true, oracle.MkArc(P(-1, 0), 1, 1, 0, false, true, P(1, 0)), oracle.MkArc(P(1, 0), 1, 1, 0, false, true, P(-1, 0.0))))
	add("closed-ellipse-arc+line", oracle.Chain(true, oracle.MkArc(o, 2, 1, 30, true, true, P(1, 2))))
	// several subpaths
	add("two-lines", oracle.Chain(false, oracle.MkLine(o, P(10, 0))), oracle.Chain(false, oracle.MkLine(P(20, 20), P(30, 20))))
	add("line-polyline", oracle.Chain(false, oracle.MkLine(o, P(3, 4))), oracle.Chain(false, oracle.MkLine(P(5, 5), P(5, 8)), oracle.MkLine(P(5, 8), P(9, 8))))
	add("triangle+line", oracle.Chain(true, oracle.MkLine(o, P(4, 0)), oracle.MkLine(P(4, 0), P(2, 3))), oracle.Chain(false, oracle.MkLine(P(6, 1), P(9, 5))))
	add("quad+arc", oracle.Chain(false, m[1]), oracle.Chain(false, curvefam.Menu12(P(5, -4))[9]))
	add("cube+closed-quad-cube", oracle.Chain(false, m[3]), oracle.Chain(true, oracle.MkQuad(P(6, 0), P(8, 2), P(10, 0)), oracle.MkCube(P(10, 0), P(11, -2), P(7, -3), P(7, -1))))
	add("three-subpaths", oracle.Chain(false, oracle.MkLine(o, P(2, 0))), oracle.Chain(false, m[2]), oracle.Chain(true, oracle.MkLine(P(6, 6), P(8, 6)), oracle.MkLine(P(8, 6), P(7, 8))))
	// open subpaths that begin exactly where the previous open subpath ended
	add("polyline | polyline from its end point", oracle.Chain(false, oracle.MkLine(o, P(10, 0)), oracle.MkLine(P(10, 0), P(10, 10))), oracle.Chain(false, oracle.MkLine(P(10, 10), P(0, 10)), oracle.MkLine(P(0, 10), P(2, 4))))
	add("quad | cube from its end point | line from its end point", oracle.Chain(false, m[1]), oracle.Chain(false, curvefam.Menu12(m[1].P1)[3]), oracle.Chain(false, oracle.MkLine(curvefam.Menu12(m[1].P1)[3].P1, P(1, -3))))
	add("triangle | line from its start point", oracle.Chain(true, oracle.MkLine(o, P(4, 0)), oracle.MkLine(P(4, 0), P(2, 3))), oracle.Chain(false, oracle.MkLine(o, P(-2, -3))))
	// all ordered two-segment chains
	closedVariants := 1
	if tier == "thorough" {
		closedVariants = 2
	}
	for c := 0; c < closedVariants; c++ {
		for a := 0; a < 12; a++ {
			for b := 0; b < 12; b++ {
				sa := m[a]
				sb := curvefam.Menu12(sa.P1)[b]
				add(fmt.Sprintf("%s+%s closed=%v", curvefam.Menu12Names[a], curvefam.Menu12Names[b], c == 1), oracle.Chain(c == 1, sa, sb))
			}
		}
	}
	if tier == "thorough" {
		// pairs of menu curves as two subpaths
		for a := 0; a < 12; a++ {
			for b := 0; b < 12; b++ {
				add(fmt.Sprintf("%s | %s (two subpaths)", curvefam.Menu12Names[a], curvefam.Menu12Names[b]), oracle.Chain(false, m[a]), oracle.Chain(false, curvefam.Menu12(P(5, -4))[b]))
			}
		}
	}
	maxSize := 2
	if tier == "thorough" {
		maxSize = 3
	}
	for _, it := range out {
		for _, sp := range it.sps {
			for _, s := range sp.Segs {
				l := oracle.SegLength(s)
				it.segS0 = append(it.segS0, it.L)
				it.L += l
				it.segS1 = append(it.segS1, it.L)
				it.curve = append(it.curve, s.IsCurve())
				it.quad = append(it.quad, s.Kind == oracle.CmdQuad)
			}
		}
		c := []float64{0, it.L / 4, it.L / 2, 3 * it.L / 4, it.L}
		for _, v := range it.segS1[:len(it.segS1)-1] {
			c = append(c, v, v-1e-3, v+1e-3)
		}
		for _, v := range c {
			dup := false
			for _, w := range it.cands {
				if math.Abs(v-w) < 1e-12 {
					dup = true
				}
			}
			if !dup {
				it.cands = append(it.cands, v)
			}
		}
		it.nsub = countSubsets(len(it.cands), maxSize)
	}
	return out
}

func binom(n, k int) int64 {
	if k < 0 || k > n {
		return 0
	}
	r := int64(1)
	for i := 0; i < k; i++ {
		r = r * int64(n-i) / int64(i+1)
	}
	return r
}

func countSubsets(n, maxSize int) int64 {
	t := int64(0)
	for k := 0; k <= maxSize; k++ {
		t += binom(n, k)
	}
	return t
}

// subset decodes index i into the i-th subset of {0..n-1} ordered by size, then lexicographically.
func subset(i int64, n int) []int {
	k := 0
	for i >= binom(n, k) {
		i -= binom(n, k)
		k++
	}
	var out []int
	x := 0
	for len(out) < k {
		c := binom(n-x-1, k-len(out)-1)
		if i < c {
			out = append(out, x)
		} else {
			i -= c
		}
		x++
	}
	return out
}

// ---- Length ------------------------------------------------------------------------------

func kinds(sps []oracle.Subpath) string {
	seen := map[string]bool{}
	var ks []string
	for _, sp := range sps {
		for _, s := range sp.Segs {
			k := "line"
			switch s.Kind {
			case oracle.CmdQuad:
				k = "quad"
			case oracle.CmdCube:
				k = "cube"
			case oracle.CmdArc:
				k = "arc"
			}
			if !seen[k] {
				seen[k] = true
				ks = append(ks, k)
			}
		}
	}
	sort.Strings(ks)
	out := ""
	for i, k := range ks {
		if i > 0 {
			out += "+"
		}
		out += k
	}
	return out
}

func checkLength(r *fw.R, it *item) {
	data := oracle.PathData(it.sps)
	got := cv.Path(data).Length()
	rel := math.Abs(got-it.L) / it.L
	r.Max("length_rel_error:"+kinds(it.sps), rel)
	if !(rel <= 0.01) { // (NaN must fail)
		viol(r, it.sps, "length-off-by-more-than-1-percent", fmt.Sprintf("Length()=%.9g, true arc length %.9g (%.3g %%)", got, it.L, 100*rel))
	}
	switch {
	case rel < 1e-12:
		r.Outcome("length:exact")
	case rel < 1e-6:
		r.Outcome("length:rel<1e-6")
	case rel < 1e-3:
		r.Outcome("length:rel<1e-3")
	default:
		r.Outcome("length:rel>=1e-3")
	}
}

// ---- Reverse -----------------------------------------------------------------------------

func dataEqual(a, b []float64, tol float64) bool {
	if len(a) != len(b) {
		return false
	}
	for i := range a {
		if !(math.Abs(a[i]-b[i]) <= tol) {
			return false
		}
	}
	return true
}

// nonZero drops zero-length straight segments (a Close that returns to a start point already
// reached is represented either way).
func nonZero(segs []oracle.Seg) []oracle.Seg {
	var out []oracle.Seg
	for _, s := range segs {
		if !s.IsCurve() && s.P0 == s.P1 {
			continue
		}
		out = append(out, s)
	}
	return out
}

func checkReverse(r *fw.R, it *item) {
	sps := it.sps
	data := oracle.PathData(sps)
	scale := math.Max(oracle.MaxAbsCoord(sps), 1e-300)
	p := cv.Path(data)
	q := p.Reverse()
	qd := q.Data()
	rev, err := oracle.Decode(qd)
	if err != nil {
		viol(r, sps, "reverse-malformed-output", err.Error())
		return
	}
	// involution
	if back := q.Reverse().Data(); !dataEqual(back, data, 1e-12*scale) {
		viol(r, sps, "reverse-not-involution", fmt.Sprintf("Reverse().Reverse() = %s", oracle.Fmt(back)))
	}
	// closedness and subpath structure (subpaths come out in reverse order)
	if len(rev) != len(sps) {
		viol(r, sps, "reverse-structure", fmt.Sprintf("%d subpaths in, %d out: %s", len(sps), len(rev), oracle.Fmt(qd)))
		return
	}
	tol := 1e-9 * scale
	for i := range sps {
		in, o := sps[len(sps)-1-i], rev[i]
		if in.Closed != o.Closed {
			viol(r, sps, "reverse-closedness", fmt.Sprintf("subpath %d closed=%v, its reversal closed=%v: %s", len(sps)-1-i, in.Closed, o.Closed, oracle.Fmt(qd)))
			return
		}
		in.Segs, o.Segs = nonZero(in.Segs), nonZero(o.Segs)
		if len(in.Segs) != len(o.Segs) {
			viol(r, sps, "reverse-structure", fmt.Sprintf("subpath %d has %d segments, its reversal %d: %s", len(sps)-1-i, len(in.Segs), len(o.Segs), oracle.Fmt(qd)))
			return
		}
		// same points, opposite direction: segment k of the reversal is segment m-1-k backwards
		// (a closed subpath keeps its start point: its closing line comes first, reversed)
		mseg := len(in.Segs)
		w := 0.0
		for k := 0; k < mseg; k++ {
			a, b := o.Segs[k], in.Segs[mseg-1-k]
			for j := 0; j <= 16; j++ {
				f := float64(j) / 16
				w = math.Max(w, oracle.SegAt(a, f).Dist(oracle.SegAt(b, 1-f)))
			}
		}
		r.Max("reverse_pointwise_diff/scale", w/scale)
		if !(w <= tol) {
			viol(r, sps, "reverse-different-points", fmt.Sprintf("reversal of subpath %d differs pointwise by %.3g: %s", len(sps)-1-i, w, oracle.Fmt(qd)))
			return
		}
	}
	// length (true and as reported), bounds
	lq := oracle.PathLength(rev)
	if !(math.Abs(lq-it.L) <= 1e-9*it.L) {
		viol(r, sps, "reverse-length", fmt.Sprintf("true length %.12g, of the reversal %.12g", it.L, lq))
	}
	if a, b := p.Length(), q.Length(); !(math.Abs(a-b) <= 1e-6*it.L) {
		viol(r, sps, "reverse-length", fmt.Sprintf("Length()=%.12g, Reverse().Length()=%.12g", a, b))
	} else {
		r.Max("reverse_reported_length_diff/L", math.Abs(a-b)/it.L)
	}
	lo1, hi1, _ := oracle.ExactBBoxPath(sps)
	lo2, hi2, _ := oracle.ExactBBoxPath(rev)
	if !(lo1.Dist(lo2) <= tol && hi1.Dist(hi2) <= tol) {
		viol(r, sps, "reverse-bounds", fmt.Sprintf("box %v-%v, of the reversal %v-%v", lo1, hi1, lo2, hi2))
	}
	// winding number negated at every decidable sample point (open subpaths implicitly closed)
	const n = 256
	A, B := oracle.DenseR(sps, n), oracle.DenseR(rev, n)
	lo, hi, _ := oracle.BBox(A)
	step := math.Max(hi.X-lo.X, hi.Y-lo.Y) / 9.3
	delta := 1e-3*scale + 1e-4*scale
	dec, nonzero := 0, 0
	for _, s := range oracle.GridSamples(lo, hi, step/2, step) {
		if oracle.Dist(A, s, true) <= delta {
			r.Count("winding_probes_skipped_near_curve", 1)
			continue
		}
		dec++
		wa, wb := oracle.Winding(A, s), oracle.Winding(B, s)
		if wa != 0 {
			nonzero++
		}
		if wa != -wb {
			viol(r, sps, "reverse-winding-not-negated", fmt.Sprintf("winding %d around (%.6g,%.6g), %d for the reversal %s", wa, s.X, s.Y, wb, oracle.Fmt(qd)))
			break
		}
	}
	r.Count("winding_probes", int64(dec))
	if nonzero > 0 {
		r.Outcome("reverse:has-nonzero-winding-probes")
	} else {
		r.Outcome("reverse:all-probes-winding-0")
	}
}

// ---- SplitAt -----------------------------------------------------------------------------

// cutTol is the tolerance on the arc-length position of a cut requested at c (input only):
// straight geometry up to c => 1e-9 L; otherwise one percent of the curved length measured up to
// the end of the segment(s) around c, at least 1e-3 (canvas measures curved segments with an
// approximate ruler; the statement allows it about one percent); quadratic Beziers, which are
// measured in closed form, count with 1e-4 of their length (at least 1e-5 on their own).
func cutTol(it *item, c float64) float64 {
	curved, quads := 0.0, 0.0
	for k := range it.segS0 {
		if it.segS0[k] <= c+2e-3 && it.curve[k] {
			if it.quad[k] {
				quads += it.segS1[k] - it.segS0[k]
			} else {
				curved += it.segS1[k] - it.segS0[k]
			}
		}
	}
	if curved == 0 && quads == 0 {
		return 1e-9 * it.L
	}
	if curved == 0 {
		// quadratic Beziers only: their length has a closed form, which SplitAt inverts (F113)
		return math.Max(1e-4*quads, 1e-5)
	}
	return math.Max(0.01*curved, 1e-3) + 1e-4*quads
}

func polylinesOf(sps []oracle.Subpath, n int) []oracle.Polyline {
	var out []oracle.Polyline
	for _, sp := range sps {
		pts, _ := oracle.DenseSubpath(sp, n)
		out = append(out, oracle.Polyline{P: pts})
	}
	return out
}

func dropShort(pls []oracle.Polyline, minLen float64) []oracle.Polyline {
	var out []oracle.Polyline
	for _, pl := range pls {
		if oracle.Length([]oracle.Polyline{pl}) >= minLen {
			out = append(out, pl)
		}
	}
	return out
}

// hausdorff between two lists of open polylines that should correspond one to one.
func hausdorff(a, b []oracle.Polyline, limit float64) float64 {
	if len(a) == len(b) {
		w := 0.0
		for i := range a {
			d1, _ := oracle.MaxDistToPolyline(a[i].P, b[i].P, limit)
			d2, _ := oracle.MaxDistToPolyline(b[i].P, a[i].P, limit)
			w = math.Max(w, math.Max(d1, d2))
		}
		return w
	}
	return math.Max(oracle.HausdorffOneSided(a, b, 0, false), oracle.HausdorffOneSided(b, a, 0, false))
}

func checkSplit(r *fw.R, it *item, tr *oracle.Trace, ts []float64) {
	sps := it.sps
	sfx := ":single-subpath"
	if len(sps) > 1 {
		sfx = ":multi-subpath"
	}
	data := oracle.PathData(sps)
	scale := math.Max(oracle.MaxAbsCoord(sps), 1e-300)
	arg := append([]float64(nil), ts...)
	pieces := cv.Path(data).SplitAt(arg...)
	var dec [][]oracle.Subpath
	desc := ""
	for _, pc := range pieces {
		d, err := oracle.Decode(pc.Data())
		if err != nil {
			viol(r, sps, "splitat-malformed-piece"+sfx, err.Error()+": "+fmt.Sprint(pc.Data()))
			return
		}
		dec = append(dec, d)
		desc += " [" + oracle.Fmt(pc.Data()) + "]"
	}
	for _, pc := range pieces {
		for _, v := range pc.Data() {
			if math.IsNaN(v) || math.IsInf(v, 0) {
				viol(r, sps, "splitat-nan-coordinates"+sfx, "pieces:"+desc)
				return
			}
		}
	}
	// 1. pieces are consecutive parts of the path: each piece equals the stretch of the original
	//    between the cumulative true lengths of the pieces before it and including it
	cum := []float64{0}
	for _, d := range dec {
		cum = append(cum, cum[len(cum)-1]+oracle.PathLengthN(d, 1024))
	}
	total := cum[len(cum)-1]
	if !(math.Abs(total-it.L) <= 1e-5*it.L) { // (the dense summation itself is only good to 1e-6 at cusps)
		viol(r, sps, "splitat-pieces-are-not-the-path"+sfx, fmt.Sprintf("true length of the path %.9g, of all pieces together %.9g; pieces:%s", it.L, total, desc))
		return
	}
	gtol := 1e-4 * scale
	for j, d := range dec {
		if cum[j+1]-cum[j] <= 2*gtol {
			// a piece about as short as the comparison tolerance: its place is judged by the cut clause
			r.Count("pieces_too_short_for_the_hausdorff_clause", 1)
			continue
		}
		want := tr.BetweenMin(cum[j], cum[j+1], gtol)
		got := dropShort(polylinesOf(d, 512), gtol)
		if h := hausdorff(got, want, gtol/2); !(h <= gtol) {
			viol(r, sps, "splitat-pieces-are-not-the-path"+sfx, fmt.Sprintf("piece %d is not the stretch [%.6g,%.6g] of the path (Hausdorff %.3g); pieces:%s", j, cum[j], cum[j+1], h, desc))
			return
		} else {
			r.Max("splitat_piece_hausdorff/scale", h/scale)
		}
	}
	// 2. cut points at the requested arc lengths
	bounds := cum[1 : len(cum)-1]
	used := make([]bool, len(bounds))
	for _, c := range ts {
		tol := cutTol(it, c)
		if c <= tol || c >= it.L-tol {
			r.Count("cuts_too_close_to_an_end_to_call", 1)
			continue
		}
		best, bi := math.Inf(1), -1
		for j, b := range bounds {
			if d := math.Abs(b - c); d < best {
				best, bi = d, j
			}
		}
		kind := "straight"
		if !(tol <= 1e-9*it.L) {
			kind = "curved"
		}
		if bi < 0 || best > tol {
			viol(r, sps, "splitat-cut-misplaced"+sfx, fmt.Sprintf("no cut within %.3g of the requested arc length %.9g (nearest piece boundary %.9g away; boundaries at %v); pieces:%s", tol, c, best, bounds, desc))
			return
		}
		used[bi] = true
		r.Max("splitat_cut_error/tol:"+kind, best/tol)
		r.Max("splitat_cut_error_abs:"+kind, best)
	}
	// every boundary must come from a requested cut (0 and L included: they may or may not cut)
	for j, b := range bounds {
		if used[j] {
			continue
		}
		ok := false
		for _, c := range ts {
			if math.Abs(b-c) <= cutTol(it, c) {
				ok = true
			}
		}
		if !ok {
			viol(r, sps, "splitat-unrequested-cut"+sfx, fmt.Sprintf("piece boundary at arc length %.9g was not requested (requested %v); pieces:%s", b, ts, desc))
			return
		}
	}
	// 3. reported lengths sum to Length()
	sum := 0.0
	for _, pc := range pieces {
		sum += pc.Length()
	}
	whole := cv.Path(data).Length()
	if !(math.Abs(whole-it.L) <= 0.01*it.L) {
		r.Count("length_sum_clause_skipped_because_Length_is_off", 1) // reported by the Length clause
	} else if !(math.Abs(sum-whole) <= 0.01*it.L) {
		viol(r, sps, "splitat-lengths-do-not-sum"+sfx, fmt.Sprintf("Length()=%.9g, sum of piece lengths %.9g", whole, sum))
	} else {
		r.Max("splitat_length_sum_rel_diff", math.Abs(sum-whole)/it.L)
	}
	r.Outcome(fmt.Sprintf("splitat:%d-cuts->%d-pieces", len(ts), len(pieces)))
}

// ---- families ----------------------------------------------------------------------------

var (
	menuOnce  = map[string]*sync.Once{"quick": {}, "thorough": {}}
	menuCache = map[string][]*item{}
)

func getMenu(tier string) []*item {
	menuOnce[tier].Do(func() { menuCache[tier] = menu(tier) })
	return menuCache[tier]
}

func families(tier string) []fw.Family {
	items := getMenu(tier)
	var starts []int64
	n := int64(0)
	for _, it := range items {
		starts = append(starts, n)
		n += it.nsub
	}
	locate := func(i int64) (*item, []float64) {
		k := sort.Search(len(starts), func(k int) bool { return starts[k] > i }) - 1
		it := items[k]
		var ts []float64
		for _, c := range subset(i-starts[k], len(it.cands)) {
			ts = append(ts, it.cands[c])
		}
		sort.Float64s(ts)
		return it, ts
	}
	traces := map[*item]*oracle.Trace{}
	// second family: cuts at exactly the arc lengths canvas itself reports for the prefixes of the
	// path that end at a vertex (the values a caller gets from prefix.Length()), alone and
	// together with an earlier or a later cut
	type vcase struct {
		it  *item
		k   int // number of leading segments in the prefix
		set int
	}
	var vcases []vcase
	for _, it := range items {
		for k := 1; k < len(it.segS1); k++ {
			for set := 0; set < 3; set++ {
				vcases = append(vcases, vcase{it, k, set})
			}
		}
	}
	vcuts := func(c vcase) []float64 {
		s := cv.Path(oracle.PathData(prefixOf(c.it.sps, c.k))).Length()
		switch c.set {
		case 1:
			return []float64{s, s + (c.it.L-s)/2}
		case 2:
			return []float64{s / 2, s}
		}
		return []float64{s}
	}
	// third family: a cut position given twice, followed by a later cut
	type dcase struct {
		it   *item
		a, b int
	}
	var dcases []dcase
	for _, it := range items {
		for a := 0; a < len(it.cands); a++ {
			for b := 0; b < len(it.cands); b++ {
				if it.cands[a] > 0 && it.cands[a] < it.cands[b] {
					dcases = append(dcases, dcase{it, a, b})
				}
			}
		}
	}
	name := "path-menu x split sets of size <= 2"
	if tier == "thorough" {
		name = "path-menu x split sets of size <= 3"
	}
	return []fw.Family{{
		Name: name, N: n,
		Check: func(i int64, r *fw.R) {
			it, ts := locate(i)
			if !oracle.ArcsWellConditioned(it.sps) {
				r.Outcome("skipped:arc-centre-ill-conditioned")
				return
			}
			if len(ts) == 0 {
				checkLength(r, it)
				checkReverse(r, it)
			}
			tr := traces[it]
			if tr == nil {
				tr = oracle.NewTrace(it.sps, 2048)
				traces[it] = tr
			}
			checkSplit(r, it, tr, ts)
			if len(ts) > 0 {
				r.NontrivialIdx()
			}
		},
		Desc: func(i int64) string {
			it, ts := locate(i)
			return fmt.Sprintf("%s [%s] L=%.9g SplitAt(%v)", curvefam.Desc(it.sps), it.name, it.L, ts)
		},
	}, {
		Name: "path-menu x cuts at the lengths canvas reports for the prefixes ending at a vertex", N: int64(len(vcases)),
		Check: func(i int64, r *fw.R) {
			c := vcases[i]
			if !oracle.ArcsWellConditioned(c.it.sps) {
				r.Outcome("skipped:arc-centre-ill-conditioned")
				return
			}
			tr := traces[c.it]
			if tr == nil {
				tr = oracle.NewTrace(c.it.sps, 2048)
				traces[c.it] = tr
			}
			checkSplit(r, c.it, tr, vcuts(c))
			r.NontrivialIdx()
		},
		Desc: func(i int64) string {
			c := vcases[i]
			return fmt.Sprintf("%s [%s] L=%.9g SplitAt(%v) (Length() of the first %d segments)", curvefam.Desc(c.it.sps), c.it.name, c.it.L, vcuts(c), c.k)
		},
	}, {
		Name: "path-menu x a cut given twice and a later cut", N: int64(len(dcases)),
		Check: func(i int64, r *fw.R) {
			c := dcases[i]
			if !oracle.ArcsWellConditioned(c.it.sps) {
				r.Outcome("skipped:arc-centre-ill-conditioned")
				return
			}
			tr := traces[c.it]
			if tr == nil {
				tr = oracle.NewTrace(c.it.sps, 2048)
				traces[c.it] = tr
			}
			checkSplit(r, c.it, tr, []float64{c.it.cands[c.a], c.it.cands[c.a], c.it.cands[c.b]})
			r.NontrivialIdx()
		},
		Desc: func(i int64) string {
			c := dcases[i]
			return fmt.Sprintf("%s [%s] L=%.9g SplitAt(%v)", curvefam.Desc(c.it.sps), c.it.name, c.it.L, []float64{c.it.cands[c.a], c.it.cands[c.a], c.it.cands[c.b]})
		},
	}}
}

// prefixOf returns the first k segments of the path (path order, subpath structure kept; a
// partly included closed subpath becomes open, an included closing segment becomes a line).
func prefixOf(sps []oracle.Subpath, k int) []oracle.Subpath {
	var out []oracle.Subpath
	for _, sp := range sps {
		if k <= 0 {
			break
		}
		if len(sp.Segs) <= k {
			out = append(out, sp)
			k -= len(sp.Segs)
			continue
		}
		var segs []oracle.Seg
		for _, sg := range sp.Segs[:k] {
			if sg.Kind == oracle.CmdClose {
				sg = oracle.MkLine(sg.P0, sg.P1)
			}
			segs = append(segs, sg)
		}
		out = append(out, oracle.Chain(false, segs...))
		k = 0
	}
	return out
}

// Prop is the C09 check.
func Prop() *fw.Property {
	return &fw.Property{
		ID:    "C09",
		Level: "exploration",
		Rule: "path menu: 12 single curves of every segment type, all 144 ordered two-segment chains (thorough: also closed, and all 144 two-subpath pairs), closed shapes, paths of 2-3 subpaths; x every subset of size <= 2 (thorough <= 3) of the split candidates {0, L/4, L/2, 3L/4, L, every vertex arc length, vertex +- 1e-3}, and cuts at exactly the values Length() returns for the prefixes that end at a vertex (alone, with an earlier and with a later cut), and every pair of candidates with the first one given twice; " +
			"Length within 1 % of the dense-summation length; SplitAt: pieces are consecutive stretches of the path (Hausdorff 1e-4*scale), true lengths add up (1e-5), every requested cut has a piece boundary within tolerance and every boundary was requested, reported lengths sum to Length() (1 %); " +
			"Reverse: involution, segment-wise same points backwards (1e-9*scale), same closedness/length/box, winding negated at all grid probes farther than 1.1e-3*scale from the path; non-trivial = a non-empty split set",
		Assumptions: []string{
			"cut tolerance: 1e-9*L while everything up to the cut is straight, otherwise max(1 % of the curved length up to the end of the segment around the cut, 1e-3): canvas measures curved segments approximately and positions later cuts with that ruler",
			"a requested cut closer than its tolerance to 0 or L may or may not produce a piece boundary (counted as too close to call)",
			"split values are passed sorted; whether SplitAt may sort the caller's slice is C10's business",
		},
		KnownPredicates: map[string]func(*fw.Violation) bool{
			// the path contains a cubic with an exact cusp (the case string names the menu entries)
			"cusp": func(v *fw.Violation) bool { return strings.Contains(v.Case, "cusp") },
			// the path contains the long eccentric rotated arc A3 1 120 1 0
			"long-eccentric-arc": func(v *fw.Violation) bool { return strings.Contains(v.Case, "arc-rot120-large") },
			// Length() of a cubic with collinear control points that turns back twice: off by at most 5 %
			// (the quadrature error of the unchanged tree is 2 to 3.5 %; anything larger is something else)
			"collinear-cubic-length-within-5-percent": func(v *fw.Violation) bool {
				m := regexp.MustCompile(`\(([0-9.]+) %\)`).FindStringSubmatch(v.Detail)
				if m == nil || !strings.Contains(v.Case, "cube-collinear-two-cusps") {
					return false
				}
				pct, err := strconv.ParseFloat(m[1], 64)
				return err == nil && pct <= 5
			},
		},
		Families: families,
	}
}
