// Package c05: Path.Dash cuts every subpath into the stretches the dash pattern prescribes.
package c05

import (
	"fmt"
	"math"
	"regexp"
	"strconv"
	"strings"
	"sync"

	"github.com/tdewolff/canvas"

	"verif/internal/cv"
	"verif/internal/fw"
	"verif/internal/oracle"
	"verif/internal/rec"
)

// ---------------------------------------------------------------------------------------------
// alphabets

// seg is one segment relative to its start point (control/end points are offsets).
type seg struct {
	name string
	kind float64
	a    []float64 // line: ex,ey; quad: cx,cy,ex,ey; cube: c1,c2,e; arc: rx,ry,phi(rad),flags,ex,ey
}

var menu = []seg{
	{"line(3,0)", oracle.CmdLine, []float64{3, 0}},
	{"line(3,4)", oracle.CmdLine, []float64{3, 4}},
	{"line(0.6,0)", oracle.CmdLine, []float64{0.6, 0}}, // shorter than every dash
	{"quad-arch", oracle.CmdQuad, []float64{2, 3, 4, 0}},
	{"quad-skew", oracle.CmdQuad, []float64{0, 2, 4, 0.5}},
	{"cube-arch", oracle.CmdCube, []float64{0, 2, 3, 2, 3, 0}},
	{"cube-S", oracle.CmdCube, []float64{2, 2, 1, -2, 3, 0}},
	{"cube-loop", oracle.CmdCube, []float64{4, 3, -1, 3, 3, 0}},
	{"arc-quarter", oracle.CmdArc, []float64{2, 2, 0, 2, 2, 2}},
	{"arc-threequarter", oracle.CmdArc, []float64{2, 2, 0, 3, 2, 2}},
	{"arc-ellipse-rot", oracle.CmdArc, []float64{3, 1, math.Pi / 6, 2, 4, 1}},
	{"arc-ellipse-large-cw", oracle.CmdArc, []float64{2, 1, 0, 1, 1, 1}},
	{"cube-cusp", oracle.CmdCube, []float64{3, 3, 0, 3, 3, 0}},
	{"cube-serpentine", oracle.CmdCube, []float64{5, 5, -1, 4, 6, 3}}, // two inflection points inside (0,1)
	// control point on the line through the end points and beyond the end point: the curve runs
	// 2.25 to the right, turns and comes back to 2 (length 2.5; the speed vanishes at the turning point)
	{"quad-collinear-overshoot", oracle.CmdQuad, []float64{3, 0, 2, 0}},
}

func appendSeg(d []float64, cur oracle.Pt, s seg) ([]float64, oracle.Pt) {
	a := s.a
	switch s.kind {
	case oracle.CmdLine:
		e := oracle.Pt{X: cur.X + a[0], Y: cur.Y + a[1]}
		return append(d, s.kind, e.X, e.Y, s.kind), e
	case oracle.CmdQuad:
		e := oracle.Pt{X: cur.X + a[2], Y: cur.Y + a[3]}
		return append(d, s.kind, cur.X+a[0], cur.Y+a[1], e.X, e.Y, s.kind), e
	case oracle.CmdCube:
		e := oracle.Pt{X: cur.X + a[4], Y: cur.Y + a[5]}
		return append(d, s.kind, cur.X+a[0], cur.Y+a[1], cur.X+a[2], cur.Y+a[3], e.X, e.Y, s.kind), e
	}
	e := oracle.Pt{X: cur.X + a[4], Y: cur.Y + a[5]}
	return append(d, s.kind, a[0], a[1], a[2], a[3], e.X, e.Y, s.kind), e
}

type pathCase struct {
	name string
	data []float64
}

func open(start oracle.Pt, segs ...seg) pathCase {
	d := []float64{oracle.CmdMove, start.X, start.Y, oracle.CmdMove}
	cur := start
	var names []string
	for _, s := range segs {
		d, cur = appendSeg(d, cur, s)
		names = append(names, s.name)
	}
	return pathCase{strings.Join(names, "+"), d}
}

func closed(p pathCase) pathCase {
	p.data = append(p.data, oracle.CmdClose, p.data[1], p.data[2], oracle.CmdClose)
	p.name += "+z"
	return p
}

func concat(ps ...pathCase) pathCase {
	var out pathCase
	var names []string
	for _, p := range ps {
		out.data = append(out.data, p.data...)
		names = append(names, p.name)
	}
	out.name = strings.Join(names, " | ")
	return out
}

func ln(x, y float64) seg {
	return seg{fmt.Sprintf("line(%g,%g)", x, y), oracle.CmdLine, []float64{x, y}}
}

func paths(tier string) []pathCase {
	var ps []pathCase
	o := oracle.Pt{}
	for _, s := range menu {
		ps = append(ps, open(o, s))
	}
	// closed shapes and multi-subpath paths
	tri := closed(open(o, ln(4, 0), ln(0, 3)))               // 3-4-5 triangle, L=12
	triPt := closed(open(o, ln(4, 0), ln(0, 3), ln(-4, -3))) // explicit last edge, zero-length close
	quadz := closed(open(o, menu[3]))                        // arch closed by a line
	circle := closed(open(oracle.Pt{X: 2}, seg{"half", oracle.CmdArc, []float64{2, 2, 0, 2, -4, 0}}, seg{"half", oracle.CmdArc, []float64{2, 2, 0, 2, 4, 0}}))
	cubez := closed(open(o, menu[5], ln(-1.5, -1))) // cubic, line, closing line
	// closed subpaths whose FIRST segment is a curve of each kind (a dash that wraps over the start
	// point is glued from the last and the first piece)
	arcRotz := closed(open(o, menu[10], ln(-1, 3)))
	arcLargez := closed(open(o, menu[11], ln(2, 2)))
	cubeSz := closed(open(o, menu[6], ln(-1, -2)))
	serpz := closed(open(o, menu[13], ln(-2, 1)))
	ps = append(ps, arcRotz, arcLargez, cubeSz, serpz, concat(tri, arcRotz))
	// 200 degrees of a 10 x 6 ellipse from -45 degrees: more than a half turn that starts off the
	// axes (the length of such an arc is the sum of unequal quarter turns)
	ps = append(ps, open(oracle.Pt{X: 10 * math.Cos(-math.Pi/4), Y: 6 * math.Sin(-math.Pi/4)},
		seg{"arc-10x6-200deg-from-minus-45", oracle.CmdArc, []float64{10, 6, 0, 3, 10*math.Cos(155*math.Pi/180) - 10*math.Cos(-math.Pi/4), 6*math.Sin(155*math.Pi/180) - 6*math.Sin(-math.Pi/4)}}))
	ps = append(ps, tri, triPt, quadz, circle, cubez,
		concat(open(o, menu[1]), open(oracle.Pt{X: 5, Y: 1}, menu[8])),                    // two open subpaths
		concat(open(o, menu[0]), closed(open(oracle.Pt{X: 0, Y: 5}, ln(4, 0), ln(0, 3)))), // open | closed
		concat(tri, open(oracle.Pt{X: 6, Y: 0}, menu[3])),                                 // closed | open
	)
	// two-segment combinations
	if tier == "thorough" {
		for _, a := range menu {
			for _, b := range menu {
				ps = append(ps, open(o, a, b))
			}
		}
		ps = append(ps, concat(quadz, circle), closed(open(o, menu[6], menu[9])), concat(open(o, menu[2]), open(oracle.Pt{X: 1, Y: 1}, menu[2]), tri))
	} else {
		pairs := [][2]int{{0, 1}, {1, 0}, {0, 0}, {2, 0}, {0, 3}, {3, 1}, {1, 5}, {5, 0}, {0, 8}, {8, 1}, {3, 3}, {3, 5}, {5, 8}, {8, 3}, {9, 6}, {6, 10},
			{10, 11}, {11, 4}, {4, 7}, {7, 9}, {12, 0}, {0, 12}, {8, 8}, {2, 2}, {8, 11}, {11, 8}, {1, 14}, {14, 3}}
		for _, pr := range pairs {
			ps = append(ps, open(o, menu[pr[0]], menu[pr[1]]))
		}
	}
	return ps
}

func dashes() [][]float64 {
	vals := []float64{0, 1, 2.5}
	out := [][]float64{{}}
	for n := 1; n <= 3; n++ {
		for i := 0; i < int(oracle.Prod(repeat(3, n)...)); i++ {
			dg := oracle.Digits(int64(i), repeat(3, n)...)
			d := make([]float64, n)
			for k, v := range dg {
				d[k] = vals[v]
			}
			out = append(out, d)
		}
	}
	out = append(out,
		[]float64{1, 2.5, 1, 2.5}, []float64{2.5, 1, 2.5, 1}, []float64{1, 1, 1, 1}, // repeated sub-pattern
		[]float64{0, 1, 0, 1}, []float64{1, 0, 1, 0}, // degenerate repeated
		[]float64{1, 0, 2, 3}, []float64{1, 0, 2.5, 1}, []float64{1, 2.5, 0, 1}, // inner zeros
		[]float64{0, 1, 2.5, 1}, []float64{1, 2.5, 1, 0}, // zero first / last
		[]float64{0, 0, 1, 1}, []float64{1, 1, 0, 0},
	)
	return out
}

func repeat(v, n int) []int {
	r := make([]int, n)
	for i := range r {
		r[i] = v
	}
	return r
}

var offsets = []float64{0, 0.5, 1, -1, 4.2, -3.7, 100.3}

// ---------------------------------------------------------------------------------------------
// check

const (
	denseN   = 2000 // chords per curved input segment
	pieceN   = 1000 // chords per curved segment of a returned piece (length)
	relLine  = 1e-9 // relative arc-length tolerance on straight geometry
	onPathRe = 1e-6 // "lies on the path": distance <= onPathRe*scale
)

type input struct {
	aps   []*oracle.ArcPath
	scale float64
}

var (
	cacheMu sync.Mutex
	cache   = map[string]*input{}
)

func denseInput(pc pathCase) *input {
	cacheMu.Lock()
	defer cacheMu.Unlock()
	if in, ok := cache[pc.name]; ok {
		return in
	}
	sps, err := oracle.Decode(pc.data)
	if err != nil {
		panic("c05: bad menu path: " + err.Error())
	}
	in := &input{}
	var pls []oracle.Polyline
	for _, sp := range sps {
		ap := oracle.NewArcPath(sp, denseN)
		in.aps = append(in.aps, ap)
		pls = append(pls, oracle.Polyline{P: ap.P})
	}
	lo, hi, _ := oracle.BBox(pls)
	in.scale = math.Max(1, hi.Sub(lo).Len())
	cache[pc.name] = in
	return in
}

// want is one expected drawn stretch; a > b means it wraps over the closing point.
type want struct {
	a, b     float64
	optional bool // shorter than twice the tolerance: may be present or absent
	full     bool // the whole closed subpath
}

func (w want) length(L float64) float64 {
	if w.a > w.b {
		return L - w.a + w.b
	}
	return w.b - w.a
}

func fmtWants(ws []want) string {
	var sb strings.Builder
	for _, w := range ws {
		fmt.Fprintf(&sb, "[%.9g,%.9g]", w.a, w.b)
	}
	if len(ws) == 0 {
		return "(none)"
	}
	return sb.String()
}

type piece struct {
	sp     oracle.Subpath
	first  oracle.Pt
	last   oracle.Pt
	length float64
	probe  []oracle.Pt
}

func mkPiece(sp oracle.Subpath) piece {
	pc := piece{sp: sp, first: sp.Start, last: sp.Start}
	pl := oracle.Dense([]oracle.Subpath{sp}, pieceN)[0]
	for i := 0; i+1 < len(pl.P); i++ {
		pc.length += pl.P[i].Dist(pl.P[i+1])
	}
	pc.last = pl.P[len(pl.P)-1]
	for _, s := range sp.Segs {
		k := 24
		if s.Kind == oracle.CmdLine || s.Kind == oracle.CmdClose {
			k = 3
		}
		for j := 1; j < k; j++ {
			pc.probe = append(pc.probe, s.At(float64(j)/float64(k)))
		}
		pc.probe = append(pc.probe, s.P1)
	}
	return pc
}

func sameBits(a, b []float64) bool {
	if len(a) != len(b) {
		return false
	}
	for i := range a {
		if math.Float64bits(a[i]) != math.Float64bits(b[i]) {
			return false
		}
	}
	return true
}

// maxf records a maximum; non-finite ratios (zero-length reference) are counted instead, they
// cannot be serialised.
func maxf(r *fw.R, name string, v float64) {
	if math.IsNaN(v) || math.IsInf(v, 0) {
		r.Count("nonfinite:"+name, 1)
		return
	}
	r.Max(name, v)
}

func viol(r *fw.R, class, detail string) {
	r.Outcome("VIOLATION:" + class)
	r.Violate(class, detail)
}

// expected computes the wanted pieces of one subpath. A dash that would begin within the
// tolerance of the end of the path (on either side of it) is optional. ambiguous reports that
// a switching point of the pattern falls so close to the closing point of a closed subpath
// that "joined or not" cannot be decided from the statement.
func expected(ap *oracle.ArcPath, off float64, d []float64) (ws []want, ambiguous bool) {
	guard := ap.CurveTol(ap.L, relLine)
	iv, sw := oracle.DashModel(off, d, ap.L+guard)
	curved := false
	for _, c := range ap.SegCurve {
		curved = curved || c
	}
	for _, v := range iv {
		a, b := math.Min(v[0], ap.L), math.Min(v[1], ap.L)
		tol := ap.CurveTol(a, relLine) + ap.CurveTol(b, relLine)
		if b > a || v[0] >= ap.L {
			ws = append(ws, want{a: a, b: b, optional: b-a <= tol || a >= ap.L-guard})
		}
	}
	if !ap.Closed {
		return ws, false
	}
	for _, x := range sw {
		if (x > 0 && x <= guard) || (x != ap.L && math.Abs(x-ap.L) <= guard) || (curved && x == ap.L) {
			ambiguous = true
		}
	}
	n := len(ws)
	if n == 1 && ws[0].a == 0 && ws[0].b == ap.L {
		ws[0].full = true
	} else if n >= 2 && ws[0].a == 0 && ws[n-1].b == ap.L {
		// starts and ends inside a dash: one joined piece over the closing point
		j := want{a: ws[n-1].a, b: ws[0].b}
		ws = append([]want{j}, ws[1:n-1]...)
	}
	return ws, ambiguous
}

// viaContext: the pattern reaches the path through Context.SetDashes and DrawPath (which decides on
// its own whether the path needs dashing at all and hands the renderer a normalised offset and
// pattern): the dashed path is then what a renderer draws, Dash(style offset, style pattern) of the
// path it is given, the path itself for a solid stroke and nothing when the stroke was taken away.
var viaContext bool

func dashThroughContext(p *canvas.Path, off float64, d []float64) *canvas.Path {
	c := canvas.New(100, 100)
	ctx := canvas.NewContext(c)
	ctx.SetFill(canvas.Transparent)
	ctx.SetStrokeColor(canvas.Black)
	ctx.SetStrokeWidth(0.1)
	ctx.SetDashes(off, d...)
	ctx.DrawPath(0, 0, p)
	res := &canvas.Path{}
	for _, op := range rec.Record(c).Ops {
		if op.Kind != "path" || !op.Style.HasStroke() {
			continue
		}
		q := cv.Path(op.Data)
		if op.M != canvas.Identity {
			q = q.Transform(op.M) // (not reached: identity view, drawn at the origin)
		}
		if len(op.Style.Dashes) != 0 {
			q = q.Dash(op.Style.DashOffset, op.Style.Dashes...)
		}
		res = res.Append(q)
	}
	return res
}

func check(pc pathCase, d []float64, off float64, r *fw.R) {
	in := denseInput(pc)
	dd := append([]float64(nil), d...)
	p := cv.Path(pc.data)
	var res *canvas.Path
	if viaContext {
		res = dashThroughContext(p, off, dd)
	} else {
		res = p.Dash(off, dd...)
	}

	// side effects
	if !sameBits(dd, d) {
		viol(r, "caller-slice-modified", fmt.Sprintf("d=%v after the call: %v", d, dd))
	}
	if !sameBits(p.Data(), pc.data) {
		viol(r, "input-path-modified", "path after the call: "+oracle.Fmt(p.Data()))
	}
	var rd []float64
	if res != nil {
		rd = res.Data()
	}
	if len(d) == 0 {
		r.Outcome("pattern:empty")
		r.NontrivialIdx()
		if !sameBits(rd, pc.data) {
			viol(r, "empty-pattern-not-identity", "result "+oracle.Fmt(rd))
		}
		return
	}
	sum := 0.0
	for _, v := range d {
		sum += v
	}
	if sum == 0 {
		r.Outcome("pattern:all-zero")
		r.NontrivialIdx()
		if len(rd) != 0 {
			viol(r, "zero-pattern-not-empty", "result "+oracle.Fmt(rd))
		}
		return
	}
	sps, err := oracle.Decode(rd)
	if err != nil {
		viol(r, "malformed-result", err.Error()+": "+oracle.Fmt(rd))
		return
	}
	var pieces []piece
	for _, sp := range sps {
		if len(sp.Segs) == 0 {
			viol(r, "dangling-moveto", "result "+oracle.Fmt(rd))
			continue
		}
		pieces = append(pieces, mkPiece(sp))
	}

	onTol := onPathRe * in.scale
	// expectation per subpath
	all := make([][]want, len(in.aps))
	wantSum, sumTol := 0.0, 0.0
	nWant, nOpt := 0, 0
	for k, ap := range in.aps {
		ws, amb := expected(ap, off, d)
		if amb {
			r.Outcome("skipped:switch-point-at-closing-point")
			r.Count("cases_skipped_ambiguous", 1)
			return
		}
		all[k] = ws
		for _, w := range ws {
			wantSum += w.length(ap.L)
			sumTol += ap.CurveTol(w.a, relLine) + ap.CurveTol(w.b, relLine)
			nWant++
			if w.optional {
				nOpt++
				sumTol += w.length(ap.L)
			}
		}
	}
	sumTol = math.Max(sumTol, relLine*in.scale)
	describe := func() string {
		var sb strings.Builder
		for k, ap := range in.aps {
			fmt.Fprintf(&sb, "subpath %d (L=%.9g closed=%v) expected %s; ", k, ap.L, ap.Closed, fmtWants(all[k]))
		}
		sb.WriteString("result " + oracle.Fmt(rd))
		return sb.String()
	}

	// walk the pieces along the expectation; one structural violation per case: the first
	// gross one, else the first accuracy one
	type mis struct{ class, detail string }
	var gross, fine *mis
	note := func(class, detail string) {
		m := &mis{class, detail}
		if class == "curve-position-accuracy" {
			if fine == nil {
				fine = m
			}
		} else if gross == nil {
			gross = m
		}
	}
	pi := 0
walk:
	for k, ap := range in.aps {
		ws := all[k]
		n := len(ws)
		if n > 1 && ap.Closed && pi+n-1 < len(pieces) {
			if ws[0].a > ws[0].b {
				// the joined piece of a closed subpath may come last instead of first
				if c, _ := matchPiece(ap, pieces[pi], ws[0], onTol, r, false); c != "" {
					if c, _ := matchPiece(ap, pieces[pi+n-1], ws[0], onTol, r, false); c == "" {
						ws = append(append([]want{}, ws[1:]...), ws[0])
						r.Outcome("joined-piece:last")
					} else if c, _ := matchPiece(ap, pieces[pi], want{a: 0, b: ws[0].b}, onTol, r, false); c == "" {
						note("closed-not-joined", fmt.Sprintf("subpath %d starts and ends inside a dash but the part [0,%.9g] is returned as a piece of its own instead of joined with [%.9g,L]; %s", k, ws[0].b, ws[0].a, describe()))
						break walk
					}
				} else {
					r.Outcome("joined-piece:first")
				}
			} else if c, _ := matchPiece(ap, pieces[pi], ws[0], onTol, r, false); c != "" {
				// not joined: is the order merely rotated (last dash emitted first)?
				if c, _ := matchPiece(ap, pieces[pi], ws[n-1], onTol, r, false); c == "" {
					note("closed-pieces-not-in-path-order", fmt.Sprintf("subpath %d: the piece for the last dash [%.9g,%.9g] is returned before the piece for the first dash [%.9g,%.9g]; %s", k, ws[n-1].a, ws[n-1].b, ws[0].a, ws[0].b, describe()))
					ws = append([]want{ws[n-1]}, ws[:n-1]...)
				}
			}
		}
		for _, w := range ws {
			if pi < len(pieces) {
				cls, det := matchPiece(ap, pieces[pi], w, onTol, r, false)
				if cls == "" || cls == "curve-position-accuracy" {
					if cls == "" {
						matchPiece(ap, pieces[pi], w, onTol, r, true)
					} else {
						note(cls, fmt.Sprintf("subpath %d, piece %d vs expected [%.9g,%.9g]: %s; %s", k, pi, w.a, w.b, det, describe()))
					}
					if w.optional {
						r.Outcome("optional-tiny-interval:present")
					}
					pi++
					continue
				}
				if !w.optional {
					note(cls, fmt.Sprintf("subpath %d, piece %d vs expected [%.9g,%.9g]: %s; %s", k, pi, w.a, w.b, det, describe()))
					break walk
				}
			} else if !w.optional {
				note("piece-missing", fmt.Sprintf("subpath %d: no piece for [%.9g,%.9g]; %s", k, w.a, w.b, describe()))
				break walk
			}
			r.Outcome("optional-tiny-interval:absent")
		}
	}
	if gross == nil && pi < len(pieces) {
		note("piece-extra", fmt.Sprintf("%d pieces beyond the %d expected; %s", len(pieces)-pi, nWant, describe()))
	}
	if gross != nil {
		viol(r, gross.class, gross.detail)
	} else if fine != nil {
		viol(r, fine.class, fine.detail)
	}

	// drawn length (a consequence of the structure when that is right; reported on its own only
	// when the structure was accepted)
	gotSum := 0.0
	for _, pc := range pieces {
		gotSum += pc.length
	}
	if gross == nil {
		maxf(r, "drawn_length_error/tolerance", math.Abs(gotSum-wantSum)/sumTol)
	}
	if !(math.Abs(gotSum-wantSum) <= sumTol) {
		if gross == nil && fine == nil {
			viol(r, "drawn-length-sum", fmt.Sprintf("drawn %.9g, pattern prescribes %.9g (tolerance %.3g); %s", gotSum, wantSum, sumTol, describe()))
		} else {
			r.Outcome("drawn-length-sum-wrong-together-with-structure-violation")
		}
	}

	// tallies
	cl := "open"
	for _, ap := range in.aps {
		if ap.Closed {
			cl = "closed"
		}
	}
	if len(in.aps) > 1 {
		cl = "multi"
	}
	switch {
	case nWant == 0:
		r.Outcome(cl + ":nothing-drawn")
	case nWant == len(in.aps) && math.Abs(wantSum-totalLen(in)) == 0:
		r.Outcome(cl + ":solid")
	default:
		r.Outcome(cl + ":dashed")
		r.NontrivialIdx()
	}
	for k, ap := range in.aps {
		for _, w := range all[k] {
			if w.a > w.b {
				r.Outcome("closed:joined-over-closing-point")
			} else if w.full {
				r.Outcome("closed:one-dash-covers-subpath")
			} else if ap.Closed && w.a == 0 {
				r.Outcome("closed:starts-in-dash-ends-in-gap")
			} else if ap.Closed && w.b == ap.L {
				r.Outcome("closed:starts-in-gap-ends-in-dash")
			}
		}
	}
	r.Count("pieces_expected", int64(nWant))
	r.Count("pieces_returned", int64(len(pieces)))
	r.Count("optional_tiny_intervals", int64(nOpt))
}

func totalLen(in *input) float64 {
	l := 0.0
	for _, ap := range in.aps {
		l += ap.L
	}
	return l
}

// matchPiece compares one returned piece with one expected stretch. With record=false it only
// decides; with record=true it also reports observed maxima (called once the match is accepted).
func matchPiece(ap *oracle.ArcPath, pc piece, w want, onTol float64, r *fw.R, record bool) (class, detail string) {
	ta, tb := ap.CurveTol(w.a, relLine), ap.CurveTol(w.b, relLine)
	s0, d0, ok0 := ap.Locate(pc.first, w.a, onTol)
	s1, d1, ok1 := ap.Locate(pc.last, w.b, onTol)
	if !ok0 {
		return "piece-off-path", fmt.Sprintf("start point (%.9g,%.9g) is %.3g away from the input path", pc.first.X, pc.first.Y, d0)
	}
	if !ok1 {
		return "piece-off-path", fmt.Sprintf("end point (%.9g,%.9g) is %.3g away from the input path", pc.last.X, pc.last.Y, d1)
	}
	e0, e1 := ap.CycDist(s0, w.a), ap.CycDist(s1, w.b)
	// a position error on or behind a curve of at most 2x the tolerance is an accuracy
	// problem, anything else is a wrong dash
	curveTol := func(t float64) bool { return t > 2*relLine*math.Max(ap.L, 1) }
	if e0 > 2*ta || (e0 > ta && !curveTol(ta)) {
		return "interval-start", fmt.Sprintf("piece starts at arc length %.9g, expected %.9g (tolerance %.3g)", s0, w.a, ta)
	}
	if e1 > 2*tb || (e1 > tb && !curveTol(tb)) {
		return "interval-end", fmt.Sprintf("piece ends at arc length %.9g, expected %.9g (tolerance %.3g)", s1, w.b, tb)
	}
	el := w.length(ap.L)
	if math.Abs(pc.length-el) > 2*(ta+tb) || (math.Abs(pc.length-el) > ta+tb && !curveTol(ta+tb)) {
		return "piece-length", fmt.Sprintf("piece from %.9g to %.9g has length %.9g, expected %.9g", s0, s1, pc.length, el)
	}
	accuracy := ""
	if e0 > ta || e1 > tb || math.Abs(pc.length-el) > ta+tb {
		accuracy = fmt.Sprintf("piece located at [%.9g,%.9g] (length %.9g), expected [%.9g,%.9g]; errors %.3g / %.3g exceed the tolerances %.3g / %.3g (1%% of the curve's length)", s0, s1, pc.length, w.a, w.b, e0, e1, ta, tb)
		ta, tb = 2*ta, 2*tb
	}
	if pc.sp.Closed && !w.full {
		return "piece-closed", "a dash that does not cover the whole closed subpath is returned closed"
	}
	lo, hi := w.a-ta-onTol, w.b+tb+onTol
	for _, q := range pc.probe {
		if !w.full && ap.InWindow(q, lo, hi, onTol) {
			continue
		}
		if _, dq, ok := ap.Locate(q, w.a, onTol); !ok {
			return "piece-off-path", fmt.Sprintf("point (%.9g,%.9g) of the piece is %.3g away from the input path", q.X, q.Y, dq)
		}
		if !w.full {
			return "piece-leaves-interval", fmt.Sprintf("point (%.9g,%.9g) of the piece is on the path but outside [%.9g,%.9g]", q.X, q.Y, w.a, w.b)
		}
	}
	if record {
		for _, e := range [][3]float64{{e0, ta, w.a}, {e1, tb, w.b}} {
			if e[1] <= 2*relLine*math.Max(ap.L, 1) {
				maxf(r, "interval_end_error_straight/(1e-9*L)", e[0]/(relLine*math.Max(ap.L, 1)))
			} else {
				maxf(r, "interval_end_error_curved/tolerance", e[0]/e[1])
				j := ap.SegAt(e[2])
				kind := map[float64]string{oracle.CmdLine: "line-behind-curve", oracle.CmdClose: "line-behind-curve", oracle.CmdQuad: "quad", oracle.CmdCube: "cube", oracle.CmdArc: "arc"}[ap.SegKind[j]]
				maxf(r, "interval_end_error/length_of_containing_segment:"+kind, e[0]/(ap.SegS[j+1]-ap.SegS[j]))
			}
		}
		r.Count("pieces_matched", 1)
	}
	if accuracy != "" {
		return "curve-position-accuracy", accuracy
	}
	return "", ""
}

func families(tier string) []fw.Family {
	ps := paths(tier)
	ds := dashes()
	n := oracle.Prod(len(ps), len(ds), len(offsets))
	dec := func(i int64) (pathCase, []float64, float64) {
		g := oracle.Digits(i, len(ps), len(ds), len(offsets))
		return ps[g[0]], ds[g[1]], offsets[g[2]]
	}
	// second family: a dash or gap boundary at exactly the arc length canvas itself reports for the
	// first segment (the value a caller gets from Path.Length() of that segment alone): every
	// ordered pair of menu segments followed by a line, with the patterns [L 0.7], [L 3] and
	// offset 2 into [2 L 5 1] (the first segment then lies wholly in a gap)
	type vcase struct {
		a, b, pat int
	}
	var vcases []vcase
	for a := range menu {
		for b := range menu {
			for pat := 0; pat < 3; pat++ {
				vcases = append(vcases, vcase{a, b, pat})
			}
		}
	}
	vdec := func(i int64) (pathCase, []float64, float64) {
		c := vcases[i]
		o := oracle.Pt{}
		L := cv.Path(open(o, menu[c.a]).data).Length()
		pc := open(o, menu[c.a], menu[c.b], ln(2, -1))
		switch c.pat {
		case 1:
			return pc, []float64{L, 3}, 0
		case 2:
			return pc, []float64{2, L, 5, 1}, 2
		}
		return pc, []float64{L, 0.7}, 0
	}
	return []fw.Family{{
		Name: fmt.Sprintf("two menu segments and a line (%d pairs) x 3 patterns with a boundary at exactly the Length() of the first segment", len(menu)*len(menu)),
		N:    int64(len(vcases)),
		Check: func(i int64, r *fw.R) {
			pc, d, off := vdec(i)
			check(pc, d, off, r)
		},
		Desc: func(i int64) string {
			pc, d, off := vdec(i)
			return fmt.Sprintf("path=%s Dash(%g, %v) [%s]", oracle.Fmt(pc.data), off, d, pc.name)
		},
	}, {
		Name: fmt.Sprintf("through Context.SetDashes + DrawPath: paths(%d) x dash arrays(%d) x offsets(%d)", len(ps), len(ds), len(offsets)),
		N:    n,
		Check: func(i int64, r *fw.R) {
			pc, d, off := dec(i)
			viaContext = true
			defer func() { viaContext = false }()
			check(pc, d, off, r)
		},
		Desc: func(i int64) string {
			pc, d, off := dec(i)
			return fmt.Sprintf("path=%s ctx.SetDashes(%g, %v); ctx.DrawPath(0,0,path) [%s]", oracle.Fmt(pc.data), off, d, pc.name)
		},
	}, {
		Name: fmt.Sprintf("paths(%d) x dash arrays(%d) x offsets(%d)", len(ps), len(ds), len(offsets)),
		N:    n,
		Check: func(i int64, r *fw.R) {
			pc, d, off := dec(i)
			check(pc, d, off, r)
		},
		Desc: func(i int64) string {
			pc, d, off := dec(i)
			return fmt.Sprintf("path=%s Dash(%g, %v) [%s]", oracle.Fmt(pc.data), off, d, pc.name)
		},
	}}
}

// Prop is the C05 check.
func Prop() *fw.Property {
	return &fw.Property{
		ID:    "C05",
		Level: "exploration",
		Rule: "every path of the menu (13 single segments incl. Béziers with inflection/loop/cusp and circular/elliptical arcs, 2-segment combinations, closed triangle/curves, multi-subpath) x every dash array of length 0-3 over {0,1,2.5} plus 12 length-4 arrays x 7 offsets; " +
			"each returned piece is located on a 2000-chord flattening of the input and compared with the drawn intervals of an independent pattern model (position, order, length, on-path, joined piece on closed subpaths, drawn-length sum), the caller's slice and the input path are compared bit-for-bit; " +
			"non-trivial = the pattern leaves at least one dash boundary inside the path (or the pattern is a documented degenerate one)",
		Assumptions: []string{
			"paths restricted to the stated menu (coordinates of size <= 10, at most 3 segments per subpath, at most 3 subpaths); dash elements in {0,1,2,2.5,3}; negative dash elements are outside the bound",
			"arc-length tolerance: 1e-9*max(L,1) on straight geometry; every curved segment starting before the position adds max(1% of its length, 1e-3); on-path tolerance 1e-6*bbox diagonal",
			"cases where a pattern switching point falls within the tolerance of the closing point of a closed subpath are skipped and counted (joined-or-not is not decidable from the statement)",
			"the oracle's arc length is a 2000-chord polyline per curve (relative error < 1e-6)",
		},
		Families: families,
		KnownPredicates: map[string]func(*fw.Violation) bool{
			// the offset is below minus the length of the (odd-length-doubled) pattern
			"negative-offset-beyond-pattern": func(v *fw.Violation) bool {
				off, d, ok := parseCase(v.Case)
				if !ok {
					return false
				}
				sum := 0.0
				for _, x := range d {
					sum += x
				}
				if len(d)%2 == 1 {
					sum *= 2
				}
				return off < -sum
			},
			// the path contains the cubic with an exact cusp
			"cusp": func(v *fw.Violation) bool { return strings.Contains(v.Case, "cube-cusp") },
		},
	}
}

var caseRe = regexp.MustCompile(`Dash\(([-0-9.e]+), \[([^\]]*)\]\)`)

func parseCase(c string) (off float64, d []float64, ok bool) {
	m := caseRe.FindStringSubmatch(c)
	if m == nil {
		return 0, nil, false
	}
	off, err := strconv.ParseFloat(m[1], 64)
	if err != nil {
		return 0, nil, false
	}
	for _, f := range strings.Fields(m[2]) {
		x, err := strconv.ParseFloat(f, 64)
		if err != nil {
			return 0, nil, false
		}
		d = append(d, x)
	}
	return off, d, true
}
