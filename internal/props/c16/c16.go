// Package c16: text layout (NewTextBox / RichText.ToText) against ordering, stacking,
// non-overlap, fit and alignment equations read from WalkLines/Bounds/Heights.
package c16

import (
	"fmt"
	"math"
	"os"
	"path/filepath"
	"sort"
	"strings"
	"sync"
	"unicode/utf8"

	"github.com/tdewolff/canvas"
	"github.com/tdewolff/canvas/text"

	"verif/internal/fw"
)

// token alphabet of DESIGN §5 C16, simplest first
var tokens = []string{"a", " ", "V", "\n", "fi", "-", "\u00AD", "\u00A0", "\u3000", "\u05D0",
	// punctuation (only in the punctuation family): under Justify the space after it gets its own stretch factor
	".", ",", ";", ":", "!", ")", "A"}
var tokenNames = []string{"a", "SP", "V", "NL", "fi", "-", "SHY", "NBSP", "IDSP", "ALEF", "DOT", "COMMA", "SEMI", "COLON", "BANG", "RPAR", "A"}

// baseTokens is the size of the alphabet of the main families (the first tokens of the list)
const baseTokens = 10

// punctTokens: the alphabet of the punctuation family
var punctTokens = []int{0, 1, 10, 11, 12, 13, 14, 15, 16}

var (
	fontOnce   sync.Once
	faces      [3]*canvas.FontFace // DejaVuSerif 12pt, EBGaramond 10pt, LiberationSerif 12pt (nil if absent)
	fontErr    error
	faceLabels = []string{"DejaVuSerif-12pt", "EBGaramond-10pt", "LiberationSerif-12pt", "rich:DejaVuSerif-12pt+EBGaramond-10pt-after-token-2"}
)

func liberationPath() string {
	var roots []string
	if d := os.Getenv("GOMODCACHE"); d != "" {
		roots = append(roots, d)
	}
	if d := os.Getenv("GOPATH"); d != "" {
		roots = append(roots, filepath.Join(d, "pkg", "mod"))
	}
	if d, err := os.UserHomeDir(); err == nil {
		roots = append(roots, filepath.Join(d, "go", "pkg", "mod"))
	}
	roots = append(roots, "/root/go/pkg/mod")
	for _, r := range roots {
		p := filepath.Join(r, "codeberg.org/go-fonts/liberation@v0.5.0/liberationserifregular/LiberationSerif-Regular.ttf")
		if _, err := os.Stat(p); err == nil {
			return p
		}
	}
	return ""
}

func repoDir() string {
	if d := os.Getenv("REPO"); d != "" {
		return d
	}
	return "/repo"
}

func loadFonts() {
	fontOnce.Do(func() {
		load := func(name, file string, pt float64) *canvas.FontFace {
			fam := canvas.NewFontFamily(name)
			if err := fam.LoadFontFile(file, canvas.FontRegular); err != nil {
				fontErr = err
				return nil
			}
			return fam.Face(pt, canvas.Black, canvas.FontRegular, canvas.FontNormal)
		}
		faces[0] = load("dejavu-serif", filepath.Join(repoDir(), "resources/DejaVuSerif.ttf"), 12)
		faces[1] = load("eb-garamond", filepath.Join(repoDir(), "resources/EBGaramond12-Regular.otf"), 10)
		if p := liberationPath(); p != "" {
			faces[2] = load("liberation-serif", p, 12)
		}
	})
}

type config struct {
	faceMode int // 0,1,2 single face; 3 rich text
	width    float64
	halign   canvas.TextAlign
	indent   float64
	stretch  float64
	// vertical part (family "vertical"): box height and vertical alignment; otherwise height 0, Top
	vertical bool
	height   float64
	valign   canvas.TextAlign
	// reuse (rich text only): the RichText has held another text with a second face and an inline
	// object before and was Reset ("resets the rich text to its initial state")
	reuse bool
}

func (c config) String() string {
	s := fmt.Sprintf("face=%s width=%g halign=%v indent=%g lineStretch=%g", faceLabels[c.faceMode], c.width, c.halign, c.indent, c.stretch)
	if c.vertical {
		s += fmt.Sprintf(" height=%g valign=%v", c.height, c.valign)
	}
	if c.reuse {
		s += " RichText reused after WriteString(\"ab\"), WriteCanvas(2x3 mm), WriteFace(EBGaramond, \"cd\"), Reset()"
	}
	return s
}

var (
	boxWidths = []float64{0, 8, 11, 14, 25}
	haligns   = []canvas.TextAlign{canvas.Left, canvas.Right, canvas.Center, canvas.Justify}
	indents   = [][2]float64{{0, 0}, {3, 0.25}} // (indent, lineStretch)
)

func layout(toks []int, c config) (*canvas.Text, string) {
	var sb strings.Builder
	for _, t := range toks {
		sb.WriteString(tokens[t])
	}
	s := sb.String()
	height, valign := 0.0, canvas.Top
	if c.vertical {
		height, valign = c.height, c.valign
	}
	if c.faceMode < 3 {
		return canvas.NewTextBox(faces[c.faceMode], s, c.width, height, c.halign, valign, c.indent, c.stretch), s
	}
	rt := canvas.NewRichText(faces[0])
	if c.reuse {
		rt.WriteString("ab")
		rt.WriteCanvas(canvas.New(2, 3), canvas.Baseline)
		rt.WriteFace(faces[1], "cd")
		rt.Reset()
	}
	for i, t := range toks {
		if i < 2 {
			rt.WriteString(tokens[t])
		} else {
			rt.WriteFace(faces[1], tokens[t])
		}
	}
	return rt.ToText(c.width, height, c.halign, valign, c.indent, c.stretch), s
}

type glyphInfo struct {
	cluster int
	r       rune
	adv     float64 // displayed advance, mm
	nat     float64 // advance of the glyph in the font, mm
	unit    float64 // mm per font unit
}

type spanInfo struct {
	x, w      float64
	text      string
	lo        int         // byte offset of the span's text in the input
	glyphs    []glyphInfo // logical order
	asc, desc float64
}

type lineInfo struct {
	y      float64 // baseline, negative downwards
	spans  []spanInfo
	lo, hi int // covered byte range (valid if len(spans) > 0)
}

func isDroppable(r rune) bool {
	return text.IsSpace(r) || text.IsNewline(r) || r == '\u00AD' || r == '\u200B'
}

const eps = 1e-6 // mm

// CheckLayout lays out the token string under one configuration and checks every clause.
// It returns the lines it read and whether lines were dropped because of the box height.
func CheckLayout(r *fw.R, toks []int, c config) (result []lineInfo, dropped bool) {
	feat := features(toks)
	if c.width == 0 {
		feat += "; no-wrap(width=0)"
	}
	if c.vertical {
		feat += fmt.Sprintf("; valign=%v height=%g", c.valign, c.height)
	}
	viol := func(class, format string, a ...any) {
		r.Outcome("VIOLATION:" + class + " {" + feat + "}")
		if recorded[class+feat] < 4 {
			recorded[class+feat]++
			r.Violate(class, c.String()+": "+fmt.Sprintf(format, a...))
		}
	}
	t, in := layout(toks, c)
	r.Count("layouts", 1)

	// ---- read the result
	var lines []lineInfo
	malformed := ""
	t.WalkLines(func(y float64, spans []canvas.TextSpan) {
		ln := lineInfo{y: y}
		for _, sp := range spans {
			si := spanInfo{x: sp.X, w: sp.Width, text: sp.Text, lo: -1}
			m := sp.Face.Metrics()
			si.asc, si.desc = m.Ascent, m.Descent
			for _, g := range sp.Glyphs {
				si.glyphs = append(si.glyphs, glyphInfo{cluster: int(g.Cluster), r: g.Text,
					adv: float64(g.XAdvance) * sp.Face.MmPerEm, nat: naturalAdvance(sp.Face, in, int(g.Cluster)), unit: sp.Face.MmPerEm})
			}
			if sp.Direction == text.RightToLeft {
				for i, j := 0, len(si.glyphs)-1; i < j; i, j = i+1, j-1 {
					si.glyphs[i], si.glyphs[j] = si.glyphs[j], si.glyphs[i]
				}
			}
			if len(si.glyphs) == 0 {
				malformed = "span without glyphs"
				continue
			}
			si.lo = si.glyphs[0].cluster
			ln.spans = append(ln.spans, si)
		}
		lines = append(lines, ln)
	})
	result = lines
	if malformed != "" {
		viol("malformed-span", "%s", malformed)
		return
	}
	desc := func() string { return describe(lines) }

	// ---- 1. every character exactly once, in logical order; only line-end whitespace dropped
	ptr := 0
	orderOK := true
	type gap struct{ lo, hi int }
	var gaps []gap     // gaps[k] precedes the k-th non-empty line; a final one follows the last
	var nonEmpty []int // line indices with spans
	for j := range lines {
		ln := &lines[j]
		for k := range ln.spans {
			sp := &ln.spans[k]
			if sp.lo < 0 || sp.lo+len(sp.text) > len(in) || in[sp.lo:sp.lo+len(sp.text)] != sp.text {
				viol("span-text-not-a-substring-at-its-cluster", "line %d span %d text %q cluster %d; %s", j, k, sp.text, sp.lo, desc())
				orderOK = false
				continue
			}
			if sp.lo < ptr {
				viol("characters-repeated-or-out-of-order", "line %d span %d starts at byte %d but bytes up to %d were already laid out; %s", j, k, sp.lo, ptr, desc())
				orderOK = false
				continue
			}
			if k == 0 {
				gaps = append(gaps, gap{ptr, sp.lo})
				nonEmpty = append(nonEmpty, j)
				ln.lo = sp.lo
			} else if sp.lo != ptr {
				viol("characters-dropped-inside-a-line", "line %d: %q (bytes %d..%d) is missing between spans; %s", j, in[ptr:sp.lo], ptr, sp.lo, desc())
				orderOK = false
			}
			ptr = sp.lo + len(sp.text)
			ln.hi = ptr
			// glyphs: inside the span's range, increasing, showing the input's characters
			prev := -1
			for gi, g := range sp.glyphs {
				if g.cluster < sp.lo || g.cluster >= sp.lo+len(sp.text) || g.cluster <= prev {
					viol("glyph-clusters-not-increasing-within-span", "line %d span %d clusters %v; %s", j, k, clusters(sp.glyphs), desc())
					orderOK = false
					break
				}
				prev = g.cluster
				want, _ := utf8.DecodeRuneInString(in[g.cluster:])
				lastOfLine := k == len(ln.spans)-1 && gi == len(sp.glyphs)-1
				moreLines := j < len(lines)-1 || (c.vertical && c.height > 0) // lines may have been cut off by the box height
				if g.r != want && !(want == '\u00AD' && g.r == '-' && lastOfLine && moreLines) {
					viol("glyph-shows-another-character", "line %d span %d glyph %d shows %q for input %q; %s", j, k, gi, g.r, want, desc())
					orderOK = false
				}
				if want == '\u00AD' && lastOfLine && j < len(lines)-1 && g.r != '-' {
					viol("soft-hyphen-at-break-not-shown-as-hyphen", "line %d ends in a soft hyphen shown as %q; %s", j, g.r, desc())
				}
			}
		}
	}
	gaps = append(gaps, gap{ptr, len(in)})
	if !orderOK {
		r.Outcome("order-broken")
		return
	}
	for gi, g := range gaps {
		for _, ch := range in[g.lo:g.hi] {
			if !isDroppable(ch) {
				if gi == len(gaps)-1 && c.vertical && c.height > 0 {
					// neither the statement (it quantifies over the box width only) nor the doc comments say
					// what happens to lines that do not fit the height: tallied, and checked below only
					// against "another line would certainly have fitted"
					dropped = true
					break
				}
				viol("visible-character-dropped", "bytes %d..%d %q are not laid out; %s", g.lo, g.hi, in[g.lo:g.hi], desc())
				return
			}
		}
	}
	// explicit newlines always start a new line
	nl := func(g gap) int { return strings.Count(in[g.lo:g.hi], "\n") }
	newlineOK, extraEmpty := true, false
	switch {
	case len(in) == 0:
		newlineOK = len(lines) == 0
	case len(nonEmpty) == 0:
		newlineOK = len(lines) >= nl(gaps[0])+1
		extraEmpty = len(lines) > nl(gaps[0])+1
		if !newlineOK && c.vertical && c.height > 0 {
			newlineOK, dropped = true, true
		}
	default:
		// m newlines between two pieces of text put them at least m lines apart; empty lines beyond
		// that are not excluded by the statement and only tallied
		if nonEmpty[0] < nl(gaps[0]) {
			newlineOK = false
		}
		extraEmpty = nonEmpty[0] > nl(gaps[0])
		for k := 1; k < len(nonEmpty); k++ {
			d := nonEmpty[k] - nonEmpty[k-1]
			m := nl(gaps[k])
			if d < m {
				newlineOK = false
			}
			if d > 1 && d > m {
				extraEmpty = true
			}
		}
		tail := len(lines) - 1 - nonEmpty[len(nonEmpty)-1]
		if tail < nl(gaps[len(gaps)-1]) {
			if c.vertical && c.height > 0 {
				dropped = true // trailing (empty) lines cut off by the box height
			} else {
				newlineOK = false
			}
		}
		if tail > nl(gaps[len(gaps)-1]) {
			extraEmpty = true
		}
	}
	if extraEmpty {
		r.Outcome("empty-line-without-newline(not-excluded-by-statement)")
	}
	if !newlineOK {
		viol("newline-does-not-start-a-new-line", "%d lines for %d newlines; %s", len(lines), strings.Count(in, "\n"), desc())
	}
	softBreaks := 0
	for k := 1; k < len(nonEmpty); k++ {
		if nl(gaps[k]) == 0 {
			softBreaks++
		}
	}

	// ---- 2. lines stacked monotonically by their heights
	for j := 1; j < len(lines); j++ {
		need := 0.0
		if len(lines[j-1].spans) > 0 && len(lines[j].spans) > 0 {
			for _, sp := range lines[j-1].spans {
				need = math.Max(need, sp.desc)
			}
			a := 0.0
			for _, sp := range lines[j].spans {
				a = math.Max(a, sp.asc)
			}
			need += a
		}
		if !(lines[j-1].y-lines[j].y > 0) || lines[j-1].y-lines[j].y < need-eps {
			viol("lines-not-stacked-by-their-heights", "baseline %d at %.6g, baseline %d at %.6g, descent+ascent %.6g; %s", j-1, lines[j-1].y, j, lines[j].y, need, desc())
			break
		}
	}

	// ---- 3. spans on a line do not overlap; 4. fit; 5. alignment
	W := c.width
	for j := range lines {
		ln := &lines[j]
		if len(ln.spans) == 0 {
			continue
		}
		idx := make([]int, len(ln.spans))
		for i := range idx {
			idx[i] = i
		}
		sort.Slice(idx, func(a, b int) bool {
			p, q := ln.spans[idx[a]], ln.spans[idx[b]]
			if p.x != q.x {
				return p.x < q.x
			}
			return p.w < q.w // an empty interval at the start of another one overlaps nothing
		})
		for i := 1; i < len(idx); i++ {
			p, q := ln.spans[idx[i-1]], ln.spans[idx[i]]
			if !(p.x+p.w <= q.x+eps) {
				viol("spans-overlap", "line %d: [%.6g,%.6g) and [%.6g,%.6g); %s", j, p.x, p.x+p.w, q.x, q.x+q.w, desc())
				break
			}
		}
		start, end := math.Inf(1), math.Inf(-1)
		nglyph, unit := 0, 0.0
		for _, sp := range ln.spans {
			start = math.Min(start, sp.x)
			end = math.Max(end, sp.x+sp.w)
			nglyph += len(sp.glyphs)
			for _, g := range sp.glyphs {
				unit = math.Max(unit, g.unit)
			}
		}
		tol := eps + 2*unit*float64(nglyph) // D21: glue is stretched in whole font units
		ind := 0.0
		if j == 0 {
			ind = c.indent
		}
		sfx := ""
		if t.Overflows {
			sfx = "-in-overflowing-text"
		}
		if W > 0 && !t.Overflows {
			if end > W+eps && end <= W+tol {
				r.Max("tolerated_overshoot_beyond_width_in_font_units(limit=2/glyph)", (end-W)/unit)
				r.Max("tolerated_overshoot_beyond_width_per_glyph_in_font_units", (end-W)/unit/float64(nglyph))
			}
			if end > W+tol || start < -tol {
				viol("line-beyond-box-without-Overflows", "line %d spans [%.6g,%.6g], box width %g; %s", j, start, end, W, desc())
			}
		}
		lastOfParagraph := j == len(lines)-1
		if !lastOfParagraph {
			// the dropped characters after this line contain a newline
			for k, ne := range nonEmpty {
				if ne == j {
					lastOfParagraph = nl(gaps[k+1]) > 0
				}
			}
		}
		switch c.halign {
		case canvas.Left:
			if !(math.Abs(start-ind) <= eps) {
				viol("left-aligned-line-does-not-start-at-indent"+sfx, "line %d starts at %.9g, expected %g; %s", j, start, ind, desc())
			}
		case canvas.Right:
			if !(math.Abs(end-W) <= eps) {
				viol("right-aligned-line-does-not-end-at-width"+sfx, "line %d ends at %.9g, width %g; %s", j, end, W, desc())
			}
		case canvas.Center:
			if !(math.Abs((start-ind)-(W-end)) <= eps) {
				viol("centred-line-not-centred"+sfx, "line %d: left margin %.9g (after indent %g), right margin %.9g; %s", j, start-ind, ind, W-end, desc())
			}
		case canvas.Justify:
			if W == 0 || lastOfParagraph {
				break
			}
			// natural width / stretch / shrink of the line as shown. A space after a punctuation mark
			// (optionally followed by a closing bracket or quote) stretches by the package's
			// SentenceFactor / ColonFactor / SemicolonFactor / CommaFactor and shrinks by its inverse unless
			// the mark ends an abbreviation; which spaces count as such is not part of the statement, so
			// both extremes are computed (no space has a factor / every candidate has one) and the line
			// is only judged where they agree
			L, Y, Z := ind, 0.0, 0.0
			Ymax, Zmin := 0.0, 0.0
			firstVisible, lastVisible := leadingPad(in), trailingPad(in)
			factorBefore := func(c int) float64 {
				prev := []rune(in[:c])
				k := len(prev) - 1
				if k >= 0 && strings.ContainsRune(")]'\"", prev[k]) {
					k--
				}
				if k < 0 {
					return 1
				}
				switch prev[k] {
				case '.', '!', '?':
					return text.SentenceFactor
				case ':':
					return text.ColonFactor
				case ';':
					return text.SemicolonFactor
				case ',':
					return text.CommaFactor
				}
				return 1
			}
			for _, sp := range ln.spans {
				for _, g := range sp.glyphs {
					ch, _ := utf8.DecodeRuneInString(in[g.cluster:])
					if text.IsSpace(ch) && g.cluster >= firstVisible && g.cluster < lastVisible {
						f := 1.0
						if !text.FrenchSpacing {
							f = factorBefore(g.cluster)
						}
						L += g.nat
						Y += g.nat * text.SpaceStretch
						Z += g.nat * text.SpaceShrink
						Ymax += g.nat * text.SpaceStretch * f
						Zmin += g.nat * text.SpaceShrink / f
					} else {
						L += g.adv
					}
				}
			}
			ratioOf := func(Y, Z float64) float64 {
				switch {
				case L < W:
					if Y > 0 {
						return (W - L) / Y
					}
					return math.Inf(1)
				case L > W:
					if Z > 0 {
						return (W - L) / Z
					}
					return math.Inf(-1)
				}
				return 0
			}
			ratio, ratio2 := ratioOf(Y, Z), ratioOf(Ymax, Zmin)
			near := func(v float64) bool {
				return math.Abs(v+1) < 1e-6 || math.Abs(v-text.Tolerance) < 1e-6
			}
			if near(ratio) || near(ratio2) {
				r.Outcome("justify:ratio-too-close-to-a-limit(skipped)")
				break
			}
			within := func(v float64) bool { return v >= -1 && v <= text.Tolerance }
			if within(ratio) != within(ratio2) {
				r.Outcome("justify:depends-on-the-punctuation-space-factors(either way accepted)")
				if !(math.Abs(end-W) <= tol) && !(math.Abs(end-L) <= tol) {
					viol("justified-line-neither-at-width-nor-unstretched"+sfx, "line %d ends at %.9g, width %g, natural end %.9g; %s", j, end, W, L, desc())
				}
				break
			}
			if within(ratio) {
				r.Outcome("justify:line-within-tolerance")
				if !(math.Abs(end-W) <= tol) {
					viol("justified-line-within-tolerance-does-not-end-at-width"+sfx, "line %d ends at %.9g, width %g, needed ratio %.6g (L=%.6g Y=%.6g Z=%.6g); %s", j, end, W, ratio, L, Y, Z, desc())
				}
				if math.Abs(end-W) <= tol {
					r.Max("tolerated_justified_line_end_error_in_font_units", math.Abs(end-W)/unit)
				}
			} else {
				r.Outcome("justify:line-outside-tolerance")
				if !(math.Abs(end-L) <= tol) {
					viol("justified-line-outside-tolerance-not-left-unstretched"+sfx, "line %d ends at %.9g, natural end %.9g, needed ratio %.6g; %s", j, end, L, ratio, desc())
				}
			}
		}
	}

	// ---- 6. Bounds / Heights enclose all spans
	b := t.Bounds()
	top, bottom := t.Heights()
	for j, ln := range lines {
		for _, sp := range ln.spans {
			if sp.x < b.X0-eps || sp.x+sp.w > b.X1+eps || ln.y-sp.desc < b.Y0-eps || ln.y+sp.asc > b.Y1+eps {
				viol("Bounds-does-not-enclose-span", "line %d span [%.6g,%.6g]x[%.6g,%.6g] bounds %v; %s", j, sp.x, sp.x+sp.w, ln.y-sp.desc, ln.y+sp.asc, b, desc())
			}
			if ln.y+sp.asc > top+eps || -(ln.y-sp.desc) > bottom+eps {
				viol("Heights-do-not-enclose-span", "line %d span y-range [%.6g,%.6g], Heights top %.6g bottom %.6g; %s", j, ln.y-sp.desc, ln.y+sp.asc, top, bottom, desc())
			}
		}
	}

	if c.vertical {
		checkVertical(r, viol, t, in, lines, c, dropped, ptr, desc)
	}

	// ---- outcome classes
	switch {
	case t.Overflows:
		r.Outcome("overflows")
	case softBreaks > 0:
		r.Outcome(fmt.Sprintf("fits:soft-breaks=%d", softBreaks))
	default:
		r.Outcome("fits:no-soft-break")
	}
	r.Max("lines", float64(len(lines)))
	return
}

// maxLineHeight is the largest ascent+descent+line gap among the faces of a face mode.
func maxLineHeight(faceMode int) float64 {
	h := 0.0
	fs := []*canvas.FontFace{faces[0], faces[1]}
	if faceMode < 3 {
		fs = []*canvas.FontFace{faces[faceMode]}
	}
	for _, f := range fs {
		m := f.Metrics()
		h = math.Max(h, m.Ascent+m.Descent+m.LineGap)
	}
	return h
}

// checkVertical: vertical alignment, containment in the box height and what happens when the
// box is too low. Coordinates as WalkLines gives them: origin at the top left corner of the box
// (doc comment of RenderAsPath), y negative downwards, so the box is [-height, 0].
func checkVertical(r *fw.R, viol func(string, string, ...any), t *canvas.Text, in string, lines []lineInfo, c config, dropped bool, laidOutEnd int, desc func() string) {
	H := c.height
	tag := fmt.Sprintf("valign=%v,height=%g", c.valign, H)
	if dropped {
		r.Outcome(fmt.Sprintf("height-too-small:lines-dropped,Overflows=%v (not settled by statement/docs)", t.Overflows))
		// the Text field
		switch {
		case t.Text == in:
			r.Outcome("lines-dropped:Text-field=whole-input")
		case !strings.HasPrefix(in, t.Text):
			viol("Text-field-not-a-prefix-of-the-input", "Text=%q; %s", t.Text, desc())
		default:
			beyond := false
			if len(t.Text) > laidOutEnd {
				for _, ch := range in[laidOutEnd:len(t.Text)] {
					if !isDroppable(ch) {
						beyond = true
					}
				}
			}
			switch {
			case len(t.Text) < laidOutEnd:
				r.Outcome("lines-dropped:Text-field-shorter-than-what-is-laid-out")
			case beyond:
				r.Outcome("lines-dropped:Text-field-includes-characters-that-are-not-laid-out")
			default:
				r.Outcome("lines-dropped:Text-field=what-is-laid-out")
			}
		}
	} else if t.Text != in {
		r.Outcome("nothing-dropped-but-Text-field-differs-from-input")
	}
	if len(lines) == 0 {
		if dropped {
			r.Outcome("height-too-small:no-line-at-all")
		}
		return
	}
	// a dropped line although even the tallest line, stretched, with its gap, would certainly fit
	if dropped {
		used := lines[0].y - lines[len(lines)-1].y + maxLineHeight(c.faceMode)
		need := 2 * (1 + c.stretch) * maxLineHeight(c.faceMode)
		if H-used >= need+eps {
			viol("lines-dropped-although-another-line-certainly-fits", "height %g, lines use at most %.6g, a line needs at most %.6g; %s", H, used, need, desc())
		}
	}
	edge := func(ln lineInfo) (top, bottom float64, ok bool) {
		if len(ln.spans) == 0 {
			return 0, 0, false
		}
		a, d := 0.0, 0.0
		for _, sp := range ln.spans {
			a, d = math.Max(a, sp.asc), math.Max(d, sp.desc)
		}
		return ln.y + a, ln.y - d, true
	}
	// containment
	if H > 0 && !t.Overflows {
		for j, ln := range lines {
			if top, bottom, ok := edge(ln); ok && (top > eps || bottom < -H-eps) {
				viol("line-outside-box-height-without-Overflows", "line %d occupies y in [%.6g,%.6g], box [%g,0]; %s", j, bottom, top, -H, desc())
				break
			}
		}
	}
	top, _, okTop := edge(lines[0])
	_, bottom, okBottom := edge(lines[len(lines)-1])
	if H == 0 && c.valign != canvas.Top {
		// height 0 = "disabled" (doc comment); where the block goes for the other alignments is not said
		if okTop && okBottom {
			switch {
			case math.Abs(top) <= eps:
				r.Outcome(tag + ":block-hangs-from-origin")
			case math.Abs(bottom) <= eps:
				r.Outcome(tag + ":block-stands-on-origin")
			case math.Abs(top+bottom) <= eps:
				r.Outcome(tag + ":block-centred-on-origin")
			default:
				r.Outcome(tag + ":block-elsewhere")
			}
		}
		return
	}
	switch c.valign {
	case canvas.Top:
		if !okTop {
			r.Outcome("first-line-empty(top-edge-not-observable)")
		} else if !(math.Abs(top) <= eps) {
			viol("top-aligned-first-line-not-at-top", "top of first line at %.9g; %s", top, desc())
		} else {
			r.Outcome("valign-ok:Top")
		}
	case canvas.Bottom:
		if !okBottom {
			r.Outcome("last-line-empty(bottom-edge-not-observable)")
		} else if !(math.Abs(bottom+H) <= eps) {
			viol("bottom-aligned-last-line-not-at-bottom", "bottom of last line at %.9g, box bottom %g; %s", bottom, -H, desc())
		} else {
			r.Outcome("valign-ok:Bottom")
		}
	case canvas.Center, canvas.Middle:
		if !okTop || !okBottom {
			r.Outcome("first-or-last-line-empty(centring-not-observable)")
		} else if !(math.Abs(-top-(bottom+H)) <= eps) {
			viol("vertically-centred-block-not-centred", "margin above %.9g, below %.9g; %s", -top, bottom+H, desc())
		} else {
			r.Outcome("valign-ok:Center")
		}
	case canvas.Justify:
		switch {
		case dropped:
			// what Justify does with the lines that remain is not settled: tally
			if okTop && okBottom && math.Abs(top) <= eps && math.Abs(bottom+H) <= eps {
				r.Outcome("valign-Justify-after-dropping-lines:remaining-lines-justified")
			} else if okTop && math.Abs(top) <= eps {
				r.Outcome("valign-Justify-after-dropping-lines:as-Top")
			} else {
				r.Outcome("valign-Justify-after-dropping-lines:other")
			}
		case len(lines) == 1:
			if !okTop {
				r.Outcome("first-line-empty(top-edge-not-observable)")
			} else if !(math.Abs(top) <= eps) {
				viol("vertically-justified-single-line-not-at-top", "top of the only line at %.9g; %s", top, desc())
			} else {
				r.Outcome("valign-ok:Justify-single-line")
			}
		default:
			if !okTop || !okBottom {
				r.Outcome("first-or-last-line-empty(justification-not-observable)")
			} else if math.Abs(top) > eps || math.Abs(bottom+H) > eps {
				viol("vertically-justified-block-does-not-span-the-box", "top of first line %.9g, bottom of last line %.9g, box [%g,0]; %s", top, bottom, -H, desc())
			} else {
				r.Outcome("valign-ok:Justify")
			}
		}
	}
}

// naturalAdvance is the unstretched advance of the character at byte offset c: what the shaper
// gives for that character alone (U+3000 is synthesised by the shaper, so the font's hmtx entry
// of the shown glyph is not it). Only used for space characters.
var natCache = map[*canvas.FontFace]map[rune]float64{}

// shaped holds, for the string being checked, the advance the shaper gave to each cluster in
// context (kerning against neighbours included). It is read from the no-wrap, left-aligned
// layout of the same string, where advances are passed through unmodified; this uses canvas only
// as the caller of the (trusted) shaper. Clusters dropped there fall back to the isolated advance.
var shaped = map[int]float64{}

func readShaped(toks []int, faceMode int) {
	shaped = map[int]float64{}
	t, _ := layout(toks, config{faceMode: faceMode, halign: canvas.Left})
	t.WalkLines(func(_ float64, spans []canvas.TextSpan) {
		for _, sp := range spans {
			for _, g := range sp.Glyphs {
				shaped[int(g.Cluster)] = float64(g.XAdvance) * sp.Face.MmPerEm
			}
		}
	})
}

func naturalAdvance(face *canvas.FontFace, in string, c int) float64 {
	if c < 0 || c >= len(in) {
		return 0
	}
	if v, ok := shaped[c]; ok {
		return v
	}
	ch, _ := utf8.DecodeRuneInString(in[c:])
	m := natCache[face]
	if m == nil {
		m = map[rune]float64{}
		natCache[face] = m
	}
	v, ok := m[ch]
	if !ok {
		v = face.TextWidth(string(ch))
		m[ch] = v
	}
	return v
}

// features of the INPUT that the known root causes need (triage and known-finding keys).
func features(toks []int) string {
	var fs []string
	spaceBeforeNL, spaceAfterNL, nonBoxBeforeSHY, rtl, twoSpaces := false, false, false, false, false
	for i, t := range toks {
		ch := []rune(tokens[t])[0]
		if i > 0 {
			prev := []rune(tokens[toks[i-1]])[0]
			if ch == '\n' && text.IsSpace(prev) {
				spaceBeforeNL = true
			}
			if prev == '\n' && text.IsSpace(ch) {
				spaceAfterNL = true
			}
			if text.IsSpace(prev) && text.IsSpace(ch) {
				twoSpaces = true
			}
			if ch == '\u00AD' && (text.IsSpace(prev) || prev == '\u00AD' || prev == '\n') {
				nonBoxBeforeSHY = true
			}
		} else if ch == '\u00AD' {
			nonBoxBeforeSHY = true
		}
		if ch == '\u05D0' {
			rtl = true
		}
	}
	if spaceBeforeNL {
		fs = append(fs, "space-before-newline")
	}
	if spaceAfterNL {
		fs = append(fs, "space-after-newline")
	}
	if twoSpaces {
		fs = append(fs, "consecutive-spaces")
	}
	if nonBoxBeforeSHY {
		fs = append(fs, "soft-hyphen-not-after-a-letter")
	}
	if rtl {
		fs = append(fs, "rtl")
	}
	if len(fs) == 0 {
		return "plain"
	}
	return strings.Join(fs, "+")
}

func hasFeature(f string) func(v *fw.Violation) bool {
	return func(v *fw.Violation) bool {
		k := strings.LastIndex(v.Case, " features=")
		if k < 0 {
			return false
		}
		for _, x := range strings.Split(v.Case[k+len(" features="):], "+") {
			if x == f {
				return true
			}
		}
		return false
	}
}

func leadingPad(in string) int {
	for i, ch := range in {
		if !text.IsSpace(ch) {
			return i
		}
	}
	return len(in)
}

func trailingPad(in string) int {
	end := len(in)
	for end > 0 {
		ch, n := utf8.DecodeLastRuneInString(in[:end])
		if !text.IsSpace(ch) {
			break
		}
		end -= n
	}
	return end
}

func clusters(gs []glyphInfo) []int {
	out := make([]int, len(gs))
	for i, g := range gs {
		out[i] = g.cluster
	}
	return out
}

func describe(lines []lineInfo) string {
	var sb strings.Builder
	sb.WriteString("laid out as")
	for j, ln := range lines {
		fmt.Fprintf(&sb, " | line %d y=%.4g:", j, ln.y)
		for _, sp := range ln.spans {
			fmt.Fprintf(&sb, " %q@[%.5g,%.5g]", sp.text, sp.x, sp.x+sp.w)
		}
	}
	return sb.String()
}

var recorded = map[string]int{}

func seqCount(k, maxLen int) int64 {
	n, p := int64(0), int64(1)
	for l := 0; l <= maxLen; l++ {
		n += p
		p *= int64(k)
	}
	return n
}

func decode(i int64, k int) []int {
	l, p := 0, int64(1)
	for i >= p {
		i -= p
		p *= int64(k)
		l++
	}
	d := make([]int, l)
	for j := l - 1; j >= 0; j-- {
		d[j] = int(i % int64(k))
		i /= int64(k)
	}
	return d
}

func fmtTokens(toks []int) string {
	var names []string
	var sb strings.Builder
	for _, t := range toks {
		names = append(names, tokenNames[t])
		sb.WriteString(tokens[t])
	}
	return fmt.Sprintf("%q tokens=%s", sb.String(), strings.Join(names, ","))
}

func family(faceMode, maxLen int) fw.Family {
	return fw.Family{
		Name: "strings x " + faceLabels[faceMode], N: seqCount(baseTokens, maxLen),
		Check: func(i int64, r *fw.R) {
			loadFonts()
			if fontErr != nil {
				panic(fontErr)
			}
			toks := decode(i, baseTokens)
			if faceMode == 3 && len(toks) < 3 {
				r.Outcome("rich-text-needs-3-tokens(skipped)")
				return
			}
			visible := 0
			for _, t := range toks {
				if !isDroppable([]rune(tokens[t])[0]) {
					visible++
				}
			}
			if visible >= 2 {
				r.NontrivialIdx()
			}
			readShaped(toks, faceMode)
			for _, w := range boxWidths {
				for _, h := range haligns {
					for _, in := range indents {
						CheckLayout(r, toks, config{faceMode: faceMode, width: w, halign: h, indent: in[0], stretch: in[1]})
					}
				}
			}
		},
		Desc: func(i int64) string {
			toks := decode(i, baseTokens)
			return fmtTokens(toks) + " features=" + features(toks)
		},
	}
}

// reuseFamily: the rich text of family 3 laid out by a RichText that was used for another text (with an
// inline object and a second face) and Reset: whatever Reset leaves behind shows in the next text.
func reuseFamily(maxLen int) fw.Family {
	return fw.Family{
		Name: "strings x " + faceLabels[3] + ", RichText reused after Reset", N: seqCount(baseTokens, maxLen),
		Check: func(i int64, r *fw.R) {
			loadFonts()
			if fontErr != nil {
				panic(fontErr)
			}
			toks := decode(i, baseTokens)
			if len(toks) < 3 {
				r.Outcome("rich-text-needs-3-tokens(skipped)")
				return
			}
			r.NontrivialIdx()
			readShaped(toks, 3)
			for _, w := range []float64{0, 11, 25} {
				for _, h := range []canvas.TextAlign{canvas.Left, canvas.Justify} {
					CheckLayout(r, toks, config{faceMode: 3, width: w, halign: h, reuse: true})
				}
			}
		},
		Desc: func(i int64) string {
			toks := decode(i, baseTokens)
			return fmtTokens(toks) + " features=" + features(toks)
		},
	}
}

// paragraphFamily: a first line, an explicit newline, 0..2 spaces, and a paragraph of 4 or 5 words
// that wraps in the narrower boxes (the strings of the main families are too short for a wrapped
// paragraph after a newline).
func paragraphFamily(faceMode int) fw.Family {
	const a, sp, v, nl, fi = 0, 1, 2, 3, 4
	firsts := [][]int{{a}, {a, sp, v}}
	paras := [][]int{{a, sp, v, sp, fi, sp, a}, {v, a, sp, fi, sp, a, a, sp, v, sp, a}, {fi, sp, a, sp, a, v, sp, fi, sp, v}}
	build := func(i int64) []int {
		d := []int{int(i) % len(firsts), int(i) / len(firsts) % 3, int(i) / len(firsts) / 3}
		toks := append([]int{}, firsts[d[0]]...)
		toks = append(toks, nl)
		for k := 0; k < d[1]; k++ {
			toks = append(toks, sp)
		}
		return append(toks, paras[d[2]]...)
	}
	return fw.Family{
		Name: "first line, newline, 0..2 spaces, a paragraph of 4 or 5 words that wraps x " + faceLabels[faceMode], N: int64(len(firsts) * 3 * len(paras)),
		Check: func(i int64, r *fw.R) {
			loadFonts()
			if fontErr != nil {
				panic(fontErr)
			}
			toks := build(i)
			r.NontrivialIdx()
			readShaped(toks, faceMode)
			for _, w := range boxWidths {
				for _, h := range haligns {
					CheckLayout(r, toks, config{faceMode: faceMode, width: w, halign: h})
				}
			}
		},
		Desc: func(i int64) string {
			toks := build(i)
			return fmtTokens(toks) + " features=" + features(toks)
		},
	}
}

// punctFamily: strings over {a, space, . , ; : ! ) A}: sentence, colon, semicolon and comma spacing
// of justified text (the space after a punctuation mark stretches by its own factor), closing
// brackets and capitals before the mark.
func punctFamily(faceMode, maxLen int) fw.Family {
	k := len(punctTokens)
	dec := func(i int64) []int {
		d := decode(i, k)
		for j := range d {
			d[j] = punctTokens[d[j]]
		}
		return d
	}
	return fw.Family{
		Name: "punctuation strings x " + faceLabels[faceMode], N: seqCount(k, maxLen),
		Check: func(i int64, r *fw.R) {
			loadFonts()
			if fontErr != nil {
				panic(fontErr)
			}
			toks := dec(i)
			visible := 0
			for _, t := range toks {
				if !isDroppable([]rune(tokens[t])[0]) {
					visible++
				}
			}
			if visible >= 2 {
				r.NontrivialIdx()
			}
			readShaped(toks, faceMode)
			for _, w := range boxWidths {
				for _, h := range haligns {
					CheckLayout(r, toks, config{faceMode: faceMode, width: w, halign: h, indent: indents[0][0], stretch: indents[0][1]})
				}
			}
		},
		Desc: func(i int64) string {
			toks := dec(i)
			return fmtTokens(toks) + " features=" + features(toks)
		},
	}
}

// verticalFamily: box height x vertical alignment (and the line-stretch relation) over a reduced
// string set.
func verticalFamily(faceMode, maxLen int, withMiddle bool) fw.Family {
	heights := []float64{0, 30, 8}
	valigns := []canvas.TextAlign{canvas.Top, canvas.Center, canvas.Bottom, canvas.Justify}
	if withMiddle {
		valigns = append(valigns, canvas.Middle)
	}
	const stretch = 0.25
	return fw.Family{
		Name: "vertical: strings x heights x valigns x " + faceLabels[faceMode], N: seqCount(baseTokens, maxLen),
		Check: func(i int64, r *fw.R) {
			loadFonts()
			if fontErr != nil {
				panic(fontErr)
			}
			toks := decode(i, baseTokens)
			if faceMode == 3 && len(toks) < 3 {
				r.Outcome("rich-text-needs-3-tokens(skipped)")
				return
			}
			if len(toks) >= 2 {
				r.NontrivialIdx()
			}
			readShaped(toks, faceMode)
			for _, w := range []float64{8, 25} {
				for _, h := range []canvas.TextAlign{canvas.Left, canvas.Justify} {
					for _, H := range heights {
						for _, va := range valigns {
							c := config{faceMode: faceMode, width: w, halign: h, vertical: true, height: H, valign: va}
							l0, d0 := CheckLayout(r, toks, c)
							c.stretch = stretch
							l1, d1 := CheckLayout(r, toks, c)
							// line stretch: "percentage to stretch the line based on the line height"
							if va == canvas.Justify || d0 || d1 || len(l0) != len(l1) || len(l0) < 2 {
								continue
							}
							for j := 1; j < len(l0); j++ {
								a, b := l0[j-1].y-l0[j].y, l1[j-1].y-l1[j].y
								inclGap := math.Abs(b-(1+stretch)*a) <= eps
								exclGap := false
								if len(l0[j-1].spans) > 0 && len(l0[j].spans) > 0 {
									d, as := 0.0, 0.0
									for _, sp := range l0[j-1].spans {
										d = math.Max(d, sp.desc)
									}
									for _, sp := range l0[j].spans {
										as = math.Max(as, sp.asc)
									}
									exclGap = math.Abs(b-a-stretch*(d+as)) <= eps
								}
								switch {
								case inclGap:
									r.Outcome("line-stretch:baseline-distance x (1+stretch)")
								case exclGap:
									r.Outcome("line-stretch:baseline-distance + stretch x (descent+ascent)")
								default:
									r.Outcome("VIOLATION:line-stretch-not-the-documented-amount {" + features(toks) + "}")
									if recorded["line-stretch"] < 6 {
										recorded["line-stretch"]++
										r.Violate("line-stretch-not-the-documented-amount", fmt.Sprintf("%s: baselines %d,%d are %.9g apart without and %.9g apart with lineStretch=%g; without: %s; with: %s",
											c.String(), j-1, j, a, b, stretch, describe(l0), describe(l1)))
									}
								}
							}
						}
					}
				}
			}
		},
		Desc: func(i int64) string {
			toks := decode(i, baseTokens)
			return fmtTokens(toks) + " features=" + features(toks)
		},
	}
}

func families(tier string) []fw.Family {
	n := 4
	if tier == "thorough" {
		n = 5
	}
	fs := []fw.Family{family(0, n), family(1, n)}
	if liberationPath() != "" {
		fs = append(fs, family(2, n))
	}
	fs = append(fs, family(3, n), reuseFamily(n))
	// vertical alignment and box height
	fs = append(fs, verticalFamily(0, n-1, true), verticalFamily(1, n-1, true))
	if liberationPath() != "" {
		fs = append(fs, verticalFamily(2, n-1, true))
	}
	fs = append(fs, verticalFamily(3, n-1, true))
	fs = append(fs, breaksFamily(), textLineFamily(), punctFamily(0, n+1), punctFamily(1, n+1), paragraphFamily(0), paragraphFamily(1))
	if only := os.Getenv("C16_ONLY"); only != "" { // development aid
		var sel []fw.Family
		for _, f := range fs {
			if strings.Contains(f.Name, only) {
				sel = append(sel, f)
			}
		}
		return sel
	}
	return fs
}

// Prop is the C16 check.
func Prop() *fw.Property {
	as := []string{
		"horizontal writing mode; vertical modes, inline objects and more than 5 tokens (4 in the vertical-alignment family) are outside the bound",
		"vertical family: origin = top left corner of the box, y negative downwards (doc comment of RenderAsPath), so the box is [-height,0]; Top: top of first line (baseline+ascent) at 0; Bottom: bottom of last line (baseline-descent) at -height; Center/Middle: equal margins; Justify: both, for >= 2 lines; a single line as Top; edges are only observable on lines that have spans",
		"not settled by the statement (it quantifies over the box width only) or the doc comments, therefore tallied and not asserted: what happens to lines that do not fit the box height (observed: silently dropped, Overflows stays false), the content of the Text field after that, what vertical Justify does with the remaining lines, and where the block goes for Bottom/Center/Middle with height 0; asserted there: the laid-out part is still an ordered prefix, Text is a prefix of the input, and no line is dropped while 2 x (1+lineStretch) x the tallest line height would still fit",
		"line stretch ('percentage to stretch the line based on the line height'): the baseline distance with lineStretch s must be (1+s) x the distance without it, or the distance plus s x (descent+ascent) (the two readings of 'line height'); which one holds is tallied",
		"the shaper and the bidi algorithm are trusted: glyph clusters and embedding levels are taken as given",
		"a justified line may end up to 2 font units per glyph away from the box width (glue is stretched in whole font units, DESIGN D21); the observed maximum is reported",
		"box width 0 means 'no wrapping' (API doc); the fit clause is not applied there",
		"dropped characters may be spaces, newlines, soft hyphens and zero-width spaces next to a line end; alignment of the first line is measured after the indent",
		"natural advance of a stretched space = the advance the shaper gave it in context, read from the no-wrap left-aligned layout of the same string (advances are passed through unmodified there); stretch/shrink = advance x text.SpaceStretch / text.SpaceShrink (no punctuation in the alphabet)",
	}
	if liberationPath() == "" {
		as = append(as, "Liberation Serif was not found in the module cache: the third face is dropped (the Hebrew letter is then only laid out as .notdef)")
	}
	return &fw.Property{
		ID:    "C16",
		Level: "exploration",
		Rule: "every string of <= 4 (quick) / 5 (thorough) tokens over {a, V, fi, space, soft hyphen, no-break space, newline, hyphen, U+05D0, U+3000} x faces {DejaVuSerif 12pt, EBGaramond 10pt, Liberation Serif 12pt, RichText switching DejaVuSerif->EBGaramond after token 2} " +
			"x box widths {0,8,11,14,25} mm x {Left,Right,Center,Justify} x (indent,lineStretch) in {(0,0),(3,0.25)}; one evaluation = one string and face under all 40 configurations; non-trivial = at least two visible characters; " +
			"vertical family: every string of <= 3 (quick) / 4 (thorough) tokens x the same faces x widths {8,25} x {Left,Justify} x heights {0, 30, 8} mm x valign {Top,Center,Middle,Bottom,Justify} x lineStretch {0,0.25} = 120 layouts per evaluation, each pair of stretches compared",
		Assumptions: as,
		Families:    families,
		KnownPredicates: map[string]func(*fw.Violation) bool{
			"space-before-newline":           hasFeature("space-before-newline"),
			"space-after-newline":            hasFeature("space-after-newline"),
			"consecutive-spaces":             hasFeature("consecutive-spaces"),
			"soft-hyphen-not-after-a-letter": hasFeature("soft-hyphen-not-after-a-letter"),
			"rtl":                            hasFeature("rtl"),
			"no-wrap":                        func(v *fw.Violation) bool { return strings.Contains(v.Detail, " width=0 ") },
		},
	}
}
