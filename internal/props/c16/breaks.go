package c16

import (
	"fmt"
	"regexp"
	"strings"

	"github.com/tdewolff/canvas"

	"verif/internal/fw"
	"verif/internal/oracle"
)

// Explicit line breaks: every line break sequence the layout recognises (LF, CR, CR LF, VT, FF,
// NEL, LS, PS) between two or three words, x faces x alignments x widths: every break starts a
// new line (CR LF counts once), each line carries exactly its word, the break characters are
// not laid out, lines descend.

var breakSeqs = []string{"\n", "\r", "\r\n", "\v", "\f", "\u0085", " ", " ", "\n\n", "\r\n\r\n", "\n\r"}
var breakRe = regexp.MustCompile("\r\n|[\n\r\v\f\u0085\u2028\u2029]")
var breakWords = [][]string{{"fi", "Va"}, {"a", "V", "fi"}, {"aV", "", "a"}}

func checkBreaks(r *fw.R, face, seq, words, halign, width int) {
	loadFonts()
	ws := breakWords[words]
	s := strings.Join(ws, breakSeqs[seq])
	t := canvas.NewTextBox(faces[face], s, []float64{0, 40}[width], 0, haligns[halign], canvas.Top, 0, 0)
	var lines []string
	var ys []float64
	t.WalkLines(func(y float64, spans []canvas.TextSpan) {
		var sb strings.Builder
		for _, sp := range spans {
			sb.WriteString(sp.Text)
		}
		lines = append(lines, sb.String())
		ys = append(ys, y)
	})
	// expected lines: the string split at every break sequence, CR LF counting once
	want := breakRe.Split(s, -1)
	strip := func(l string) string { return strings.TrimRight(l, " ") }
	ok := len(lines) == len(want)
	for i := 0; ok && i < len(lines); i++ {
		ok = strip(lines[i]) == want[i]
	}
	if !ok {
		r.Violate("explicit-break", fmt.Sprintf("%q laid out as lines %q, expected %q", s, lines, want))
		return
	}
	for i := 1; i < len(ys); i++ {
		if !(ys[i] < ys[i-1]) {
			r.Violate("explicit-break-order", fmt.Sprintf("%q: line %d at y=%g is not below line %d at y=%g", s, i, ys[i], i-1, ys[i-1]))
			return
		}
	}
	r.NontrivialIdx()
	r.Outcome("explicit-breaks-ok")
}

func breaksFamily() fw.Family {
	nf := 2
	rad := []int{nf, len(breakSeqs), len(breakWords), len(haligns), 2}
	return fw.Family{Name: "explicit line breaks: 11 break sequences x words x faces x alignments x widths", N: oracle.Prod(rad...),
		Check: func(i int64, r *fw.R) {
			g := oracle.Digits(i, rad...)
			checkBreaks(r, g[0], g[1], g[2], g[3], g[4])
		},
		Desc: func(i int64) string {
			g := oracle.Digits(i, rad...)
			return fmt.Sprintf("NewTextBox(face %d, %q, width %g, %v)", g[0], strings.Join(breakWords[g[2]], breakSeqs[g[1]]), []float64{0, 40}[g[4]], haligns[g[3]])
		}}
}
