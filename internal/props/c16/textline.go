package c16

import (
	"fmt"
	"math"
	"sort"
	"strings"

	"github.com/tdewolff/canvas"

	"verif/internal/fw"
	"verif/internal/oracle"
)

// NewTextLine (single-line layout, also used for every line of a multi-line string): all strings
// of at most 3 tokens over {a, V, fi, space, a Greek letter, a Hebrew letter, newline} x faces x
// {Left, Center, Right}: the spans of a line (several when the script or the direction changes)
// follow each other without gap or overlap, the line starts at 0 (Left), ends at 0 (Right) or is
// centred on 0 (Center), lines descend, and every character is laid out once.

var lineTokens = []string{"a", "V", "fi", " ", "β", "א", "\n"}
var lineAligns = []canvas.TextAlign{canvas.Left, canvas.Center, canvas.Right}

func checkTextLine(r *fw.R, face int, toks []int, align int) {
	loadFonts()
	var sb strings.Builder
	for _, t := range toks {
		sb.WriteString(lineTokens[t])
	}
	s := sb.String()
	t := canvas.NewTextLine(faces[face], s, lineAligns[align])
	type span struct {
		x, w float64
		text string
	}
	var lines [][]span
	var ys []float64
	t.WalkLines(func(y float64, spans []canvas.TextSpan) {
		var l []span
		for _, sp := range spans {
			l = append(l, span{sp.X, sp.Width, sp.Text})
		}
		lines = append(lines, l)
		ys = append(ys, y)
	})
	// lines without characters carry no spans and are not reported by WalkLines
	var want []string
	for _, l := range strings.Split(s, "\n") {
		if l != "" {
			want = append(want, l)
		}
	}
	if len(lines) != len(want) {
		r.Violate("textline-lines", fmt.Sprintf("%q laid out in %d lines, expected %d", s, len(lines), len(want)))
		return
	}
	multi := false
	for li, l := range lines {
		// every character of the line once (spans in logical order as WalkLines gives them)
		var txt strings.Builder
		for _, sp := range l {
			txt.WriteString(sp.text)
		}
		if txt.String() != want[li] {
			r.Violate("textline-text", fmt.Sprintf("%q line %d carries %q, expected %q", s, li, txt.String(), want[li]))
			return
		}
		if len(l) == 0 {
			continue
		}
		if len(l) > 1 {
			multi = true
		}
		vis := append([]span(nil), l...)
		sort.Slice(vis, func(i, j int) bool { return vis[i].x < vis[j].x })
		total := 0.0
		for i, sp := range vis {
			total += sp.w
			if i > 0 && math.Abs(vis[i-1].x+vis[i-1].w-sp.x) > 1e-9 {
				r.Violate("textline-spans-not-adjacent", fmt.Sprintf("%q %v line %d: span %q covers [%.6g,%.6g], the next span %q starts at %.6g", s, lineAligns[align], li, vis[i-1].text, vis[i-1].x, vis[i-1].x+vis[i-1].w, sp.text, sp.x))
				return
			}
		}
		lo, hi := vis[0].x, vis[len(vis)-1].x+vis[len(vis)-1].w
		var ok bool
		switch lineAligns[align] {
		case canvas.Left:
			ok = math.Abs(lo) <= 1e-9
		case canvas.Right:
			ok = math.Abs(hi) <= 1e-9
		default:
			ok = math.Abs(lo+hi) <= 1e-9
		}
		if !ok || math.Abs(hi-lo-total) > 1e-9 {
			r.Violate("textline-alignment", fmt.Sprintf("%q %v line %d covers [%.6g,%.6g] with spans of total width %.6g", s, lineAligns[align], li, lo, hi, total))
			return
		}
	}
	for i := 1; i < len(ys); i++ {
		if !(ys[i] < ys[i-1]) {
			r.Violate("textline-order", fmt.Sprintf("%q: line %d at y=%g is not below line %d at y=%g", s, i, ys[i], i-1, ys[i-1]))
			return
		}
	}
	r.NontrivialIdx()
	if multi {
		r.Outcome("textline-ok:several-spans-on-a-line")
	} else {
		r.Outcome("textline-ok")
	}
}

func textLineFamily() fw.Family {
	var strs [][]int
	var rec func(p []int)
	rec = func(p []int) {
		if len(p) > 0 {
			strs = append(strs, append([]int(nil), p...))
		}
		if len(p) == 3 {
			return
		}
		for t := range lineTokens {
			rec(append(p, t))
		}
	}
	rec(nil)
	rad := []int{2, len(strs), len(lineAligns)}
	return fw.Family{Name: "NewTextLine: strings of <= 3 tokens over {a, V, fi, space, Greek, Hebrew, newline} x 2 faces x {Left, Center, Right}", N: oracle.Prod(rad...),
		Check: func(i int64, r *fw.R) {
			g := oracle.Digits(i, rad...)
			checkTextLine(r, g[0], strs[g[1]], g[2])
		},
		Desc: func(i int64) string {
			g := oracle.Digits(i, rad...)
			var sb strings.Builder
			for _, t := range strs[g[1]] {
				sb.WriteString(lineTokens[t])
			}
			return fmt.Sprintf("NewTextLine(face %d, %q, %v)", g[0], sb.String(), lineAligns[g[2]])
		}}
}
