package c13

import (
	"testing"
	"time"

	"verif/internal/fw"
)

// The state key must not depend on the wall clock (CreationDate, head.modified of subsetted
// font programs), and the verdict must not either.
func TestStateKeyIgnoresClock(t *testing.T) {
	al := alphabet()
	for _, o := range allOpts {
		for _, k := range []int{8, 11, 12} {
			hist := []action{al[k], al[0], al[k]}
			d1, m, _, _ := runRecover(o, hist)
			time.Sleep(1100 * time.Millisecond)
			d2, _, _, _ := runRecover(o, hist)
			f1, k1 := validate(d1, m, fw.NewR("C13"))
			f2, k2 := validate(d2, m, fw.NewR("C13"))
			if k1 != k2 || len(f1) != len(f2) {
				t.Errorf("%v %s: keys %x %x findings %v %v", o, al[k].name, k1[:4], k2[:4], f1, f2)
			}
		}
	}
}
