// Package c13: every PDF produced by the PDF renderer is a structurally valid PDF file and
// stores the document information verbatim.
//
// Engine S as complete index spaces: a case is (options, history) where the history is a word
// over the action alphabet below; every history runs on a fresh pdf.New writer, is closed, and
// the bytes are parsed by internal/pdfread (written from ISO 32000-1, shares nothing with the
// writer) and checked against every clause of the statement.
package c13

import (
	"bytes"
	"crypto/sha1"
	"fmt"
	"image"
	"image/color"
	"image/jpeg"
	"math"
	"os"
	"regexp"
	"sort"
	"strings"
	"unicode/utf16"

	"github.com/tdewolff/canvas"
	"github.com/tdewolff/canvas/renderers/pdf"

	"verif/internal/fw"
	"verif/internal/oracle"
	"verif/internal/pdfread"
)

// ---------------------------------------------------------------------------------------------
// model of what was asked of the writer (the expectation; never derived from the output)

type pageModel struct {
	w, h   float64
	paths  int
	texts  int
	images int
	links  []string
}

type model struct {
	pages []pageModel
	info  [5]string // title, subject, keywords, author, creator
	lang  string
}

var infoKeys = [5]pdfread.Name{"Title", "Subject", "Keywords", "Author", "Creator"}

// doc is one running history.
type doc struct {
	p     *pdf.PDF
	buf   *bytes.Buffer
	m     model
	calls int64
	fonts map[string]*canvas.Font // loaded fresh per document: the writer mutates font objects
	grad  *canvas.LinearGradient  // one gradient object used by several draws of the document
}

func (d *doc) sharedGradient() *canvas.LinearGradient {
	if d.grad == nil {
		d.grad = canvas.NewLinearGradient(canvas.Point{X: 0, Y: 0}, canvas.Point{X: 10, Y: 4})
		d.grad.Add(0, canvas.Green)
		d.grad.Add(1, canvas.Blue)
	}
	return d.grad
}

func (d *doc) page() *pageModel { return &d.m.pages[len(d.m.pages)-1] }

// ---------------------------------------------------------------------------------------------
// shared immutable inputs

var fontFiles = map[string]string{
	"DejaVuSerif": "/repo/resources/DejaVuSerif.ttf",          // TrueType outlines
	"EBGaramond":  "/repo/resources/EBGaramond12-Regular.otf", // CFF outlines
}
var fontBytes = map[string][]byte{}

func (d *doc) font(name string) *canvas.Font {
	if f, ok := d.fonts[name]; ok {
		return f
	}
	b, ok := fontBytes[name]
	if !ok {
		var err error
		b, err = os.ReadFile(fontFiles[name])
		if err != nil {
			panic(err)
		}
		fontBytes[name] = b
	}
	f, err := canvas.LoadFont(b, 0, canvas.FontRegular)
	if err != nil {
		panic(err)
	}
	d.fonts[name] = f
	return f
}

var imgOpaque, imgAlpha, imgGray image.Image

func init() {
	o := image.NewNRGBA(image.Rect(0, 0, 3, 2))
	a := image.NewNRGBA(image.Rect(0, 0, 2, 2))
	for y := 0; y < 2; y++ {
		for x := 0; x < 3; x++ {
			o.SetNRGBA(x, y, color.NRGBA{uint8(40 + 70*x), uint8(200 - 90*y), uint8(10 + 30*x*y), 255})
		}
		for x := 0; x < 2; x++ {
			a.SetNRGBA(x, y, color.NRGBA{uint8(250 - 100*x), uint8(13 + 100*y), 40, uint8(255 - 120*x - 100*y)})
		}
	}
	imgOpaque, imgAlpha = o, a
	g := image.NewGray(image.Rect(0, 0, 3, 2))
	for y := 0; y < 2; y++ {
		for x := 0; x < 3; x++ {
			g.SetGray(x, y, color.Gray{uint8(30 + 60*x + 40*y)})
		}
	}
	imgGray = g
}

// all printable ASCII characters: more than 92 distinct glyphs, so that the two-byte glyph codes
// written into the TJ strings take the values 0x0A, 0x0D, 0x28, 0x29 and 0x5C.
var ascii95 = func() string {
	var b []byte
	for c := byte(0x20); c < 0x7F; c++ {
		b = append(b, c)
	}
	return string(b)
}()

// metadata values (simplest first). "Tč" is 00 54 01 0D in UTF-16BE (a CR byte), "⠩" is 28 29
// (both parentheses), "尼" is 5C 3C (a backslash); the last value has CR LF and unbalanced
// parentheses in an ASCII string.
var infoValues = []string{"", "Plain title", "a(b)\\c", "Ünï", "Tč", "⠩尼", "x)\r\n(y", "C:\\dir\\", "Ŝ", "clef 𝄞 😀"}

// ---------------------------------------------------------------------------------------------
// the action alphabet

type action struct {
	name string
	run  func(d *doc)
}

func tri() *canvas.Path { return canvas.MustParseSVGPath("M1 1L9 1L5 7z") }

func pathAction(name string, mk func() (*canvas.Path, canvas.Style)) action {
	return action{name, func(d *doc) {
		p, st := mk()
		d.p.RenderPath(p, st, canvas.Identity.Translate(3, 4))
		d.page().paths++
	}}
}

func textAction(name, font, s string, mkFace func(f *canvas.Font) *canvas.FontFace) action {
	return action{name, func(d *doc) {
		face := mkFace(d.font(font))
		d.p.RenderText(canvas.NewTextLine(face, s, canvas.Left), canvas.Identity.Translate(10, 12))
		d.page().texts++
	}}
}

func alphabet() []action {
	var as []action
	as = append(as,
		action{"NewPage(210,297)", func(d *doc) {
			d.p.NewPage(210, 297)
			d.m.pages = append(d.m.pages, pageModel{w: 210, h: 297})
		}},
		action{"NewPage(50,20.5)", func(d *doc) {
			d.p.NewPage(50, 20.5)
			d.m.pages = append(d.m.pages, pageModel{w: 50, h: 20.5})
		}},
		pathAction("Path(fill=red)", func() (*canvas.Path, canvas.Style) {
			st := canvas.DefaultStyle
			st.Fill = canvas.Paint{Color: canvas.Red}
			return tri(), st
		}),
		pathAction("Path(fill=blue@0.5,stroke=black)", func() (*canvas.Path, canvas.Style) {
			st := canvas.DefaultStyle
			st.Fill = canvas.Paint{Color: color.RGBA{0, 0, 128, 128}}
			st.Stroke = canvas.Paint{Color: canvas.Black}
			st.StrokeWidth = 0.5
			return tri(), st
		}),
		pathAction("Path(fill=linear-gradient)", func() (*canvas.Path, canvas.Style) {
			g := canvas.NewLinearGradient(canvas.Point{X: 0, Y: 0}, canvas.Point{X: 10, Y: 0})
			g.Add(0, canvas.Red)
			g.Add(1, canvas.Blue)
			st := canvas.DefaultStyle
			st.Fill = canvas.Paint{Gradient: g}
			return tri(), st
		}),
		pathAction("Path(stroke=black,evenodd,dashed,round)", func() (*canvas.Path, canvas.Style) {
			st := canvas.DefaultStyle
			st.Fill = canvas.Paint{}
			st.Stroke = canvas.Paint{Color: canvas.Black}
			st.StrokeWidth = 0.4
			st.StrokeJoiner = canvas.RoundJoin
			st.StrokeCapper = canvas.RoundCap
			st.Dashes = []float64{2, 1}
			st.FillRule = canvas.EvenOdd
			return canvas.MustParseSVGPath("M1 1L9 1L5 7"), st
		}),
		pathAction("Path(fill=radial-gradient,stops=.2/.5/.8)", func() (*canvas.Path, canvas.Style) {
			g := canvas.NewRadialGradient(canvas.Point{X: 5, Y: 3}, 0, canvas.Point{X: 5, Y: 3}, 5)
			g.Add(0.2, canvas.Red)
			g.Add(0.5, canvas.Green)
			g.Add(0.8, canvas.Blue)
			st := canvas.DefaultStyle
			st.Fill = canvas.Paint{Gradient: g}
			return tri(), st
		}),
		pathAction("Path(fill=linear-gradient,red->transparent)", func() (*canvas.Path, canvas.Style) {
			g := canvas.NewLinearGradient(canvas.Point{X: 0, Y: 0}, canvas.Point{X: 10, Y: 0})
			g.Add(0, canvas.Red)
			g.Add(1, canvas.Transparent)
			st := canvas.DefaultStyle
			st.Fill = canvas.Paint{Gradient: g}
			return tri(), st
		}),
		action{"Path(fill=the document's shared gradient object)", func(d *doc) {
			st := canvas.DefaultStyle
			st.Fill = canvas.Paint{Gradient: d.sharedGradient()}
			d.p.RenderPath(tri(), st, canvas.Identity.Translate(3, 4))
			d.page().paths++
		}},
		textAction("Text(DejaVuSerif,\"Hi\")", "DejaVuSerif", "Hi", func(f *canvas.Font) *canvas.FontFace { return f.Face(12, canvas.Black) }),
		textAction("Text(DejaVuSerif,ascii95,red@0.5,underline)", "DejaVuSerif", ascii95, func(f *canvas.Font) *canvas.FontFace {
			return f.Face(10, color.RGBA{128, 0, 0, 128}, canvas.FontUnderline)
		}),
		action{"TextVertical(DejaVuSerif,\"Hi\",VerticalRL,Upright)", func(d *doc) {
			rt := canvas.NewRichText(d.font("DejaVuSerif").Face(12, canvas.Black))
			rt.SetWritingMode(canvas.VerticalRL)
			rt.SetTextOrientation(canvas.Upright)
			rt.WriteString("Hi")
			d.p.RenderText(rt.ToText(0, 0, canvas.Left, canvas.Top, 0, 0), canvas.Identity.Translate(30, 18))
			d.page().texts++
		}},
		textAction("Text(EBGaramond,\"Hi\")", "EBGaramond", "Hi", func(f *canvas.Font) *canvas.FontFace { return f.Face(12, canvas.Black) }),
		// only characters the font does not have: the only glyph used is .notdef
		textAction("Text(EBGaramond,\"漢字\")", "EBGaramond", "漢字", func(f *canvas.Font) *canvas.FontFace { return f.Face(12, canvas.Black) }),
		textAction("Text(EBGaramond,\"fi Ünï č\"+ascii95)", "EBGaramond", "fi Ünï č"+ascii95, func(f *canvas.Font) *canvas.FontFace { return f.Face(9, canvas.Blue) }),
		action{"Image(opaque,rotated)", func(d *doc) {
			d.p.RenderImage(imgOpaque, canvas.Identity.Translate(20, 5).Rotate(30).Scale(2, 2))
			d.page().images++
		}},
		action{"Image(alpha)", func(d *doc) {
			d.p.RenderImage(imgAlpha, canvas.Identity.Translate(5, 5).Scale(3, 3))
			d.page().images++
		}},
		action{"Image(gray)", func(d *doc) {
			d.p.RenderImage(imgGray, canvas.Identity.Translate(12, 3).Scale(2, 2))
			d.page().images++
		}},
		action{"SetImageEncoding(Lossy)", func(d *doc) { d.p.SetImageEncoding(canvas.Lossy) }},
		action{"AddLink", func(d *doc) {
			d.p.AddLink(linkURI, canvas.Rect{X0: 1, Y0: 2, X1: 30, Y1: 8})
			d.page().links = append(d.page().links, linkURI)
		}},
	)
	for k := range infoValues {
		k := k
		var v [5]string
		for j := range v {
			v[j] = infoValues[(k+j)%len(infoValues)]
		}
		as = append(as, action{fmt.Sprintf("SetInfo(%q,%q,%q,%q,%q)", v[0], v[1], v[2], v[3], v[4]), func(d *doc) {
			d.p.SetInfo(v[0], v[1], v[2], v[3], v[4])
			d.m.info = v
		}})
	}
	for _, l := range []string{"en-US", "nl"} {
		l := l
		as = append(as, action{fmt.Sprintf("SetLang(%q)", l), func(d *doc) {
			d.p.SetLang(l)
			d.m.lang = l
		}})
	}
	return as
}

const linkURI = "https://example.com/a(b)?c=\\d)"

// reduced alphabet for the depth-4 space with SubsetFonts=false (where each document with text
// costs ~40 ms): one representative per kind of call; SubsetFonts only changes what Close
// writes for fonts, so everything about fonts is kept.
func reducedAlphabet(full []action) []action {
	keep := []string{"NewPage(50,20.5)", "Path(fill=red)", "Path(fill=linear-gradient)",
		"Text(DejaVuSerif,\"Hi\")", "TextVertical(DejaVuSerif", "Text(DejaVuSerif,ascii95", "Text(EBGaramond,\"Hi\")", "Text(EBGaramond,\"fi",
		"Image(opaque", "Image(alpha)", "AddLink", "SetInfo(\"Plain title\"", "SetInfo(\"Ünï\"", "SetLang(\"en-US\")"}
	var out []action
	for _, k := range keep {
		for _, a := range full {
			if strings.HasPrefix(a.name, k) {
				out = append(out, a)
				break
			}
		}
	}
	if len(out) != len(keep) {
		panic("reduced alphabet does not match the full one")
	}
	return out
}

// ---------------------------------------------------------------------------------------------
// running a history

type options struct{ compress, subset bool }

func (o options) String() string {
	return fmt.Sprintf("Compress=%v SubsetFonts=%v", o.compress, o.subset)
}

func run(o options, hist []action) (out []byte, m model, calls int64) {
	d := &doc{buf: &bytes.Buffer{}, fonts: map[string]*canvas.Font{}}
	d.p = pdf.New(d.buf, 100, 80, &pdf.Options{Compress: o.compress, SubsetFonts: o.subset, ImageEncoding: canvas.Lossless})
	d.m.pages = []pageModel{{w: 100, h: 80}}
	d.calls = 1
	for _, a := range hist {
		a.run(d)
		d.calls++
	}
	if err := d.p.Close(); err != nil {
		panic(err)
	}
	d.calls++
	return d.buf.Bytes(), d.m, d.calls
}

// runRecover is run with a panic of the writer turned into its message (first line).
func runRecover(o options, hist []action) (out []byte, m model, calls int64, pan string) {
	defer func() {
		if e := recover(); e != nil {
			pan = fmt.Sprint(e)
			if k := strings.IndexByte(pan, '\n'); k >= 0 {
				pan = pan[:k]
			}
			calls = int64(len(hist)) + 2
		}
	}()
	out, m, calls = run(o, hist)
	return
}

// ---------------------------------------------------------------------------------------------
// the oracle

type finding struct{ class, detail string }

type findings struct {
	list []finding
	seen map[string]bool
}

func (f *findings) add(class, format string, a ...interface{}) {
	if f.seen == nil {
		f.seen = map[string]bool{}
	}
	if f.seen[class] { // first of each class per document is enough
		return
	}
	f.seen[class] = true
	f.list = append(f.list, finding{class, fmt.Sprintf(format, a...)})
}

// decodeCache memoises stream decoding per worker process (keyed by the raw bytes and the filter
// entries): unsubsetted font programs are identical in thousands of documents.
var decodeCache = map[[20]byte]decoded{}

type decoded struct {
	n   int
	sum [20]byte // of the decoded bytes, clock-dependent sfnt fields blanked
	hd  [4]byte
	err string
}

// maskSFNT blanks what the font subsetter derives from the wall clock: head.modified, and with
// it head.checkSumAdjustment and the directory checksum of the head table.
func maskSFNT(b []byte) []byte {
	if len(b) < 12 || (string(b[:4]) != "OTTO" && string(b[:4]) != "\x00\x01\x00\x00" && string(b[:4]) != "true") {
		return b
	}
	n := int(b[4])<<8 | int(b[5])
	for i := 0; i < n; i++ {
		rec := 12 + 16*i
		if rec+16 > len(b) {
			return b
		}
		if string(b[rec:rec+4]) != "head" {
			continue
		}
		off := int(b[rec+8])<<24 | int(b[rec+9])<<16 | int(b[rec+10])<<8 | int(b[rec+11])
		if off < 0 || off+36 > len(b) {
			return b
		}
		out := append([]byte{}, b...)
		copy(out[rec+4:rec+8], []byte{0, 0, 0, 0})
		copy(out[off+8:off+12], []byte{0, 0, 0, 0})
		copy(out[off+28:off+36], []byte{0, 0, 0, 0, 0, 0, 0, 0})
		return out
	}
	return b
}

func decodeStream(s *pdfread.Stream) (decoded, []byte) {
	h := sha1.New()
	fmt.Fprintf(h, "%s|%s|%s|", pdfread.Fmt(s.Dict["Filter"]), pdfread.Fmt(s.Dict["DecodeParms"]), pdfread.Fmt(s.Dict["DP"]))
	if a, ok := s.Dict["Filter"].(pdfread.Array); ok {
		for _, e := range a {
			fmt.Fprintf(h, "%s,", pdfread.Fmt(e))
		}
	}
	h.Write(s.Raw)
	var key [20]byte
	copy(key[:], h.Sum(nil))
	if len(s.Raw) > 4096 {
		if d, ok := decodeCache[key]; ok {
			return d, nil
		}
	}
	b, err := s.Decode()
	d := decoded{n: len(b)}
	if err != nil {
		d.err = err.Error()
	} else {
		d.sum = sha1.Sum(maskSFNT(b))
		copy(d.hd[:], b)
	}
	if len(s.Raw) > 4096 {
		decodeCache[key] = d
	}
	return d, b
}

// encodings of a text string a conforming writer may choose
func utf16be(s string) []byte {
	us := utf16.Encode([]rune(s))
	b := []byte{0xFE, 0xFF}
	for _, u := range us {
		b = append(b, byte(u>>8), byte(u))
	}
	return b
}

// eolRule is what 7.3.4.2 makes of unescaped end-of-line bytes inside a literal string.
func eolRule(b []byte) []byte {
	var out []byte
	for i := 0; i < len(b); i++ {
		if b[i] == '\r' {
			out = append(out, '\n')
			if i+1 < len(b) && b[i+1] == '\n' {
				i++
			}
		} else {
			out = append(out, b[i])
		}
	}
	return out
}

// checkTextField compares a stored text string with the string that was given.
func checkTextField(f *findings, class, where string, obj pdfread.Object, present bool, want string) {
	if want == "" {
		if !present {
			return
		}
		if s, ok := obj.(pdfread.String); ok {
			if got, err := pdfread.DecodeTextString(s.B); err == nil && got == "" {
				return
			}
		}
		f.add(class, "%s is %s although the empty string was given", where, pdfread.Fmt(obj))
		return
	}
	if !present {
		f.add(class, "%s is missing; %q was given", where, want)
		return
	}
	s, ok := obj.(pdfread.String)
	if !ok {
		f.add(class, "%s is not a string object: %s", where, pdfread.Fmt(obj))
		return
	}
	got, err := pdfread.DecodeTextString(s.B)
	if err == nil && got == want {
		return
	}
	// name the root cause where the bytes show it: the stored bytes are what the end-of-line
	// rule of literal strings makes of a correct encoding that was written without escaping CR
	for _, enc := range [][]byte{utf16be(want), []byte(want)} {
		if bytes.IndexByte(enc, '\r') >= 0 && bytes.Equal(s.B, eolRule(enc)) {
			f.add("string-cr-escape", "%s: given %q, a reader sees bytes % x = %q: a CR byte (0x0D) was written unescaped inside a literal string, which reads as LF (and CR LF as one LF) by ISO 32000-1 7.3.4.2", where, want, s.B, got)
			return
		}
	}
	if err != nil {
		f.add(class, "%s: given %q, stored bytes % x do not decode as a text string: %v", where, want, s.B, err)
		return
	}
	f.add(class, "%s: given %q, stored string decodes to %q (bytes % x)", where, want, got, s.B)
}

const ptPerMm = 72 / 25.4

var reOperator = regexp.MustCompile(`^operator #\d+ "([^"]*)" at offset`)

func validate(data []byte, m model, r *fw.R) (list []finding, key [20]byte) {
	f := &findings{}
	key = sha1.Sum(maskDate(data)) // replaced by the structural key once the file parses
	d, err := pdfread.Parse(data)
	if err != nil {
		class := "parse"
		if fe, ok := err.(*pdfread.FatalError); ok {
			class = fe.Class
		}
		f.add(class, "%v", err)
		return f.list, key
	}
	cut := false
	for _, p := range d.Problems {
		if p.Class == "object-syntax" {
			// an object that cannot be parsed takes its references, the page tree below it
			// etc. with it: report the root cause only (one class per cause) and stop here
			cut = true
			class := p.Class
			for _, kw := range []string{"NaN", "+Inf", "-Inf", "Inf"} {
				if strings.Contains(p.Detail, fmt.Sprintf("unexpected keyword %q", kw)) {
					class = "object-syntax-number-" + strings.TrimLeft(kw, "+-")
				}
			}
			f.add(class, "%s", p.Detail)
		}
	}
	if cut {
		r.Outcome("validation-cut-short:object-syntax")
		dec := map[int]decoded{}
		for n, o := range d.Objects {
			if st, ok := o.Value.(*pdfread.Stream); ok {
				if dc, _ := decodeStream(st); dc.err == "" {
					dec[n] = dc
				}
			}
		}
		return f.list, stateKey(d, dec)
	}
	for _, p := range d.Problems {
		f.add(p.Class, "%s", p.Detail)
	}
	if !bytes.HasPrefix(data, []byte("%PDF-1.")) {
		f.add("header", "file starts with %q", data[:8])
	}
	for _, p := range d.CheckRefs() {
		f.add(p.Class, "%s", p.Detail)
	}

	// every stream: Length (checked by the parser) and filters
	nums := make([]int, 0, len(d.Objects))
	for n := range d.Objects {
		nums = append(nums, n)
	}
	sort.Ints(nums)
	streams := 0
	decodedOf := map[int]decoded{}
	for _, n := range nums {
		st, ok := d.Objects[n].Value.(*pdfread.Stream)
		if !ok {
			continue
		}
		streams++
		fs, ferr := st.Filters()
		if ferr != nil {
			f.add("stream-filter", "object %d: %v", n, ferr)
			continue
		}
		for _, fl := range fs {
			r.Outcome("filter:" + string(fl))
		}
		if len(fs) == 0 {
			r.Outcome("filter:none")
		}
		if !st.LengthOK {
			// already reported as stream-length; where the data ends is then a guess, so a
			// filter error would be a consequence, not a second defect
			r.Outcome("stream-filter-skipped:length-wrong")
			continue
		}
		dc, _ := decodeStream(st)
		if dc.err != "" {
			f.add("stream-filter", "object %d (filters %v, %d raw bytes): %s", n, fs, len(st.Raw), dc.err)
			continue
		}
		decodedOf[n] = dc
		// an image must carry exactly the samples its dictionary announces
		if sub, _ := st.Dict["Subtype"].(pdfread.Name); sub == "Image" {
			checkImage(f, d, n, st, dc)
		}
	}
	key = stateKey(d, decodedOf)
	r.Max("objects", float64(len(d.Objects)))
	r.Max("streams", float64(streams))

	// function dictionaries (7.10): stitching functions need k-1 bounds and 2k encode values
	for _, n := range nums {
		pdfread.Walk(d.Objects[n].Value, func(o pdfread.Object) {
			fd, ok := o.(pdfread.Dict)
			if !ok {
				return
			}
			if _, isShading := fd["ShadingType"]; isShading {
				// 8.7.4.5: the Function of an axial or radial shading is a function dictionary
				// (FunctionType and Domain are required in every function, 7.10.1)
				if fn, ok := d.Resolve(fd["Function"]).(pdfread.Dict); ok {
					_, hasType := fn["FunctionType"].(int64)
					dom, _ := d.Resolve(fn["Domain"]).(pdfread.Array)
					if !hasType || len(dom) < 2 {
						f.add("shading-function", "object %d: the Function of a shading is %s, not a function dictionary (FunctionType and Domain are required)", n, pdfread.Fmt(fn))
					}
				} else if _, has := fd["Function"]; has {
					f.add("shading-function", "object %d: the Function of a shading is not a dictionary", n)
				}
			}
			ft, ok := fd["FunctionType"].(int64)
			if !ok || ft != 3 {
				return
			}
			fns, _ := d.Resolve(fd["Functions"]).(pdfread.Array)
			bounds, _ := d.Resolve(fd["Bounds"]).(pdfread.Array)
			enc, _ := d.Resolve(fd["Encode"]).(pdfread.Array)
			r.Outcome(fmt.Sprintf("function3:k=%d", len(fns)))
			if len(fns) == 0 || len(bounds) != len(fns)-1 || len(enc) != 2*len(fns) {
				f.add("function-bounds", "object %d: stitching function with %d functions has %d Bounds (needs k-1) and %d Encode values (needs 2k)", n, len(fns), len(bounds), len(enc))
				return
			}
			prev := math.Inf(-1)
			for _, b := range bounds {
				v, ok := pdfread.Num(b)
				if !ok || v < prev {
					f.add("function-bounds", "object %d: Bounds %s are not non-decreasing numbers", n, pdfread.Fmt(bounds))
					return
				}
				prev = v
			}
		})
	}

	// page tree
	pages, probs := d.Pages()
	for _, p := range probs {
		f.add(p.Class, "%s", p.Detail)
	}
	if len(pages) != len(m.pages) {
		f.add("page-count", "the page tree has %d pages, the history made %d (New + %d NewPage)", len(pages), len(m.pages), len(m.pages)-1)
	}
	r.Outcome(fmt.Sprintf("pages=%d", len(pages)))
	for i, pg := range pages {
		where := fmt.Sprintf("page %d (%v)", i+1, pg.Ref)
		var pm *pageModel
		if i < len(m.pages) && len(pages) == len(m.pages) {
			pm = &m.pages[i]
		}
		if pg.HasBox && pm != nil {
			want := [4]float64{0, 0, pm.w * ptPerMm, pm.h * ptPerMm}
			for k := range want {
				if !(math.Abs(pg.MediaBox[k]-want[k]) <= 0.01) {
					f.add("page-mediabox", "%s: MediaBox %v, the page was created as %g x %g mm = %v pt", where, pg.MediaBox, pm.w, pm.h, want)
					break
				}
			}
		}
		if len(pg.Streams) == 0 {
			f.add("page-contents", "%s has no content stream", where)
		}
		ops, err := pdfread.ParseContent(pg.Content)
		if err != nil {
			f.add("content-syntax", "%s: %v", where, err)
		}
		for _, p := range pdfread.ValidateContent(ops) {
			class := p.Class
			if class == "content-operator-invalid" {
				// one class per offending keyword: S* and, say, NaN have different causes
				if m := reOperator.FindStringSubmatch(p.Detail); m != nil {
					class += ":" + m[1]
				}
			}
			f.add(class, "%s: %s", where, p.Detail)
		}
		// resources
		for _, u := range pdfread.UsedResources(ops) {
			cat := d.ResourceCategory(pg.Resources, u.Category)
			v, ok := cat[u.Name]
			if !ok {
				f.add("resource-undefined", "%s: operator %s at offset %d uses /%s which is not in the page's /%s resources %s", where, u.Operator, u.Offset, u.Name, u.Category, keys(cat))
				continue
			}
			r.Outcome("resource:" + string(u.Category))
			rv := d.Resolve(v)
			okType := false
			switch u.Category {
			case "Font":
				fd, isDict := rv.(pdfread.Dict)
				okType = isDict && fd["Type"] == pdfread.Name("Font")
				if okType {
					checkFont(f, d, where, u.Name, fd, decodedOf, r)
				}
			case "XObject":
				st, isStream := rv.(*pdfread.Stream)
				okType = isStream && (st.Dict["Subtype"] == pdfread.Name("Image") || st.Dict["Subtype"] == pdfread.Name("Form"))
			case "ExtGState":
				_, okType = rv.(pdfread.Dict)
			case "Pattern":
				pd, isDict := d.Dict(rv)
				_, hasType := pd["PatternType"].(int64)
				okType = isDict && hasType
			default:
				okType = rv != nil
			}
			if !okType {
				f.add("resource-type", "%s: /%s /%s resolves to %s", where, u.Category, u.Name, pdfread.Fmt(rv))
			}
		}
		// every font the writer embeds is a Type0 font with two-byte codes: a shown string holds whole codes
		for _, op := range ops {
			if op.Operator != "TJ" && op.Operator != "Tj" {
				continue
			}
			var strs []pdfread.String
			for _, o := range op.Operands {
				switch v := o.(type) {
				case pdfread.String:
					strs = append(strs, v)
				case pdfread.Array:
					for _, e := range v {
						if sv, ok := e.(pdfread.String); ok {
							strs = append(strs, sv)
						}
					}
				}
			}
			for _, sv := range strs {
				if len(sv.B)%2 != 0 {
					f.add("text-string-half-code", "%s: operator %s at offset %d shows a string of %d bytes (% x) with a font of two-byte codes", where, op.Operator, op.Offset, len(sv.B), sv.B)
					break
				}
			}
		}
		// tallies against the history (vacuity guard, and the drawing calls must leave a trace)
		cnt := map[string]int{}
		for _, op := range ops {
			cnt[op.Operator]++
		}
		if pm != nil {
			if cnt["Do"] != pm.images {
				f.add("content-missing-draw", "%s: %d Do operators for %d image draws", where, cnt["Do"], pm.images)
			}
			if cnt["BT"] < pm.texts {
				f.add("content-missing-draw", "%s: %d text objects for %d text draws", where, cnt["BT"], pm.texts)
			}
			if len(pg.Annots) != len(pm.links) {
				f.add("link-annots", "%s: %d annotations for %d AddLink calls", where, len(pg.Annots), len(pm.links))
			}
			for k, a := range pg.Annots {
				if k >= len(pm.links) {
					break
				}
				act, _ := d.Dict(a["A"])
				uri, _ := d.Resolve(act["URI"]).(pdfread.String)
				rect, _ := d.Resolve(a["Rect"]).(pdfread.Array)
				if a["Subtype"] != pdfread.Name("Link") || act["S"] != pdfread.Name("URI") || len(rect) != 4 {
					f.add("link-annots", "%s: annotation %d is not a well-formed URI link", where, k)
				} else if string(uri.B) != pm.links[k] {
					f.add("link-uri", "%s: annotation %d has URI %q, AddLink was given %q", where, k, uri.B, pm.links[k])
				}
			}
			r.Outcome(fmt.Sprintf("page:BT=%d,Do=%d,q=%d,annots=%d", min(cnt["BT"], 3), min(cnt["Do"], 3), min(cnt["q"], 3), min(len(pg.Annots), 3)))
		}
	}

	// document information
	info, err := d.Info()
	if err != nil {
		f.add("info-dict", "%v", err)
	}
	if info == nil {
		info = pdfread.Dict{}
	}
	for k, key := range infoKeys {
		v, present := info[key]
		v = d.Resolve(v)
		checkTextField(f, "info-"+strings.ToLower(string(key)), "Info /"+string(key), v, present, m.info[k])
		if s, ok := v.(pdfread.String); ok {
			if bytes.HasPrefix(s.B, []byte{0xFE, 0xFF}) {
				r.Outcome("info:utf16be")
			} else {
				r.Outcome("info:pdfdoc")
			}
		}
	}
	if cat, err := d.Catalog(); err == nil {
		v, present := cat["Lang"]
		v = d.Resolve(v)
		before := len(f.list)
		checkTextField(f, "info-lang", "catalog /Lang", v, present, m.lang)
		if len(f.list) > before && f.list[len(f.list)-1].class == "info-lang" {
			f.list[len(f.list)-1].detail += fmt.Sprintf(" (SetLang was given %q; the creator field is %q)", m.lang, m.info[4])
		}
		if present {
			r.Outcome("lang:present")
		}
	}
	return f.list, key
}

func keys(d pdfread.Dict) string {
	var ks []string
	for k := range d {
		ks = append(ks, "/"+string(k))
	}
	sort.Strings(ks)
	return "[" + strings.Join(ks, " ") + "]"
}

func checkImage(f *findings, d *pdfread.Doc, n int, st *pdfread.Stream, dc decoded) {
	w, okW := d.Resolve(st.Dict["Width"]).(int64)
	h, okH := d.Resolve(st.Dict["Height"]).(int64)
	bpc, okB := d.Resolve(st.Dict["BitsPerComponent"]).(int64)
	if !okW || !okH || !okB {
		f.add("image-data", "object %d: image without integer Width/Height/BitsPerComponent", n)
		return
	}
	comps := int64(0)
	switch d.Resolve(st.Dict["ColorSpace"]) {
	case pdfread.Name("DeviceGray"):
		comps = 1
	case pdfread.Name("DeviceRGB"):
		comps = 3
	case pdfread.Name("DeviceCMYK"):
		comps = 4
	default:
		f.add("image-data", "object %d: image ColorSpace %s", n, pdfread.Fmt(st.Dict["ColorSpace"]))
		return
	}
	fs, _ := st.Filters()
	if len(fs) > 0 && (fs[len(fs)-1] == "DCTDecode") {
		cfg, err := jpeg.DecodeConfig(bytes.NewReader(st.Raw))
		if err != nil || int64(cfg.Width) != w || int64(cfg.Height) != h {
			f.add("image-data", "object %d: JPEG is %dx%d (%v), dictionary says %dx%d", n, cfg.Width, cfg.Height, err, w, h)
		} else {
			// the number of colour components of the JPEG data must be that of the colour space
			jc := int64(3)
			switch cfg.ColorModel {
			case color.GrayModel:
				jc = 1
			case color.CMYKModel:
				jc = 4
			}
			if jc != comps {
				f.add("image-data", "object %d: the JPEG data has %d colour component(s), ColorSpace %s has %d", n, jc, pdfread.Fmt(st.Dict["ColorSpace"]), comps)
			}
		}
	} else {
		want := ((w*comps*bpc + 7) / 8) * h
		if int64(dc.n) != want {
			f.add("image-data", "object %d: %dx%d image with %d components of %d bits needs %d bytes, stream decodes to %d", n, w, h, comps, bpc, want, dc.n)
		}
	}
	if sm, ok := st.Dict["SMask"]; ok {
		ms, ok := d.Resolve(sm).(*pdfread.Stream)
		if !ok || ms.Dict["Subtype"] != pdfread.Name("Image") || d.Resolve(ms.Dict["ColorSpace"]) != pdfread.Name("DeviceGray") {
			f.add("image-data", "object %d: SMask is not a DeviceGray image", n)
		} else if mw, _ := d.Resolve(ms.Dict["Width"]).(int64); mw != w {
			f.add("image-data", "object %d: SMask width %d differs from image width %d", n, mw, w)
		}
	}
}

// checkFont: the font dictionary a Tf points at has the entries a reader needs to get at the
// font program, and the embedded program is what its key says it is.
func checkFont(f *findings, d *pdfread.Doc, where string, name pdfread.Name, fd pdfread.Dict, dec map[int]decoded, r *fw.R) {
	sub, _ := fd["Subtype"].(pdfread.Name)
	r.Outcome("font:" + string(sub))
	if sub != "Type0" {
		return
	}
	desc, _ := d.Resolve(fd["DescendantFonts"]).(pdfread.Array)
	if len(desc) != 1 {
		f.add("font-dict", "%s: font /%s: DescendantFonts must be a one-element array", where, name)
		return
	}
	cid, _ := d.Dict(desc[0])
	fdesc, ok := d.Dict(cid["FontDescriptor"])
	if !ok {
		f.add("font-dict", "%s: font /%s: no FontDescriptor", where, name)
		return
	}
	if tu, ok := fd["ToUnicode"]; ok {
		if _, isStream := d.Resolve(tu).(*pdfread.Stream); !isStream {
			f.add("font-dict", "%s: font /%s: ToUnicode is not a stream", where, name)
		}
	}
	cidSub, _ := cid["Subtype"].(pdfread.Name)
	for _, key := range []pdfread.Name{"FontFile", "FontFile2", "FontFile3"} {
		ref, ok := fdesc[key].(pdfread.Ref)
		if !ok {
			continue
		}
		r.Outcome("font:" + string(cidSub) + "/" + string(key))
		st, isStream := d.Resolve(ref).(*pdfread.Stream)
		dc, have := dec[ref.Num]
		if !isStream || !have {
			f.add("font-dict", "%s: font /%s: %s %v is not a decodable stream", where, name, key, ref)
			continue
		}
		magic := string(dc.hd[:])
		switch {
		case key == "FontFile2" && (cidSub != "CIDFontType2" || (magic != "\x00\x01\x00\x00" && magic != "true")):
			f.add("fontfile-magic", "%s: font /%s (%s): FontFile2 must be a TrueType program for a CIDFontType2, starts with % x", where, name, cidSub, dc.hd)
		case key == "FontFile3" && st.Dict["Subtype"] == pdfread.Name("OpenType") && magic != "OTTO" && magic != "\x00\x01\x00\x00":
			f.add("fontfile-magic", "%s: font /%s: FontFile3 /OpenType starts with % x", where, name, dc.hd)
		}
	}
}

// ---------------------------------------------------------------------------------------------
// state identity

// canon writes a canonical rendering of an object: dictionary keys sorted, streams replaced by
// the digest of their decoded data, /Length and the clock-dependent /CreationDate left out.
func canon(w *bytes.Buffer, o pdfread.Object, dec map[int]decoded, num int) {
	switch v := o.(type) {
	case nil:
		w.WriteString("null ")
	case bool, int64, float64:
		fmt.Fprintf(w, "%v ", v)
	case pdfread.Name:
		fmt.Fprintf(w, "/%q ", string(v))
	case pdfread.String:
		fmt.Fprintf(w, "(%q) ", string(v.B))
	case pdfread.Ref:
		fmt.Fprintf(w, "%dR%d ", v.Num, v.Gen)
	case pdfread.Array:
		w.WriteString("[ ")
		for _, e := range v {
			canon(w, e, dec, -1)
		}
		w.WriteString("] ")
	case pdfread.Dict:
		ks := make([]string, 0, len(v))
		for k := range v {
			if k != "Length" && k != "CreationDate" {
				ks = append(ks, string(k))
			}
		}
		sort.Strings(ks)
		w.WriteString("<< ")
		for _, k := range ks {
			fmt.Fprintf(w, "/%q ", k)
			canon(w, v[pdfread.Name(k)], dec, -1)
		}
		w.WriteString(">> ")
	case *pdfread.Stream:
		canon(w, v.Dict, dec, -1)
		if dc, ok := dec[num]; ok {
			fmt.Fprintf(w, "stream:%d:%x ", dc.n, dc.sum)
		} else {
			fmt.Fprintf(w, "rawstream:%x ", sha1.Sum(v.Raw))
		}
	}
}

// stateKey identifies a document by its parsed structure (not by its bytes: the font
// subsetter stamps the current time into the font program, which changes compressed lengths
// and with them every later offset).
func stateKey(d *pdfread.Doc, dec map[int]decoded) [20]byte {
	return sha1.Sum(stateText(d, dec))
}

func stateText(d *pdfread.Doc, dec map[int]decoded) []byte {
	var w bytes.Buffer
	nums := make([]int, 0, len(d.Objects))
	for n := range d.Objects {
		nums = append(nums, n)
	}
	sort.Ints(nums)
	for _, n := range nums {
		fmt.Fprintf(&w, "%d: ", n)
		canon(&w, d.Objects[n].Value, dec, n)
		w.WriteByte('\n')
	}
	w.WriteString("trailer: ")
	canon(&w, d.Trailer, dec, -1)
	fmt.Fprintf(&w, "body=%d xref=%d", len(d.Body), len(d.Xref))
	return w.Bytes()
}

// ---------------------------------------------------------------------------------------------
// families

var seenDocs = map[[20]byte]struct{}{}

// record passes a violation to the framework, but only the first few of each class per worker
// (they are the simplest ones: the enumeration is simplest-first). The framework keeps at most
// 200 violations per worker; tens of thousands of cases of one known root cause must not be
// able to push the first case of a new class out of that window. Every violation is still
// counted in the outcome tallies ("violation:<class>") and in the counter below.
var recorded = map[string]int{}

const perClass = 8

func record(r *fw.R, class, detail string) {
	r.Count("violations_total", 1)
	if recorded[class] < perClass {
		recorded[class]++
		r.Violate(class, detail)
		return
	}
	r.Count("violations_not_passed_to_framework(class already has "+fmt.Sprint(perClass)+" in this worker)", 1)
}

// maskDate blanks the one field that depends on the wall clock.
func maskDate(b []byte) []byte {
	k := bytes.Index(b, []byte("/CreationDate("))
	if k < 0 {
		return b
	}
	out := append([]byte{}, b...)
	for i := k + len("/CreationDate("); i < len(out) && out[i] != ')'; i++ {
		out[i] = '0'
	}
	return out
}

func family(name string, alpha []action, depth int, opts []options) fw.Family {
	n := int64(len(opts))
	for k := 0; k < depth; k++ {
		n *= int64(len(alpha))
	}
	decode := func(i int64) (options, []action) {
		// options are the slowest digit, the last call the fastest
		hist := make([]action, depth)
		for k := depth - 1; k >= 0; k-- {
			hist[k] = alpha[i%int64(len(alpha))]
			i /= int64(len(alpha))
		}
		return opts[i], hist
	}
	return fw.Family{
		Name: name, N: n,
		Desc: func(i int64) string {
			o, hist := decode(i)
			var names []string
			for _, a := range hist {
				names = append(names, a.name)
			}
			return fmt.Sprintf("pdf.New(100,80,{%v}); %s; Close()", o, strings.Join(names, "; "))
		},
		Check: func(i int64, r *fw.R) {
			o, hist := decode(i)
			data, m, calls, pan := runRecover(o, hist)
			r.Transitions += calls
			if pan != "" {
				// no document: the writer panicked; one class per panic message
				r.Outcome("violation:panic")
				record(r, "panic: "+pan, "the writer panicked instead of producing a document: "+pan)
				return
			}
			fs, h := validate(data, m, r)
			r.Validated++
			if _, dup := seenDocs[h]; !dup {
				seenDocs[h] = struct{}{}
				r.States++
			}
			r.SetFamily("documents") // distinct documents are counted across all families
			r.Nontrivial(fmt.Sprintf("%x", h[:12]))
			r.SetFamily(name)
			r.Max("bytes", float64(len(data)))
			if len(fs) == 0 {
				r.Outcome("valid")
			}
			for _, v := range fs {
				r.Outcome("violation:" + v.class)
				record(r, v.class, v.detail)
			}
		},
	}
}

// longDocs: documents of many pages (the page tree, the object table and the per-page resources of
// a document that is longer than any bounded history reaches): n pages of alternating sizes, each
// with the same kind of content, for every n up to 70 and some larger counts around powers of two.
func longDocs(full []action) fw.Family {
	byName := map[string]action{}
	for _, a := range full {
		byName[a.name] = a
	}
	contents := [][]string{
		{},
		{"Path(fill=blue@0.5,stroke=black)"},
		{"Text(DejaVuSerif,\"Hi\")", "AddLink"},
		{"Image(alpha)", "Path(fill=linear-gradient)"},
		{"Path(fill=the document's shared gradient object)"},
	}
	var counts []int
	for n := 1; n <= 70; n++ {
		counts = append(counts, n)
	}
	counts = append(counts, 96, 97, 127, 128, 129, 130, 255, 256, 257, 300)
	opts := []options{{true, true}, {false, true}}
	name := fmt.Sprintf("long documents: %d page counts (1..70, 96..300) x %d kinds of page content x Compress on/off", len(counts), len(contents))
	decode := func(i int64) (options, []action, string) {
		d := oracle.Digits(i, len(counts), len(contents), len(opts))
		n, c := counts[d[0]], contents[d[1]]
		var hist []action
		for pg := 0; pg < n; pg++ {
			if pg > 0 {
				hist = append(hist, byName[[]string{"NewPage(210,297)", "NewPage(50,20.5)"}[pg%2]])
			}
			for _, a := range c {
				hist = append(hist, byName[a])
			}
		}
		return opts[d[2]], hist, fmt.Sprintf("%d pages (sizes alternating), on every page [%s]", n, strings.Join(c, "; "))
	}
	return fw.Family{
		Name: name, N: int64(len(counts) * len(contents) * len(opts)),
		Desc: func(i int64) string {
			o, _, what := decode(i)
			return fmt.Sprintf("pdf.New(100,80,{%v}); %s; Close()", o, what)
		},
		Check: func(i int64, r *fw.R) {
			o, hist, _ := decode(i)
			data, m, calls, pan := runRecover(o, hist)
			r.Transitions += calls
			if pan != "" {
				r.Outcome("violation:panic")
				record(r, "panic: "+pan, "the writer panicked instead of producing a document: "+pan)
				return
			}
			fs, h := validate(data, m, r)
			r.Validated++
			r.States++
			r.SetFamily("documents")
			r.Nontrivial(fmt.Sprintf("%x", h[:12]))
			r.SetFamily(name)
			if len(fs) == 0 {
				r.Outcome("valid")
			}
			for _, v := range fs {
				r.Outcome("violation:" + v.class)
				record(r, v.class, v.detail)
			}
		},
	}
}

var allOpts = []options{{true, true}, {false, true}, {true, false}, {false, false}}

// gradientStopActions: one gradient fill per layout of its stops: every subset of at most 4 of the
// offsets {0, .25, .5, .75, 1} (also none), every stop opaque or fully transparent, linear and radial.
// The writer turns the stops into a stitching function with padding pieces before the first and after
// the last stop, and divides the colours by their alpha.
func gradientStopActions() []action {
	offs := []float64{0, 0.25, 0.5, 0.75, 1}
	var as []action
	for mask := 0; mask < 1<<len(offs); mask++ {
		var sel []float64
		for k, o := range offs {
			if mask&(1<<k) != 0 {
				sel = append(sel, o)
			}
		}
		if len(sel) > 4 {
			continue
		}
		for al := 0; al < 1<<len(sel); al++ {
			for _, radial := range []bool{false, true} {
				sel, al, radial := sel, al, radial
				var parts []string
				for k, o := range sel {
					parts = append(parts, fmt.Sprintf("%g:%s", o, []string{"opaque", "transparent"}[(al>>k)&1]))
				}
				kind := "linear"
				if radial {
					kind = "radial"
				}
				as = append(as, pathAction(fmt.Sprintf("Path(fill=%s-gradient,stops=[%s])", kind, strings.Join(parts, " ")), func() (*canvas.Path, canvas.Style) {
					cols := []color.RGBA{canvas.Red, canvas.Green, canvas.Blue, canvas.Black}
					add := func(add func(float64, color.RGBA)) {
						for k, o := range sel {
							c := cols[k]
							if (al>>k)&1 != 0 {
								c = canvas.Transparent
							}
							add(o, c)
						}
					}
					st := canvas.DefaultStyle
					if radial {
						g := canvas.NewRadialGradient(canvas.Point{X: 5, Y: 3}, 0, canvas.Point{X: 5, Y: 3}, 5)
						add(func(o float64, c color.RGBA) { g.Add(o, c) })
						st.Fill = canvas.Paint{Gradient: g}
					} else {
						g := canvas.NewLinearGradient(canvas.Point{X: 0, Y: 0}, canvas.Point{X: 10, Y: 0})
						add(func(o float64, c color.RGBA) { g.Add(o, c) })
						st.Fill = canvas.Paint{Gradient: g}
					}
					return tri(), st
				}))
			}
		}
	}
	return as
}

func families(tier string) []fw.Family {
	full := alphabet()
	var fs []fw.Family
	for d := 0; d <= 2; d++ {
		fs = append(fs, family(fmt.Sprintf("histories of length %d over %d calls x 4 option sets", d, len(full)), full, d, allOpts))
	}
	fs = append(fs, longDocs(full))
	ga := gradientStopActions()
	fs = append(fs, family(fmt.Sprintf("one gradient fill over %d layouts of its stops (offsets, opaque/transparent, linear/radial) x Compress on/off", len(ga)), ga, 1, allOpts[:2]))
	// fonts across pages: longer histories over the texts and NewPage only (what a writer remembers
	// about a font - object numbers, resource names, subsets - per document or per page)
	var fontAlpha []action
	for _, k := range []string{"NewPage(50,20.5)", "Text(DejaVuSerif,\"Hi\")", "Text(DejaVuSerif,ascii95", "Text(EBGaramond,\"Hi\")"} {
		for _, a := range full {
			if strings.HasPrefix(a.name, k) {
				fontAlpha = append(fontAlpha, a)
				break
			}
		}
	}
	for _, d := range []int{4, 5} {
		fs = append(fs, family(fmt.Sprintf("histories of length %d over {NewPage, 3 texts in 2 fonts}, SubsetFonts=true x Compress on/off", d), fontAlpha, d, allOpts[:2]))
	}
	if tier != "thorough" {
		// quick: length 3 over the full alphabet with subsetted fonts, over the reduced alphabet with full fonts
		red := reducedAlphabet(full)
		fs = append(fs,
			family(fmt.Sprintf("histories of length 3 over %d calls, SubsetFonts=true x Compress on/off", len(full)), full, 3, allOpts[:2]),
			family(fmt.Sprintf("histories of length 3 over the reduced alphabet of %d calls, SubsetFonts=false x Compress on/off", len(red)), red, 3, allOpts[2:]),
		)
	}
	if tier == "thorough" {
		fs = append(fs, family(fmt.Sprintf("histories of length 3 over %d calls x 4 option sets", len(full)), full, 3, allOpts))
		fs = append(fs,
			family(fmt.Sprintf("histories of length 4 over %d calls, SubsetFonts=true x Compress on/off", len(full)), full, 4, allOpts[:2]),
		)
		red := reducedAlphabet(full)
		fs = append(fs,
			family(fmt.Sprintf("histories of length 4 over the reduced alphabet of %d calls, SubsetFonts=false x Compress on/off", len(red)), red, 4, allOpts[2:]),
		)
	}
	return fs
}

// Prop is the C13 check.
func Prop() *fw.Property {
	return &fw.Property{
		ID:    "C13",
		Level: "model_checking",
		Rule: "every history (word) of the stated length over the call alphabet {NewPage x2, RenderPath x6 styles (opaque, alpha fill+stroke, linear gradient, even-odd dashed stroke, radial gradient with inner stops, gradient to transparent), " +
			"RenderText x5 (TrueType DejaVuSerif and CFF EBGaramond; 2 and >95 distinct glyphs, alpha, underline; one upright vertical text), RenderImage x2 (opaque rotated, with alpha), SetImageEncoding(Lossy), AddLink, SetInfo x10 (each of the five fields takes each of 10 values: characters outside the Basic Multilingual Plane (surrogate pairs), empty, ASCII, parentheses+backslash, Latin-1, UTF-16 with CR byte, UTF-16 with ( ) \\ bytes, ASCII with CR LF, backslashes only incl. a trailing one, UTF-16 whose last byte is a backslash), SetLang x2} " +
			"x {Compress} x {SubsetFonts}, each on a fresh pdf.New writer and closed; the bytes are parsed by an independent reader and checked clause by clause; " +
			"state = distinct document (SHA-1 of the bytes with CreationDate blanked), transition = one API call, validated trace = one document checked; distinct_nontrivial = globally distinct documents (states is summed per worker)",
		Assumptions: []string{
			"long documents: 1..70, 96, 97, 127..130, 255..257 and 300 pages of alternating sizes with one of 4 kinds of content on every page (nothing; translucent path; text + link; image with alpha + gradient)",
			"depth bound: histories of at most 3 calls (quick; at depth 3 the SubsetFonts=false half uses the reduced alphabet) / 4 calls (thorough; at depth 4 the SubsetFonts=false half uses a reduced 13-call alphabet because each such document costs ~40 ms); longer documents are outside the bound",
			"trusted base: internal/pdfread (ISO 32000-1 tokenizer, xref, filters, Table 51, Figure 9), compress/zlib, image/jpeg",
			"fonts: DejaVuSerif.ttf and EBGaramond12-Regular.otf, loaded afresh for every document (the writer mutates font objects while subsetting); the 14 standard fonts, vertical text, rich text with several faces and canvas-embedded objects are outside the alphabet",
			"metadata values outside PDFDocEncoding's printable range other than CR/LF (e.g. 0x18-0x1F, 0x7F) are outside the menu",
			"font programs are only checked to decode and to start with the magic of the kind their key announces; glyph-level checks belong to C18; painted result to C12",
		},
		Families: families,
	}
}
