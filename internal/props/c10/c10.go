package c10

import (
	"fmt"
	"math"
	"strings"

	"github.com/tdewolff/canvas"

	"verif/internal/fw"
	"verif/internal/oracle"
)

// DenseN is the number of samples per curved segment used when tracing.
const DenseN = 8

// GeomTol is the relative tolerance of "the traced geometry is what was requested".
const GeomTol = 1e-9

// HistFamily is one completely enumerable set of call histories (shared with C11).
type HistFamily struct {
	Name  string
	N     int64
	Calls func(i int64) []Call
}

func pow(a int64, k int) int64 {
	n := int64(1)
	for i := 0; i < k; i++ {
		n *= a
	}
	return n
}

// Histories returns the history families of a tier.
//   - builder histories of every length 1..D over the whole alphabet,
//   - every shape constructor followed by 0..Ds builder calls,
//   - every history of length 0..Dr, printed with String() and parsed back, followed by 0 or 1
//     builder calls.
func Histories(tier string) []HistFamily {
	alpha := Alphabet()
	A := int64(len(alpha))
	shapes := Shapes()
	D, Ds, Dr := 3, 1, 2
	if tier == "thorough" {
		D, Ds, Dr = 4, 2, 3
	}
	digits := func(i int64, k int) []Call {
		cs := make([]Call, k)
		for j := k - 1; j >= 0; j-- {
			cs[j] = alpha[i%A]
			i /= A
		}
		return cs
	}
	var fs []HistFamily
	for d := 1; d <= D; d++ {
		d := d
		fs = append(fs, HistFamily{
			Name: fmt.Sprintf("builder calls, depth %d", d), N: pow(A, d),
			Calls: func(i int64) []Call { return digits(i, d) },
		})
	}
	for k := 0; k <= Ds; k++ {
		k := k
		fs = append(fs, HistFamily{
			Name: fmt.Sprintf("shape constructor + %d builder calls", k), N: int64(len(shapes)) * pow(A, k),
			Calls: func(i int64) []Call {
				s := shapes[i/pow(A, k)]
				return append([]Call{s.call()}, digits(i%pow(A, k), k)...)
			},
		})
	}
	for d := 1; d <= Dr; d++ {
		for k := 0; k <= 1; k++ {
			d, k := d, k
			fs = append(fs, HistFamily{
				Name: fmt.Sprintf("%d builder calls, ParseSVGPath(String()), %d builder calls", d, k), N: pow(A, d+k),
				Calls: func(i int64) []Call {
					cs := digits(i, d+k)
					out := append([]Call{}, cs[:d]...)
					out = append(out, reparse())
					return append(out, cs[d:]...)
				},
			})
		}
	}
	// one ArcTo over a grid of radii (major first, minor first, negative, equal) x rotations over four
	// turns in steps of 15 degrees and just beside the quadrant boundaries x flags x end points: the
	// normalisation of the stored arc (rx >= ry > 0, 0 <= phi < pi) has a branch per combination of
	// "radii swapped" and "rotation quadrant"
	radii := [][2]float64{{2, 1}, {1, 2}, {-1, 2}, {1.5, 1.5}, {1, 3}, {3, -1}}
	var rots []float64
	for r := -720.0; r <= 720; r += 15 {
		rots = append(rots, r)
	}
	rots = append(rots, 89.9, 90.1, 179.9, 180.1, 269.9, 270.1, 275, 345, 359.9, -0.1, -20, 700)
	ends := []Pt{{X: 2, Y: 0}, {X: 1, Y: 1}, {X: 0, Y: -2}}
	nArc := int64(len(radii) * len(rots) * 4 * len(ends))
	fs = append(fs, HistFamily{
		Name: "one ArcTo over radii x rotations x flags x end points", N: nArc,
		Calls: func(i int64) []Call {
			e := ends[i%int64(len(ends))]
			i /= int64(len(ends))
			f := i % 4
			i /= 4
			rot := rots[i%int64(len(rots))]
			i /= int64(len(rots))
			rr := radii[i]
			return []Call{arcTo(rr[0], rr[1], rot, f&1 != 0, f&2 != 0, e)}
		},
	})
	return fs
}

// Key is the canonical state key: the raw data bits.
func Key(d []float64) string {
	var sb strings.Builder
	sb.Grow(len(d) * 8)
	for _, v := range d {
		b := math.Float64bits(v)
		for k := 0; k < 8; k++ {
			sb.WriteByte(byte(b >> (8 * k)))
		}
	}
	return sb.String()
}

func reqTraces(m *Model) []Trace { return Dense(m.Subs, DenseN) }

func realTraces(d []float64) ([]Trace, error) {
	sps, err := oracle.Decode(d)
	if err != nil {
		return nil, err
	}
	return Dense(FromOracle(sps), DenseN), nil
}

// agree reports whether the real path traces the requested geometry.
func agree(p *canvas.Path, m *Model) (msg string, worst, hd, scale float64) {
	req := reqTraces(m)
	real, err := realTraces(p.Data())
	if err != nil {
		return "path data undecodable: " + err.Error(), math.Inf(1), math.Inf(1), 1
	}
	scale = Scale(req, real)
	msg, worst = CompareDirected(req, real, GeomTol*scale)
	hd = Hausdorff(req, real)
	if msg == "" && hd > GeomTol*scale {
		msg = fmt.Sprintf("point sets differ: Hausdorff distance %.3g", hd)
	}
	return msg, worst, hd, scale
}

func issueClasses(is []Issue) map[string]string {
	m := map[string]string{}
	for _, i := range is {
		if _, ok := m[i.Class]; !ok {
			m[i.Class] = i.Detail
		}
	}
	return m
}

// classifyGeometry names the root-cause signature of a geometry mismatch introduced by the
// last call of the history (the state before it agreed with its model).
func classifyGeometry(calls []Call, prevP *canvas.Path, prevM, m *Model, p *canvas.Path) string {
	// 0. the last call is a whole-path source (shape constructor)
	last := calls[len(calls)-1].Name
	for _, s := range Shapes() {
		if s.Name == last {
			return "geometry:shape:" + last[:strings.IndexByte(last, '(')]
		}
	}
	// 1a. the request before the last call ends in "MoveTo, (zero-length commands,) Close": a
	// closed subpath without extent; what is drawn (or closed) next belongs to a new subpath
	// at that point
	if pl := prevM.last(); pl != nil && pl.Closed {
		drawn := false
		for _, s := range pl.Segs {
			if s.Kind != oracle.CmdClose && !s.ZeroLength(ZeroEps) {
				drawn = true
			}
		}
		if !drawn {
			return "geometry:close-of-lone-moveto-forgotten"
		}
	}
	// 1b. the pen of the real path was not where the request left it
	pos := prevP.Pos()
	mp := prevM.Pos()
	if math.Abs(pos.X-mp.X) > 1e-9 || math.Abs(pos.Y-mp.Y) > 1e-9 {
		return "geometry:pen-position-lost"
	}
	// 2. the first piece requested by the last call is a straight line that turns back over
	// the previous straight piece of the same subpath
	if pl := prevM.last(); pl != nil && !pl.Closed && len(m.Subs) >= len(prevM.Subs) {
		cur := m.Subs[len(prevM.Subs)-1]
		var before []RSeg
		for _, s := range pl.Segs {
			if !s.ZeroLength(0) {
				before = append(before, s)
			}
		}
		var after []RSeg
		for _, s := range cur.Segs[len(pl.Segs):] {
			if !s.ZeroLength(0) {
				after = append(after, s)
			}
		}
		if len(before) > 0 && len(after) > 0 {
			a, b := before[len(before)-1], after[0]
			da, db := a.P1.Sub(a.P0), b.P1.Sub(b.P0)
			if straight(a) && straight(b) && math.Abs(da.Cross(db)) <= 1e-12*da.Len()*db.Len() && da.Dot(db) < 0 {
				return "geometry:line-reversal-merged"
			}
		}
	}
	return "geometry:mismatch"
}

// straight: the requested piece lies on the straight segment P0-P1 (a line, or a curve whose
// control points lie on the chord between the end points).
func straight(s RSeg) bool {
	on := func(c Pt) bool {
		d := s.P1.Sub(s.P0)
		l := d.Len()
		if l == 0 {
			return false
		}
		t := c.Sub(s.P0).Dot(d) / (l * l)
		return math.Abs(c.Sub(s.P0).Cross(d)) <= 1e-12*l && t >= 0 && t <= 1
	}
	switch s.Kind {
	case oracle.CmdLine, oracle.CmdClose:
		return true
	case oracle.CmdQuad:
		return on(s.C1)
	case oracle.CmdCube:
		return on(s.C1) && on(s.C2)
	}
	return false
}

// violate reports a violation but keeps at most perClassCap reports per class and worker
// process (the framework keeps 200 violations per worker in total; one root cause that fires on
// every state must not crowd out the others). The enumeration is simplest-first, so the ones
// kept are the smallest. Suppressed ones are counted.
const perClassCap = 6

var classCount = map[string]int{}

func violate(r *fw.R, class, detail string) {
	classCount[class]++
	r.Count("violations of class "+class, 1)
	if classCount[class] > perClassCap {
		return
	}
	r.Violate(class, detail)
}

// checkHistory is the per-history check: validator on the final state and model agreement of
// the last transition.
func checkHistory(r *fw.R, calls []Call) {
	var p *canvas.Path
	var m *Model
	func() {
		defer func() {
			if e := recover(); e != nil {
				violate(r, "panic:builder", fmt.Sprintf("%v", e))
				p = nil
			}
		}()
		p, m = Build(calls)
	}()
	if p == nil {
		return
	}
	r.Nontrivial(Key(p.Data()))

	var prevP *canvas.Path
	var prevM *Model
	prev := func() (*canvas.Path, *Model) {
		if prevP == nil {
			prevP, prevM = Build(calls[:len(calls)-1])
		}
		return prevP, prevM
	}

	// (a) well-formedness
	is, info := Validate(p.Data())
	r.Count("validator:segments", int64(info.Segments))
	r.Count("validator:arcs", int64(info.Arcs))
	r.Count("validator:zero-length-closes", int64(info.ZeroLengthCloses))
	r.Count("validator:lone-moves", int64(info.LoneMoves))
	if len(is) == 0 {
		r.Outcome("wellformed")
	} else {
		pp, _ := prev()
		was, _ := Validate(pp.Data())
		old := issueClasses(was)
		now := issueClasses(is)
		for class, detail := range now {
			if _, inherited := old[class]; inherited {
				r.Outcome("inherited:" + class)
				continue
			}
			violate(r, class, detail+"; data="+oracle.Fmt(p.Data()))
		}
		if now["undecodable-forward"] != "" || now["undecodable-backward"] != "" || now["structure"] != "" || now["non-finite-value"] != "" {
			return
		}
	}

	// (b) reference model of the last transition
	switch {
	case m.Skip != "":
		r.Outcome("skipped:" + m.Skip)
	case m.IllConditioned:
		r.Outcome("skipped:arc within 1e-6 below the radii limit")
	default:
		msg, worst, hd, scale := agree(p, m)
		if msg == "" {
			r.Validated++
			r.Max("geometry: worst directed deviation / scale", worst/scale)
			r.Max("geometry: worst Hausdorff / scale", hd/scale)
			nreq := 0
			for _, s := range m.Subs {
				for _, g := range s.Segs {
					if g.Kind != oracle.CmdClose {
						nreq++
					}
				}
			}
			nreal := info.Segments - info.Closes
			switch {
			case nreal < nreq:
				r.Outcome("agrees:commands dropped or merged")
				r.Count("commands dropped or merged", int64(nreq-nreal))
			case nreal == nreq:
				r.Outcome("agrees:one command per request")
			default:
				r.Outcome("agrees:more commands than requests")
			}
		} else {
			pp, pm := prev()
			if pm.Skip == "" && !pm.IllConditioned {
				if pmsg, _, _, _ := agree(pp, pm); pmsg != "" {
					r.Outcome("inherited:geometry")
					msg = ""
				}
			}
			if msg != "" {
				class := classifyGeometry(calls, pp, pm, m, p)
				violate(r, class, fmt.Sprintf("%s; before the last call: %s; after: %s", msg, oracle.Fmt(pp.Data()), oracle.Fmt(p.Data())))
			}
		}
	}
}

// ---------------------------------------------------------------------------------------------
// totality and purity on every distinct state

// purityHistories: the histories whose final states get the totality/purity pass: all builder
// histories up to depth 3 and every shape followed by at most one call.
var purityHist []HistFamily

func purityHistories() []HistFamily {
	if purityHist != nil {
		return purityHist
	}
	var out []HistFamily
	for _, h := range Histories("quick") {
		if strings.HasPrefix(h.Name, "builder calls") || strings.HasPrefix(h.Name, "shape constructor") {
			out = append(out, h)
		}
	}
	// contours whose last curve ends within Epsilon of the start point without being equal to it, then
	// Close: is that Close a segment or not - every query has to answer alike
	var nearly [][]Call
	for _, g := range []float64{2.4e-15, 5e-11} {
		nearly = append(nearly,
			[]Call{moveTo(Pt{X: 10, Y: 0}), arcTo(10, 10, 0, false, true, Pt{X: -10, Y: 0}), arcTo(10, 10, 0, false, true, Pt{X: 10, Y: -g}), closeCall()},
			[]Call{moveTo(Pt{X: 2, Y: 0}), quadTo(Pt{X: 2, Y: 3}, Pt{X: 0, Y: 3}), lineTo(Pt{X: 0, Y: 1}), quadTo(Pt{X: 2 - g, Y: 1}, Pt{X: 2 - g, Y: 0}), closeCall()},
			[]Call{moveTo(Pt{X: 0, Y: 0}), lineTo(Pt{X: 4, Y: 0}), cubeTo(Pt{X: 4, Y: 3}, Pt{X: g, Y: 3}, Pt{X: g, Y: g}), closeCall()},
		)
	}
	out = append(out, HistFamily{Name: "contours closed by a Close shorter than Epsilon after a curve", N: int64(len(nearly)),
		Calls: func(i int64) []Call { return nearly[i] }})
	purityHist = out
	return out
}

// firstIndex maps a state key to the index of the first (simplest) history of the purity
// enumeration that reaches it; built once per process (about a quarter of a million builder
// replays, well under a second).
var firstIndex map[string]int64
var purityOffsets []int64 // start index of each history family in the concatenated enumeration

func purityN() int64 {
	n := int64(1) // index 0 is the empty path
	for _, h := range purityHistories() {
		n += h.N
	}
	return n
}

func purityCalls(i int64) []Call {
	if i == 0 {
		return nil
	}
	i--
	for _, h := range purityHistories() {
		if i < h.N {
			return h.Calls(i)
		}
		i -= h.N
	}
	return nil
}

func buildFirstIndex() {
	firstIndex = map[string]int64{}
	n := purityN()
	for i := int64(0); i < n; i++ {
		var k string
		func() {
			defer func() {
				if recover() != nil {
					k = fmt.Sprintf("panic#%d", i)
				}
			}()
			k = Key(BuildReal(purityCalls(i)).Data())
		}()
		if _, ok := firstIndex[k]; !ok {
			firstIndex[k] = i
		}
	}
}

func checkPurity(r *fw.R, i int64, tier string) {
	if firstIndex == nil {
		buildFirstIndex()
	}
	calls := purityCalls(i)
	key := Key(BuildReal(calls).Data())
	if firstIndex[key] != i {
		r.Outcome("purity:duplicate state (checked at its first history)")
		return
	}
	r.NontrivialIdx()
	coreOnly := tier == "quick" && len(calls) >= 3
	fs, extras := CheckTotalityPurity(func() *canvas.Path { return BuildReal(calls) }, coreOnly)
	r.Count("purity: distinct states checked", 1)
	r.Count("purity: method invocations", int64(NumPureCalls(coreOnly)))
	if len(fs) == 0 {
		r.Outcome("purity:all listed methods total and pure")
	}
	seen := map[string]bool{}
	for _, f := range fs {
		if seen[f.Class] {
			continue
		}
		seen[f.Class] = true
		r.Outcome("purity:" + f.Class)
		violate(r, f.Class, f.Detail)
	}
	for _, f := range extras {
		if seen["x"+f.Class] {
			continue
		}
		seen["x"+f.Class] = true
		r.Outcome("unlisted-method:" + f.Class)
	}
}

func families(tier string) []fw.Family {
	var out []fw.Family
	for _, h := range Histories(tier) {
		h := h
		out = append(out, fw.Family{
			Name: h.Name, N: h.N,
			Check: func(i int64, r *fw.R) { checkHistory(r, h.Calls(i)) },
			Desc:  func(i int64) string { return names(h.Calls(i)) },
		})
	}
	out = append(out, fw.Family{
		Name: "totality and purity on every distinct state (builder depth <= 3, shapes + <= 1 call)", N: purityN(),
		Check: func(i int64, r *fw.R) { checkPurity(r, i, tier) },
		Desc:  func(i int64) string { return names(purityCalls(i)) },
	})
	return out
}

// Prop is the C10 check.
func Prop() *fw.Property {
	return &fw.Property{
		ID:    "C10",
		Level: "model_checking",
		Rule: "every call history over the alphabet (LineTo/MoveTo over {0,1,2}^2, Close, 7 QuadTo, 7 CubeTo, 16 ArcTo, 4 Arc, Join/Append of 4 menu paths) up to the depth bound, " +
			"plus every shape constructor and every ParseSVGPath(String()) of a reachable state as a source, executed on the real canvas.Path next to the request model; " +
			"state = raw Data() (distinct_nontrivial counts distinct states); per history: independent data-stream validator, requested-vs-traced geometry of the last transition " +
			"(directed arc-length comparison and Hausdorff distance, 1e-9 relative), and on every distinct state up to depth 3 every query/derivation under recover with bit-comparison of receiver and arguments",
		Assumptions: []string{
			"bounded: call arguments from the stated menus only (coordinates on the 3x3 integer lattice, 5 radius/rotation menus), depth <= 3 (quick) / 4 (thorough)",
			"zero means |x| <= 1e-10 (canvas' documented Epsilon) in the zero-length-segment clause; arcs within 1e-9 of the radii-fit-the-chord limit are evaluated as half ellipses; requests within 1e-6 below that limit are skipped as ill-conditioned (none in these menus)",
			"shape models take start point and direction conventions from the constructors (origin / (0,r) / (rx,0) / top vertex, counter clockwise)",
			"purity is observed on Data() and on the argument objects handed in; aliasing of results with the receiver (Split, Dash with no pattern, Reverse of an empty path) is not a violation by itself",
			"quick tier: depth-3 states get the core subset of the method list (28 of 77 invocations), shallower states and the thorough tier the full list; the list includes aliasing probes (extend a returned path, the receiver must not change)",
			"Clip, FastClip, SimplifyVisvalingamWhyatt, GobEncode are called too but only tallied (not in the property's list; Clip panics with \"not implemented\" on curves); Markers is a totality probe since wave 19, and Coords/CoordDirections must agree in length on single subpaths",
			"termination is judged by the framework watchdog (60 s per history)",
		},
		Families:        families,
		Customs:         customs,
		KnownPredicates: withExtra(knownPredicates()),
	}
}

// knownPredicates: one named matcher per root cause found on the pinned tree (for
// known_findings.json; the file itself is maintained by the lead). Classes are already
// root-cause specific; the validator class zero-length-segment is attributed to the line
// reversal defect only when the history really is a reversal.
func knownPredicates() map[string]func(v *fw.Violation) bool {
	classIs := func(cs ...string) func(v *fw.Violation) bool {
		return func(v *fw.Violation) bool {
			for _, c := range cs {
				if v.Class == c {
					return true
				}
			}
			return false
		}
	}
	// isReversal: the history ends in a line-like call (not Close) whose first requested piece
	// turns back over the previous straight piece, AND the comparison LineTo makes picks the
	// wrong axis: it tests da.Y < da.X instead of |da.Y| < |da.X| and then finds equal signs
	isReversal := func(v *fw.Violation) bool {
		calls, ok := parseNames(v.Case)
		if !ok || len(calls) == 0 || calls[len(calls)-1].Name == "Close()" {
			return false
		}
		defer func() { recover() }()
		pp, pm := Build(calls[:len(calls)-1])
		p, m := Build(calls)
		if classifyGeometry(calls, pp, pm, m, p) != "geometry:line-reversal-merged" {
			return false
		}
		pl := pm.last()
		var a *RSeg
		for i := range pl.Segs {
			if !pl.Segs[i].ZeroLength(0) {
				a = &pl.Segs[i]
			}
		}
		cur := m.Subs[len(pm.Subs)-1]
		var b *RSeg
		for i := len(pl.Segs); i < len(cur.Segs); i++ {
			if !cur.Segs[i].ZeroLength(0) {
				b = &cur.Segs[i]
				break
			}
		}
		if a == nil || b == nil {
			return false
		}
		da, db := a.P1.Sub(a.P0), b.P1.Sub(b.P0)
		if da.Y < da.X {
			return math.Signbit(da.X) == math.Signbit(db.X)
		}
		return math.Signbit(da.Y) == math.Signbit(db.Y)
	}
	return map[string]func(v *fw.Violation) bool{
		"lineto-merges-reversal": func(v *fw.Violation) bool {
			return (v.Class == "geometry:line-reversal-merged" || v.Class == "zero-length-segment") && isReversal(v)
		},
		"close-deletes-lone-moveto":          classIs("geometry:close-of-lone-moveto-forgotten"),
		"flatten-empty-replacement":          classIs("panic:canvas.(*Path).replace: runtime error: index out of range [#] with length #"),
		"sweep-right-endpoint-not-in-status": classIs("panic:canvas.bentleyOttmann: right-endpoint not part of status, probably buggy intersection code"),
		"grid-translates-cell-in-place":      classIs("geometry:shape:Grid"),
		"dash-edits-pattern-slice":           classIs("argument-slice-mutated:Dash"),
		"boolean-op-closes-clipping-path":    classIs("clipping-path-mutated:boolean-op", "subject-and-clipping-path-mutated:boolean-op", "Paths-argument-path-mutated:boolean-op"),
		"boolean-op-rewrites-paths-slice":    classIs("Paths-argument-elements-replaced:boolean-op"),
		"paths-element-with-trailing-moveto": classIs("panic:canvas.(*SweepEvents).AddPathEndpoints: non-flat paths not supported"),
		"sweep-next-node-nil":                classIs("panic:canvas.bentleyOttmann: next node for result polygon is nil, probably buggy intersection code"),
		"stroke-inner-bend-index":            classIs("panic:canvas.(*Path).optimizeInnerBend: runtime error: index out of range [#] with length #"),
	}
}

// ---------------------------------------------------------------------------------------------
// state generator shared with C11

// StateN is the size of the enumeration of short histories (index 0 = empty path, then all
// builder histories of depth 1..3, then every shape followed by at most one call).
func StateN() int64 { return purityN() }

// StateCalls returns history i of that enumeration.
func StateCalls(i int64) []Call { return purityCalls(i) }

// StateIsFirst reports whether history i is the first (simplest) one reaching its state.
func StateIsFirst(i int64, p *canvas.Path) bool {
	if firstIndex == nil {
		buildFirstIndex()
	}
	return firstIndex[Key(p.Data())] == i
}

// Names renders a history.
func Names(calls []Call) string { return names(calls) }

// inputPredicates are matchers that look at the history (the input) of a violation only.
func init() {
	extraPredicates["receiver-has-open-subpath"] = func(v *fw.Violation) bool {
		calls, ok := parseNames(v.Case)
		if !ok {
			return false
		}
		defer func() { recover() }()
		p := BuildReal(calls)
		for _, sp := range p.Split() {
			if !sp.Closed() {
				return true
			}
		}
		return false
	}
}

var extraPredicates = map[string]func(v *fw.Violation) bool{}

func withExtra(m map[string]func(v *fw.Violation) bool) map[string]func(v *fw.Violation) bool {
	for k, f := range extraPredicates {
		m[k] = f
	}
	return m
}
