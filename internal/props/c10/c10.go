package c10

import (
	"fmt"
	"math"
	"strings"

	"github.com/tdewolff/canvas"

	"verif/internal/fw"
	"verif/internal/oracle"
)

// DenseN is the number of samples per curved segment used when tracing.
const DenseN = 8

// GeomTol is the relative tolerance of "the traced geometry is what was requested".
const GeomTol = 1e-9

// HistFamily is one completely enumerable set of call histories (shared with C11).
type HistFamily struct {
	Name  string
	N     int64
	Calls func(i int64) []Call
	// PurityDepth: totality/purity is run on the final state of these histories.
	Purity bool
}

func pow(a int64, k int) int64 {
	n := int64(1)
	for i := 0; i < k; i++ {
		n *= a
	}
	return n
}

// Histories returns the history families of a tier.
//   - builder histories of every length 1..D over the whole alphabet,
//   - every shape constructor followed by 0..Ds builder calls,
//   - every history of length 0..Dr, printed with String() and parsed back, followed by 0 or 1
//     builder calls.
func Histories(tier string) []HistFamily {
	alpha := Alphabet()
	A := int64(len(alpha))
	shapes := Shapes()
	D, Ds, Dr := 3, 1, 2
	if tier == "thorough" {
		D, Ds, Dr = 4, 2, 3
	}
	digits := func(i int64, k int) []Call {
		cs := make([]Call, k)
		for j := k - 1; j >= 0; j-- {
			cs[j] = alpha[i%A]
			i /= A
		}
		return cs
	}
	var fs []HistFamily
	for d := 1; d <= D; d++ {
		d := d
		fs = append(fs, HistFamily{
			Name: fmt.Sprintf("builder calls, depth %d", d), N: pow(A, d),
			Calls: func(i int64) []Call { return digits(i, d) }, Purity: d <= 3,
		})
	}
	for k := 0; k <= Ds; k++ {
		k := k
		fs = append(fs, HistFamily{
			Name: fmt.Sprintf("shape constructor + %d builder calls", k), N: int64(len(shapes)) * pow(A, k),
			Calls: func(i int64) []Call {
				s := shapes[i/pow(A, k)]
				return append([]Call{s.call()}, digits(i%pow(A, k), k)...)
			}, Purity: k <= 1,
		})
	}
	for d := 1; d <= Dr; d++ {
		for k := 0; k <= 1; k++ {
			d, k := d, k
			fs = append(fs, HistFamily{
				Name: fmt.Sprintf("%d builder calls, ParseSVGPath(String()), %d builder calls", d, k), N: pow(A, d+k),
				Calls: func(i int64) []Call {
					cs := digits(i, d+k)
					out := append([]Call{}, cs[:d]...)
					out = append(out, reparse())
					return append(out, cs[d:]...)
				}, Purity: false,
			})
		}
	}
	return fs
}

// Key is the canonical state key: the raw data bits.
func Key(d []float64) string {
	var sb strings.Builder
	sb.Grow(len(d) * 8)
	for _, v := range d {
		b := math.Float64bits(v)
		for k := 0; k < 8; k++ {
			sb.WriteByte(byte(b >> (8 * k)))
		}
	}
	return sb.String()
}

func reqTraces(m *Model) []Trace { return Dense(m.Subs, DenseN) }

func realTraces(d []float64) ([]Trace, error) {
	sps, err := oracle.Decode(d)
	if err != nil {
		return nil, err
	}
	return Dense(FromOracle(sps), DenseN), nil
}

// agree reports whether the real path traces the requested geometry.
func agree(p *canvas.Path, m *Model) (msg string, worst, hd, scale float64) {
	req := reqTraces(m)
	real, err := realTraces(p.Data())
	if err != nil {
		return "path data undecodable: " + err.Error(), math.Inf(1), math.Inf(1), 1
	}
	scale = Scale(req, real)
	msg, worst = CompareDirected(req, real, GeomTol*scale)
	hd = Hausdorff(req, real)
	if msg == "" && hd > GeomTol*scale {
		msg = fmt.Sprintf("point sets differ: Hausdorff distance %.3g", hd)
	}
	return msg, worst, hd, scale
}

func issueClasses(is []Issue) map[string]string {
	m := map[string]string{}
	for _, i := range is {
		if _, ok := m[i.Class]; !ok {
			m[i.Class] = i.Detail
		}
	}
	return m
}

// classifyGeometry names the root-cause signature of a geometry mismatch introduced by the
// last call of the history (the state before it agreed with its model).
func classifyGeometry(prevP *canvas.Path, prevM, m *Model, p *canvas.Path) string {
	// 1. the pen of the real path was not where the request left it
	pos := prevP.Pos()
	mp := prevM.Pos()
	if math.Abs(pos.X-mp.X) > 1e-9 || math.Abs(pos.Y-mp.Y) > 1e-9 {
		return "geometry:pen-position-lost"
	}
	// 2. the last requested piece is a straight line that turns back over the previous
	// straight piece, and the path did not get a new command for it
	if l := m.last(); l != nil && len(p.Data()) <= len(prevP.Data()) {
		var segs []RSeg
		for _, s := range l.Segs {
			if !s.ZeroLength(0) {
				segs = append(segs, s)
			}
		}
		if n := len(segs); n >= 2 {
			a, b := segs[n-2], segs[n-1]
			da, db := a.P1.Sub(a.P0), b.P1.Sub(b.P0)
			if straight(a) && straight(b) && math.Abs(da.Cross(db)) <= 1e-12*da.Len()*db.Len() && da.Dot(db) < 0 {
				return "geometry:line-reversal-merged"
			}
		}
	}
	return "geometry:mismatch"
}

// straight: the requested piece lies on the straight segment P0-P1 (a line, or a curve whose
// control points lie on the chord between the end points).
func straight(s RSeg) bool {
	on := func(c Pt) bool {
		d := s.P1.Sub(s.P0)
		l := d.Len()
		if l == 0 {
			return false
		}
		t := c.Sub(s.P0).Dot(d) / (l * l)
		return math.Abs(c.Sub(s.P0).Cross(d)) <= 1e-12*l && t >= 0 && t <= 1
	}
	switch s.Kind {
	case oracle.CmdLine, oracle.CmdClose:
		return true
	case oracle.CmdQuad:
		return on(s.C1)
	case oracle.CmdCube:
		return on(s.C1) && on(s.C2)
	}
	return false
}

var seenPurity = map[string]struct{}{}

// checkHistory is the per-history check: validator on the final state, model agreement of the
// last transition, and (for the short histories) totality/purity on the state.
func checkHistory(r *fw.R, calls []Call, purity bool) {
	var p *canvas.Path
	var m *Model
	func() {
		defer func() {
			if e := recover(); e != nil {
				r.Violate("panic:builder", fmt.Sprintf("%v", e))
				p = nil
			}
		}()
		p, m = Build(calls)
	}()
	if p == nil {
		return
	}
	r.Count("histories", 1)
	key := Key(p.Data())
	r.Nontrivial(key)

	var prevP *canvas.Path
	var prevM *Model
	prev := func() (*canvas.Path, *Model) {
		if prevP == nil {
			prevP, prevM = Build(calls[:len(calls)-1])
		}
		return prevP, prevM
	}

	// (a) well-formedness
	is, info := Validate(p.Data())
	r.Count("validator:subpaths", int64(info.Subpaths))
	r.Count("validator:segments", int64(info.Segments))
	r.Count("validator:arcs", int64(info.Arcs))
	r.Count("validator:closes", int64(info.Closes))
	r.Count("validator:zero-length-closes", int64(info.ZeroLengthCloses))
	r.Count("validator:lone-moves", int64(info.LoneMoves))
	if len(is) == 0 {
		r.Outcome("wellformed")
	} else {
		pp, _ := prev()
		was, _ := Validate(pp.Data())
		old := issueClasses(was)
		for class, detail := range issueClasses(is) {
			if _, inherited := old[class]; inherited {
				r.Outcome("inherited:" + class)
				continue
			}
			r.Violate(class, detail+"; data="+oracle.Fmt(p.Data()))
		}
		if issueClasses(is)["undecodable-forward"] != "" || issueClasses(is)["undecodable-backward"] != "" || issueClasses(is)["structure"] != "" || issueClasses(is)["non-finite-value"] != "" {
			return
		}
	}

	// (b) reference model of the last transition
	switch {
	case m.Skip != "":
		r.Outcome("skipped:" + m.Skip)
	case m.IllConditioned:
		r.Outcome("skipped:arc within 1e-6 below the radii limit")
	default:
		msg, worst, hd, scale := agree(p, m)
		if msg == "" {
			r.Validated++
			r.Max("geometry: worst directed deviation / scale", worst/scale)
			r.Max("geometry: worst Hausdorff / scale", hd/scale)
			nreq, nreal := 0, 0
			for _, s := range m.Subs {
				for _, g := range s.Segs {
					if g.Kind != oracle.CmdClose {
						nreq++
					}
				}
			}
			nreal = info.Segments - info.Closes
			switch {
			case nreal < nreq:
				r.Outcome("agrees:commands dropped or merged")
				r.Count("commands dropped or merged", int64(nreq-nreal))
			case nreal == nreq:
				r.Outcome("agrees:one command per request")
			default:
				r.Outcome("agrees:more commands than requests")
			}
		} else {
			pp, pm := prev()
			if pm.Skip == "" && !pm.IllConditioned {
				if pmsg, _, _, _ := agree(pp, pm); pmsg != "" {
					r.Outcome("inherited:geometry")
					msg = ""
				}
			}
			if msg != "" {
				class := classifyGeometry(pp, pm, m, p)
				r.Violate(class, fmt.Sprintf("%s; before the last call: %s; after: %s", msg, oracle.Fmt(pp.Data()), oracle.Fmt(p.Data())))
			}
		}
	}

	// (c) totality and purity on every distinct state
	if purity {
		if _, seen := seenPurity[key]; seen && !replaying {
			r.Outcome("purity:state already checked in this worker")
			return
		}
		seenPurity[key] = struct{}{}
		r.Count("purity: states checked (distinct per worker)", 1)
		fs := CheckTotalityPurity(func() *canvas.Path { q, _ := Build(calls); return q })
		r.Count("purity: method invocations", int64(NumPureCalls()))
		if len(fs) == 0 {
			r.Outcome("purity:all methods total and pure")
		}
		seen := map[string]bool{}
		for _, f := range fs {
			if seen[f.Class] {
				continue
			}
			seen[f.Class] = true
			r.Violate(f.Class, f.Detail)
		}
	}
}

// replaying is set for single-case replays (never skip a state there). In a replay process the
// seen map is empty anyway; the flag only documents the intent.
var replaying = false

func families(tier string) []fw.Family {
	var out []fw.Family
	for _, h := range Histories(tier) {
		h := h
		out = append(out, fw.Family{
			Name: h.Name, N: h.N,
			Check: func(i int64, r *fw.R) { checkHistory(r, h.Calls(i), h.Purity) },
			Desc:  func(i int64) string { return names(h.Calls(i)) },
		})
	}
	return out
}

// Prop is the C10 check.
func Prop() *fw.Property {
	return &fw.Property{
		ID:    "C10",
		Level: "model_checking",
		Rule: "every call history over the alphabet (LineTo/MoveTo over {0,1,2}^2, Close, 7 QuadTo, 7 CubeTo, 16 ArcTo, 4 Arc, Join/Append of 4 menu paths) up to the depth bound, " +
			"plus every shape constructor and every ParseSVGPath(String()) of a reachable state as a source, executed on the real canvas.Path next to the request model; " +
			"state = raw Data() (distinct_nontrivial counts distinct states); per history: independent data-stream validator, requested-vs-traced geometry of the last transition " +
			"(directed arc-length comparison and Hausdorff distance, 1e-9 relative), and on every distinct state up to depth 3 every query/derivation under recover with bit-comparison of receiver and arguments",
		Assumptions: []string{
			"bounded: call arguments from the stated menus only (coordinates on the 3x3 integer lattice, 5 radius/rotation menus), depth <= 3 (quick) / 4 (thorough)",
			"zero means |x| <= 1e-10 (canvas' documented Epsilon) in the zero-length-segment clause; arcs within 1e-9 of the radii-fit-the-chord limit are evaluated as half ellipses; requests within 1e-6 below that limit are skipped as ill-conditioned (none in these menus)",
			"shape models take start point and direction conventions from the constructors (origin / (0,r) / (rx,0) / top vertex, counter clockwise)",
			"purity is observed on Data() and on the argument objects handed in; aliasing of results with the receiver (Split, Dash with no pattern, Reverse of an empty path) is not a violation by itself",
			"the purity pass skips a state already checked in the same worker process (states are rechecked at most once per worker)",
			"termination is judged by the framework watchdog (60 s per history)",
		},
		Families: families,
		Customs:  customs,
		KnownPredicates: map[string]func(v *fw.Violation) bool{
			"any": func(v *fw.Violation) bool { return true },
		},
	}
}
