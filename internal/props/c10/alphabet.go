package c10

import (
	"fmt"
	"math"

	"github.com/tdewolff/canvas"

	"verif/internal/oracle"
)

// Call is one transition: the real API call and its reference-model counterpart.
type Call struct {
	Name  string
	Real  func(p *canvas.Path) *canvas.Path // returns the path to continue with
	Model func(m *Model)
}

func fmtPt(p Pt) string { return fmt.Sprintf("%g,%g", p.X, p.Y) }

func moveTo(p Pt) Call {
	return Call{"MoveTo(" + fmtPt(p) + ")",
		func(q *canvas.Path) *canvas.Path { q.MoveTo(p.X, p.Y); return q },
		func(m *Model) { m.MoveTo(p) }}
}
func lineTo(p Pt) Call {
	return Call{"LineTo(" + fmtPt(p) + ")",
		func(q *canvas.Path) *canvas.Path { q.LineTo(p.X, p.Y); return q },
		func(m *Model) { m.LineTo(p) }}
}
func quadTo(c, p Pt) Call {
	return Call{"QuadTo(" + fmtPt(c) + "," + fmtPt(p) + ")",
		func(q *canvas.Path) *canvas.Path { q.QuadTo(c.X, c.Y, p.X, p.Y); return q },
		func(m *Model) { m.QuadTo(c, p) }}
}
func cubeTo(c1, c2, p Pt) Call {
	return Call{"CubeTo(" + fmtPt(c1) + "," + fmtPt(c2) + "," + fmtPt(p) + ")",
		func(q *canvas.Path) *canvas.Path { q.CubeTo(c1.X, c1.Y, c2.X, c2.Y, p.X, p.Y); return q },
		func(m *Model) { m.CubeTo(c1, c2, p) }}
}
func arcTo(rx, ry, rot float64, large, sweep bool, p Pt) Call {
	return Call{fmt.Sprintf("ArcTo(%g,%g,%g,%v,%v,%s)", rx, ry, rot, large, sweep, fmtPt(p)),
		func(q *canvas.Path) *canvas.Path { q.ArcTo(rx, ry, rot, large, sweep, p.X, p.Y); return q },
		func(m *Model) { m.ArcTo(rx, ry, rot, large, sweep, p) }}
}
func arc(rx, ry, rot, t0, t1 float64) Call {
	return Call{fmt.Sprintf("Arc(%g,%g,%g,%g,%g)", rx, ry, rot, t0, t1),
		func(q *canvas.Path) *canvas.Path { q.Arc(rx, ry, rot, t0, t1); return q },
		func(m *Model) { m.Arc(rx, ry, rot, t0, t1) }}
}
func closeCall() Call {
	return Call{"Close()",
		func(q *canvas.Path) *canvas.Path { q.Close(); return q },
		func(m *Model) { m.Close() }}
}

// Build runs calls on a fresh real path and a fresh model.
func Build(calls []Call) (*canvas.Path, *Model) {
	p := &canvas.Path{}
	m := &Model{}
	for _, c := range calls {
		p = c.Real(p)
		c.Model(m)
	}
	return p, m
}

// BuildReal runs only the real calls.
func BuildReal(calls []Call) *canvas.Path {
	p := &canvas.Path{}
	for _, c := range calls {
		p = c.Real(p)
	}
	return p
}

func names(calls []Call) string {
	s := ""
	for i, c := range calls {
		if i > 0 {
			s += "; "
		}
		s += c.Name
	}
	return s
}

// menuPaths are the argument paths of Join/Append, each given by the builder calls that make it
// (they are rebuilt for every use: Join may return its argument, which later calls then modify).
func menuPaths() [][]Call {
	P := func(x, y float64) Pt { return Pt{X: x, Y: y} }
	return [][]Call{
		{moveTo(P(0, 0)), lineTo(P(1, 0))},                                                                 // open line
		{moveTo(P(1, 0)), lineTo(P(1, 1)), lineTo(P(0, 1)), closeCall()},                                   // closed triangle
		{moveTo(P(1, 1)), quadTo(P(2, 1), P(2, 2))},                                                        // open curve
		{moveTo(P(0, 0)), lineTo(P(1, 0)), moveTo(P(1, 1)), lineTo(P(2, 1)), lineTo(P(2, 2)), closeCall()}, // two subpaths
		{moveTo(P(2, 0)), lineTo(P(2, 1)), moveTo(P(0, 2))},                                                // ends in a bare MoveTo
	}
}

// appendCall2 is one Append call with two operands.
func appendCall2(k1, k2 int) Call {
	q1, q2 := menuPaths()[k1], menuPaths()[k2]
	return Call{fmt.Sprintf("Append(%s, %s)", menuName(k1), menuName(k2)),
		func(p *canvas.Path) *canvas.Path { return p.Append(BuildReal(q1), BuildReal(q2)) },
		func(m *Model) {
			_, m1 := Build(q1)
			_, m2 := Build(q2)
			m.Append(m1)
			m.Append(m2)
		}}
}

func joinCall(k int) Call {
	qc := menuPaths()[k]
	return Call{fmt.Sprintf("Join(%s)", menuName(k)),
		func(p *canvas.Path) *canvas.Path { return p.Join(BuildReal(qc)) },
		func(m *Model) { _, qm := Build(qc); m.Join(qm, qc) }}
}
func appendCall(k int) Call {
	qc := menuPaths()[k]
	return Call{fmt.Sprintf("Append(%s)", menuName(k)),
		func(p *canvas.Path) *canvas.Path { return p.Append(BuildReal(qc)) },
		func(m *Model) { _, qm := Build(qc); m.Append(qm) }}
}

var menuNames []string

func menuName(k int) string {
	if menuNames == nil {
		for _, c := range menuPaths() {
			p, _ := Build(c)
			menuNames = append(menuNames, oracle.Fmt(p.Data()))
		}
	}
	return menuNames[k]
}

// Alphabet is the transition alphabet, simplest calls first.
func Alphabet() []Call {
	P := func(x, y float64) Pt { return Pt{X: x, Y: y} }
	L := oracle.Lattice(3)
	var a []Call
	for _, p := range L {
		a = append(a, lineTo(p))
	}
	for _, p := range L {
		a = append(a, moveTo(p))
	}
	a = append(a, closeCall())
	// quadratic Béziers: control points x end points; together with the 9 pen positions this
	// contains cp==start, cp==end, cp on the chord (degenerates to a line), start==end loops
	for _, c := range []Pt{P(1, 0), P(0, 2)} {
		for _, e := range []Pt{P(0, 0), P(2, 0), P(1, 1)} {
			a = append(a, quadTo(c, e))
		}
	}
	a = append(a, quadTo(P(1, 1), P(1, 1)))
	for _, cc := range [][2]Pt{{P(0, 1), P(2, 1)}, {P(1, 0), P(1, 0)}} {
		for _, e := range []Pt{P(0, 0), P(2, 0), P(1, 1)} {
			a = append(a, cubeTo(cc[0], cc[1], e))
		}
	}
	a = append(a, cubeTo(P(1, 1), P(1, 1), P(1, 1)))
	// arcs
	for _, e := range []Pt{P(2, 0), P(1, 1)} {
		for f := 0; f < 4; f++ {
			a = append(a, arcTo(1, 1, 0, f&1 != 0, f&2 != 0, e))
		}
	}
	a = append(a,
		arcTo(2, 1, 30, false, false, P(2, 0)), arcTo(2, 1, 30, true, true, P(2, 0)), // rotated ellipse
		arcTo(1, 2, 0, true, false, P(1, 1)), arcTo(1, 2, 0, false, true, P(1, 1)), // rx < ry
		arcTo(0, 1, 0, false, false, P(2, 0)),                                               // zero radius: a line
		arcTo(0.1, 0.1, 0, false, false, P(1, 1)), arcTo(0.1, 0.1, 0, false, true, P(1, 1)), // radii too small
		arcTo(-2, 1, 210, false, true, P(0, 1)), // negative radius, rotation outside [0,180)
	)
	a = append(a,
		arc(1, 1, 0, 0, 90),
		arc(2, 1, 30, 90, -180), // clockwise, more than half
		arc(1, 1, 0, 0, 450),    // full turn plus a quarter
		arc(1, 1, 0, 180, -180), // exactly one clockwise turn
		arc(1, 1, 0, 0, 630),    // full turn plus three quarters: the remainder is a large arc
		arc(2, 1, 30, 90, -470), // clockwise full turn plus 200 degrees
	)
	for k := range menuPaths() {
		a = append(a, joinCall(k))
	}
	for k := range menuPaths() {
		a = append(a, appendCall(k))
	}
	// one Append call with two operands (an operand ending in a bare MoveTo first, last, not at all)
	for _, kk := range [][2]int{{0, 2}, {1, 0}, {4, 0}, {2, 4}, {4, 3}} {
		a = append(a, appendCall2(kk[0], kk[1]))
	}
	return a
}

// reparse is the pseudo call "print with String(), parse with ParseSVGPath" (a whole-path source).
func reparse() Call {
	return Call{"ParseSVGPath(String())",
		func(p *canvas.Path) *canvas.Path {
			q, err := canvas.ParseSVGPath(p.String())
			if err != nil {
				panic("ParseSVGPath(p.String()) failed: " + err.Error() + " for " + p.String())
			}
			return q
		},
		func(m *Model) {}}
}

// ---------------------------------------------------------------------------------------------
// shape constructors as whole-path sources. The model of each shape is written from its doc
// comment (what is drawn) plus the start point/direction convention of the constructor family
// (rectangles start at the origin / at (0,r) and run counter clockwise, ellipses start at
// (rx,0) counter clockwise, polygons start at the top/bottom vertex counter clockwise).

type shape struct {
	Name  string
	Real  func() *canvas.Path
	Model func(m *Model)
}

func poly(m *Model, pts ...Pt) {
	m.MoveTo(pts[0])
	for _, p := range pts[1:] {
		m.LineTo(p)
	}
	m.Close()
}

func rectModel(m *Model, x, y, w, h float64, ccw bool) {
	if ccw {
		poly(m, Pt{X: x, Y: y}, Pt{X: x + w, Y: y}, Pt{X: x + w, Y: y + h}, Pt{X: x, Y: y + h})
	} else {
		poly(m, Pt{X: x, Y: y}, Pt{X: x, Y: y + h}, Pt{X: x + w, Y: y + h}, Pt{X: x + w, Y: y})
	}
}

func roundedRectModel(m *Model, w, h, r float64) {
	if w == 0 || h == 0 {
		return
	}
	sweep := r > 0
	r = math.Min(math.Abs(r), math.Min(w/2, h/2))
	if r == 0 {
		rectModel(m, 0, 0, w, h, true)
		return
	}
	m.MoveTo(Pt{X: 0, Y: r})
	m.ArcTo(r, r, 0, false, sweep, Pt{X: r, Y: 0})
	m.LineTo(Pt{X: w - r, Y: 0})
	m.ArcTo(r, r, 0, false, sweep, Pt{X: w, Y: r})
	m.LineTo(Pt{X: w, Y: h - r})
	m.ArcTo(r, r, 0, false, sweep, Pt{X: w - r, Y: h})
	m.LineTo(Pt{X: r, Y: h})
	m.ArcTo(r, r, 0, false, sweep, Pt{X: 0, Y: h - r})
	m.Close()
}

func beveledRectModel(m *Model, w, h, r float64) {
	if w == 0 || h == 0 {
		return
	}
	r = math.Min(math.Abs(r), math.Min(w/2, h/2))
	poly(m, Pt{X: 0, Y: r}, Pt{X: r, Y: 0}, Pt{X: w - r, Y: 0}, Pt{X: w, Y: r}, Pt{X: w, Y: h - r}, Pt{X: w - r, Y: h}, Pt{X: r, Y: h}, Pt{X: 0, Y: h - r})
}

func ellipseModel(m *Model, rx, ry float64) {
	if rx == 0 || ry == 0 {
		return
	}
	m.MoveTo(Pt{X: rx})
	m.Arc(rx, ry, 0, 0, 360)
	m.Close()
}

// starModel: vertex i of n at angle 90°(+offset) + i*360/n, radius radii[i%len]; visiting every
// d-th vertex until back at the start.
func starModel(m *Model, n, d int, radii []float64, offsetDeg float64) {
	var pts []Pt
	for i := 0; i == 0 || i%n != 0; i += d {
		th := (90 + offsetDeg + float64(i)*360/float64(n)) * math.Pi / 180
		r := radii[i%len(radii)]
		pts = append(pts, Pt{X: r * math.Cos(th), Y: r * math.Sin(th)})
	}
	poly(m, pts...)
}

func gridModel(m *Model, w, h float64, nx, ny int, r float64) {
	rectModel(m, 0, 0, w, h, true)
	dx := (w - float64(nx+1)*r) / float64(nx)
	dy := (h - float64(ny+1)*r) / float64(ny)
	for j := 0; j < ny; j++ {
		for i := 0; i < nx; i++ {
			rectModel(m, r+float64(i)*(r+dx), r+float64(j)*(r+dy), dx, dy, false)
		}
	}
}

// Shapes is the menu of whole-path sources.
func Shapes() []shape {
	S := func(name string, real func() *canvas.Path, model func(m *Model)) shape {
		return shape{name, real, model}
	}
	return []shape{
		S("Line(2,1)", func() *canvas.Path { return canvas.Line(2, 1) }, func(m *Model) { m.LineTo(Pt{X: 2, Y: 1}) }),
		S("Line(0,0)", func() *canvas.Path { return canvas.Line(0, 0) }, func(m *Model) {}),
		S("Rectangle(2,1)", func() *canvas.Path { return canvas.Rectangle(2, 1) }, func(m *Model) { rectModel(m, 0, 0, 2, 1, true) }),
		S("Rectangle(0,1)", func() *canvas.Path { return canvas.Rectangle(0, 1) }, func(m *Model) {}),
		S("RoundedRectangle(2,1,0.25)", func() *canvas.Path { return canvas.RoundedRectangle(2, 1, 0.25) }, func(m *Model) { roundedRectModel(m, 2, 1, 0.25) }),
		S("RoundedRectangle(2,1,-0.25)", func() *canvas.Path { return canvas.RoundedRectangle(2, 1, -0.25) }, func(m *Model) { roundedRectModel(m, 2, 1, -0.25) }),
		S("RoundedRectangle(2,2,1)", func() *canvas.Path { return canvas.RoundedRectangle(2, 2, 1) }, func(m *Model) { roundedRectModel(m, 2, 2, 1) }),
		S("RoundedRectangle(2,1,5)", func() *canvas.Path { return canvas.RoundedRectangle(2, 1, 5) }, func(m *Model) { roundedRectModel(m, 2, 1, 5) }),
		S("RoundedRectangle(2,1,0)", func() *canvas.Path { return canvas.RoundedRectangle(2, 1, 0) }, func(m *Model) { roundedRectModel(m, 2, 1, 0) }),
		S("BeveledRectangle(2,1,0.25)", func() *canvas.Path { return canvas.BeveledRectangle(2, 1, 0.25) }, func(m *Model) { beveledRectModel(m, 2, 1, 0.25) }),
		S("BeveledRectangle(2,2,1)", func() *canvas.Path { return canvas.BeveledRectangle(2, 2, 1) }, func(m *Model) { beveledRectModel(m, 2, 2, 1) }),
		S("Circle(1)", func() *canvas.Path { return canvas.Circle(1) }, func(m *Model) { ellipseModel(m, 1, 1) }),
		S("Ellipse(2,1)", func() *canvas.Path { return canvas.Ellipse(2, 1) }, func(m *Model) { ellipseModel(m, 2, 1) }),
		S("Ellipse(1,2)", func() *canvas.Path { return canvas.Ellipse(1, 2) }, func(m *Model) { ellipseModel(m, 1, 2) }),
		S("Ellipse(0,1)", func() *canvas.Path { return canvas.Ellipse(0, 1) }, func(m *Model) {}),
		S("Triangle(1)", func() *canvas.Path { return canvas.Triangle(1) }, func(m *Model) { starModel(m, 3, 1, []float64{1}, 0) }),
		S("RegularPolygon(4,1,true)", func() *canvas.Path { return canvas.RegularPolygon(4, 1, true) }, func(m *Model) { starModel(m, 4, 1, []float64{1}, 0) }),
		S("RegularPolygon(5,2,false)", func() *canvas.Path { return canvas.RegularPolygon(5, 2, false) }, func(m *Model) { starModel(m, 5, 1, []float64{2}, 36) }),
		S("RegularStarPolygon(5,2,1,true)", func() *canvas.Path { return canvas.RegularStarPolygon(5, 2, 1, true) }, func(m *Model) { starModel(m, 5, 2, []float64{1}, 0) }),
		S("RegularStarPolygon(6,2,1,true)", func() *canvas.Path { return canvas.RegularStarPolygon(6, 2, 1, true) }, func(m *Model) { starModel(m, 6, 2, []float64{1}, 0) }),
		S("RegularStarPolygon(6,3,1,true)", func() *canvas.Path { return canvas.RegularStarPolygon(6, 3, 1, true) }, func(m *Model) {}),
		S("StarPolygon(5,2,1,true)", func() *canvas.Path { return canvas.StarPolygon(5, 2, 1, true) }, func(m *Model) { starModel(m, 10, 1, []float64{2, 1}, 0) }),
		S("StarPolygon(3,1,2,false)", func() *canvas.Path { return canvas.StarPolygon(3, 1, 2, false) }, func(m *Model) { starModel(m, 6, 1, []float64{1, 2}, 60) }),
		S("Grid(3,2,1,1,0.5)", func() *canvas.Path { return canvas.Grid(3, 2, 1, 1, 0.5) }, func(m *Model) { gridModel(m, 3, 2, 1, 1, 0.5) }),
		S("Grid(5,3,2,1,0.5)", func() *canvas.Path { return canvas.Grid(5, 3, 2, 1, 0.5) }, func(m *Model) { gridModel(m, 5, 3, 2, 1, 0.5) }),
		S("Grid(4,4,2,2,0.5)", func() *canvas.Path { return canvas.Grid(4, 4, 2, 2, 0.5) }, func(m *Model) { gridModel(m, 4, 4, 2, 2, 0.5) }),
		S("Grid(1,1,1,1,0.5)", func() *canvas.Path { return canvas.Grid(1, 1, 1, 1, 0.5) }, func(m *Model) {}),
		S("Arc(1,0,90)", func() *canvas.Path { return canvas.Arc(1, 0, 90) }, func(m *Model) { m.Arc(1, 1, 0, 0, 90) }),
		S("EllipticalArc(2,1,30,0,-270)", func() *canvas.Path { return canvas.EllipticalArc(2, 1, 30, 0, -270) }, func(m *Model) { m.Arc(2, 1, 30, 0, -270) }),
		S("Arc(1,90,810)", func() *canvas.Path { return canvas.Arc(1, 90, 810) }, func(m *Model) { m.Arc(1, 1, 0, 90, 810) }),
	}
}

func (s shape) call() Call {
	return Call{s.Name, func(*canvas.Path) *canvas.Path { return s.Real() }, func(m *Model) { *m = Model{}; s.Model(m) }}
}
