// Package c10: builder well-formedness, totality and purity of canvas.Path (property C10).
//
// geom.go: the requested-geometry representation (RSeg/RSub), an arc evaluator that is stable at
// the "radii just large enough" limit, dense tracing and the directed arc-length comparison.
// Nothing in this file calls canvas.
package c10

import (
	"fmt"
	"math"

	"verif/internal/oracle"
)

type Pt = oracle.Pt

// RSeg is one requested (or decoded) segment. Arcs come in two flavours: endpoint
// parameterised (what ArcTo takes, oracle.Seg fields) and centre parameterised (what Arc takes).
type RSeg struct {
	oracle.Seg
	Center   bool // centre-parameterised elliptical arc: C, Rx, Ry, Phi, Th0, Dth
	C        Pt
	Th0, Dth float64
}

// RSub is one requested subpath.
type RSub struct {
	Start  Pt
	Segs   []RSeg
	Closed bool
}

// SemiSnap is the relative distance from the "radii exactly fit the chord" limit below which an
// arc is evaluated as the half ellipse it is meant to be. Radii that were scaled up to fit
// (SVG F.6.6) are stored as rounded doubles; without the snap the centre would move by
// sqrt(rounding error) ~ 1e-8.
const SemiSnap = 1e-9

// ArcLambda is the F.6.6 quantity x1'^2/rx^2 + y1'^2/ry^2 (radii fit the chord iff <= 1).
func ArcLambda(p0 Pt, rx, ry, phi float64, p1 Pt) float64 {
	rx, ry = math.Abs(rx), math.Abs(ry)
	cs, sn := math.Cos(phi), math.Sin(phi)
	dx, dy := (p0.X-p1.X)/2, (p0.Y-p1.Y)/2
	x1 := cs*dx + sn*dy
	y1 := -sn*dx + cs*dy
	return x1*x1/(rx*rx) + y1*y1/(ry*ry)
}

// arcCenter is the W3C F.6.5 endpoint->centre conversion with the F.6.6 radii correction.
func arcCenter(p0 Pt, rx, ry, phi float64, large, sweep bool, p1 Pt) (c Pt, th0, dth, rxo, ryo float64) {
	rx, ry = math.Abs(rx), math.Abs(ry)
	cs, sn := math.Cos(phi), math.Sin(phi)
	dx, dy := (p0.X-p1.X)/2, (p0.Y-p1.Y)/2
	x1 := cs*dx + sn*dy
	y1 := -sn*dx + cs*dy
	lam := x1*x1/(rx*rx) + y1*y1/(ry*ry)
	k := 0.0
	if lam >= 1-SemiSnap {
		s := math.Sqrt(lam)
		rx *= s
		ry *= s
	} else {
		num := rx*rx*ry*ry - rx*rx*y1*y1 - ry*ry*x1*x1
		den := rx*rx*y1*y1 + ry*ry*x1*x1
		if den != 0 && num > 0 {
			k = math.Sqrt(num / den)
		}
	}
	if large == sweep {
		k = -k
	}
	cx1 := k * rx * y1 / ry
	cy1 := -k * ry * x1 / rx
	c = Pt{X: cs*cx1 - sn*cy1 + (p0.X+p1.X)/2, Y: sn*cx1 + cs*cy1 + (p0.Y+p1.Y)/2}
	ang := func(ux, uy, vx, vy float64) float64 { return math.Atan2(ux*vy-uy*vx, ux*vx+uy*vy) }
	ux, uy := (x1-cx1)/rx, (y1-cy1)/ry
	vx, vy := (-x1-cx1)/rx, (-y1-cy1)/ry
	th0 = ang(1, 0, ux, uy)
	dth = ang(ux, uy, vx, vy)
	if k == 0 {
		// exactly half the ellipse; the direction is the sweep flag's
		dth = math.Pi
		if !sweep {
			dth = -math.Pi
		}
	} else if !sweep && dth > 0 {
		dth -= 2 * math.Pi
	} else if sweep && dth < 0 {
		dth += 2 * math.Pi
	}
	return c, th0, dth, rx, ry
}

// Sample returns n+1 points along the segment (2 for lines).
func (s RSeg) Sample(n int) []Pt {
	switch s.Kind {
	case oracle.CmdLine, oracle.CmdClose:
		return []Pt{s.P0, s.P1}
	case oracle.CmdArc:
		var c Pt
		var th0, dth, rx, ry float64
		if s.Center {
			c, th0, dth, rx, ry = s.C, s.Th0, s.Dth, s.Rx, s.Ry
		} else {
			c, th0, dth, rx, ry = arcCenter(s.P0, s.Rx, s.Ry, s.Phi, s.Large, s.Sweep, s.P1)
		}
		pts := make([]Pt, 0, n+1)
		pts = append(pts, s.P0)
		for i := 1; i < n; i++ {
			pts = append(pts, oracle.EllipseAt(c, rx, ry, s.Phi, th0+dth*float64(i)/float64(n)))
		}
		return append(pts, s.P1)
	}
	return s.Seg.Sample(n)
}

// ZeroLength reports whether the segment has no extent at all (all defining points coincide
// within eps).
func (s RSeg) ZeroLength(eps float64) bool {
	near := func(a, b Pt) bool { return math.Abs(a.X-b.X) <= eps && math.Abs(a.Y-b.Y) <= eps }
	switch s.Kind {
	case oracle.CmdQuad:
		return near(s.P0, s.P1) && near(s.P0, s.C1)
	case oracle.CmdCube:
		return near(s.P0, s.P1) && near(s.P0, s.C1) && near(s.P0, s.C2)
	case oracle.CmdArc:
		if s.Center {
			return s.Dth == 0
		}
		return near(s.P0, s.P1)
	}
	return near(s.P0, s.P1)
}

// FromOracle converts decoded subpaths.
func FromOracle(sps []oracle.Subpath) []RSub {
	out := make([]RSub, len(sps))
	for i, sp := range sps {
		out[i] = RSub{Start: sp.Start, Closed: sp.Closed}
		for _, s := range sp.Segs {
			out[i].Segs = append(out[i].Segs, RSeg{Seg: s})
		}
	}
	return out
}

// Trace is the dense polyline of one subpath; the closing segment is explicit.
type Trace struct {
	P      []Pt
	Closed bool
}

// Dense traces every subpath that has at least one segment of non-zero length; zero-length
// segments are skipped (this is the "only zero-length commands may vanish" normal form).
func Dense(subs []RSub, n int) []Trace {
	var out []Trace
	for _, sp := range subs {
		tr := Trace{Closed: sp.Closed}
		for _, s := range sp.Segs {
			if s.ZeroLength(0) {
				continue
			}
			pts := s.Sample(n)
			if len(tr.P) == 0 {
				tr.P = append(tr.P, pts[0])
			}
			tr.P = append(tr.P, pts[1:]...)
		}
		// a subpath whose whole extent is below the documented zero (1e-10) counts as a
		// zero-length request: it may vanish
		if len(tr.P) >= 2 && tr.Length() > ZeroEps {
			out = append(out, tr)
		}
	}
	return out
}

func (t Trace) Length() float64 {
	l := 0.0
	for i := 0; i+1 < len(t.P); i++ {
		l += t.P[i].Dist(t.P[i+1])
	}
	return l
}

// at returns the point at arc length s along the polyline (clamped).
func (t Trace) cum() []float64 {
	c := make([]float64, len(t.P))
	for i := 1; i < len(t.P); i++ {
		c[i] = c[i-1] + t.P[i-1].Dist(t.P[i])
	}
	return c
}

func pointAt(p []Pt, cum []float64, s float64, hint *int) Pt {
	n := len(p)
	if s <= 0 {
		return p[0]
	}
	if s >= cum[n-1] {
		return p[n-1]
	}
	i := *hint
	if i < 0 || i >= n-1 || cum[i] > s {
		i = 0
	}
	for i+1 < n-1 && cum[i+1] < s {
		i++
	}
	*hint = i
	d := cum[i+1] - cum[i]
	if d == 0 {
		return p[i]
	}
	return oracle.Lerp(p[i], p[i+1], (s-cum[i])/d)
}

// DirectedDeviation compares two traces as curves parameterised by arc length: it returns the
// largest distance between points at equal arc length (evaluated at every vertex of both and
// at the midpoints in between) and the difference of the total lengths. Two traces of the same
// curve in the same direction, differing only by dropped zero-length pieces or merged
// collinear same-direction lines, give (≈0, ≈0); a reversal, a reordering, a lost or an added
// piece does not.
func DirectedDeviation(a, b Trace) (dev, dlen float64) {
	ca, cb := a.cum(), b.cum()
	la, lb := ca[len(ca)-1], cb[len(cb)-1]
	dlen = math.Abs(la - lb)
	var ss []float64
	ss = append(ss, ca...)
	ss = append(ss, cb...)
	for i := 0; i+1 < len(ca); i++ {
		ss = append(ss, (ca[i]+ca[i+1])/2)
	}
	for i := 0; i+1 < len(cb); i++ {
		ss = append(ss, (cb[i]+cb[i+1])/2)
	}
	for _, s := range ss {
		ha, hb := -1, -1
		d := pointAt(a.P, ca, s, &ha).Dist(pointAt(b.P, cb, s, &hb))
		if d > dev {
			dev = d
		}
	}
	return dev, dlen
}

func toPolylines(ts []Trace) []oracle.Polyline {
	out := make([]oracle.Polyline, len(ts))
	for i, t := range ts {
		out[i] = oracle.Polyline{P: t.P}
	}
	return out
}

// Hausdorff is the symmetric Hausdorff distance of the point sets traced (vertices and edge
// midpoints against the other polyline set).
func Hausdorff(a, b []Trace) float64 {
	if len(a) == 0 && len(b) == 0 {
		return 0
	}
	if len(a) == 0 || len(b) == 0 {
		return math.Inf(1)
	}
	pa, pb := toPolylines(a), toPolylines(b)
	return math.Max(oracle.HausdorffOneSided(pa, pb, 1, false), oracle.HausdorffOneSided(pb, pa, 1, false))
}

// Scale is the size of the request used to make tolerances relative (>= 1).
func Scale(ts ...[]Trace) float64 {
	lo := Pt{X: math.Inf(1), Y: math.Inf(1)}
	hi := Pt{X: math.Inf(-1), Y: math.Inf(-1)}
	any := false
	for _, t := range ts {
		for _, tr := range t {
			for _, p := range tr.P {
				any = true
				lo.X, lo.Y = math.Min(lo.X, p.X), math.Min(lo.Y, p.Y)
				hi.X, hi.Y = math.Max(hi.X, p.X), math.Max(hi.Y, p.Y)
			}
		}
	}
	if !any {
		return 1
	}
	return math.Max(1, math.Max(math.Max(math.Abs(lo.X), math.Abs(hi.X)), math.Max(math.Abs(lo.Y), math.Abs(hi.Y))))
}

// CompareDirected compares real against requested geometry subpath by subpath, in order and
// direction. It returns "" when they agree within tol, else a description; worst is the largest
// deviation seen (relative to nothing; caller scales).
func CompareDirected(req, real []Trace, tol float64) (msg string, worst float64) {
	if len(req) != len(real) {
		return fmt.Sprintf("requested %d non-degenerate subpaths, path has %d", len(req), len(real)), math.Inf(1)
	}
	for i := range req {
		if req[i].Closed != real[i].Closed {
			return fmt.Sprintf("subpath %d: requested closed=%v, path has closed=%v", i, req[i].Closed, real[i].Closed), math.Inf(1)
		}
		dev, dlen := DirectedDeviation(req[i], real[i])
		worst = math.Max(worst, math.Max(dev, dlen))
		if dev > tol || dlen > tol {
			return fmt.Sprintf("subpath %d: traced curve deviates from the request by %.3g at equal arc length (length requested %.9g, traced %.9g)", i, dev, req[i].Length(), real[i].Length()), worst
		}
	}
	return "", worst
}

// CenterForm returns the centre parameterisation of an arc segment (centre, start angle, sweep
// angle, corrected radii).
func (s RSeg) CenterForm() (c Pt, th0, dth, rx, ry float64) {
	if s.Center {
		return s.C, s.Th0, s.Dth, s.Rx, s.Ry
	}
	return arcCenter(s.P0, s.Rx, s.Ry, s.Phi, s.Large, s.Sweep, s.P1)
}

// Resample returns k+1 points at equal fractions of the trace's length (nil for a trace
// without length).
func Resample(t Trace, k int) []Pt {
	cum := t.cum()
	l := cum[len(cum)-1]
	if l == 0 {
		return nil
	}
	out := make([]Pt, k+1)
	h := -1
	for i := 0; i <= k; i++ {
		out[i] = pointAt(t.P, cum, l*float64(i)/float64(k), &h)
	}
	return out
}
