package c10

import (
	"testing"
	"time"

	"verif/internal/fw"
)

func TestFirstIndexSpeed(t *testing.T) {
	t0 := time.Now()
	buildFirstIndex()
	t.Logf("firstIndex: %d states of %d histories in %v", len(firstIndex), purityN(), time.Since(t0))
}

func TestGraphVsTree(t *testing.T) {
	buildFirstIndex()
	alpha := Alphabet()
	// graph expansion from data copies
	seen := map[string][]int{"": nil}
	frontier := []string{""}
	for lvl := 1; lvl <= 3; lvl++ {
		var next []string
		for _, k := range frontier {
			d := unkey(k)
			for ci, c := range alpha {
				p := c.Real(canvasFromData(d))
				kk := Key(p.Data())
				if _, ok := seen[kk]; !ok {
					seen[kk] = append(append([]int{}, seen[k]...), ci)
					next = append(next, kk)
				}
			}
		}
		frontier = next
	}
	n := 0
	for k, i := range firstIndex {
		calls := purityCalls(i)
		if len(calls) > 0 && calls[0].Name[0] >= 'A' && isShape(calls[0].Name) {
			continue
		}
		if _, ok := seen[k]; !ok {
			n++
			if n < 8 {
				t.Logf("tree-only state: %s", names(calls))
			}
		}
	}
	t.Logf("tree-only states: %d; graph states %d", n, len(seen))
}

func TestBFS(t *testing.T) {
	r := fw.NewR("C10")
	bfs(r, "g", 3, time.Now().Add(time.Hour))
	t.Logf("states %d transitions %d counters %v", r.States, r.Transitions, r.Counters)
}

func TestCounts(t *testing.T) {
	t.Logf("alphabet %d, shapes %d, pure calls all %d core %d", len(Alphabet()), len(Shapes()), NumPureCalls(false), NumPureCalls(true))
}
