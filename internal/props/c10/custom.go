package c10

import (
	"crypto/sha1"
	"fmt"
	"strings"
	"time"

	"github.com/tdewolff/canvas"

	"verif/internal/fw"
	"verif/internal/oracle"
)

// customs: the deduplicated reachable-state graph. The history families above walk the call
// TREE (every history, so that every transition is judged next to its own request model); this
// search walks the GRAPH: breadth first from the empty path and from every shape, states
// deduplicated on the raw Data() slice, successor = the real call on a fresh path holding a copy
// of the state's data. It provides the exact numbers of distinct states and distinct
// (state, call) transitions, and runs the validator once more on every distinct state.
func customs(tier string) []fw.Custom {
	depth := 3
	if tier == "thorough" {
		depth = 4
	}
	name := fmt.Sprintf("reachable-state graph, depth %d", depth)
	return []fw.Custom{{
		Name: name,
		Run:  func(r *fw.R, deadline time.Time) { bfs(r, name, depth, deadline) },
		Replay: func(c string, r *fw.R) {
			// case string: the call names joined by "; " (same rendering as the families)
			calls, ok := parseNames(c)
			if !ok {
				return
			}
			p, _ := Build(calls)
			is, _ := Validate(p.Data())
			for class, detail := range issueClasses(is) {
				r.ViolateCase(name, class, c, detail)
			}
		},
	}}
}

func parseNames(c string) ([]Call, bool) {
	byName := map[string]Call{}
	for _, a := range Alphabet() {
		byName[a.Name] = a
	}
	for _, s := range Shapes() {
		byName[s.Name] = s.call()
	}
	var out []Call
	if c == "" {
		return nil, true
	}
	for _, n := range strings.Split(c, "; ") {
		a, ok := byName[n]
		if !ok {
			return nil, false
		}
		out = append(out, a)
	}
	return out, true
}

type node struct {
	data []float64
	hist []int // indices into the source+alphabet list (for counter-example rendering)
}

func bfs(r *fw.R, name string, depth int, deadline time.Time) {
	r.SetFamily(name)
	alpha := Alphabet()
	shapes := Shapes()
	seen := map[[16]byte]struct{}{}
	reported := map[string]int{}
	hash := func(d []float64) [16]byte {
		h := sha1.Sum([]byte(Key(d)))
		var k [16]byte
		copy(k[:], h[:16])
		return k
	}
	histName := func(h []int) string {
		var ns []string
		for _, i := range h {
			if i < 0 {
				ns = append(ns, shapes[-i-1].Name)
			} else {
				ns = append(ns, alpha[i].Name)
			}
		}
		return strings.Join(ns, "; ")
	}
	visit := func(d []float64, h []int) bool {
		k := hash(d)
		if _, ok := seen[k]; ok {
			return false
		}
		seen[k] = struct{}{}
		r.States++
		is, _ := Validate(d)
		if len(is) > 0 {
			r.Outcome("graph:malformed state")
			// reported by the history families with full context; here only the first few
			for class, detail := range issueClasses(is) {
				if reported[class] < 3 {
					reported[class]++
					r.ViolateCase(name, class, histName(h), detail+"; data="+oracle.Fmt(d))
				}
			}
		} else {
			r.Outcome("graph:wellformed state")
		}
		return true
	}
	// phase 1: from the empty path over the whole alphabet to the depth bound
	var frontier []node
	if visit(nil, nil) {
		frontier = append(frontier, node{})
	}
	for lvl := 1; lvl <= depth; lvl++ {
		var next []node
		for ni, n := range frontier {
			if ni%1024 == 0 && time.Now().After(deadline) {
				r.Exhaustive = false
				r.Notes = append(r.Notes, fmt.Sprintf("state graph: deadline at level %d", lvl))
				return
			}
			for ci, c := range alpha {
				p := c.Real(canvas.NewPathFromData(snap(n.data)))
				r.Transitions++
				d := p.Data()
				h := append(append([]int{}, n.hist...), ci)
				if visit(d, h) && lvl < depth {
					next = append(next, node{snap(d), h})
				}
			}
		}
		r.Count(fmt.Sprintf("graph: distinct states up to level %d", lvl), int64(len(seen)))
		frontier = next
	}
	// phase 2: every shape constructor followed by up to depth-2 calls (as in the families);
	// the tree is small, so it is walked without pruning and only counted through seen
	var walk func(d []float64, h []int, left int)
	walk = func(d []float64, h []int, left int) {
		visit(d, h)
		if left == 0 {
			return
		}
		for ci, c := range alpha {
			p := c.Real(canvas.NewPathFromData(snap(d)))
			r.Transitions++
			walk(snap(p.Data()), append(append([]int{}, h...), ci), left-1)
		}
	}
	for si, s := range shapes {
		r.Transitions++
		walk(snap(s.Real().Data()), []int{-si - 1}, depth-2)
	}
	r.Count("graph: distinct states including shape sources", int64(len(seen)))
}
