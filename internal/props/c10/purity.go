package c10

import (
	"fmt"
	"math"
	"regexp"
	"runtime/debug"
	"strings"

	"github.com/tdewolff/canvas"

	"verif/internal/oracle"
)

// Finding is one totality/purity problem of one method on one state.
type Finding struct {
	Class  string
	Detail string
}

func bitsEqual(a, b []float64) bool {
	if len(a) != len(b) {
		return false
	}
	for i := range a {
		if math.Float64bits(a[i]) != math.Float64bits(b[i]) {
			return false
		}
	}
	return true
}

func snap(d []float64) []float64 { return append([]float64(nil), d...) }

// fmtData formats path data that may no longer be decodable (overwritten by an aliasing write).
func fmtData(d []float64) (s string) {
	defer func() {
		if recover() != nil {
			s = fmt.Sprintf("undecodable data %v", d)
		}
	}()
	return oracle.Fmt(d)
}

// partner paths for the Boolean operations. The open one returns to its start with a LineTo
// (no Close), the shape in which an in-place Close is visible in the data.
func partnerClosed() *canvas.Path {
	p := &canvas.Path{}
	p.MoveTo(0.5, 0.5)
	p.LineTo(2.5, 0.5)
	p.LineTo(2.5, 2.5)
	p.LineTo(0.5, 2.5)
	p.Close()
	return p
}

func partnerOpen() *canvas.Path {
	p := &canvas.Path{}
	p.MoveTo(0.5, 0.25)
	p.LineTo(2.5, 0.25)
	p.LineTo(1.5, 2.25)
	return p
}

type pureCall struct {
	name string
	// group names the method family in violation classes (one class per root cause, not per
	// argument variant); role says what the state path p is in this call.
	group, role string
	// extra: not in the property's list of queries/derivations (unfinished or unlisted API);
	// problems are tallied as outcomes, not reported as violations.
	extra bool
	// run calls the method on p, handing every argument object through a (which snapshots it).
	run func(p *canvas.Path, a *args)
	// writesReceiver: the probe itself extends the receiver after the call (the receiver
	// comparison is then skipped, the probe reports through args.found)
	writesReceiver bool
}

// args holds the argument objects of one call together with their values at the time they were
// handed over (argument expressions are evaluated before the call, so that is the pre-call value).
type args struct {
	paths     []*canvas.Path
	pathRole  []string
	pathSnaps [][]float64
	floats    [][]float64
	floatSnap [][]float64
	pslice    []canvas.Paths
	psElems   [][]*canvas.Path
	psData    [][][]float64
	found     []Finding // problems a probe found by itself
}

func (a *args) path(p *canvas.Path, role string) *canvas.Path {
	a.paths = append(a.paths, p)
	a.pathRole = append(a.pathRole, role)
	a.pathSnaps = append(a.pathSnaps, snap(p.Data()))
	return p
}
func (a *args) fl(f ...float64) []float64 {
	a.floats = append(a.floats, f)
	a.floatSnap = append(a.floatSnap, snap(f))
	return f
}
// flSub hands the first n of the floats to the call and watches all of them: the rest is the
// spare capacity of the caller's slice, memory that belongs to the caller.
func (a *args) flSub(n int, f ...float64) []float64 {
	a.floats = append(a.floats, f)
	a.floatSnap = append(a.floatSnap, snap(f))
	return f[:n]
}
func (a *args) ps(ps []*canvas.Path) canvas.Paths {
	a.pslice = append(a.pslice, ps)
	a.psElems = append(a.psElems, append([]*canvas.Path(nil), ps...))
	var dd [][]float64
	for _, q := range ps {
		dd = append(dd, snap(q.Data()))
	}
	a.psData = append(a.psData, dd)
	return ps
}

func drainScanner(p *canvas.Path) {
	n := 0
	for s := p.Scanner(); s.Scan(); {
		n++
		if n > 10000 {
			panic("Scanner does not terminate")
		}
		c := s.Cmd()
		_ = s.Values()
		_ = s.Start()
		_ = s.End()
		switch c {
		case canvas.QuadToCmd:
			_ = s.CP1()
		case canvas.CubeToCmd:
			_ = s.CP1()
			_ = s.CP2()
		case canvas.ArcToCmd:
			s.Arc()
		}
		_ = s.Path()
	}
	n = 0
	for s := p.ReverseScanner(); s.Scan(); {
		n++
		if n > 10000 {
			panic("ReverseScanner does not terminate")
		}
		c := s.Cmd()
		_ = s.Values()
		_ = s.Start()
		_ = s.End()
		switch c {
		case canvas.QuadToCmd:
			_ = s.CP1()
		case canvas.CubeToCmd:
			_ = s.CP1()
			_ = s.CP2()
		case canvas.ArcToCmd:
			s.Arc()
		}
		_ = s.Path()
	}
}

var boolNames = []string{"And", "Or", "Xor", "Not", "DivideBy"}

func boolOp(k int, p, q *canvas.Path) *canvas.Path {
	switch k {
	case 0:
		return p.And(q)
	case 1:
		return p.Or(q)
	case 2:
		return p.Xor(q)
	case 3:
		return p.Not(q)
	}
	return p.DivideBy(q)
}

func boolOpPaths(k int, p, q canvas.Paths) *canvas.Path {
	switch k {
	case 0:
		return p.And(q)
	case 1:
		return p.Or(q)
	case 2:
		return p.Xor(q)
	case 3:
		return p.Not(q)
	}
	return p.DivideBy(q)
}

// pureCalls is the list of queries and derivations (everything but the methods documented as
// in-place: builder calls, Reset, Transform, Translate, Scale, Gridsnap, CopyTo's target).
// core marks the subset that is also run on the depth-3 states in the quick tier.
func pureCalls() (all []pureCall, core []pureCall) {
	Q := func(name string, run func(p *canvas.Path, a *args)) pureCall {
		g := name
		if k := strings.IndexByte(g, '('); k > 0 {
			g = g[:k]
		}
		return pureCall{name: name, group: g, role: "receiver", run: run}
	}
	X := func(name string, run func(p *canvas.Path, a *args)) pureCall {
		c := Q(name, run)
		c.extra = true
		return c
	}
	coreSet := map[string]bool{}
	C := func(c pureCall) pureCall { coreSet[c.name] = true; return c }
	all = []pureCall{
		C(Q("Bounds", func(p *canvas.Path, a *args) { p.Bounds() })),
		C(Q("FastBounds", func(p *canvas.Path, a *args) { p.FastBounds() })),
		C(Q("Length", func(p *canvas.Path, a *args) { p.Length() })),
		C(Q("Flatten", func(p *canvas.Path, a *args) { p.Flatten(0.1) })),
		C(Q("ReplaceArcs", func(p *canvas.Path, a *args) { p.ReplaceArcs() })),
		C(Q("XMonotone", func(p *canvas.Path, a *args) { p.XMonotone() })),
		C(Q("Stroke(round)", func(p *canvas.Path, a *args) { p.Stroke(0.5, canvas.RoundCap, canvas.RoundJoin, 0.1) })),
		Q("Stroke(miter)", func(p *canvas.Path, a *args) { p.Stroke(0.25, canvas.SquareCap, canvas.MiterJoin, 0.1) }),
		C(Q("Offset(+)", func(p *canvas.Path, a *args) { p.Offset(0.25, 0.1) })),
		Q("Offset(-)", func(p *canvas.Path, a *args) { p.Offset(-0.25, 0.1) }),
		C(Q("Dash(zero-in-pattern)", func(p *canvas.Path, a *args) { p.Dash(0, a.fl(1, 0, 2, 3)...) })),
		Q("Dash(leading-zero)", func(p *canvas.Path, a *args) { p.Dash(0.25, a.fl(0, 1, 0.5, 0.25)...) }),
		C(Q("Dash(plain)", func(p *canvas.Path, a *args) { p.Dash(0.5, a.fl(0.5, 0.25)...) })),
		Q("Dash(odd)", func(p *canvas.Path, a *args) { p.Dash(-0.25, a.fl(0.75)...) }),
		Q("Dash(trailing-zero)", func(p *canvas.Path, a *args) { p.Dash(0, a.fl(0.5, 0.25, 0.75, 0)...) }),
		Q("Dash(odd, slice with spare capacity)", func(p *canvas.Path, a *args) { p.Dash(0, a.flSub(3, 0.5, 0.25, 0.75, 9, 9, 9, 9)...) }),
		Q("Dash(zero at both ends)", func(p *canvas.Path, a *args) { p.Dash(0.125, a.fl(0, 0.5, 0.25, 0)...) }),
		C(Q("Reverse", func(p *canvas.Path, a *args) { p.Reverse() })),
		C(Q("Split", func(p *canvas.Path, a *args) { p.Split() })),
		C(Q("SplitAt", func(p *canvas.Path, a *args) { p.SplitAt(a.fl(0.5, 1.5)...) })),
		Q("SplitAt(unsorted)", func(p *canvas.Path, a *args) { p.SplitAt(a.fl(1.5, 0.25, 0.5)...) }),
		C(Q("Settle(NonZero)", func(p *canvas.Path, a *args) { p.Settle(canvas.NonZero) })),
		Q("Settle(EvenOdd)", func(p *canvas.Path, a *args) { p.Settle(canvas.EvenOdd) }),
		C(Q("ToSVG", func(p *canvas.Path, a *args) { _ = p.ToSVG() })),
		C(Q("ToPDF", func(p *canvas.Path, a *args) { _ = p.ToPDF() })),
		C(Q("ToPS", func(p *canvas.Path, a *args) { _ = p.ToPS() })),
		C(Q("String", func(p *canvas.Path, a *args) { _ = p.String() })),
		C(Q("Scanners", func(p *canvas.Path, a *args) { drainScanner(p) })),
		C(Q("Windings", func(p *canvas.Path, a *args) {
			for _, q := range []Pt{{X: 0.5, Y: 0.5}, {X: 1, Y: 1}, {X: -1, Y: 0}, {X: 1.25, Y: 0.75}} {
				p.Windings(q.X, q.Y)
				p.Crossings(q.X, q.Y)
				p.Contains(q.X, q.Y, canvas.NonZero)
				p.Contains(q.X, q.Y, canvas.EvenOdd)
			}
		})),
		Q("RayIntersections", func(p *canvas.Path, a *args) { p.RayIntersections(-1, 0.5); p.RayIntersections(0, 1) }),
		C(Q("Copy", func(p *canvas.Path, a *args) { p.Copy() })),
		Q("CCW", func(p *canvas.Path, a *args) { p.CCW() }),
		Q("Filling", func(p *canvas.Path, a *args) { p.Filling(canvas.NonZero); p.Filling(canvas.EvenOdd) }),
		C(Q("Coords", func(p *canvas.Path, a *args) {
			// one direction per coordinate (Markers and the SVG reader's markers index both alike)
			if nc, nd := len(p.Coords()), len(p.CoordDirections()); !p.Empty() && !p.HasSubpaths() && nc != nd {
				panic(fmt.Sprintf("Coords() has %d points, CoordDirections() %d directions", nc, nd))
			}
		})),
		Q("Segments", func(p *canvas.Path, a *args) {
			n := len(p.Segments())
			for i := 0; i < n; i++ {
				p.Direction(i, 0.5)
				p.Curvature(i, 0.5)
			}
		}),
		Q("Predicates", func(p *canvas.Path, a *args) {
			p.Empty()
			p.Closed()
			p.PointClosed()
			p.HasSubpaths()
			p.Flat()
			p.Sane()
			p.Len()
			p.Pos()
			p.StartPos()
		}),
		Q("Equals/Same", func(p *canvas.Path, a *args) {
			q := a.path(partnerClosed(), "argument")
			p.Equals(q)
			p.Same(q)
			q.Same(p)
		}),
		C(Q("Markers", func(p *canvas.Path, a *args) {
			m := a.path(partnerOpen(), "argument")
			p.Markers(m, m, m, true)
			p.Markers(nil, nil, m, false)
		})),
		X("Clip", func(p *canvas.Path, a *args) { p.Clip(0.5, 0.5, 1.5, 1.5) }),
		X("FastClip", func(p *canvas.Path, a *args) { p.FastClip(0.5, 0.5, 1.5, 1.5) }),
		X("SimplifyVisvalingamWhyatt", func(p *canvas.Path, a *args) { p.SimplifyVisvalingamWhyatt(0.1) }),
		X("GobEncode", func(p *canvas.Path, a *args) { p.GobEncode() }),
	}
	// aliasing probes: a result that is a distinct object must not share spare capacity with
	// the receiver: extending the result must leave the receiver (and the sibling results,
	// which alias the receiver) as they were
	ext := func(p *canvas.Path, qs ...*canvas.Path) {
		for _, q := range qs {
			if q != nil && q != p {
				q.LineTo(7.5, 7.25)
			}
		}
	}
	A := func(name string, run func(p *canvas.Path, a *args)) pureCall {
		return pureCall{name: name, group: name, role: "receiver", run: run}
	}
	all = append(all,
		C(A("Split+extend-results", func(p *canvas.Path, a *args) { ext(p, p.Split()...) })),
		A("SplitAt+extend-results", func(p *canvas.Path, a *args) { ext(p, p.SplitAt(0.5, 1.5)...) }),
		A("Copy+extend-result", func(p *canvas.Path, a *args) { ext(p, p.Copy()) }),
		A("CopyTo(longer target)+extend-result", func(p *canvas.Path, a *args) {
			q := canvas.MustParseSVGPath("M9 9L8 8L7 9L6 8L5 9L4 8L3 9L2 8L1 9L0 8L9 7L8 6L7 7L6 6L5 7z")
			res := p.CopyTo(q)
			if !res.Equals(p) {
				panic("CopyTo: the target does not equal the receiver")
			}
			ext(p, res)
		}),
		A("CopyTo(empty target)+extend-result", func(p *canvas.Path, a *args) { ext(p, p.CopyTo(&canvas.Path{})) }),
		A("CopyTo(nil)+extend-result", func(p *canvas.Path, a *args) { ext(p, p.CopyTo(nil)) }),
		A("Reverse+extend-result", func(p *canvas.Path, a *args) { ext(p, p.Reverse()) }),
		C(A("Flatten+extend-result", func(p *canvas.Path, a *args) { ext(p, p.Flatten(0.1)) })),
		A("ReplaceArcs+extend-result", func(p *canvas.Path, a *args) { ext(p, p.ReplaceArcs()) }),
		A("Dash+extend-result", func(p *canvas.Path, a *args) { ext(p, p.Dash(0.5, 0.5, 0.25)) }),
	)
	// results must also survive later writes: each result is extended (snapshot taken right after),
	// then the receiver is extended; a result that shares spare capacity with the receiver or with
	// a sibling (also one returned by a second call) is overwritten by a later extension
	indep := func(name string, derive func(p *canvas.Path) []*canvas.Path) pureCall {
		return pureCall{name: name + ": results independent of later writes", group: name + "-result-aliases", role: "receiver", writesReceiver: true,
			run: func(p *canvas.Path, a *args) {
				qs := append(derive(p), derive(p)...)
				var snaps [][]float64
				for k, q := range qs {
					if q == nil || q == p {
						snaps = append(snaps, nil)
						continue
					}
					if k%2 == 0 {
						q.LineTo(7.5, 7.25)
					} else {
						q.QuadTo(6.5, 7.25, 7.5, 6.25)
					}
					snaps = append(snaps, snap(q.Data()))
				}
				p.MoveTo(8.5, 8.25)
				p.CubeTo(9.5, 8.25, 9.5, 9.25, 8.5, 9.25)
				for k, q := range qs {
					if snaps[k] != nil && !bitsEqual(snaps[k], q.Data()) {
						a.found = append(a.found, Finding{name + "-result-aliases", fmt.Sprintf("result %d of %d (two calls) was %s after extending it, is %s after extending its siblings and the receiver", k, len(qs), oracle.Fmt(snaps[k]), fmtData(q.Data()))})
						return
					}
				}
			}}
	}
	one := func(f func(p *canvas.Path) *canvas.Path) func(p *canvas.Path) []*canvas.Path {
		return func(p *canvas.Path) []*canvas.Path { return []*canvas.Path{f(p)} }
	}
	all = append(all,
		C(indep("Split", func(p *canvas.Path) []*canvas.Path { return p.Split() })),
		indep("SplitAt", func(p *canvas.Path) []*canvas.Path { return p.SplitAt(0.5, 1.5) }),
		indep("Copy", one(func(p *canvas.Path) *canvas.Path { return p.Copy() })),
		indep("Reverse", one(func(p *canvas.Path) *canvas.Path { return p.Reverse() })),
		indep("Flatten", one(func(p *canvas.Path) *canvas.Path { return p.Flatten(0.1) })),
		indep("ReplaceArcs", one(func(p *canvas.Path) *canvas.Path { return p.ReplaceArcs() })),
		indep("Dash", one(func(p *canvas.Path) *canvas.Path { return p.Dash(0.5, 0.5, 0.25) })),
		indep("Transform", one(func(p *canvas.Path) *canvas.Path { return p.Copy().Transform(canvas.Identity.Translate(1, 0)) })),
	)
	B := func(name, role string, run func(p *canvas.Path, a *args)) pureCall {
		return pureCall{name: name, group: "boolean-op", role: role, run: run}
	}
	for k := range boolNames {
		k := k
		n := boolNames[k]
		all = append(all,
			B(n+"(p,closed)", "subject", func(p *canvas.Path, a *args) { boolOp(k, p, a.path(partnerClosed(), "clipping")) }),
			B(n+"(p,open)", "subject", func(p *canvas.Path, a *args) { boolOp(k, p, a.path(partnerOpen(), "clipping")) }),
			B(n+"(closed,p)", "clipping", func(p *canvas.Path, a *args) { boolOp(k, a.path(partnerClosed(), "subject"), p) }),
			B(n+"(p,p)", "subject-and-clipping", func(p *canvas.Path, a *args) { boolOp(k, p, p) }),
			B("Paths."+n+"(p.Split(),{closed})", "subject", func(p *canvas.Path, a *args) {
				boolOpPaths(k, a.ps(p.Split()), a.ps([]*canvas.Path{a.path(partnerClosed(), "clipping")}))
			}),
			B("Paths."+n+"({closed},p.Split())", "clipping", func(p *canvas.Path, a *args) {
				boolOpPaths(k, a.ps([]*canvas.Path{a.path(partnerClosed(), "subject")}), a.ps(p.Split()))
			}),
		)
		if k == 0 || k == 1 {
			coreSet[n+"(p,closed)"] = true
			coreSet[n+"(closed,p)"] = true
		}
	}
	coreSet["Paths.And(p.Split(),{closed})"] = true
	all = append(all,
		B("Paths.Settle(p.Split())", "subject", func(p *canvas.Path, a *args) { a.ps(p.Split()).Settle(canvas.NonZero) }),
		// a Paths element that is not split yet (the implementation splits such elements itself)
		B("Paths.Settle({p})", "subject", func(p *canvas.Path, a *args) { a.ps([]*canvas.Path{p}).Settle(canvas.NonZero) }),
	)
	for _, c := range all {
		if coreSet[c.name] {
			core = append(core, c)
		}
	}
	return all, core
}

var pureAll, pureCore = pureCalls()

// NumPureCalls is the number of method invocations per state.
func NumPureCalls(coreOnly bool) int {
	if coreOnly {
		return len(pureCore)
	}
	return len(pureAll)
}

var digitsRe = regexp.MustCompile(`[0-9]+`)

// CheckTotalityPurity calls every listed method on a path freshly built by mk (one fresh path
// per method, so natural slice capacities and no cross talk), under recover, and bit-compares
// receiver and arguments before and after. Finding classes name the root cause as far as it
// can be told from the outside: the panic site and message, or what was modified by which
// method family.
func CheckTotalityPurity(mk func() *canvas.Path, coreOnly bool) (fs []Finding, extras []Finding) {
	list := pureAll
	if coreOnly {
		list = pureCore
	}
	for _, c := range list {
		p := mk()
		before := snap(p.Data())
		a := &args{}
		add := func(f Finding) {
			f.Detail = c.name + ": " + f.Detail
			if c.extra {
				extras = append(extras, f)
			} else {
				fs = append(fs, f)
			}
		}
		func() {
			defer func() {
				if e := recover(); e != nil {
					site := panicSite(string(debug.Stack()))
					msg := digitsRe.ReplaceAllString(fmt.Sprint(e), "#")
					if len(msg) > 80 {
						msg = msg[:80]
					}
					fn := site
					if k := strings.IndexByte(fn, ' '); k > 0 {
						fn = fn[:k]
					}
					add(Finding{"panic:" + fn + ": " + msg, fmt.Sprintf("%v @ %s", e, site)})
				}
			}()
			c.run(p, a)
		}()
		for _, f := range a.found {
			add(f)
		}
		recvMutated := !c.writesReceiver && !bitsEqual(before, p.Data())
		if recvMutated {
			add(Finding{c.role + "-path-mutated:" + c.group, fmt.Sprintf("path was %s, is now %s", oracle.Fmt(before), oracle.Fmt(p.Data()))})
		}
		for i, q := range a.paths {
			if q != p && !bitsEqual(a.pathSnaps[i], q.Data()) {
				add(Finding{a.pathRole[i] + "-path-mutated:" + c.group, fmt.Sprintf("%s path was %s, is now %s", a.pathRole[i], oracle.Fmt(a.pathSnaps[i]), oracle.Fmt(q.Data()))})
			}
		}
		for i, f := range a.floats {
			if !bitsEqual(a.floatSnap[i], f) {
				add(Finding{"argument-slice-mutated:" + c.group, fmt.Sprintf("argument slice was %v, is now %v", a.floatSnap[i], f)})
			}
		}
		for i, ps := range a.pslice {
			for j := range ps {
				if ps[j] != a.psElems[i][j] {
					add(Finding{"Paths-argument-elements-replaced:" + c.group, fmt.Sprintf("element %d of Paths argument %d was replaced: pointed to %s, now points to %s", j, i, oracle.Fmt(a.psData[i][j]), oracle.Fmt(ps[j].Data()))})
				} else if !recvMutated && !bitsEqual(a.psData[i][j], ps[j].Data()) {
					add(Finding{"Paths-argument-path-mutated:" + c.group, fmt.Sprintf("path %d in Paths argument %d was %s, is now %s", j, i, oracle.Fmt(a.psData[i][j]), oracle.Fmt(ps[j].Data()))})
				}
			}
		}
	}
	return fs, extras
}

// PanicSite extracts the first canvas frame below the panic from a stack dump.
func PanicSite(stack string) string { return panicSite(stack) }

func panicSite(stack string) string {
	// first canvas frame after the panic
	lines := strings.Split(stack, "\n")
	seenPanic := false
	for i, l := range lines {
		if strings.HasPrefix(l, "panic(") {
			seenPanic = true
			continue
		}
		if seenPanic && strings.Contains(l, "tdewolff/canvas") && i+1 < len(lines) {
			fn := l
			if k := strings.LastIndex(fn, "("); k > 0 {
				fn = fn[:k]
			}
			if k := strings.LastIndex(fn, "/"); k >= 0 {
				fn = fn[k+1:]
			}
			loc := strings.TrimSpace(lines[i+1])
			if k := strings.Index(loc, " +0x"); k > 0 {
				loc = loc[:k]
			}
			if k := strings.LastIndex(loc, "/"); k >= 0 {
				loc = loc[k+1:]
			}
			return fn + " " + loc
		}
	}
	return "?"
}
