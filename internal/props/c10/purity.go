package c10

import (
	"fmt"
	"math"
	"runtime/debug"
	"strings"

	"github.com/tdewolff/canvas"

	"verif/internal/oracle"
)

// Finding is one totality/purity problem of one method on one state.
type Finding struct {
	Class  string
	Detail string
}

func bitsEqual(a, b []float64) bool {
	if len(a) != len(b) {
		return false
	}
	for i := range a {
		if math.Float64bits(a[i]) != math.Float64bits(b[i]) {
			return false
		}
	}
	return true
}

func snap(d []float64) []float64 { return append([]float64(nil), d...) }

// partner paths for the Boolean operations. The open one returns to its start with a LineTo
// (no Close), the shape in which an in-place Close is visible in the data.
func partnerClosed() *canvas.Path {
	p := &canvas.Path{}
	p.MoveTo(0.5, 0.5)
	p.LineTo(2.5, 0.5)
	p.LineTo(2.5, 2.5)
	p.LineTo(0.5, 2.5)
	p.Close()
	return p
}

func partnerOpen() *canvas.Path {
	p := &canvas.Path{}
	p.MoveTo(0.5, 0.25)
	p.LineTo(2.5, 0.25)
	p.LineTo(1.5, 2.25)
	return p
}

type pureCall struct {
	name string
	// run calls the method on p, handing every argument object through a (which snapshots it).
	run func(p *canvas.Path, a *args)
}

// args holds the argument objects of one call together with their values at the time they were
// handed over (argument expressions are evaluated before the call, so that is the pre-call value).
type args struct {
	paths     []*canvas.Path
	pathSnaps [][]float64
	floats    [][]float64
	floatSnap [][]float64
	pslice    []canvas.Paths
	psElems   [][]*canvas.Path
	psData    [][][]float64
}

func (a *args) path(p *canvas.Path) *canvas.Path {
	a.paths = append(a.paths, p)
	a.pathSnaps = append(a.pathSnaps, snap(p.Data()))
	return p
}
func (a *args) fl(f ...float64) []float64 {
	a.floats = append(a.floats, f)
	a.floatSnap = append(a.floatSnap, snap(f))
	return f
}
func (a *args) ps(ps canvas.Paths) canvas.Paths {
	a.pslice = append(a.pslice, ps)
	a.psElems = append(a.psElems, append([]*canvas.Path(nil), ps...))
	var dd [][]float64
	for _, q := range ps {
		dd = append(dd, snap(q.Data()))
	}
	a.psData = append(a.psData, dd)
	return ps
}

func drainScanner(p *canvas.Path) {
	n := 0
	for s := p.Scanner(); s.Scan(); {
		n++
		if n > 10000 {
			panic("Scanner does not terminate")
		}
		c := s.Cmd()
		_ = s.Values()
		_ = s.Start()
		_ = s.End()
		switch c {
		case canvas.QuadToCmd:
			_ = s.CP1()
		case canvas.CubeToCmd:
			_ = s.CP1()
			_ = s.CP2()
		case canvas.ArcToCmd:
			s.Arc()
		}
		_ = s.Path()
	}
	n = 0
	for s := p.ReverseScanner(); s.Scan(); {
		n++
		if n > 10000 {
			panic("ReverseScanner does not terminate")
		}
		c := s.Cmd()
		_ = s.Values()
		_ = s.Start()
		_ = s.End()
		switch c {
		case canvas.QuadToCmd:
			_ = s.CP1()
		case canvas.CubeToCmd:
			_ = s.CP1()
			_ = s.CP2()
		case canvas.ArcToCmd:
			s.Arc()
		}
		_ = s.Path()
	}
}

var boolNames = []string{"And", "Or", "Xor", "Not", "DivideBy"}

func boolOp(k int, p, q *canvas.Path) *canvas.Path {
	switch k {
	case 0:
		return p.And(q)
	case 1:
		return p.Or(q)
	case 2:
		return p.Xor(q)
	case 3:
		return p.Not(q)
	}
	return p.DivideBy(q)
}

func boolOpPaths(k int, p, q canvas.Paths) *canvas.Path {
	switch k {
	case 0:
		return p.And(q)
	case 1:
		return p.Or(q)
	case 2:
		return p.Xor(q)
	case 3:
		return p.Not(q)
	}
	return p.DivideBy(q)
}

// pureCalls is the list of queries and derivations (everything but the methods documented as
// in-place: builder calls, Reset, Transform, Translate, Scale, Gridsnap, CopyTo's target).
func pureCalls() []pureCall {
	cs := []pureCall{
		{"Bounds", func(p *canvas.Path, a *args) { p.Bounds() }},
		{"FastBounds", func(p *canvas.Path, a *args) { p.FastBounds() }},
		{"Length", func(p *canvas.Path, a *args) { p.Length() }},
		{"Flatten", func(p *canvas.Path, a *args) { p.Flatten(0.1) }},
		{"ReplaceArcs", func(p *canvas.Path, a *args) { p.ReplaceArcs() }},
		{"XMonotone", func(p *canvas.Path, a *args) { p.XMonotone() }},
		{"Stroke(round)", func(p *canvas.Path, a *args) { p.Stroke(0.5, canvas.RoundCap, canvas.RoundJoin, 0.1) }},
		{"Stroke(miter)", func(p *canvas.Path, a *args) { p.Stroke(0.25, canvas.SquareCap, canvas.MiterJoin, 0.1) }},
		{"Offset(+)", func(p *canvas.Path, a *args) { p.Offset(0.25, 0.1) }},
		{"Offset(-)", func(p *canvas.Path, a *args) { p.Offset(-0.25, 0.1) }},
		{"Dash(zero-in-pattern)", func(p *canvas.Path, a *args) { p.Dash(0, a.fl(1, 0, 2, 3)...) }},
		{"Dash(leading-zero)", func(p *canvas.Path, a *args) { p.Dash(0.25, a.fl(0, 1, 0.5, 0.25)...) }},
		{"Dash(plain)", func(p *canvas.Path, a *args) { p.Dash(0.5, a.fl(0.5, 0.25)...) }},
		{"Dash(odd)", func(p *canvas.Path, a *args) { p.Dash(-0.25, a.fl(0.75)...) }},
		{"Reverse", func(p *canvas.Path, a *args) { p.Reverse() }},
		{"Split", func(p *canvas.Path, a *args) { p.Split() }},
		{"SplitAt", func(p *canvas.Path, a *args) { p.SplitAt(a.fl(0.5, 1.5)...) }},
		{"Settle(NonZero)", func(p *canvas.Path, a *args) { p.Settle(canvas.NonZero) }},
		{"Settle(EvenOdd)", func(p *canvas.Path, a *args) { p.Settle(canvas.EvenOdd) }},
		{"ToSVG", func(p *canvas.Path, a *args) { _ = p.ToSVG() }},
		{"ToPDF", func(p *canvas.Path, a *args) { _ = p.ToPDF() }},
		{"ToPS", func(p *canvas.Path, a *args) { _ = p.ToPS() }},
		{"String", func(p *canvas.Path, a *args) { _ = p.String() }},
		{"Scanners", func(p *canvas.Path, a *args) { drainScanner(p) }},
		{"Windings", func(p *canvas.Path, a *args) {
			for _, q := range []Pt{{X: 0.5, Y: 0.5}, {X: 1, Y: 1}, {X: -1, Y: 0}, {X: 1.25, Y: 0.75}} {
				p.Windings(q.X, q.Y)
				p.Crossings(q.X, q.Y)
				p.Contains(q.X, q.Y, canvas.NonZero)
				p.Contains(q.X, q.Y, canvas.EvenOdd)
			}
		}},
		{"RayIntersections", func(p *canvas.Path, a *args) { p.RayIntersections(-1, 0.5); p.RayIntersections(0, 1) }},
		{"Copy", func(p *canvas.Path, a *args) { p.Copy() }},
		{"CCW", func(p *canvas.Path, a *args) { p.CCW() }},
		{"Filling", func(p *canvas.Path, a *args) { p.Filling(canvas.NonZero); p.Filling(canvas.EvenOdd) }},
		{"Coords", func(p *canvas.Path, a *args) { p.Coords(); p.CoordDirections() }},
		{"Segments", func(p *canvas.Path, a *args) {
			n := len(p.Segments())
			for i := 0; i < n; i++ {
				p.Direction(i, 0.5)
				p.Curvature(i, 0.5)
			}
		}},
		{"Predicates", func(p *canvas.Path, a *args) {
			p.Empty()
			p.Closed()
			p.PointClosed()
			p.HasSubpaths()
			p.Flat()
			p.Sane()
			p.Len()
			p.Pos()
			p.StartPos()
		}},
		{"Equals/Same", func(p *canvas.Path, a *args) { q := a.path(partnerClosed()); p.Equals(q); p.Same(q); q.Same(p) }},
		{"Markers", func(p *canvas.Path, a *args) {
			m := a.path(partnerOpen())
			p.Markers(m, m, m, true)
		}},
		{"Clip", func(p *canvas.Path, a *args) { p.Clip(0.5, 0.5, 1.5, 1.5) }},
		{"FastClip", func(p *canvas.Path, a *args) { p.FastClip(0.5, 0.5, 1.5, 1.5) }},
		{"SimplifyVisvalingamWhyatt", func(p *canvas.Path, a *args) { p.SimplifyVisvalingamWhyatt(0.1) }},
		{"GobEncode", func(p *canvas.Path, a *args) { p.GobEncode() }},
	}
	for k := range boolNames {
		k := k
		cs = append(cs,
			pureCall{boolNames[k] + "(p,closed)", func(p *canvas.Path, a *args) { boolOp(k, p, a.path(partnerClosed())) }},
			pureCall{boolNames[k] + "(p,open)", func(p *canvas.Path, a *args) { boolOp(k, p, a.path(partnerOpen())) }},
			pureCall{boolNames[k] + "(closed,p)", func(p *canvas.Path, a *args) { boolOp(k, a.path(partnerClosed()), p) }},
			pureCall{boolNames[k] + "(p,p)", func(p *canvas.Path, a *args) { boolOp(k, p, p) }},
			pureCall{"Paths." + boolNames[k] + "({p},{closed})", func(p *canvas.Path, a *args) {
				boolOpPaths(k, a.ps(canvas.Paths{p}), a.ps(canvas.Paths{a.path(partnerClosed())}))
			}},
			pureCall{"Paths." + boolNames[k] + "({closed},{p})", func(p *canvas.Path, a *args) {
				boolOpPaths(k, a.ps(canvas.Paths{a.path(partnerClosed())}), a.ps(canvas.Paths{p}))
			}},
		)
	}
	cs = append(cs, pureCall{"Paths.Settle({p})", func(p *canvas.Path, a *args) { a.ps(canvas.Paths{p}).Settle(canvas.NonZero) }})
	return cs
}

var pureList = pureCalls()

// NumPureCalls is the number of method invocations per state.
func NumPureCalls() int { return len(pureList) }

// CheckTotalityPurity calls every listed method on a path freshly built by mk (one fresh path
// per method, so natural slice capacities and no cross talk), under recover, and bit-compares
// receiver and arguments before and after.
func CheckTotalityPurity(mk func() *canvas.Path) []Finding {
	var fs []Finding
	for _, c := range pureList {
		p := mk()
		before := snap(p.Data())
		a := &args{}
		func() {
			defer func() {
				if e := recover(); e != nil {
					fs = append(fs, Finding{"panic:" + c.name, fmt.Sprintf("%v @ %s", e, panicSite(string(debug.Stack())))})
				}
			}()
			c.run(p, a)
		}()
		if !bitsEqual(before, p.Data()) {
			fs = append(fs, Finding{"receiver-mutated:" + c.name, fmt.Sprintf("path was %s, is now %s", oracle.Fmt(before), oracle.Fmt(p.Data()))})
		}
		for i, q := range a.paths {
			if q != p && !bitsEqual(a.pathSnaps[i], q.Data()) {
				fs = append(fs, Finding{"argument-path-mutated:" + c.name, fmt.Sprintf("argument path was %s, is now %s", oracle.Fmt(a.pathSnaps[i]), oracle.Fmt(q.Data()))})
			}
		}
		for i, f := range a.floats {
			if !bitsEqual(a.floatSnap[i], f) {
				fs = append(fs, Finding{"argument-slice-mutated:" + c.name, fmt.Sprintf("argument slice was %v, is now %v", a.floatSnap[i], f)})
			}
		}
		for i, ps := range a.pslice {
			for j := range ps {
				if ps[j] != a.psElems[i][j] {
					fs = append(fs, Finding{"argument-Paths-mutated:" + c.name, fmt.Sprintf("element %d of Paths argument %d was replaced: pointed to %s, now points to %s", j, i, oracle.Fmt(a.psData[i][j]), oracle.Fmt(ps[j].Data()))})
				} else if ps[j] != p && !bitsEqual(a.psData[i][j], ps[j].Data()) {
					fs = append(fs, Finding{"argument-path-mutated:" + c.name, fmt.Sprintf("path in Paths argument %d was %s, is now %s", i, oracle.Fmt(a.psData[i][j]), oracle.Fmt(ps[j].Data()))})
				}
			}
		}
	}
	return fs
}

func panicSite(stack string) string {
	// first canvas frame after the panic
	lines := strings.Split(stack, "\n")
	seenPanic := false
	for i, l := range lines {
		if strings.HasPrefix(l, "panic(") {
			seenPanic = true
			continue
		}
		if seenPanic && strings.Contains(l, "tdewolff/canvas") && i+1 < len(lines) {
			fn := l
			if k := strings.LastIndex(fn, "("); k > 0 {
				fn = fn[:k]
			}
			if k := strings.LastIndex(fn, "/"); k >= 0 {
				fn = fn[k+1:]
			}
			loc := strings.TrimSpace(lines[i+1])
			if k := strings.Index(loc, " +0x"); k > 0 {
				loc = loc[:k]
			}
			if k := strings.LastIndex(loc, "/"); k >= 0 {
				loc = loc[k+1:]
			}
			return fn + " " + loc
		}
	}
	return "?"
}
