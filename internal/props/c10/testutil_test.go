package c10

import (
	"math"

	"github.com/tdewolff/canvas"
)

func unkey(k string) []float64 {
	d := make([]float64, len(k)/8)
	for i := range d {
		var b uint64
		for j := 0; j < 8; j++ {
			b |= uint64(k[i*8+j]) << (8 * j)
		}
		d[i] = math.Float64frombits(b)
	}
	return d
}

func canvasFromData(d []float64) *canvas.Path {
	return canvas.NewPathFromData(append([]float64(nil), d...))
}

func isShape(n string) bool {
	for _, s := range Shapes() {
		if s.Name == n {
			return true
		}
	}
	return false
}
