package c10

import (
	"math"

	"verif/internal/oracle"
)

// Model is the reference model of a path under construction: the list of REQUESTED raw
// segments, following the documented meaning of each builder call (doc comments of path.go and
// the SVG path semantics they refer to). Nothing is simplified here: zero-length requests are
// kept and skipped only when tracing (Dense), collinear lines are never merged.
type Model struct {
	Subs []RSub
	// Skip is set (with a reason) when a discrete decision of the documented semantics depends on
	// whether two points that differ by less than 1e-9 "coincide": too close to call.
	Skip string
	// IllConditioned is set when a requested arc is within 1e-6 (relative) BELOW the limit
	// where its radii just fit the chord: there the centre depends on the square root of
	// rounding errors and no tight tolerance is meaningful. Decided from the request alone.
	IllConditioned bool
}

func (m *Model) Clone() *Model {
	c := &Model{IllConditioned: m.IllConditioned, Skip: m.Skip, Subs: make([]RSub, len(m.Subs))}
	for i, s := range m.Subs {
		c.Subs[i] = RSub{Start: s.Start, Closed: s.Closed, Segs: append([]RSeg(nil), s.Segs...)}
	}
	return c
}

func (m *Model) last() *RSub {
	if len(m.Subs) == 0 {
		return nil
	}
	return &m.Subs[len(m.Subs)-1]
}

// Pos is the current pen position: the end of the last command; the origin for an empty path.
func (m *Model) Pos() Pt {
	l := m.last()
	if l == nil {
		return Pt{}
	}
	if l.Closed || len(l.Segs) == 0 {
		return l.Start
	}
	return l.Segs[len(l.Segs)-1].P1
}

// HasSegments reports whether anything but moves and closes of empty subpaths was requested
// (the documented meaning of !Path.Empty()).
func (m *Model) HasSegments() bool {
	for _, s := range m.Subs {
		for _, g := range s.Segs {
			if g.Kind != oracle.CmdClose {
				return true
			}
		}
	}
	return false
}

// open makes sure there is an open subpath to draw into: drawing on an empty path starts at
// the origin; drawing after Close starts a new subpath at the point the close returned to.
func (m *Model) open() *RSub {
	l := m.last()
	if l == nil {
		m.Subs = append(m.Subs, RSub{})
	} else if l.Closed {
		m.Subs = append(m.Subs, RSub{Start: l.Start})
	}
	return m.last()
}

func (m *Model) MoveTo(p Pt) { m.Subs = append(m.Subs, RSub{Start: p}) }

func (m *Model) LineTo(p Pt) {
	p0 := m.Pos()
	s := m.open()
	s.Segs = append(s.Segs, RSeg{Seg: oracle.Seg{Kind: oracle.CmdLine, P0: p0, P1: p}})
}

func (m *Model) QuadTo(c, p Pt) {
	p0 := m.Pos()
	s := m.open()
	s.Segs = append(s.Segs, RSeg{Seg: oracle.Seg{Kind: oracle.CmdQuad, P0: p0, C1: c, P1: p}})
}

func (m *Model) CubeTo(c1, c2, p Pt) {
	p0 := m.Pos()
	s := m.open()
	s.Segs = append(s.Segs, RSeg{Seg: oracle.Seg{Kind: oracle.CmdCube, P0: p0, C1: c1, C2: c2, P1: p}})
}

// ArcTo follows the SVG arc semantics the doc comment points to: identical end points draw
// nothing, a zero radius draws a straight line, negative radii count by their absolute value,
// too small radii are scaled up uniformly until they fit (F.6.6).
func (m *Model) ArcTo(rx, ry, rotDeg float64, large, sweep bool, p Pt) {
	p0 := m.Pos()
	if d := p0.Dist(p); d != 0 && d < 1e-9 {
		m.Skip = "arcto: end points differ by less than 1e-9 but not exactly"
	}
	if p0 == p {
		m.open() // a drawing command was issued: the pen semantics still apply
		return
	}
	if rx == 0 || ry == 0 {
		m.LineTo(p)
		return
	}
	phi := rotDeg * math.Pi / 180
	lam := ArcLambda(p0, rx, ry, phi, p)
	if lam < 1-SemiSnap && lam > 1-1e-6 {
		m.IllConditioned = true
	}
	s := m.open()
	s.Segs = append(s.Segs, RSeg{Seg: oracle.Seg{Kind: oracle.CmdArc, P0: p0, P1: p, Rx: math.Abs(rx), Ry: math.Abs(ry), Phi: phi, Large: large, Sweep: sweep}})
}

// Arc follows its doc comment: an elliptical arc from angle theta0 to theta1 (degrees, on the
// unrotated ellipse) that starts at the current position; counter clockwise iff theta0 <
// theta1; a difference of 360 degrees or more draws one full ellipse and then the remainder.
func (m *Model) Arc(rx, ry, rotDeg, th0Deg, th1Deg float64) {
	phi := rotDeg * math.Pi / 180
	th0 := th0Deg * math.Pi / 180
	th1 := th1Deg * math.Pi / 180
	p0 := m.Pos()
	e0 := oracle.EllipseAt(Pt{}, rx, ry, phi, th0)
	c := p0.Sub(e0)
	dth := th1 - th0
	sign := 1.0
	if dth < 0 {
		sign = -1
	}
	add := func(a0, d float64, end Pt) {
		s := m.open()
		start := m.Pos()
		s.Segs = append(s.Segs, RSeg{Seg: oracle.Seg{Kind: oracle.CmdArc, P0: start, P1: end, Rx: rx, Ry: ry, Phi: phi}, Center: true, C: c, Th0: a0, Dth: d})
	}
	if math.Abs(dth) >= 2*math.Pi {
		// one full turn, represented as two half turns
		add(th0, sign*math.Pi, oracle.EllipseAt(c, rx, ry, phi, th0+math.Pi))
		add(th0+sign*math.Pi, sign*math.Pi, p0)
		rem := math.Mod(math.Abs(dth), 2*math.Pi)
		if rem < 1e-12 || 2*math.Pi-rem < 1e-12 {
			return
		}
		add(th0, sign*rem, oracle.EllipseAt(c, rx, ry, phi, th0+sign*rem))
		return
	}
	if dth == 0 {
		m.open()
		return
	}
	add(th0, dth, oracle.EllipseAt(c, rx, ry, phi, th1))
}

// Close draws a line back to the start of the current subpath and marks it closed. Closing an
// empty path or an already closed subpath does nothing.
func (m *Model) Close() {
	l := m.last()
	if l == nil || l.Closed {
		return
	}
	p0 := m.Pos()
	l.Segs = append(l.Segs, RSeg{Seg: oracle.Seg{Kind: oracle.CmdClose, P0: p0, P1: l.Start}})
	l.Closed = true
}

// Append adds the subpaths of q after those of m ("appends path q to p"); an empty q (moves and
// closes only) adds nothing, an empty receiver is replaced.
func (m *Model) Append(q *Model) {
	if !q.HasSegments() {
		return
	}
	if !m.HasSegments() {
		m.Subs = nil
	}
	m.IllConditioned = m.IllConditioned || q.IllConditioned
	m.Subs = append(m.Subs, q.Clone().Subs...)
}

// Join follows its doc comment: "It's like executing the commands in q to p in sequence, where
// if the first MoveTo of q doesn't coincide with p, or if p ends in Close, it will fallback to
// appending the paths"; an empty q changes nothing, an empty p yields q.
func (m *Model) Join(q *Model, qcalls []Call) {
	if !q.HasSegments() {
		return
	}
	if !m.HasSegments() {
		*m = *q.Clone()
		return
	}
	l := m.last()
	if d := m.Pos().Dist(q.Subs[0].Start); d != 0 && d < 1e-9 && !l.Closed {
		m.Skip = "join: end of p and start of q differ by less than 1e-9 but not exactly"
	}
	if l.Closed || m.Pos() != q.Subs[0].Start {
		m.Append(q)
		return
	}
	// execute q's commands after its first MoveTo
	for _, c := range qcalls[1:] {
		c.Model(m)
	}
}
