package c10

import (
	"fmt"
	"math"

	"verif/internal/oracle"
)

// Issue is one well-formedness problem of a raw data stream.
type Issue struct {
	Class  string // names the clause of the statement that fails
	Detail string
}

// Tolerances of the validator. ZeroEps is canvas' documented notion of zero ("Epsilon is the
// smallest number below which we assume the value to be zero"), taken from its documentation,
// not from the variable.
const (
	ZeroEps   = 1e-10
	RadiiSlop = 1e-9 // relative slack on "radii large enough for the chord"
)

func recLen(c float64) int {
	switch c {
	case oracle.CmdMove, oracle.CmdLine, oracle.CmdClose:
		return 4
	case oracle.CmdQuad:
		return 6
	case oracle.CmdCube, oracle.CmdArc:
		return 8
	}
	return 0
}

// Info is what the validator saw (for vacuity tallies).
type Info struct {
	Subpaths, Segments, Arcs, Closes int
	LoneMoves                        int // subpaths that consist of a MoveTo only
	ZeroLengthCloses                 int
}

// Validate checks the documented invariants of Path.Data() independently of canvas:
// decodable from both ends with the same record boundaries, every subpath starts with a move,
// a close returns to the subpath start, no zero-length segment, arcs with rx >= ry > 0,
// 0 <= phi < pi, flags in {0,1,2,3}, radii large enough for the chord, all numbers finite.
func Validate(d []float64) ([]Issue, Info) {
	var is []Issue
	var info Info
	add := func(class, f string, a ...any) { is = append(is, Issue{class, fmt.Sprintf(f, a...)}) }

	for i, v := range d {
		if math.IsNaN(v) || math.IsInf(v, 0) {
			add("non-finite-value", "value %v at index %d", v, i)
			return is, info
		}
	}
	// forward record boundaries
	var fwd []int
	for i := 0; i < len(d); {
		n := recLen(d[i])
		if n == 0 {
			add("undecodable-forward", "bad command %v at index %d", d[i], i)
			return is, info
		}
		if i+n > len(d) {
			add("undecodable-forward", "record at %d (cmd %v) runs past the end (%d values)", i, d[i], len(d))
			return is, info
		}
		if d[i+n-1] != d[i] {
			add("undecodable-forward", "record at %d starts with cmd %v but ends with %v", i, d[i], d[i+n-1])
			return is, info
		}
		fwd = append(fwd, i)
		i += n
	}
	// backward record boundaries
	var bwd []int
	for i := len(d); i > 0; {
		n := recLen(d[i-1])
		if n == 0 {
			add("undecodable-backward", "bad trailing command %v at index %d", d[i-1], i-1)
			return is, info
		}
		if i-n < 0 {
			add("undecodable-backward", "record ending at %d (cmd %v) runs before the start", i, d[i-1])
			return is, info
		}
		if d[i-n] != d[i-1] {
			add("undecodable-backward", "record ending at %d ends with cmd %v but starts with %v", i, d[i-1], d[i-n])
			return is, info
		}
		i -= n
		bwd = append(bwd, i)
	}
	if len(fwd) != len(bwd) {
		add("undecodable-backward", "forward decoding finds %d records, backward %d", len(fwd), len(bwd))
		return is, info
	}
	for k := range fwd {
		if fwd[k] != bwd[len(bwd)-1-k] {
			add("undecodable-backward", "record boundaries differ between the two directions at record %d", k)
			return is, info
		}
	}
	// structure
	sps, err := oracle.Decode(d)
	if err != nil {
		add("structure", "%v", err)
		return is, info
	}
	info.Subpaths = len(sps)
	for si, sp := range sps {
		if len(sp.Segs) == 0 {
			info.LoneMoves++
		}
		for gi, s := range sp.Segs {
			info.Segments++
			rs := RSeg{Seg: s}
			switch s.Kind {
			case oracle.CmdClose:
				info.Closes++
				if s.P1 != sp.Start {
					add("close-not-at-start", "subpath %d: close goes to (%v,%v), subpath started at (%v,%v)", si, s.P1.X, s.P1.Y, sp.Start.X, sp.Start.Y)
				}
				if rs.ZeroLength(ZeroEps) {
					info.ZeroLengthCloses++
				}
				if gi != len(sp.Segs)-1 {
					add("structure", "subpath %d: close is not the last segment", si)
				}
				continue
			case oracle.CmdArc:
				info.Arcs++
				if !(s.Ry > 0) || !(s.Rx > 0) {
					add("arc-radii", "subpath %d seg %d: radii (%v,%v) not positive", si, gi, s.Rx, s.Ry)
				} else if s.Rx < s.Ry-ZeroEps*math.Max(1, s.Ry) {
					add("arc-radii", "subpath %d seg %d: rx=%v < ry=%v", si, gi, s.Rx, s.Ry)
				}
				if !(s.Phi >= 0 && s.Phi < math.Pi) {
					add("arc-rotation", "subpath %d seg %d: phi=%v not in [0,pi)", si, gi, s.Phi)
				}
				if s.Rx > 0 && s.Ry > 0 {
					if lam := ArcLambda(s.P0, s.Rx, s.Ry, s.Phi, s.P1); lam > 1+RadiiSlop {
						add("arc-radii-too-small", "subpath %d seg %d: radii (%v,%v) too small for chord (%v,%v)-(%v,%v): lambda=%v", si, gi, s.Rx, s.Ry, s.P0.X, s.P0.Y, s.P1.X, s.P1.Y, lam)
					}
				}
			}
			if rs.ZeroLength(ZeroEps) {
				add("zero-length-segment", "subpath %d seg %d: %s from (%v,%v) to (%v,%v) has zero length", si, gi, kindName(s.Kind), s.P0.X, s.P0.Y, s.P1.X, s.P1.Y)
			}
		}
	}
	return is, info
}

func kindName(k float64) string {
	switch k {
	case oracle.CmdMove:
		return "MoveTo"
	case oracle.CmdLine:
		return "LineTo"
	case oracle.CmdQuad:
		return "QuadTo"
	case oracle.CmdCube:
		return "CubeTo"
	case oracle.CmdArc:
		return "ArcTo"
	case oracle.CmdClose:
		return "Close"
	}
	return fmt.Sprint(k)
}
