package c14

import (
	"bytes"
	"fmt"
	"image"
	"image/color"
	"math"

	"github.com/tdewolff/canvas"
	"github.com/tdewolff/canvas/renderers/rasterizer"

	"verif/internal/cv"
	"verif/internal/fw"
	"verif/internal/oracle"
)

// Image draws ("later draws cover earlier ones", "leaves the canvas unchanged", the vertical axis):
// a raster image of four differently coloured quadrants is drawn over a grey background through
// Context.DrawImage and rasterizer.Draw. A destination pixel whose centre, mapped back into the
// source image, lies farther than the resampling kernel's support from every colour boundary of
// the source (its border and the two quadrant lines) must carry exactly the colour of that
// quadrant; outside the image rectangle by more than that it must keep the background.

const (
	imgW, imgH   = 64, 48 // source pixels
	imgCW, imgCH = 32.0, 24.0
)

var imgQuadrants = [4]color.RGBA{ // top-left, top-right, bottom-left, bottom-right (as displayed upright)
	{220, 30, 30, 255}, {30, 200, 40, 255}, {30, 40, 220, 255}, {230, 220, 40, 255},
}

var imgBackground = color.RGBA{90, 90, 90, 255}

var imgViews = []struct {
	name string
	m    canvas.Matrix
}{
	{"identity", canvas.Identity},
	{"rotate 90 about the centre", canvas.Identity.RotateAbout(90, imgCW/2, imgCH/2)},
	{"rotate 180 about the centre", canvas.Identity.RotateAbout(180, imgCW/2, imgCH/2)},
	{"rotate 30 about the centre", canvas.Identity.RotateAbout(30, imgCW/2, imgCH/2)},
	{"rotate -50 about the centre", canvas.Identity.RotateAbout(-50, imgCW/2, imgCH/2)},
	{"shear (0.3,0.1)", canvas.Identity.Translate(-3, -2).Shear(0.3, 0.1)},
	{"scale (1.25,0.75)", canvas.Identity.Scale(1.25, 0.75)},
	{"mirror in the vertical centre line", canvas.Identity.ReflectXAbout(imgCW / 2)},
	{"mirror in the horizontal centre line", canvas.Identity.ReflectYAbout(imgCH / 2)},
}

var imgKinds = []string{"RGBA", "NRGBA", "YCbCr 4:4:4"}

var imgResolutions = []float64{4, 8} // source pixels per mm: 16x12 mm and 8x6 mm
var imgDPMM = []float64{3, 6}

func quadrantOf(sx, sy int) int {
	q := 0
	if sx >= imgW/2 {
		q++
	}
	if sy >= imgH/2 {
		q += 2
	}
	return q
}

func makeImage(kind int) image.Image {
	switch kind {
	case 1:
		im := image.NewNRGBA(image.Rect(0, 0, imgW, imgH))
		for y := 0; y < imgH; y++ {
			for x := 0; x < imgW; x++ {
				c := imgQuadrants[quadrantOf(x, y)]
				im.SetNRGBA(x, y, color.NRGBA{c.R, c.G, c.B, 255})
			}
		}
		return im
	case 2:
		im := image.NewYCbCr(image.Rect(0, 0, imgW, imgH), image.YCbCrSubsampleRatio444)
		for y := 0; y < imgH; y++ {
			for x := 0; x < imgW; x++ {
				c := imgQuadrants[quadrantOf(x, y)]
				yy, cb, cr := color.RGBToYCbCr(c.R, c.G, c.B)
				im.Y[im.YOffset(x, y)] = yy
				im.Cb[im.COffset(x, y)] = cb
				im.Cr[im.COffset(x, y)] = cr
			}
		}
		return im
	}
	im := image.NewRGBA(image.Rect(0, 0, imgW, imgH))
	for y := 0; y < imgH; y++ {
		for x := 0; x < imgW; x++ {
			im.SetRGBA(x, y, imgQuadrants[quadrantOf(x, y)])
		}
	}
	return im
}

func imageBytes(im image.Image) []byte {
	switch v := im.(type) {
	case *image.RGBA:
		return append([]byte(nil), v.Pix...)
	case *image.NRGBA:
		return append([]byte(nil), v.Pix...)
	case *image.YCbCr:
		b := append([]byte(nil), v.Y...)
		b = append(b, v.Cb...)
		return append(b, v.Cr...)
	}
	return nil
}

func checkImage(r *fw.R, kind, view, ires, res, cs int) {
	dpmm := imgDPMM[res]
	sres := imgResolutions[ires]
	V := imgViews[view].m
	im := makeImage(kind)
	before := imageBytes(im)
	// what a reader of the source image sees per quadrant (YCbCr is not exact)
	var want [4]color.RGBA
	for q := 0; q < 4; q++ {
		want[q] = color.RGBAModel.Convert(im.At((q%2)*imgW/2+3, (q/2)*imgH/2+3)).(color.RGBA)
	}
	x0, y0 := (imgCW-imgW/sres)/2, (imgCH-imgH/sres)/2
	c := canvas.New(imgCW, imgCH)
	ctx := canvas.NewContext(c)
	ctx.SetFillColor(imgBackground)
	ctx.DrawPath(0, 0, cv.Path(oracle.ClosedData(pts(0, 0, imgCW, 0, imgCW, imgCH, 0, imgCH))))
	ctx.SetView(V)
	ctx.DrawImage(x0, y0, im, canvas.DPMM(sres))
	out := rasterizer.Draw(c, canvas.DPMM(dpmm), colorSpace(cs))
	out2 := rasterizer.Draw(c, canvas.DPMM(dpmm), colorSpace(cs))
	if !bytes.Equal(imageBytes(im), before) {
		r.Violate("image-source-modified", "rendering changed the pixel data of the image.Image that was drawn (the canvas is not left unchanged)")
		return
	}
	if !bytes.Equal(out.Pix, out2.Pix) {
		r.Violate("image-render-twice-differs", "rasterizer.Draw of the same canvas twice gives different pixels")
		return
	}
	wantW, wantH := int(math.Floor(imgCW*dpmm+0.5)), int(math.Floor(imgCH*dpmm+0.5))
	if out.Bounds().Dx() != wantW || out.Bounds().Dy() != wantH {
		r.Violate("image-size", fmt.Sprintf("image is %dx%d, expected %dx%d", out.Bounds().Dx(), out.Bounds().Dy(), wantW, wantH))
		return
	}
	inv := V.Inv()
	// largest factor by which the inverse view stretches lengths (bound: Frobenius norm)
	sigma := math.Sqrt(inv[0][0]*inv[0][0] + inv[0][1]*inv[0][1] + inv[1][0]*inv[1][0] + inv[1][1]*inv[1][1])
	// support of the resampling kernel in source pixels: two source pixels when magnifying, two
	// destination pixels when minifying; plus half a pixel of either grid
	band := 2*math.Max(1, sres/dpmm*sigma) + 0.5 + 0.5*sres/dpmm*sigma
	n := [5]int{}
	for j := 0; j < wantH; j++ {
		for i := 0; i < wantW; i++ {
			q := canvas.Point{X: (float64(i) + 0.5) / dpmm, Y: pixelY(wantH, j, dpmm)}
			p := inv.Dot(q)
			u, v := (p.X-x0)*sres, imgH-(p.Y-y0)*sres // source pixel coordinates, v down
			// distance to the border of the image and to the quadrant lines, in source pixels
			dIn := math.Min(math.Min(u, imgW-u), math.Min(v, imgH-v))
			exp, kind := imgBackground, 4
			if dIn < -band {
				// outside
			} else if dIn > band && math.Abs(u-imgW/2) > band && math.Abs(v-imgH/2) > band {
				kind = quadrantOf(int(u), int(v))
				exp = want[kind]
			} else {
				continue
			}
			n[kind]++
			got := out.RGBAAt(i, j)
			if !(near(got.R, float64(exp.R), 4) && near(got.G, float64(exp.G), 4) && near(got.B, float64(exp.B), 4) && near(got.A, float64(exp.A), 4)) {
				where := "outside the image (background expected)"
				cls := "image-paints-outside"
				if kind < 4 {
					where = fmt.Sprintf("inside quadrant %s of the image", []string{"top-left", "top-right", "bottom-left", "bottom-right"}[kind])
					cls = "image-wrong-inside"
				}
				r.Violate(cls, fmt.Sprintf("pixel (%d,%d) centre (%.3f,%.3f) mm maps to source pixel (%.2f,%.2f), %s, %.1f source px from the nearest colour boundary: colour %v, expected %v", i, j, q.X, q.Y, u, v, where, band, got, exp))
				return
			}
		}
	}
	if n[0] > 0 && n[1] > 0 && n[2] > 0 && n[3] > 0 && n[4] > 0 {
		r.NontrivialIdx()
	} else {
		r.Count("image_cases_without_decidable_pixels_in_all_regions", 1)
	}
	r.Count("image_pixels_decided", int64(n[0]+n[1]+n[2]+n[3]+n[4]))
	r.Outcome("image-ok")
}

func imageFamily() fw.Family {
	rad := []int{len(imgKinds), len(imgViews), len(imgResolutions), len(imgDPMM), 2}
	return fw.Family{
		Name: "image draws over a background: image types x views x image resolutions x resolutions x colour spaces", N: oracle.Prod(rad...),
		Check: func(i int64, r *fw.R) {
			g := oracle.Digits(i, rad...)
			checkImage(r, g[0], g[1], g[2], g[3], g[4])
		},
		Desc: func(i int64) string {
			g := oracle.Digits(i, rad...)
			return fmt.Sprintf("%dx%d %s image of four coloured quadrants at %g px/mm centred on a %gx%g mm grey canvas, view=%s, dpmm=%g, colourspace=%d", imgW, imgH, imgKinds[g[0]], imgResolutions[g[2]], imgCW, imgCH, imgViews[g[1]].name, imgDPMM[g[3]], g[4])
		},
	}
}
