// Package c14: rasterization paints exactly the pixels inside the filled region.
package c14

import (
	"bytes"
	"fmt"
	"image"
	"image/color"
	"math"
	"strings"

	"github.com/tdewolff/canvas"
	"github.com/tdewolff/canvas/renderers/rasterizer"

	"verif/internal/cv"
	"verif/internal/fw"
	"verif/internal/oracle"
)

func pts(xy ...float64) []oracle.Pt {
	var out []oracle.Pt
	for i := 0; i+1 < len(xy); i += 2 {
		out = append(out, oracle.Pt{X: xy[i], Y: xy[i+1]})
	}
	return out
}

func circleData(cx, cy, r float64) []float64 {
	return []float64{oracle.CmdMove, cx + r, cy, oracle.CmdMove,
		oracle.CmdArc, r, r, 0, 2, cx - r, cy, oracle.CmdArc,
		oracle.CmdArc, r, r, 0, 2, cx + r, cy, oracle.CmdArc,
		oracle.CmdClose, cx + r, cy, oracle.CmdClose}
}

type shape struct {
	name string
	d    []float64
}

var shapes = []shape{
	{"triangle", oracle.ClosedData(pts(1, 1, 7, 2, 3, 6))},
	{"bow-tie", oracle.ClosedData(pts(1, 1, 7, 6, 7, 1, 1, 6))},
	{"annulus CCW+CCW", oracle.ClosedData(pts(1, 1, 8, 1, 8, 7, 1, 7), pts(3, 3, 6, 3, 6, 5, 3, 5))},
	{"annulus CCW+CW", oracle.ClosedData(pts(1, 1, 8, 1, 8, 7, 1, 7), pts(3, 3, 3, 5, 6, 5, 6, 3))},
	{"clockwise square", oracle.ClosedData(pts(1, 1, 1, 6, 6, 6, 6, 1))},
	{"circle", circleData(4, 4, 2.5)},
	{"open zig-zag", oracle.OpenData(pts(1, 1, 7, 2, 2, 6))},
	{"open triangle then closed triangle", append(oracle.OpenData(pts(1, 1, 5, 1, 3, 4)), oracle.ClosedData(pts(6, 3, 10, 3, 8, 7))...)},
	{"closed triangle then open triangle then closed square", append(append(oracle.ClosedData(pts(1, 5, 4, 5, 2, 8)), oracle.OpenData(pts(5, 1, 9, 1, 7, 4))...), oracle.ClosedData(pts(9, 5, 11, 5, 11, 8, 9, 8))...)},
	{"overlapping squares CCW+CCW", oracle.ClosedData(pts(1, 1, 5, 1, 5, 5, 1, 5), pts(3, 3, 8, 3, 8, 7, 3, 7))},
	{"open triangle whose last line returns to its start (no Close)", oracle.OpenData(pts(2, 2, 8, 2, 5, 7, 2, 2))},
	{"open quadrilateral whose last line heads for its start and stops half way", oracle.OpenData(pts(2, 2, 8, 2, 8, 6, 2, 6, 2, 4))},
}

var rules = []canvas.FillRule{canvas.NonZero, canvas.EvenOdd, canvas.Positive, canvas.Negative}

var views = []struct {
	name string
	m    canvas.Matrix
}{
	{"identity", canvas.Identity},
	{"rotate 30 about (4,4)", canvas.Identity.RotateAbout(30, 4, 4)},
	{"scale (1.2,-1) then up", canvas.Identity.Translate(0, 9).Scale(1.2, -1)},
	{"shear", canvas.Identity.Shear(0.3, 0.1)},
	// columns of equal length that are not orthogonal: no similarity although |m e1| = |m e2|
	{"shear (0.4,0.4)", canvas.Identity.Translate(-1, -1).Shear(0.4, 0.4)},
	{"scale (1.3,0.7) along the diagonals", canvas.Identity.RotateAbout(45, 5, 4).ScaleAbout(1.3, 0.7, 5, 4).RotateAbout(-45, 5, 4)},
}

var resolutions = []float64{1, 2.5, 8}

const W, H = 12.0, 9.0

type paintKind int

const (
	opaque paintKind = iota
	halfAlpha
	gradient
	radialConcentric
	radialFocal
	radialNested
	gradient3
)

var paintNames = []string{"opaque red", "red alpha 0.5 (premultiplied)", "linear gradient",
	"radial gradient, concentric (r0=0)", "radial gradient with the focal point off the centre (r0=0)", "radial gradient between two nested circles (r0>0, centres apart)",
	"linear gradient with the stops 0.2 red, 0.5 green, 0.9 blue"}

// radial gradient menu: circle 0 lies inside circle 1, so every point has exactly one parameter t
// with |p - c(t)| = r(t), r(t) >= 0
var radials = map[paintKind][2]struct {
	c oracle.Pt
	r float64
}{
	radialConcentric: {{oracle.Pt{X: 5, Y: 4}, 0}, {oracle.Pt{X: 5, Y: 4}, 5}},
	radialFocal:      {{oracle.Pt{X: 3.5, Y: 3}, 0}, {oracle.Pt{X: 5, Y: 4}, 5}},
	radialNested:     {{oracle.Pt{X: 4, Y: 4.5}, 1}, {oracle.Pt{X: 5.5, Y: 4}, 6}},
}

func isGradient(k paintKind) bool { return k >= gradient }

func mkPaint(k paintKind) canvas.Paint {
	switch k {
	case opaque:
		return canvas.Paint{Color: color.RGBA{200, 30, 20, 255}}
	case halfAlpha:
		return canvas.Paint{Color: color.RGBA{100, 15, 10, 128}}
	}
	if rd, ok := radials[k]; ok {
		g := canvas.NewRadialGradient(canvas.Point{X: rd[0].c.X, Y: rd[0].c.Y}, rd[0].r, canvas.Point{X: rd[1].c.X, Y: rd[1].c.Y}, rd[1].r)
		g.Add(0, color.RGBA{250, 0, 0, 255})
		g.Add(1, color.RGBA{0, 0, 250, 255})
		return canvas.Paint{Gradient: g}
	}
	g := canvas.NewLinearGradient(canvas.Point{X: 1, Y: 2}, canvas.Point{X: 9, Y: 6})
	if k == gradient3 {
		// added out of order; before the first and after the last stop the end colours continue
		g.Add(0.9, color.RGBA{0, 0, 250, 255})
		g.Add(0.2, color.RGBA{250, 0, 0, 255})
		g.Add(0.5, color.RGBA{0, 200, 0, 255})
		return canvas.Paint{Gradient: g}
	}
	g.Add(0, color.RGBA{250, 0, 0, 255})
	g.Add(1, color.RGBA{0, 0, 250, 255})
	return canvas.Paint{Gradient: g}
}

// grad3At: the three-stop linear gradient at canvas point p
func grad3At(p oracle.Pt) [4]float64 {
	s, e := oracle.Pt{X: 1, Y: 2}, oracle.Pt{X: 9, Y: 6}
	d := e.Sub(s)
	t := p.Sub(s).Dot(d) / d.Dot(d)
	stops := []struct {
		t float64
		c [4]float64
	}{{0.2, [4]float64{250, 0, 0, 255}}, {0.5, [4]float64{0, 200, 0, 255}}, {0.9, [4]float64{0, 0, 250, 255}}}
	if t <= stops[0].t {
		return stops[0].c
	}
	for k := 1; k < len(stops); k++ {
		if t <= stops[k].t {
			u := (t - stops[k-1].t) / (stops[k].t - stops[k-1].t)
			var c [4]float64
			for i := range c {
				c[i] = stops[k-1].c[i]*(1-u) + stops[k].c[i]*u
			}
			return c
		}
	}
	return stops[len(stops)-1].c
}

// radialAt: expected colour of a radial gradient at canvas point p: the parameter t of the circle
// of the family c(t) = c0 + t (c1-c0), r(t) = r0 + t (r1-r0) through p (found by bisection: with
// nested circles |p-c(t)| - r(t) decreases strictly in t), clamped to [0,1].
func radialAt(k paintKind, p oracle.Pt) [4]float64 {
	rd := radials[k]
	f := func(t float64) float64 {
		c := oracle.Pt{X: rd[0].c.X + t*(rd[1].c.X-rd[0].c.X), Y: rd[0].c.Y + t*(rd[1].c.Y-rd[0].c.Y)}
		return math.Hypot(p.X-c.X, p.Y-c.Y) - (rd[0].r + t*(rd[1].r-rd[0].r))
	}
	lo := -rd[0].r / (rd[1].r - rd[0].r) // r(lo) = 0
	hi := 100.0
	t := lo
	if f(lo) > 0 {
		for i := 0; i < 200; i++ {
			mid := (lo + hi) / 2
			if f(mid) > 0 {
				lo = mid
			} else {
				hi = mid
			}
		}
		t = (lo + hi) / 2
	}
	t = math.Max(0, math.Min(1, t))
	return [4]float64{250 * (1 - t), 0, 250 * t, 255}
}

// expected gradient colour at canvas point p (documented: start/end in canvas coordinates)
func gradAt(p oracle.Pt) [4]float64 {
	s, e := oracle.Pt{X: 1, Y: 2}, oracle.Pt{X: 9, Y: 6}
	d := e.Sub(s)
	t := p.Sub(s).Dot(d) / d.Dot(d)
	t = math.Max(0, math.Min(1, t))
	return [4]float64{250 * (1 - t), 0, 250 * t, 255}
}

func transformPolys(pls []oracle.Polyline, m canvas.Matrix) []oracle.Polyline {
	out := make([]oracle.Polyline, len(pls))
	for i, pl := range pls {
		q := oracle.Polyline{Closed: pl.Closed, P: make([]oracle.Pt, len(pl.P))}
		for j, p := range pl.P {
			q.P[j] = oracle.Pt{X: m[0][0]*p.X + m[0][1]*p.Y + m[0][2], Y: m[1][0]*p.X + m[1][1]*p.Y + m[1][2]}
		}
		out[i] = q
	}
	return out
}

type fillCase struct {
	shape, rule, view, res, paint, cs int
}

func (c fillCase) String() string {
	csn := []string{"linear", "sRGB", "gamma 2.2"}[c.cs]
	return fmt.Sprintf("fill %s [%s] rule=%v view=%s dpmm=%g paint=%s colorspace=%s", shapes[c.shape].name, oracle.Fmt(shapes[c.shape].d), rules[c.rule], views[c.view].name, resolutions[c.res], paintNames[c.paint], csn)
}

func colorSpace(i int) canvas.ColorSpace {
	if i == 1 {
		return canvas.SRGBColorSpace{}
	}
	if i == 2 {
		return canvas.GammaColorSpace{Gamma: 2.2}
	}
	return canvas.LinearColorSpace{}
}

// pixelY is the canvas ordinate of the centre of pixel row j of an image of rows pixel rows: the
// canvas origin is the bottom-left corner of the image (when height x resolution is not a whole
// number the image is rounded to whole pixels and the extra fraction of a row lies at the top).
func pixelY(rows, j int, dpmm float64) float64 { return (float64(rows) - float64(j) - 0.5) / dpmm }

func near(a uint8, b float64, tol float64) bool { return math.Abs(float64(a)-b) <= tol }

// beyondTag marks cases whose transformed outline leaves the image rectangle.
func beyondTag(pls []oracle.Polyline) string {
	lo, hi, _ := oracle.BBox(pls)
	if lo.X < 0 || lo.Y < 0 || hi.X > W || hi.Y > H {
		return " [shape extends beyond the image]"
	}
	return ""
}

// borderTag keeps the beyond-the-image tag only for pixels within two pixels of the image border,
// where the scanner's handling of negative coordinates shows (K4).
func borderTag(tag string, i, j, w, h int) string {
	if i < 2 || j < 2 || i >= w-2 || j >= h-2 {
		return tag
	}
	return ""
}

func interior(i, j, w, h int) int {
	if i < 2 || j < 2 || i >= w-2 || j >= h-2 {
		return 0
	}
	return 1
}

func checkFill(r *fw.R, c fillCase) {
	sh := shapes[c.shape]
	dpmm := resolutions[c.res]
	m := views[c.view].m
	p := cv.Path(sh.d)
	before := append([]float64(nil), p.Data()...)
	paint := mkPaint(paintKind(c.paint))
	var stopsBefore []canvas.Stop
	if g, ok := paint.Gradient.(*canvas.LinearGradient); ok {
		stopsBefore = append(stopsBefore, g.Stops...)
	}
	if g, ok := paint.Gradient.(*canvas.RadialGradient); ok {
		stopsBefore = append(stopsBefore, g.Stops...)
	}
	style := canvas.DefaultStyle
	style.Fill = paint
	style.FillRule = rules[c.rule]
	render := func() *image.RGBA {
		ras := rasterizer.New(W, H, canvas.DPMM(dpmm), colorSpace(c.cs))
		ras.RenderPath(p, style, m)
		ras.Close()
		return ras.Image.(*image.RGBA)
	}
	img := render()
	wantW, wantH := int(math.Floor(W*dpmm+0.5)), int(math.Floor(H*dpmm+0.5))
	if img.Bounds().Dx() != wantW || img.Bounds().Dy() != wantH {
		r.Violate("image-size", fmt.Sprintf("image is %dx%d, expected %dx%d", img.Bounds().Dx(), img.Bounds().Dy(), wantW, wantH))
		return
	}
	img2 := render()
	if !bytes.Equal(img.Pix, img2.Pix) {
		r.Violate("render-twice-differs", "rendering the same path, style and matrix twice gives different pixels")
	}
	for i := range before {
		if math.Float64bits(before[i]) != math.Float64bits(p.Data()[i]) {
			r.Violate("path-mutated", "RenderPath changed the path data")
			break
		}
	}
	if g, ok := paint.Gradient.(*canvas.LinearGradient); ok {
		for i := range stopsBefore {
			if g.Stops[i] != stopsBefore[i] {
				r.Violate("gradient-mutated", fmt.Sprintf("gradient stop %d changed from %v to %v by rendering", i, stopsBefore[i], g.Stops[i]))
				break
			}
		}
	}
	if g, ok := paint.Gradient.(*canvas.RadialGradient); ok {
		for i := range stopsBefore {
			if g.Stops[i] != stopsBefore[i] {
				r.Violate("gradient-mutated", fmt.Sprintf("gradient stop %d changed from %v to %v by rendering", i, stopsBefore[i], g.Stops[i]))
				break
			}
		}
	}
	// expected region
	pls := transformPolys(oracle.DenseData(sh.d, 256), m)
	px := 1 / dpmm
	nIn, nOut, bad, badInterior := 0, 0, 0, 0
	var first string
	class := ""
	tag := beyondTag(pls)
	for j := 0; j < wantH; j++ {
		for i := 0; i < wantW; i++ {
			q := oracle.Pt{X: (float64(i) + 0.5) / dpmm, Y: pixelY(wantH, j, dpmm)}
			if oracle.Dist(pls, q, true) <= px*1.1+1e-3 {
				continue
			}
			in := cv.Fills(rules[c.rule], oracle.Winding(pls, q))
			got := img.RGBAAt(i, j)
			if !in {
				nOut++
				if got != (color.RGBA{}) {
					r.Count("outside_pixels_with_faint_coverage_le_2_of_255", 1)
				}
				if got.R > 4 || got.G > 4 || got.B > 4 || got.A > 4 {
					bad++
					badInterior += interior(i, j, wantW, wantH)
					if first == "" {
						class = "paints-outside"
						first = fmt.Sprintf("pixel (%d,%d) centre (%.3f,%.3f) is outside (winding %d) but has colour %v", i, j, q.X, q.Y, oracle.Winding(pls, q), got)
					}
				}
				continue
			}
			nIn++
			var want [4]float64
			switch paintKind(c.paint) {
			case opaque:
				want = [4]float64{200, 30, 20, 255}
			case halfAlpha:
				want = [4]float64{100, 15, 10, 128}
			case gradient, radialConcentric, radialFocal, radialNested, gradient3:
				want = gradAt(q)
				if paintKind(c.paint) == gradient3 {
					want = grad3At(q)
				} else if paintKind(c.paint) != gradient {
					want = radialAt(paintKind(c.paint), q)
				}
				if c.cs >= 1 {
					// sRGB: stops are blended in linear light; the statement does not fix the
					// interpolation space, only that the pixel is painted (opaque stops)
					if got.A < 251 {
						bad++
						badInterior += interior(i, j, wantW, wantH)
						if first == "" {
							class = "wrong-paint-inside"
							first = fmt.Sprintf("pixel (%d,%d) inside a gradient fill with opaque stops has alpha %d", i, j, got.A)
						}
					}
					continue
				}
			}
			tol, atol := 4.0, 4.0
			if isGradient(paintKind(c.paint)) {
				tol = 6.0 // one pixel of gradient travel
			}
			if c.cs >= 1 {
				tol = 12.0 // dark channels lose precision in the sRGB round trip of 8-bit values
			}
			if !(near(got.R, want[0], tol) && near(got.G, want[1], tol) && near(got.B, want[2], tol) && near(got.A, want[3], atol)) {
				bad++
				badInterior += interior(i, j, wantW, wantH)
				if first == "" {
					class = "wrong-paint-inside"
					if got == (color.RGBA{}) {
						class = "unpainted-inside"
					}
					first = fmt.Sprintf("pixel (%d,%d) centre (%.3f,%.3f) is inside (winding %d): colour %v, expected about %v", i, j, q.X, q.Y, oracle.Winding(pls, q), got, want)
				}
			}
		}
	}
	if nIn > 0 && nOut > 0 {
		r.NontrivialIdx()
	}
	r.Count("pixels_inside", int64(nIn))
	r.Count("pixels_outside", int64(nOut))
	if bad > 0 {
		if badInterior > 0 {
			tag = "" // wrong pixels away from the image border are not the border effect (K4)
		}
		r.Violate(class, fmt.Sprintf("%d pixels wrong (%d of them more than two pixels from the image border); %s%s", bad, badInterior, first, tag))
	} else {
		r.Outcome("fill-ok")
	}
}

// canvas-level: two layers through Context + rasterizer.Draw: size, flip, paint order, canvas unchanged.
func checkCanvas(r *fw.R, res int, cs int, order int) {
	dpmm := resolutions[res]
	c := canvas.New(W, H)
	ctx := canvas.NewContext(c)
	red, blue := color.RGBA{200, 0, 0, 255}, color.RGBA{0, 0, 200, 255}
	a := cv.Path(oracle.ClosedData(pts(1, 1, 6, 1, 6, 5, 1, 5)))
	b := cv.Path(oracle.ClosedData(pts(4, 3, 10, 3, 10, 8, 4, 8)))
	cols := []color.RGBA{red, blue}
	paths := []*canvas.Path{a, b}
	if order == 1 || order == 3 {
		cols[0], cols[1] = cols[1], cols[0]
		paths[0], paths[1] = paths[1], paths[0]
	}
	if order >= 2 {
		// one DrawPath call with both paths ("draws the paths", each one a draw of its own: later draws cover
		// earlier ones also within one call): the second rectangle runs the other way round (order 2,
		// NonZero) or the fill rule is EvenOdd (order 3) - as ONE path the overlap would be left unpainted
		cols[1] = cols[0]
		if order == 2 {
			paths[1] = paths[1].Reverse()
		} else {
			ctx.SetFillRule(canvas.EvenOdd)
		}
		ctx.SetFillColor(cols[0])
		ctx.DrawPath(0, 0, paths[0], paths[1])
	} else {
		for k := 0; k < 2; k++ {
			ctx.SetFillColor(cols[k])
			ctx.DrawPath(0, 0, paths[k])
		}
	}
	img := rasterizer.Draw(c, canvas.DPMM(dpmm), colorSpace(cs))
	img2 := rasterizer.Draw(c, canvas.DPMM(dpmm), colorSpace(cs))
	if !bytes.Equal(img.Pix, img2.Pix) {
		r.Violate("render-twice-differs", "rasterizer.Draw of the same canvas twice gives different pixels")
	}
	wantW, wantH := int(math.Floor(W*dpmm+0.5)), int(math.Floor(H*dpmm+0.5))
	if img.Bounds().Dx() != wantW || img.Bounds().Dy() != wantH {
		r.Violate("image-size", fmt.Sprintf("image is %dx%d, expected %dx%d", img.Bounds().Dx(), img.Bounds().Dy(), wantW, wantH))
		return
	}
	polys := [][]oracle.Polyline{oracle.DenseData(paths[0].Data(), 1), oracle.DenseData(paths[1].Data(), 1)}
	px := 1 / dpmm
	for j := 0; j < wantH; j++ {
		for i := 0; i < wantW; i++ {
			q := oracle.Pt{X: (float64(i) + 0.5) / dpmm, Y: pixelY(wantH, j, dpmm)}
			if oracle.Dist(polys[0], q, true) <= px*1.1 || oracle.Dist(polys[1], q, true) <= px*1.1 {
				continue
			}
			want := color.RGBA{}
			for k := 0; k < 2; k++ {
				if oracle.Winding(polys[k], q) != 0 {
					want = cols[k] // later layer covers
				}
			}
			got := img.RGBAAt(i, j)
			tol := 2.0
			if cs == 1 {
				tol = 3.0
			}
			if !(near(got.R, float64(want.R), tol) && near(got.G, float64(want.G), tol) && near(got.B, float64(want.B), tol) && near(got.A, float64(want.A), tol)) {
				r.Violate("paint-order-or-flip", fmt.Sprintf("pixel (%d,%d) centre (%.3f,%.3f): colour %v, expected %v", i, j, q.X, q.Y, got, want))
				return
			}
		}
	}
	r.NontrivialIdx()
	r.Outcome("canvas-ok")
}

// strokes: the painted pixels are those of the region (NonZero) of the outline that
// Path.Stroke returns for the style (whether that outline is the right one is C04's subject),
// evaluated by the oracle's own winding on its own dense flattening of the outline.
var cappers = []canvas.Capper{canvas.RoundCap, canvas.ButtCap, canvas.SquareCap}
var capNames = []string{"round", "butt", "square"}
var joiners = []canvas.Joiner{canvas.RoundJoin, canvas.BevelJoin, canvas.MiterJoin}
var joinNames = []string{"round", "bevel", "miter"}

func checkStroke(r *fw.R, shapeIdx, res int, w float64, view, cap, join int) {
	strokeCase(r, shapes[shapeIdx], resolutions[res], w, views[view].m, cap, join)
}

// outsideShapes lie wholly outside the 12x9 image, farther than half the stroke width of 3, while
// a miter join or a square cap of their stroke reaches into it.
var outsideShapes = []shape{
	{"wedge left of the image, tip at (-3,4) pointing right", oracle.OpenData(pts(-8, 2.5, -3, 4, -8, 5.5))},
	{"wedge below the image, tip at (6,-2.5) pointing up", oracle.OpenData(pts(4.5, -8, 6, -2.5, 7.5, -8))},
	{"wedge right of the image, tip at (15,5) pointing left", oracle.OpenData(pts(20, 3.5, 15, 5, 20, 6.5))},
	{"wedge above the image, tip at (5,11.5) pointing down", oracle.OpenData(pts(3.5, 17, 5, 11.5, 6.5, 17))},
	{"slanted line ending at (-1.8,3) left of the image", oracle.OpenData(pts(-6.6, -2, -1.8, 3))},
}

func strokeCase(r *fw.R, sh shape, dpmm, w float64, m canvas.Matrix, cap, join int) {
	style := canvas.DefaultStyle
	style.Fill = canvas.Paint{}
	style.Stroke = canvas.Paint{Color: color.RGBA{0, 90, 200, 255}}
	style.StrokeWidth = w
	style.StrokeCapper = cappers[cap]
	style.StrokeJoiner = joiners[join]
	ras := rasterizer.New(W, H, canvas.DPMM(dpmm), canvas.LinearColorSpace{})
	ras.RenderPath(cv.Path(sh.d), style, m)
	ras.Close()
	img := ras.Image.(*image.RGBA)
	outline := cv.Path(sh.d).Stroke(w, cappers[cap], joiners[join], canvas.PixelTolerance/dpmm)
	pls := transformPolys(oracle.DenseData(outline.Data(), 256), m)
	px := 1 / dpmm
	nIn, nOut := 0, 0
	tag := beyondTag(pls)
	bad, badInterior := 0, 0
	class, first := "", ""
	for j := 0; j < img.Bounds().Dy(); j++ {
		for i := 0; i < img.Bounds().Dx(); i++ {
			q := oracle.Pt{X: (float64(i) + 0.5) / dpmm, Y: pixelY(img.Bounds().Dy(), j, dpmm)}
			if oracle.Dist(pls, q, true) <= px*1.1+1e-3 {
				continue
			}
			got := img.RGBAAt(i, j)
			if oracle.Winding(pls, q) != 0 {
				nIn++
				if !(near(got.R, 0, 4) && near(got.G, 90, 4) && near(got.B, 200, 4) && near(got.A, 255, 4)) {
					bad++
					badInterior += interior(i, j, img.Bounds().Dx(), img.Bounds().Dy())
					if first == "" || (badInterior == 1 && interior(i, j, img.Bounds().Dx(), img.Bounds().Dy()) == 1) {
						class = "stroke-unpainted-inside"
						first = fmt.Sprintf("pixel (%d,%d) centre (%.3f,%.3f) is inside the stroke outline but has colour %v", i, j, q.X, q.Y, got)
					}
				}
			} else {
				nOut++
				if got.R > 4 || got.G > 4 || got.B > 4 || got.A > 4 {
					bad++
					badInterior += interior(i, j, img.Bounds().Dx(), img.Bounds().Dy())
					if first == "" || (badInterior == 1 && interior(i, j, img.Bounds().Dx(), img.Bounds().Dy()) == 1) {
						class = "stroke-paints-outside"
						first = fmt.Sprintf("pixel (%d,%d) centre (%.3f,%.3f) is outside the stroke outline but has colour %v", i, j, q.X, q.Y, got)
					}
				}
			}
		}
	}
	if nIn > 0 && nOut > 0 {
		r.NontrivialIdx()
	}
	if bad > 0 {
		// the border effect (K4) shows within two pixels of the image border only
		if badInterior > 0 {
			tag = ""
		}
		r.Violate(class, fmt.Sprintf("%d pixels wrong (%d of them more than two pixels from the image border); %s%s", bad, badInterior, first, tag))
		return
	}
	r.Outcome("stroke-ok")
}

// fill and stroke in one RenderPath call: the stroke covers the fill, the fill follows the style's
// fill rule, the stroke outline is always filled NonZero (where the strokes of two subpaths, or
// of one self-crossing subpath, overlap the outline has winding 2).
func checkFillStroke(r *fw.R, shapeIdx, rule, res int, w float64, view int) {
	sh := shapes[shapeIdx]
	dpmm := resolutions[res]
	m := views[view].m
	fillCol, strokeCol := color.RGBA{200, 30, 20, 255}, color.RGBA{0, 90, 200, 255}
	style := canvas.DefaultStyle
	style.Fill = canvas.Paint{Color: fillCol}
	style.FillRule = rules[rule]
	style.Stroke = canvas.Paint{Color: strokeCol}
	style.StrokeWidth = w
	style.StrokeCapper = canvas.ButtCap
	style.StrokeJoiner = canvas.MiterJoin
	ras := rasterizer.New(W, H, canvas.DPMM(dpmm), canvas.LinearColorSpace{})
	ras.RenderPath(cv.Path(sh.d), style, m)
	ras.Close()
	img := ras.Image.(*image.RGBA)
	outline := cv.Path(sh.d).Stroke(w, canvas.ButtCap, canvas.MiterJoin, canvas.PixelTolerance/dpmm)
	spl := transformPolys(oracle.DenseData(outline.Data(), 256), m)
	fpl := transformPolys(oracle.DenseData(sh.d, 256), m)
	px := 1 / dpmm
	n := [3]int{}
	overlap := 0
	tag := beyondTag(spl)
	for j := 0; j < img.Bounds().Dy(); j++ {
		for i := 0; i < img.Bounds().Dx(); i++ {
			q := oracle.Pt{X: (float64(i) + 0.5) / dpmm, Y: pixelY(img.Bounds().Dy(), j, dpmm)}
			if oracle.Dist(spl, q, true) <= px*1.1+1e-3 {
				continue
			}
			sw := oracle.Winding(spl, q)
			if sw == 0 && oracle.Dist(fpl, q, true) <= px*1.1+1e-3 {
				continue // (under the opaque stroke the fill's boundary does not matter)
			}
			want, kind := color.RGBA{}, 0
			if cv.Fills(rules[rule], oracle.Winding(fpl, q)) {
				want, kind = fillCol, 1
			}
			if sw != 0 {
				want, kind = strokeCol, 2
				if sw%2 == 0 {
					overlap++
				}
			}
			n[kind]++
			got := img.RGBAAt(i, j)
			if !(near(got.R, float64(want.R), 4) && near(got.G, float64(want.G), 4) && near(got.B, float64(want.B), 4) && near(got.A, float64(want.A), 4)) {
				r.Violate([]string{"fill-stroke-paints-outside", "fill-stroke-wrong-in-fill", "fill-stroke-wrong-in-stroke"}[kind],
					fmt.Sprintf("pixel (%d,%d) centre (%.3f,%.3f): colour %v, expected %v (fill winding %d, stroke outline winding %d)%s", i, j, q.X, q.Y, got, want, oracle.Winding(fpl, q), oracle.Winding(spl, q), borderTag(tag, i, j, img.Bounds().Dx(), img.Bounds().Dy())))
				return
			}
		}
	}
	if n[0] > 0 && n[2] > 0 {
		r.NontrivialIdx()
	}
	r.Count("fill_stroke_pixels_where_the_stroke_outline_has_even_nonzero_winding", int64(overlap))
	r.Outcome("fill-stroke-ok")
}

// low resolutions (below one pixel per millimetre) on a large canvas: millimetre and pixel
// coordinates differ by more than a factor, so a comparison that mixes the two units shows.
// A filled or stroked square of 24 mm at the nine positions of a 3x3 grid of a 100x100 mm canvas.
func checkLowRes(r *fw.R, dpmm float64, gx, gy int, stroke bool) {
	const LW, LH = 100.0, 100.0
	x0, y0 := []float64{4, 38, 72}[gx], []float64{4, 38, 72}[gy]
	d := oracle.ClosedData(pts(x0, y0, x0+24, y0, x0+24, y0+24, x0, y0+24))
	style := canvas.DefaultStyle
	col := color.RGBA{200, 30, 20, 255}
	var region []oracle.Polyline
	if stroke {
		style.Fill = canvas.Paint{}
		style.Stroke = canvas.Paint{Color: col}
		style.StrokeWidth = 16
		region = oracle.DenseData(cv.Path(d).Stroke(16, canvas.ButtCap, canvas.MiterJoin, canvas.PixelTolerance/dpmm).Data(), 8)
	} else {
		style.Fill = canvas.Paint{Color: col}
		region = oracle.DenseData(d, 1)
	}
	ras := rasterizer.New(LW, LH, canvas.DPMM(dpmm), canvas.LinearColorSpace{})
	ras.RenderPath(cv.Path(d), style, canvas.Identity)
	ras.Close()
	img := ras.Image.(*image.RGBA)
	wantW, wantH := int(math.Floor(LW*dpmm+0.5)), int(math.Floor(LH*dpmm+0.5))
	if img.Bounds().Dx() != wantW || img.Bounds().Dy() != wantH {
		r.Violate("image-size", fmt.Sprintf("image is %dx%d, expected %dx%d", img.Bounds().Dx(), img.Bounds().Dy(), wantW, wantH))
		return
	}
	px := 1 / dpmm
	nIn, nOut := 0, 0
	for j := 0; j < wantH; j++ {
		for i := 0; i < wantW; i++ {
			q := oracle.Pt{X: (float64(i) + 0.5) / dpmm, Y: pixelY(wantH, j, dpmm)}
			if oracle.Dist(region, q, true) <= px*1.1+1e-3 {
				continue
			}
			got := img.RGBAAt(i, j)
			if oracle.Winding(region, q) != 0 {
				nIn++
				if !(near(got.R, 200, 4) && near(got.G, 30, 4) && near(got.B, 20, 4) && near(got.A, 255, 4)) {
					r.Violate("lowres-unpainted-inside", fmt.Sprintf("pixel (%d,%d) centre (%.3f,%.3f) mm is inside the region but has colour %v", i, j, q.X, q.Y, got))
					return
				}
			} else {
				nOut++
				if got.R > 4 || got.G > 4 || got.B > 4 || got.A > 4 {
					r.Violate("lowres-paints-outside", fmt.Sprintf("pixel (%d,%d) centre (%.3f,%.3f) mm is outside the region but has colour %v", i, j, q.X, q.Y, got))
					return
				}
			}
		}
	}
	if nIn > 0 && nOut > 0 {
		r.NontrivialIdx()
	}
	r.Count("lowres_pixels_inside", int64(nIn))
	r.Outcome("lowres-ok")
}

// strongly magnifying views: only the tip of a wedge is visible, its other vertices lie up to
// 1e5 pixels outside the image (well inside the 26.6 fixed-point range); the edges that cross
// the image must keep their slope.
func checkMagnified(r *fw.R, dir int, scale float64) {
	const MW, MH, dpmm = 20.0, 20.0, 10.0
	// wedge with its tip at (0.02,0.02) in path coordinates, opening towards +x, rotated by dir quarter turns
	base := pts(0.02, 0.02, 20, 6.02, 20, -5.98)
	rot := func(p oracle.Pt) oracle.Pt {
		q := oracle.Pt{X: p.X - 0.02, Y: p.Y - 0.02}
		for k := 0; k < dir; k++ {
			q = oracle.Pt{X: -q.Y, Y: q.X}
		}
		return oracle.Pt{X: q.X + 0.02, Y: q.Y + 0.02}
	}
	var c []oracle.Pt
	for _, p := range base {
		c = append(c, rot(p))
	}
	d := oracle.ClosedData(c)
	m := canvas.Identity.Scale(scale, scale)
	style := canvas.DefaultStyle
	style.Fill = canvas.Paint{Color: color.RGBA{200, 30, 20, 255}}
	ras := rasterizer.New(MW, MH, canvas.DPMM(dpmm), canvas.LinearColorSpace{})
	ras.RenderPath(cv.Path(d), style, m)
	ras.Close()
	img := ras.Image.(*image.RGBA)
	region := transformPolys(oracle.DenseData(d, 1), m)
	px := 1 / dpmm
	nIn, nOut := 0, 0
	for j := 0; j < img.Bounds().Dy(); j++ {
		for i := 0; i < img.Bounds().Dx(); i++ {
			q := oracle.Pt{X: (float64(i) + 0.5) / dpmm, Y: pixelY(img.Bounds().Dy(), j, dpmm)}
			if oracle.Dist(region, q, true) <= px*1.1+1e-3 {
				continue
			}
			got := img.RGBAAt(i, j)
			if oracle.Winding(region, q) != 0 {
				nIn++
				if !(near(got.R, 200, 4) && near(got.G, 30, 4) && near(got.B, 20, 4) && near(got.A, 255, 4)) {
					r.Violate("magnified-unpainted-inside", fmt.Sprintf("pixel (%d,%d) centre (%.3f,%.3f) mm is inside the wedge but has colour %v%s", i, j, q.X, q.Y, got, borderTag(beyondTag(region), i, j, img.Bounds().Dx(), img.Bounds().Dy())))
					return
				}
			} else {
				nOut++
				if got.R > 4 || got.G > 4 || got.B > 4 || got.A > 4 {
					r.Violate("magnified-paints-outside", fmt.Sprintf("pixel (%d,%d) centre (%.3f,%.3f) mm is outside the wedge but has colour %v%s", i, j, q.X, q.Y, got, borderTag(beyondTag(region), i, j, img.Bounds().Dx(), img.Bounds().Dy())))
					return
				}
			}
		}
	}
	if nIn > 0 && nOut > 0 {
		r.NontrivialIdx()
	}
	r.Outcome("magnified-ok")
}

func families(tier string) []fw.Family {
	nres := 2
	if tier == "thorough" {
		nres = 3
	}
	radF := []int{len(shapes), len(rules), len(views), nres, len(paintNames), 3}
	dec := func(i int64) fillCase {
		g := oracle.Digits(i, radF...)
		return fillCase{g[0], g[1], g[2], g[3], g[4], g[5]}
	}
	radC := []int{nres, 2, 4}
	widths := []float64{0.8, 2}
	radS := []int{len(shapes), nres, len(widths), len(views), 3, 3}
	fsViews := []int{0, 1}
	fsWidths := []float64{0.8, 2, 3}
	radFS := []int{len(shapes), 2, nres, len(fsWidths), len(fsViews)}
	lowRes := []float64{0.25, 0.5, 0.75}
	radL := []int{len(lowRes), 3, 3, 2}
	magScales := []float64{20, 100, 500}
	radM := []int{4, len(magScales)}
	radO := []int{len(outsideShapes), nres, 3, 3}
	return []fw.Family{
		imageFamily(),
		{Name: "strokes of paths outside the image whose miter joins or square caps reach into it: shapes x resolutions x caps x joins (w=3)", N: oracle.Prod(radO...),
			Check: func(i int64, r *fw.R) {
				g := oracle.Digits(i, radO...)
				strokeCase(r, outsideShapes[g[0]], resolutions[g[1]], 3, canvas.Identity, g[2], g[3])
			},
			Desc: func(i int64) string {
				g := oracle.Digits(i, radO...)
				return fmt.Sprintf("stroke %s [%s] w=3 dpmm=%g cap=%s join=%s", outsideShapes[g[0]].name, oracle.Fmt(outsideShapes[g[0]].d), resolutions[g[1]], capNames[g[2]], joinNames[g[3]])
			}},
		{Name: "magnifying views: wedge tip on a 20x20 mm canvas at 10 px/mm x 4 directions x Scale {20,100,500}", N: oracle.Prod(radM...),
			Check: func(i int64, r *fw.R) {
				g := oracle.Digits(i, radM...)
				checkMagnified(r, g[0], magScales[g[1]])
			},
			Desc: func(i int64) string {
				g := oracle.Digits(i, radM...)
				return fmt.Sprintf("fill of the wedge M0.02 0.02L20 6.02L20 -5.98z turned by %d quarter turns about its tip under Scale(%g,%g)", g[0], magScales[g[1]], magScales[g[1]])
			}},
		{Name: "low resolution: 100x100 mm canvas at {0.25,0.5,0.75} px/mm x 3x3 positions x {fill, stroke}", N: oracle.Prod(radL...),
			Check: func(i int64, r *fw.R) {
				g := oracle.Digits(i, radL...)
				checkLowRes(r, lowRes[g[0]], g[1], g[2], g[3] == 1)
			},
			Desc: func(i int64) string {
				g := oracle.Digits(i, radL...)
				return fmt.Sprintf("%s of a 24 mm square at (%g,%g) on a 100x100 mm canvas at %g px/mm", []string{"fill", "stroke w=16"}[g[3]], []float64{4, 38, 72}[g[1]], []float64{4, 38, 72}[g[2]], lowRes[g[0]])
			}},
		{Name: "fill+stroke in one call: shapes x {NonZero, EvenOdd} x resolutions x widths x views", N: oracle.Prod(radFS...),
			Check: func(i int64, r *fw.R) {
				g := oracle.Digits(i, radFS...)
				checkFillStroke(r, g[0], g[1], g[2], fsWidths[g[3]], fsViews[g[4]])
			},
			Desc: func(i int64) string {
				g := oracle.Digits(i, radFS...)
				return fmt.Sprintf("fill %v + stroke w=%g (butt, miter) %s [%s] dpmm=%g view=%s", rules[g[1]], fsWidths[g[3]], shapes[g[0]].name, oracle.Fmt(shapes[g[0]].d), resolutions[g[2]], views[fsViews[g[4]]].name)
			}},
		{Name: "fill: shapes x rules x views x resolutions x paints x colour spaces", N: oracle.Prod(radF...),
			Check: func(i int64, r *fw.R) { checkFill(r, dec(i)) },
			Desc:  func(i int64) string { return dec(i).String() }},
		{Name: "canvas: two layers through Context and rasterizer.Draw", N: oracle.Prod(radC...),
			Check: func(i int64, r *fw.R) { g := oracle.Digits(i, radC...); checkCanvas(r, g[0], g[1], g[2]) },
			Desc: func(i int64) string {
				g := oracle.Digits(i, radC...)
				return fmt.Sprintf("two overlapping rectangles, dpmm=%g colourspace=%d order=%d (0, 1: one DrawPath each, either order; 2: one DrawPath call with both, the second reversed; 3: one DrawPath call with both under EvenOdd)", resolutions[g[0]], g[1], g[2])
			}},
		{Name: "stroke: shapes x resolutions x widths x views x caps x joins", N: oracle.Prod(radS...),
			Check: func(i int64, r *fw.R) {
				g := oracle.Digits(i, radS...)
				checkStroke(r, g[0], g[1], widths[g[2]], g[3], g[4], g[5])
			},
			Desc: func(i int64) string {
				g := oracle.Digits(i, radS...)
				return fmt.Sprintf("stroke %s w=%g dpmm=%g view=%s cap=%s join=%s", shapes[g[0]].name, widths[g[2]], resolutions[g[1]], views[g[3]].name, capNames[g[4]], joinNames[g[5]])
			}},
	}
}

// Prop is the C14 check.
func Prop() *fw.Property {
	return &fw.Property{
		ID:    "C14",
		Level: "exploration",
		Rule:  "full product of the shape, fill-rule, view, resolution, paint and colour-space menus through Rasterizer.RenderPath; every pixel whose centre is more than one pixel from the transformed boundary must carry the paint iff rule.Fills(winding) (pixel (i,j) <-> canvas point ((i+.5)/dpmm, H-(j+.5)/dpmm)); render twice = identical bytes; path data and gradient stops unchanged; two-layer canvases through Context/Draw for size, flip and paint order; strokes paint the NonZero region of the outline Path.Stroke returns (C04 judges the outline itself); non-trivial = decidable pixels on both sides",
		Assumptions: []string{
			"menus: 12 shapes, 4 rules, 4 views, resolutions {1,2.5[,8]} px/mm, 3 paints, 2 colour spaces; other inputs are outside the bound",
			"paint tolerance 2/255 (3 with sRGB round trip; gradient colours are compared in the linear colour space only, tolerance 4 = one pixel of gradient travel); 'untouched' = every channel <= 2/255 (the third-party scanner leaves coverage of 1/255 up to two pixels from an edge; counted in the evidence)",
			"stroke regions other than round cap/join are covered by C04 (geometry) and C12 (back-ends)",
			"image draws (a later draw covering an earlier one): 3 image types x 9 views (quarter turns, oblique rotations, shear, anisotropic scale, mirrors) x 2 image resolutions x 2 resolutions x 2 colour spaces; a destination pixel is judged when its centre maps farther than the resampling kernel's support (2 source or destination pixels, whichever is larger, plus half a pixel of each grid) from every colour boundary of the source image; source image bytes compared before/after",
		},
		Families: families,
		KnownPredicates: map[string]func(*fw.Violation) bool{
			"shape-extends-beyond-image": func(v *fw.Violation) bool {
				return strings.Contains(v.Detail, "[shape extends beyond the image]")
			},
			"open-subpath-positive-negative": func(v *fw.Violation) bool {
				return strings.Contains(v.Case, "open zig-zag") && (strings.Contains(v.Case, "rule=Positive") || strings.Contains(v.Case, "rule=Negative"))
			},
		},
	}
}
