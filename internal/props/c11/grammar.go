package c11

import (
	"fmt"
	"math"
	"strings"

	"github.com/tdewolff/canvas"

	"verif/internal/fw"
	"verif/internal/oracle"
	"verif/internal/svgpath"
)

// ParseSVGPath against the grammar: every path data string "M0 0" + up to n command tokens from
// a menu with one token per command letter (absolute and relative, with arguments, plus bare
// coordinate tuples that repeat the previous command) is parsed by canvas.ParseSVGPath and by
// an independent interpreter of SVG 1.1 path data (internal/svgpath: current point, subpath
// start, reflected control points of S/T only after C/S resp. Q/T, implicit lineto after a
// moveto, omitted and straightened arcs); the two results must trace the same geometry.

var grammarTokens = []string{
	"L2 1", "l1 -1", "H3", "h-1", "V2", "v1",
	"C1 2 3 2 4 0", "c1 1 2 1 3 0", "S3 3 4 1", "s1 -1 2 0",
	"Q1 3 3 1", "q1 1 2 0", "T4 2", "t1 1",
	"A2 1 30 0 1 3 2", "a1 1 0 1 0 1 1", "Z", "z", "M1 1", "m1 0",
	" 5 4", " -1 2 3 1", // bare tuples: implicit repetition of the previous command
}

func grammarString(i int64, n int) string {
	var sb strings.Builder
	sb.WriteString("M0 0")
	g := oracle.Digits(i, repeatInt(len(grammarTokens), n)...)
	for _, k := range g {
		sb.WriteString(grammarTokens[k])
	}
	return sb.String()
}

func repeatInt(v, n int) []int {
	out := make([]int, n)
	for i := range out {
		out[i] = v
	}
	return out
}

func checkGrammar(r *fw.R, s string) {
	ref, rerr := svgpath.Parse(s)
	var p *canvas.Path
	var perr error
	func() {
		defer func() {
			if e := recover(); e != nil {
				perr = fmt.Errorf("panic: %v", e)
				r.Violate("grammar:panic", fmt.Sprintf("ParseSVGPath(%q) panics: %v", s, e))
			}
		}()
		p, perr = canvas.ParseSVGPath(s)
	}()
	if rerr != nil {
		// not path data by the grammar (a bare tuple with the wrong number of values, or after
		// a closepath): canvas may reject it or read a prefix; nothing to compare
		r.Outcome("grammar:not-path-data")
		return
	}
	if perr != nil {
		if !strings.HasPrefix(perr.Error(), "panic") {
			r.Violate("grammar:rejected", fmt.Sprintf("ParseSVGPath(%q) returns error %v; the string is valid path data", s, perr))
		}
		return
	}
	got, derr := oracle.Decode(p.Data())
	if derr != nil {
		r.Violate("grammar:malformed-result", fmt.Sprintf("ParseSVGPath(%q): %v", s, derr))
		return
	}
	nonEmpty := func(sps []oracle.Subpath) []oracle.Subpath {
		var out []oracle.Subpath
		for _, sp := range sps {
			// extent of the subpath: the farthest dense sample from its start
			far := 0.0
			for _, pl := range oracle.Dense([]oracle.Subpath{sp}, 16) {
				for _, q := range pl.P {
					far = math.Max(far, q.Dist(sp.Start))
				}
			}
			if far > 0 {
				out = append(out, sp)
			}
		}
		return out
	}
	ref, got = nonEmpty(ref), nonEmpty(got)
	rp, gp := oracle.Dense(ref, 64), oracle.Dense(got, 64)
	if len(rp) == 0 && len(gp) == 0 {
		r.Outcome("grammar:empty")
		return
	}
	if len(rp) == 0 || len(gp) == 0 {
		r.Violate("grammar:geometry", fmt.Sprintf("ParseSVGPath(%q) = %s; the grammar gives %d subpaths with extent, the result has %d", s, oracle.Fmt(p.Data()), len(rp), len(gp)))
		return
	}
	h := math.Max(oracle.HausdorffOneSided(rp, gp, 1, false), oracle.HausdorffOneSided(gp, rp, 1, false))
	if !(h <= 1e-6) {
		r.Violate("grammar:geometry", fmt.Sprintf("ParseSVGPath(%q) = %s, which is %.4g away from what the grammar prescribes", s, oracle.Fmt(p.Data()), h))
		return
	}
	// the same number of closed subpaths, in the same order of closedness
	var rc, gc []bool
	for _, sp := range ref {
		rc = append(rc, sp.Closed)
	}
	for _, sp := range got {
		gc = append(gc, sp.Closed)
	}
	if fmt.Sprint(rc) != fmt.Sprint(gc) {
		r.Violate("grammar:closedness", fmt.Sprintf("ParseSVGPath(%q) = %s: closed flags of the subpaths %v, the grammar gives %v", s, oracle.Fmt(p.Data()), gc, rc))
		return
	}
	r.NontrivialIdx()
	r.Outcome("grammar:agrees")
}

func grammarFamily(tier string) fw.Family {
	n := 3
	if tier == "thorough" {
		n = 4
	}
	N := oracle.Prod(repeatInt(len(grammarTokens), n)...)
	return fw.Family{Name: fmt.Sprintf("ParseSVGPath against an independent path data interpreter: M0 0 + %d tokens from a %d-token command menu", n, len(grammarTokens)), N: N,
		Check: func(i int64, r *fw.R) { checkGrammar(r, grammarString(i, n)) },
		Desc:  func(i int64) string { return fmt.Sprintf("ParseSVGPath(%q)", grammarString(i, n)) }}
}

// number syntax: every pair of number spellings (signs, leading and trailing dots, exponents,
// zeros) with every separator that the grammar allows between them (white space, comma, both,
// nothing when the second number starts with a sign or a dot after a number that already has
// one), as the arguments of an absolute and a relative lineto and as the radii of an arc.
var numberSpellings = []string{"1", "-1", "+1", ".5", "-.5", "+.5", "1.", "-1.", "1.5", "0", "-0", "10", "1e1", "1E-1", "1.5e+1", "-2.5e0", ".5e1", "1.e1", "003", "1.25"}

func numberCases() []string {
	var out []string
	hasDotOrExp := func(s string) bool { return strings.ContainsAny(s, ".eE") }
	for _, a := range numberSpellings {
		for _, b := range numberSpellings {
			seps := []string{" ", ",", " , ", "\n"}
			if b[0] == '-' || b[0] == '+' || (b[0] == '.' && hasDotOrExp(a)) {
				seps = append(seps, "")
			}
			for _, sep := range seps {
				out = append(out, "M0 0L"+a+sep+b, "M1 1l"+a+sep+b+" "+b+sep+a, "M0 0L"+a+sep+b+"h"+a+"v"+b)
			}
		}
	}
	return out
}

func numberFamily() fw.Family {
	cases := numberCases()
	return fw.Family{Name: fmt.Sprintf("ParseSVGPath number syntax: %d strings (20 spellings x 20 spellings x separators x 3 command frames)", len(cases)), N: int64(len(cases)),
		Check: func(i int64, r *fw.R) { checkGrammar(r, cases[i]) },
		Desc:  func(i int64) string { return fmt.Sprintf("ParseSVGPath(%q)", cases[i]) }}
}
