// Package c11: text formats of canvas.Path (String, ToSVG, ToPDF, ToPS, ParseSVGPath, ParseSVG).
//
// interp.go: two tiny interpreters, written from the PDF 32000-1 (8.5.2) and PostScript
// (PLRM, operators moveto/lineto/curveto/closepath/arc/arcn) definitions, that turn the
// operator strings produced by ToPDF and ToPS into requested segments. They know nothing of
// canvas. The PS back-end's prologue defines
//
//	/ellipse  { ...x y translate rot rotate rx ry scale 0 0 1 a0 a1 arc  m setmatrix } def
//	/ellipsen { ...                                      0 0 1 a0 a1 arcn m setmatrix } def
//
// with operands  x y rx ry a0 a1 rot; they are interpreted by that definition.
package c11

import (
	"fmt"
	"math"
	"strconv"
	"strings"

	"verif/internal/oracle"
	"verif/internal/props/c10"
)

type Pt = oracle.Pt

type builder struct {
	subs   []c10.RSub
	cur    Pt
	hasCur bool
}

func (b *builder) last() *c10.RSub {
	if len(b.subs) == 0 {
		return nil
	}
	return &b.subs[len(b.subs)-1]
}

func (b *builder) moveTo(p Pt) {
	b.subs = append(b.subs, c10.RSub{Start: p})
	b.cur, b.hasCur = p, true
}

// open returns the subpath to draw into; after closepath/h the current point is the start of
// the closed subpath and a drawing operator begins a new subpath there.
func (b *builder) open() (*c10.RSub, error) {
	if !b.hasCur {
		return nil, fmt.Errorf("no current point")
	}
	l := b.last()
	if l.Closed {
		b.subs = append(b.subs, c10.RSub{Start: b.cur})
		l = b.last()
	}
	return l, nil
}

func (b *builder) lineTo(p Pt) error {
	s, err := b.open()
	if err != nil {
		return err
	}
	s.Segs = append(s.Segs, c10.RSeg{Seg: oracle.Seg{Kind: oracle.CmdLine, P0: b.cur, P1: p}})
	b.cur = p
	return nil
}

func (b *builder) curveTo(c1, c2, p Pt) error {
	s, err := b.open()
	if err != nil {
		return err
	}
	s.Segs = append(s.Segs, c10.RSeg{Seg: oracle.Seg{Kind: oracle.CmdCube, P0: b.cur, C1: c1, C2: c2, P1: p}})
	b.cur = p
	return nil
}

func (b *builder) closePath() {
	l := b.last()
	if l == nil || l.Closed {
		return
	}
	l.Segs = append(l.Segs, c10.RSeg{Seg: oracle.Seg{Kind: oracle.CmdClose, P0: b.cur, P1: l.Start}})
	l.Closed = true
	b.cur = l.Start
}

func pop(st *[]float64, n int) ([]float64, error) {
	if len(*st) < n {
		return nil, fmt.Errorf("operand stack underflow (need %d, have %d)", n, len(*st))
	}
	v := append([]float64(nil), (*st)[len(*st)-n:]...)
	*st = (*st)[:len(*st)-n]
	return v, nil
}

// InterpretPDF executes path construction operators m l c v y h re.
func InterpretPDF(s string) ([]c10.RSub, error) {
	b := &builder{}
	var st []float64
	for _, tok := range strings.Fields(s) {
		if v, err := strconv.ParseFloat(tok, 64); err == nil {
			st = append(st, v)
			continue
		}
		var a []float64
		var err error
		switch tok {
		case "m":
			if a, err = pop(&st, 2); err == nil {
				b.moveTo(Pt{X: a[0], Y: a[1]})
			}
		case "l":
			if a, err = pop(&st, 2); err == nil {
				err = b.lineTo(Pt{X: a[0], Y: a[1]})
			}
		case "c":
			if a, err = pop(&st, 6); err == nil {
				err = b.curveTo(Pt{X: a[0], Y: a[1]}, Pt{X: a[2], Y: a[3]}, Pt{X: a[4], Y: a[5]})
			}
		case "v":
			if a, err = pop(&st, 4); err == nil {
				err = b.curveTo(b.cur, Pt{X: a[0], Y: a[1]}, Pt{X: a[2], Y: a[3]})
			}
		case "y":
			if a, err = pop(&st, 4); err == nil {
				err = b.curveTo(Pt{X: a[0], Y: a[1]}, Pt{X: a[2], Y: a[3]}, Pt{X: a[2], Y: a[3]})
			}
		case "h":
			b.closePath()
		case "re":
			if a, err = pop(&st, 4); err == nil {
				x, y, w, h := a[0], a[1], a[2], a[3]
				b.moveTo(Pt{X: x, Y: y})
				b.lineTo(Pt{X: x + w, Y: y})
				b.lineTo(Pt{X: x + w, Y: y + h})
				b.lineTo(Pt{X: x, Y: y + h})
				b.closePath()
			}
		default:
			err = fmt.Errorf("unknown PDF operator %q", tok)
		}
		if err != nil {
			return nil, fmt.Errorf("%v at %q", err, tok)
		}
		if len(st) != 0 {
			return nil, fmt.Errorf("operands left on the stack after %q", tok)
		}
	}
	if len(st) != 0 {
		return nil, fmt.Errorf("trailing operands")
	}
	return b.subs, nil
}

// InterpretPS executes moveto lineto curveto closepath ellipse ellipsen.
func InterpretPS(s string) ([]c10.RSub, error) {
	b := &builder{}
	var st []float64
	for _, tok := range strings.Fields(s) {
		if v, err := strconv.ParseFloat(tok, 64); err == nil {
			st = append(st, v)
			continue
		}
		var a []float64
		var err error
		switch tok {
		case "moveto":
			if a, err = pop(&st, 2); err == nil {
				b.moveTo(Pt{X: a[0], Y: a[1]})
			}
		case "lineto":
			if a, err = pop(&st, 2); err == nil {
				err = b.lineTo(Pt{X: a[0], Y: a[1]})
			}
		case "curveto":
			if a, err = pop(&st, 6); err == nil {
				err = b.curveTo(Pt{X: a[0], Y: a[1]}, Pt{X: a[2], Y: a[3]}, Pt{X: a[4], Y: a[5]})
			}
		case "closepath":
			b.closePath()
		case "ellipse", "ellipsen":
			if a, err = pop(&st, 7); err != nil {
				break
			}
			c := Pt{X: a[0], Y: a[1]}
			rx, ry, a0, a1, rot := a[2], a[3], a[4], a[5], a[6]
			// arc: counter clockwise from a0 to a1, a1 raised by 360 until >= a0;
			// arcn: clockwise, a1 lowered by 360 until <= a0. Angles in degrees.
			if tok == "ellipse" {
				for a1 < a0 {
					a1 += 360
				}
			} else {
				for a1 > a0 {
					a1 -= 360
				}
			}
			phi := rot * math.Pi / 180
			th0 := a0 * math.Pi / 180
			dth := (a1 - a0) * math.Pi / 180
			start := oracle.EllipseAt(c, rx, ry, phi, th0)
			end := oracle.EllipseAt(c, rx, ry, phi, th0+dth)
			// a straight line from the current point to the start of the arc is added first
			if b.hasCur {
				if err = b.lineTo(start); err != nil {
					break
				}
			} else {
				b.moveTo(start)
			}
			var sp *c10.RSub
			if sp, err = b.open(); err != nil {
				break
			}
			sp.Segs = append(sp.Segs, c10.RSeg{Seg: oracle.Seg{Kind: oracle.CmdArc, P0: start, P1: end, Rx: rx, Ry: ry, Phi: phi}, Center: true, C: c, Th0: th0, Dth: dth})
			b.cur = end
		default:
			err = fmt.Errorf("unknown PostScript operator %q", tok)
		}
		if err != nil {
			return nil, fmt.Errorf("%v at %q", err, tok)
		}
		if len(st) != 0 {
			return nil, fmt.Errorf("operands left on the stack after %q", tok)
		}
	}
	if len(st) != 0 {
		return nil, fmt.Errorf("trailing operands")
	}
	return b.subs, nil
}
