package c11

import (
	"fmt"
	"math"
	"regexp"
	"runtime/debug"
	"strings"

	"github.com/tdewolff/canvas"

	"verif/internal/fw"
	"verif/internal/oracle"
	"verif/internal/props/c10"
)

// per-class report cap per worker (see c10.violate)
const perClassCap = 6

var classCount = map[string]int{}

func violate(r *fw.R, class, detail string) {
	classCount[class]++
	r.Count("violations of class "+class, 1)
	if classCount[class] > perClassCap {
		return
	}
	r.Violate(class, detail)
}

// ---------------------------------------------------------------------------------------------
// printer side

const denseN = c10.DenseN

func traces(d []float64, n int) ([]c10.Trace, error) {
	sps, err := oracle.Decode(d)
	if err != nil {
		return nil, err
	}
	return c10.Dense(c10.FromOracle(sps), n), nil
}

// arcInfo: the largest radius, and how close the arcs are to the limit where the radii just
// fit the chord (lambda = 1): there a relative perturbation e of the radii moves the centre by
// about sqrt(e), so output rounded to P digits cannot describe the arc to P digits.
func arcInfo(d []float64) (arcs int, maxR, maxLam float64, twilight bool) {
	sps, err := oracle.Decode(d)
	if err != nil {
		return
	}
	for _, sp := range sps {
		for _, s := range sp.Segs {
			if s.Kind == oracle.CmdArc {
				arcs++
				maxR = math.Max(maxR, math.Max(s.Rx, s.Ry))
				lam := c10.ArcLambda(s.P0, s.Rx, s.Ry, s.Phi, s.P1)
				maxLam = math.Max(maxLam, lam)
				// radii fit the chord by a margin of 1e-12..1e-8: whether this is "exactly half
				// an ellipse" (radii scaled up to fit, stored rounded) or a slightly shorter arc
				// cannot be told; the two readings differ by up to sqrt(1e-8) of the radius
				if 1-lam > 1e-12 && 1-lam < 1e-8 {
					twilight = true
				}
			}
		}
	}
	return
}

// TwilightTol: see arcInfo.
const TwilightTol = 2e-4

func sameData(a, b []float64, rel float64) (bool, string) {
	if len(a) != len(b) {
		return false, fmt.Sprintf("%d values became %d", len(a), len(b))
	}
	for i := range a {
		if math.Abs(a[i]-b[i]) > rel*math.Max(1, math.Abs(a[i])) {
			return false, fmt.Sprintf("value %d: %v became %v", i, a[i], b[i])
		}
	}
	return true, ""
}

func withPrecision(P int, f func()) {
	old := canvas.Precision
	canvas.Precision = P
	defer func() { canvas.Precision = old }()
	f()
}

// normalizedDeviation: largest distance between points at equal FRACTIONS of the total length.
// Unlike the absolute arc-length comparison of C10 it tolerates small length changes (rounded
// coordinates); it still tells a reversed or reordered trace from the original.
func normalizedDeviation(a, b c10.Trace) float64 {
	const K = 64
	pa, pb := c10.Resample(a, K), c10.Resample(b, K)
	if pa == nil || pb == nil {
		return math.Inf(1)
	}
	worst := 0.0
	for k := range pa {
		if d := pa[k].Dist(pb[k]); d > worst {
			worst = d
		}
	}
	return worst
}

// DirSlack: the direction/order check (points at equal fractions of the length) is allowed
// this multiple of the point-set tolerance, because rounding every vertex shifts the
// length fractions as well.
const DirSlack = 5

// compareGeom compares the geometry got (from a printed form) with the path's own: same number
// of subpaths, same closedness, per subpath symmetric Hausdorff distance within tol (the bound
// that rounding each printed number implies) and the same direction and order of traversal.
func compareGeom(want, got []c10.Trace, tol float64) (string, float64) {
	if len(want) != len(got) {
		return fmt.Sprintf("%d subpaths became %d", len(want), len(got)), math.Inf(1)
	}
	worst := 0.0
	for i := range want {
		if want[i].Closed != got[i].Closed {
			return fmt.Sprintf("subpath %d: closed=%v became closed=%v", i, want[i].Closed, got[i].Closed), math.Inf(1)
		}
		h := c10.Hausdorff(want[i:i+1], got[i:i+1])
		worst = math.Max(worst, h)
		if !(h <= tol) {
			return fmt.Sprintf("subpath %d: Hausdorff distance %.3g", i, h), h
		}
		if d := normalizedDeviation(want[i], got[i]); !(d <= DirSlack*tol) {
			return fmt.Sprintf("subpath %d: not traversed in the same direction/order (deviation %.3g at equal length fractions)", i, d), d
		}
	}
	return "", worst
}

// checkPrinter runs the printer-side clauses on one path.
func checkPrinter(r *fw.R, p *canvas.Path) {
	data := append([]float64(nil), p.Data()...)
	if is, _ := c10.Validate(data); len(is) > 0 {
		// a malformed state is C10's finding; its printed forms are not judged
		r.Outcome("skipped:state malformed (see C10): " + is[0].Class)
		return
	}
	want, _ := traces(data, denseN)
	arcs, maxR, maxLam, twilight := arcInfo(data)
	// the size of the numbers that describe the path: coordinates and radii (an angle printed
	// to P digits moves a point by that relative amount of the radius)
	scale := math.Max(c10.Scale(want), maxR)

	// 1. String round trip: equal data
	s := p.String()
	q, err := canvas.ParseSVGPath(s)
	switch {
	case err != nil:
		violate(r, "string-roundtrip:parse-error", fmt.Sprintf("ParseSVGPath(%q): %v", s, err))
	default:
		if ok, why := sameData(data, q.Data(), 1e-9); ok {
			r.Outcome("string-roundtrip:equal")
		} else {
			// tell a different spelling of the same trace from a different trace
			class := "string-roundtrip:differs(geometry differs)"
			if got, derr := traces(q.Data(), denseN); derr == nil {
				if m, _ := c10.CompareDirected(want, got, 1e-9*math.Max(1, c10.Scale(want))); m == "" {
					class = "string-roundtrip:differs(same trace, other commands)"
				}
			}
			violate(r, class, fmt.Sprintf("%q parsed back as %s: %s", s, oracle.Fmt(q.Data()), why))
		}
	}

	for _, P := range []int{8, 3} {
		eps := math.Pow(10, float64(-P+1))
		tol := eps * scale
		// 2. ToSVG round trip
		var svg string
		withPrecision(P, func() { svg = p.ToSVG() })
		q, err := canvas.ParseSVGPath(svg)
		if err != nil {
			violate(r, "svg-roundtrip:parse-error", fmt.Sprintf("Precision=%d ParseSVGPath(%q): %v", P, svg, err))
		} else if got, derr := traces(q.Data(), denseN); derr != nil {
			violate(r, "svg-roundtrip:malformed", fmt.Sprintf("Precision=%d %q parsed to undecodable data: %v", P, svg, derr))
		} else {
			t := tol
			label := fmt.Sprintf("svg-roundtrip P=%d", P)
			if arcs > 0 && maxLam >= 1-100*eps {
				// decided from the path alone: an arc at the radii limit; sqrt conditioning
				t = 2 * math.Sqrt(eps) * scale
				label += " (arc at radii limit, sqrt tolerance)"
			} else if arcs > 0 {
				// rounding the radii by eps moves the centre by eps*r/(2 sqrt(1-lambda))
				t = tol * (1 + 1/math.Sqrt(1-maxLam))
				label += " (arcs)"
			}
			if twilight {
				t = math.Max(t, TwilightTol*maxR)
			}
			msg, worst := compareGeom(want, got, t)
			if msg != "" {
				violate(r, fmt.Sprintf("svg-roundtrip:geometry(P=%d)", P), fmt.Sprintf("%s -> %q -> %s: %s (tolerance %.3g)", oracle.Fmt(data), svg, oracle.Fmt(q.Data()), msg, t))
			} else {
				r.Outcome(label + ":same geometry")
				r.Max(label+": worst deviation / tolerance", worst/t)
			}
		}

		// 3. ToPDF through the PDF operator interpreter
		var pdf string
		var perr any
		func() {
			defer func() { perr = recover() }()
			withPrecision(P, func() { pdf = p.ToPDF() })
		}()
		if perr != nil {
			violate(r, "pdf:panic", fmt.Sprintf("Precision=%d ToPDF of %s: %v", P, oracle.Fmt(data), perr))
		} else if subs, ierr := InterpretPDF(pdf); ierr != nil {
			violate(r, "pdf:not-executable", fmt.Sprintf("Precision=%d %q: %v", P, pdf, ierr))
		} else if arcs == 0 {
			msg, worst := compareGeom(want, c10.Dense(subs, denseN), tol)
			if msg != "" {
				violate(r, fmt.Sprintf("pdf:geometry(P=%d)", P), fmt.Sprintf("%s -> %q: %s (tolerance %.3g)", oracle.Fmt(data), pdf, msg, tol))
			} else {
				r.Outcome(fmt.Sprintf("pdf P=%d:same geometry (no arcs)", P))
				r.Max(fmt.Sprintf("pdf P=%d no arcs: worst deviation / tolerance", P), worst/tol)
			}
		} else {
			// arcs are necessarily approximated by Béziers: every Bézier piece must stay within
			// PDFArcTol of the ellipse it replaces and the pieces must cover the arc's angles
			sps, _ := oracle.Decode(data)
			msg, matched, worstArc := matchPDF(sps, subs, tol)
			switch {
			case msg != "":
				violate(r, fmt.Sprintf("pdf:geometry(P=%d)", P), fmt.Sprintf("%s -> %q: %s", oracle.Fmt(data), pdf, msg))
			case !matched:
				// the output is not segment-for-segment; fall back to point sets
				w, _ := traces(data, 64)
				t := math.Max(tol, 2*PDFArcTol*maxR)
				if m2, _ := compareGeom(w, c10.Dense(subs, 64), t); m2 != "" {
					violate(r, fmt.Sprintf("pdf:geometry(P=%d)", P), fmt.Sprintf("%s -> %q: %s (tolerance %.3g)", oracle.Fmt(data), pdf, m2, t))
				} else {
					r.Outcome(fmt.Sprintf("pdf P=%d:same geometry (arcs, point-set fallback)", P))
				}
			default:
				r.Outcome(fmt.Sprintf("pdf P=%d:same geometry (arcs, piecewise)", P))
				r.Max(fmt.Sprintf("pdf P=%d: worst Bézier-for-arc deviation / larger radius", P), worstArc)
			}
		}

		// 4. ToPS through the PostScript interpreter
		var ps string
		func() {
			defer func() { perr = recover() }()
			withPrecision(P, func() { ps = p.ToPS() })
		}()
		if perr != nil {
			violate(r, "ps:panic", fmt.Sprintf("Precision=%d ToPS of %s: %v", P, oracle.Fmt(data), perr))
		} else if subs, ierr := InterpretPS(ps); ierr != nil {
			violate(r, "ps:not-executable", fmt.Sprintf("Precision=%d %q: %v", P, ps, ierr))
		} else {
			// centre, radii and two angles (degrees, up to 720: three digits before the point)
			// are each rounded to P digits: PSSlack times the basic tolerance when arcs occur
			t := tol
			if arcs > 0 {
				t = PSSlack * tol
			}
			if twilight {
				t = math.Max(t, TwilightTol*maxR)
				r.Outcome("arc in the radii-limit twilight zone: loose tolerance")
			}
			msg, worst := compareGeom(want, c10.Dense(subs, denseN), t)
			if msg != "" {
				violate(r, fmt.Sprintf("ps:geometry(P=%d)", P), fmt.Sprintf("%s -> %q: %s (tolerance %.3g)", oracle.Fmt(data), ps, msg, t))
			} else {
				r.Outcome(fmt.Sprintf("ps P=%d:same geometry (arcs=%v)", P, arcs > 0))
				r.Max(fmt.Sprintf("ps P=%d arcs=%v: worst deviation / tolerance", P, arcs > 0), worst/t)
			}
		}
	}
}

// PDFArcTol is the accepted deviation of the Bézier pieces that replace an arc, relative to the
// arc's larger radius. The statement leaves it open; calibrated once on the pinned tree
// (observed maximum 1.96e-3 for a quarter turn, times 1.3, rounded up).
const PDFArcTol = 3e-3

// PSSlack: see checkPrinter.
const PSSlack = 3

// matchPDF walks the path's segments and the interpreted PDF segments side by side: lines to
// lines, Béziers to one cubic with the same parameterisation, an arc to one or more cubics that
// stay near its ellipse and advance monotonically from its start angle to its end angle.
// matched=false means the two are not segment-for-segment (no verdict).
func matchPDF(sps []oracle.Subpath, got []c10.RSub, tol float64) (msg string, matched bool, worstArc float64) {
	var a []oracle.Subpath
	for _, sp := range sps {
		if len(sp.Segs) > 0 {
			a = append(a, sp)
		}
	}
	var b []c10.RSub
	for _, sp := range got {
		if len(sp.Segs) > 0 {
			b = append(b, sp)
		}
	}
	if len(a) != len(b) {
		return "", false, 0
	}
	for i := range a {
		if a[i].Closed != b[i].Closed {
			return fmt.Sprintf("subpath %d: closed=%v became closed=%v", i, a[i].Closed, b[i].Closed), true, 0
		}
		if !(a[i].Start.Dist(b[i].Start) <= tol) {
			return fmt.Sprintf("subpath %d starts at (%g,%g) instead of (%g,%g)", i, b[i].Start.X, b[i].Start.Y, a[i].Start.X, a[i].Start.Y), true, 0
		}
		j := 0
		gs := b[i].Segs
		for k, s := range a[i].Segs {
			if j >= len(gs) {
				return "", false, 0
			}
			switch s.Kind {
			case oracle.CmdLine, oracle.CmdClose:
				g := gs[j]
				if g.Kind != oracle.CmdLine && g.Kind != oracle.CmdClose {
					return "", false, 0
				}
				if !(g.P1.Dist(s.P1) <= tol) {
					return fmt.Sprintf("subpath %d segment %d: line ends at (%g,%g) instead of (%g,%g)", i, k, g.P1.X, g.P1.Y, s.P1.X, s.P1.Y), true, 0
				}
				j++
			case oracle.CmdQuad, oracle.CmdCube:
				g := gs[j]
				if g.Kind != oracle.CmdCube {
					return "", false, 0
				}
				for t := 0; t <= 8; t++ {
					if d := s.At(float64(t) / 8).Dist(g.Seg.At(float64(t) / 8)); !(d <= tol) {
						return fmt.Sprintf("subpath %d segment %d: Bézier deviates by %.3g at t=%g", i, k, d, float64(t)/8), true, 0
					}
				}
				j++
			case oracle.CmdArc:
				rs := c10.RSeg{Seg: s}
				c, th0, dth, rx, ry := rs.CenterForm()
				rmax := math.Max(rx, ry)
				cs, sn := math.Cos(s.Phi), math.Sin(s.Phi)
				prev := 0.0 // progress along the arc in [0, |dth|]
				sign := 1.0
				if dth < 0 {
					sign = -1
				}
				done := false
				for !done {
					if j >= len(gs) || gs[j].Kind != oracle.CmdCube {
						return "", false, 0
					}
					g := gs[j]
					j++
					for t := 1; t <= 8; t++ {
						q := g.Seg.At(float64(t) / 8)
						dx, dy := q.X-c.X, q.Y-c.Y
						ux, uy := (cs*dx+sn*dy)/rx, (-sn*dx+cs*dy)/ry
						rad := math.Hypot(ux, uy)
						rho := math.Hypot(rx*ux/rad, ry*uy/rad)
						dev := math.Abs(rad-1) * rho
						worstArc = math.Max(worstArc, dev/rmax)
						if !(dev <= PDFArcTol*rmax+tol) {
							return fmt.Sprintf("subpath %d segment %d: Bézier piece is %.3g away from the arc's ellipse (radii %g,%g)", i, k, dev, rx, ry), true, worstArc
						}
						// progress: angle from the start angle in sweep direction, unwrapped near prev
						ang := sign * (math.Atan2(uy, ux) - th0)
						for ang < prev-math.Pi {
							ang += 2 * math.Pi
						}
						for ang > prev+math.Pi {
							ang -= 2 * math.Pi
						}
						if ang < prev-1e-6 {
							return fmt.Sprintf("subpath %d segment %d: Bézier pieces run backwards along the arc (%.6g after %.6g rad)", i, k, ang, prev), true, worstArc
						}
						prev = ang
					}
					if g.P1.Dist(s.P1) <= tol+PDFArcTol*rmax && math.Abs(prev-math.Abs(dth)) < 0.05 {
						done = true
						// the Béziers may end a hair off the arc's end point; a connecting
						// line of that size is part of the replacement
						if j < len(gs) && gs[j].Kind == oracle.CmdLine && gs[j].P0.Dist(gs[j].P1) <= tol+PDFArcTol*rmax && gs[j].P1.Dist(s.P1) <= tol {
							j++
						}
					} else if !(prev <= math.Abs(dth)+0.05) {
						return fmt.Sprintf("subpath %d segment %d: Bézier pieces overshoot the arc (%.6g of %.6g rad)", i, k, prev, math.Abs(dth)), true, worstArc
					}
				}
			}
		}
		if j != len(gs) {
			return "", false, 0
		}
	}
	return "", true, worstArc
}

var seenState = map[string]struct{}{}

func printerFamilies(tier string) []fw.Family {
	fs := []fw.Family{{
		Name: "printers on every distinct C10 state (builder depth <= 3, shapes + <= 1 call)", N: c10.StateN(),
		Check: func(i int64, r *fw.R) {
			p := c10.BuildReal(c10.StateCalls(i))
			if !c10.StateIsFirst(i, p) {
				r.Outcome("duplicate state (checked at its first history)")
				return
			}
			r.NontrivialIdx()
			r.States++
			r.Transitions += 4 // String, ToSVG (two precisions), ToPDF, ToPS: each printed and read back
			r.Validated += 4
			checkPrinter(r, p)
		},
		Desc: func(i int64) string { return c10.Names(c10.StateCalls(i)) },
	}}
	if tier == "thorough" {
		for _, h := range c10.Histories("thorough") {
			h := h
			if h.Name != "builder calls, depth 4" {
				continue
			}
			fs = append(fs, fw.Family{
				Name: "printers on the C10 states of depth 4", N: h.N,
				Check: func(i int64, r *fw.R) {
					p := c10.BuildReal(h.Calls(i))
					k := c10.Key(p.Data())
					r.Nontrivial(k)
					if _, ok := seenState[k]; ok {
						r.Outcome("duplicate state (already checked in this worker)")
						return
					}
					seenState[k] = struct{}{}
					r.Count("printer checks on depth-4 states (distinct per worker)", 1)
					checkPrinter(r, p)
				},
				Desc: func(i int64) string { return c10.Names(h.Calls(i)) },
			})
		}
	}
	fs = append(fs, edgeFamily())
	return fs
}

// edgeFamily: numeric edge values through the printers (minifier: leading zeros, exponents,
// signs next to flags and digits, rotations of 90 degrees and more, horizontal/vertical lines).
func edgeFamily() fw.Family {
	vals := []float64{0, 1, -1, 0.5, -0.5, 1e-9, -1.25, 0.1 + 0.2, 100, 99.9999996, 0.99999999996, 123456.7890625, 1e9, 1e-5, 12345678.9}
	rots := []float64{0, 30, 90, 135, 179.5}
	type ek struct{ kind, a, b, c int }
	decode := func(i int64) ek {
		d := oracle.Digits(i, 6, len(vals), len(vals), len(rots))
		return ek{d[0], d[1], d[2], d[3]}
	}
	build := func(e ek) *canvas.Path {
		x, y := vals[e.a], vals[e.b]
		p := &canvas.Path{}
		p.MoveTo(1, 2)
		switch e.kind {
		case 0:
			p.LineTo(x, y)
			p.LineTo(x, 3)
			p.LineTo(7, 3)
		case 1:
			p.QuadTo(y, x, x, y)
		case 2:
			p.CubeTo(x, -y, -x, y, x, y)
			p.Close()
		case 3:
			p.ArcTo(3, 2, rots[e.c], false, false, x, y)
		case 4:
			p.ArcTo(2, 3, rots[e.c], true, true, x, y)
			p.LineTo(0, 0)
		case 5:
			p.ArcTo(0.5, 1.5, rots[e.c], false, true, x, y)
			p.ArcTo(1.5, 1.5, rots[e.c], true, false, 1, 2)
			p.Close()
		}
		return p
	}
	return fw.Family{
		Name: "printers on numeric edge values", N: oracle.Prod(6, len(vals), len(vals), len(rots)),
		Check: func(i int64, r *fw.R) {
			e := decode(i)
			if e.kind < 3 && e.c != 0 {
				r.Outcome("duplicate (rotation unused)")
				return
			}
			r.NontrivialIdx()
			checkPrinter(r, build(e))
		},
		Desc: func(i int64) string { return oracle.Fmt(build(decode(i)).Data()) },
	}
}

// ---------------------------------------------------------------------------------------------
// parser side

var parseAlphabet = []byte("MmLlHZzAQTCS01.-+e, ")

// parseOne feeds one string to ParseSVGPath: it must return a path or an error (a panic is
// caught here so that the string is named), and a returned path must be well-formed.
func parseOne(r *fw.R, s string) {
	var p *canvas.Path
	var err error
	var pe any
	func() {
		defer func() { pe = recover() }()
		p, err = canvas.ParseSVGPath(s)
	}()
	switch {
	case pe != nil:
		violate(r, "parse:panic", fmt.Sprintf("ParseSVGPath(%q) panics: %v", s, pe))
	case err != nil:
		r.Outcome("parse:error")
	case p == nil:
		violate(r, "parse:nil-without-error", fmt.Sprintf("ParseSVGPath(%q) returns nil, nil", s))
	default:
		is, info := c10.Validate(p.Data())
		if len(is) > 0 {
			violate(r, "parse:malformed-result:"+is[0].Class, fmt.Sprintf("ParseSVGPath(%q) = %s: %s", s, oracle.Fmt(p.Data()), is[0].Detail))
		} else if info.Segments > 0 {
			r.Outcome("parse:path with segments")
		} else {
			r.Outcome("parse:empty path")
		}
	}
}

func stringFamilies(tier string) []fw.Family {
	maxLen := 5
	if tier == "thorough" {
		maxLen = 6
	}
	A := int64(len(parseAlphabet))
	str := func(i int64, n int) string {
		b := make([]byte, n)
		for k := n - 1; k >= 0; k-- {
			b[k] = parseAlphabet[i%A]
			i /= A
		}
		return string(b)
	}
	var fs []fw.Family
	// lengths 0..2 in one case each; longer ones in batches of 400 (all two-symbol suffixes of
	// one prefix) to keep the per-case overhead small
	fs = append(fs, fw.Family{
		Name: "ParseSVGPath: all strings of length <= 2", N: 1 + A + A*A,
		Check: func(i int64, r *fw.R) {
			r.NontrivialIdx()
			switch {
			case i == 0:
				parseOne(r, "")
			case i <= A:
				parseOne(r, str(i-1, 1))
			default:
				parseOne(r, str(i-1-A, 2))
			}
		},
		Desc: func(i int64) string {
			switch {
			case i == 0:
				return `""`
			case i <= A:
				return fmt.Sprintf("%q", str(i-1, 1))
			}
			return fmt.Sprintf("%q", str(i-1-A, 2))
		},
	})
	for n := 3; n <= maxLen; n++ {
		n := n
		N := int64(1)
		for k := 0; k < n-2; k++ {
			N *= A
		}
		fs = append(fs, fw.Family{
			Name: fmt.Sprintf("ParseSVGPath: all strings of length %d (one case = one prefix x 400 suffixes)", n), N: N,
			Check: func(i int64, r *fw.R) {
				r.NontrivialIdx()
				pre := str(i, n-2)
				for j := int64(0); j < A*A; j++ {
					parseOne(r, pre+str(j, 2))
				}
				r.Count("strings parsed", A*A)
			},
			Desc: func(i int64) string { return fmt.Sprintf("%q + every 2-symbol suffix", str(i, n-2)) },
		})
	}
	return fs
}

// validPaths: about thirty valid path strings covering every command, relative and absolute,
// shorthand, implicit repetition, packed flags, signs and dots as separators, exponents.
var validPaths = []string{
	"M0 0L1 0L1 1z",
	"m1 1l1 0l0 1z",
	"M0 0H2V2H0z",
	"m0 0h2v2h-2z",
	"M0 0 1 0 1 1",
	"m0 0 1 0 0 1",
	"M0 0Q1 1 2 0",
	"M0 0q1 1 2 0t2 0",
	"M0 0Q1 1 2 0T4 0T6 0",
	"M0 0C0 1 2 1 2 0",
	"M0 0c0 1 2 1 2 0s2-1 2 0",
	"M0 0C0 1 2 1 2 0S4-1 4 0",
	"M0 0S1 1 2 0",
	"M0 0T2 0",
	"M0 0A1 1 0 0 0 2 0",
	"M0 0a1 1 0 1 1 2 0",
	"M0 0A2 1 30 012 0",
	"M0 0A2 1 30 1 0 2 0 1 1 0 0 1 4 0",
	"M1 0A1 1 0 0 1-1 0A1 1 0 0 1 1 0z",
	"M0,0L1,0,1,1Z",
	"M.5.5L1.5.5",
	"M-1-1L-2-2",
	"M1e1 1e-1L2E1 0",
	"M+1+1L+2 0",
	"M0 0L1 0M2 2L3 2z",
	"M0 0L1 0zL2 2",
	"M0 0zm1 1l1 0",
	" M 0 0 L 1 1 ",
	"M0 0L1 0L0 0L1 0",
	"M0 0A0 1 0 0 0 1 1",
	"M0 0A.1.1 0 0 0 1 1",
	"L1 1",
}

func mutationFamily() fw.Family {
	subst := append(append([]byte{}, parseAlphabet...), 'V', 'q', 'z', '9', 'E', 'x', 0, 0xff, '\n', '\t')
	type mut struct {
		base, kind, pos, sub int
	}
	var offsets []int64
	total := int64(0)
	per := func(s string) int64 { return 1 + int64(len(s))*(2+int64(len(subst))) }
	for _, s := range validPaths {
		offsets = append(offsets, total)
		total += per(s)
	}
	decode := func(i int64) string {
		b := 0
		for b+1 < len(offsets) && offsets[b+1] <= i {
			b++
		}
		s := validPaths[b]
		i -= offsets[b]
		if i == 0 {
			return s
		}
		i--
		pos := int(i / int64(2+len(subst)))
		k := int(i % int64(2+len(subst)))
		switch k {
		case 0: // truncation
			return s[:pos]
		case 1: // deletion
			return s[:pos] + s[pos+1:]
		}
		return s[:pos] + string([]byte{subst[k-2]}) + s[pos+1:]
	}
	return fw.Family{
		Name: "ParseSVGPath: valid strings and all their one-byte truncations, deletions and substitutions", N: total,
		Check: func(i int64, r *fw.R) {
			r.NontrivialIdx()
			s := decode(i)
			parseOne(r, s)
			// the unmutated strings must parse
			for _, v := range validPaths {
				if v == s {
					if _, err := canvas.ParseSVGPath(s); err != nil {
						violate(r, "parse:valid-string-rejected", fmt.Sprintf("ParseSVGPath(%q): %v", s, err))
					}
					break
				}
			}
		},
		Desc: func(i int64) string { return fmt.Sprintf("%q", decode(i)) },
	}
}

var svgDocs = []string{
	`<svg xmlns="http://www.w3.org/2000/svg" width="10" height="6" viewBox="0 0 10 6"><path d="M1 1L9 1L9 5z" fill="#f00" stroke="blue" stroke-width="0.5"/></svg>`,
	`<svg width="10mm" height="6mm"><rect x="1" y="1" width="4" height="3" rx="1" fill="none" stroke="#000"/><circle cx="5" cy="3" r="2"/><ellipse cx="5" cy="3" rx="3" ry="1"/></svg>`,
	`<svg viewBox="0 0 10 6"><g transform="translate(1,1) scale(2) rotate(30)"><line x1="0" y1="0" x2="3" y2="2" stroke="rgb(10,20,30)"/><polyline points="0,0 1,1 2,0"/><polygon points="0 0 1 1 2 0"/></g></svg>`,
	`<svg width="10" height="6"><style>path{fill:red;stroke:#00f}.a{stroke-width:2}</style><path class="a" d="M0 0A2 1 30 012 0z" style="fill-rule:evenodd;stroke-dasharray:1 2;opacity:.5"/></svg>`,
	`<svg width="10" height="6"><defs><linearGradient id="g" x1="0" y1="0" x2="1" y2="0"><stop offset="0" stop-color="#fff"/><stop offset="100%" stop-color="#000"/></linearGradient></defs><rect width="10" height="6" fill="url(#g)"/></svg>`,
	`<?xml version="1.0"?><!-- c --><svg width="100%" height="50%" viewBox="0,0,10,6"><path d="m1 1h2v2h-2z" transform="matrix(1 0 0 -1 0 6)" stroke-linejoin="round" stroke-linecap="square" stroke-miterlimit="3"/></svg>`,
	// documents that already contain one error (the parser records the first one and goes on): a
	// mutation then makes a second one
	`<svg width="4zz" height="6"><path d="M1 1L9 1L9 5z"/><path d="M0 0L3 3"/></svg>`,
	`<svg width="10" height="6"><g transform="matrix(1 0)"><path d="M1 1L9 1L9 5z" fill="#f00"/></g><rect width="2" height="x"/><path d="M2 2H4"/></svg>`,
	`<svg width="10" height="6"><path d="M1 1L9"/><path d="L2"/><path d="M0 0L1 1"/><polygon points="0 0 1"/></svg>`,
	`<svg width="10" height="6"><defs><linearGradient id="g"><stop offset="0" stop-color="#fff"/></linearGradient></defs><rect width="2" height="2" fill='url("#g")' stroke='url("#")'/><circle r="1" fill="url(#g)" stroke="url(#)"/></svg>`,
	// text: default family, a family no system has, anchors, an empty element, nested tspan
	`<svg width="40" height="20"><text x="2" y="10">hi</text><text x="2" y="15" font-family="no-such-font-family-xyz" font-size="4">ho</text><text text-anchor="middle" font-family="">mid<tspan>dle</tspan></text><text/></svg>`,
	// elements after the root element has been closed (the element stack is empty again), with child and descendant rules
	`<svg width="10" height="6"><style>g > rect{fill:red}svg > path{fill:blue}g rect, * > circle{stroke:#000}</style><g><rect width="2" height="2"/></g></svg><rect width="5" height="5"/><path d="M0 0L1 1"/><g><circle r="1"/></g>`,
}

func svgFamily() fw.Family {
	subst := []byte{'<', '>', '"', '/', ' ', '0', '9', 'a', 'z', '-', '.', '#', '(', ')', '%', ';', ':', '=', ',', 'e', 0, 0xff}
	var offsets []int64
	total := int64(0)
	per := func(s string) int64 { return 1 + int64(len(s))*(2+int64(len(subst))) }
	for _, s := range svgDocs {
		offsets = append(offsets, total)
		total += per(s)
	}
	decode := func(i int64) string {
		b := 0
		for b+1 < len(offsets) && offsets[b+1] <= i {
			b++
		}
		s := svgDocs[b]
		i -= offsets[b]
		if i == 0 {
			return s
		}
		i--
		pos := int(i / int64(2+len(subst)))
		k := int(i % int64(2+len(subst)))
		switch k {
		case 0:
			return s[:pos]
		case 1:
			return s[:pos] + s[pos+1:]
		}
		return s[:pos] + string([]byte{subst[k-2]}) + s[pos+1:]
	}
	return fw.Family{
		Name: "ParseSVG: small documents and all their one-byte truncations, deletions and substitutions", N: total,
		Check: func(i int64, r *fw.R) {
			r.NontrivialIdx()
			s := decode(i)
			var c *canvas.Canvas
			var err error
			var pe any
			var site string
			func() {
				defer func() {
					if pe = recover(); pe != nil {
						site = c10.PanicSite(string(debug.Stack()))
					}
				}()
				c, err = canvas.ParseSVG(strings.NewReader(s))
			}()
			switch {
			case pe != nil:
				violate(r, "parsesvg:panic", fmt.Sprintf("ParseSVG(%q) panics: %v @ %s", s, pe, site))
				return
			case err != nil:
				r.Outcome("parsesvg:error")
			case c == nil:
				violate(r, "parsesvg:nil-without-error", fmt.Sprintf("ParseSVG(%q) returns nil, nil", s))
			default:
				r.Outcome("parsesvg:canvas")
			}
			for _, v := range svgDocs {
				if v == s && err != nil {
					// not part of this property (C19 judges what ParseSVG accepts); tallied
					r.Outcome("parsesvg:unmutated document rejected: " + err.Error()[:20])
				}
			}
		},
		Desc: func(i int64) string { return fmt.Sprintf("%q", decode(i)) },
	}
}

func families(tier string) []fw.Family {
	fs := printerFamilies(tier)
	fs = append(fs, mutationFamily(), svgFamily(), grammarFamily(tier), numberFamily())
	fs = append(fs, stringFamilies(tier)...)
	return fs
}

var movetoCloseRe = regexp.MustCompile(`[Mm]-?[0-9.]+ -?[0-9.]+[Zz]`)

// Prop is the C11 check.
func Prop() *fw.Property {
	return &fw.Property{
		ID:    "C11",
		Level: "model_checking",
		Rule: "printer side: every distinct state of the C10 call-history search (and a grid of numeric edge values): ParseSVGPath(String()) has the same data (1e-9), " +
			"ParseSVGPath(ToSVG()) traces the same geometry within 10^(1-Precision)*scale for Precision 8 and 3, ToPDF and ToPS executed by independent operator interpreters trace the same geometry; " +
			"parser side: every byte string up to the length bound over {M m L l H Z z A Q T C S 0 1 . - + e , space}, every one-byte truncation/deletion/substitution of 32 valid path strings and of 11 SVG documents (three of which already contain errors, so that mutations give documents with two errors): " +
			"returns a value or an error, never panics or hangs, and a returned path passes the C10 data-stream validator",
		Assumptions: []string{
			"states: builder histories up to depth 3 (quick) / 4 (thorough) over the C10 alphabet plus shape constructors; strings up to length 5 (quick) / 6 (thorough)",
			"an arc whose radii fit its chord to within 100*10^(1-P) (half ellipses, radii scaled up by F.6.6) is compared with tolerance 2*sqrt(10^(1-P))*scale at precision P: rounding the radii to P digits moves the centre by the square root of the rounding (decided from the path, tallied separately)",
			"ToPDF replaces arcs by cubic Béziers; with arcs the comparison is on point sets and lengths with tolerance max(10^(1-P)*scale, 1e-3*largest radius)",
			"the PostScript arc/arcn operators and the back-end's ellipse/ellipsen procedures are interpreted from their definitions (angle normalisation, initial lineto to the arc start)",
			"states that C10's validator rejects are not judged here (they are C10 findings)",
			"termination is judged by the framework watchdog (60 s per case; one case = up to 400 strings)",
			"ParseSVG documents avoid <text> (no system fonts in the sandbox)",
		},
		Families: families,
		KnownPredicates: map[string]func(v *fw.Violation) bool{
			// K19 (C10): a closepath directly after a moveto deletes the moveto
			"moveto-directly-followed-by-closepath": func(v *fw.Violation) bool {
				return strings.HasPrefix(v.Class, "grammar:") && movetoCloseRe.MatchString(v.Case) // the class_regex of the entry names the clauses
			},
			// one matcher per root cause seen on the pinned tree; where a class is shared by
			// several possible causes the matcher also looks for the cause's signature
			"dec-carry-drops-digit": func(v *fw.Violation) bool {
				// ToPDF/ToPS print 99.9999996 as "10.": a number token that ends in a dot
				return (strings.HasPrefix(v.Class, "pdf:geometry") || strings.HasPrefix(v.Class, "ps:geometry")) && decCarryRe.MatchString(v.Detail)
			},
			"lineto-merges-reversal": func(v *fw.Violation) bool {
				// the parser's LineTo merged a reversal: H/V (or L) going back over the previous one
				return v.Class == "parse:malformed-result:zero-length-segment" ||
					(strings.HasPrefix(v.Class, "svg-roundtrip:geometry") && reversalRe.MatchString(v.Detail))
			},
			"parser-whitespace-only-panics":  classIs("parse:panic"),
			"parsesvg-bad-path-data-panics":  classIs("parsesvg:panic"),
			"non-canonical-data-from-append": classIs("string-roundtrip:differs(same trace, other commands)"),
		},
	}
}

var decCarryRe = regexp.MustCompile(`[ "]-?[0-9]+\.[ "]`)
var reversalRe = regexp.MustCompile(`(V[-+0-9.e]+V|H[-+0-9.e]+H)`)

func classIs(cs ...string) func(v *fw.Violation) bool {
	return func(v *fw.Violation) bool {
		for _, c := range cs {
			if v.Class == c {
				return true
			}
		}
		return false
	}
}
