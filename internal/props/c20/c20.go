package c20

import (
	"fmt"
	"sort"
	"strings"
	"time"

	"verif/internal/fw"
	"verif/internal/sched"
	"verif/vsync"
)

func drainPools() {
	for _, p := range vsync.Pools() {
		p.Drain()
	}
}

// alone computes each body's result on fresh pools, outside any controlled execution.
func alone(idx []int) []string {
	vsync.Poison = false
	defer func() { vsync.Poison = true }()
	out := make([]string, len(idx))
	for k, i := range idx {
		drainPools()
		out[k] = Bodies[i].Run()
	}
	return out
}

func isFontName(s string) bool {
	return len(s) >= 2 && s[0] == 'f' && strings.Trim(s[1:], "0123456789") == ""
}

// scenario explores all interleavings (and pool answers) of the given bodies within the bounds.
func scenario(r *fw.R, idx []int, pre, dev int, answers string, maxExec int64) {
	vsync.PoolAnswers = answers
	want := alone(idx)
	results := make([]string, len(idx))
	mk := func() []func() {
		drainPools()
		fs := make([]func(), len(idx))
		for k, i := range idx {
			k, i := k, i
			results[k] = ""
			fs[k] = func() { results[k] = Bodies[i].Run() }
		}
		return fs
	}
	var names []string
	for _, i := range idx {
		names = append(names, Bodies[i].Name)
	}
	distinct := map[string]bool{}
	var points int64
	ex := &sched.Explorer{PreemptionBound: pre, DeviationBound: dev, MaxExecutions: maxExec}
	ex.Check = func(run *sched.Run) bool {
		points += int64(len(run.Choices))
		sig := strings.Join(results, "\x00")
		distinct[sig] = true
		describe := func() string {
			var picks []string
			for ci, c := range run.Choices {
				if c.Picked != 0 {
					picks = append(picks, fmt.Sprintf("#%d@%s=%d/%d", ci, c.Label, c.Picked, c.N))
				}
			}
			return fmt.Sprintf("non-default choices [%s] of %d choice points", strings.Join(picks, " "), len(run.Choices))
		}
		if run.Err != nil {
			r.Violate("replay-divergence", run.Err.Error()+"; "+describe())
			return false
		}
		if run.Panic != nil {
			r.Violate("panic-under-schedule", fmt.Sprintf("%v; %s\n%s", run.Panic, describe(), run.PanicStack))
			return false
		}
		var relGot, relWant []string
		for k, i := range idx {
			if Bodies[i].Relative {
				relGot = append(relGot, results[k])
				continue
			}
			if results[k] != want[k] {
				r.Violate("result-differs-from-run-alone", fmt.Sprintf("%s returned %.200q, alone it returns %.200q; %s", Bodies[i].Name, results[k], want[k], describe()))
				return false
			}
		}
		if len(relGot) > 0 {
			// counter-based names: must be well-formed and pairwise distinct, as sequential calls give
			seen := map[string]bool{}
			for _, g := range relGot {
				if !isFontName(g) || seen[g] {
					r.Violate("font-names-not-distinct", fmt.Sprintf("concurrent LoadFont calls returned names %q; sequential calls return distinct names; %s", relGot, describe()))
					return false
				}
				seen[g] = true
			}
			_ = relWant
		}
		return true
	}
	ex.Explore(mk)
	r.States += ex.Executions
	r.Transitions += points
	r.Validated += ex.Executions
	r.Count("executions", ex.Executions)
	r.Count("choice_points", points)
	r.Max("distinct_observations_in_one_scenario", float64(len(distinct)))
	if ex.Capped {
		r.Exhaustive = false
		r.Notes = append(r.Notes, fmt.Sprintf("scenario %v pre=%d dev=%d capped at %d executions", names, pre, dev, maxExec))
		r.Outcome("scenario-capped")
	} else {
		r.Outcome(fmt.Sprintf("scenario-exhausted pre<=%d dev<=%d", pre, dev))
	}
	if ex.Executions > 1 {
		r.NontrivialIdx()
	}
}

type scen struct {
	idx      []int
	pre, dev int
	answers  string
}

func (s scen) String() string {
	var names []string
	for _, i := range s.idx {
		names = append(names, Bodies[i].Name)
	}
	return fmt.Sprintf("threads {%s} preemptions<=%d pool-deviations<=%d answers=%s", strings.Join(names, " || "), s.pre, s.dev, s.answers)
}

func scenarios(tier string) []scen {
	var out []scen
	hooked := []int{0, 1, 2, 3, 4, 5, 8, 9, 11, 12} // pool users (incl. two star bodies) + LoadFont
	if tier == "quick" {
		// all unordered pairs incl. a body with itself, bounds (1,0) and (0,1)
		for a := 0; a < len(hooked); a++ {
			for b := a; b < len(hooked); b++ {
				out = append(out, scen{[]int{hooked[a], hooked[b]}, 1, 0, "lifo-fifo-new"})
				out = append(out, scen{[]int{hooked[a], hooked[b]}, 0, 1, "lifo-fifo-new"})
			}
		}
		for _, pr := range [][]int{{0, 2}, {0, 12}, {2, 5}, {0, 5}} {
			out = append(out, scen{pr, 2, 0, "lifo-fifo-new"})
		}
		out = append(out, scen{[]int{0, 2, 12}, 1, 0, "lifo-fifo-new"})
		out = append(out, scen{[]int{12, 12}, 2, 0, "lifo-fifo-new"})
		return out
	}
	for a := 0; a < len(hooked); a++ {
		for b := 0; b < len(hooked); b++ {
			out = append(out, scen{[]int{hooked[a], hooked[b]}, 2, 0, "lifo-fifo-new"})
			out = append(out, scen{[]int{hooked[a], hooked[b]}, 1, 1, "lifo-fifo-new"})
			if a <= b {
				out = append(out, scen{[]int{hooked[a], hooked[b]}, 0, 2, "lifo-fifo-new"})
				out = append(out, scen{[]int{hooked[a], hooked[b]}, 0, 1, "all"})
			}
		}
	}
	for _, t := range [][]int{{0, 1, 2}, {0, 2, 12}, {3, 4, 5}, {12, 12, 12}, {1, 5, 12}} {
		out = append(out, scen{t, 2, 0, "lifo-fifo-new"})
		out = append(out, scen{t, 1, 1, "lifo-fifo-new"})
	}
	return out
}

// histories: single thread, a sequence of "dirtying" calls followed by a probe; every pool
// answer within the deviation bound is enumerated. The probe must return what it returns alone.
func histories(tier string) []scen {
	var out []scen
	depth, dev := 2, 1
	if tier == "thorough" {
		depth, dev = 3, 2
	}
	menu := []int{0, 1, 2, 3, 4, 5, 6, 8} // the light pool users and one star body
	var rec func(prefix []int)
	rec = func(prefix []int) {
		if len(prefix) >= 1 {
			for _, probe := range menu {
				h := append(append([]int{}, prefix...), probe)
				out = append(out, scen{h, 0, dev, "lifo-fifo-new"})
			}
		}
		if len(prefix) == depth-1+0 {
			return
		}
		for _, d := range menu {
			rec(append(append([]int{}, prefix...), d))
		}
	}
	rec(nil)
	return out
}

// history runs the calls sequentially in ONE harness thread (data choices only).
func history(r *fw.R, s scen) {
	vsync.PoolAnswers = s.answers
	probe := s.idx[len(s.idx)-1]
	want := alone([]int{probe})[0]
	var got string
	mk := func() []func() {
		drainPools()
		return []func(){func() {
			for _, i := range s.idx[:len(s.idx)-1] {
				Bodies[i].Run()
			}
			got = Bodies[probe].Run()
		}}
	}
	var points int64
	poolStates := map[string]bool{}
	ex := &sched.Explorer{PreemptionBound: 0, DeviationBound: s.dev, MaxExecutions: 200000}
	ex.Check = func(run *sched.Run) bool {
		points += int64(len(run.Choices))
		var sizes []string
		for _, p := range vsync.Pools() {
			sizes = append(sizes, fmt.Sprint(len(p.Items())))
		}
		poolStates[strings.Join(sizes, ",")] = true
		if run.Panic != nil {
			r.Violate("panic-in-history", fmt.Sprintf("%v\n%s", run.Panic, run.PanicStack))
			return false
		}
		if strings.HasPrefix(got, "nondeterministic") {
			r.Violate("nondeterministic-output", fmt.Sprintf("%s: %s", Bodies[probe].Name, got))
			return false
		}
		if got != want {
			var picks []string
			for ci, c := range run.Choices {
				if c.Picked != 0 {
					picks = append(picks, fmt.Sprintf("#%d=%d/%d", ci, c.Picked, c.N))
				}
			}
			r.Violate("probe-differs-after-history", fmt.Sprintf("%s returned %.200q after the history, alone it returns %.200q; pool answers [%s]", Bodies[probe].Name, got, want, strings.Join(picks, " ")))
			return false
		}
		return true
	}
	ex.Explore(mk)
	r.States += int64(len(poolStates))
	r.Transitions += points
	r.Validated += ex.Executions
	r.Count("history_executions", ex.Executions)
	if ex.Capped {
		r.Exhaustive = false
		r.Outcome("history-capped")
	} else {
		r.Outcome("history-exhausted")
	}
	if ex.Executions > 1 || s.dev == 0 { // (renderer histories have no pool answers to vary: the history itself is the case)
		r.NontrivialIdx()
	}
}

// useAfterPut runs one body alone, single-threaded, with pooled objects overwritten on Put (zero
// value, content of the previously released object, or scrambled integers/bools); the
// result must be bit-identical to the unpoisoned run (otherwise the call read an object after
// returning it to the pool, which races with any concurrent Get).
func useAfterPut(r *fw.R, i int, mode string) {
	want := alone([]int{i})[0]
	drainPools()
	vsync.Poison, vsync.PoisonDonor, vsync.PoisonScramble = true, mode == "donor", mode == "scramble"
	defer func() { vsync.PoisonDonor, vsync.PoisonScramble = false, false }()
	var got string
	run := sched.Execute(nil, []func(){func() { got = Bodies[i].Run() }})
	r.States++
	r.Transitions += int64(len(run.Choices)) + 1
	r.Validated++
	if run.Panic != nil {
		r.Violate("use-after-put", fmt.Sprintf("%s panics when pooled objects are overwritten (%s) on Put: %v", Bodies[i].Name, mode, run.Panic))
		return
	}
	if got != want && !Bodies[i].Relative {
		r.Violate("use-after-put", fmt.Sprintf("%s returns %.160q when pooled objects are overwritten (%s) on Put, %.160q otherwise: it reads an object after returning it to the pool", Bodies[i].Name, got, mode, want))
		return
	}
	r.NontrivialIdx()
	r.Outcome("no-use-after-put:" + mode)
}

var poisonModes = []string{"zero", "donor", "scramble"}

func families(tier string) []fw.Family {
	sc := scenarios(tier)
	hs := histories(tier)
	rh := rendererHistories(tier)
	fh := freshHistories(tier)
	sort.SliceStable(hs, func(i, j int) bool { return len(hs[i].idx) < len(hs[j].idx) })
	maxExec := int64(300000)
	if tier == "thorough" {
		maxExec = 3000000
	}
	return []fw.Family{
		{Name: "use-after-put (pooled objects overwritten on Put, one call alone)", N: PoolUsers * 3,
			Check: func(i int64, r *fw.R) { useAfterPut(r, int(i/3), poisonModes[i%3]) },
			Desc: func(i int64) string {
				return Bodies[i/3].Name + " with pooled objects overwritten on Put: " + poisonModes[i%3]
			}},
		{Name: "interleavings", N: int64(len(sc)),
			Check: func(i int64, r *fw.R) { scenario(r, sc[i].idx, sc[i].pre, sc[i].dev, sc[i].answers, maxExec) },
			Desc:  func(i int64) string { return sc[i].String() }},
		{Name: "pool-histories", N: int64(len(hs)),
			Check: func(i int64, r *fw.R) { history(r, hs[i]) },
			Desc:  func(i int64) string { return "sequential history then probe: " + hs[i].String() }},
		{Name: "renderer-histories", N: int64(len(rh)),
			Check: func(i int64, r *fw.R) { history(r, rh[i]) },
			Desc:  func(i int64) string { return "sequential history then probe: " + rh[i].String() }},
		{Name: "fresh-process histories (history and reference value each in a process of their own)", N: int64(len(fh)),
			Check: func(i int64, r *fw.R) { freshHistory(r, fh[i]) },
			Desc: func(i int64) string {
				var names []string
				for _, k := range fh[i] {
					names = append(names, Bodies[k].Name)
				}
				return "in a fresh process: " + strings.Join(names, "; then ")
			}},
	}
}

// rendererHistories: every sequence of up to depth renderer calls (each on its own canvas and its
// own document) followed by a probe; the renderer bodies contain no hooked operation, so each
// history is one execution and two concurrent calls can only be observed as one of their two
// orders (unsynchronised accesses are the free-running -race pass's subject).
func rendererHistories(tier string) []scen {
	depth := 1
	if tier == "thorough" {
		depth = 2
	}
	var menu []int
	for i := FirstRenderBody; i < len(Bodies); i++ {
		menu = append(menu, i)
	}
	for i, b := range Bodies[:FirstRenderBody] {
		if b.Name == "NewTextBox(shared font)" || b.Name == "rasterizer.Draw" || b.Hist {
			menu = append(menu, i)
		}
	}
	var out []scen
	var rec func(prefix []int)
	rec = func(prefix []int) {
		if len(prefix) >= 1 {
			for _, probe := range menu {
				out = append(out, scen{append(append([]int{}, prefix...), probe), 0, 0, "lifo-fifo-new"})
			}
		}
		if len(prefix) == depth {
			return
		}
		for _, d := range menu {
			rec(append(append([]int{}, prefix...), d))
		}
	}
	rec(nil)
	return out
}

var _ = time.Now

// Prop is the C20 check (controlled-scheduler part; the free-running -race pass is run by
// scripts/check_c20.sh through cmd/c20race and merged into the same evidence file).
func Prop() *fw.Property {
	return &fw.Property{
		ID:    "C20",
		Level: "model_checking",
		Rule: "stateless exploration of the real code under a cooperative scheduler: harness threads each run one library call on their own inputs; every sync.Pool Get/Put, OnceFunc call, Mutex operation and every access to the package-level font counter is a scheduling point (sync is replaced by verif/vsync through a build overlay generated from the working tree); " +
			"all schedules within the preemption bound x all pool answers (newest/oldest/fresh, or any pooled object) within the deviation bound are enumerated by DFS over replayed prefixes; oracle: every call returns bit-for-bit what it returns alone on fresh pools (font names: pairwise distinct); " +
			"plus single-thread histories of pool-dirtying calls followed by a probe with every pool answer; states = complete executions (schedules), transitions = choice points visited",
		Assumptions: []string{
			"interleavings are explored at the granularity of the hooked operations only; unsynchronised accesses that are not hooked are looked for by the separate free-running -race pass (sampling, supporting evidence)",
			"at most 3 harness threads, preemption bound <= 2, pool-answer deviations <= 2",
			"package tunables are not mutated concurrently with calls (documented as caller-synchronised configuration)",
		},
		Families: families,
		HangS:    1200,
	}
}
