package c20

import (
	"crypto/sha1"
	"encoding/json"
	"fmt"
	"os"
	"os/exec"
	"strconv"
	"strings"
	"sync"

	"verif/internal/fw"
)

// Histories in a fresh process. A result that depends on what ran before can hide behind the
// reference value itself: when "the probe alone" is computed in the process that then runs the
// history, anything the library remembers per process or per loaded font (a cache keyed on too
// little, a lazily built table) has already been filled by the reference run. Here every history
// and every reference value gets its own process: `verif c20seq i j k` runs the bodies i, j, k in
// that order on freshly loaded fonts and prints a digest of every result.

func init() {
	fw.Commands["c20seq"] = func(args []string) int {
		var out []string
		for _, a := range args {
			i, err := strconv.Atoi(a)
			if err != nil || i < 0 || i >= len(Bodies) {
				fmt.Fprintln(os.Stderr, "c20seq: bad body index", a)
				return 2
			}
			res := Bodies[i].Run()
			out = append(out, fmt.Sprintf("%x %.160q", sha1.Sum([]byte(res)), res))
		}
		b, _ := json.Marshal(out)
		os.Stdout.Write(b)
		return 0
	}
}

var (
	freshMu    sync.Mutex
	freshAlone = map[int]string{}
)

func runFresh(idx []int) ([]string, error) {
	self, err := os.Executable()
	if err != nil {
		return nil, err
	}
	args := []string{"c20seq"}
	for _, i := range idx {
		args = append(args, strconv.Itoa(i))
	}
	cmd := exec.Command(self, args...)
	cmd.Env = append(os.Environ(), "GOMAXPROCS=1")
	b, err := cmd.Output()
	if err != nil {
		msg := ""
		if ee, ok := err.(*exec.ExitError); ok {
			msg = string(ee.Stderr)
			if len(msg) > 600 {
				msg = msg[:600]
			}
		}
		return nil, fmt.Errorf("%v: %s", err, msg)
	}
	var out []string
	if err := json.Unmarshal(b, &out); err != nil {
		return nil, err
	}
	return out, nil
}

func freshHistory(r *fw.R, idx []int) {
	probe := idx[len(idx)-1]
	if Bodies[probe].Relative {
		return
	}
	freshMu.Lock()
	want, ok := freshAlone[probe]
	freshMu.Unlock()
	if !ok {
		res, err := runFresh([]int{probe})
		if err != nil {
			r.Violate("panic-in-history", fmt.Sprintf("%s alone in a fresh process: %v", Bodies[probe].Name, err))
			return
		}
		want = res[0]
		freshMu.Lock()
		freshAlone[probe] = want
		freshMu.Unlock()
	}
	res, err := runFresh(idx)
	r.States++
	r.Transitions += int64(len(idx))
	r.Validated++
	if err != nil {
		r.Violate("panic-in-history", fmt.Sprintf("history in a fresh process: %v", err))
		return
	}
	got := res[len(res)-1]
	if strings.Contains(got, "nondeterministic") {
		r.Violate("nondeterministic-output", fmt.Sprintf("%s: %s", Bodies[probe].Name, got))
		return
	}
	if got != want {
		r.Violate("probe-differs-after-history", fmt.Sprintf("%s returned %s after the history (in a fresh process), alone in a fresh process it returns %s", Bodies[probe].Name, got, want))
		return
	}
	r.NontrivialIdx()
	r.Outcome("fresh-process-history-equal")
}

// freshHistories: every sequence of up to depth calls from the menu of stateful-looking bodies
// (renderers, text layout with the shared font, curved geometry) followed by a probe.
func freshHistories(tier string) [][]int {
	depth := 1
	if tier == "thorough" {
		depth = 2
	}
	var menu []int
	for i, b := range Bodies {
		if b.Relative || b.Heavy {
			continue
		}
		if i >= FirstRenderBody || b.Hist || b.Name == "NewTextBox(shared font)" || b.Name == "rasterizer.Draw" {
			menu = append(menu, i)
		}
	}
	var out [][]int
	var rec func(prefix []int)
	rec = func(prefix []int) {
		if len(prefix) >= 1 {
			for _, probe := range menu {
				out = append(out, append(append([]int{}, prefix...), probe))
			}
		}
		if len(prefix) == depth {
			return
		}
		for _, d := range menu {
			rec(append(append([]int{}, prefix...), d))
		}
	}
	rec(nil)
	return out
}
