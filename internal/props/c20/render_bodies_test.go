package c20

import (
	"testing"
	"time"
)

// the digests must not depend on the wall clock: same call across two different seconds
func TestDigestsStableAcrossSeconds(t *testing.T) {
	first := make([]string, len(RenderBodies))
	for i, b := range RenderBodies {
		first[i] = b.Run()
	}
	time.Sleep(1100 * time.Millisecond)
	for i, b := range RenderBodies {
		if got := b.Run(); got != first[i] {
			t.Errorf("%s: %s then %s", b.Name, first[i], got)
		}
	}
}
