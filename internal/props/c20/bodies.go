// Package c20: concurrent use on independent objects is race-free and deterministic.
package c20

import (
	"crypto/sha1"
	"fmt"
	"image/color"
	"math"
	"os"
	"strings"
	"sync"

	"github.com/tdewolff/canvas"
	"github.com/tdewolff/canvas/renderers/rasterizer"
	"github.com/tdewolff/canvas/text"
	"github.com/tdewolff/font"

	"verif/internal/cv"
	"verif/internal/oracle"
)

// Body is one library call on its own fresh inputs; it returns a canonical rendering of the result.
type Body struct {
	Name string
	Run  func() string
	// Relative: the result depends on a process-wide counter by design (font names f<k>); the
	// oracle then compares sets of results with what sequential calls produce.
	Relative bool
	// Heavy: many library calls in one body; the free-running pass runs it in every eighth round only
	Heavy bool
	// Hist: also used as a history step and probe of the sequential renderer-histories family
	Hist bool
}

func pts(xy ...float64) []oracle.Pt {
	var out []oracle.Pt
	for i := 0; i+1 < len(xy); i += 2 {
		out = append(out, oracle.Pt{X: xy[i], Y: xy[i+1]})
	}
	return out
}

var (
	triA   = oracle.ClosedData(pts(0, 0, 3, 0, 1, 3))
	triB   = oracle.ClosedData(pts(1, 1, 4, 2, 0, 2))
	bowtie = oracle.ClosedData(pts(0, 0, 2, 2, 2, 0, 0, 2))
	sqHole = oracle.ClosedData(pts(0, 0, 4, 0, 4, 4, 0, 4), pts(1, 1, 1, 3, 3, 3, 3, 1))
	bar    = oracle.ClosedData(pts(0, 1, 5, 1, 5, 2, 0, 2))
	vert2  = oracle.ClosedData(pts(1, 0, 1, 3, 2, 3, 2, 0), pts(1, 1, 1, 2, 3, 2, 3, 1)) // overlapping vertical segments
	zigzag = oracle.OpenData(pts(0, 0, 2, 0, 0, 2))
	// edges shorter than the 1e-8 snap grid: they collapse inside the sweep and are returned to the pool early
	tiny = oracle.ClosedData(pts(0, 0, 3, 0, 3, 4e-9, 1, 3, 4e-9, 3e-9))
)

// star returns the self-intersecting star polygon {n/k} of radius r around (cx,cy), rotated by rot.
func star(n, k int, cx, cy, r, rot float64) []float64 {
	var c []oracle.Pt
	for i := 0; i < n; i++ {
		a := rot + 2*math.Pi*float64((i*k)%n)/float64(n)
		c = append(c, oracle.Pt{X: cx + r*math.Cos(a), Y: cy + r*math.Sin(a)})
	}
	return oracle.ClosedData(c)
}

var (
	fontOnce    sync.Once
	nonameBytes []byte
	sharedFace  *canvas.FontFace
	sharedSmall *canvas.FontFace // the same font object at another size
	sharedFam   *canvas.FontFamily
)

// faceDump: which font and which faux styles a face got, and a text laid out with it
func faceDump(face *canvas.FontFace, s string) string {
	return fmt.Sprintf("%s style=%v variant=%v fauxbold=%g fauxitalic=%g size=%g %s", face.Font.Name(), face.Style, face.Variant, face.FauxBold, face.FauxItalic, face.Size, textDumpGlyphs(canvas.NewTextLine(face, s, canvas.Left)))
}

func repoDir() string {
	if d := os.Getenv("VERIF_REPO"); d != "" {
		return d
	}
	return "/repo"
}

func loadFonts() {
	fontOnce.Do(func() {
		b, err := os.ReadFile(repoDir() + "/resources/DejaVuSerif.ttf")
		if err != nil {
			panic(err)
		}
		sfnt, err := font.ParseSFNT(b, 0)
		if err != nil {
			panic(err)
		}
		// a name table without records: format 0, count 0, stringOffset 6
		sfnt.Tables["name"] = []byte{0, 0, 0, 0, 0, 6}
		nonameBytes = sfnt.Write()
		fam := canvas.NewFontFamily("dejavu")
		if err := fam.LoadFont(b, 0, canvas.FontRegular); err != nil {
			panic(err)
		}
		sharedFam = fam
		sharedFace = fam.Face(12.0, canvas.Black, canvas.FontRegular, canvas.FontNormal)
		sharedSmall = fam.Face(7.0, canvas.Black, canvas.FontRegular, canvas.FontNormal)
	})
}

func textDump(t *canvas.Text) string {
	var sb strings.Builder
	t.WalkSpans(func(x, y float64, span canvas.TextSpan) {
		fmt.Fprintf(&sb, "(%.9g,%.9g,%.9g,%q)", x, y, span.Width, span.Text)
	})
	return sb.String()
}

// textDumpGlyphs also lists the glyphs of every span (ids, advances, offsets).
func textDumpGlyphs(t *canvas.Text) string {
	var sb strings.Builder
	t.WalkSpans(func(x, y float64, span canvas.TextSpan) {
		fmt.Fprintf(&sb, "(%.9g,%.9g,%.9g,%q", x, y, span.Width, span.Text)
		for _, g := range span.Glyphs {
			fmt.Fprintf(&sb, " %d:%d,%d,%d,%d", g.ID, g.XAdvance, g.YAdvance, g.XOffset, g.YOffset)
		}
		sb.WriteString(")")
	})
	return sb.String()
}

// Bodies is the menu; the first PoolUsers entries use the sweep-line pools.
// drawGamma: an opaque and a translucent fill rasterized in a gamma colour space.
func drawGamma(g float64) string {
	c := canvas.New(6, 6)
	ctx := canvas.NewContext(c)
	ctx.SetFillColor(color.RGBA{200, 90, 30, 255})
	ctx.DrawPath(1, 1, cv.Path(bowtie))
	ctx.SetFillColor(color.RGBA{20, 60, 100, 128})
	ctx.DrawPath(2, 1, cv.Path(triA))
	img := rasterizer.Draw(c, canvas.DPMM(4), canvas.GammaColorSpace{Gamma: g})
	return fmt.Sprintf("%x", sha1.Sum(img.Pix))
}

// shapeDump: the shaped glyphs and widths of two strings for one face.
func shapeDump(f *canvas.FontFace) string {
	s := ""
	for _, str := range []string{"fi Vav", "To"} {
		for _, g := range f.Glyphs(str) {
			s += fmt.Sprintf("[%d %d %d %d %d]", g.ID, g.XAdvance, g.YAdvance, g.XOffset, g.YOffset)
		}
		s += fmt.Sprintf("|%.9g;", f.TextWidth(str))
	}
	return s
}

var Bodies = []Body{
	{Name: "And(triA,triB)", Run: func() string { return cv.Path(triA).And(cv.Path(triB)).String() }},
	{Name: "Or(bowtie,triB)", Run: func() string { return cv.Path(bowtie).Or(cv.Path(triB)).String() }},
	{Name: "Settle(bowtie,EvenOdd)", Run: func() string { return cv.Path(bowtie).Settle(canvas.EvenOdd).String() }},
	{Name: "DivideBy(sqHole,bar)", Run: func() string { return cv.Path(sqHole).DivideBy(cv.Path(bar)).String() }},
	{Name: "Xor(vert2,triA)", Run: func() string { return cv.Path(vert2).Xor(cv.Path(triA)).String() }},
	{Name: "And(tiny-edges,triB)", Run: func() string { return cv.Path(tiny).And(cv.Path(triB)).String() }},
	{Name: "Xor(star{7/3},star{7/3} shifted)", Run: func() string {
		return cv.Path(star(7, 3, 0, 0, 5, 0.1)).Xor(cv.Path(star(7, 3, 0.7, 0.4, 5, 0.35))).String()
	}},
	{Name: "Settle(star{9/4},EvenOdd)", Run: func() string { return cv.Path(star(9, 4, 1, 1, 4, 0.2)).Settle(canvas.EvenOdd).String() }},
	{Name: "Xor(star{5/2},star{5/2} shifted)", Run: func() string {
		return cv.Path(star(5, 2, 0, 0, 5, 0.1)).Xor(cv.Path(star(5, 2, 0.7, 0.4, 5, 0.35))).String()
	}},
	{Name: "Not(star{7/3},star{7/3} shifted)", Run: func() string {
		return cv.Path(star(7, 3, 0, 0, 5, 0.1)).Not(cv.Path(star(7, 3, 0.7, 0.4, 5, 0.35))).String()
	}},
	{Name: "Xor(star{11/4},star{11/4} shifted)", Run: func() string {
		return cv.Path(star(11, 4, 0, 0, 5, 0.1)).Xor(cv.Path(star(11, 4, 0.7, 0.4, 5, 0.35))).String()
	}},
	{Name: "Stroke(zigzag)", Run: func() string {
		return cv.Path(zigzag).Stroke(0.5, canvas.RoundCap, canvas.RoundJoin, 0.1).String()
	}},
	{Name: "LoadFont(noname)", Relative: true, Run: func() string {
		loadFonts()
		f, err := canvas.LoadFont(nonameBytes, 0, canvas.FontRegular)
		if err != nil {
			return "error: " + err.Error()
		}
		return f.Name()
	}},
	{Name: "NewTextBox(shared font)", Run: func() string {
		loadFonts()
		return textDump(canvas.NewTextBox(sharedFace, "fi Vav-e a­b", 14, 0, canvas.Justify, canvas.Top, 0, 0))
	}},
	// the same string laid out in other ways with the same loaded font (anything remembered per font
	// must be keyed by everything that decides the result)
	{Name: "RichText VerticalRL upright (shared font, same string)", Hist: true, Run: func() string {
		loadFonts()
		rt := canvas.NewRichText(sharedFace)
		rt.SetWritingMode(canvas.VerticalRL)
		rt.SetTextOrientation(canvas.Upright)
		rt.WriteString("fi Vav-e a­b")
		return textDumpGlyphs(rt.ToText(0, 40, canvas.Left, canvas.Top, 0, 0))
	}},
	{Name: "RichText VerticalLR natural (shared font, same string)", Hist: true, Run: func() string {
		loadFonts()
		rt := canvas.NewRichText(sharedFace)
		rt.SetWritingMode(canvas.VerticalLR)
		rt.WriteString("fi Vav-e a­b")
		return textDumpGlyphs(rt.ToText(0, 40, canvas.Left, canvas.Top, 0, 0))
	}},
	{Name: "NewTextLine+Glyphs+ToPath (shared font, same string, 7pt)", Hist: true, Run: func() string {
		loadFonts()
		s := textDumpGlyphs(canvas.NewTextLine(sharedSmall, "fi Vav-e a­b", canvas.Right))
		for _, g := range sharedSmall.Glyphs("fi Vav-e a­b") {
			s += fmt.Sprintf("[%d %d %d %d %d]", g.ID, g.XAdvance, g.YAdvance, g.XOffset, g.YOffset)
		}
		p, w, err := sharedSmall.ToPath("fi Vav")
		return s + fmt.Sprintf("|%v %.9g %v", p, w, err)
	}},
	{Name: "NewTextBox(shared font, same string, left, narrow)", Hist: true, Run: func() string {
		loadFonts()
		return textDumpGlyphs(canvas.NewTextBox(sharedFace, "fi Vav-e a­b", 9, 0, canvas.Left, canvas.Top, 0, 0))
	}},
	// faces that share the loaded font and differ in their shaping options (anything remembered per
	// font must be keyed by language, script and direction too)
	{Name: "shared font: Glyphs+TextWidth, default shaping options (same strings)", Hist: true, Run: func() string {
		loadFonts()
		f := *sharedFace
		return shapeDump(&f)
	}},
	{Name: "shared font: Glyphs+TextWidth with Language=tr (same strings)", Hist: true, Run: func() string {
		loadFonts()
		f := *sharedFace
		f.Language = "tr"
		return shapeDump(&f)
	}},
	{Name: "shared font: Glyphs+TextWidth with Direction=RightToLeft (same strings)", Hist: true, Run: func() string {
		loadFonts()
		f := *sharedFace
		f.Direction = text.RightToLeft
		return shapeDump(&f)
	}},
	// faces of styles that the shared family has not loaded (the closest font plus faux styles)
	{Name: "shared family: Face(FontBlack) + NewTextLine", Hist: true, Run: func() string {
		loadFonts()
		return faceDump(sharedFam.Face(10, canvas.Black, canvas.FontBlack, canvas.FontNormal), "fi Vav")
	}},
	{Name: "shared family: Face(FontBlack, FontSubscript) + NewTextLine", Hist: true, Run: func() string {
		loadFonts()
		return faceDump(sharedFam.Face(10, canvas.Black, canvas.FontBlack, canvas.FontSubscript), "fi Vav")
	}},
	{Name: "shared family: Face(FontBold|FontItalic, FontSuperscript) + NewTextLine", Hist: true, Run: func() string {
		loadFonts()
		return faceDump(sharedFam.Face(10, canvas.Black, canvas.FontBold|canvas.FontItalic, canvas.FontSuperscript), "fi Vav")
	}},
	{Name: "shared family: Face(FontBold|FontItalic) + NewTextLine", Hist: true, Run: func() string {
		loadFonts()
		return faceDump(sharedFam.Face(10, canvas.Black, canvas.FontBold|canvas.FontItalic, canvas.FontNormal), "fi Vav")
	}},
	{Name: "rasterizer.Draw", Run: func() string {
		c := canvas.New(6, 6)
		ctx := canvas.NewContext(c)
		ctx.SetFillColor(color.RGBA{200, 0, 0, 255})
		ctx.DrawPath(1, 1, cv.Path(bowtie))
		img := rasterizer.Draw(c, canvas.DPMM(4), canvas.LinearColorSpace{})
		return fmt.Sprintf("%x", sha1.Sum(img.Pix))
	}},
	// rasterizations in colour spaces with different parameters (anything tabulated per colour space
	// must be keyed by its parameters)
	{Name: "rasterizer.Draw GammaColorSpace(1.43)", Hist: true, Run: func() string { return drawGamma(1.43) }},
	{Name: "rasterizer.Draw GammaColorSpace(2.2)", Hist: true, Run: func() string { return drawGamma(2.2) }},
	{Name: "rasterizer.Draw SRGBColorSpace", Hist: true, Run: func() string {
		c := canvas.New(6, 6)
		ctx := canvas.NewContext(c)
		ctx.SetFillColor(color.RGBA{200, 90, 30, 255})
		ctx.DrawPath(1, 1, cv.Path(bowtie))
		img := rasterizer.Draw(c, canvas.DPMM(4), canvas.SRGBColorSpace{})
		return fmt.Sprintf("%x", sha1.Sum(img.Pix))
	}},
	{Name: "Flatten+Dash(curve)", Run: func() string {
		p := canvas.MustParseSVGPath("M0 0C1 2 3 -2 4 0A2 1 30 0 1 6 2")
		return p.Flatten(0.01).Dash(0.3, 1, 0.5).String()
	}},
	{Name: "Offset(triA)", Run: func() string { return cv.Path(triA).Offset(0.3, 0.01).String() }},
	// curved inputs: every curve type through the flattening, arc conversion, offsetting, dashing and
	// length code (package-level scratch space or caches there are shared by all goroutines)
	{Name: "Flatten+ReplaceArcs+XMonotone(elliptical arcs)", Hist: true, Run: func() string {
		p := canvas.MustParseSVGPath("M0 0A3 1 30 1 1 2 2A2 1 0 0 0 5 1Q6 3 7 1C8 -1 9 3 10 1z")
		return p.Flatten(0.01).String() + "|" + p.ReplaceArcs().String() + "|" + p.XMonotone().String()
	}},
	{Name: "Stroke(curves; miter, arcs, bevel joins; square, butt caps)", Hist: true, Run: func() string {
		p := canvas.MustParseSVGPath("M0 0Q2 3 4 0C5 -2 7 2 8 0A2 1 20 0 1 10 3L12 0")
		return p.Stroke(0.6, canvas.SquareCap, canvas.MiterJoin, 0.01).String() + "|" +
			p.Stroke(0.4, canvas.ButtCap, canvas.ArcsJoin, 0.01).String() + "|" +
			p.Stroke(0.5, canvas.RoundCap, canvas.BevelJoin, 0.01).String()
	}},
	{Name: "Offset(ellipse, rounded rectangle)", Hist: true, Run: func() string {
		return canvas.Ellipse(3, 1.5).Offset(0.4, 0.01).String() + "|" + canvas.RoundedRectangle(5, 3, 0.8).Offset(-0.3, 0.01).String()
	}},
	{Name: "Dash+SplitAt+Length(arcs and Beziers)", Hist: true, Run: func() string {
		p := canvas.MustParseSVGPath("M0 0C1 2 3 -2 4 0A2 1 30 1 1 6 2Q7 4 8 2z")
		s := p.Dash(0.3, 1, 0.5, 0.2).String()
		for _, q := range p.SplitAt(1.5, 4.25, 9) {
			s += "|" + q.String()
		}
		return s + fmt.Sprintf("|%.12g", p.Length())
	}},
	{Name: "And/Or/Settle(circle, rotated ellipse)", Hist: true, Run: func() string {
		a := canvas.Circle(2)
		b := canvas.Ellipse(3, 1).Transform(canvas.Identity.Translate(1, 0.5).Rotate(30))
		return a.And(b).String() + "|" + a.Or(b).String() + "|" + a.Append(b).Settle(canvas.EvenOdd).String()
	}},
	// one inflected cubic flattened and stroked at a coarse and at a fine tolerance (two bodies): whatever
	// a call remembers about a curve must not depend on the tolerance of the call before
	{Name: "Flatten+Stroke(inflected cubic, tolerance 5)", Hist: true, Run: func() string {
		p := canvas.MustParseSVGPath("M0 0C10 20 20 -20 30 0")
		return p.Flatten(5).String() + "|" + p.Stroke(2, canvas.RoundCap, canvas.RoundJoin, 5).String()
	}},
	{Name: "Flatten+Stroke(the same inflected cubic, tolerance 0.01)", Hist: true, Run: func() string {
		p := canvas.MustParseSVGPath("M0 0C10 20 20 -20 30 0")
		return p.Flatten(0.01).String() + "|" + p.Stroke(2, canvas.RoundCap, canvas.RoundJoin, 0.01).String()
	}},
	// the line breaker itself, on item lists of its own: a paragraph that cannot be broken within
	// text.Tolerance (six words of 10 in a column of 26: the breaker has to raise its tolerance for this
	// paragraph) and one with exactly one breaking within the tolerance and a cheaper one just above
	// it (ratio 2.1) - whatever a call keeps of its raised tolerance shows in the next paragraph
	{Name: "text.Linebreak(paragraph not breakable within Tolerance)", Hist: true, Run: func() string {
		var items []text.Item
		for i := 0; i < 6; i++ {
			if 0 < i {
				items = append(items, text.Glue(2.0, 1.0, 0.5))
			}
			items = append(items, text.Box(10.0))
		}
		items = append(items, text.Glue(0.0, math.Inf(1.0), 0.0), text.Penalty(0.0, -text.Infinity, false))
		return linebreakDump(items, 26.0)
	}},
	{Name: "text.Linebreak(paragraph with a cheaper breaking just above Tolerance)", Hist: true, Run: func() string {
		items := []text.Item{
			text.Box(13.0), text.Glue(2.0, 1.0, 1.0), text.Box(12.9), text.Glue(2.0, 1.0, 1.0), text.Box(0.9), text.Penalty(0.0, 990.0, false), text.Box(10.0),
			text.Glue(0.0, math.Inf(1.0), 0.0), text.Penalty(0.0, -text.Infinity, false),
		}
		return linebreakDump(items, 30.0)
	}},
}

func linebreakDump(items []text.Item, width float64) string {
	breaks, ok := text.Linebreak(items, width, 0)
	s := fmt.Sprintf("fits=%v", ok)
	for _, b := range breaks {
		s += fmt.Sprintf("|%d:%.9g", b.Position, b.Ratio)
	}
	return s
}

// PoolUsers is the number of leading bodies that go through the sweep-line pools.
const PoolUsers = 12
