package c20

import (
	"bytes"
	"crypto/sha1"
	"encoding/base64"
	"encoding/binary"
	"fmt"
	"image"
	"image/color"
	"regexp"
	"sort"
	"strings"
	"sync"

	"github.com/tdewolff/canvas"
	"github.com/tdewolff/canvas/renderers"
	"github.com/tdewolff/canvas/renderers/pdf"
	"github.com/tdewolff/canvas/renderers/ps"
	"github.com/tdewolff/canvas/renderers/svg"

	"verif/internal/cv"
	"verif/internal/pdfread"
)

// Renderer bodies: every call builds its own canvas (a path, a raster image, optionally a text
// line in the shared font) and its own document; "configuring" bodies change a setting of THEIR
// document first. The result is a digest of the bytes written (creation dates removed) together
// with the facts a reader would notice first (image filter, number of fonts).

func demoCanvas(text bool) *canvas.Canvas {
	c := canvas.New(20, 12)
	ctx := canvas.NewContext(c)
	ctx.SetFillColor(color.RGBA{200, 0, 0, 255})
	ctx.DrawPath(1, 1, cv.Path(bowtie))
	img := image.NewRGBA(image.Rect(0, 0, 3, 2))
	for i := 0; i < 6; i++ {
		img.SetRGBA(i%3, i/3, color.RGBA{uint8(40 * i), uint8(255 - 40*i), uint8(90 + 20*i), 255})
	}
	ctx.DrawImage(8, 2, img, canvas.DPMM(0.5))
	if text {
		loadFonts()
		ctx.DrawText(2, 9, canvas.NewTextLine(sharedFace, "fi Vav", canvas.Left))
	}
	return c
}

var dateRe = regexp.MustCompile(`(/CreationDate\s*\([^)]*\)|%%CreationDate:[^\n]*)`)

var fontDataRe = regexp.MustCompile(`data:type/opentype;base64,[A-Za-z0-9+/=]*`)

// digest: PDF files are digested object by object on their decoded streams, with the two places
// that carry the wall clock removed (Info/CreationDate, and the created/modified/checksum fields
// of the head table of an embedded font program, which the font subsetter stamps with the current
// second); everything else is digested as bytes, dates removed.
func digest(b []byte) string {
	facts := ""
	for _, f := range []string{"/DCTDecode", "/FlateDecode", "image/jpeg", "image/png", "/FontFile", "@font-face"} {
		facts += fmt.Sprintf(" %s=%d", f, bytes.Count(b, []byte(f)))
	}
	if bytes.HasPrefix(b, []byte("%PDF-")) {
		if doc, err := pdfread.Parse(b); err == nil {
			var nums []int
			for n := range doc.Objects {
				nums = append(nums, n)
			}
			sort.Ints(nums)
			var sb strings.Builder
			for _, n := range nums {
				fmt.Fprintf(&sb, "%d:", n)
				canon(doc.Objects[n].Value, &sb)
				sb.WriteByte('\n')
			}
			canon(doc.Trailer, &sb)
			return fmt.Sprintf("pdf %d objects %x%s", len(nums), sha1.Sum([]byte(sb.String())), facts)
		}
	}
	b = dateRe.ReplaceAll(b, nil)
	b = fontDataRe.ReplaceAllFunc(b, func(m []byte) []byte {
		enc := m[len("data:type/opentype;base64,"):]
		if prog, err := base64.StdEncoding.DecodeString(string(enc)); err == nil {
			return []byte(fmt.Sprintf("data:type/opentype;sha1,%x", sha1.Sum(withoutFontClock(prog))))
		}
		return m
	})
	return fmt.Sprintf("%d bytes %x%s", len(b), sha1.Sum(b), facts)
}

func canon(o pdfread.Object, sb *strings.Builder) {
	switch v := o.(type) {
	case pdfread.Dict:
		var keys []string
		for k := range v {
			if k != "CreationDate" && k != "Length" {
				keys = append(keys, string(k))
			}
		}
		sort.Strings(keys)
		sb.WriteString("<<")
		for _, k := range keys {
			sb.WriteString("/" + k + " ")
			canon(v[pdfread.Name(k)], sb)
		}
		sb.WriteString(">>")
	case pdfread.Array:
		sb.WriteString("[")
		for _, e := range v {
			canon(e, sb)
			sb.WriteString(" ")
		}
		sb.WriteString("]")
	case *pdfread.Stream:
		canon(v.Dict, sb)
		data, err := v.Decode()
		if err != nil {
			data = v.Raw
		}
		fmt.Fprintf(sb, "stream %d %x", len(data), sha1.Sum(withoutFontClock(data)))
	case pdfread.String:
		fmt.Fprintf(sb, "(%q)", string(v.B))
	default:
		sb.WriteString(pdfread.Fmt(o))
	}
}

// withoutFontClock zeroes head.checkSumAdjustment, head.created, head.modified and the directory
// checksum of the head table when data is an sfnt font program.
func withoutFontClock(data []byte) []byte {
	if len(data) < 12 || !(bytes.HasPrefix(data, []byte{0, 1, 0, 0}) || bytes.HasPrefix(data, []byte("OTTO")) || bytes.HasPrefix(data, []byte("true"))) {
		return data
	}
	n := int(binary.BigEndian.Uint16(data[4:]))
	out := append([]byte(nil), data...)
	for i := 0; i < n && 12+16*i+16 <= len(out); i++ {
		rec := out[12+16*i:]
		if string(rec[:4]) == "head" {
			off, length := int(binary.BigEndian.Uint32(rec[8:])), int(binary.BigEndian.Uint32(rec[12:]))
			copy(rec[4:8], []byte{0, 0, 0, 0})
			if length >= 36 && off+36 <= len(out) {
				copy(out[off+8:off+12], make([]byte, 4))
				copy(out[off+20:off+36], make([]byte, 16))
			}
		}
	}
	return out
}

func renderPDF(text bool, configure func(*pdf.PDF)) string {
	var buf bytes.Buffer
	c := demoCanvas(text)
	r := pdf.New(&buf, c.W, c.H, nil)
	if configure != nil {
		configure(r)
	}
	c.RenderTo(r)
	if err := r.Close(); err != nil {
		return "error: " + err.Error()
	}
	return digest(buf.Bytes())
}

func renderSVG(text bool, configure func(*svg.SVG)) string {
	var buf bytes.Buffer
	c := demoCanvas(text)
	r := svg.New(&buf, c.W, c.H, nil)
	if configure != nil {
		configure(r)
	}
	c.RenderTo(r)
	if err := r.Close(); err != nil {
		return "error: " + err.Error()
	}
	return digest(buf.Bytes())
}

func renderPS(configure func(*ps.PS)) string {
	var buf bytes.Buffer
	c := demoCanvas(false)
	r := ps.New(&buf, c.W, c.H, nil)
	if configure != nil {
		configure(r)
	}
	c.RenderTo(r)
	if err := r.Close(); err != nil {
		return "error: " + err.Error()
	}
	return digest(buf.Bytes())
}

func writeWith(w canvas.Writer, text bool) string {
	var buf bytes.Buffer
	if err := w(&buf, demoCanvas(text)); err != nil {
		return "error: " + err.Error()
	}
	return digest(buf.Bytes())
}

var (
	familyOnce sync.Once
	twoFaces   [2]*canvas.FontFace
)

// loadFamily loads two different font files as the regular and the bold face of ONE family (both
// font objects then carry the family's name).
func loadFamily() {
	familyOnce.Do(func() {
		fam := canvas.NewFontFamily("serif")
		if err := fam.LoadFontFile(repoDir()+"/resources/DejaVuSerif.ttf", canvas.FontRegular); err != nil {
			panic(err)
		}
		if err := fam.LoadFontFile(repoDir()+"/resources/EBGaramond12-Regular.otf", canvas.FontBold); err != nil {
			panic(err)
		}
		twoFaces[0] = fam.Face(10, canvas.Black, canvas.FontRegular, canvas.FontNormal)
		twoFaces[1] = fam.Face(10, canvas.Black, canvas.FontBold, canvas.FontNormal)
	})
}

var sharedPattern = []float64{0, 2, 3, 1}
var sharedPattern2 = []float64{3, 1, 0}

func digestCanvas(c *canvas.Canvas) string {
	var buf bytes.Buffer
	if err := renderers.PNG(canvas.DPMM(4))(&buf, c); err != nil {
		return "error: " + err.Error()
	}
	return digest(buf.Bytes())
}

// RenderBodies is appended to Bodies; FirstRenderBody is the index of its first entry.
var RenderBodies = []Body{
	{Name: "pdf.New(nil options): path, image, text", Run: func() string { return renderPDF(true, nil) }},
	{Name: "pdf.New(nil options).SetImageEncoding(Lossy): path, image", Run: func() string {
		return renderPDF(false, func(r *pdf.PDF) { r.SetImageEncoding(canvas.Lossy) })
	}},
	{Name: "pdf.New(nil options).SetInfo+SetLang: path, image", Run: func() string {
		return renderPDF(false, func(r *pdf.PDF) { r.SetInfo("t", "s", "k", "a", "c"); r.SetLang("nl") })
	}},
	{Name: "svg.New(nil options): path, image, text", Run: func() string { return renderSVG(true, nil) }},
	{Name: "svg.New(nil options).SetImageEncoding(Lossy): path, image", Run: func() string {
		return renderSVG(false, func(r *svg.SVG) { r.SetImageEncoding(canvas.Lossy) })
	}},
	{Name: "svg.New(nil options).SetClass+SetCustomStyle: path, image", Run: func() string {
		return renderSVG(false, func(r *svg.SVG) { r.SetClass("a", "b"); r.SetCustomStyle(".a{fill:blue}") })
	}},
	{Name: "ps.New(nil options): path, image", Run: func() string { return renderPS(nil) }},
	{Name: "renderers.PDF(): path, image, text", Run: func() string { return writeWith(renderers.PDF(), true) }},
	{Name: "renderers.PDF(&pdf.Options{lossy, uncompressed}): path, image", Run: func() string {
		return writeWith(renderers.PDF(&pdf.Options{Compress: false, SubsetFonts: true, ImageEncoding: canvas.Lossy}), false)
	}},
	{Name: "renderers.SVG(): path, image", Run: func() string { return writeWith(renderers.SVG(), false) }},
	{Name: "renderers.SVG(&svg.Options{lossy, px}): path, image", Run: func() string {
		return writeWith(renderers.SVG(&svg.Options{EmbedFonts: true, SizeUnits: "px", ImageEncoding: canvas.Lossy}), false)
	}},
	{Name: "renderers.SVG(&svg.Options{subset fonts}): path, image, text", Run: func() string {
		return writeWith(renderers.SVG(&svg.Options{EmbedFonts: true, SubsetFonts: true, SizeUnits: "mm", ImageEncoding: canvas.Lossless}), true)
	}},
	{Name: "renderers.PDF(&pdf.Options{no subsetting}): path, image, text", Run: func() string {
		return writeWith(renderers.PDF(&pdf.Options{Compress: true, SubsetFonts: false, ImageEncoding: canvas.Lossless}), true)
	}},
	{Name: "shared font object: NumGlyphs, table sizes, ToPath", Run: func() string {
		loadFonts()
		sfnt := sharedFace.Font.SFNT
		p, adv, err := sharedFace.ToPath("fi Vav")
		var tables []string
		for tag, b := range sfnt.Tables {
			tables = append(tables, fmt.Sprintf("%s:%d:%x", tag, len(b), sha1.Sum(b)))
		}
		sort.Strings(tables)
		return fmt.Sprintf("numGlyphs=%d maxp=%d advance=%v err=%v path=%x tables=%x", sfnt.NumGlyphs(), sfnt.Maxp.NumGlyphs, adv, err, sha1.Sum([]byte(p.String())), sha1.Sum([]byte(strings.Join(tables, " "))))
	}},
	{Name: "pdf: regular and bold face of one family in one document, rendered 64 times", Heavy: true, Run: func() string {
		// two font objects with the same name in one document: the bytes must not depend on the
		// iteration order of a map (every rendering must give the same digest)
		loadFamily()
		seen := map[string]bool{}
		for k := 0; k < 64; k++ {
			c := canvas.New(30, 12)
			ctx := canvas.NewContext(c)
			ctx.DrawText(2, 9, canvas.NewTextLine(twoFaces[0], "fi Vav", canvas.Left))
			ctx.DrawText(2, 4, canvas.NewTextLine(twoFaces[1], "bold Vav", canvas.Left))
			var buf bytes.Buffer
			if err := renderers.PDF()(&buf, c); err != nil {
				return "error: " + err.Error()
			}
			seen[digest(buf.Bytes())] = true
		}
		if len(seen) != 1 {
			// judged by the body itself: run-alone and after-history results would both vary
			return fmt.Sprintf("nondeterministic: %d distinct outputs in 64 renderings of the same drawing", len(seen))
		}
		for d := range seen {
			return "1 output in 64 renderings: " + d
		}
		return ""
	}},
	{Name: "svg: regular and bold face of one family in one document, rendered 64 times", Heavy: true, Run: func() string {
		// two fonts embedded in one SVG document: the bytes must not depend on a map's iteration order
		loadFamily()
		seen := map[string]bool{}
		for k := 0; k < 64; k++ {
			c := canvas.New(30, 12)
			ctx := canvas.NewContext(c)
			ctx.DrawText(2, 9, canvas.NewTextLine(twoFaces[0], "fi Vav", canvas.Left))
			ctx.DrawText(2, 4, canvas.NewTextLine(twoFaces[1], "bold Vav", canvas.Left))
			var buf bytes.Buffer
			if err := renderers.SVG(&svg.Options{EmbedFonts: true, SubsetFonts: true})(&buf, c); err != nil {
				return "error: " + err.Error()
			}
			seen[digest(buf.Bytes())] = true
		}
		if len(seen) != 1 {
			return fmt.Sprintf("nondeterministic: %d distinct outputs in 64 renderings of the same drawing", len(seen))
		}
		for d := range seen {
			return "1 output in 64 renderings: " + d
		}
		return ""
	}},
	{Name: "FontFamily.Face(Regular) of a family with the Light and the Medium style loaded, 64 times", Run: func() string {
		// the requested style is not loaded and two loaded styles are equally close: the choice (and
		// with it the faux weight of the face) must be the same every time
		fam := canvas.NewFontFamily("tie")
		if err := fam.LoadFontFile(repoDir()+"/resources/DejaVuSerif.ttf", canvas.FontLight); err != nil {
			panic(err)
		}
		if err := fam.LoadFontFile(repoDir()+"/resources/EBGaramond12-Regular.otf", canvas.FontMedium); err != nil {
			panic(err)
		}
		seen := map[string]bool{}
		for k := 0; k < 64; k++ {
			face := fam.Face(10, canvas.Black, canvas.FontRegular, canvas.FontNormal)
			seen[fmt.Sprintf("%s fauxbold=%g %s", face.Font.Name(), face.FauxBold, textDumpGlyphs(canvas.NewTextLine(face, "fi Vav", canvas.Left)))] = true
		}
		if len(seen) != 1 {
			return fmt.Sprintf("nondeterministic: %d distinct faces and layouts in 64 identical calls", len(seen))
		}
		for d := range seen {
			return "1 result in 64 calls: " + d
		}
		return ""
	}},
	{Name: "Dash(own line, shared pattern [0 2 3 1])", Run: func() string {
		// a dash pattern is an argument that callers share between calls (like canvas.Dashed)
		return canvas.MustParseSVGPath("M0 0L40 0").Dash(0.5, sharedPattern...).String() + fmt.Sprint(sharedPattern)
	}},
	{Name: "Context.SetDashes(shared pattern [3 1 0]) + rasterizer", Run: func() string {
		c := canvas.New(12, 4)
		ctx := canvas.NewContext(c)
		ctx.SetStrokeColor(color.RGBA{0, 0, 200, 255})
		ctx.SetStrokeWidth(0.5)
		ctx.SetDashes(0, sharedPattern2...)
		ctx.MoveTo(1, 2)
		ctx.LineTo(11, 2)
		ctx.Stroke()
		return writeWith(renderers.PNG(canvas.DPMM(4)), false)[:0] + digestCanvas(c) + fmt.Sprint(sharedPattern2)
	}},
	{Name: "renderers.EPS(): path, image", Run: func() string { return writeWith(renderers.EPS(), false) }},
	{Name: "renderers.PNG(): path, image, text", Run: func() string { return writeWith(renderers.PNG(canvas.DPMM(3)), true) }},
}

// FirstRenderBody is the index in Bodies of the first renderer body.
var FirstRenderBody int

func init() {
	FirstRenderBody = len(Bodies)
	Bodies = append(Bodies, RenderBodies...)
}
