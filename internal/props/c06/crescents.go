package c06

import (
	"fmt"

	"verif/internal/cv"
	"verif/internal/fw"
	"verif/internal/oracle"
)

// Crescents: two curves from a base edge to a common tip where they are tangent to each other
// (a cusp: the contour turns by 180 degrees at the tip). When the tip is the right-most point
// CCW() cannot decide from the directions there and has to compare curvatures; the curves are
// asymmetric (their curvature differs between their ends), written in both orientations, from
// three start vertices, with the tip pointing right, up, left and down; alone for CCW and as a
// second subpath inside a clockwise square for Filling.

type crescent struct {
	segs  [][]oracle.Pt // control polygons of the two curves: 3 points = quadratic, 4 = cubic
	rot   int           // quarter turns
	rev   bool
	start int // 0: base start, 1: tip, 2: base end
	// gap > 0 (contours started at the tip only): the last curve ends this far beside the tip it
	// started from and Close covers the rest (below Epsilon: is that Close a segment or not?)
	gap float64
}

func crescentShapes() []crescent {
	var shapes [][][]oracle.Pt
	tip := oracle.Pt{X: 5, Y: 5}
	a0, a1 := oracle.Pt{X: 0, Y: 0}, oracle.Pt{X: 0, Y: 1}
	for a := 1.0; a <= 4; a++ {
		for c := 1.0; c <= 4; c++ {
			// quad-quad: arrives along +x through (a,5), leaves along -x through (c,5)
			shapes = append(shapes, [][]oracle.Pt{{a0, {X: a, Y: 5}, tip}, {tip, {X: c, Y: 5}, a1}})
			// cubic-cubic and mixed
			shapes = append(shapes, [][]oracle.Pt{{a0, {X: 2, Y: 1}, {X: a, Y: 5}, tip}, {tip, {X: c, Y: 5}, {X: 1, Y: 3}, a1}})
			shapes = append(shapes, [][]oracle.Pt{{a0, {X: a, Y: 5}, tip}, {tip, {X: c, Y: 5}, {X: 1, Y: 3}, a1}})
		}
	}
	var out []crescent
	for _, s := range shapes {
		for rot := 0; rot < 4; rot++ {
			for _, rev := range []bool{false, true} {
				for start := 0; start < 3; start++ {
					out = append(out, crescent{s, rot, rev, start, 0})
				}
			}
		}
	}
	return out
}

// atTip: the contour starts at the tip (start 1 as written, start 2 when reversed) and its last
// segment is one of the curves.
func (c crescent) atTip() bool { return !c.rev && c.start == 1 || c.rev && c.start == 2 }

func (c crescent) data() []float64 {
	turn := func(p oracle.Pt) oracle.Pt {
		for k := 0; k < c.rot; k++ {
			p = oracle.Pt{X: -p.Y, Y: p.X}
		}
		return p
	}
	// the closed contour as a cyclic list of segments: curve 0, curve 1, closing line
	type seg struct{ p []oracle.Pt }
	segs := []seg{{c.segs[0]}, {c.segs[1]}, {[]oracle.Pt{c.segs[1][len(c.segs[1])-1], c.segs[0][0]}}}
	if c.rev {
		for i := range segs {
			q := make([]oracle.Pt, len(segs[i].p))
			for k, p := range segs[i].p {
				q[len(q)-1-k] = p
			}
			segs[i].p = q
		}
		segs[0], segs[2] = segs[2], segs[0]
	}
	// start vertex: rotate the cyclic list so that it begins after the wanted vertex
	first := map[int]int{0: 0, 1: 1, 2: 2}[c.start]
	segs = append(segs[first:], segs[:first]...)
	p0 := turn(segs[0].p[0])
	d := []float64{oracle.CmdMove, p0.X, p0.Y, oracle.CmdMove}
	for i, s := range segs {
		e := turn(s.p[len(s.p)-1])
		switch len(s.p) {
		case 2:
			if i == len(segs)-1 {
				continue // the closing line is the Close command
			}
			d = append(d, oracle.CmdLine, e.X, e.Y, oracle.CmdLine)
		case 3:
			q := turn(s.p[1])
			d = append(d, oracle.CmdQuad, q.X, q.Y, e.X, e.Y, oracle.CmdQuad)
		case 4:
			q1, q2 := turn(s.p[1]), turn(s.p[2])
			d = append(d, oracle.CmdCube, q1.X, q1.Y, q2.X, q2.Y, e.X, e.Y, oracle.CmdCube)
		}
	}
	if c.gap > 0 && c.atTip() {
		// the last curve arrives at the tip along its tangent; move its end point and the control
		// point before it sideways by the gap, away from the other curve (the lower curve down, the
		// upper curve up, in the unturned frame), so that the contour stays simple
		sh := turn(oracle.Pt{X: 0, Y: -c.gap})
		if c.rev {
			sh = turn(oracle.Pt{X: 0, Y: c.gap})
		}
		n := len(d)
		d[n-3], d[n-2] = d[n-3]+sh.X, d[n-2]+sh.Y
		d[n-5], d[n-4] = d[n-5]+sh.X, d[n-4]+sh.Y
	}
	return append(d, oracle.CmdClose, p0.X, p0.Y, oracle.CmdClose)
}

func checkCrescent(r *fw.R, c crescent) {
	d := c.data()
	pl := oracle.DenseData(d, 256)[0]
	if !simple(pl.P[:len(pl.P)-1]) {
		r.Outcome("crescent:not-simple-skipped")
		return
	}
	r.NontrivialIdx()
	checkCCWCurved(r, d)
	// as a second subpath in a clockwise square: Filling of the crescent against the winding
	// number just inside it
	sq := oracle.ClosedData([]oracle.Pt{{X: -10, Y: -10}, {X: -10, Y: 10}, {X: 10, Y: 10}, {X: 10, Y: -10}})
	both := append(append([]float64{}, sq...), d...)
	pls := oracle.DenseData(both, 256)
	// an interior point: centroid of three consecutive dense vertices that lies inside
	var in oracle.Pt
	found := false
	cp := pls[1].P
	for k := 0; k+2 < len(cp) && !found; k += 7 {
		m := oracle.Pt{X: (cp[k].X + cp[k+1].X + cp[(k+len(cp)/2)%len(cp)].X) / 3, Y: (cp[k].Y + cp[k+1].Y + cp[(k+len(cp)/2)%len(cp)].Y) / 3}
		if oracle.Winding([]oracle.Polyline{pls[1]}, m) != 0 && oracle.Dist([]oracle.Polyline{pls[1]}, m, true) > 1e-3 {
			in, found = m, true
		}
	}
	if !found {
		r.Outcome("crescent:no-interior-probe")
		return
	}
	p := cv.Path(both)
	for _, rule := range rules {
		got := p.Filling(rule)
		want := cv.Fills(rule, oracle.Winding(pls, in))
		if len(got) != 2 || got[1] != want {
			r.Violate("filling", fmt.Sprintf("Filling(%v) = %v for a clockwise square with the crescent inside; the winding number at (%.4g,%.4g) inside the crescent is %d", rule, got, in.X, in.Y, oracle.Winding(pls, in)))
			return
		}
	}
	r.Outcome("crescent:checked")
}

func crescentFamily() fw.Family {
	cs := crescentShapes()
	return fw.Family{Name: "crescents (two asymmetric curves tangent at a cusp) x 4 directions x 2 orientations x 3 start vertices: CCW and Filling", N: int64(len(cs)),
		Check: func(i int64, r *fw.R) { checkCrescent(r, cs[i]) },
		Desc: func(i int64) string {
			return oracle.Fmt(cs[i].data()) + " CCW, and Filling inside M-10 -10L-10 10L10 10L10 -10z"
		}}
}

// crescentGapFamily: the crescents started at the tip whose last curve ends 1e-12 .. 5e-11 short of it.
func crescentGapFamily() fw.Family {
	var cs []crescent
	for _, c := range crescentShapes() {
		if !c.atTip() {
			continue
		}
		for _, g := range []float64{5e-11, 2.5e-11, 1e-12} {
			c.gap = g
			cs = append(cs, c)
		}
	}
	return fw.Family{Name: "crescents started at the cusp whose last curve ends 1e-12, 2.5e-11 or 5e-11 beside it (closed by Close) x 4 directions x 2 orientations: CCW and Filling", N: int64(len(cs)),
		Check: func(i int64, r *fw.R) { checkCrescent(r, cs[i]) },
		Desc: func(i int64) string {
			return oracle.Fmt(cs[i].data()) + fmt.Sprintf(" (gap %g) CCW, and Filling inside M-10 -10L-10 10L10 10L10 -10z", cs[i].gap)
		}}
}

// Filling with curved inner contours whose control polygon (or the loose bounds of an arc) pokes
// out of the enclosing contour's box while the curve itself stays inside: a quadratic, a cubic
// or a flat elliptical arc closed by its chord inside the square [0,10]^2, both orientations of
// both contours, all four rules.
func hullFillingFamily() fw.Family {
	type inner struct{ d []float64 }
	var inners [][]float64
	mv, qd, cb, ar, cl := float64(oracle.CmdMove), float64(oracle.CmdQuad), float64(oracle.CmdCube), float64(oracle.CmdArc), float64(oracle.CmdClose)
	for _, cx := range []float64{3, 5, 7} {
		for _, cy := range []float64{11, 12, -2, -1} {
			inners = append(inners, []float64{mv, 2, 5, mv, qd, cx, cy, 8, 5, qd, cl, 2, 5, cl})
			inners = append(inners, []float64{mv, 2, 5, mv, cb, 2, cy, cx + 1, cy, 8, 5, cb, cl, 2, 5, cl})
		}
	}
	for _, y := range []float64{8, 9, 2, 1} {
		for _, fl := range []float64{0, 2} {
			inners = append(inners, []float64{mv, 1, y, mv, ar, 4, 1, 0, fl, 9, y, ar, cl, 1, y, cl})
		}
	}
	_ = inner{}
	n := int64(len(inners)) * 4
	data := func(i int64) (outer, in []float64) {
		k := int(i / 4)
		outerCCW, innerRev := i%2 == 0, (i/2)%2 == 1
		if outerCCW {
			outer = oracle.ClosedData([]oracle.Pt{{X: 0, Y: 0}, {X: 10, Y: 0}, {X: 10, Y: 10}, {X: 0, Y: 10}})
		} else {
			outer = oracle.ClosedData([]oracle.Pt{{X: 0, Y: 0}, {X: 0, Y: 10}, {X: 10, Y: 10}, {X: 10, Y: 0}})
		}
		in = inners[k]
		if innerRev {
			in = cv.Path(in).Reverse().Data()
		}
		return
	}
	return fw.Family{Name: "Filling: curved inner contours whose control hull leaves the box of the enclosing square x orientations", N: n,
		Check: func(i int64, r *fw.R) {
			outer, in := data(i)
			both := append(append([]float64{}, outer...), in...)
			pls := oracle.DenseData(both, 256)
			if len(pls) != 2 {
				r.Outcome("hull-filling:skipped")
				return
			}
			// the inner contour must really be inside the square
			for _, q := range pls[1].P {
				if q.X <= 0 || q.X >= 10 || q.Y <= 0 || q.Y >= 10 {
					r.Outcome("hull-filling:inner-not-inside-skipped")
					return
				}
			}
			var probe oracle.Pt
			found := false
			cp := pls[1].P
			for k := 0; k+2 < len(cp) && !found; k += 5 {
				m := oracle.Pt{X: (cp[k].X + cp[k+1].X + cp[(k+len(cp)/2)%len(cp)].X) / 3, Y: (cp[k].Y + cp[k+1].Y + cp[(k+len(cp)/2)%len(cp)].Y) / 3}
				if oracle.Winding([]oracle.Polyline{pls[1]}, m) != 0 && oracle.Dist([]oracle.Polyline{pls[1]}, m, true) > 1e-3 {
					probe, found = m, true
				}
			}
			if !found {
				r.Outcome("hull-filling:no-probe")
				return
			}
			r.NontrivialIdx()
			p := cv.Path(both)
			for _, rule := range rules {
				got := p.Filling(rule)
				want := cv.Fills(rule, oracle.Winding(pls, probe))
				wantOuter := cv.Fills(rule, oracle.Winding(pls, oracle.Pt{X: 0.01, Y: 0.01}))
				if len(got) != 2 || got[1] != want || got[0] != wantOuter {
					r.Violate("filling", fmt.Sprintf("Filling(%v) = %v; the winding number just inside the square is %d and inside the inner contour at (%.4g,%.4g) it is %d", rule, got, oracle.Winding(pls, oracle.Pt{X: 0.01, Y: 0.01}), probe.X, probe.Y, oracle.Winding(pls, probe)))
					return
				}
			}
			r.Outcome("hull-filling:checked")
		},
		Desc: func(i int64) string {
			outer, in := data(i)
			return oracle.Fmt(append(append([]float64{}, outer...), in...)) + " Filling"
		}}
}
