// Package c06: containment and winding queries agree with the path's winding number.
package c06

import (
	"fmt"
	"math"
	"sort"
	"strings"

	"github.com/tdewolff/canvas"

	"verif/internal/cv"
	"verif/internal/fw"
	"verif/internal/oracle"
)

var rules = []canvas.FillRule{canvas.NonZero, canvas.EvenOdd, canvas.Positive, canvas.Negative}

const curveN = 1024

// queries: every lattice and half-lattice point of the bbox +-1 and a few off-lattice points.
func queries(lo, hi oracle.Pt) (lattice, generic []oracle.Pt) {
	x0, x1 := math.Floor(lo.X)-1, math.Ceil(hi.X)+1
	y0, y1 := math.Floor(lo.Y)-1, math.Ceil(hi.Y)+1
	for y := y0; y <= y1; y += 0.5 {
		for x := x0; x <= x1; x += 0.5 {
			lattice = append(lattice, oracle.Pt{X: x, Y: y})
		}
	}
	for y := y0 + 0.3137; y <= y1; y += 0.77 {
		for x := x0 + 0.2713; x <= x1; x += 0.83 {
			generic = append(generic, oracle.Pt{X: x, Y: y})
		}
	}
	return
}

// specialYs returns the y coordinates at which a horizontal ray is degenerate: the true
// vertices of the path (exact) and the local y-extremes of curved segments (approximated by the
// local extremes of the dense polyline, hence the wider tolerance).
type specialY struct{ y, x, tol float64 }

func specialYs(sps []oracle.Subpath, pls []oracle.Polyline) []specialY {
	var out []specialY
	for _, sp := range sps {
		out = append(out, specialY{sp.Start.Y, sp.Start.X, 1e-9})
		for _, s := range sp.Segs {
			out = append(out, specialY{s.P1.Y, s.P1.X, 1e-9})
		}
	}
	for _, pl := range pls {
		n := len(pl.P)
		for i := 0; i < n; i++ {
			a, b, c := pl.P[(i+n-1)%n], pl.P[i], pl.P[(i+1)%n]
			if (a.Y <= b.Y && c.Y <= b.Y) || (a.Y >= b.Y && c.Y >= b.Y) {
				out = append(out, specialY{b.Y, b.X, 1e-4})
			}
		}
	}
	return out
}

// extremeLevelQueries puts queries exactly on the level of every interior y-extreme of a curved
// segment (computed in closed form): left of the shape, between every two consecutive crossings
// of the outline on that level, and right of the shape. The ray of such a query touches the
// curve; the winding number of the query point itself is well defined (queries too close to
// the outline are skipped by the caller).
func extremeLevelQueries(sps []oracle.Subpath, pls []oracle.Polyline, lo, hi oracle.Pt) []oracle.Pt {
	var out []oracle.Pt
	for _, sp := range sps {
		for _, sg := range sp.Segs {
			if !sg.IsCurve() {
				continue
			}
			for _, t := range sg.AxisExtremaParams(1) {
				if t <= 1e-9 || t >= 1-1e-9 {
					continue
				}
				y := oracle.SegAt(sg, t).Y
				var xs []float64
				for _, pl := range pls {
					n := len(pl.P)
					for k := 0; k < n; k++ {
						a, b := pl.P[k], pl.P[(k+1)%n]
						if (a.Y <= y) != (b.Y <= y) {
							xs = append(xs, a.X+(y-a.Y)*(b.X-a.X)/(b.Y-a.Y))
						}
					}
				}
				xs = append(xs, oracle.SegAt(sg, t).X) // the touch point itself
				sort.Float64s(xs)
				out = append(out, oracle.Pt{X: lo.X - 0.7313, Y: y}, oracle.Pt{X: hi.X + 0.6171, Y: y})
				for k := 0; k+1 < len(xs); k++ {
					if !(xs[k+1]-xs[k] <= 1e-3) {
						out = append(out, oracle.Pt{X: xs[k] + 0.43*(xs[k+1]-xs[k]), Y: y})
					}
				}
			}
		}
	}
	return out
}

// bandQueries puts a query into every cell of the horizontal decomposition of the shape: between
// every two consecutive special levels (vertices, curve extremes) one level is taken, and on it
// one point left of the shape and one between every two consecutive crossings of the outline.
// Every region a ray-casting implementation can get wrong has such a point.
func bandQueries(sps []oracle.Subpath, pls []oracle.Polyline, lo oracle.Pt) []oracle.Pt {
	var ys []float64
	for _, s := range specialYs(sps, pls) {
		ys = append(ys, s.y)
	}
	sort.Float64s(ys)
	var out []oracle.Pt
	for i := 0; i+1 < len(ys); i++ {
		if ys[i+1]-ys[i] < 1e-3 {
			continue
		}
		// two levels per band, off-centre so that they differ from the half-lattice levels
		for _, f := range []float64{0.37, 0.71} {
			y := ys[i] + f*(ys[i+1]-ys[i])
			var xs []float64
			for _, pl := range pls {
				n := len(pl.P)
				for k := 0; k < n; k++ {
					a, b := pl.P[k], pl.P[(k+1)%n]
					if (a.Y <= y) != (b.Y <= y) {
						xs = append(xs, a.X+(y-a.Y)*(b.X-a.X)/(b.Y-a.Y))
					}
				}
			}
			sort.Float64s(xs)
			out = append(out, oracle.Pt{X: lo.X - 0.7313, Y: y})
			for k := 0; k+1 < len(xs); k++ {
				if !(xs[k+1]-xs[k] <= 1e-3) {
					out = append(out, oracle.Pt{X: xs[k] + 0.43*(xs[k+1]-xs[k]), Y: y})
				}
			}
		}
	}
	return out
}

// rayGeneric: the horizontal ray from q to +inf passes no vertex and no curve extreme, so every
// crossing is a proper crossing of the interior of a segment.
// supportingEllipseQueries: points of the full ellipse (circle) that an arc segment is part of, 16
// per arc: the end point of a ray that starts on the supporting curve of an arc it also crosses.
func supportingEllipseQueries(sps []oracle.Subpath) []oracle.Pt {
	var out []oracle.Pt
	for _, sp := range sps {
		for _, s := range sp.Segs {
			if s.Kind != oracle.CmdArc {
				continue
			}
			c, _, _, rx, ry, st := oracle.ArcGeom(s)
			if st != oracle.ArcOK && st != oracle.ArcHalf {
				continue
			}
			for k := 0; k < 16; k++ {
				out = append(out, oracle.EllipseAt(c, rx, ry, s.Phi, (float64(k)+0.37)*math.Pi/8))
			}
		}
	}
	return out
}

func rayGeneric(sp []specialY, q oracle.Pt) bool {
	for _, s := range sp {
		if math.Abs(s.y-q.Y) <= s.tol && s.x >= q.X-1e-3 {
			return false
		}
	}
	return true
}

func crossings(pls []oracle.Polyline, q oracle.Pt) int {
	n := 0
	for _, pl := range pls {
		m := len(pl.P)
		for i := 0; i < m; i++ {
			a, b := pl.P[i], pl.P[(i+1)%m]
			if (a.Y <= q.Y) != (b.Y <= q.Y) {
				x := a.X + (q.Y-a.Y)*(b.X-a.X)/(b.Y-a.Y)
				if x > q.X {
					n++
				}
			}
		}
	}
	return n
}

// checkShape runs all point queries on one path. flat: vertices are exact lattice points.
func checkShape(r *fw.R, d []float64, flat bool) {
	n := 1
	skipBand := 1e-7
	if !flat {
		n = curveN
		skipBand = 2e-5
	}
	pls := oracle.DenseData(d, n)
	sps, _ := oracle.Decode(d)
	lo, hi, _ := oracle.BBox(pls)
	lat, gen := queries(lo, hi)
	gen = append(gen, bandQueries(sps, pls, lo)...)
	gen = append(gen, extremeLevelQueries(sps, pls, lo, hi)...)
	gen = append(gen, supportingEllipseQueries(sps)...)
	p := cv.Path(d)
	before := append([]float64(nil), p.Data()...)
	vertex := map[oracle.Pt]bool{}
	for _, sp := range sps {
		vertex[sp.Start] = true
		for _, s := range sp.Segs {
			vertex[s.P1] = true
		}
	}
	nIn, nOut, nBnd := 0, 0, 0
	special := specialYs(sps, pls)
	seen := map[string]bool{}
	violate := func(class, detail string) {
		if !seen[class] {
			seen[class] = true
			r.Violate(class, detail)
		}
	}
	openPath := false
	for _, sp := range sps {
		if !sp.Closed {
			openPath = true
		}
	}
	for qi, q := range append(append([]oracle.Pt{}, lat...), gen...) {
		dist := oracle.Dist(pls, q, true)
		onBoundary := false
		if flat && dist < 1e-12 {
			onBoundary = true
		} else if !flat && vertex[q] {
			onBoundary = true
		} else if dist < skipBand {
			r.Count("queries_too_close_to_call", 1)
			continue
		}
		generic := rayGeneric(special, q)
		tag := ""
		if !generic {
			tag = " [ray passes a vertex or extreme]"
		}
		if openPath {
			tag += " [open subpath]"
		}
		var w int
		var b bool
		func() {
			defer func() {
				if e := recover(); e != nil {
					violate("panic-windings", fmt.Sprintf("Windings(%g,%g) panics: %v%s", q.X, q.Y, e, tag))
				}
			}()
			w, b = p.Windings(q.X, q.Y)
		}()
		if onBoundary {
			nBnd++
			if !b {
				violate("boundary-not-reported", fmt.Sprintf("Windings(%g,%g) = (%d,%v) but the point lies on the path%s", q.X, q.Y, w, b, tag))
			}
			continue
		}
		want := oracle.Winding(pls, q)
		if want != 0 {
			nIn++
		} else {
			nOut++
		}
		if b {
			violate("boundary-false-positive", fmt.Sprintf("Windings(%g,%g) reports boundary, point is %.3g away from the path%s", q.X, q.Y, dist, tag))
		} else if w != want {
			violate("windings", fmt.Sprintf("Windings(%g,%g) = %d, winding number is %d%s", q.X, q.Y, w, want, tag))
		} else {
			for _, rule := range rules {
				if got := p.Contains(q.X, q.Y, rule); got != cv.Fills(rule, want) {
					violate("contains", fmt.Sprintf("Contains(%g,%g,%v) = %v, winding number is %d%s", q.X, q.Y, rule, got, want, tag))
				}
			}
		}
		var c int
		var cb bool
		func() {
			defer func() {
				if e := recover(); e != nil {
					violate("panic-crossings", fmt.Sprintf("Crossings(%g,%g) panics: %v%s", q.X, q.Y, e, tag))
				}
			}()
			c, cb = p.Crossings(q.X, q.Y)
		}()
		if cb {
			violate("boundary-false-positive", fmt.Sprintf("Crossings(%g,%g) reports boundary, point is %.3g away%s", q.X, q.Y, dist, tag))
			continue
		}
		wantC := crossings(pls, q)
		if generic && qi >= len(lat) {
			if c != wantC {
				violate("crossings", fmt.Sprintf("Crossings(%g,%g) = %d, the ray crosses the boundary %d times%s", q.X, q.Y, c, wantC, tag))
			}
		} else if c < 0 || c%2 != wantC%2 {
			violate("crossings-parity", fmt.Sprintf("Crossings(%g,%g) = %d, parity of boundary crossings is %d%s", q.X, q.Y, c, wantC%2, tag))
		}
	}
	if !equalData(before, p.Data()) {
		r.Violate("query-mutates-path", "path data changed by Windings/Contains/Crossings")
	}
	if nIn > 0 && nOut > 0 {
		r.NontrivialIdx()
	}
	r.Count("queries_inside", int64(nIn))
	r.Count("queries_outside", int64(nOut))
	r.Count("queries_on_boundary", int64(nBnd))
	if nBnd > 0 {
		r.Outcome("has-boundary-queries")
	} else {
		r.Outcome("no-boundary-queries")
	}
}

func equalData(a, b []float64) bool {
	if len(a) != len(b) {
		return false
	}
	for i := range a {
		if math.Float64bits(a[i]) != math.Float64bits(b[i]) {
			return false
		}
	}
	return true
}

// simple reports whether the closed polygon is simple: non-zero area, no two edges meet except
// adjacent ones at their shared vertex, and adjacent edges are not collinear-overlapping.
func simple(c []oracle.Pt) bool {
	n := len(c)
	if oracle.AreaOne(oracle.Polyline{P: c, Closed: true}) == 0 {
		return false
	}
	for i := 0; i < n; i++ {
		a, b := c[i], c[(i+1)%n]
		for j := i + 1; j < n; j++ {
			e, f := c[j], c[(j+1)%n]
			adjacent := j == i+1 || (i == 0 && j == n-1)
			if adjacent {
				// shared vertex only: the third point must not lie on the other edge
				var shared, p1, p2 oracle.Pt
				if j == i+1 {
					shared, p1, p2 = b, a, f
				} else {
					shared, p1, p2 = a, b, e
				}
				if oracle.Orient(shared, p1, p2) == 0 && p1.Sub(shared).Dot(p2.Sub(shared)) > 0 {
					return false
				}
				continue
			}
			if oracle.DistSeg(a, e, f) == 0 || oracle.DistSeg(b, e, f) == 0 || oracle.DistSeg(e, a, b) == 0 || oracle.DistSeg(f, a, b) == 0 {
				return false
			}
			if _, ok := oracle.SegIntersection(a, b, e, f); ok {
				return false
			}
		}
	}
	return true
}

func checkCCW(r *fw.R, c []oracle.Pt) {
	if !simple(c) {
		r.Outcome("ccw:not-simple-skipped")
		return
	}
	want := oracle.AreaOne(oracle.Polyline{P: c, Closed: true}) > 0
	got := cv.Path(oracle.ClosedData(c)).CCW()
	if got != want {
		r.Violate("ccw", fmt.Sprintf("CCW() = %v, signed area is %g", got, oracle.AreaOne(oracle.Polyline{P: c, Closed: true})))
	}
	if want {
		r.Outcome("ccw:ccw")
	} else {
		r.Outcome("ccw:cw")
	}
}

// curved variants of a triangle: edge e replaced by curve kind k.
const nKinds = 8

func curvedData(c []oracle.Pt, e, k int) []float64 {
	d := []float64{oracle.CmdMove, c[0].X, c[0].Y, oracle.CmdMove}
	n := len(c)
	for i := 0; i < n; i++ {
		a, b := c[i], c[(i+1)%n]
		last := i == n-1
		if i != e {
			if last {
				d = append(d, oracle.CmdClose, b.X, b.Y, oracle.CmdClose)
			} else {
				d = append(d, oracle.CmdLine, b.X, b.Y, oracle.CmdLine)
			}
			continue
		}
		ab := b.Sub(a)
		l := ab.Len()
		nrm := oracle.Pt{X: -ab.Y / l, Y: ab.X / l}
		mid := oracle.Lerp(a, b, 0.5)
		switch k {
		case 0, 1: // quadratic bulge to either side
			s := 0.5 * l
			if k == 1 {
				s = -s
			}
			cp := mid.Add(nrm.Mul(s))
			d = append(d, oracle.CmdQuad, cp.X, cp.Y, b.X, b.Y, oracle.CmdQuad)
		case 2, 3: // cubic S
			s := 0.6 * l
			if k == 3 {
				s = -s
			}
			c1 := oracle.Lerp(a, b, 1.0/3).Add(nrm.Mul(s))
			c2 := oracle.Lerp(a, b, 2.0/3).Sub(nrm.Mul(s))
			d = append(d, oracle.CmdCube, c1.X, c1.Y, c2.X, c2.Y, b.X, b.Y, oracle.CmdCube)
		default: // circular arcs: small/large x sweep
			rad := 0.75 * l
			fl := float64(k - 4) // 0..3
			d = append(d, oracle.CmdArc, rad, rad, 0, fl, b.X, b.Y, oracle.CmdArc)
		}
		if last {
			d = append(d, oracle.CmdClose, b.X, b.Y, oracle.CmdClose)
		}
	}
	return d
}

func rectC(x0, y0, x1, y1 float64, ccw bool) []oracle.Pt {
	if ccw {
		return []oracle.Pt{{X: x0, Y: y0}, {X: x1, Y: y0}, {X: x1, Y: y1}, {X: x0, Y: y1}}
	}
	return []oracle.Pt{{X: x0, Y: y0}, {X: x0, Y: y1}, {X: x1, Y: y1}, {X: x1, Y: y0}}
}

// nestings: three rectangles, each strictly inside the previous or side by side, all orientations.
func nestings() [][][]oracle.Pt {
	var out [][][]oracle.Pt
	geoms := [][3][4]float64{
		{{0, 0, 6, 6}, {1, 1, 5, 5}, {2, 2, 4, 4}}, // fully nested
		{{0, 0, 6, 6}, {1, 1, 2, 5}, {3, 1, 5, 5}}, // two siblings inside
		{{0, 0, 2, 2}, {3, 0, 5, 2}, {0, 3, 2, 5}}, // disjoint
		{{0, 0, 6, 6}, {1, 1, 5, 5}, {7, 0, 9, 2}}, // nested pair + disjoint
	}
	for _, g := range geoms {
		for o := 0; o < 8; o++ {
			var cs [][]oracle.Pt
			for k := 0; k < 3; k++ {
				cs = append(cs, rectC(g[k][0], g[k][1], g[k][2], g[k][3], o&(1<<k) == 0))
			}
			out = append(out, cs)
		}
	}
	return out
}

func checkFilling(r *fw.R, cs [][]oracle.Pt) {
	d := oracle.ClosedData(cs...)
	pls := oracle.DenseData(d, 1)
	p := cv.Path(d)
	for _, rule := range rules {
		got := p.Filling(rule)
		if len(got) != len(cs) {
			r.Violate("filling-len", fmt.Sprintf("Filling returned %d values for %d subpaths", len(got), len(cs)))
			return
		}
		for i, c := range cs {
			// a point just inside contour i, beside the midpoint of its first edge
			a, b := c[0], c[1]
			ab := b.Sub(a)
			nrm := oracle.Pt{X: -ab.Y, Y: ab.X}.Mul(1e-3 / ab.Len())
			in := oracle.Lerp(a, b, 0.5).Add(nrm)
			if oracle.Winding([]oracle.Polyline{pls[i]}, in) == 0 {
				in = oracle.Lerp(a, b, 0.5).Sub(nrm)
			}
			want := cv.Fills(rule, oracle.Winding(pls, in))
			if got[i] != want {
				r.Violate("filling", fmt.Sprintf("Filling(%v)[%d] = %v, winding of the whole path just inside subpath %d is %d", rule, i, got[i], i, oracle.Winding(pls, in)))
				return
			}
		}
	}
	r.Outcome("filling:checked")
}

// ellipses drawn with n arcs from start angle a0, in either direction
type ell struct {
	rx, ry, rot, a0 float64
	n               int
	sweep           bool
}

func (e ell) data() []float64 {
	c := oracle.Pt{X: 1, Y: 1}
	phi := e.rot * math.Pi / 180
	at := func(k int) oracle.Pt {
		dir := 1.0
		if !e.sweep {
			dir = -1
		}
		th := e.a0*math.Pi/180 + dir*float64(k)*2*math.Pi/float64(e.n)
		p := oracle.EllipseAt(c, e.rx, e.ry, phi, th)
		// keep lattice-exact values exact (cos/sin of multiples of 90 degrees), full precision otherwise
		snap := func(v float64) float64 {
			if r := math.Round(v*2) / 2; math.Abs(v-r) < 1e-12 {
				return r
			}
			return v
		}
		return oracle.Pt{X: snap(p.X), Y: snap(p.Y)}
	}
	fl := 0.0
	if e.sweep {
		fl = 2
	}
	p0 := at(0)
	d := []float64{oracle.CmdMove, p0.X, p0.Y, oracle.CmdMove}
	for k := 1; k <= e.n; k++ {
		p := at(k)
		if k == e.n {
			p = p0
		}
		d = append(d, oracle.CmdArc, e.rx, e.ry, phi, fl, p.X, p.Y, oracle.CmdArc)
	}
	return append(d, oracle.CmdClose, p0.X, p0.Y, oracle.CmdClose)
}

func ellipses() []ell {
	var out []ell
	for _, g := range [][3]float64{{2, 2, 0}, {3, 1.5, 0}, {3, 1.5, 30}} {
		for _, a0 := range []float64{0, 90, 180, 270, 45} {
			for _, n := range []int{2, 3, 4} {
				for _, sw := range []bool{true, false} {
					out = append(out, ell{g[0], g[1], g[2], a0, n, sw})
				}
			}
		}
	}
	return out
}

func checkCCWCurved(r *fw.R, d []float64) {
	pls := oracle.DenseData(d, curveN)
	want := oracle.Area(pls) > 0
	got := cv.Path(d).CCW()
	if got != want {
		r.Violate("ccw", fmt.Sprintf("CCW() = %v, signed area is %g", got, oracle.Area(pls)))
	}
	if want {
		r.Outcome("ccw:ccw")
	} else {
		r.Outcome("ccw:cw")
	}
}

func families(tier string) []fw.Family {
	L3, L4 := oracle.Lattice(3), oracle.Lattice(4)
	tri4 := oracle.ContoursModRotation(L4, 3)
	quad3 := oracle.Contours(L3, 4)
	quad4 := oracle.ContoursModRotation(L4, 4)
	tri3 := oracle.ContoursModRotation(L3, 3)
	var tri3nd [][]oracle.Pt
	for _, c := range tri3 {
		if oracle.Orient(c[0], c[1], c[2]) != 0 {
			tri3nd = append(tri3nd, c)
		}
	}
	nest := nestings()
	flatFam := func(name string, cs [][]oracle.Pt, open bool) fw.Family {
		data := func(i int64) []float64 {
			if open {
				return oracle.OpenData(cs[i])
			}
			return oracle.ClosedData(cs[i])
		}
		return fw.Family{Name: name, N: int64(len(cs)),
			Check: func(i int64, r *fw.R) {
				checkShape(r, data(i), true)
				if !open {
					checkCCW(r, cs[i])
				}
			},
			Desc: func(i int64) string { return oracle.Fmt(data(i)) + " x all (half-)lattice query points" }}
	}
	curvedFam := func(name string, cs [][]oracle.Pt) fw.Family {
		return fw.Family{Name: name, N: int64(len(cs)) * 3 * nKinds,
			Check: func(i int64, r *fw.R) {
				g := oracle.Digits(i, len(cs), 3, nKinds)
				checkShape(r, curvedData(cs[g[0]], g[1], g[2]), false)
			},
			Desc: func(i int64) string {
				g := oracle.Digits(i, len(cs), 3, nKinds)
				return oracle.Fmt(curvedData(cs[g[0]], g[1], g[2])) + " x all (half-)lattice query points"
			}}
	}
	nestFam := fw.Family{Name: "three-rectangle nestings x 8 orientations", N: int64(len(nest)),
		Check: func(i int64, r *fw.R) {
			checkShape(r, oracle.ClosedData(nest[i]...), true)
			checkFilling(r, nest[i])
		},
		Desc: func(i int64) string { return oracle.Fmt(oracle.ClosedData(nest[i]...)) + " Filling + point queries" }}
	ells := ellipses()
	ellFam := fw.Family{Name: "ellipses drawn with 2, 3 or 4 arcs, both directions, 5 start angles", N: int64(len(ells)),
		Check: func(i int64, r *fw.R) {
			checkShape(r, ells[i].data(), false)
			checkCCWCurved(r, ells[i].data())
		},
		Desc: func(i int64) string { return oracle.Fmt(ells[i].data()) + " CCW + point queries" }}
	curvedCCW := fw.Family{Name: "CCW of simple triangles with one curved edge", N: int64(len(tri3nd)) * 3 * 4,
		Check: func(i int64, r *fw.R) {
			g := oracle.Digits(i, len(tri3nd), 3, 4)
			d := curvedData(tri3nd[g[0]], g[1], []int{0, 1, 4, 6}[g[2]])
			// only shapes whose dense outline is simple: the curved edge must not cross the others
			pl := oracle.DenseData(d, 64)[0]
			if !simple(pl.P[:len(pl.P)-1]) {
				r.Outcome("ccw:not-simple-skipped")
				return
			}
			checkCCWCurved(r, d)
		},
		Desc: func(i int64) string {
			g := oracle.Digits(i, len(tri3nd), 3, 4)
			return oracle.Fmt(curvedData(tri3nd[g[0]], g[1], []int{0, 1, 4, 6}[g[2]])) + " CCW"
		}}
	// one cubic closed by its chord: control points over [-2..2]^2, four end points; includes the
	// S-shaped cubics whose local y-extreme level is crossed again by the same cubic
	cubicEnds := []oracle.Pt{{X: 3, Y: 0}, {X: 3, Y: 2}, {X: 2, Y: 3}, {X: 3, Y: -2}}
	cubicData := func(i int64) []float64 {
		g := oracle.Digits(i, 5, 5, 5, 5, len(cubicEnds))
		e := cubicEnds[g[4]]
		return []float64{oracle.CmdMove, 0, 0, oracle.CmdMove,
			oracle.CmdCube, float64(g[0] - 2), float64(g[1] - 2), float64(g[2] - 2), float64(g[3] - 2), e.X, e.Y, oracle.CmdCube,
			oracle.CmdClose, 0, 0, oracle.CmdClose}
	}
	cubicFam := fw.Family{Name: "one lattice cubic closed by its chord (control points in [-2..2]^2, 4 end points)", N: 625 * int64(len(cubicEnds)),
		Check: func(i int64, r *fw.R) { checkShape(r, cubicData(i), false) },
		Desc: func(i int64) string {
			return oracle.Fmt(cubicData(i)) + " x lattice, band and extreme-level query points"
		}}
	fs := []fw.Family{
		ellFam,
		curvedCCW,
		crescentFamily(), crescentGapFamily(),
		hullFillingFamily(),
		cubicFam,
		flatFam("tri(L4)/rot closed", tri4, false),
		flatFam("quad(L3) closed", quad3, false),
		curvedFam("tri(L3)/rot with one curved edge (quad in/out, cubic S, 4 arcs)", tri3nd),
		nestFam,
		flatFam("tri(L4)/rot open (implicitly closed)", tri4, true),
	}
	if tier == "thorough" {
		var tri4nd [][]oracle.Pt
		for _, c := range tri4 {
			if oracle.Orient(c[0], c[1], c[2]) != 0 {
				tri4nd = append(tri4nd, c)
			}
		}
		fs = append(fs,
			flatFam("quad(L4)/rot closed", quad4, false),
			flatFam("pent(L3)/rot closed", oracle.ContoursModRotation(L3, 5), false),
			curvedFam("tri(L4)/rot with one curved edge", tri4nd),
			flatFam("quad(L3) open (implicitly closed)", quad3, true),
		)
	}
	return fs
}

// Prop is the C06 check.
func Prop() *fw.Property {
	return &fw.Property{
		ID:    "C06",
		Level: "exploration",
		Rule: "every shape of the named families (all lattice triangles/quadrilaterals incl. degenerate and self-crossing; triangles with one edge replaced by a quadratic, cubic or arc; rectangle nestings in all orientations; open variants) x every lattice and half-lattice query point of the bounding box +-1 plus off-lattice points: " +
			"Windings/Contains(4 rules)/Crossings compared with the half-open-rule winding and crossing numbers of the oracle's dense polyline; boundary flag required on exact boundary points and forbidden elsewhere; CCW vs shoelace sign on simple contours; Filling vs winding just inside each subpath; non-trivial = queries both inside and outside",
		Assumptions: []string{
			"flat shapes: exact; curved shapes: dense polyline with 1024 samples per curve, queries closer than 2e-5 to the curve (other than exact vertices) are skipped and counted",
			"Crossings is compared exactly only for rays that pass no vertex; otherwise only its parity (tangent touches may be counted 0 or 2)",
			"Contains on exact boundary points is not constrained (the statement only requires the boundary to be reported)",
		},
		Families: families,
		KnownPredicates: map[string]func(*fw.Violation) bool{
			"ray-passes-vertex-or-extreme": func(v *fw.Violation) bool {
				return strings.Contains(v.Detail, "[ray passes a vertex or extreme]")
			},
			"open-subpath": func(v *fw.Violation) bool {
				return strings.Contains(v.Detail, "[open subpath]")
			},
		},
	}
}
