package c15

// The reference model: a 2x3 matrix + style stack machine written from the doc comments of
// canvas.Context / canvas.Canvas and from the property statement. It imports nothing from
// canvas except the colour type (image/color) and never calls canvas.Matrix arithmetic.

import (
	"fmt"
	"image/color"
	"math"
)

// mat is the affine map x' = a x + b y + c, y' = d x + e y + f, stored as [a b c d e f].
type mat [6]float64

var ident = mat{1, 0, 0, 0, 1, 0}

// mul returns m∘q: first q, then m ("concatenated transformations are evaluated right-to-left").
func mul(m, q mat) mat {
	return mat{
		m[0]*q[0] + m[1]*q[3], m[0]*q[1] + m[1]*q[4], m[0]*q[2] + m[1]*q[5] + m[2],
		m[3]*q[0] + m[4]*q[3], m[3]*q[1] + m[4]*q[4], m[3]*q[2] + m[4]*q[5] + m[5],
	}
}

func (m mat) apply(x, y float64) (float64, float64) {
	return m[0]*x + m[1]*y + m[2], m[3]*x + m[4]*y + m[5]
}

func mTranslate(x, y float64) mat { return mat{1, 0, x, 0, 1, y} }
func mScale(sx, sy float64) mat   { return mat{sx, 0, 0, 0, sy, 0} }
func mShear(sx, sy float64) mat   { return mat{1, sx, 0, sy, 1, 0} } // sx horizontal, sy vertical shear
func mRotate(deg float64) mat { // counter clockwise, degrees
	s, c := math.Sincos(deg * math.Pi / 180)
	return mat{c, -s, 0, s, c, 0}
}
func mAbout(m mat, x, y float64) mat { return mul(mTranslate(x, y), mul(m, mTranslate(-x, -y))) }

func (m mat) String() string {
	return fmt.Sprintf("[%.15g %.15g %.15g; %.15g %.15g %.15g]", m[0], m[1], m[2], m[3], m[4], m[5])
}

// Coordinate systems: the origin sits in the corresponding corner of the W x H canvas, the
// canvas' native system being Cartesian I (origin bottom-left, y up).
const (
	csI = iota
	csII
	csIII
	csIV
)

func flipsX(cs int) bool { return cs == csII || cs == csIII } // origin on the right edge
func flipsY(cs int) bool { return cs == csIII || cs == csIV } // origin on the top edge

func coordSystemView(cs int, w, h float64) mat {
	m := ident
	if flipsX(cs) {
		m[0], m[2] = -1, w // x' = w - x
	}
	if flipsY(cs) {
		m[4], m[5] = -1, h // y' = h - y
	}
	return m
}

// mstyle is the style part of the model state. dashes is treated as immutable (replaced on set).
type mstyle struct {
	fill, stroke color.RGBA
	width        float64
	roundJoin    bool
	dashOffset   float64
	dashes       []float64
	rule         int // 0 NonZero, 1 EvenOdd
}

func defaultStyle() mstyle {
	return mstyle{fill: color.RGBA{0, 0, 0, 255}, width: 1}
}

func (s mstyle) hasFill() bool   { return s.fill.A != 0 }
func (s mstyle) hasStroke() bool { return s.stroke.A != 0 && 0 < s.width }

func (s mstyle) String() string {
	return fmt.Sprintf("{fill:%v stroke:%v w:%g roundJoin:%v dash:%g%v rule:%d}", s.fill, s.stroke, s.width, s.roundJoin, s.dashOffset, s.dashes, s.rule)
}

type mstate struct {
	st    mstyle
	view  mat
	cview mat
	cs    int
}

const (
	kPath = iota
	kText
	kImage
)

var kindNames = []string{"RenderPath", "RenderText", "RenderImage"}

// mcall is one expected renderer call.
type mcall struct {
	kind  int
	z     int
	data  []float64 // path
	st    mstyle    // path
	m     mat
	depth int // stack depth at draw time (for tallies only)
	cs    int // coordinate system at draw time (for tallies only)
}

type model struct {
	w, h  float64
	cur   mstate
	stack []mstate
	z     int
	calls []mcall
	// the pending path is kept outside (exec), built with canvas.Path (trusted base, C10)
}

func newModel(w, h float64) *model {
	return &model{w: w, h: h, cur: mstate{st: defaultStyle(), view: ident, cview: ident, cs: csI}}
}

func (m *model) push() { m.stack = append(m.stack, m.cur) }
func (m *model) pop() {
	if len(m.stack) == 0 {
		return // Pop on an empty stack does nothing
	}
	m.cur = m.stack[len(m.stack)-1]
	m.stack = m.stack[:len(m.stack)-1]
}
func (m *model) compose(q mat) { m.cur.view = mul(m.cur.view, q) } // post-multiply

// base is CoordSystemView x View x Translate(CoordView(x,y)).
func (m *model) base(x, y float64) mat {
	cx, cy := m.cur.cview.apply(x, y)
	return mul(coordSystemView(m.cur.cs, m.w, m.h), mul(m.cur.view, mTranslate(cx, cy)))
}

// drawPath: st is the style to draw with (Fill/Stroke remove one paint for this draw only).
func (m *model) drawPath(x, y float64, data []float64, st mstyle) {
	if len(data) == 0 || (!st.hasFill() && !st.hasStroke()) {
		return // nothing visible; such calls are dropped from the observed list as well
	}
	m.calls = append(m.calls, mcall{kind: kPath, z: m.z, data: append([]float64(nil), data...), st: st, m: m.base(x, y), depth: len(m.stack), cs: m.cur.cs})
}

// drawText: the text keeps its upright orientation: undo the flips of the coordinate system
// in the text's own frame (its origin, the top-left of the text box, stays at (x,y)).
func (m *model) drawText(x, y float64) {
	f := ident
	if flipsX(m.cur.cs) {
		f[0] = -1
	}
	if flipsY(m.cur.cs) {
		f[4] = -1
	}
	m.calls = append(m.calls, mcall{kind: kText, z: m.z, m: mul(m.base(x, y), f), depth: len(m.stack), cs: m.cur.cs})
}

// drawImage: an image of wpx x hpx pixels at res pixels per millimetre covers the user-space
// rectangle [x, x+wpx/res] x [y, y+hpx/res] and keeps its upright orientation: in a flipped
// system the pixel axis is mirrored about the image's own centre.
func (m *model) drawImage(x, y float64, wpx, hpx int, res float64) {
	f := ident
	if flipsX(m.cur.cs) {
		f[0], f[2] = -1, float64(wpx)
	}
	if flipsY(m.cur.cs) {
		f[4], f[5] = -1, float64(hpx)
	}
	m.calls = append(m.calls, mcall{kind: kImage, z: m.z, m: mul(m.base(x, y), mul(mScale(1/res, 1/res), f)), depth: len(m.stack), cs: m.cur.cs})
}

// ---------------------------------------------------------------------------------------
// Dash semantics (Style / Path.Dash doc comments): the elements alternate dash, gap, dash, …;
// an odd-length array counts twice; the offset is the offset into the pattern; an empty array
// is a solid line; every subpath is dashed on its own. k is the unit of the dash lengths.

type ival [2]float64

func onSet(offset float64, d []float64, k, length float64) []ival {
	if !(length > 0) {
		return nil // a subpath without length has no stroked interval
	}
	if len(d) == 0 {
		return []ival{{0, length}}
	}
	dd := make([]float64, 0, 2*len(d))
	for _, v := range d {
		dd = append(dd, v*k)
	}
	if len(dd)%2 == 1 {
		dd = append(dd, dd...)
	}
	total := 0.0
	for _, v := range dd {
		total += v
	}
	if !(total > 0) {
		return nil
	}
	phase := math.Mod(offset*k, total)
	if phase < 0 {
		phase += total
	}
	i := 0
	for dd[i] <= phase { // find the element that contains the phase
		phase -= dd[i]
		i = (i + 1) % len(dd)
	}
	var out []ival
	s := 0.0
	rem := dd[i] - phase
	for guard := 0; s < length && guard < 100000; guard++ {
		e := math.Min(s+rem, length)
		if i%2 == 0 && e-s > 1e-12 {
			if n := len(out); n > 0 && s-out[n-1][1] <= 1e-12 {
				out[n-1][1] = e
			} else {
				out = append(out, ival{s, e})
			}
		}
		s += rem
		i = (i + 1) % len(dd)
		rem = dd[i]
	}
	return out
}

func sameSet(a, b []ival, tol float64) bool {
	if len(a) != len(b) {
		return false
	}
	for i := range a {
		if math.Abs(a[i][0]-b[i][0]) > tol || math.Abs(a[i][1]-b[i][1]) > tol {
			return false
		}
	}
	return true
}
