// Package c15: Context and Canvas state. Every history of Context calls up to a depth bound is
// run on a real canvas.Context (once wrapping a recording renderer, once wrapping a real
// canvas.New(10,6) that is then replayed into a recording renderer) and compared with an
// independent matrix/style stack machine (model.go).
package c15

import (
	"encoding/binary"
	"fmt"
	"image"
	"math"
	"os"
	"reflect"
	"regexp"
	"sort"
	"strconv"
	"strings"
	"sync"

	"github.com/tdewolff/canvas"

	"verif/internal/fw"
	"verif/internal/oracle"
)

// ---------------------------------------------------------------------------------------
// recording renderer

type rcall struct {
	kind  int
	z     int // z-index announced through SetZIndex at call time (direct runs only)
	data  []float64
	style canvas.Style // Dashes deep-copied at call time
	m     canvas.Matrix
	text  *canvas.Text
	img   image.Image
}

type recorder struct {
	w, h  float64
	z     int
	calls []rcall
}

func (r *recorder) Size() (float64, float64) { return r.w, r.h }
func (r *recorder) SetZIndex(z int)          { r.z = z }
func (r *recorder) RenderPath(p *canvas.Path, style canvas.Style, m canvas.Matrix) {
	if style.Dashes != nil {
		style.Dashes = append([]float64{}, style.Dashes...)
	}
	r.calls = append(r.calls, rcall{kind: kPath, z: r.z, data: append([]float64(nil), p.Data()...), style: style, m: m})
}
func (r *recorder) RenderText(t *canvas.Text, m canvas.Matrix) {
	r.calls = append(r.calls, rcall{kind: kText, z: r.z, m: m, text: t})
}
func (r *recorder) RenderImage(img image.Image, m canvas.Matrix) {
	r.calls = append(r.calls, rcall{kind: kImage, z: r.z, m: m, img: img})
}

func paintHas(p canvas.Paint) bool     { return p.Color.A != 0 || p.Gradient != nil || p.Pattern != nil }
func obsHasFill(s canvas.Style) bool   { return paintHas(s.Fill) }
func obsHasStroke(s canvas.Style) bool { return paintHas(s.Stroke) && 0 < s.StrokeWidth }

func (c rcall) visible() bool {
	return c.kind != kPath || (len(c.data) > 0 && (obsHasFill(c.style) || obsHasStroke(c.style)))
}

func floatsEq(a, b []float64) bool {
	if len(a) != len(b) {
		return false
	}
	for i := range a {
		if a[i] != b[i] {
			return false
		}
	}
	return true
}

// eqCall is exact equality of two recorded calls (z tags are not compared).
func eqCall(a, b rcall) bool {
	if a.kind != b.kind || a.m != b.m || !floatsEq(a.data, b.data) {
		return false
	}
	if a.text != b.text && (a.text == nil || b.text == nil || !reflect.DeepEqual(a.text, b.text)) {
		return false // neither the same object nor an equal copy
	}
	if a.img != b.img && (a.img == nil || b.img == nil || !reflect.DeepEqual(a.img, b.img)) {
		return false
	}
	if a.kind != kPath {
		return true
	}
	return eqStyleButMatrix(a.style, b.style)
}

func eqPaint(a, b canvas.Paint) bool {
	if a.Gradient == nil && a.Pattern == nil && b.Gradient == nil && b.Pattern == nil {
		return a.Color == b.Color
	}
	return reflect.DeepEqual(a, b)
}

// eqIface compares cappers/joiners (small comparable structs in canvas).
func eqIface(a, b interface{}) bool {
	if a == nil || b == nil || reflect.TypeOf(a) != reflect.TypeOf(b) || !reflect.TypeOf(a).Comparable() {
		return reflect.DeepEqual(a, b)
	}
	return a == b
}

func eqStyleButMatrix(s, t canvas.Style) bool {
	return eqPaint(s.Fill, t.Fill) && eqPaint(s.Stroke, t.Stroke) && s.StrokeWidth == t.StrokeWidth &&
		eqIface(s.StrokeCapper, t.StrokeCapper) && eqIface(s.StrokeJoiner, t.StrokeJoiner) &&
		s.DashOffset == t.DashOffset && floatsEq(s.Dashes, t.Dashes) && s.FillRule == t.FillRule
}

func (c rcall) String() string {
	switch c.kind {
	case kPath:
		return fmt.Sprintf("RenderPath(%s, {fill:%v stroke:%v w:%g dash:%g%v rule:%v join:%v}, %v)", oracle.Fmt(c.data), c.style.Fill.Color, c.style.Stroke.Color, c.style.StrokeWidth, c.style.DashOffset, c.style.Dashes, c.style.FillRule, c.style.StrokeJoiner, fromCanvas(c.m))
	case kText:
		return fmt.Sprintf("RenderText(%p, %v)", c.text, fromCanvas(c.m))
	}
	return fmt.Sprintf("RenderImage(%v)", fromCanvas(c.m))
}

// ---------------------------------------------------------------------------------------
// tolerances and small helpers

func matClose(got canvas.Matrix, want mat, rel float64) (bool, float64) {
	g := fromCanvas(got)
	worst := 0.0
	for i := range g {
		e := math.Abs(g[i]-want[i]) / math.Max(1, math.Abs(want[i]))
		if e > worst || math.IsNaN(e) {
			worst = e
			if math.IsNaN(e) {
				worst = math.Inf(1)
			}
		}
	}
	return worst <= rel, worst
}

var (
	lenMu    sync.Mutex
	lenCache = map[string][]float64{}
)

// subpathLengths: arc length of every subpath, by the oracle's own dense evaluation.
func subpathLengths(data []float64) []float64 {
	key := make([]byte, 8*len(data))
	for i, v := range data {
		binary.LittleEndian.PutUint64(key[8*i:], math.Float64bits(v))
	}
	lenMu.Lock()
	defer lenMu.Unlock()
	if l, ok := lenCache[string(key)]; ok {
		return l
	}
	var out []float64
	for _, pl := range oracle.DenseData(data, 512) {
		out = append(out, oracle.Length([]oracle.Polyline{pl}))
	}
	lenCache[string(key)] = out
	return out
}

// dashUnit: "" accepts a recorded dash pattern that is equivalent to the requested one with the
// dash lengths read in millimetres (SetDashes doc comment) or in stroke widths (what every
// renderer in the repository does, canvas.ScaleDash); "mm" or "width" insist on one reading.
var dashUnit = os.Getenv("C15_DASH_UNIT")

// ---------------------------------------------------------------------------------------
// one history

type hist struct {
	seed, suffix []int
}

func (h hist) all() []int { return append(append([]int(nil), h.seed...), h.suffix...) }

func (h hist) String() string {
	var sb strings.Builder
	for i, l := range h.all() {
		if i > 0 {
			sb.WriteString("; ")
		}
		sb.WriteString(letters[l].name)
	}
	if sb.Len() == 0 {
		return "(empty history)"
	}
	return sb.String()
}

var letters = alphabet()

type checker struct {
	r         *fw.R
	h         hist
	mutated   bool // a dash slice handed to SetDashes was changed behind the caller's back
	d5        []string
	dry       bool // trial comparison: record failure only
	dryFailed bool
}

func (c *checker) fail(class, detail string) {
	if c.dry {
		c.dryFailed = true
		return
	}
	c.r.Violate(class, detail)
}

// optional: a stroke-only draw whose dashes leave nothing on the path.
func (c *checker) optional(e mcall) bool {
	if e.kind != kPath || e.st.hasFill() || !e.st.hasStroke() || len(e.st.dashes) == 0 {
		return false
	}
	for _, k := range []float64{1, e.st.width} {
		empty := true
		for _, L := range subpathLengths(e.data) {
			if len(onSet(e.st.dashOffset, e.st.dashes, k, L)) != 0 {
				empty = false
			}
		}
		if empty {
			return true
		}
	}
	return false
}

// compareCall compares one observed renderer call with the expected one; false = the lists are
// out of step (different kind) and comparing further calls is pointless.
func (c *checker) compareCall(i int, e mcall, o rcall) bool {
	r := c.r
	if e.kind != o.kind {
		c.fail("call-kind", fmt.Sprintf("call %d is %s, model expects %s", i, kindNames[o.kind], kindNames[e.kind]))
		return false
	}
	if e.z != o.z {
		c.fail("zindex", fmt.Sprintf("call %d made at z-index %d, model expects %d", i, o.z, e.z))
	}
	ok, err := matClose(o.m, e.m, 1e-12)
	if !ok {
		c.fail("matrix-"+strings.ToLower(kindNames[e.kind][6:]), fmt.Sprintf("call %d %s: matrix %v, model %v (rel. error %.3g)", i, kindNames[e.kind], fromCanvas(o.m), e.m, err))
	} else if !c.dry {
		r.Max("matrix_rel_error", err)
	}
	switch e.kind {
	case kPath:
		if !floatsEq(e.data, o.data) {
			c.fail("path-data", fmt.Sprintf("call %d: path %s, expected %s", i, oracle.Fmt(o.data), oracle.Fmt(e.data)))
		}
		c.compareStyle(i, e.st, o.style, e.data)
	case kText:
		if o.text != theText && !reflect.DeepEqual(o.text, theText) {
			c.fail("text-object", fmt.Sprintf("call %d: a different *Text was rendered", i))
		}
	case kImage:
		if o.img != theImage && o.img != subImage && !reflect.DeepEqual(o.img, theImage) && !reflect.DeepEqual(o.img, subImage) {
			c.fail("image-object", fmt.Sprintf("call %d: a different image was rendered", i))
		}
	}
	return true
}

// dashFail routes dash-value discrepancies: when the caller's slice was mutated in this very
// history the root cause is the in-place edit, reported once under its own class.
func (c *checker) dashFail(class, detail string) {
	if c.dry {
		c.dryFailed = true
		return
	}
	if c.mutated {
		c.d5 = append(c.d5, class+": "+detail)
		return
	}
	c.fail(class, detail)
}

func (c *checker) out(class string) {
	if !c.dry {
		c.r.Outcome(class)
	}
}

func (c *checker) compareStyle(i int, e mstyle, o canvas.Style, data []float64) {
	at := "call " + strconv.Itoa(i) + ": "
	if o.Fill.Gradient != nil || o.Fill.Pattern != nil || o.Fill.Color != e.fill {
		c.fail("style-fill", at+fmt.Sprintf("fill %+v, expected colour %v", o.Fill, e.fill))
	}
	if int(o.FillRule) != e.rule {
		c.fail("style-fillrule", at+fmt.Sprintf("fill rule %v, expected %d", o.FillRule, e.rule))
	}
	if o.StrokeWidth != e.width {
		c.fail("style-strokewidth", at+fmt.Sprintf("stroke width %g, expected %g", o.StrokeWidth, e.width))
	}
	wantJoin := canvas.MiterJoin
	if e.roundJoin {
		wantJoin = canvas.RoundJoin
	}
	if !eqIface(o.StrokeCapper, canvas.ButtCap) || !eqIface(o.StrokeJoiner, wantJoin) {
		c.fail("style-capjoin", at+fmt.Sprintf("capper %v joiner %v, expected %v %v", o.StrokeCapper, o.StrokeJoiner, canvas.ButtCap, wantJoin))
	}
	eOn, oOn := e.hasStroke(), obsHasStroke(o)
	if oOn && (o.Stroke.Gradient != nil || o.Stroke.Pattern != nil || o.Stroke.Color != e.stroke) {
		c.fail("style-stroke", at+fmt.Sprintf("stroke %+v, expected colour %v", o.Stroke, e.stroke))
	}
	if !eOn && !oOn {
		c.out("stroke:none")
		return
	}
	exact := eOn == oOn && o.DashOffset == e.dashOffset && floatsEq(o.Dashes, e.dashes)
	okMM, okW := true, true
	full, empty := true, true
	for _, L := range subpathLengths(data) {
		for _, k := range []float64{1, e.width} {
			var es, ob []ival
			if eOn {
				es = onSet(e.dashOffset, e.dashes, k, L)
			}
			if oOn {
				ob = onSet(o.DashOffset, o.Dashes, k, L)
			}
			if !sameSet(es, ob, 1e-9) {
				if k == 1 {
					okMM = false
				} else {
					okW = false
				}
			}
			if k == 1 {
				if len(es) != 0 {
					empty = false
				}
				if !(len(es) == 1 && es[0][0] == 0 && es[0][1] == L) {
					full = false
				}
			}
		}
		if e.width == 1 {
			okW = okMM
		}
	}
	switch {
	case exact:
		c.out("stroke:dashes-recorded-as-set")
	case !oOn:
		c.out("stroke:removed-by-dash-simplification")
	case len(o.Dashes) == 0:
		c.out("stroke:dashes-simplified-to-solid")
	default:
		c.out("stroke:dashes-rewritten")
	}
	if len(e.dashes) > 0 {
		switch {
		case empty:
			c.out("dash-meaning(mm):nothing-on-path")
		case full:
			c.out("dash-meaning(mm):whole-path")
		default:
			c.out("dash-meaning(mm):proper-dashes")
		}
	}
	detail := func() string {
		return at + fmt.Sprintf("path %s (subpath lengths %v), width %g: requested stroke=%v dashes %g%v, recorded stroke=%v dashes %g%v", oracle.Fmt(data), subpathLengths(data), e.width, eOn, e.dashOffset, e.dashes, oOn, o.DashOffset, o.Dashes)
	}
	bad := false
	switch dashUnit {
	case "mm":
		bad = !okMM
	case "width":
		bad = !okW
	default:
		bad = !okMM && !okW
	}
	if bad {
		class := "style-dashes"
		if len(o.Dashes) == 0 && !c.mutated && offsetSignTrigger(e.dashOffset, e.dashes, subpathLengths(data)) {
			class = "dash-simplification-offset-sign"
		}
		if class == "style-dashes" && len(o.Dashes) == 0 && len(e.dashes)%2 == 1 && !c.mutated {
			class = "dash-simplification-odd-pattern" // dropped as if an odd-length pattern did not alternate
		}
		if n := len(e.dashes); n >= 3 && oOn && len(o.Dashes) > 0 && o.DashOffset == e.dashOffset && (e.dashes[0] == 0 || e.dashes[n-1] == 0) {
			// a zero at either end was folded away, which shifts the pattern: would the recorded
			// pattern be right with the shifted offset?
			x := e.dashOffset
			if e.dashes[0] == 0 {
				x -= e.dashes[1]
			} else {
				x += e.dashes[n-2]
			}
			same := true
			for _, L := range subpathLengths(data) {
				if !sameSet(onSet(e.dashOffset, e.dashes, 1, L), onSet(x, o.Dashes, 1, L), 1e-9) {
					same = false
				}
			}
			if same {
				c.fail("dash-canonical-offset-dropped", detail()+fmt.Sprintf("; the recorded pattern would be right with dash offset %g", x))
				return
			}
		}
		c.dashFail(class, detail()+fmt.Sprintf("; equivalent with lengths in mm: %v, in stroke widths: %v", okMM, okW))
		return
	}
	if okMM != okW {
		if okMM {
			c.out("note:recorded-dashes-equivalent-only-if-lengths-are-mm-not-stroke-widths(D20)")
			noteOnce("D20", "dash simplification against the path length holds only for dash lengths in mm, not in stroke widths as the renderers scale them: "+c.h.String()+" -> "+detail())
		} else {
			c.out("note:recorded-dashes-equivalent-only-if-lengths-are-stroke-widths")
		}
	}
}

// offsetSignTrigger names, from the input alone, the situation in which the pattern is dropped
// wrongly when the part of the first element that lies before the path start is added to instead
// of subtracted from its length: the path is longer than what is left of the element it starts
// in (rem) but not longer than the element plus the part already consumed (d[i]+into).
func offsetSignTrigger(offset float64, d []float64, lens []float64) bool {
	if len(d) >= 3 && d[0] == 0 { // a leading zero-length dash: gap d[1] joins the last gap
		nd := append([]float64(nil), d[2:]...)
		nd[len(nd)-1] += d[1]
		offset, d = offset-d[1], nd
	}
	total, length := 0.0, 0.0
	for _, v := range d {
		total += v
	}
	for _, l := range lens {
		length += l
	}
	if !(total > 0) {
		return false
	}
	into := math.Mod(offset, total)
	if into < 0 {
		into += total
	}
	i := 0
	for d[i] <= into {
		into -= d[i]
		i = (i + 1) % len(d)
	}
	return into > 0 && d[i]-into < length && length <= d[i]+into
}

var (
	noteMu   sync.Mutex
	noteSeen = map[string]bool{}
	curR     *fw.R
)

func noteOnce(key, s string) {
	noteMu.Lock()
	defer noteMu.Unlock()
	if noteSeen[key] || curR == nil {
		return
	}
	noteSeen[key] = true
	if os.Getenv("C15_NOTES") != "" { // opt-in: one note per worker process
		curR.Notes = append(curR.Notes, s)
	}
}

// compareState compares the Context's observable state with a model state; prefix is "state"
// (after the history) or "pop" (after popping the stack down).
func (c *checker) compareState(prefix string, whenf func() string, ctx *canvas.Context, s mstate, w, h float64) {
	o := ctx.Style
	wantJoin := canvas.MiterJoin
	if s.st.roundJoin {
		wantJoin = canvas.RoundJoin
	}
	rest := o.Fill.Gradient == nil && o.Fill.Pattern == nil && o.Fill.Color == s.st.fill &&
		o.Stroke.Gradient == nil && o.Stroke.Pattern == nil && o.Stroke.Color == s.st.stroke &&
		o.StrokeWidth == s.st.width && int(o.FillRule) == s.st.rule &&
		eqIface(o.StrokeCapper, canvas.ButtCap) && eqIface(o.StrokeJoiner, wantJoin)
	dash := o.DashOffset == s.st.dashOffset && floatsEq(o.Dashes, s.st.dashes)
	if !rest {
		c.fail(prefix+"-style", fmt.Sprintf("%s: Context.Style = {fill:%v stroke:%v w:%g rule:%v cap:%v join:%v}, model %v", whenf(), o.Fill, o.Stroke, o.StrokeWidth, o.FillRule, o.StrokeCapper, o.StrokeJoiner, s.st))
	}
	if !dash {
		c.dashFail(prefix+"-style", fmt.Sprintf("%s: Context.Style dashes = %g%v, model %g%v", whenf(), o.DashOffset, o.Dashes, s.st.dashOffset, s.st.dashes))
	}
	if ok, e := matClose(ctx.View(), s.view, 1e-12); !ok {
		c.fail(prefix+"-view", fmt.Sprintf("%s: View() = %v, model %v (rel. error %.3g)", whenf(), fromCanvas(ctx.View()), s.view, e))
	} else {
		c.r.Max("view_rel_error", e)
	}
	if ok, _ := matClose(ctx.CoordView(), s.cview, 0); !ok {
		c.fail(prefix+"-coordview", fmt.Sprintf("%s: CoordView() = %v, model %v", whenf(), fromCanvas(ctx.CoordView()), s.cview))
	}
	if ok, _ := matClose(ctx.CoordSystemView(), coordSystemView(s.cs, w, h), 1e-12); !ok {
		c.fail(prefix+"-coordsystem", fmt.Sprintf("%s: CoordSystemView() = %v, model system %d gives %v", whenf(), fromCanvas(ctx.CoordSystemView()), s.cs, coordSystemView(s.cs, w, h)))
	}
}

func runHistory(ctx *canvas.Context, h []int) *exec {
	x := &exec{ctx: ctx}
	for _, l := range h {
		letters[l].real(x)
	}
	return x
}

func sortByZ(calls []rcall) []rcall {
	out := append([]rcall(nil), calls...)
	sort.SliceStable(out, func(i, j int) bool { return out[i].z < out[j].z })
	return out
}

func listString(cs []rcall) string {
	var sb strings.Builder
	for i, c := range cs {
		fmt.Fprintf(&sb, "\n   %d: %v", i, c)
	}
	return sb.String()
}

var (
	viewMat = mat{0.5, -1, 2, 1.5, 1, -3}
	xfMat   = mat{1, 0.5, -2, -1, 2, 3}
	clipR   = canvas.Rect{X0: 1, Y0: 0.5, X1: 7, Y1: 4.5}
)

const fitMargin = 0.75

func check(h hist, r *fw.R, withKey bool) {
	assets()
	curR = r
	c := &checker{r: r, h: h}
	seq := h.all()

	// model
	m := &mrun{model: newModel(canvasW, canvasH), pend: &canvas.Path{}}
	popsOnEmpty := 0
	for _, l := range seq {
		if l == 1 && len(m.stack) == 0 {
			popsOnEmpty++
		}
		letters[l].mod(m)
	}
	r.States++
	r.Transitions++
	r.Validated++
	r.Count("context_calls_executed", int64(2*len(seq)))

	// run A: the Context wraps the recording renderer directly
	recA := &recorder{w: canvasW, h: canvasH}
	ctxA := canvas.NewContext(recA)
	xa := runHistory(ctxA, seq)
	for _, da := range xa.dashArgs {
		if !floatsEq(da[0], da[1]) {
			c.mutated = true
			c.d5 = append(c.d5, fmt.Sprintf("caller-dash-slice: the slice handed to SetDashes was %v and is now %v", da[1], da[0]))
			break
		}
	}
	for i, p := range xa.paths {
		if !floatsEq(p.Data(), xa.pathData[i]) {
			c.fail("caller-path-mutated", fmt.Sprintf("path handed to DrawPath was %s and is now %s", oracle.Fmt(xa.pathData[i]), oracle.Fmt(p.Data())))
		}
	}
	// Align observed with expected calls. Calls without visible effect (empty path, neither fill
	// nor stroke) may be made or not: the statement is silent. An expected stroke-only call whose
	// dash pattern leaves nothing on the path (in either reading of the dash unit) is optional too.
	obs := recA.calls
	same := func(e mcall, o rcall) bool { // the same draw: kind, geometry, place
		if e.kind != o.kind || !floatsEq(e.data, o.data) {
			return false
		}
		ok, _ := matClose(o.m, e.m, 1e-12)
		return ok
	}
	j := 0
	for i := 0; i < len(m.calls); i++ {
		e := m.calls[i]
		for j < len(obs) && !obs[j].visible() && !same(e, obs[j]) {
			r.Outcome("observed-call-without-visible-effect-ignored")
			j++
		}
		if c.optional(e) {
			pair := j < len(obs) && same(e, obs[j])
			if pair {
				c.dry, c.dryFailed = true, false
				c.compareCall(i, e, obs[j])
				c.dry = false
				if c.dryFailed && i+1 < len(m.calls) && same(m.calls[i+1], obs[j]) {
					c.dry, c.dryFailed = true, false
					c.compareCall(i+1, m.calls[i+1], obs[j])
					c.dry = false
					if !c.dryFailed {
						pair = false // the call belongs to the next draw of the same path
					}
				}
			}
			if !pair {
				r.Outcome("draw-with-nothing-to-stroke:no-call")
				continue
			}
			r.Outcome("draw-with-nothing-to-stroke:call-made")
		}
		if j >= len(obs) {
			c.fail("call-count", fmt.Sprintf("renderer calls exhausted, the model expects call %d (%s at z=%d) as well; observed:%s", i, kindNames[e.kind], e.z, listString(obs)))
			break
		}
		if !c.compareCall(i, e, obs[j]) {
			j = len(obs)
			break
		}
		j++
	}
	for ; j < len(obs); j++ {
		if obs[j].visible() {
			c.fail("call-count", fmt.Sprintf("renderer call %d is not expected by the model (%d calls); observed:%s", j, len(m.calls), listString(obs)))
			break
		}
		r.Outcome("observed-call-without-visible-effect-ignored")
	}
	// state after the history, then the whole stack popped down (one Pop too many at the end)
	c.compareState("state", func() string { return "after the history" }, ctxA, m.cur, canvasW, canvasH)
	depth := len(m.stack)
	for k := 1; k <= depth+1; k++ {
		ctxA.Pop()
		m.pop()
		k := k
		c.compareState("pop", func() string { return fmt.Sprintf("after %d further Pop() (stack depth was %d)", k, depth) }, ctxA, m.cur, canvasW, canvasH)
	}

	// tallies
	switch n := len(m.calls); {
	case n == 0:
		r.Outcome("layers:0")
	case n == 1:
		r.Outcome("layers:1")
	case n == 2:
		r.Outcome("layers:2")
	default:
		r.Outcome("layers:3+")
	}
	zs := map[int]bool{}
	deep := false
	for _, e := range m.calls {
		zs[e.z] = true
		r.Outcome(drawTally[e.kind][e.cs])
		if e.depth > 0 {
			deep = true
		}
	}
	if deep {
		r.Outcome("draw-with-non-empty-stack")
	}
	if popsOnEmpty > 0 {
		r.Outcome("pop-on-empty-stack")
	}
	if depth > 0 {
		r.Outcome("history-ends-with-non-empty-stack")
	}
	r.Max("stack_depth", float64(depth))
	r.Max("layers", float64(len(m.calls)))
	if len(zs) > 1 {
		r.Outcome("z-levels:2+")
	}

	// run B: the Context wraps a real Canvas; replay it
	cv := canvas.New(canvasW, canvasH)
	ctxB := canvas.NewContext(cv)
	xb := runHistory(ctxB, seq)
	for _, p := range xb.paths { // the caller goes on using his paths; recorded layers must not follow
		p.LineTo(9, 9)
	}
	want := sortByZ(recA.calls)
	reordered := false
	for i := range want {
		if !eqCall(want[i], recA.calls[i]) {
			reordered = true
		}
	}
	if reordered {
		r.Outcome("z-order-differs-from-draw-order")
	}
	rawZ := map[int]bool{}
	for _, oc := range recA.calls { // all calls, also the ones without visible effect: they are layers too
		rawZ[oc.z] = true
	}
	reps := 1
	if len(rawZ) > 1 {
		// the layers live in a map: an unsorted iteration must not slip through by luck (a small Go
		// map iterates in insertion order from a random start: two keys come out swapped 1 in 8 times)
		reps = 128
	}
	var list0 []rcall
	replayOK := true
	for rep := 0; rep < reps; rep++ {
		recB := &recorder{w: canvasW, h: canvasH}
		cv.RenderTo(recB)
		list0 = recB.calls
		if !c.compareReplay(list0, want) {
			replayOK = false
			break
		}
	}
	if len(c.d5) > 0 {
		c.fail("dashes-mutated-in-place", strings.Join(c.d5, " | "))
	}

	// run C: the same history on another Canvas that is rendered after every call (previews
	// between the calls must not change what the final rendering replays: a Canvas may not keep
	// anything derived from its layers across renderings that later calls invalidate)
	if replayOK {
		cvC := canvas.New(canvasW, canvasH)
		xc := &exec{ctx: canvas.NewContext(cvC)}
		for _, l := range seq {
			letters[l].real(xc)
			cvC.RenderTo(&recorder{w: canvasW, h: canvasH})
		}
		for _, p := range xc.paths {
			p.LineTo(9, 9)
		}
		got := replay(cvC)
		same := len(got) == len(list0)
		for i := 0; same && i < len(got); i++ {
			same = eqCall(got[i], list0[i])
		}
		if !same {
			c.fail("replay-after-previews", fmt.Sprintf("a Canvas that was rendered after every call replays %d calls at the end, the same history without intermediate renderings %d; with previews:%s\n  without:%s", len(got), len(list0), listString(got), listString(list0)))
		}
	}

	if withKey {
		r.Nontrivial(stateKey(m, recA.calls))
	}
	if len(list0) == 0 || !replayOK {
		return // nothing to move, or no reliable starting point for the Canvas-level checks
	}
	c.canvasOps(cv, list0)
}

var drawTally = func() (t [3][4]string) {
	for k, kn := range []string{"path", "text", "image"} {
		for s, sn := range []string{"I", "II", "III", "IV"} {
			t[k][s] = "draw:" + kn + "-in-Cartesian" + sn
		}
	}
	return
}()

func (c *checker) compareReplay(got, want []rcall) bool {
	if len(got) != len(want) {
		c.fail("replay-count", fmt.Sprintf("RenderTo made %d calls, %d were recorded; replayed:%s\n  recorded (z order):%s", len(got), len(want), listString(got), listString(want)))
		return false
	}
	for i := range got {
		if eqCall(got[i], want[i]) {
			continue
		}
		// a permutation of the recorded calls?
		used := make([]bool, len(want))
		perm := true
		for _, g := range got {
			found := false
			for j, w := range want {
				if !used[j] && eqCall(g, w) {
					used[j], found = true, true
					break
				}
			}
			if !found {
				perm = false
				break
			}
		}
		class := "replay-layer"
		if perm {
			class = "replay-order"
		}
		detail := fmt.Sprintf("call %d of the replay differs from what the Context handed to the Canvas (ascending z-index, then draw order); replayed:%s\n  recorded:%s", i, listString(got), listString(want))
		if !perm && c.mutated && sameButDashes(got, want) {
			c.d5 = append(c.d5, "replay-layer: "+detail)
		} else {
			c.fail(class, detail)
		}
		return false
	}
	return true
}

func sameButDashes(a, b []rcall) bool {
	for i := range a {
		x, y := a[i], b[i]
		x.style.Dashes, y.style.Dashes = nil, nil
		x.style.DashOffset, y.style.DashOffset = 0, 0
		if !eqCall(x, y) {
			return false
		}
	}
	return true
}

// sameButMatrix: everything except the matrix is exactly equal.
func sameButMatrix(a, b rcall) bool {
	a.m, b.m = canvas.Matrix{}, canvas.Matrix{}
	return eqCall(a, b)
}

func replay(cv *canvas.Canvas) []rcall {
	rec := &recorder{}
	rec.w, rec.h = cv.Size()
	cv.RenderTo(rec)
	return rec.calls
}

func (c *checker) movedBy(class, what string, got, prev []rcall, left mat, tol float64) bool {
	if len(got) != len(prev) {
		c.fail(class, fmt.Sprintf("%s: %d calls, %d before", what, len(got), len(prev)))
		return false
	}
	for i := range got {
		if !sameButMatrix(got[i], prev[i]) {
			c.fail(class, fmt.Sprintf("%s: call %d changed other than by its matrix: %v, before %v", what, i, got[i], prev[i]))
			return false
		}
		wantM := mul(left, fromCanvas(prev[i].m))
		if ok, e := matClose(got[i].m, wantM, tol); !ok {
			c.fail(class, fmt.Sprintf("%s: call %d has matrix %v, expected %v x %v = %v (rel. error %.3g)", what, i, fromCanvas(got[i].m), left, fromCanvas(prev[i].m), wantM, e))
			return false
		}
	}
	return true
}

// contentBounds: bounds of the layer's own geometry under its recorded matrix, by the oracle's
// dense evaluation. ok=false when the layer has no extent that the statement speaks about.
// contentBounds: the extent of a layer in canvas space; with tips the tips of its miter joins are included.
func contentBounds(l rcall, withTips bool) (lo, hi oracle.Pt, ok bool) {
	var pts []oracle.Pt
	switch l.kind {
	case kPath:
		if len(l.data) == 0 {
			return
		}
		pls := oracle.DenseData(l.data, 32)
		a, b, any := oracle.BBox(pls)
		if !any {
			return
		}
		flat := a.X == b.X || a.Y == b.Y
		if !(obsHasStroke(l.style) || (obsHasFill(l.style) && !flat)) {
			return // invisible, or a fill without area
		}
		for _, pl := range pls {
			pts = append(pts, pl.P...)
		}
		if obsHasStroke(l.style) {
			body, tips := strokeExtentPoints(l, pls)
			pts = append(pts, body...)
			if withTips {
				pts = append(pts, tips...)
			}
		}
	case kImage:
		sz := l.img.Bounds().Size()
		pts = []oracle.Pt{{X: 0, Y: 0}, {X: float64(sz.X), Y: 0}, {X: float64(sz.X), Y: float64(sz.Y)}, {X: 0, Y: float64(sz.Y)}}
	default:
		return // text: outline not available independently
	}
	m := fromCanvas(l.m)
	lo = oracle.Pt{X: math.Inf(1), Y: math.Inf(1)}
	hi = oracle.Pt{X: math.Inf(-1), Y: math.Inf(-1)}
	for _, p := range pts {
		x, y := m.apply(p.X, p.Y)
		lo.X, lo.Y = math.Min(lo.X, x), math.Min(lo.Y, y)
		hi.X, hi.Y = math.Max(hi.X, x), math.Max(hi.Y, y)
	}
	return lo, hi, true
}

// strokeExtentPoints: points of the stroked region (layer space) that reach furthest out: the two
// sides of every piece of the centre line at half the width (the body of the stroke, also what a
// round join covers), and the tip of every miter join between two straight segments that the
// default joiner (miter limit 4, bevel beyond) draws. Dashes only remove parts of this.
func strokeExtentPoints(l rcall, pls []oracle.Polyline) (out, tips []oracle.Pt) {
	hw := l.style.StrokeWidth / 2
	for _, pl := range pls {
		for i := 0; i+1 < len(pl.P); i++ {
			a, b := pl.P[i], pl.P[i+1]
			d := b.Sub(a)
			n := d.Len()
			if n == 0 {
				continue
			}
			nx, ny := -d.Y/n*hw, d.X/n*hw
			out = append(out, oracle.Pt{X: a.X + nx, Y: a.Y + ny}, oracle.Pt{X: a.X - nx, Y: a.Y - ny}, oracle.Pt{X: b.X + nx, Y: b.Y + ny}, oracle.Pt{X: b.X - nx, Y: b.Y - ny})
		}
	}
	mj, ok := l.style.StrokeJoiner.(canvas.MiterJoiner)
	if !ok || len(l.style.Dashes) > 0 {
		return out, nil
	}
	if _, bevel := mj.GapJoiner.(canvas.BevelJoiner); !bevel || math.IsNaN(mj.Limit) {
		return out, nil
	}
	sps, err := oracle.Decode(l.data)
	if err != nil {
		return out, nil
	}
	for _, sp := range sps {
		var segs []oracle.Seg
		for _, sg := range sp.Segs {
			if sg.Kind != oracle.CmdLine && sg.Kind != oracle.CmdClose {
				segs = nil // a curve: its joins are not modelled
				break
			}
			if sg.P0 != sg.P1 {
				segs = append(segs, sg)
			}
		}
		for i := range segs {
			j := i + 1
			if j == len(segs) {
				if !sp.Closed {
					break
				}
				j = 0
			}
			d0, d1 := segs[i].P1.Sub(segs[i].P0), segs[j].P1.Sub(segs[j].P0)
			l0, l1 := d0.Len(), d1.Len()
			u0, u1 := oracle.Pt{X: d0.X / l0, Y: d0.Y / l0}, oracle.Pt{X: d1.X / l1, Y: d1.Y / l1}
			cross, dot := u0.Cross(u1), u0.X*u1.X+u0.Y*u1.Y
			if math.Abs(cross) < 1e-9 {
				continue // straight on, or a reversal (bevel)
			}
			half := math.Atan2(math.Abs(cross), dot) / 2 // half the turning angle
			ml := hw / math.Cos(half)                    // vertex to miter tip
			if ml > math.Max(mj.Limit, 1.001)*hw {
				continue // beyond the limit: bevel, within the body
			}
			// the tip lies on the outer side, along the sum of the outward normals
			side := 1.0
			if cross > 0 { // left turn: the outer side is on the right
				side = -1
			}
			bx, by := side*(-u0.Y-u1.Y), side*(u0.X+u1.X)
			bl := math.Hypot(bx, by)
			v := segs[i].P1
			tips = append(tips, oracle.Pt{X: v.X + bx/bl*ml, Y: v.Y + by/bl*ml})
		}
	}
	return out, tips
}

func (c *checker) canvasOps(cv *canvas.Canvas, list0 []rcall) {
	r := c.r
	// RenderViewTo: the view is applied on the left of every layer matrix
	rec := &recorder{w: canvasW, h: canvasH}
	cv.RenderViewTo(rec, toCanvas(viewMat))
	c.movedBy("renderview", "RenderViewTo(view)", rec.calls, list0, viewMat, 1e-12)
	if w, h := cv.Size(); w != canvasW || h != canvasH {
		c.fail("canvas-size", fmt.Sprintf("Size() = %g x %g after drawing", w, h))
	}

	// Transform(m): all content moves by m
	cv.Transform(toCanvas(xfMat))
	list1 := replay(cv)
	if !c.movedBy("transform", "after Transform(m)", list1, list0, xfMat, 1e-12) {
		return
	}
	// Clip(rect): the canvas becomes the rectangle
	cv.Clip(clipR)
	list2 := replay(cv)
	if !c.movedBy("clip-content", "after Clip(rect)", list2, list1, mTranslate(-clipR.X0, -clipR.Y0), 1e-12) {
		return
	}
	if w, h := cv.Size(); math.Abs(w-(clipR.X1-clipR.X0)) > 1e-12 || math.Abs(h-(clipR.Y1-clipR.Y0)) > 1e-12 {
		c.fail("clip-size", fmt.Sprintf("Size() = %g x %g after Clip(%v)", w, h, clipR))
	}
	// Fit(margin): one common translation, afterwards everything lies within the margins
	cv.Fit(fitMargin)
	list3 := replay(cv)
	if len(list3) == 0 {
		c.fail("fit-translation", "no layers left after Fit")
		return
	}
	tx := list3[0].m[0][2] - list2[0].m[0][2]
	ty := list3[0].m[1][2] - list2[0].m[1][2]
	if !c.movedBy("fit-translation", fmt.Sprintf("after Fit(%g)", fitMargin), list3, list2, mTranslate(tx, ty), 1e-9) {
		return
	}
	w, h := cv.Size()
	any := false
	slack := 0.0
	for i, l := range list3 {
		lo, hi, ok := contentBounds(l, false)
		if !ok {
			r.Outcome("fit:layer-without-checkable-extent")
			continue
		}
		any = true
		const eps = 1e-9
		if lo.X < fitMargin-eps || lo.Y < fitMargin-eps || hi.X > w-fitMargin+eps || hi.Y > h-fitMargin+eps {
			c.fail("fit-containment", fmt.Sprintf("after Fit(%g) the canvas is %g x %g but layer %d (%v) spans (%.12g,%.12g)-(%.12g,%.12g) (centre line and the stroke at half its width to either side)", fitMargin, w, h, i, l, lo.X, lo.Y, hi.X, hi.Y))
			return
		}
		if tlo, thi, _ := contentBounds(l, true); tlo.X < fitMargin-eps || tlo.Y < fitMargin-eps || thi.X > w-fitMargin+eps || thi.Y > h-fitMargin+eps {
			c.fail("fit-containment:miter-tip", fmt.Sprintf("after Fit(%g) the canvas is %g x %g but with the tips of its miter joins layer %d (%v) spans (%.12g,%.12g)-(%.12g,%.12g)", fitMargin, w, h, i, l, tlo.X, tlo.Y, thi.X, thi.Y))
			return
		}
		slack = math.Max(slack, math.Max(math.Max(lo.X-fitMargin, lo.Y-fitMargin), math.Max(w-fitMargin-hi.X, h-fitMargin-hi.Y)))
	}
	if any {
		r.Outcome("fit:content-within-margins")
		r.Max("fit_largest_gap_between_content_and_margin", slack)
	}
}

// stateKey is the canonical dump: model state (style, view, coordinate view and system, stack,
// z-index, pending path) and the calls the renderer saw.
func stateKey(m *mrun, calls []rcall) string {
	var sb strings.Builder
	fmt.Fprintf(&sb, "%v|%v|%d|%v|", m.cur, m.stack, m.z, m.pend.Data())
	for _, c := range calls {
		fmt.Fprintf(&sb, "%d,%d,%v,%v,%v;", c.kind, c.z, c.data, c.style, c.m)
	}
	return sb.String()
}

// ---------------------------------------------------------------------------------------
// families

func pow(a int64, n int) int64 {
	p := int64(1)
	for i := 0; i < n; i++ {
		p *= a
	}
	return p
}

func spaceSize(a int64, depth int) int64 {
	n := int64(0)
	for d := 0; d <= depth; d++ {
		n += pow(a, d)
	}
	return n
}

// decode maps an index to a suffix: length-lexicographic, shortest histories first.
func decode(i int64, a int64, depth int) []int {
	n := 0
	for ; n <= depth; n++ {
		if c := pow(a, n); i < c {
			break
		} else {
			i -= c
		}
	}
	s := make([]int, n)
	for k := n - 1; k >= 0; k-- {
		s[k] = int(i % a)
		i /= a
	}
	return s
}

func indexOf(name string) int {
	for i, l := range letters {
		if l.name == name {
			return i
		}
	}
	panic("c15: no letter " + name)
}

// historyFamily enumerates, after the fixed prefix seedNames, every sequence over the letters
// in set (indices into the full alphabet) with minLen <= length <= maxLen.
func historyFamily(label string, set []int, seedNames []string, minLen, maxLen, keyDepth int) fw.Family {
	a := int64(len(set))
	var seed []int
	for _, n := range seedNames {
		seed = append(seed, indexOf(n))
	}
	skip := int64(0)
	if minLen > 0 {
		skip = spaceSize(a, minLen-1)
	}
	lens := fmt.Sprintf("<=%d", maxLen)
	if minLen == maxLen {
		lens = fmt.Sprintf("exactly %d", maxLen)
	} else if minLen > 0 {
		lens = fmt.Sprintf("%d..%d", minLen, maxLen)
	}
	name := fmt.Sprintf("all histories of %s Context calls over the %s alphabet (%d calls)", lens, label, a)
	if len(seed) > 0 {
		name = fmt.Sprintf("after [%s]: all continuations of %s calls over the %s alphabet (%d calls)", strings.Join(seedNames, "; "), lens, label, a)
	}
	mk := func(i int64) hist {
		d := decode(i+skip, a, maxLen)
		for k := range d {
			d[k] = set[d[k]]
		}
		return hist{seed: seed, suffix: d}
	}
	return fw.Family{
		Name: name, N: spaceSize(a, maxLen) - skip,
		Check: func(i int64, r *fw.R) {
			h := mk(i)
			check(h, r, len(h.suffix) <= keyDepth)
		},
		Desc: func(i int64) string { return mk(i).String() },
	}
}

var seeds = [][]string{
	{"SetStrokeColor(blue)", "SetStrokeWidth(0.5)", "SetDashes(0.5, 6,2)"},
	{"SetStrokeColor(blue)", "SetFillColor(transparent)", "SetDashes(-0.25, 0.75)"},
	{"SetCoordSystem(CartesianIII)", "SetCoordView([2 1 1; 0 -1 5])", "Push()", "Rotate(90)"},
	{"SetZIndex(1)", "DrawPath(1,2, M0 0L2 0Q2 1.5 0 1z)", "SetZIndex(-1)", "DrawText(2,3,\"Hi\")"},
	{"Push()", "SetCoordSystem(CartesianIV)", "Push()", "SetView([0 -2 4; 1 0.5 -1])", "LineTo(4,0)", "LineTo(4,3)"},
}

// notCore lists the calls left out of the deepest enumeration (variants of calls that stay in).
var notCore = []string{
	"SetStrokeColor(rgba(0,64,0,128))", "SetStrokeJoiner(RoundJoin)", "SetDashes(-0.25, 0.75)", "SetFillRule(NonZero)", "ResetStyle()",
	"DrawPath(0,0, M0 0L0.5 0)", "ReflectX()", "ReflectY()", "ReflectYAbout(1.5)", "ScaleAbout(2,0.5,1,1)", "ShearAbout(0,0.5,1,2)", "SetZIndex(0)",
	"CubeTo(1,2,3,2,4,0)", "ArcTo(2,1,30,false,true,4,2)", "Arc(1,1,0,0,90)", "SetDashes(-0.6, 0.75)",
	"DrawImage(2,0.5, 3x2px sub-image with bounds from (2,1), 2px/mm)",
}

func letterSets() (full, core []int) {
	drop := map[int]bool{}
	for _, n := range notCore {
		drop[indexOf(n)] = true
	}
	for i := range letters {
		full = append(full, i)
		if !drop[i] {
			core = append(core, i)
		}
	}
	return
}

func families(tier string) []fw.Family {
	full, core := letterSets()
	depth := 4
	if s := os.Getenv("C15_DEPTH"); s != "" {
		fmt.Sscan(s, &depth)
	}
	fs := []fw.Family{fitImageFamily(), resizeFamily(), historyFamily("full", full, nil, 0, depth, 3)}
	if tier == "thorough" {
		fs = append(fs, historyFamily("core", core, nil, 5, 5, 0))
		for _, s := range seeds {
			fs = append(fs, historyFamily("core", core, s, 0, 4, 2))
		}
	} else {
		for _, s := range seeds {
			fs = append(fs, historyFamily("full", full, s, 0, 3, 2))
		}
	}
	return fs
}

var (
	reZeroDash   = regexp.MustCompile(`SetDashes\(0, (0\.5,0,0\.5,1|0,1,2,3)\)`)
	reDrawAfter  = regexp.MustCompile(`SetDashes\(0, (0\.5,0,0\.5,1|0,1,2,3)\).*(DrawPath|Fill\(\)|Stroke\(\)|FillStroke\(\))`)
	reOffsetDash = regexp.MustCompile(`SetDashes\((0\.5, 6,2|-1, 6|-0\.25, 0\.75|6\.5, 6,9|0, 0,1,2,3)\)`)
	reOddDash    = regexp.MustCompile(`SetDashes\((-1, 6|-0\.25, 0\.75)\)`)
)

// Prop is the C15 check.
func Prop() *fw.Property {
	return &fw.Property{
		ID:    "C15",
		Level: "model_checking",
		Rule: "explicit enumeration of the history tree: every sequence of <=4 calls from a 52-call alphabet (Push, Pop, 4 coordinate systems, fill/stroke colours, widths, joiner, 7 dash patterns incl. two with a 0, fill rules, ResetStyle, 12 view compositions, SetView, ResetView, SetCoordView, 3 z-indices, 3 DrawPath, DrawText, DrawImage, MoveTo/LineTo, Fill/Stroke/FillStroke) on a Context, plus all continuations of <=3 calls after five fixed prefixes (quick); thorough adds every sequence of exactly 5 calls over a 40-call core alphabet and the continuations of <=4 core calls after the prefixes; " +
			"state = one history (tree node), transition = its last call; every history is run on NewContext(recording renderer) and on NewContext(canvas.New(10,6)) and compared with the matrix/style stack model: renderer calls (count, order, z-index, path data bit-for-bit, style, matrix 1e-12), Context state after the history and after popping the whole stack and once more, Canvas replay = recorded calls in ascending z then draw order (exact, with the callers' paths edited afterwards), RenderViewTo/Transform/Clip/Fit; " +
			"distinct_nontrivial = distinct canonical dumps (model state + recorded calls) among the unprefixed histories of <=3 calls and the prefixed ones with <=2 further calls",
		Assumptions: []string{
			"bounded depth and the fixed argument menu; gradients/patterns and SetStrokeCapper are outside the alphabet (FitImage has its own family: 4 coordinate systems x 3 fits x 4 images x 3 rectangles x 3 views x coordinate view on/off)",
			"Path.MoveTo/LineTo (C10) build the expected pending path; image/color conversion of color.RGBA values is the identity",
			"a recorded dash pattern counts as the requested one when the set of stroked arc-length intervals on every subpath is the same (1e-9) with dash lengths read in mm (SetDashes doc) or in stroke widths (canvas.ScaleDash, all renderers); the two readings differ and the statement does not choose: see the note:…(D20) outcome class; C15_DASH_UNIT=mm|width insists on one",
			"renderer calls with an empty path or with neither fill nor stroke are ignored on both sides (the statement does not say whether they are made)",
			"Fit: containment is checked for path geometry (centre line, by the oracle's dense evaluation) and image rectangles; stroke outlines and text outlines are not re-derived independently (text layers are only checked to move with the common translation)",
		},
		Families: families,
		KnownPredicates: map[string]func(v *fw.Violation) bool{
			// dashCanonical edits the slice in place: needs a pattern with a 0 and a path draw after it
			"dash-slice-mutated": func(v *fw.Violation) bool {
				return v.Class == "dashes-mutated-in-place" && reZeroDash.MatchString(v.Case) && reDrawAfter.MatchString(v.Case)
			},
			// checkDash compares the path length with d[i]-pos instead of d[i]+pos: needs a non-zero dash offset
			"dash-offset-sign": func(v *fw.Violation) bool {
				return v.Class == "dash-simplification-offset-sign" && reOffsetDash.MatchString(v.Case)
			},
			// checkDash locates the first element in an odd-length pattern without doubling it as Dash does
			"dash-odd-pattern": func(v *fw.Violation) bool {
				return v.Class == "dash-simplification-odd-pattern" && reOddDash.MatchString(v.Case)
			},
			// DrawPath records the canonical dash pattern but keeps the un-shifted dash offset
			"dash-offset-dropped": func(v *fw.Violation) bool {
				return v.Class == "dash-canonical-offset-dropped" && strings.Contains(v.Case, "SetDashes(0, 0,1,2,3)")
			},
		},
	}
}
