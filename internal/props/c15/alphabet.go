package c15

import (
	"image"
	"image/color"
	"os"
	"path/filepath"
	"sync"

	"github.com/tdewolff/canvas"
)

const (
	canvasW = 10.0 // asymmetric on purpose
	canvasH = 6.0
)

// exec is the implementation side of one run of a history.
type exec struct {
	ctx      *canvas.Context
	dashArgs [][2][]float64 // slice handed to SetDashes, and a private copy of its values
	paths    []*canvas.Path // path objects handed to DrawPath
	pathData [][]float64    // private copies of their data
}

// mrun is the model side: the matrix/style machine plus the pending path, which is built with
// canvas.Path directly (Path building is C10's subject and part of the trusted base here).
type mrun struct {
	*model
	pend *canvas.Path
}

type letter struct {
	name string
	real func(x *exec)
	mod  func(m *mrun)
}

func toCanvas(m mat) canvas.Matrix {
	return canvas.Matrix{{m[0], m[1], m[2]}, {m[3], m[4], m[5]}}
}
func fromCanvas(m canvas.Matrix) mat {
	return mat{m[0][0], m[0][1], m[0][2], m[1][0], m[1][1], m[1][2]}
}

// Path data: cmd,args…,cmd with Move=1 Line=2 Quad=4 Close=32.
var (
	p1Data = []float64{1, 0, 0, 1, 2, 2, 0, 2, 4, 2, 1.5, 0, 1, 4, 32, 0, 0, 32} // M0 0L2 0Q2 1.5 0 1z
	p2Data = []float64{1, 0, 0, 1, 2, 4, 0, 2, 2, 4, 1, 2}                       // M0 0L4 0L4 1 (open, length 5)
	p3Data = []float64{1, 0, 0, 1, 2, 0.5, 0, 2}                                 // M0 0L0.5 0 (shorter than every dash element)
)

var (
	colRed   = color.RGBA{255, 0, 0, 255}
	colNone  = color.RGBA{0, 0, 0, 0}
	colBlue  = color.RGBA{0, 0, 255, 255}
	colGreen = color.RGBA{0, 64, 0, 128} // premultiplied, half transparent

	dashZero  = []float64{0.5, 0, 0.5, 1} // contains a zero: means dash 1, gap 1
	dashLong  = []float64{6, 2}           // longer than every path here when taken in mm
	dashShort = []float64{0.75}           // odd length: 0.75 on, 0.75 off
	dashLead  = []float64{0, 1, 2, 3}     // leading zero: gap 1, dash 2, gap 3
	dashGap   = []float64{6, 9}           // with offset 6.5 every path here lies in the first gap
	dashOdd   = []float64{6}              // odd length, negative offset: gap [0,1], then a dash of 6

	matCompose = mat{1, 2, 3, -1, 1, 0.5}
	matSet     = mat{0, -2, 4, 1, 0.5, -1}
	matCoord   = mat{2, 1, 1, 0, -1, 5}
)

const (
	imgW, imgH = 3, 2 // pixels
	imgRes     = 2.0  // pixels per millimetre
)

var (
	onceAssets sync.Once
	theText    *canvas.Text
	theImage   image.Image
	subImage   image.Image // the same pixels as a sub-image whose bounds do not start at the origin
)

func repoDir() string {
	if d := os.Getenv("REPO"); d != "" {
		return d
	}
	return "/repo"
}

func assets() {
	onceAssets.Do(func() {
		family := canvas.NewFontFamily("dejavu-serif")
		if err := family.LoadFontFile(filepath.Join(repoDir(), "resources", "DejaVuSerif.ttf"), canvas.FontRegular); err != nil {
			panic("c15: cannot load font: " + err.Error())
		}
		face := family.Face(10.0, canvas.Black, canvas.FontRegular, canvas.FontNormal)
		theText = canvas.NewTextLine(face, "Hi", canvas.Left)
		img := image.NewNRGBA(image.Rect(0, 0, imgW, imgH))
		img.Set(0, 0, colRed)
		img.Set(2, 1, colBlue)
		theImage = img
		big := image.NewNRGBA(image.Rect(0, 0, 7, 5))
		big.Set(2, 1, colRed)
		big.Set(4, 2, colBlue)
		subImage = big.SubImage(image.Rect(2, 1, 2+imgW, 1+imgH))
	})
}

func view(name string, q mat, real func(c *canvas.Context)) letter {
	return letter{name, func(x *exec) { real(x.ctx) }, func(m *mrun) { m.compose(q) }}
}

func setDashes(name string, off float64, d []float64) letter {
	return letter{name,
		func(x *exec) {
			arg := append([]float64(nil), d...) // the caller's own slice
			x.dashArgs = append(x.dashArgs, [2][]float64{arg, append([]float64(nil), d...)})
			x.ctx.SetDashes(off, arg...)
		},
		func(m *mrun) { m.cur.st.dashOffset, m.cur.st.dashes = off, append([]float64(nil), d...) }}
}

func drawPath(name string, px, py float64, data []float64) letter {
	return letter{name,
		func(x *exec) {
			p := canvas.NewPathFromData(append([]float64(nil), data...))
			x.paths = append(x.paths, p)
			x.pathData = append(x.pathData, append([]float64(nil), data...))
			x.ctx.DrawPath(px, py, p)
		},
		func(m *mrun) { m.drawPath(px, py, data, m.cur.st) }}
}

// drawPaths is one DrawPath call with several paths ("draws the paths at position (x,y)": each of
// them with the current state).
func drawPaths(name string, px, py float64, datas ...[]float64) letter {
	return letter{name,
		func(x *exec) {
			var ps []*canvas.Path
			for _, data := range datas {
				p := canvas.NewPathFromData(append([]float64(nil), data...))
				x.paths = append(x.paths, p)
				x.pathData = append(x.pathData, append([]float64(nil), data...))
				ps = append(ps, p)
			}
			x.ctx.DrawPath(px, py, ps...)
		},
		func(m *mrun) {
			for _, data := range datas {
				m.drawPath(px, py, data, m.cur.st)
			}
		}}
}

func pendData(m *mrun) []float64 {
	d := append([]float64(nil), m.pend.Data()...)
	m.pend = &canvas.Path{} // "…and resets the path"
	return d
}

// alphabet returns the calls, simplest first.
func alphabet() []letter {
	cs := func(name string, real canvas.CoordSystem, v int) letter {
		return letter{name, func(x *exec) { x.ctx.SetCoordSystem(real) }, func(m *mrun) { m.cur.cs = v }}
	}
	z := func(name string, v int) letter {
		return letter{name, func(x *exec) { x.ctx.SetZIndex(v) }, func(m *mrun) { m.z = v }}
	}
	return []letter{
		{"Push()", func(x *exec) { x.ctx.Push() }, func(m *mrun) { m.push() }},
		{"Pop()", func(x *exec) { x.ctx.Pop() }, func(m *mrun) { m.pop() }},
		cs("SetCoordSystem(CartesianI)", canvas.CartesianI, csI),
		cs("SetCoordSystem(CartesianII)", canvas.CartesianII, csII),
		cs("SetCoordSystem(CartesianIII)", canvas.CartesianIII, csIII),
		cs("SetCoordSystem(CartesianIV)", canvas.CartesianIV, csIV),
		{"SetFillColor(red)", func(x *exec) { x.ctx.SetFillColor(colRed) }, func(m *mrun) { m.cur.st.fill = colRed }},
		{"SetFillColor(transparent)", func(x *exec) { x.ctx.SetFillColor(colNone) }, func(m *mrun) { m.cur.st.fill = colNone }},
		{"SetStrokeColor(blue)", func(x *exec) { x.ctx.SetStrokeColor(colBlue) }, func(m *mrun) { m.cur.st.stroke = colBlue }},
		{"SetStrokeColor(rgba(0,64,0,128))", func(x *exec) { x.ctx.SetStrokeColor(colGreen) }, func(m *mrun) { m.cur.st.stroke = colGreen }},
		{"SetStrokeWidth(0.5)", func(x *exec) { x.ctx.SetStrokeWidth(0.5) }, func(m *mrun) { m.cur.st.width = 0.5 }},
		{"SetStrokeWidth(2)", func(x *exec) { x.ctx.SetStrokeWidth(2) }, func(m *mrun) { m.cur.st.width = 2 }},
		{"SetStrokeJoiner(RoundJoin)", func(x *exec) { x.ctx.SetStrokeJoiner(canvas.RoundJoin) }, func(m *mrun) { m.cur.st.roundJoin = true }},
		setDashes("SetDashes(0, 0.5,0,0.5,1)", 0, dashZero),
		setDashes("SetDashes(0, 0,1,2,3)", 0, dashLead),
		setDashes("SetDashes(0.5, 6,2)", 0.5, dashLong),
		setDashes("SetDashes(-0.25, 0.75)", -0.25, dashShort),
		setDashes("SetDashes(6.5, 6,9)", 6.5, dashGap),
		setDashes("SetDashes(-1, 6)", -1, dashOdd),
		setDashes("SetDashes(-0.6, 0.75)", -0.6, dashShort), // the first 0.6 of every path lies in a gap
		setDashes("SetDashes(0)", 0, nil),
		{"SetFillRule(EvenOdd)", func(x *exec) { x.ctx.SetFillRule(canvas.EvenOdd) }, func(m *mrun) { m.cur.st.rule = 1 }},
		{"SetFillRule(NonZero)", func(x *exec) { x.ctx.SetFillRule(canvas.NonZero) }, func(m *mrun) { m.cur.st.rule = 0 }},
		{"ResetStyle()", func(x *exec) { x.ctx.ResetStyle() }, func(m *mrun) { m.cur.st = defaultStyle() }},
		view("Translate(3,1)", mTranslate(3, 1), func(c *canvas.Context) { c.Translate(3, 1) }),
		view("Rotate(90)", mRotate(90), func(c *canvas.Context) { c.Rotate(90) }),
		view("Scale(2,-1)", mScale(2, -1), func(c *canvas.Context) { c.Scale(2, -1) }),
		view("Shear(0.5,0.25)", mShear(0.5, 0.25), func(c *canvas.Context) { c.Shear(0.5, 0.25) }),
		view("ReflectX()", mScale(-1, 1), func(c *canvas.Context) { c.ReflectX() }),
		view("ReflectY()", mScale(1, -1), func(c *canvas.Context) { c.ReflectY() }),
		view("ReflectXAbout(2)", mAbout(mScale(-1, 1), 2, 0), func(c *canvas.Context) { c.ReflectXAbout(2) }),
		view("ReflectYAbout(1.5)", mAbout(mScale(1, -1), 0, 1.5), func(c *canvas.Context) { c.ReflectYAbout(1.5) }),
		view("RotateAbout(30,1,2)", mAbout(mRotate(30), 1, 2), func(c *canvas.Context) { c.RotateAbout(30, 1, 2) }),
		view("ScaleAbout(2,0.5,1,1)", mAbout(mScale(2, 0.5), 1, 1), func(c *canvas.Context) { c.ScaleAbout(2, 0.5, 1, 1) }),
		view("ShearAbout(0,0.5,1,2)", mAbout(mShear(0, 0.5), 1, 2), func(c *canvas.Context) { c.ShearAbout(0, 0.5, 1, 2) }),
		view("ComposeView([1 2 3; -1 1 0.5])", matCompose, func(c *canvas.Context) { c.ComposeView(toCanvas(matCompose)) }),
		{"SetView([0 -2 4; 1 0.5 -1])", func(x *exec) { x.ctx.SetView(toCanvas(matSet)) }, func(m *mrun) { m.cur.view = matSet }},
		{"ResetView()", func(x *exec) { x.ctx.ResetView() }, func(m *mrun) { m.cur.view = ident }},
		{"SetCoordView([2 1 1; 0 -1 5])", func(x *exec) { x.ctx.SetCoordView(toCanvas(matCoord)) }, func(m *mrun) { m.cur.cview = matCoord }},
		z("SetZIndex(1)", 1),
		z("SetZIndex(-1)", -1),
		z("SetZIndex(0)", 0),
		drawPath("DrawPath(1,2, M0 0L2 0Q2 1.5 0 1z)", 1, 2, p1Data),
		drawPath("DrawPath(-2,0.5, M0 0L4 0L4 1)", -2, 0.5, p2Data),
		drawPath("DrawPath(0,0, M0 0L0.5 0)", 0, 0, p3Data),
		drawPaths("DrawPath(0,0, M0 0L0.5 0, M0 0L4 0L4 1)", 0, 0, p3Data, p2Data),
		{"DrawText(2,3,\"Hi\")", func(x *exec) { x.ctx.DrawText(2, 3, theText) }, func(m *mrun) { m.drawText(2, 3) }},
		{"DrawImage(1,1.5, 3x2px, 2px/mm)", func(x *exec) { x.ctx.DrawImage(1, 1.5, theImage, canvas.DPMM(imgRes)) }, func(m *mrun) { m.drawImage(1, 1.5, imgW, imgH, imgRes) }},
		{"DrawImage(2,0.5, 3x2px sub-image with bounds from (2,1), 2px/mm)", func(x *exec) { x.ctx.DrawImage(2, 0.5, subImage, canvas.DPMM(imgRes)) }, func(m *mrun) { m.drawImage(2, 0.5, imgW, imgH, imgRes) }},
		{"MoveTo(1,1)", func(x *exec) { x.ctx.MoveTo(1, 1) }, func(m *mrun) { m.pend.MoveTo(1, 1) }},
		{"LineTo(4,0)", func(x *exec) { x.ctx.LineTo(4, 0) }, func(m *mrun) { m.pend.LineTo(4, 0) }},
		{"LineTo(4,3)", func(x *exec) { x.ctx.LineTo(4, 3) }, func(m *mrun) { m.pend.LineTo(4, 3) }},
		{"QuadTo(2,3,4,1)", func(x *exec) { x.ctx.QuadTo(2, 3, 4, 1) }, func(m *mrun) { m.pend.QuadTo(2, 3, 4, 1) }},
		{"CubeTo(1,2,3,2,4,0)", func(x *exec) { x.ctx.CubeTo(1, 2, 3, 2, 4, 0) }, func(m *mrun) { m.pend.CubeTo(1, 2, 3, 2, 4, 0) }},
		{"ArcTo(2,1,30,false,true,4,2)", func(x *exec) { x.ctx.ArcTo(2, 1, 30, false, true, 4, 2) }, func(m *mrun) { m.pend.ArcTo(2, 1, 30, false, true, 4, 2) }},
		{"Arc(1,1,0,0,90)", func(x *exec) { x.ctx.Arc(1, 1, 0, 0, 90) }, func(m *mrun) { m.pend.Arc(1, 1, 0, 0, 90) }},
		{"Close()", func(x *exec) { x.ctx.Close() }, func(m *mrun) { m.pend.Close() }},
		{"SetCoordRect((1,2)-(6,5), 10, 6)", func(x *exec) { x.ctx.SetCoordRect(canvas.Rect{X0: 1, Y0: 2, X1: 6, Y1: 5}, 10, 6) },
			// coordinates from (0,0)-(10,6) are mapped to the rectangle (1,2)-(6,5)
			func(m *mrun) { m.cur.cview = mul(mTranslate(1, 2), mScale(5.0/10, 3.0/6)) }},
		{"Fill()", func(x *exec) { x.ctx.Fill() }, func(m *mrun) {
			st := m.cur.st
			st.stroke = colNone
			m.drawPath(0, 0, pendData(m), st)
		}},
		{"Stroke()", func(x *exec) { x.ctx.Stroke() }, func(m *mrun) {
			st := m.cur.st
			st.fill = colNone
			m.drawPath(0, 0, pendData(m), st)
		}},
		{"FillStroke()", func(x *exec) { x.ctx.FillStroke() }, func(m *mrun) { m.drawPath(0, 0, pendData(m), m.cur.st) }},
	}
}
