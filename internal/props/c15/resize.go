package c15

import (
	"fmt"

	"github.com/tdewolff/canvas"

	"verif/internal/fw"
	"verif/internal/oracle"
)

// family: one Context used across a change of the canvas size. The coordinate system puts the
// origin in a corner of the canvas *as it is when the draw is made*: after Canvas.Clip, Canvas.Fit
// or an assignment to W/H a later draw through the same Context must use the new size, and the
// layers recorded before must have moved as the operation documents (Clip: by minus the corner
// of the rectangle).

var resizeOps = []struct {
	name string
	do   func(c *canvas.Canvas)
}{
	{"Clip((1,0.5)-(7,4.5))", func(c *canvas.Canvas) { c.Clip(canvas.Rect{X0: 1, Y0: 0.5, X1: 7, Y1: 4.5}) }},
	{"Fit(0.5)", func(c *canvas.Canvas) { c.Fit(0.5) }},
	{"W, H = 14, 9", func(c *canvas.Canvas) { c.W, c.H = 14, 9 }},
}

var resizeDraws = []string{"DrawPath(1,2, M0 0L2 0Q2 1.5 0 1z)", "DrawText(2,3,\"Hi\")", "DrawImage(1,1.5, 3x2px, 2px/mm)"}

var resizeViews = []string{"", "Rotate(90)", "SetCoordView([2 1 1; 0 -1 5])"}

func resizeFamily() fw.Family {
	css := []string{"SetCoordSystem(CartesianI)", "SetCoordSystem(CartesianII)", "SetCoordSystem(CartesianIII)", "SetCoordSystem(CartesianIV)"}
	rad := []int{len(css), len(resizeDraws), len(resizeOps), len(resizeDraws), len(resizeViews)}
	type rc struct {
		cs, first, op, second, view int
	}
	dec := func(i int64) rc {
		g := oracle.Digits(i, rad...)
		return rc{g[0], g[1], g[2], g[3], g[4]}
	}
	desc := func(c rc) string {
		v := resizeViews[c.view]
		if v != "" {
			v += "; "
		}
		return fmt.Sprintf("canvas.New(10,6); %s; %s%s; Canvas.%s; %s (same Context)", css[c.cs], v, resizeDraws[c.first], resizeOps[c.op].name, resizeDraws[c.second])
	}
	return fw.Family{
		Name: "one Context across a change of the canvas size: coordinate systems x first draw x {Clip, Fit, W/H assignment} x second draw x views", N: oracle.Prod(rad...),
		Desc: func(i int64) string { return desc(dec(i)) },
		Check: func(i int64, r *fw.R) {
			assets()
			c := dec(i)
			cv := canvas.New(canvasW, canvasH)
			x := &exec{ctx: canvas.NewContext(cv)}
			m := &mrun{model: newModel(canvasW, canvasH), pend: &canvas.Path{}}
			apply := func(name string) {
				if name == "" {
					return
				}
				l := letters[indexOf(name)]
				l.real(x)
				l.mod(m)
			}
			apply(css[c.cs])
			apply(resizeViews[c.view])
			apply(resizeDraws[c.first])
			before := replay(cv)
			resizeOps[c.op].do(cv)
			w, h := cv.Size()
			// the model continues with the new size (the size itself is judged by the Clip/Fit
			// clauses of the history families)
			m.w, m.h = w, h
			apply(resizeDraws[c.second])
			r.States++
			r.Transitions += 3
			r.Validated++
			got := replay(cv)
			if len(before) != 1 || len(got) != 2 || len(m.calls) != 2 {
				r.Violate("resize-call-count", fmt.Sprintf("%d layers before and %d after the second draw, the model expects 1 and 2", len(before), len(got)))
				return
			}
			if resizeOps[c.op].name[0] == 'C' {
				// Clip: earlier layers move by minus the lower-left corner of the rectangle
				want := mul(mTranslate(-1, -0.5), m.calls[0].m)
				if ok, e := matClose(got[0].m, want, 1e-12); !ok {
					r.Violate("resize-clip-earlier-layer", fmt.Sprintf("layer drawn before Clip has matrix %v, expected %v (relative error %.3g)", got[0].m, want, e))
					return
				}
				if w != 6 || h != 4 {
					r.Violate("resize-clip-size", fmt.Sprintf("size after Clip((1,0.5)-(7,4.5)) is %g x %g", w, h))
					return
				}
			}
			if got[1].kind != m.calls[1].kind {
				r.Violate("resize-call-kind", fmt.Sprintf("second layer is a %s, expected %s", kindNames[got[1].kind], kindNames[m.calls[1].kind]))
				return
			}
			if ok, e := matClose(got[1].m, m.calls[1].m, 1e-12); !ok {
				r.Violate("resize-later-draw", fmt.Sprintf("the draw after the canvas became %g x %g has matrix %v, expected %v (relative error %.3g): the origin of the coordinate system is not in the corner of the canvas as it is now", w, h, got[1].m, m.calls[1].m, e))
				return
			}
			r.NontrivialIdx()
			r.Outcome("resize-ok")
		},
	}
}
