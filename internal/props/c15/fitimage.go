package c15

import (
	"fmt"
	"image"
	"image/color"
	"math"

	"github.com/tdewolff/canvas"

	"verif/internal/fw"
	"verif/internal/oracle"
)

// FitImage: the image (or, for ImageCover, its central crop) must be drawn upright over the
// rectangle the fit strategy prescribes, in every coordinate system and under every view:
//   - ImageFill: over rect itself;
//   - ImageContain: over the largest rectangle of the image's aspect ratio centred in rect;
//   - ImageCover: a crop, symmetric about the image's centre, of (up to pixel rounding) rect's
//     aspect ratio, over rect itself.
// The expected renderer matrix is composed like the one of DrawImage in the model: the
// coordinate-system view, the view, the position of the rectangle's lower-left corner through
// the coordinate view, the scale of one pixel, and the un-flipping of the pixel axes about the
// (cropped) image's own centre.

type fitCase struct {
	cs, fit, img, rect, view int
	cview                    bool
}

var fitImages = [][2]int{{8, 4}, {4, 10}, {6, 6}, {7, 3}}
var fitRects = []canvas.Rect{{X0: 1, Y0: 2, X1: 5, Y1: 4}, {X0: 2, Y0: 1, X1: 3, Y1: 5}, {X0: 0.5, Y0: 0.5, X1: 3.5, Y1: 3.5}}
var fitNames = []string{"ImageFill", "ImageContain", "ImageCover"}
var fitKinds = []canvas.ImageFit{canvas.ImageFill, canvas.ImageContain, canvas.ImageCover}
var fitViews = []struct {
	name string
	m    mat
}{{"identity", ident}, {"Rotate(30)Scale(2,0.5)", mul(mRotate(30), mScale(2, 0.5))}, {"[0 -2 4; 1 0.5 -1]", matSet}}

func (c fitCase) String() string {
	cv := ""
	if c.cview {
		cv = " SetCoordView([2 1 1; 0 -1 5])"
	}
	return fmt.Sprintf("SetCoordSystem(%d) SetView(%s)%s FitImage(%dx%d px, rect (%g,%g)-(%g,%g), %s)", c.cs, fitViews[c.view].name, cv,
		fitImages[c.img][0], fitImages[c.img][1], fitRects[c.rect].X0, fitRects[c.rect].Y0, fitRects[c.rect].X1, fitRects[c.rect].Y1, fitNames[c.fit])
}

func fitPicture(w, h int) *image.NRGBA {
	img := image.NewNRGBA(image.Rect(0, 0, w, h))
	for y := 0; y < h; y++ {
		for x := 0; x < w; x++ {
			img.SetNRGBA(x, y, color.NRGBA{uint8(10 + 20*x), uint8(10 + 20*y), 90, 255})
		}
	}
	return img
}

var coordSystems = []canvas.CoordSystem{canvas.CartesianI, canvas.CartesianII, canvas.CartesianIII, canvas.CartesianIV}

func checkFitImage(r *fw.R, c fitCase) {
	W, H := 10.0, 6.0
	rc := &recorder{w: W, h: H}
	ctx := canvas.NewContext(rc)
	ctx.SetCoordSystem(coordSystems[c.cs])
	ctx.SetView(toCanvas(fitViews[c.view].m))
	if c.cview {
		ctx.SetCoordView(toCanvas(matCoord))
	}
	wpx, hpx := fitImages[c.img][0], fitImages[c.img][1]
	src := fitPicture(wpx, hpx)
	rect := fitRects[c.rect]
	ctx.FitImage(src, rect, fitKinds[c.fit])
	if len(rc.calls) != 1 || rc.calls[0].kind != kImage {
		r.Violate("fitimage-calls", fmt.Sprintf("%d renderer calls, expected one RenderImage", len(rc.calls)))
		return
	}
	got := rc.calls[0]
	b := got.img.Bounds()
	gw, gh := b.Dx(), b.Dy()
	// which part of the source is shown
	x0, y0, rw, rh := rect.X0, rect.Y0, rect.X1-rect.X0, rect.Y1-rect.Y0
	switch c.fit {
	case 0, 1:
		if gw != wpx || gh != hpx {
			r.Violate("fitimage-cropped", fmt.Sprintf("%s rendered a %dx%d image, the source is %dx%d", fitNames[c.fit], gw, gh, wpx, hpx))
			return
		}
		if c.fit == 1 {
			if float64(wpx)/rw < float64(hpx)/rh { // height-limited
				nw := float64(wpx) * rh / float64(hpx)
				x0, rw = x0+(rw-nw)/2, nw
			} else {
				nh := float64(hpx) * rw / float64(wpx)
				y0, rh = y0+(rh-nh)/2, nh
			}
		}
	case 2:
		// a symmetric crop whose aspect ratio is rect's up to one pixel on the cropped axis
		if b.Min.X != wpx-b.Max.X || b.Min.Y != hpx-b.Max.Y {
			r.Violate("fitimage-crop-asymmetric", fmt.Sprintf("crop %v of a %dx%d image is not centred", b, wpx, hpx))
			return
		}
		if gw != wpx && gh != hpx {
			r.Violate("fitimage-crop-both-axes", fmt.Sprintf("crop %v of a %dx%d image cuts both axes", b, wpx, hpx))
			return
		}
		idealW, idealH := float64(hpx)*rw/rh, float64(wpx)*rh/rw
		if (gh == hpx && math.Abs(float64(gw)-math.Min(idealW, float64(wpx))) > 1.0+1e-9) || (gw == wpx && math.Abs(float64(gh)-math.Min(idealH, float64(hpx))) > 1.0+1e-9) {
			r.Violate("fitimage-crop-aspect", fmt.Sprintf("crop %dx%d of a %dx%d image for a %gx%g rectangle: more than a pixel from the rectangle's aspect ratio", gw, gh, wpx, hpx, rw, rh))
			return
		}
		// the crop shows the source's pixels (SubImage): spot check the corners
		for _, p := range []image.Point{b.Min, {X: b.Max.X - 1, Y: b.Max.Y - 1}} {
			if got.img.At(p.X, p.Y) != src.At(p.X, p.Y) {
				r.Violate("fitimage-crop-pixels", fmt.Sprintf("pixel %v of the crop differs from the source", p))
				return
			}
		}
	}
	// expected matrix
	m := newModel(W, H)
	m.cur.cs = c.cs
	m.cur.view = fitViews[c.view].m
	if c.cview {
		m.cur.cview = matCoord
	}
	f := ident
	if flipsX(c.cs) {
		f[0], f[2] = -1, float64(gw)
	}
	if flipsY(c.cs) {
		f[4], f[5] = -1, float64(gh)
	}
	want := mul(m.base(x0, y0), mul(mScale(rw/float64(gw), rh/float64(gh)), f))
	if ok, err := matClose(got.m, want, 1e-12); !ok {
		// report where the image lands
		corner := func(mm mat, x, y float64) oracle.Pt { a, b := mm.apply(x, y); return oracle.Pt{X: a, Y: b} }
		g := fromCanvas(got.m)
		r.Violate("fitimage-matrix", fmt.Sprintf("%s: image matrix %v, expected %v (rel. error %.3g): the image's pixel (0,0) corner lands at %v and its far corner at %v, expected %v and %v",
			fitNames[c.fit], g, want, err, corner(g, 0, 0), corner(g, float64(gw), float64(gh)), corner(want, 0, 0), corner(want, float64(gw), float64(gh))))
		return
	}
	r.NontrivialIdx()
	r.Outcome("fitimage-ok:" + fitNames[c.fit])
}

func fitImageFamily() fw.Family {
	rad := []int{4, 3, len(fitImages), len(fitRects), len(fitViews), 2}
	dec := func(i int64) fitCase {
		g := oracle.Digits(i, rad...)
		return fitCase{cs: g[0], fit: g[1], img: g[2], rect: g[3], view: g[4], cview: g[5] == 1}
	}
	return fw.Family{Name: "FitImage: coordinate systems x fits x images x rectangles x views x coordinate view", N: oracle.Prod(rad...),
		Check: func(i int64, r *fw.R) { checkFitImage(r, dec(i)) },
		Desc:  func(i int64) string { return dec(i).String() }}
}
