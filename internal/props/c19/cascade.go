package c19

import (
	"fmt"
	"image/color"
	"strings"

	"github.com/tdewolff/canvas"

	"verif/internal/fw"
	"verif/internal/rec"
)

// The cascade between two rules of one style sheet: <g class="a"><rect id="r" class="x y z"/></g>
// with `SEL1{fill:red} SEL2{fill:blue}` for every ordered pair of a menu of selectors and
// selector LISTS. Expected by the CSS cascade, computed here from the text of the selectors: a
// rule applies when one selector of its list matches; its specificity is the highest one among the
// MATCHING selectors of the list (ids, then classes, then type names); the rule with the higher
// specificity wins, the later rule on a tie; no rule: the presentation attribute, else black.
var cascadeMenu = []string{
	"rect", ".x", ".x.y", ".x.y.z", "#r", "rect.x", "#r.x", "g rect", ".a rect", ".a .x.y",
	"#r, .x.y", ".x.y, #r", "#r, rect.x", ".x, .x.y.z", "rect, #q", ".nomatch, .x", "#q, .x.y", "#q", ".x.y.z, rect",
}

type cascSpec [3]int

func (a cascSpec) less(b cascSpec) bool {
	for k := 0; k < 3; k++ {
		if a[k] != b[k] {
			return a[k] < b[k]
		}
	}
	return false
}

// cascadeRule: does the selector list apply to the rect, and with which specificity. The element
// is rect#r.x.y.z, its parent g.a, the root svg.
func cascadeRule(list string) (bool, cascSpec) {
	applies := false
	var best cascSpec
	for _, sel := range strings.Split(list, ",") {
		comps := strings.Fields(sel)
		var sp cascSpec
		ok := true
		for ci, comp := range comps {
			last := ci == len(comps)-1
			// split the compound into type, #id and .classes
			tag, id, classes := "", "", []string{}
			cur, kind := "", byte('t')
			flush := func() {
				switch kind {
				case 't':
					tag = cur
				case '#':
					id = cur
				case '.':
					classes = append(classes, cur)
				}
			}
			for i := 0; i < len(comp); i++ {
				if comp[i] == '#' || comp[i] == '.' {
					flush()
					cur, kind = "", comp[i]
				} else {
					cur += string(comp[i])
				}
			}
			flush()
			if tag != "" {
				sp[2]++
			}
			if id != "" {
				sp[0]++
			}
			sp[1] += len(classes)
			if last {
				if (tag != "" && tag != "rect") || (id != "" && id != "r") {
					ok = false
				}
				for _, c := range classes {
					if c != "x" && c != "y" && c != "z" {
						ok = false
					}
				}
			} else {
				// ancestor compounds of the menu: "g" or ".a" (the parent group), descendant combinator
				if (tag != "" && tag != "g") || id != "" {
					ok = false
				}
				for _, c := range classes {
					if c != "a" {
						ok = false
					}
				}
			}
		}
		if ok && (!applies || best.less(sp)) {
			best = sp
		}
		applies = applies || ok
	}
	return applies, best
}

func cascadeDoc(i, j int, attr bool) string {
	a := ""
	if attr {
		a = ` fill="lime"`
	}
	return `<svg xmlns="http://www.w3.org/2000/svg" width="40mm" height="24mm" viewBox="0 0 40 24"><style>` +
		cascadeMenu[i] + `{fill:red} ` + cascadeMenu[j] + `{fill:blue}</style><g class="a"><rect id="r" class="x y z"` + a + ` x="5" y="5" width="10" height="8"/></g></svg>`
}

func checkCascade(r *fw.R, i, j int, attr bool) {
	doc := cascadeDoc(i, j, attr)
	r.States++
	r.Transitions++
	r.Validated++
	cv, err := canvas.ParseSVG(strings.NewReader(doc))
	if err != nil {
		r.Violate("parse-error", fmt.Sprintf("ParseSVG returned error %v", err))
		return
	}
	var fills []color.RGBA
	for _, o := range rec.Record(cv).Ops {
		if o.Kind == "path" {
			fills = append(fills, o.Style.Fill.Color)
		}
	}
	if len(fills) != 1 {
		r.Violate("op-count", fmt.Sprintf("%d path operations recorded for one rect", len(fills)))
		return
	}
	a1, s1 := cascadeRule(cascadeMenu[i])
	a2, s2 := cascadeRule(cascadeMenu[j])
	want, why := color.RGBA{0, 0, 0, 255}, "no rule applies"
	if attr {
		want, why = color.RGBA{0, 255, 0, 255}, "no rule applies, the presentation attribute does"
	}
	switch {
	case a1 && (!a2 || s2.less(s1)):
		want, why = color.RGBA{255, 0, 0, 255}, fmt.Sprintf("the first rule wins (applies=%v/%v, specificity %v against %v)", a1, a2, s1, s2)
	case a2:
		want, why = color.RGBA{0, 0, 255, 255}, fmt.Sprintf("the second rule wins (applies=%v/%v, specificity %v against %v)", a1, a2, s1, s2)
	}
	if fills[0] != want {
		r.Violate("cascade", fmt.Sprintf("%s: expected fill %v, the rect is drawn with %v", why, want, fills[0]))
		return
	}
	r.NontrivialIdx()
	r.Outcome("cascade:" + strings.SplitN(why, " (", 2)[0])
}

func cascadeFamily() fw.Family {
	n := len(cascadeMenu)
	return fw.Family{Name: fmt.Sprintf("CSS cascade: two rules over %d selectors and selector lists (ids, classes, types, descendants) x with/without a presentation attribute", n), N: int64(n * n * 2),
		Check: func(i int64, r *fw.R) { checkCascade(r, int(i)/2/n, int(i)/2%n, i%2 == 1) },
		Desc:  func(i int64) string { return cascadeDoc(int(i)/2/n, int(i)/2%n, i%2 == 1) }}
}
