package c19

import (
	"fmt"
	"image/color"
	"strings"

	"github.com/tdewolff/canvas"

	"verif/internal/fw"
	"verif/internal/oracle"
	"verif/internal/rec"
)

// Selector matching over ancestor chains: a rect inside up to three nested groups, every group
// with a class attribute from {none, "a", "b", "a b"}, the rect with class none or "c"; one rule
// `SELECTOR{fill:blue}` from a menu of selectors with descendant and child combinators. An
// independent matcher (CSS selectors level 3: the right-most compound must match the element, a
// descendant combinator may pick ANY ancestor, a child combinator the parent) says whether the
// rule applies to the rect or to one of its ancestors (fill is inherited); the rect must then be
// blue, otherwise black.

type selElem struct {
	tag     string
	classes []string
}

type selCompound struct {
	tag     string   // "" or "*" = any
	classes []string // all must be present
	child   bool     // combinator to the compound on its LEFT is '>'
}

func parseSelector(s string) []selCompound {
	s = strings.ReplaceAll(s, ">", " > ")
	var out []selCompound
	child := false
	for _, tok := range strings.Fields(s) {
		if tok == ">" {
			child = true
			continue
		}
		c := selCompound{child: child}
		child = false
		parts := strings.Split(tok, ".")
		c.tag = parts[0]
		c.classes = parts[1:]
		out = append(out, c)
	}
	return out
}

func (c selCompound) matches(e selElem) bool {
	if c.tag != "" && c.tag != "*" && c.tag != e.tag {
		return false
	}
	for _, want := range c.classes {
		ok := false
		for _, have := range e.classes {
			if have == want {
				ok = true
			}
		}
		if !ok {
			return false
		}
	}
	return true
}

// selectorApplies: chain is root ... element.
func selectorApplies(sel []selCompound, chain []selElem) bool {
	var rec func(i, e int) bool
	rec = func(i, e int) bool {
		if !sel[i].matches(chain[e]) {
			return false
		}
		if i == 0 {
			return true
		}
		if sel[i].child {
			return e > 0 && rec(i-1, e-1)
		}
		for k := e - 1; k >= 0; k-- {
			if rec(i-1, k) {
				return true
			}
		}
		return false
	}
	return rec(len(sel)-1, len(chain)-1)
}

var selClasses = []string{"", "a", "b", "a b"}
var selMenu = []string{
	".a rect", ".a > rect", ".a .b rect", ".a > .b rect", ".a > .b > rect", ".a .b > rect", ".b .b rect", ".b > .b rect",
	".a .a", "g > g rect", "g > g > g > rect", "svg > .a rect", "svg > g > .b rect", ".b > .c", ".a .c", "g.a > g.b .c",
	".a > g rect", ".a > g > rect", ".a.b rect", ".a.b > .b rect", "* > .b > * > rect", ".a > * .c",
}

type selCase struct {
	depth   int
	classes [3]int
	rectC   bool
	sel     int
}

func (c selCase) doc() (string, []selElem) {
	var sb strings.Builder
	chain := []selElem{{tag: "svg"}}
	sb.WriteString(`<svg xmlns="http://www.w3.org/2000/svg" width="40mm" height="24mm" viewBox="0 0 40 24"><style>` + selMenu[c.sel] + `{fill:blue}</style>`)
	for k := 0; k < c.depth; k++ {
		cl := selClasses[c.classes[k]]
		if cl == "" {
			sb.WriteString(`<g>`)
		} else {
			sb.WriteString(`<g class="` + cl + `">`)
		}
		chain = append(chain, selElem{tag: "g", classes: strings.Fields(cl)})
	}
	if c.rectC {
		sb.WriteString(`<rect class="c" x="5" y="5" width="10" height="8"/>`)
		chain = append(chain, selElem{tag: "rect", classes: []string{"c"}})
	} else {
		sb.WriteString(`<rect x="5" y="5" width="10" height="8"/>`)
		chain = append(chain, selElem{tag: "rect"})
	}
	for k := 0; k < c.depth; k++ {
		sb.WriteString(`</g>`)
	}
	sb.WriteString(`</svg>`)
	return sb.String(), chain
}

func checkSelector(r *fw.R, c selCase) {
	doc, chain := c.doc()
	r.States++
	r.Transitions++
	r.Validated++
	cv, err := canvas.ParseSVG(strings.NewReader(doc))
	if err != nil {
		r.Violate("parse-error", fmt.Sprintf("ParseSVG returned error %v", err))
		return
	}
	var fills []color.RGBA
	for _, o := range rec.Record(cv).Ops {
		if o.Kind == "path" {
			fills = append(fills, o.Style.Fill.Color)
		}
	}
	if len(fills) != 1 {
		r.Violate("op-count", fmt.Sprintf("%d path operations recorded for one rect", len(fills)))
		return
	}
	// fill is inherited: the rect is blue when the rule applies to it or to any of its ancestors
	applies := false
	for k := 1; k <= len(chain); k++ {
		if selectorApplies(parseSelector(selMenu[c.sel]), chain[:k]) {
			applies = true
		}
	}
	want := color.RGBA{0, 0, 0, 255}
	if applies {
		want = color.RGBA{0, 0, 255, 255}
	}
	if fills[0] != want {
		r.Violate("selector-matching", fmt.Sprintf("the rule %s{fill:blue} applies to the rect or one of its ancestors: %v, but its fill is %v", selMenu[c.sel], applies, fills[0]))
		return
	}
	r.NontrivialIdx()
	if applies {
		r.Outcome("selector:applies")
	} else {
		r.Outcome("selector:does-not-apply")
	}
}

func selectorFamily() fw.Family {
	// depth 0..3; classes of the unused levels fixed to 0
	var cases []selCase
	for depth := 0; depth <= 3; depth++ {
		n := 1
		for k := 0; k < depth; k++ {
			n *= len(selClasses)
		}
		for i := 0; i < n; i++ {
			var cl [3]int
			x := i
			for k := 0; k < depth; k++ {
				cl[k] = x % len(selClasses)
				x /= len(selClasses)
			}
			for _, rc := range []bool{false, true} {
				for s := range selMenu {
					cases = append(cases, selCase{depth, cl, rc, s})
				}
			}
		}
	}
	return fw.Family{Name: fmt.Sprintf("CSS selector matching: ancestor chains of <= 3 groups with classes from {-, a, b, a b} x rect class x %d selectors", len(selMenu)), N: int64(len(cases)),
		Check: func(i int64, r *fw.R) { checkSelector(r, cases[i]) },
		Desc:  func(i int64) string { d, _ := cases[i].doc(); return d }}
}

var _ = oracle.Pt{}
