package c19

import (
	"bytes"
	"fmt"
	"image/color"
	"math"

	"github.com/tdewolff/canvas"
	"github.com/tdewolff/canvas/renderers/svg"

	"verif/internal/fw"
	"verif/internal/oracle"
	"verif/internal/rec"
)

// Round trip ("the SVG that the library's own SVG back-end writes for a path drawing is read back
// to an equivalent drawing"): a drawing program of one or two styled DrawPath calls is recorded
// on a canvas, written by the real SVG back-end, parsed by ParseSVG, and the two canvases are
// replayed into recorders and compared operation by operation: geometry in millimetres (dense
// two-sided Hausdorff distance), fill paint and rule, stroke paint, effective width, cap, join,
// miter limit and the dash pattern in millimetres. Only strokes the SVG back-end writes natively
// are in the menu (the outline fallback is C12's subject), so the operation lists correspond.

type rtStyle struct {
	name         string
	fill, stroke color.RGBA
	evenOdd      bool
	width        float64
	cap          canvas.Capper
	join         canvas.Joiner
	dashes       []float64
	dashOffset   float64
	needsOverlap bool // only interesting on self-overlapping geometry
}

var (
	rtRed      = color.RGBA{200, 0, 0, 255}
	rtRedHalf  = color.RGBA{100, 0, 0, 128}
	rtBlue     = color.RGBA{0, 0, 200, 255}
	rtBlueHalf = color.RGBA{0, 0, 100, 128}
)

var rtStyles = []rtStyle{
	{name: "fill red", fill: rtRed},
	{name: "fill red EvenOdd", fill: rtRed, evenOdd: true},
	{name: "fill red alpha 0.5", fill: rtRedHalf},
	{name: "stroke blue w1", stroke: rtBlue, width: 1},
	{name: "stroke blue w2 round cap round join", stroke: rtBlue, width: 2, cap: canvas.RoundCap, join: canvas.RoundJoin},
	{name: "stroke blue w1.5 square cap bevel join", stroke: rtBlue, width: 1.5, cap: canvas.SquareCap, join: canvas.BevelJoin},
	{name: "stroke blue w1 miter limit 2", stroke: rtBlue, width: 1, join: canvas.MiterJoiner{GapJoiner: canvas.BevelJoin, Limit: 2}},
	{name: "stroke blue alpha 0.5 w1", stroke: rtBlueHalf, width: 1},
	{name: "stroke blue w1 dashes [2 1]", stroke: rtBlue, width: 1, dashes: []float64{2, 1}},
	{name: "stroke blue w2 dashes [2 1] offset 0.5", stroke: rtBlue, width: 2, dashes: []float64{2, 1}, dashOffset: 0.5},
	{name: "fill red + stroke blue w1", fill: rtRed, stroke: rtBlue, width: 1},
	{name: "fill red EvenOdd + stroke blue w1", fill: rtRed, stroke: rtBlue, width: 1, evenOdd: true},
}

var rtPaths = []struct{ name, d string }{
	{"triangle", "M0 0L9 1L3 7z"},
	{"two overlapping squares (EvenOdd sensitive)", "M0 0L5 0L5 5L0 5zM3 2L8 2L8 7L3 7z"},
	{"open zig-zag", "M0 0L8 0L3 4.5L8 7"},
	{"closed curve with Q, C and A", "M1 1Q4.5 -1 8 1.5C9.5 4 8 6.5 5 6.5A4 3.5 20 0 1 1 1z"},
	{"rectangle and open line", "M0 0L6 0L6 4L0 4zM1 6L7 6"},
}

var rtViews = []struct {
	name string
	m    canvas.Matrix
}{
	{"identity", canvas.Identity},
	{"rotate 8 deg, scale 1.2", canvas.Identity.Rotate(8).Scale(1.2, 1.2)},
	{"reflection x -> 40-x", canvas.Identity.ReflectXAbout(20)},
}

type rtDraw struct{ style, path, view, cs int }

func (d rtDraw) String() string {
	return fmt.Sprintf("SetCoordSystem(%s); SetView(%s); style{%s}; DrawPath(%s)", []string{"CartesianI", "CartesianIV"}[d.cs], rtViews[d.view].name, rtStyles[d.style].name, rtPaths[d.path].d)
}

func rtCanvas(draws []rtDraw) *canvas.Canvas {
	c := canvas.New(40, 24)
	ctx := canvas.NewContext(c)
	pos := [][2]float64{{3, 2}, {12, 7}}
	for k, d := range draws {
		st := rtStyles[d.style]
		ctx.ResetStyle()
		ctx.ResetView()
		ctx.SetCoordSystem([]canvas.CoordSystem{canvas.CartesianI, canvas.CartesianIV}[d.cs])
		ctx.SetView(rtViews[d.view].m)
		ctx.SetFillColor(st.fill)
		ctx.SetStrokeColor(st.stroke)
		if st.evenOdd {
			ctx.SetFillRule(canvas.EvenOdd)
		}
		if st.width > 0 {
			ctx.SetStrokeWidth(st.width)
		}
		if st.cap != nil {
			ctx.SetStrokeCapper(st.cap)
		}
		if st.join != nil {
			ctx.SetStrokeJoiner(st.join)
		}
		if st.dashes != nil {
			ctx.SetDashes(st.dashOffset, st.dashes...)
		}
		ctx.DrawPath(pos[k][0], pos[k][1], canvas.MustParseSVGPath(rtPaths[d.path].d))
	}
	return c
}

func denseMM(op rec.Op) ([]oracle.Polyline, error) {
	sps, err := oracle.Decode(op.Data)
	if err != nil {
		return nil, err
	}
	pls := oracle.Dense(sps, 128)
	for i := range pls {
		for j := range pls[i].P {
			p := pls[i].P[j]
			pls[i].P[j] = oracle.Pt{X: op.M[0][0]*p.X + op.M[0][1]*p.Y + op.M[0][2], Y: op.M[1][0]*p.X + op.M[1][1]*p.Y + op.M[1][2]}
		}
	}
	return pls, nil
}

func paintOf(p canvas.Paint, has bool) color.RGBA {
	if !has {
		return color.RGBA{}
	}
	return p.Color
}

func nearCol(a, b color.RGBA) bool {
	d := func(x, y uint8) int {
		if x > y {
			return int(x - y)
		}
		return int(y - x)
	}
	return d(a.R, b.R) <= 1 && d(a.G, b.G) <= 1 && d(a.B, b.B) <= 1 && d(a.A, b.A) <= 1
}

func scaleOf(m canvas.Matrix) float64 {
	return math.Sqrt(math.Abs(m[0][0]*m[1][1] - m[0][1]*m[1][0]))
}

func checkRoundTrip(r *fw.R, draws []rtDraw) {
	c := rtCanvas(draws)
	var buf bytes.Buffer
	w := svg.New(&buf, c.W, c.H, nil)
	c.RenderTo(w)
	if err := w.Close(); err != nil {
		r.Violate("roundtrip-write-error", err.Error())
		return
	}
	r.States++
	r.Transitions += int64(len(draws))
	r.Validated++
	doc := buf.String()
	show := doc
	if len(show) > 600 {
		show = show[:600] + "…"
	}
	c2, err := canvas.ParseSVG(bytes.NewReader(buf.Bytes()))
	if err != nil {
		r.Violate("roundtrip-parse-error", fmt.Sprintf("ParseSVG of the back-end's own output returned %v; document: %s", err, show))
		return
	}
	if math.Abs(c2.W-c.W) > 1e-6 || math.Abs(c2.H-c.H) > 1e-6 {
		r.Violate("roundtrip-canvas-size", fmt.Sprintf("canvas %gx%g mm was read back as %gx%g mm; document: %s", c.W, c.H, c2.W, c2.H, show))
		return
	}
	want, got := rec.Record(c).Ops, rec.Record(c2).Ops
	if len(want) != len(got) {
		r.Violate("roundtrip-op-count", fmt.Sprintf("%d drawing operations were read back as %d; document: %s", len(want), len(got), show))
		return
	}
	for k := range want {
		e, g := want[k], got[k]
		at := fmt.Sprintf("operation %d (%s)", k+1, rtStyles[draws[k].style].name)
		epl, err1 := denseMM(e)
		gpl, err2 := denseMM(g)
		if err1 != nil || err2 != nil {
			r.Violate("roundtrip-malformed-path", fmt.Sprintf("%s: %v %v", at, err1, err2))
			return
		}
		h := math.Max(oracle.HausdorffOneSided(epl, gpl, 1, false), oracle.HausdorffOneSided(gpl, epl, 1, false))
		r.Max("roundtrip_geometry_distance_mm", h)
		if !(h <= 1e-4) {
			r.Violate("roundtrip-geometry", fmt.Sprintf("%s: geometry read back differs by %.4g mm; document: %s", at, h, show))
			return
		}
		ef, gf := paintOf(e.Style.Fill, e.Style.HasFill()), paintOf(g.Style.Fill, g.Style.HasFill())
		if !nearCol(ef, gf) {
			r.Violate("roundtrip-fill-paint", fmt.Sprintf("%s: fill %v was read back as %v (premultiplied); document: %s", at, ef, gf, show))
			return
		}
		if e.Style.HasFill() && (e.Style.FillRule == canvas.EvenOdd) != (g.Style.FillRule == canvas.EvenOdd) {
			r.Violate("roundtrip-fill-rule", fmt.Sprintf("%s: fill rule %v was read back as %v; document: %s", at, e.Style.FillRule, g.Style.FillRule, show))
			return
		}
		es, gs := paintOf(e.Style.Stroke, e.Style.HasStroke()), paintOf(g.Style.Stroke, g.Style.HasStroke())
		if !nearCol(es, gs) {
			r.Violate("roundtrip-stroke-paint", fmt.Sprintf("%s: stroke %v was read back as %v (premultiplied); document: %s", at, es, gs, show))
			return
		}
		if e.Style.HasStroke() {
			ew, gw := e.Style.StrokeWidth*scaleOf(e.M), g.Style.StrokeWidth*scaleOf(g.M)
			if !(math.Abs(ew-gw) <= 1e-6*math.Max(1, ew)) {
				r.Violate("roundtrip-stroke-width", fmt.Sprintf("%s: effective stroke width %.6g mm was read back as %.6g mm; document: %s", at, ew, gw, show))
				return
			}
			if capName(e.Style.StrokeCapper) != capName(g.Style.StrokeCapper) {
				r.Violate("roundtrip-linecap", fmt.Sprintf("%s: cap %s was read back as %s", at, capName(e.Style.StrokeCapper), capName(g.Style.StrokeCapper)))
				return
			}
			ej, el := joinName(e.Style.StrokeJoiner)
			gj, gl := joinName(g.Style.StrokeJoiner)
			if ej != gj || (ej == "miter" && math.Abs(el-gl) > 1e-9) {
				r.Violate("roundtrip-linejoin", fmt.Sprintf("%s: join %s(%g) was read back as %s(%g)", at, ej, el, gj, gl))
				return
			}
			// dash pattern as the renderers paint it: lengths are multiples of the stroke width
			// (canvas.ScaleDash), so the painted lengths in mm are dash x width x scale
			eo, ed := canvas.ScaleDash(e.Style.StrokeWidth, e.Style.DashOffset, e.Style.Dashes)
			gofs, gd := canvas.ScaleDash(g.Style.StrokeWidth, g.Style.DashOffset, g.Style.Dashes)
			same := len(ed) == len(gd)
			for i := 0; same && i < len(ed); i++ {
				same = math.Abs(ed[i]*scaleOf(e.M)-gd[i]*scaleOf(g.M)) <= 1e-6
			}
			if len(ed) > 0 && same {
				same = math.Abs(eo*scaleOf(e.M)-gofs*scaleOf(g.M)) <= 1e-6
			}
			if !same {
				r.Violate("roundtrip-dashes", fmt.Sprintf("%s: painted dash pattern %v offset %g (mm, x%.4g) was read back as %v offset %g (x%.4g); document: %s", at, ed, eo, scaleOf(e.M), gd, gofs, scaleOf(g.M), show))
				return
			}
		}
	}
	r.NontrivialIdx()
	r.Outcome("roundtrip-ok")
}

func roundTripFamilies(tier string) []fw.Family {
	nS, nP, nV := len(rtStyles), len(rtPaths), len(rtViews)
	rad1 := []int{nS, nP, nV, 2}
	dec1 := func(i int64) []rtDraw {
		g := oracle.Digits(i, rad1...)
		return []rtDraw{{g[0], g[1], g[2], g[3]}}
	}
	// two draws: every ordered style pair (state carried from one element to the next in the
	// written document and in the parser), two geometry pairings
	pairings := [][2]int{{0, 1}, {3, 2}}
	rad2 := []int{nS, nS, len(pairings), nV}
	if tier == "thorough" {
		rad2 = []int{nS, nS, len(pairings), nV, nV, 2}
	}
	dec2 := func(i int64) []rtDraw {
		g := oracle.Digits(i, rad2...)
		v2, cs := 0, 1
		if len(g) > 4 {
			v2, cs = g[4], g[5]
		}
		return []rtDraw{{g[0], pairings[g[2]][0], g[3], 0}, {g[1], pairings[g[2]][1], v2, cs}}
	}
	desc := func(ds []rtDraw) string {
		s := "canvas.New(40,24)"
		for _, d := range ds {
			s += "; " + d.String()
		}
		return s + " -> svg.New(...).Close() -> ParseSVG"
	}
	return []fw.Family{
		{Name: "round trip through the SVG back-end: one draw: style x path x view x coordinate system", N: oracle.Prod(rad1...),
			Check: func(i int64, r *fw.R) { checkRoundTrip(r, dec1(i)) }, Desc: func(i int64) string { return desc(dec1(i)) }},
		{Name: "round trip through the SVG back-end: two draws: style x style x geometry pairing x views", N: oracle.Prod(rad2...),
			Check: func(i int64, r *fw.R) { checkRoundTrip(r, dec2(i)) }, Desc: func(i int64) string { return desc(dec2(i)) }},
	}
}
