// Package c19: imported SVG documents draw the geometry the SVG specifies.
package c19

import (
	"fmt"
	"image/color"
	"math"
	"strings"

	"github.com/tdewolff/canvas"

	"verif/internal/fw"
	"verif/internal/oracle"
	"verif/internal/rec"
)

const pxmm = 25.4 / 96.0

// 2x3 affine, independent of canvas.Matrix: [a c e; b d f] as in SVG matrix(a b c d e f)
type aff struct{ a, b, c, d, e, f float64 }

var ident = aff{1, 0, 0, 1, 0, 0}

// mul returns m*n (n applied first)
func (m aff) mul(n aff) aff {
	return aff{
		m.a*n.a + m.c*n.b, m.b*n.a + m.d*n.b,
		m.a*n.c + m.c*n.d, m.b*n.c + m.d*n.d,
		m.a*n.e + m.c*n.f + m.e, m.b*n.e + m.d*n.f + m.f,
	}
}
func (m aff) apply(p oracle.Pt) oracle.Pt {
	return oracle.Pt{X: m.a*p.X + m.c*p.Y + m.e, Y: m.b*p.X + m.d*p.Y + m.f}
}
func (m aff) det() float64 { return m.a*m.d - m.b*m.c }

func translate(x, y float64) aff { return aff{1, 0, 0, 1, x, y} }
func scale(x, y float64) aff     { return aff{x, 0, 0, y, 0, 0} }
func rotate(deg float64) aff {
	s, c := math.Sincos(deg * math.Pi / 180)
	return aff{c, s, -s, c, 0, 0}
}
func skewX(deg float64) aff { return aff{1, 0, math.Tan(deg * math.Pi / 180), 1, 0, 0} }
func skewY(deg float64) aff { return aff{1, math.Tan(deg * math.Pi / 180), 0, 1, 0, 0} }

// ---- menus -------------------------------------------------------------------------------

type sizeSpec struct {
	attrs   string  // width/height/viewBox attributes
	w, h    float64 // expected canvas size in mm
	vb      aff     // user units -> px of the viewport
	uniform bool    // viewBox aspect ratio equals the viewport's (no preserveAspectRatio question)
	desc    string
	vw, vh  float64 // size of the viewport in user units (what percentages refer to)
}

var sizes = []sizeSpec{
	{`width="100mm" height="60mm" viewBox="0 0 100 60"`, 100, 60, scale(100/pxmm/100, 60/pxmm/60), true, "mm size, viewBox 1 unit = 1mm", 100, 60},
	{`width="200" height="100"`, 200 * pxmm, 100 * pxmm, ident, true, "px size, no viewBox", 200, 100},
	{`width="100mm" height="60mm" viewBox="0 0 200 120"`, 100, 60, scale(0.5/pxmm, 0.5/pxmm), true, "viewBox scales by 0.5mm per unit", 200, 120},
	{`width="100mm" height="60mm" viewBox="10 20 100 60"`, 100, 60, scale(1/pxmm, 1/pxmm).mul(translate(-10, -20)), true, "viewBox with offset", 100, 60},
	{`viewBox="0 0 96 48"`, 96 * pxmm, 48 * pxmm, ident, true, "size from the viewBox", 96, 48},
	{`width="100mm" height="60mm" viewBox="0,0,100,60"`, 100, 60, scale(1/pxmm, 1/pxmm), true, "viewBox separated by commas", 100, 60},
	{`width="100mm" height="60mm" viewBox="0 0 100 30"`, 100, 60, translate(0, 30*0/pxmm).mul(scale(1/pxmm, 1/pxmm)).mul(translate(0, 15)), false, "anisotropic viewBox (default preserveAspectRatio xMidYMid meet)", 100, 30},
	// preserveAspectRatio="none": the viewBox is stretched to the viewport, each axis with its own factor
	{`width="100mm" height="60mm" viewBox="10 20 100 30" preserveAspectRatio="none"`, 100, 60, scale(1/pxmm, 2/pxmm).mul(translate(-10, -20)), true, "stretched viewBox with offset (y doubled)", 100, 30},
	{`width="100mm" height="60mm" viewBox="-5 8 50 60" preserveAspectRatio="none"`, 100, 60, scale(2/pxmm, 1/pxmm).mul(translate(5, -8)), true, "stretched viewBox with offset (x doubled)", 50, 60},
	// a percentage as the size of the outermost svg: there is no parent viewport, the reader takes that
	// side from the viewBox (in px); the other side is absolute and differs from the viewBox's
	{`width="100%" height="120" viewBox="0 0 100 60" preserveAspectRatio="none"`, 100 * pxmm, 120 * pxmm, scale(1, 2), true, "width a percentage, height absolute", 100, 60},
	{`width="50mm" height="100%" viewBox="0 0 100 60" preserveAspectRatio="none"`, 50, 60 * pxmm, scale(0.5/pxmm, 1), true, "height a percentage, width absolute", 100, 60},
	{`width="100%" height="100%" viewBox="0 0 100 60"`, 100 * pxmm, 60 * pxmm, ident, true, "both sides percentages", 100, 60},
}

type xf struct {
	attr string
	m    aff
	sup  bool // supported by the parser (skewX/skewY are marked TODO in the code)
}

var xforms = []xf{
	{"", ident, true},
	{"translate(10,5)", translate(10, 5), true},
	{"scale(2)", scale(2, 2), true},
	{"rotate(30)", rotate(30), true},
	{"rotate(30,10,4)", translate(10, 4).mul(rotate(30)).mul(translate(-10, -4)), true},
	{"matrix(1,0.5,-0.5,1,3,4)", aff{1, 0.5, -0.5, 1, 3, 4}, true},
	{"translate(10,5) rotate(30)", translate(10, 5).mul(rotate(30)), true},
	{"scale(2,0.5)", scale(2, 0.5), true},
	{"rotate(30) translate(10 5)", rotate(30).mul(translate(10, 5)), true},
	{"skewX(20)", skewX(20), false},
	// transform lists may be separated by commas and white space (SVG 1.1 7.6: comma-wsp)
	{"translate(10,5),rotate(30)", translate(10, 5).mul(rotate(30)), true},
	{"translate(10) , scale(2 0.5)", translate(10, 0).mul(scale(2, 0.5)), true},
	{" rotate( -30 , 10 , 4 ) ", translate(10, 4).mul(rotate(-30)).mul(translate(-10, -4)), true},
	{"skewY(15)", skewY(15), false},
	// rotate about a point after other transforms in the same list (its centre is given in the coordinates of that place in the list)
	{"scale(2,0.5) rotate(30,10,4)", scale(2, 0.5).mul(translate(10, 4)).mul(rotate(30)).mul(translate(-10, -4)), true},
	{"rotate(20) translate(5,5) rotate(-30,10,4)", rotate(20).mul(translate(5, 5)).mul(translate(10, 4)).mul(rotate(-30)).mul(translate(-10, -4)), true},
}

type shapeSpec struct {
	xml    string
	segs   func() []oracle.Subpath // geometry in user units per the SVG shape definitions
	closed bool
	noFill bool
	desc   string
}

// segsV: for shapes with percentages the geometry depends on the viewport size in user units
var segsV = map[string]func(vw, vh float64) []oracle.Subpath{}

func pctShape(xml string, closed, noFill bool, desc string, f func(vw, vh float64) []oracle.Subpath) shapeSpec {
	segsV[desc] = f
	return shapeSpec{xml, nil, closed, noFill, desc}
}

func poly(closed bool, xy ...float64) []oracle.Subpath {
	sp := oracle.Subpath{Start: oracle.Pt{X: xy[0], Y: xy[1]}, Closed: closed}
	prev := sp.Start
	for i := 2; i+1 < len(xy); i += 2 {
		p := oracle.Pt{X: xy[i], Y: xy[i+1]}
		sp.Segs = append(sp.Segs, oracle.Seg{Kind: oracle.CmdLine, P0: prev, P1: p})
		prev = p
	}
	if closed {
		sp.Segs = append(sp.Segs, oracle.Seg{Kind: oracle.CmdClose, P0: prev, P1: sp.Start})
	}
	return []oracle.Subpath{sp}
}

func ellipseSub(cx, cy, rx, ry float64) []oracle.Subpath {
	// SVG 1.1 9.4: start at (cx+rx, cy), four quarter arcs in positive angle direction
	pts := []oracle.Pt{{X: cx + rx, Y: cy}, {X: cx, Y: cy + ry}, {X: cx - rx, Y: cy}, {X: cx, Y: cy - ry}, {X: cx + rx, Y: cy}}
	sp := oracle.Subpath{Start: pts[0], Closed: true}
	for i := 0; i < 4; i++ {
		sp.Segs = append(sp.Segs, oracle.Seg{Kind: oracle.CmdArc, P0: pts[i], P1: pts[i+1], Rx: rx, Ry: ry, Sweep: true})
	}
	return []oracle.Subpath{sp}
}

func roundRect(x, y, w, h, rx, ry float64) []oracle.Subpath {
	// SVG 1.1 9.2
	sp := oracle.Subpath{Start: oracle.Pt{X: x + rx, Y: y}, Closed: true}
	cur := sp.Start
	line := func(px, py float64) {
		p := oracle.Pt{X: px, Y: py}
		sp.Segs = append(sp.Segs, oracle.Seg{Kind: oracle.CmdLine, P0: cur, P1: p})
		cur = p
	}
	arc := func(px, py float64) {
		p := oracle.Pt{X: px, Y: py}
		sp.Segs = append(sp.Segs, oracle.Seg{Kind: oracle.CmdArc, P0: cur, P1: p, Rx: rx, Ry: ry, Sweep: true})
		cur = p
	}
	line(x+w-rx, y)
	arc(x+w, y+ry)
	line(x+w, y+h-ry)
	arc(x+w-rx, y+h)
	line(x+rx, y+h)
	arc(x, y+h-ry)
	line(x, y+ry)
	arc(x+rx, y)
	return []oracle.Subpath{sp}
}

var shapes = []shapeSpec{
	{`<rect x="5" y="8" width="30" height="20"%s/>`, func() []oracle.Subpath { return poly(true, 5, 8, 35, 8, 35, 28, 5, 28) }, true, false, "rect"},
	{`<circle cx="20" cy="15" r="9"%s/>`, func() []oracle.Subpath { return ellipseSub(20, 15, 9, 9) }, true, false, "circle"},
	{`<ellipse cx="20" cy="15" rx="12" ry="6"%s/>`, func() []oracle.Subpath { return ellipseSub(20, 15, 12, 6) }, true, false, "ellipse"},
	{`<polygon points="5,5 30,8 12,25"%s/>`, func() []oracle.Subpath { return poly(true, 5, 5, 30, 8, 12, 25) }, true, false, "polygon"},
	{`<polyline points="5,5 30,8 12,25"%s/>`, func() []oracle.Subpath { return poly(false, 5, 5, 30, 8, 12, 25) }, false, false, "polyline"},
	{`<line x1="5" y1="5" x2="30" y2="12"%s/>`, func() []oracle.Subpath { return poly(false, 5, 5, 30, 12) }, false, true, "line"},
	{`<path d="M5 5h20v10l-10 8zm3 3v6h6z"%s/>`, func() []oracle.Subpath {
		return append(poly(true, 5, 5, 25, 5, 25, 15, 15, 23), poly(true, 8, 8, 8, 14, 14, 14)...)
	}, true, false, "path with relative commands and two subpaths"},
	{`<path d="M5 20Q15 0 25 20T45 20C50 30 30 35 25 30S10 30 5 20z"%s/>`, func() []oracle.Subpath {
		p := func(x, y float64) oracle.Pt { return oracle.Pt{X: x, Y: y} }
		sp := oracle.Subpath{Start: p(5, 20), Closed: true}
		sp.Segs = append(sp.Segs,
			oracle.Seg{Kind: oracle.CmdQuad, P0: p(5, 20), C1: p(15, 0), P1: p(25, 20)},
			oracle.Seg{Kind: oracle.CmdQuad, P0: p(25, 20), C1: p(35, 40), P1: p(45, 20)},
			oracle.Seg{Kind: oracle.CmdCube, P0: p(45, 20), C1: p(50, 30), C2: p(30, 35), P1: p(25, 30)},
			oracle.Seg{Kind: oracle.CmdCube, P0: p(25, 30), C1: p(20, 25), C2: p(10, 30), P1: p(5, 20)},
		)
		return []oracle.Subpath{sp}
	}, true, false, "path with Q T C S"},
	{`<rect x="5" y="8" width="30" height="20" rx="4"%s/>`, func() []oracle.Subpath { return roundRect(5, 8, 30, 20, 4, 4) }, true, false, "rounded rect rx only"},
	{`<rect x="5" y="8" width="30" height="20" rx="6" ry="3"%s/>`, func() []oracle.Subpath { return roundRect(5, 8, 30, 20, 6, 3) }, true, false, "rounded rect rx!=ry"},
	{`<path d="M10 10A8 5 30 1 0 25 18z"%s/>`, func() []oracle.Subpath {
		p := func(x, y float64) oracle.Pt { return oracle.Pt{X: x, Y: y} }
		sp := oracle.Subpath{Start: p(10, 10), Closed: true}
		sp.Segs = append(sp.Segs, oracle.Seg{Kind: oracle.CmdArc, P0: p(10, 10), P1: p(25, 18), Rx: 8, Ry: 5, Phi: 30 * math.Pi / 180, Large: true, Sweep: false},
			oracle.Seg{Kind: oracle.CmdClose, P0: p(25, 18), P1: p(10, 10)})
		return []oracle.Subpath{sp}
	}, true, false, "path with elliptical arc"},
	// percentages: x, width, rx of the viewport width, y, height, ry of its height, r of sqrt((w^2+h^2)/2) (SVG 1.1 7.10)
	pctShape(`<rect x="10%%" y="25%%" width="30%%" height="50%%"%s/>`, true, false, "rect with percentages",
		func(vw, vh float64) []oracle.Subpath {
			return poly(true, 0.1*vw, 0.25*vh, 0.4*vw, 0.25*vh, 0.4*vw, 0.75*vh, 0.1*vw, 0.75*vh)
		}),
	pctShape(`<rect x="5" y="8" width="30" height="20" rx="5%%"%s/>`, true, false, "rounded rect, rx as a percentage, no ry",
		func(vw, vh float64) []oracle.Subpath { return roundRect(5, 8, 30, 20, 0.05*vw, 0.05*vw) }),
	pctShape(`<rect x="5" y="8" width="30" height="20" ry="5%%"%s/>`, true, false, "rounded rect, ry as a percentage, no rx",
		func(vw, vh float64) []oracle.Subpath { return roundRect(5, 8, 30, 20, 0.05*vh, 0.05*vh) }),
	pctShape(`<circle cx="40%%" cy="50%%" r="10%%"%s/>`, true, false, "circle with percentages",
		func(vw, vh float64) []oracle.Subpath {
			r := 0.1 * math.Sqrt((vw*vw+vh*vh)/2)
			return ellipseSub(0.4*vw, 0.5*vh, r, r)
		}),
	pctShape(`<ellipse cx="30%%" cy="40%%" rx="12%%" ry="15%%"%s/>`, true, false, "ellipse with percentages",
		func(vw, vh float64) []oracle.Subpath { return ellipseSub(0.3*vw, 0.4*vh, 0.12*vw, 0.15*vh) }),
	pctShape(`<line x1="10%%" y1="20%%" x2="60%%" y2="45%%"%s/>`, false, true, "line with percentages",
		func(vw, vh float64) []oracle.Subpath { return poly(false, 0.1*vw, 0.2*vh, 0.6*vw, 0.45*vh) }),
	{`<rect x="1mm" y="0.5cm" width="0.5in" height="18pt"%s/>`, func() []oracle.Subpath {
		x, y, w, h := 96/25.4, 0.5*960/25.4, 0.5*96, 18*96/72.0
		return poly(true, x, y, x+w, y, x+w, y+h, x, y+h)
	}, true, false, "rect with absolute units (mm, cm, in, pt)"},
}

// style variants: the attribute text for the shape element, an optional <style> block, attrs for
// the enclosing <g>, and the expected computed style.
type want struct {
	fill, stroke color.RGBA // premultiplied; A=0 means none
	sw           float64    // user units
	cap, join    string
	miter        float64
	dash         []float64 // user units, as specified; nil = solid
	dashOffset   float64
}

func defaults() want {
	return want{fill: color.RGBA{0, 0, 0, 255}, sw: 1, cap: "butt", join: "miter", miter: 4}
}

type styleSpec struct {
	shapeAttrs, css, gAttrs string
	w                       want
	desc                    string
	xf                      *aff // transform attribute on the shape element itself (in shapeAttrs)
}

func styles() []styleSpec {
	red, green, blue := color.RGBA{255, 0, 0, 255}, color.RGBA{0, 255, 0, 255}, color.RGBA{0, 0, 255, 255}
	d := defaults
	with := func(f func(*want)) want { w := d(); f(&w); return w }
	return []styleSpec{
		{``, ``, ``, d(), "defaults: fill black, no stroke", nil},
		{` fill="#f00"`, ``, ``, with(func(w *want) { w.fill = red }), "fill #rgb", nil},
		{` fill="#00ff00" stroke="blue" stroke-width="2"`, ``, ``, with(func(w *want) { w.fill = green; w.stroke = blue; w.sw = 2 }), "fill #rrggbb, named stroke", nil},
		{` fill="none" stroke="rgb(10,20,30)" stroke-width="3" stroke-linecap="round" stroke-linejoin="round"`, ``, ``, with(func(w *want) {
			w.fill = color.RGBA{}
			w.stroke = color.RGBA{10, 20, 30, 255}
			w.sw, w.cap, w.join = 3, "round", "round"
		}), "rgb() stroke, round cap/join", nil},
		{` fill="rgb(100%,0%,50%)"`, ``, ``, with(func(w *want) { w.fill = color.RGBA{255, 0, 128, 255} }), "rgb() with percentages", nil},
		{` fill="none" stroke="red" stroke-width="2" stroke-linejoin="miter" stroke-miterlimit="2"`, ``, ``, with(func(w *want) { w.fill = color.RGBA{}; w.stroke = red; w.sw = 2; w.miter = 2 }), "linejoin before miterlimit", nil},
		{` fill="none" stroke="red" stroke-width="2" stroke-miterlimit="2" stroke-linejoin="miter"`, ``, ``, with(func(w *want) { w.fill = color.RGBA{}; w.stroke = red; w.sw = 2; w.miter = 2 }), "miterlimit before linejoin", nil},
		{` fill="none" stroke="red" stroke-width="2" stroke-miterlimit="2"`, ``, ``, with(func(w *want) { w.fill = color.RGBA{}; w.stroke = red; w.sw = 2; w.miter = 2 }), "miterlimit alone (default join is miter)", nil},
		{` style="fill:blue;stroke:red;stroke-width:1.5"`, ``, ``, with(func(w *want) { w.fill = blue; w.stroke = red; w.sw = 1.5 }), "style attribute", nil},
		{` fill="red" style="fill:blue"`, ``, ``, with(func(w *want) { w.fill = blue }), "style attribute after presentation attribute", nil},
		{` style="fill:blue" fill="red"`, ``, ``, with(func(w *want) { w.fill = blue }), "style attribute before presentation attribute (style wins regardless of order)", nil},
		{``, ``, ` fill="green" stroke="blue" stroke-width="2"`, with(func(w *want) { w.fill = color.RGBA{0, 128, 0, 255}; w.stroke = blue; w.sw = 2 }), "inherited from g", nil},
		// a group without any attribute (the single space only makes document() write the element), styled by a type selector
		{``, `g{fill:#f00;stroke:blue;stroke-width:2}`, ` `, with(func(w *want) { w.fill = red; w.stroke = blue; w.sw = 2 }), "type selector on a group that has no attributes", nil},
		{` fill="red"`, ``, ` fill="green"`, with(func(w *want) { w.fill = red }), "own attribute overrides inherited", nil},
		{` class="a"`, `.a{fill:blue}`, ``, with(func(w *want) { w.fill = blue }), "class rule", nil},
		{` class="a" fill="red"`, `.a{fill:blue}`, ``, with(func(w *want) { w.fill = blue }), "class rule beats presentation attribute", nil},
		{` id="s1"`, `#s1{fill:lime;stroke:black}`, ``, with(func(w *want) { w.fill = green; w.stroke = color.RGBA{0, 0, 0, 255} }), "id rule", nil},
		{` fill="rgba(255,0,0,0.5)"`, ``, ``, with(func(w *want) { w.fill = color.RGBA{128, 0, 0, 128} }), "rgba() with fractional alpha", nil},
		{` fill="none" stroke="red" stroke-linecap="square" stroke-linejoin="bevel" stroke-width="0.5"`, ``, ``, with(func(w *want) {
			w.fill = color.RGBA{}
			w.stroke = red
			w.sw, w.cap, w.join = 0.5, "square", "bevel"
		}), "square cap, bevel join", nil},
		{` fill="none" stroke="red" stroke-width="2" stroke-linejoin="miter"`, ``, ` stroke-miterlimit="2" stroke-linecap="round"`, with(func(w *want) {
			w.fill = color.RGBA{}
			w.stroke = red
			w.sw, w.miter, w.cap = 2, 2, "round"
		}), "miter limit and cap inherited from g, join on the shape", nil},
		{` stroke-width="3"`, ``, ` fill="none" stroke="blue" stroke-width="1" stroke-linejoin="round"`, with(func(w *want) {
			w.fill = color.RGBA{}
			w.stroke = blue
			w.sw, w.join = 3, "round"
		}), "stroke and join inherited, width overridden", nil},
		{` fill="none" stroke="red" stroke-width="1mm"`, ``, ``, with(func(w *want) { w.fill = color.RGBA{}; w.stroke = red; w.sw = 1 / pxmm }), "stroke width with a unit (1mm = 3.78 user units)", nil},
		{` transform="translate(3,4)" fill="#f00"`, ``, ``, with(func(w *want) { w.fill = red }), "transform attribute on the shape", &aff{1, 0, 0, 1, 3, 4}},
		{` fill="#f00" transform="rotate(20) scale(1.5,0.5)"`, ``, ``, with(func(w *want) { w.fill = red }), "transform list on the shape, after other attributes", func() *aff { m := rotate(20).mul(scale(1.5, 0.5)); return &m }()},
		{` style="stroke:blue;fill:none;stroke-width:2;stroke-linecap:round;stroke-linejoin:bevel"`, `rect,circle,ellipse,polygon,polyline,line,path{stroke:red;stroke-width:5}`, ``, with(func(w *want) {
			w.fill = color.RGBA{}
			w.stroke = blue
			w.sw, w.cap, w.join = 2, "round", "bevel"
		}), "type selector rule overridden by the style attribute", nil},
		{``, `g rect, g circle, g ellipse, g polygon, g polyline, g line, g path{fill:blue}`, ` fill="red"`, with(func(w *want) { w.fill = blue }), "descendant selector beats the inherited presentation attribute", nil},
		{` class="hot"`, `.layer .hot{fill:blue}`, ` class="layer"`, with(func(w *want) { w.fill = blue }), "descendant selector with a class on both compounds", nil},
		{` class="hot"`, `.layer .hot{fill:blue}`, ` class="other"`, d(), "descendant selector whose ancestor compound does not match", nil},
		{` class="hot"`, `.hot .hot{fill:blue}`, ` class="layer"`, d(), "descendant selector needing the class on an ancestor too", nil},
		{` class="hot"`, `#top .hot{fill:blue;stroke:red}`, ` id="top"`, with(func(w *want) { w.fill = blue; w.stroke = red }), "id compound then class compound", nil},
		{` class="hot" id="s2"`, `g.layer .hot#s2{fill:blue}`, ` class="layer"`, with(func(w *want) { w.fill = blue }), "type+class compound then class+id compound", nil},
		{` class="a b"`, `.a.b{fill:blue}`, ``, with(func(w *want) { w.fill = blue }), "two classes in one compound, both present", nil},
		{` class="a"`, `.a.b{fill:blue}`, ``, d(), "two classes in one compound, one missing", nil},
		{` class="hot"`, `[class=hot]{fill:blue}`, ``, with(func(w *want) { w.fill = blue }), "attribute selector", nil},
		{` class="a"`, `.a{fill:red}.a{fill:blue}`, ``, with(func(w *want) { w.fill = blue }), "later rule of equal specificity wins", nil},
		{` class="a"`, `.a{fill:red;stroke:blue}.b{fill:lime}.a{stroke:red}`, ``, with(func(w *want) { w.fill = red; w.stroke = red }), "three rules, the middle one for another class", nil},
		{` fill="red"`, `.a{fill:blue}`, ` class="a"`, with(func(w *want) { w.fill = red }), "rule for the parent only: own presentation attribute beats the inherited value", nil},
		{` fill="none" stroke="red" stroke-width="2" stroke-dasharray="6 3"`, ``, ``, with(func(w *want) { w.fill = color.RGBA{}; w.stroke = red; w.sw = 2; w.dash = []float64{6, 3} }), "dash array", nil},
		{` fill="none" stroke="red" stroke-dasharray="6,3" stroke-dashoffset="2" transform="translate(3,4)"`, ``, ``, with(func(w *want) { w.fill = color.RGBA{}; w.stroke = red; w.dash = []float64{6, 3}; w.dashOffset = 2 }), "dash array and offset before a transform on the same element", &aff{1, 0, 0, 1, 3, 4}},
		{` transform="scale(2)" fill="none" stroke="red" stroke-dasharray="4 1 2 1"`, ``, ``, with(func(w *want) { w.fill = color.RGBA{}; w.stroke = red; w.dash = []float64{4, 1, 2, 1} }), "transform before a four-element dash array", &aff{2, 0, 0, 2, 0, 0}},
		{` fill="none"`, ``, ` stroke="red" stroke-dasharray="6 3"`, with(func(w *want) { w.fill = color.RGBA{}; w.stroke = red; w.dash = []float64{6, 3} }), "dash array inherited from g (group transforms and point lists are parsed after it)", nil},
		{` fill="none"`, ``, ` stroke="red" stroke-width="2" stroke-dasharray="6 3" stroke-dashoffset="2"`, with(func(w *want) { w.fill = color.RGBA{}; w.stroke = red; w.sw = 2; w.dash = []float64{6, 3}; w.dashOffset = 2 }), "dash array, dash offset and a stroke width other than 1 inherited from g", nil},
		{` fill="none" style="stroke:red;stroke-dasharray:5,2"`, ``, ``, with(func(w *want) { w.fill = color.RGBA{}; w.stroke = red; w.dash = []float64{5, 2} }), "dash array in the style attribute", nil},
		{` fill="none" class="d"`, `.d{stroke:red;stroke-dasharray:5 1}`, ``, with(func(w *want) { w.fill = color.RGBA{}; w.stroke = red; w.dash = []float64{5, 1} }), "dash array from a CSS rule", nil},
		{` fill="none" stroke-dasharray="none"`, ``, ` stroke="red" stroke-dasharray="6 3"`, with(func(w *want) { w.fill = color.RGBA{}; w.stroke = red }), "dasharray none overrides the inherited pattern", nil},
		{` fill="none" stroke="red" stroke-width="2" stroke-linejoin="miter"`, ``, ` stroke-linejoin="round" stroke-miterlimit="10"`, with(func(w *want) { w.fill = color.RGBA{}; w.stroke = red; w.sw = 2; w.miter = 10 }), "miter limit given on g while its join is round, the shape switches back to miter", nil},
		{` fill="none" stroke="red" stroke-width="2" stroke-linejoin="bevel" stroke-miterlimit="2" style="stroke-linejoin:miter"`, ``, ``, with(func(w *want) { w.fill = color.RGBA{}; w.stroke = red; w.sw = 2; w.miter = 2 }), "miter limit read while the join is bevel, the style attribute switches to miter", nil},
		{` fill="none" stroke="red" stroke-width="2" class="m"`, `.m{stroke-linejoin:miter}`, ` stroke-linejoin="round" stroke-miterlimit="3"`, with(func(w *want) { w.fill = color.RGBA{}; w.stroke = red; w.sw = 2; w.miter = 3 }), "miter limit inherited from a g with a round join, a CSS rule switches to miter", nil},
		{` id="s1"`, `#nope{fill:blue}`, ``, d(), "id rule for another id", nil},
		{` class="hot"`, `#other .hot{fill:blue}`, ` id="top"`, d(), "id compound that matches no ancestor", nil},
		{` class="hot"`, `g > .hot{fill:blue}`, ` class="layer"`, with(func(w *want) { w.fill = blue }), "child combinator, parent is a g", nil},
		{` class="hot"`, `svg > .hot{fill:blue}`, ` class="layer"`, d(), "child combinator, parent is not the svg element", nil},
		{` class="hot"`, `svg .hot{fill:blue}`, ` class="layer"`, with(func(w *want) { w.fill = blue }), "descendant of the svg element", nil},
		{` class="hot x"`, `[class~=hot]{fill:blue}`, ``, with(func(w *want) { w.fill = blue }), "attribute selector ~=", nil},
		{` class="hot x"`, `[class=hot]{fill:blue}`, ``, d(), "attribute selector = needs the whole value", nil},
		{` class="hot"`, `[class="hot"]{fill:blue}`, ``, with(func(w *want) { w.fill = blue }), "attribute selector with a quoted value", nil},
		{` id="s1"`, `[id]{fill:blue}`, ``, with(func(w *want) { w.fill = blue }), "attribute presence selector", nil},
		{` id="s1" class="a"`, `#s1{fill:blue}.a{fill:red}`, ``, with(func(w *want) { w.fill = blue }), "id rule beats a later class rule (specificity)", nil},
		{` class="a"`, `.a{fill:blue}rect,circle,ellipse,polygon,polyline,line,path{fill:red;stroke:red}`, ``, with(func(w *want) { w.fill = blue; w.stroke = red }), "class rule beats a later type rule, which still sets what the class rule leaves open", nil},
		{` class="a"`, `g .a{fill:blue}.a{fill:red}`, ` stroke="none"`, with(func(w *want) { w.fill = blue }), "type+class selector beats a later class selector", nil},
		{` class="a" id="s1"`, `.a,#s1{fill:blue}.a.a{fill:red}`, ``, with(func(w *want) { w.fill = blue }), "selector list takes the specificity of its most specific matching selector", nil},
	}
}

// ---- the check -----------------------------------------------------------------------------

// elderSibling is written in front of the shape, inside the innermost group (set by the family
// "elder siblings" only; workers are single-threaded).
var elderSibling string

// elderSiblings draw nothing themselves: what they set must end with them, and what the
// enclosing groups set must still hold after them.
var elderSiblings = []string{
	`<g stroke-miterlimit="9" stroke-linejoin="bevel" stroke-width="7" fill="lime" transform="scale(3)"></g>`,
	`<g><g stroke="blue" stroke-linecap="square" stroke-dasharray="1 2"></g></g><defs></defs>`,
}

func document(sz sizeSpec, g1, g2 xf, sh shapeSpec, st styleSpec) string {
	var sb strings.Builder
	sb.WriteString(`<svg xmlns="http://www.w3.org/2000/svg" ` + sz.attrs + `>`)
	if st.css != "" {
		sb.WriteString(`<style>` + st.css + `</style>`)
	}
	open := 0
	for _, g := range []xf{g1, g2} {
		if g.attr != "" || (open == 0 && st.gAttrs != "") {
			sb.WriteString(`<g`)
			if g.attr != "" {
				sb.WriteString(` transform="` + g.attr + `"`)
			}
			if open == 0 {
				sb.WriteString(st.gAttrs)
			}
			sb.WriteString(`>`)
			open++
		}
	}
	if open == 0 && st.gAttrs != "" {
		sb.WriteString(`<g` + st.gAttrs + `>`)
		open++
	}
	sb.WriteString(elderSibling) // (family "elder siblings": elements that are opened and closed before the shape)
	sb.WriteString(fmt.Sprintf(sh.xml, st.shapeAttrs))
	for ; open > 0; open-- {
		sb.WriteString(`</g>`)
	}
	sb.WriteString(`</svg>`)
	return sb.String()
}

func capName(c canvas.Capper) string {
	switch c.(type) {
	case canvas.ButtCapper:
		return "butt"
	case canvas.RoundCapper:
		return "round"
	case canvas.SquareCapper:
		return "square"
	}
	return fmt.Sprintf("%T", c)
}

func joinName(j canvas.Joiner) (string, float64) {
	switch v := j.(type) {
	case canvas.BevelJoiner:
		return "bevel", 0
	case canvas.RoundJoiner:
		return "round", 0
	case canvas.MiterJoiner:
		return "miter", v.Limit
	case canvas.ArcsJoiner:
		return "arcs", v.Limit
	}
	return fmt.Sprintf("%T", j), 0
}

func check(r *fw.R, sz sizeSpec, g1, g2 xf, sh shapeSpec, st styleSpec) {
	doc := document(sz, g1, g2, sh, st)
	r.States++
	r.Transitions++
	r.Validated++
	c, err := canvas.ParseSVG(strings.NewReader(doc))
	tag := ""
	if !g1.sup || !g2.sup {
		tag += " [skew transform]"
	}
	if !sz.uniform {
		tag += " [anisotropic viewBox]"
	}
	if err != nil {
		r.Violate("parse-error", fmt.Sprintf("ParseSVG returned error %v%s", err, tag))
		return
	}
	if math.Abs(c.W-sz.w) > 1e-6 || math.Abs(c.H-sz.h) > 1e-6 {
		r.Violate("canvas-size", fmt.Sprintf("canvas is %.6g x %.6g mm, the document specifies %.6g x %.6g mm%s", c.W, c.H, sz.w, sz.h, tag))
		return
	}
	ops := rec.Record(c).Ops
	var pathOps []rec.Op
	for _, o := range ops {
		if o.Kind == "path" {
			pathOps = append(pathOps, o)
		}
	}
	if len(pathOps) != 1 {
		r.Violate("op-count", fmt.Sprintf("%d path operations recorded for one shape%s", len(pathOps), tag))
		return
	}
	op := pathOps[0]
	// expected geometry: user units -> viewport px -> mm, y up
	total := sz.vb.mul(g1.m).mul(g2.m)
	if st.xf != nil {
		total = total.mul(*st.xf)
	}
	toMM := func(p oracle.Pt) oracle.Pt {
		q := total.apply(p)
		return oracle.Pt{X: q.X * pxmm, Y: sz.h - q.Y*pxmm}
	}
	expSegs := sh.segs
	if f := segsV[sh.desc]; f != nil {
		expSegs = func() []oracle.Subpath { return f(sz.vw, sz.vh) }
	}
	expPls := oracle.Dense(expSegs(), 128)
	for i := range expPls {
		for j := range expPls[i].P {
			expPls[i].P[j] = toMM(expPls[i].P[j])
		}
	}
	gotSps, derr := oracle.Decode(op.Data)
	if derr != nil {
		r.Violate("malformed-path", derr.Error())
		return
	}
	gotPls := oracle.Dense(gotSps, 128)
	for i := range gotPls {
		for j := range gotPls[i].P {
			p := gotPls[i].P[j]
			gotPls[i].P[j] = oracle.Pt{X: op.M[0][0]*p.X + op.M[0][1]*p.Y + op.M[0][2], Y: op.M[1][0]*p.X + op.M[1][1]*p.Y + op.M[1][2]}
		}
	}
	h1 := oracle.HausdorffOneSided(expPls, gotPls, 3, false)
	h2 := oracle.HausdorffOneSided(gotPls, expPls, 3, false)
	r.Max("geometry_hausdorff_mm", math.Max(h1, h2))
	scaleMM := math.Sqrt(math.Abs(total.det())) * pxmm
	if !(math.Max(h1, h2) <= 1e-3*math.Max(1, scaleMM*40)) {
		lo, hi, _ := oracle.BBox(gotPls)
		elo, ehi, _ := oracle.BBox(expPls)
		r.Violate("geometry", fmt.Sprintf("drawn geometry differs from the specified one by %.4g mm (bbox drawn [%.3f,%.3f]-[%.3f,%.3f], specified [%.3f,%.3f]-[%.3f,%.3f])%s", math.Max(h1, h2), lo.X, lo.Y, hi.X, hi.Y, elo.X, elo.Y, ehi.X, ehi.Y, tag))
		return
	}
	if len(gotSps) != len(expPls) {
		r.Violate("subpath-count", fmt.Sprintf("%d subpaths drawn, %d specified", len(gotSps), len(expPls)))
		return
	}
	for i, sp := range gotSps {
		if sp.Closed != expPls[i].Closed {
			r.Violate("closedness", fmt.Sprintf("subpath %d closed=%v, specified closed=%v", i, sp.Closed, expPls[i].Closed))
			return
		}
	}
	// style
	w := st.w
	gotFill := op.Style.Fill.Color
	if !op.Style.HasFill() {
		gotFill = color.RGBA{}
	}
	if !sh.noFill && gotFill != w.fill {
		r.Violate("fill-paint", fmt.Sprintf("fill is %v, the document specifies %v (premultiplied)%s", gotFill, w.fill, tag))
		return
	}
	gotStroke := op.Style.Stroke.Color
	if !op.Style.HasStroke() {
		gotStroke = color.RGBA{}
	}
	if gotStroke != w.stroke {
		r.Violate("stroke-paint", fmt.Sprintf("stroke is %v, the document specifies %v%s", gotStroke, w.stroke, tag))
		return
	}
	if w.stroke.A != 0 {
		mdet := math.Abs(op.M[0][0]*op.M[1][1] - op.M[0][1]*op.M[1][0])
		gotW := op.Style.StrokeWidth * math.Sqrt(mdet)
		wantW := w.sw * scaleMM
		if !(math.Abs(gotW-wantW) <= 1e-6*math.Max(1, wantW)) {
			r.Violate("stroke-width", fmt.Sprintf("effective stroke width %.6g mm, specified %.6g mm%s", gotW, wantW, tag))
			return
		}
		if cn := capName(op.Style.StrokeCapper); cn != w.cap {
			r.Violate("stroke-linecap", fmt.Sprintf("cap is %s, specified %s", cn, w.cap))
			return
		}
		jn, lim := joinName(op.Style.StrokeJoiner)
		if jn != w.join {
			r.Violate("stroke-linejoin", fmt.Sprintf("join is %s, specified %s", jn, w.join))
			return
		}
		if jn == "miter" && math.Abs(lim-w.miter) > 1e-9 {
			r.Violate("stroke-miterlimit", fmt.Sprintf("miter limit is %g, specified %g", lim, w.miter))
			return
		}
		// dash pattern: SVG gives the lengths in user units; canvas paints Style.Dashes x stroke
		// width (ScaleDash in every renderer), so the painted lengths in mm are
		// Dashes x StrokeWidth x scale of the matrix, which must be the specified lengths in mm
		gotDash := op.Style.Dashes
		same := len(gotDash) == len(w.dash)
		for i := 0; same && i < len(gotDash); i++ {
			same = math.Abs(gotDash[i]*gotW-w.dash[i]*scaleMM) <= 1e-6*math.Max(1, w.dash[i]*scaleMM)
		}
		if !same || (len(w.dash) > 0 && math.Abs(op.Style.DashOffset*gotW-w.dashOffset*scaleMM) > 1e-6*math.Max(1, w.dashOffset*scaleMM)) {
			r.Violate("stroke-dasharray", fmt.Sprintf("dash pattern is %v offset %g (x stroke width %.6g mm), the document specifies %v offset %g user units (x %.6g mm)%s", gotDash, op.Style.DashOffset, gotW, w.dash, w.dashOffset, scaleMM, tag))
			return
		}
	}
	r.NontrivialIdx()
	r.Outcome("ok")
}

func families(tier string) []fw.Family {
	sts := styles()
	nx := len(xforms)
	// quick: all sizes x (g1 any, g2 none) + (g1,g2) pairs on the first size x shapes x styles subset
	radA := []int{len(sizes), nx, len(shapes), len(sts)}
	radB := []int{nx, nx, len(shapes)}
	// quick: the geometry axes (size x transform x shape) in full under two styles, and the style axis
	// in full over shapes under three sizes and two transforms; thorough: the full product
	geoStyles := []int{0, 2}
	stySizes := []int{0, 3, 7}
	styXf := []int{0, 6}
	radA1 := []int{len(sizes), nx, len(shapes), len(geoStyles)}
	radA2 := []int{len(stySizes), len(styXf), len(shapes), len(sts)}
	famA := fw.Family{Name: "size x one group transform x shape x style", N: oracle.Prod(radA...),
		Check: func(i int64, r *fw.R) {
			g := oracle.Digits(i, radA...)
			check(r, sizes[g[0]], xforms[g[1]], xforms[0], shapes[g[2]], sts[g[3]])
		},
		Desc: func(i int64) string {
			g := oracle.Digits(i, radA...)
			return document(sizes[g[0]], xforms[g[1]], xforms[0], shapes[g[2]], sts[g[3]])
		}}
	famA1 := fw.Family{Name: "size x one group transform x shape x {default style, fill+stroke}", N: oracle.Prod(radA1...),
		Check: func(i int64, r *fw.R) {
			g := oracle.Digits(i, radA1...)
			check(r, sizes[g[0]], xforms[g[1]], xforms[0], shapes[g[2]], sts[geoStyles[g[3]]])
		},
		Desc: func(i int64) string {
			g := oracle.Digits(i, radA1...)
			return document(sizes[g[0]], xforms[g[1]], xforms[0], shapes[g[2]], sts[geoStyles[g[3]]])
		}}
	famA2 := fw.Family{Name: "3 sizes x 2 group transforms x shape x style", N: oracle.Prod(radA2...),
		Check: func(i int64, r *fw.R) {
			g := oracle.Digits(i, radA2...)
			check(r, sizes[stySizes[g[0]]], xforms[styXf[g[1]]], xforms[0], shapes[g[2]], sts[g[3]])
		},
		Desc: func(i int64) string {
			g := oracle.Digits(i, radA2...)
			return document(sizes[stySizes[g[0]]], xforms[styXf[g[1]]], xforms[0], shapes[g[2]], sts[g[3]])
		}}
	fs := []fw.Family{famA1, famA2}
	if tier == "thorough" {
		fs = []fw.Family{famA}
	}
	fs = append(fs, []fw.Family{
		{Name: "two nested group transforms x shape (viewBox with offset, stroked)", N: oracle.Prod(radB...),
			Check: func(i int64, r *fw.R) {
				g := oracle.Digits(i, radB...)
				check(r, sizes[3], xforms[g[0]], xforms[g[1]], shapes[g[2]], sts[2])
			},
			Desc: func(i int64) string {
				g := oracle.Digits(i, radB...)
				return document(sizes[3], xforms[g[0]], xforms[g[1]], shapes[g[2]], sts[2])
			}},
	}...)
	if tier == "thorough" {
		radC := []int{len(sizes), nx, nx, len(shapes), len(sts)}
		fs = append(fs, fw.Family{Name: "size x two nested group transforms x shape x style (full product)", N: oracle.Prod(radC...),
			Check: func(i int64, r *fw.R) {
				g := oracle.Digits(i, radC...)
				check(r, sizes[g[0]], xforms[g[1]], xforms[g[2]], shapes[g[3]], sts[g[4]])
			},
			Desc: func(i int64) string {
				g := oracle.Digits(i, radC...)
				return document(sizes[g[0]], xforms[g[1]], xforms[g[2]], shapes[g[3]], sts[g[4]])
			}})
	}
	radE := []int{len(elderSiblings), len(styXf), len(shapes), len(sts)}
	withSibling := func(k int, f func()) {
		elderSibling = elderSiblings[k]
		defer func() { elderSibling = "" }()
		f()
	}
	fs = append(fs, fw.Family{Name: "elder siblings: 2 closed groups in front of the shape x 2 group transforms x shape x style", N: oracle.Prod(radE...),
		Check: func(i int64, r *fw.R) {
			g := oracle.Digits(i, radE...)
			withSibling(g[0], func() { check(r, sizes[3], xforms[styXf[g[1]]], xforms[0], shapes[g[2]], sts[g[3]]) })
		},
		Desc: func(i int64) (d string) {
			g := oracle.Digits(i, radE...)
			withSibling(g[0], func() { d = document(sizes[3], xforms[styXf[g[1]]], xforms[0], shapes[g[2]], sts[g[3]]) })
			return d
		}})
	fs = append(fs, selectorFamily(), cascadeFamily())
	return append(fs, roundTripFamilies(tier)...)
}

// Prop is the C19 check.
func Prop() *fw.Property {
	return &fw.Property{
		ID:    "C19",
		Level: "model_checking",
		Rule: "every document of the grammar {12 size/viewBox forms (incl. stretched viewBoxes with an offset under preserveAspectRatio=none, percentages as the size of the root)} x {16 transform lists (space and comma separated, white space inside, rotate about a point after other transforms), nested up to 2} x {11 shapes} x {18 style sources (presentation attributes in both orders, style attribute, inherited from g, class/id CSS rules, colour syntaxes)} is parsed by ParseSVG; " +
			"an independent evaluator of the SVG semantics for exactly this grammar (viewport/viewBox mapping, right-to-left transform composition, shape-to-path equivalences of SVG 1.1 ch.9, cascade: presentation attribute < CSS rule < style attribute, initial values) gives the expected canvas size, geometry in mm (y up) and computed style; compared with the layer the canvas replays (dense two-sided Hausdorff distance, paints, effective stroke width, cap, join, miter limit)",
		Assumptions: []string{
			"grammar as listed; text, gradients, markers, fill-rule, opacity, preserveAspectRatio attributes are outside it",
			"states = documents, transitions = documents parsed, validated = documents compared with the evaluator",
			"the round trip of the library's own SVG output is covered by C12's programs",
		},
		Families: families,
		KnownPredicates: map[string]func(*fw.Violation) bool{
			"skew-transform":        func(v *fw.Violation) bool { return strings.Contains(v.Detail, "[skew transform]") },
			"anisotropic-viewbox":   func(v *fw.Violation) bool { return strings.Contains(v.Detail, "[anisotropic viewBox]") },
			"rounded-rect-rx-ne-ry": func(v *fw.Violation) bool { return strings.Contains(v.Case, `rx="6" ry="3"`) },
		},
	}
}
