// Package c03: Flatten, ReplaceArcs and XMonotone keep the structure of the path and stay
// within their error bounds.
package c03

import (
	"fmt"
	"math"

	"encoding/json"
	"os"
	"path/filepath"
	"regexp"
	"strconv"
	"verif/internal/cv"
	"verif/internal/fw"
	"verif/internal/oracle"
	"verif/internal/props/curvefam"
)

// C is the "small constant multiple" of the statement: every curve point must be within C*t of
// the flattened polyline.
const C = 2.0

// ReplaceArcsRel is the "fixed small relative error" allowed for ReplaceArcs, relative to rx.
// The design estimate 1e-3 (2.7e-4 for the least-squares kappa) does not hold on the pinned
// tree: canvas uses Maisonobe's tangent-matching kappa in 90 degree steps, whose radial error
// at mid-arc is 1.963e-3 r for every quarter arc (observed maximum, see replacearcs_hausdorff/rx).
// 3e-3 = that maximum * 1.3 rounded up; errors in (1e-3, 3e-3] are tallied as an outcome class.
const ReplaceArcsRel = 3e-3

// knownCases (c03_known_cases.json, written once from runs on the pinned tree, never at check
// time) lists the inputs for which the unchanged tree breaks the statement, one entry per
// (input path, tolerance, violation class) with the error/t it shows there (0 for structural
// classes). A violation is a known finding only if its very input is listed for that class and its
// error/t is at most 1.05 x the listed value; a new input, a new class or a larger error is reported.
var knownCases = func() map[string]float64 {
	out := map[string]float64{}
	b, err := os.ReadFile(filepath.Join(fw.Root(), "c03_known_cases.json"))
	if err != nil {
		// without the list the unchanged tree alarms: a harness error, never a verdict
		knownErr = err
		return out
	}
	var f struct {
		Cases map[string]float64 `json:"cases"`
	}
	if err := json.Unmarshal(b, &f); err != nil {
		knownErr = err
		return out
	}
	return f.Cases
}()

var knownErr error

// set by checkFlatten for the violations it raises (workers are single-threaded)
var curT, curRatio float64

// bucketOf names the input class the known findings are keyed by ("" = none of them).
func bucketOf(sps []oracle.Subpath) string {
	thin, ell := false, false
	for _, sp := range sps {
		for _, sg := range sp.Segs {
			if sg.Kind == oracle.CmdArc && sg.Rx != sg.Ry {
				if sg.Rx >= 10*sg.Ry || sg.Ry >= 10*sg.Rx {
					thin = true
				} else {
					ell = true
				}
			}
		}
	}
	switch {
	case thin:
		return "thin-ellipse-arc"
	case ell:
		return "ellipse-arc"
	}
	if len(sps) == 1 && len(sps[0].Segs) == 1 {
		switch curvefam.Class(sps[0].Segs[0]) {
		case "quad-collinear", "cube-collinear", "quad-closed", "cube-closed":
			return "collinear-or-closed-bezier"
		case "cube-cusp":
			return "cusp-bezier"
		}
	}
	return "other"
}

func viol(r *fw.R, sps []oracle.Subpath, class, detail string) {
	r.Count("violations:"+class, 1)
	if curT > 0 {
		// what the known-finding predicates read: the input class and the error/t of this violation
		detail += fmt.Sprintf(" {bucket=%s ratio=%.6g}", bucketOf(sps), curRatio)
	}
	r.Violate(class, detail)
}

// shape names the input for class suffixes and maxima: the lattice class of a single segment,
// or the kinds present.
func shape(sps []oracle.Subpath) string {
	if shapeLabel != "" {
		return shapeLabel
	}
	if len(sps) == 1 && len(sps[0].Segs) == 1 {
		return curvefam.Class(sps[0].Segs[0])
	}
	return "multi-segment"
}

// shapeLabel, when set by a family, names the cases of that family in classes, maxima and
// calibration cells instead of the lattice class (so that they are judged against C or their own
// calibrated cell, not against the cell of the widest lattice class).
var shapeLabel string

func labelled(label string, f fw.Family) fw.Family {
	chk := f.Check
	f.Check = func(i int64, r *fw.R) {
		shapeLabel = label
		defer func() { shapeLabel = "" }()
		chk(i, r)
	}
	return f
}

func kind(sps []oracle.Subpath) string {
	if len(sps) == 1 && len(sps[0].Segs) == 1 {
		switch s := sps[0].Segs[0]; s.Kind {
		case oracle.CmdQuad:
			return "quad"
		case oracle.CmdCube:
			return "cube"
		case oracle.CmdArc:
			if s.Rx == s.Ry {
				return "arc-circle"
			}
			return "arc-ellipse"
		}
		return "line"
	}
	return "multi-segment"
}

// structure checks subpath count, start/end points (bit-for-bit) and closedness.
func structure(r *fw.R, op string, sps, out []oracle.Subpath, outData []float64) bool {
	if len(out) != len(sps) {
		viol(r, sps, op+"-subpath-count:"+shape(sps), fmt.Sprintf("%d subpaths in, %d out: %s", len(sps), len(out), oracle.Fmt(outData)))
		return false
	}
	ok := true
	for i := range sps {
		in, o := sps[i], out[i]
		tol := 1e-12 * math.Max(oracle.MaxAbsCoord(sps), 1e-300)
		if d := o.Start.Dist(in.Start); !(d <= tol) {
			viol(r, sps, op+"-start-point:"+shape(sps), fmt.Sprintf("subpath %d starts at %v, input at %v", i, o.Start, in.Start))
			ok = false
		}
		if len(in.Segs) > 0 {
			if len(o.Segs) == 0 {
				viol(r, sps, op+"-end-point:"+shape(sps), fmt.Sprintf("subpath %d has no segments: %s", i, oracle.Fmt(outData)))
				ok = false
			} else if e, f := o.Segs[len(o.Segs)-1].P1, in.Segs[len(in.Segs)-1].P1; !(e.Dist(f) <= tol) {
				viol(r, sps, op+"-end-point:"+shape(sps), fmt.Sprintf("subpath %d ends at (%.17g,%.17g), input at (%.17g,%.17g)", i, e.X, e.Y, f.X, f.Y))
				ok = false
			} else if e != f {
				r.Outcome(op + ":end-point-differs-by-rounding")
				r.Max(op+"_end_point_drift/scale", e.Dist(f)/(tol*1e12))
			} else {
				r.Outcome(op + ":end-point-bit-equal")
			}
		}
		if o.Closed != in.Closed {
			viol(r, sps, op+"-closedness:"+shape(sps), fmt.Sprintf("subpath %d closed=%v, input closed=%v", i, o.Closed, in.Closed))
			ok = false
		}
	}
	return ok
}

func vertices(sp oracle.Subpath) []oracle.Pt {
	pts := []oracle.Pt{sp.Start}
	for _, s := range sp.Segs {
		pts = append(pts, s.P1)
	}
	return pts
}

func ctrlLen(sp oracle.Subpath) float64 {
	l := 0.0
	for _, s := range sp.Segs {
		switch s.Kind {
		case oracle.CmdQuad:
			l += s.P0.Dist(s.C1) + s.C1.Dist(s.P1)
		case oracle.CmdCube:
			l += s.P0.Dist(s.C1) + s.C1.Dist(s.C2) + s.C2.Dist(s.P1)
		case oracle.CmdArc:
			l += 2 * math.Pi * s.Rx
		default:
			l += s.P0.Dist(s.P1)
		}
	}
	return l
}

func denseN(sp oracle.Subpath, t float64) int {
	n := int(math.Ceil(16 * math.Sqrt(ctrlLen(sp)/t)))
	if n < 128 {
		n = 128
	}
	if n > 8192 {
		n = 8192
	}
	return n
}

// FlattenRatio is the worst (curve to flattened polyline distance)/t of a path (for probes).
func FlattenRatio(sps []oracle.Subpath, t float64) (float64, string) {
	out, _ := oracle.Decode(cv.Path(oracle.PathData(sps)).Flatten(t).Data())
	w := 0.0
	for i := range sps {
		curve, _ := oracle.DenseSubpath(sps[i], denseN(sps[i], t))
		d, _ := oracle.MaxDistToPolyline(curve, vertices(out[i]), 0)
		w = math.Max(w, d/t)
	}
	return w, oracle.Fmt(oracle.PathData(out))
}

func checkFlatten(r *fw.R, sps []oracle.Subpath, t float64) {
	curT, curRatio = t, 0
	defer func() { curT, curRatio = 0, 0 }()
	data := oracle.PathData(sps)
	res := cv.Path(data).Flatten(t)
	outData := res.Data()
	out, err := oracle.Decode(outData)
	if err != nil {
		viol(r, sps, "flatten-malformed-output", err.Error())
		return
	}
	for _, sp := range out {
		for _, s := range sp.Segs {
			if s.Kind != oracle.CmdLine && s.Kind != oracle.CmdClose {
				viol(r, sps, "flatten-curve-in-output", oracle.Fmt(outData))
				return
			}
		}
	}
	if !structure(r, "flatten", sps, out, outData) {
		return
	}
	scale := math.Max(oracle.MaxAbsCoord(sps), 1e-300)
	sh, kd := shape(sps), kind(sps)
	nverts := 0
	worstRatio := 0.0
	for i := range sps {
		curve, dev := oracle.DenseSubpath(sps[i], denseN(sps[i], t))
		r.Max("oracle_dense_deviation/t", dev/t)
		poly := vertices(out[i])
		nverts += len(poly)
		// (a) every vertex within t of the curve, in curve order
		R := t*(1+1e-9) + dev + 1e-12*scale
		if bad, on := oracle.OrderedOnCurve(curve, poly, R); bad >= 0 {
			if on {
				viol(r, sps, "flatten-vertex-out-of-order:"+sh, fmt.Sprintf("t=%g: vertex %d (%.9g,%.9g) of subpath %d lies on the curve but not after its predecessors; output %s", t, bad, poly[bad].X, poly[bad].Y, i, oracle.Fmt(outData)))
			} else {
				d := math.Inf(1)
				for k := 0; k+1 < len(curve); k++ {
					d = math.Min(d, oracle.DistSeg(poly[bad], curve[k], curve[k+1]))
				}
				curRatio = d / t
				viol(r, sps, "flatten-vertex-off-curve:"+sh, fmt.Sprintf("t=%g: vertex %d (%.9g,%.9g) of subpath %d is %.4g (= %.3g t) away from the curve; output %s", t, bad, poly[bad].X, poly[bad].Y, i, d, d/t, oracle.Fmt(outData)))
			}
		}
		// (b) every curve point within C*t of the polyline
		worst, wi := oracle.MaxDistToPolyline(curve, poly, 0.25*t)
		ratio := worst / t
		worstRatio = math.Max(worstRatio, ratio)
		curRatio = 0
		if !(worst <= C*t+dev+1e-12*scale) {
			curRatio = ratio
			viol(r, sps, "flatten-curve-far-from-polyline:"+sh, fmt.Sprintf("t=%g: curve point (%.9g,%.9g) of subpath %d is %.6g (= %.4g t) away from the flattened path %s", t, curve[wi].X, curve[wi].Y, i, worst, ratio, oracle.Fmt(outData)))
		}
	}
	r.Max("flatten_err/t:"+kd, worstRatio)
	if !curvefam.ArcChordEqualsRx(sps) {
		r.Max(fmt.Sprintf("flatten_err/t:%s@t=%g*scale", sh, t/scaleOf(sps)), worstRatio)
		if !(worstRatio <= C) {
			r.Count(fmt.Sprintf("flatten_err>Ct:%s@t=%g*scale", sh, t/scaleOf(sps)), 1)
		}
		r.Count(fmt.Sprintf("flatten_cases:%s@t=%g*scale", sh, t/scaleOf(sps)), 1)
	}
	r.Max(fmt.Sprintf("flatten_err/t@t=%g", t), worstRatio)
	r.Max("flatten_vertices", float64(nverts))
	if nverts > 2*len(sps) {
		r.NontrivialIdx()
	}
	switch {
	case worstRatio > C:
		r.Outcome("flatten:err>C*t")
	case worstRatio > 1:
		r.Outcome("flatten:t<err<=C*t")
	case worstRatio > 0.5:
		r.Outcome("flatten:0.5t<err<=t")
	case worstRatio > 1e-9:
		r.Outcome("flatten:err<=0.5t")
	default:
		r.Outcome("flatten:exact")
	}
	if nverts == 2*len(sps) {
		r.Outcome("flatten:single-chord")
	} else {
		r.Outcome("flatten:subdivided")
	}
}

// scaleOf is the power of ten nearest to the coordinate scale (1 for the unit lattices).
func scaleOf(sps []oracle.Subpath) float64 {
	m := oracle.MaxAbsCoord(sps)
	switch {
	case m < 0.2:
		return 0.01
	case m > 20:
		return 100
	}
	return 1
}

func maxRx(sps []oracle.Subpath) float64 {
	m := 0.0
	for _, sp := range sps {
		for _, s := range sp.Segs {
			if s.Kind == oracle.CmdArc {
				m = math.Max(m, s.Rx)
			}
		}
	}
	return m
}

func checkReplaceArcs(r *fw.R, sps []oracle.Subpath) {
	rmax := maxRx(sps)
	if rmax == 0 {
		return
	}
	data := oracle.PathData(sps)
	outData := cv.Path(data).ReplaceArcs().Data()
	out, err := oracle.Decode(outData)
	if err != nil {
		viol(r, sps, "replacearcs-malformed-output", err.Error())
		return
	}
	for _, sp := range out {
		for _, s := range sp.Segs {
			if s.Kind == oracle.CmdArc {
				viol(r, sps, "replacearcs-arc-in-output", oracle.Fmt(outData))
				return
			}
		}
	}
	if !structure(r, "replacearcs", sps, out, outData) {
		return
	}
	const n = 256
	a, b := oracle.DenseR(sps, n), oracle.DenseR(out, n)
	h := math.Max(oracle.HausdorffOneSided(a, b, 0, false), oracle.HausdorffOneSided(b, a, 0, false))
	// dense sagitta of a circle of radius rmax sampled with n chords over at most 2 pi
	slack := rmax * (1 - math.Cos(math.Pi/n))
	r.Max("replacearcs_hausdorff/rx", h/rmax)
	if !(h <= ReplaceArcsRel*rmax+slack) {
		viol(r, sps, "replacearcs-too-far", fmt.Sprintf("Hausdorff distance %.4g = %.4g rx (allowed %g rx); output %s", h, h/rmax, ReplaceArcsRel, oracle.Fmt(outData)))
	} else if !(h <= 1e-3*rmax+slack) {
		r.Outcome("replacearcs:1e-3rx<err<=3e-3rx")
	} else {
		r.Outcome("replacearcs:err<=1e-3rx")
	}
	r.Outcome(fmt.Sprintf("replacearcs:%d-cubics", countKind(out, oracle.CmdCube)))
}

func countKind(sps []oracle.Subpath, k float64) int {
	n := 0
	for _, sp := range sps {
		for _, s := range sp.Segs {
			if s.Kind == k {
				n++
			}
		}
	}
	return n
}

func monotoneX(pts []oracle.Pt, slack float64) bool {
	up, down := true, true
	hi, lo := pts[0].X, pts[0].X
	for _, p := range pts[1:] {
		if p.X < hi-slack {
			up = false
		}
		if !(p.X <= lo+slack) {
			down = false
		}
		hi, lo = math.Max(hi, p.X), math.Min(lo, p.X)
	}
	return up || down
}

// parametricSame matches the output pieces of one subpath to parameter ranges of the input
// segments and returns the largest pointwise difference; ok=false if no such matching exists.
func parametricSame(in, out oracle.Subpath, tol float64) (float64, bool) {
	oi := 0
	worst := 0.0
	for _, s := range in.Segs {
		if !s.IsCurve() {
			if oi >= len(out.Segs) || out.Segs[oi].IsCurve() || out.Segs[oi].P1.Dist(s.P1) > tol {
				return 0, false
			}
			oi++
			continue
		}
		cands := append(s.AxisExtremaParams(0), 1)
		u := 0.0
		for {
			if oi >= len(out.Segs) {
				return 0, false
			}
			piece := out.Segs[oi]
			oi++
			if piece.Kind != s.Kind {
				return 0, false
			}
			uend := -1.0
			for _, c := range cands {
				if c > u+1e-12 && oracle.SegAt(s, c).Dist(piece.P1) <= tol {
					uend = c
					break
				}
			}
			if uend < 0 {
				if c, d := oracle.NearestParamMulti(s, piece.P1, 256); d <= tol && c > u {
					uend = c
				} else {
					return 0, false
				}
			}
			for k := 0; k <= 16; k++ {
				f := float64(k) / 16
				worst = math.Max(worst, oracle.SegAt(piece, f).Dist(oracle.SegAt(s, u+(uend-u)*f)))
			}
			u = uend
			if u == 1 {
				break
			}
		}
	}
	if oi != len(out.Segs) || worst > tol {
		return worst, false
	}
	return worst, true
}

// geometricSame is the two-sided Hausdorff distance between the sampled input and output.
func geometricSame(in, out oracle.Subpath, scale float64) float64 {
	const n = 48
	worst := 0.0
	dist := func(q oracle.Pt, segs []oracle.Seg) float64 {
		best := math.Inf(1)
		for _, s := range segs {
			if !s.IsCurve() {
				best = math.Min(best, oracle.DistSeg(q, s.P0, s.P1))
				continue
			}
			lo, hi := s.ExactBBox()
			if best < math.Inf(1) && (q.X < lo.X-best || q.X > hi.X+best || q.Y < lo.Y-best || q.Y > hi.Y+best) {
				continue
			}
			_, d := oracle.NearestParamMulti(s, q, 256)
			best = math.Min(best, d)
			if best <= 1e-12*scale {
				break
			}
		}
		return best
	}
	for _, s := range out.Segs {
		for j := 0; j <= n; j++ {
			worst = math.Max(worst, dist(oracle.SegAt(s, float64(j)/n), in.Segs))
		}
	}
	for _, s := range in.Segs {
		for j := 0; j <= n; j++ {
			worst = math.Max(worst, dist(oracle.SegAt(s, float64(j)/n), out.Segs))
		}
	}
	return worst
}

func checkXMonotone(r *fw.R, sps []oracle.Subpath) {
	data := oracle.PathData(sps)
	outData := cv.Path(data).XMonotone().Data()
	out, err := oracle.Decode(outData)
	if err != nil {
		viol(r, sps, "xmonotone-malformed-output", err.Error())
		return
	}
	if !structure(r, "xmonotone", sps, out, outData) {
		return
	}
	if !oracle.ArcsWellConditioned(out) {
		r.Count("xmonotone_output_arc_ill_conditioned_skipped", 1)
		return
	}
	scale := math.Max(oracle.MaxAbsCoord(sps), 1e-300)
	sh := shape(sps)
	pieces := 0
	for i, sp := range out {
		for k, s := range sp.Segs {
			pieces++
			if !s.IsCurve() {
				continue
			}
			if !monotoneX(oracle.SegSample(s, 128), 1e-9*scale) {
				viol(r, sps, "xmonotone-piece-not-monotone:"+sh, fmt.Sprintf("segment %d of subpath %d is not x-monotone; output %s", k, i, oracle.Fmt(outData)))
				return
			}
		}
	}
	// same point set. First parametrically: an exact split makes every output piece an affine
	// reparametrisation of a parameter range of its input segment. Only if that cannot be
	// established the point sets are compared geometrically (nearest-point search).
	tol := 1e-9 * scale
	worst, mode := 0.0, "parametric"
	for i := range sps {
		if d, ok := parametricSame(sps[i], out[i], tol); ok {
			worst = math.Max(worst, d)
		} else {
			mode = "geometric"
			worst = math.Max(worst, geometricSame(sps[i], out[i], scale))
		}
	}
	r.Outcome("xmonotone:compared-" + mode)
	r.Max("xmonotone_hausdorff/scale", worst/scale)
	if !(worst <= tol) {
		viol(r, sps, "xmonotone-moves-curve:"+sh, fmt.Sprintf("distance %.4g between input and output point sets; output %s", worst, oracle.Fmt(outData)))
	}
	in := 0
	for _, sp := range sps {
		in += len(sp.Segs)
	}
	r.Outcome(fmt.Sprintf("xmonotone:+%d-pieces", pieces-in))
}

var tolsQuick = []float64{1, 0.1, 0.01}
var tolsThorough = []float64{1, 0.1, 0.01, 0.001}

// pathFamily enumerates paths x tolerances; ReplaceArcs/XMonotone run with the first tolerance.
func pathFamily(name string, n int64, get func(i int64) ([]oracle.Subpath, bool), tols []float64) fw.Family {
	nt := int64(len(tols))
	return fw.Family{
		Name: name, N: n * nt,
		Check: func(i int64, r *fw.R) {
			sps, ok := get(i / nt)
			if !ok {
				r.Outcome("skipped:zero-length-segment")
				return
			}
			if !oracle.ArcsWellConditioned(sps) {
				r.Outcome("skipped:arc-centre-ill-conditioned")
				return
			}
			checkFlatten(r, sps, tols[i%nt])
			if i%nt == 0 {
				checkReplaceArcs(r, sps)
				checkXMonotone(r, sps)
			}
		},
		Desc: func(i int64) string {
			sps, ok := get(i / nt)
			if !ok {
				return "zero-length segment"
			}
			return curvefam.DescF(sps, "t=%g", tols[i%nt])
		},
	}
}

func segFamily(name string, n int64, seg func(i int64) oracle.Seg, f float64, tols []float64) fw.Family {
	return pathFamily(name, n, func(i int64) ([]oracle.Subpath, bool) {
		s := seg(i)
		if curvefam.ZeroLength(s) {
			return nil, false
		}
		return curvefam.One(curvefam.Scale(s, f, oracle.Pt{})), true
	}, tols)
}

var rots = []float64{0, 30, 45, 90, 135}

// twoSegments: all ordered pairs of the 12-curve menu joined end to start, open and closed.
func twoSegments(tols []float64) fw.Family {
	return pathFamily("two-segments(menu12 x menu12 x open/closed)", 12*12*2, func(i int64) ([]oracle.Subpath, bool) {
		d := oracle.Digits(i, 2, 12, 12)
		a := curvefam.Menu12(oracle.Pt{})[d[1]]
		b := curvefam.Menu12(a.P1)[d[2]]
		return []oracle.Subpath{oracle.Chain(d[0] == 1, a, b)}, true
	}, tols)
}

// twoSubpaths: structure preservation over several subpaths (line/curve mixes, closed/open).
func twoSubpaths(tols []float64) fw.Family {
	return pathFamily("two-subpaths(menu12 x menu12 x open/closed^2)", 12*12*4, func(i int64) ([]oracle.Subpath, bool) {
		d := oracle.Digits(i, 4, 12, 12)
		a := curvefam.Menu12(oracle.Pt{})[d[1]]
		b := curvefam.Menu12(oracle.Pt{X: 5, Y: -4})[d[2]]
		l := oracle.MkLine(b.P1, oracle.Pt{X: b.P1.X + 1, Y: b.P1.Y - 2})
		return []oracle.Subpath{oracle.Chain(d[0]&1 != 0, a), oracle.Chain(d[0]&2 != 0, b, l)}, true
	}, tols)
}

func families(tier string) []fw.Family {
	arc := func(i int64) oracle.Seg { return curvefam.Arc(i, rots) }
	tols := tolsQuick
	scales := []float64{1}
	if tier == "thorough" {
		tols = tolsThorough
		scales = []float64{1, 0.01, 100}
	}
	var fs []fw.Family
	for _, f := range scales {
		sfx := ""
		if f != 1 {
			sfx = fmt.Sprintf(" x%g", f)
		}
		fs = append(fs,
			segFamily("quad[-3..3]^4"+sfx, curvefam.NQuad, curvefam.Quad, f, tols),
			segFamily("cube[-2..2]^6"+sfx, curvefam.NCube, curvefam.Cube, f, tols),
			segFamily("arc(r in {.5,1,2,3}^2, rot {0,30,45,90,135}, flags, end [-2..2]^2)"+sfx, curvefam.NArc, arc, f, tols),
		)
	}
	// the same arcs a thousand times smaller, with tolerances a thousand times finer (quantities of
	// the size of length^4 meet absolute epsilons there); every 7th arc in quick
	step := int64(7)
	if tier == "thorough" {
		step = 1
	}
	small := []float64{1e-4, 1e-5, 1e-6}
	fs = append(fs, segFamily(fmt.Sprintf("arc(...) x0.001 (every %d.), tolerances 1e-4..1e-6", step), curvefam.NArc/step, func(i int64) oracle.Seg { return curvefam.Arc(i*step, rots) }, 0.001, small))
	fs = append(fs, twoSegments(tols), twoSubpaths(tols), thinEllipses(tols), nearCollinear(tier), largeFine(tier), lineBetweenCurves(tols), almostClosedArcs(tols), rotatedCircles(tols))
	return fs
}

// thinEllipses: arcs of ellipses with axis ratios 40 and 20 around and next to the tip of the major
// axis (the cubic that stands in for such an arc is a hairpin), both directions, rotated by 0 and 30 degrees.
func thinEllipses(tols []float64) fw.Family {
	rys := []float64{0.5, 1}
	th0s := []float64{-1.2, -0.6, -0.3, 0.2, 2.6}
	dths := []float64{0.6, 1.2, 2.4}
	rotsT := []float64{0, 30}
	rad := []int{len(rys), len(th0s), len(dths), len(rotsT), 2}
	return pathFamily("thin ellipses: rx=20, ry in {0.5,1}, arcs around and next to the tip, 2 rotations, both directions", oracle.Prod(rad...), func(i int64) ([]oracle.Subpath, bool) {
		d := oracle.Digits(i, rad...)
		rx, ry := 20.0, rys[d[0]]
		a0, a1 := th0s[d[1]], th0s[d[1]]+dths[d[2]]
		if d[4] == 1 {
			a0, a1 = a1, a0
		}
		phi := rotsT[d[3]] * math.Pi / 180
		at := func(a float64) oracle.Pt {
			x, y := rx*math.Cos(a), ry*math.Sin(a)
			return oracle.Pt{X: x*math.Cos(phi) - y*math.Sin(phi), Y: x*math.Sin(phi) + y*math.Cos(phi)}
		}
		s := oracle.MkArc(at(a0), rx, ry, rotsT[d[3]], math.Abs(a1-a0) > math.Pi, a1 > a0, at(a1))
		return curvefam.One(s), true
	}, tols)
}

// Prop is the C03 check.
func Prop() *fw.Property {
	return &fw.Property{
		ID:    "C03",
		Level: "exploration",
		Rule: "every single quadratic ([-3..3]^4), cubic ([-2..2]^6) and canonical arc (7680) from the origin, all ordered 2-segment chains (open/closed) and 2-subpath paths over a 12-curve menu, x tolerances {1,0.1,0.01} (thorough: +0.001 and coordinate scales 0.01, 100); " +
			"Flatten: only M/L/z, same subpaths, bit-equal start/end points, same closedness, vertices within t of the dense curve in curve order, every dense curve point within C=2 t of the polyline; " +
			"ReplaceArcs: no arcs left, same structure, Hausdorff <= 1e-3 rx; XMonotone: same structure, every piece x-monotone (1e-9 scale), same point set (1e-9 scale); " +
			"non-trivial = the flattening has interior vertices",
		Assumptions: []string{
			"'the error vanishes as t -> 0' is decided as: error <= C*t for every t of the finite menu (a strict decrease from t to t/10 is not implied by the statement, e.g. when both need a single chord)",
			"C = 2.0 for every curve (never calibrated upwards); the inputs for which the unchanged tree exceeds it are known findings listed one by one in c03_known_cases.json (path, tolerance, class, error/t), a listed input is swallowed only up to 1.05 x its listed error/t; observed maxima of error/t per segment type are in observed_maxima",
			"dense curve = 16*sqrt(control polygon length / t) chords per curved segment (128..8192); its own deviation from the true curve is measured (oracle_dense_deviation/t) and added to the thresholds",
			"zero-length segments are skipped; arcs are canonical as the builder stores them; arcs whose centre is ill-conditioned (radii within 1e-6 of, but not equal to, the minimum) are skipped and counted",
		},
		KnownPredicates: knownPredicates(),
		Families:        families,
	}
}

// ---- predicates for known_findings.json: computed from the input path of the case ("<path> t=<t>") ----

func knownPredicates() map[string]func(*fw.Violation) bool {
	tagRe := regexp.MustCompile(`\{bucket=([^ ]+) ratio=([-+0-9.eInfNa]+)\}$`)
	// the violation's input is listed for this class and its error/t is at most 1.05 x the listed one
	listed := func(v *fw.Violation, bucket string) bool {
		if knownErr != nil {
			fmt.Fprintln(os.Stderr, "HARNESS-ERROR C03: c03_known_cases.json cannot be read:", knownErr)
			os.Exit(2)
		}
		m := tagRe.FindStringSubmatch(v.Detail)
		if m == nil || m[1] != bucket {
			return false
		}
		ceil, ok := knownCases[v.Case+"|"+v.Class]
		ratio, err := strconv.ParseFloat(m[2], 64)
		return ok && err == nil && ratio <= 1.05*ceil+1e-9
	}
	return map[string]func(*fw.Violation) bool{
		// a Bezier whose control points are collinear with its end points (overshooting the chord), or whose end point is its start point
		"collinear-or-closed-bezier": func(v *fw.Violation) bool { return listed(v, "collinear-or-closed-bezier") },
		"cusp-bezier":                func(v *fw.Violation) bool { return listed(v, "cusp-bezier") },
		// an arc of an ellipse with an axis ratio below 10
		"ellipse-arc": func(v *fw.Violation) bool { return listed(v, "ellipse-arc") },
		// an arc of an ellipse with an axis ratio of 10 or more
		"thin-ellipse-arc": func(v *fw.Violation) bool { return listed(v, "thin-ellipse-arc") },
		// any other listed input
		"listed-bezier-or-arc": func(v *fw.Violation) bool { return listed(v, "other") },
		// the eight mirror images of M0 0C1 2 2 -2 1 1 (times the coordinate scale) at a tolerance equal to the scale
		"cubic-1-2-2-2-1-1-at-coarse-tolerance": func(v *fw.Violation) bool {
			m := regexp.MustCompile(`^M0 0C([-0-9.e]+) ([-0-9.e]+) ([-0-9.e]+) ([-0-9.e]+) ([-0-9.e]+) ([-0-9.e]+) t=([-0-9.e]+)`).FindStringSubmatch(v.Case)
			if m == nil {
				return false
			}
			var a [7]float64
			for i := range a {
				a[i], _ = strconv.ParseFloat(m[i+1], 64)
				a[i] = math.Abs(a[i])
			}
			s := a[6] // tolerance = scale
			eq := func(x, y float64) bool { return math.Abs(x-y*s) < 1e-9*s }
			return (eq(a[0], 1) && eq(a[1], 2) && eq(a[2], 2) && eq(a[3], 2) && eq(a[4], 1) && eq(a[5], 1)) ||
				(eq(a[0], 2) && eq(a[1], 1) && eq(a[2], 2) && eq(a[3], 2) && eq(a[4], 1) && eq(a[5], 1))
		},
	}
}
