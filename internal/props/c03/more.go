package c03

import (
	"fmt"
	"math"

	"verif/internal/fw"
	"verif/internal/oracle"
	"verif/internal/props/curvefam"
)

// nearCollinear: cubics whose first (or last) three control points are almost, but not exactly,
// collinear while the remaining end point lies far off that line - the step size of the cubic
// flattener is taken from the second derivative there, which almost vanishes.
func nearCollinear(tier string) fw.Family {
	eps := []float64{1e-3, -1e-3, 1e-6, -1e-6, 1e-9, 1e-12, -1e-12, 0.02}
	ends := []oracle.Pt{{X: 3, Y: 1}, {X: 3, Y: 3}, {X: 2, Y: 3}, {X: 4, Y: -2}, {X: 0, Y: 3}, {X: 6, Y: 0.5}, {X: 3, Y: -6}}
	p1s := []float64{1, 0.5, 1.9}
	scales := []float64{1, 10}
	tols := []float64{1, 0.1, 0.01, 0.001}
	if tier == "thorough" {
		scales = []float64{1, 10, 0.1, 100}
		tols = append(tols, 1e-4)
	}
	rad := []int{len(eps), len(ends), len(p1s), 2, len(scales)}
	return labelled("cube-near-collinear", pathFamily("cubics with three almost collinear control points: (0,0)(a,0)(2,eps)(end), eps in {1e-3..1e-12, 0.02}, 7 ends, a in {1,0.5,1.9}, forward/reversed, scales", oracle.Prod(rad...), func(i int64) ([]oracle.Subpath, bool) {
		d := oracle.Digits(i, rad...)
		f := scales[d[4]]
		q := []oracle.Pt{{}, {X: p1s[d[2]] * f}, {X: 2 * f, Y: eps[d[0]] * f}, {X: ends[d[1]].X * f, Y: ends[d[1]].Y * f}}
		if d[3] == 1 {
			// the same curve from its other end, moved so that it starts at the origin
			o := q[3]
			q = []oracle.Pt{{}, q[2].Sub(o), q[1].Sub(o), q[0].Sub(o)}
		}
		return curvefam.One(oracle.MkCube(q[0], q[1], q[2], q[3])), true
	}, tols))
}

// largeFine: single curves that are large against the tolerance (t/size down to 1e-8): thousands
// of steps per segment.
func largeFine(tier string) fw.Family {
	type cs struct {
		R, t float64
	}
	cells := []cs{{100, 1e-4}, {100, 1e-5}, {1000, 1e-4}}
	if tier == "thorough" {
		cells = append(cells, cs{1000, 1e-5}, cs{10, 1e-6}, cs{10000, 1e-3})
	}
	mk := []func(R float64) oracle.Seg{
		func(R float64) oracle.Seg { return oracle.MkQuad(oracle.Pt{}, oracle.Pt{X: R}, oracle.Pt{X: 2 * R, Y: R}) },
		func(R float64) oracle.Seg { return oracle.MkQuad(oracle.Pt{}, oracle.Pt{X: R, Y: 2 * R}, oracle.Pt{X: 2 * R}) },
		func(R float64) oracle.Seg { return oracle.MkQuad(oracle.Pt{}, oracle.Pt{X: R, Y: R}, oracle.Pt{X: 0.2 * R, Y: 0.1 * R}) },
		func(R float64) oracle.Seg {
			return oracle.MkCube(oracle.Pt{}, oracle.Pt{X: R}, oracle.Pt{X: 2 * R, Y: R}, oracle.Pt{X: 2 * R, Y: 2 * R})
		},
		func(R float64) oracle.Seg {
			return oracle.MkCube(oracle.Pt{}, oracle.Pt{X: R, Y: R}, oracle.Pt{X: 2 * R, Y: -R}, oracle.Pt{X: 3 * R})
		},
		func(R float64) oracle.Seg {
			return oracle.MkCube(oracle.Pt{}, oracle.Pt{X: 2 * R, Y: R}, oracle.Pt{X: -R, Y: R}, oracle.Pt{X: R})
		},
		func(R float64) oracle.Seg {
			return oracle.MkArc(oracle.Pt{}, R, R, 0, false, true, oracle.Pt{X: R, Y: R})
		},
		func(R float64) oracle.Seg {
			return oracle.MkArc(oracle.Pt{}, R, R, 0, true, false, oracle.Pt{X: R, Y: R})
		},
		func(R float64) oracle.Seg {
			// (circles only: the error floor of elliptical arcs is the known finding K17)
			return oracle.MkArc(oracle.Pt{}, 3 * R, 3 * R, 0, false, false, oracle.Pt{X: R, Y: -R / 2})
		},
	}
	n := int64(len(cells) * len(mk))
	return labelled("large-fine", fw.Family{
		Name: "single curves that are large against the tolerance (size 100..1000, t 1e-4..1e-5): 3 quadratics, 3 cubics, 3 arcs", N: n,
		Check: func(i int64, r *fw.R) {
			c := cells[int(i)/len(mk)]
			checkFlatten(r, curvefam.One(mk[int(i)%len(mk)](c.R)), c.t)
		},
		Desc: func(i int64) string {
			c := cells[int(i)/len(mk)]
			return curvefam.DescF(curvefam.One(mk[int(i)%len(mk)](c.R)), "t=%g", c.t)
		},
	})
}

// lineBetweenCurves: curve, straight segment, curve in one subpath, where the straight segment
// continues the last chord of the flattened first curve (a shallow curve is one chord at a coarse
// tolerance), continues its end tangent, or leaves at an angle; open and closed.
func lineBetweenCurves(tols []float64) fw.Family {
	first := []oracle.Seg{
		oracle.MkQuad(oracle.Pt{}, oracle.Pt{X: 5, Y: 0.1}, oracle.Pt{X: 10}),
		oracle.MkQuad(oracle.Pt{}, oracle.Pt{X: 5, Y: 2}, oracle.Pt{X: 10}),
		oracle.MkCube(oracle.Pt{}, oracle.Pt{X: 3, Y: 0.3}, oracle.Pt{X: 6, Y: 0.3}, oracle.Pt{X: 9}),
		oracle.MkCube(oracle.Pt{}, oracle.Pt{X: 3, Y: 3}, oracle.Pt{X: 6, Y: -3}, oracle.Pt{X: 9}),
		oracle.MkArc(oracle.Pt{}, 50, 50, 0, false, true, oracle.Pt{X: 10}),
		oracle.MkArc(oracle.Pt{}, 6, 6, 0, false, false, oracle.Pt{X: 8, Y: 1}),
	}
	second := func(p oracle.Pt, k int) oracle.Seg {
		at := func(x, y float64) oracle.Pt { return oracle.Pt{X: p.X + x, Y: p.Y + y} }
		switch k {
		case 0:
			return oracle.MkQuad(p, at(5, 5), at(10, 0))
		case 1:
			return oracle.MkCube(p, at(5, 10), at(15, 10), at(20, 0))
		case 2:
			return oracle.MkArc(p, 4, 4, 0, false, true, at(4, 4))
		}
		return oracle.MkQuad(p, at(5, -0.1), at(10, 0))
	}
	rad := []int{len(first), 4, 4, 2}
	return labelled("curve-line-curve", pathFamily("curve, straight segment (continuing the chord / the end tangent / at an angle / backwards along the chord), curve: 6 x 4 x 4, open and closed", oracle.Prod(rad...), func(i int64) ([]oracle.Subpath, bool) {
		d := oracle.Digits(i, rad...)
		a := first[d[0]]
		var dir oracle.Pt
		switch d[1] {
		case 0, 3: // along the chord of the whole first curve
			dir = a.P1.Sub(a.P0)
		case 1: // along the end tangent
			switch a.Kind {
			case oracle.CmdQuad:
				dir = a.P1.Sub(a.C1)
			case oracle.CmdCube:
				dir = a.P1.Sub(a.C2)
			default:
				dir = a.P1.Sub(a.P0)
			}
		case 2:
			dir = oracle.Pt{X: 10, Y: 3}
		}
		l := math.Hypot(dir.X, dir.Y)
		step := 10.0
		if d[1] == 3 {
			step = -4
		}
		e := oracle.Pt{X: a.P1.X + dir.X/l*step, Y: a.P1.Y + dir.Y/l*step}
		line := oracle.MkLine(a.P1, e)
		return []oracle.Subpath{oracle.Chain(d[3] == 1, a, line, second(e, d[2]))}, true
	}, tols))
}

// almostClosedArcs: one arc that runs almost all the way round (large flag), its end points closer
// together than the tolerance, and the short arc between the same points for comparison.
func almostClosedArcs(tols []float64) fw.Family {
	type geo struct{ rx, ry, rot float64 }
	geos := []geo{{1, 1, 0}, {10, 10, 0}, {3, 3, 0}}
	gaps := []float64{0.002, 0.0005} // central angle between the end points
	th0s := []float64{0, 0.7, 2.5, 4.6}
	rad := []int{len(geos), len(gaps), len(th0s), 2, 2}
	return labelled("arc-almost-closed", pathFamily("circular arcs whose end points are 0.0005..0.002 rad apart, the long and the short way round, 3 radii x 4 start angles x both directions", oracle.Prod(rad...), func(i int64) ([]oracle.Subpath, bool) {
		d := oracle.Digits(i, rad...)
		g := geos[d[0]]
		a0, a1 := th0s[d[2]], th0s[d[2]]+gaps[d[1]]
		large, sweep := d[3] == 1, d[4] == 1
		if large == sweep { // sweep (increasing angle) the short way from a0 to a1; the long way needs the reverse
			a0, a1 = a1, a0
		}
		if !sweep {
			a0, a1 = a1, a0
		}
		p0 := oracle.EllipseAt(oracle.Pt{}, g.rx, g.ry, 0, a0)
		p1 := oracle.EllipseAt(oracle.Pt{}, g.rx, g.ry, 0, a1)
		return curvefam.One(oracle.MkArc(p0, g.rx, g.ry, g.rot, large, sweep, p1)), true
	}, tols))
}

// rotatedCircles: arcs of circles stored with a rotation that is not zero - what Path.Transform
// leaves behind when it maps an ellipse onto a circle (the radii come out equal, the rotation of
// the eigenvectors stays); the builder itself stores 0 for circles.
func rotatedCircles(tols []float64) fw.Family {
	rs := []float64{1, 2.5}
	rotsC := []float64{30, 90, 135}
	ends := []oracle.Pt{{X: 1, Y: 1}, {X: 2, Y: 0}, {X: -1, Y: 2}, {X: 0.5, Y: -1.5}}
	rad := []int{len(rs), len(rotsC), 4, len(ends)}
	return labelled("arc-circle-stored-rotated", pathFamily("arcs of circles stored with the rotation 30, 90 or 135 degrees (as Transform leaves them): 2 radii x 4 flag pairs x 4 end points", oracle.Prod(rad...), func(i int64) ([]oracle.Subpath, bool) {
		d := oracle.Digits(i, rad...)
		r := rs[d[0]]
		s := oracle.MkArc(oracle.Pt{}, r, r, 0, d[2]&1 != 0, d[2]&2 != 0, ends[d[3]])
		s.Phi = rotsC[d[1]] * math.Pi / 180 // (MkArc stores 0 for circles, as the builder does)
		return curvefam.One(s), true
	}, tols))
}

var _ = fmt.Sprint
