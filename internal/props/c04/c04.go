// Package c04: Stroke and Offset realise distance offsets of the path.
package c04

import (
	"fmt"
	"math"
	"os"
	"regexp"
	"strconv"
	"strings"

	"github.com/tdewolff/canvas"

	"verif/internal/cv"
	"verif/internal/fw"
	"verif/internal/oracle"
)

// ---------------------------------------------------------------------------------------------
// configuration alphabets

var widths = []float64{1, 0.4, 2.5}
var tols = []float64{0.1, 0.01}

type capper struct {
	name string
	c    canvas.Capper
	kind int
}

var cappers = []capper{
	{"Butt", canvas.ButtCap, oracle.CapButt},
	{"Round", canvas.RoundCap, oracle.CapRound},
	{"Square", canvas.SquareCap, oracle.CapSquare},
}

type joiner struct {
	name  string
	j     canvas.Joiner
	kind  int
	limit float64
}

var joiners = []joiner{
	{"Bevel", canvas.BevelJoin, oracle.JoinBevel, 0},
	{"Round", canvas.RoundJoin, oracle.JoinRound, 0},
	{"Miter(4)", canvas.MiterJoiner{GapJoiner: canvas.BevelJoin, Limit: 4}, oracle.JoinMiter, 4},
	{"Miter(2)", canvas.MiterJoiner{GapJoiner: canvas.BevelJoin, Limit: 2}, oracle.JoinMiter, 2},
	{"MiterClip(4)", canvas.MiterJoiner{GapJoiner: nil, Limit: 4}, oracle.JoinMiterClip, 4},
	{"Arcs(4)", canvas.ArcsJoiner{GapJoiner: canvas.BevelJoin, Limit: 4}, oracle.JoinArcs, 4},
	{"ArcsClip(4)", canvas.ArcsJoiner{GapJoiner: nil, Limit: 4}, oracle.JoinArcsClip, 4},
}

// tightJoiners have limits that ordinary corners exceed: the clipping branches and the gap joiner
// are taken (with the limit 4 above they are only reached by turns of more than 151 degrees)
var tightJoiners = []joiner{
	{"Miter(1.2)", canvas.MiterJoiner{GapJoiner: canvas.BevelJoin, Limit: 1.2}, oracle.JoinMiter, 1.2},
	{"MiterClip(1.5)", canvas.MiterJoiner{GapJoiner: nil, Limit: 1.5}, oracle.JoinMiterClip, 1.5},
	{"Arcs(1.2)", canvas.ArcsJoiner{GapJoiner: canvas.BevelJoin, Limit: 1.2}, oracle.JoinArcs, 1.2},
	{"ArcsClip(1.5)", canvas.ArcsJoiner{GapJoiner: nil, Limit: 1.5}, oracle.JoinArcsClip, 1.5},
}

// ---------------------------------------------------------------------------------------------
// inputs

type shape struct {
	data  []float64
	class string // simple | self-touching | self-crossing | curved
}

// modTranslation keeps the point sequences whose bounding box starts at the origin.
func atOrigin(c []oracle.Pt) bool {
	mx, my := math.Inf(1), math.Inf(1)
	for _, p := range c {
		mx, my = math.Min(mx, p.X), math.Min(my, p.Y)
	}
	return mx == 0 && my == 0
}

// walks returns all sequences of n lattice points with consecutive points distinct.
func walks(pts []oracle.Pt, n int) [][]oracle.Pt {
	var out [][]oracle.Pt
	cur := make([]oracle.Pt, n)
	var rec func(k int)
	rec = func(k int) {
		if k == n {
			if atOrigin(cur) {
				out = append(out, append([]oracle.Pt{}, cur...))
			}
			return
		}
		for _, p := range pts {
			if k > 0 && p == cur[k-1] {
				continue
			}
			cur[k] = p
			rec(k + 1)
		}
	}
	rec(0)
	return out
}

func onSeg(a, b, p oracle.Pt) bool {
	return oracle.Orient(a, b, p) == 0 && math.Min(a.X, b.X) <= p.X && p.X <= math.Max(a.X, b.X) && math.Min(a.Y, b.Y) <= p.Y && p.Y <= math.Max(a.Y, b.Y)
}

func sign(v float64) int {
	if v > 0 {
		return 1
	} else if v < 0 {
		return -1
	}
	return 0
}

// classify decides simple / self-touching / self-crossing for a lattice polyline (exact: all
// predicates are evaluated on small integers).
func classify(c []oracle.Pt, closed bool) string {
	type sg struct{ a, b oracle.Pt }
	var segs []sg
	for i := 0; i+1 < len(c); i++ {
		segs = append(segs, sg{c[i], c[i+1]})
	}
	if closed {
		segs = append(segs, sg{c[len(c)-1], c[0]})
	}
	n := len(segs)
	touching := false
	for i := 0; i < n; i++ {
		for j := i + 1; j < n; j++ {
			s, t := segs[i], segs[j]
			adjacent := j == i+1 || (closed && i == 0 && j == n-1)
			o1, o2 := sign(oracle.Orient(s.a, s.b, t.a)), sign(oracle.Orient(s.a, s.b, t.b))
			o3, o4 := sign(oracle.Orient(t.a, t.b, s.a)), sign(oracle.Orient(t.a, t.b, s.b))
			if adjacent {
				// they share one vertex; anything more is an overlap (reversal) or a second contact
				var shared, sOther, tOther oracle.Pt
				if j == i+1 {
					shared, sOther, tOther = s.b, s.a, t.b
				} else {
					shared, sOther, tOther = s.a, s.b, t.a
				}
				if oracle.Orient(sOther, shared, tOther) == 0 && sOther.Sub(shared).Dot(tOther.Sub(shared)) > 0 {
					touching = true
				}
				if n == 3 && closed {
					continue
				}
				if tOther != shared && onSeg(s.a, s.b, tOther) || sOther != shared && onSeg(t.a, t.b, sOther) {
					touching = true
				}
				continue
			}
			if o1*o2 < 0 && o3*o4 < 0 {
				return "self-crossing"
			}
			if onSeg(s.a, s.b, t.a) || onSeg(s.a, s.b, t.b) || onSeg(t.a, t.b, s.a) || onSeg(t.a, t.b, s.b) {
				touching = true
			}
		}
	}
	if touching {
		return "self-touching"
	}
	return "simple"
}

func openShapes(k int, nseg int) []shape {
	var out []shape
	for _, c := range walks(oracle.Lattice(k), nseg+1) {
		out = append(out, shape{oracle.OpenData(c), classify(c, false)})
	}
	return out
}

// closedShapes: all vertex tuples mod rotation of the start vertex and mod translation.
func closedShapes(k int, n int) []shape {
	var out []shape
	for _, c := range oracle.ContoursModRotation(oracle.Lattice(k), n) {
		if atOrigin(c) {
			out = append(out, shape{oracle.ClosedData(c), classify(c, true)})
		}
	}
	return out
}

const (
	mv = oracle.CmdMove
	ln = oracle.CmdLine
	qd = oracle.CmdQuad
	cb = oracle.CmdCube
	ar = oracle.CmdArc
	cl = oracle.CmdClose
)

// curvedShapes is the menu of curved inputs: single curved segments, the same with a line
// before and after, and closed curved contours.
func curvedShapes() []shape {
	raw := [][]float64{
		{mv, 0, 0, mv, qd, 2, 3, 4, 0, qd},                                                // quadratic arch
		{mv, 0, 0, mv, qd, 2, 0.6, 4, 0, qd},                                              // shallow quadratic
		{mv, 0, 0, mv, cb, 0, 2, 3, 2, 3, 0, cb},                                          // cubic arch
		{mv, 0, 0, mv, cb, 2, 2, 1, -2, 3, 0, cb},                                         // cubic S (inflection)
		{mv, 0, 0, mv, ar, 2, 2, 0, 2, 2, 2, ar},                                          // quarter circle r=2, ccw
		{mv, 0, 0, mv, ar, 2, 2, 0, 0, 2, 2, ar},                                          // quarter circle r=2, cw
		{mv, 0, 0, mv, ar, 3, 1.5, math.Pi / 6, 2, 4, 1, ar},                              // rotated elliptical arc
		{mv, 0, 0, mv, ar, 2, 2, 0, 3, 2, 2, ar},                                          // three-quarter circle
		{mv, 0, 0, mv, ln, 2, 0, ln, qd, 4, 3, 6, 0, qd, ln, 6, -2, ln},                   // line, arch, line (corners at both ends)
		{mv, 0, 0, mv, ln, 2, 0, ln, ar, 2, 2, 0, 2, 4, 2, ar, ln, 4, 4, ln},              // line, tangent arc, tangent line
		{mv, 0, 0, mv, ln, 2, 0, ln, ar, 2, 2, 0, 0, 4, 2, ar, ln, 1, 3, ln},              // line, arc with corners
		{mv, 2, 0, mv, ar, 2, 2, 0, 2, -2, 0, ar, ar, 2, 2, 0, 2, 2, 0, ar, cl, 2, 0, cl}, // circle ccw
		{mv, 2, 0, mv, ar, 2, 2, 0, 0, -2, 0, ar, ar, 2, 2, 0, 0, 2, 0, ar, cl, 2, 0, cl}, // circle cw
		{mv, 0, 0, mv, qd, 2, 3, 4, 0, qd, cl, 0, 0, cl},                                  // arch closed by a line
		{mv, 0, 0, mv, cb, 0, 2, 3, 2, 3, 0, cb, ln, 1.5, -1, ln, cl, 0, 0, cl},           // cubic, line, close
		{mv, 0, 0, mv, cb, 6, 6, -6, 6, 0, 0, cb, cl, 0, 0, cl},                           // teardrop: ONE closed cubic returning to its start with a corner (zero-length close)
		{mv, 0, 0, mv, cb, -6, 6, 6, 6, 0, 0, cb, cl, 0, 0, cl},                           // the same, clockwise
		{mv, 0, 0, mv, ar, 3, 2, 0, 3, 0, 1, ar, cl, 0, 0, cl},                            // one large arc closed by a short line
		{mv, 0, 0, mv, cb, 2, 4, 7, 4, 10, 4.5, cb},                                       // cubic with an inflection point late in its parameter range (t ~ 0.85)
		{mv, 10, 4.5, mv, cb, 7, 4, 2, 4, 0, 0, cb},                                       // the same curve reversed (inflection at t ~ 0.15)
		{mv, 0, 0, mv, cb, 3, 3, 5, 3, 8, 2, cb, ln, 9, 4, ln},                            // late inflection, then a line
		{mv, 0, 0, mv, cb, 0, 0, 2, 0, 4, 2, cb},                                          // cubic whose first control point is its start point (zero derivative at t=0)
		{mv, -2, 0, mv, ln, 0, 0, ln, cb, 0, 0, 2, 0, 4, 2, cb},                           // the same after a line (tangent continuation)
		{mv, 0, 0, mv, cb, 2, 2, 4, 0, 4, 0, cb},                                          // cubic whose last control point is its end point
		{mv, 0, 0, mv, cb, 2, 2, 4, 0, 4, 0, cb, ln, 6, -2, ln},                           // the same followed by a line
		{mv, 0, 0, mv, cb, 0, 0, 4, 2, 4, 2, cb},                                          // both control points on the end points (a straight line written as a cubic)
		{mv, 0, 0, mv, ar, 2, 2, 0, 0, 2, 2, ar, ar, 2, 2, 0, 2, 4, 4, ar},                // clockwise quarter circle, then a counter-clockwise one
		{mv, 2, 0, mv, ar, 2, 2, 0, 0, 0, -2, ar, ar, 2, 2, 0, 0, -2, 0, ar, ar, 2, 2, 0, 0, 0, 2, ar, ar, 2, 2, 0, 0, 2, 0, ar, cl, 2, 0, cl}, // clockwise circle of four quarters
		{mv, 0, 0, mv, ln, 0, 4, ln, ar, 2, 2, 0, 0, 2, 6, ar, ln, 6, 6, ln, ar, 2, 2, 0, 0, 8, 4, ar, ln, 8, 0, ln},                           // two clockwise rounded corners
		{mv, 0, 0, mv, ar, 2, 2, 0, 2, 2, 2, ar, ar, 3, 3, 0, 0, 5, 5, ar, ar, 1, 1, 0, 2, 6, 6, ar},                                           // quarters of radius 2 (ccw), 3 (cw), 1 (ccw)
		{mv, 0, 0, mv, ar, 6, 3, 40 * math.Pi / 180, 0, 9.6, 3.6, ar},                                                                          // long span of a 2:1 ellipse, rotated (the offset of an ellipse is not an ellipse)
		{mv, 0, 0, mv, ar, 6, 2, 0, 0, 12, 0, ar},                                                                                              // half of a 3:1 ellipse
		{mv, -3.91704630442835, -3.06355431525226, mv, ar, 5, 4, 0.52359877559829882, 2, 4.61163901509608, 1.86048444980878, ar},               // 160 degrees of a 5x4 ellipse rotated by 30 degrees (axis ratio 1.25)
		{mv, 4.61163901509608, 1.86048444980878, mv, ar, 5, 4, 0.52359877559829882, 0, -3.91704630442835, -3.06355431525226, ar},               // 160 degrees of a 5x4 ellipse rotated by 30 degrees (axis ratio 1.25)
		{mv, 0.603509973234811, 4.93603003493118, mv, ar, 5, 4, 1.3089969389957472, 2, -1.94536004920698, -4.5764823907108, ar},                // 160 degrees of a 5x4 ellipse rotated by 75 degrees (axis ratio 1.25)
		{mv, -2.97735368364245, -2.72153417192659, mv, ar, 5, 4, 2.0943951023931953, 2, 3.8455945719771, 1.21769684012224, ar},                 // 160 degrees of a 5x4 ellipse rotated by 120 degrees (axis ratio 1.25)
		// corners between two arcs of unequal radii (the arcs joiner intersects two offset circles of different radii)
		{mv, 0, 0, mv, ar, 4, 4, 0, 2, 4, 4, ar, ar, 2, 2, 0, 2, 6, 6, ar},   // r=4 ccw then r=2 ccw, right turn of 90 degrees
		{mv, 0, 0, mv, ar, 4, 4, 0, 0, 4, -4, ar, ar, 2, 2, 0, 0, 6, -6, ar}, // the mirror image (left turn)
		{mv, 0, 0, mv, ar, 2, 2, 0, 2, 2, 2, ar, ar, 5, 5, 0, 2, 7, 7, ar},   // r=2 then r=5
		{mv, 0, 0, mv, ar, 4, 4, 0, 2, 4, 4, ar, ar, 2, 2, 0, 0, 2, 6, ar},   // r=4 ccw then r=2 cw, left turn of 90 degrees
		// the same with a left turn of 60 degrees between two counter clockwise arcs: the outer offset circles (radii r+w/2) intersect beyond the corner
		{mv, 0, 0, mv, ar, 5, 5, 0, 2, 5, 5, ar, ar, 10, 10, 0, 2, -5, 5, ar},
		{mv, 0, 0, mv, ar, 5, 5, 0, 0, 5, -5, ar, ar, 10, 10, 0, 0, -5, -5, ar}, // mirror image (clockwise)
		{mv, 0, 0, mv, ar, 2, 2, 0, 2, 2, 2, ar, ar, 4, 4, 0, 2, -2, 2, ar},     // radii 2 and 4
		{mv, 0, 0, mv, ln, 3, 0, ln, ar, 4, 4, 0, 2, 1, 3.4641016151377544, ar}, // a line, then an arc of radius 4 that leaves turning 60 degrees to the left... (line-arc corner)
	}
	var out []shape
	for _, d := range raw {
		out = append(out, shape{d, "curved"})
	}
	return out
}

// ---------------------------------------------------------------------------------------------
// probes

// probes returns the sample points for one input and stroke radius: an offset grid over the
// bounding box grown by w, points on both normals of every segment and rings around every
// segment end point, at the radii where a wrong boundary would show.
func probes(m *oracle.StrokeModel, sps []oracle.Subpath, radii []float64, ringExtra []float64, pad float64) []oracle.Pt {
	lo, hi, _ := oracle.BBox(m.Pls)
	ext := math.Max(hi.X-lo.X, hi.Y-lo.Y) + 2*pad
	out := oracle.GridSamples(lo, hi, pad, ext/13.7)
	for _, sp := range sps {
		for _, s := range sp.Segs {
			if s.P0 == s.P1 && (s.Kind == oracle.CmdLine || s.Kind == oracle.CmdClose) {
				continue
			}
			for _, t := range []float64{0.06, 0.27, 0.5, 0.73, 0.94} {
				p := s.At(t)
				tg := s.At(math.Min(1, t+1e-4)).Sub(s.At(math.Max(0, t-1e-4)))
				l := tg.Len()
				if l == 0 {
					continue
				}
				n := oracle.Pt{X: tg.Y / l, Y: -tg.X / l}
				out = append(out, p)
				for _, r := range radii {
					if r > 0 {
						out = append(out, p.Add(n.Mul(r)), p.Sub(n.Mul(r)))
					}
				}
			}
			for _, v := range []oracle.Pt{s.P0, s.P1} {
				for k := 0; k < 16; k++ {
					a := (float64(k) + 0.37) * math.Pi / 8
					d := oracle.Pt{X: math.Cos(a), Y: math.Sin(a)}
					for _, r := range append(append([]float64{}, radii...), ringExtra...) {
						if r > 0 {
							out = append(out, v.Add(d.Mul(r)))
						}
					}
				}
			}
		}
	}
	return out
}

func viol(r *fw.R, class, detail string) {
	r.Outcome("VIOLATION:" + class)
	r.Violate(class, detail)
}

// ---------------------------------------------------------------------------------------------
// Stroke

type strokeCase struct {
	sh   shape
	w    float64
	cap  capper
	join joiner
	tol  float64
}

func (c strokeCase) String() string {
	return fmt.Sprintf("path=%s Stroke(w=%g, %s, %s, tol=%g) [%s]", oracle.Fmt(c.sh.data), c.w, c.cap.name, c.join.name, c.tol, c.sh.class)
}

const curveN = 96

func checkStroke(c strokeCase, r *fw.R) {
	sps, err := oracle.Decode(c.sh.data)
	if err != nil {
		panic(err)
	}
	m := oracle.NewStrokeModel(sps, curveN)
	mg := c.tol + 2*c.tol
	spec := oracle.StrokeSpec{W: c.w, Cap: c.cap.kind, Join: c.join.kind, Limit: c.join.limit, Margin: mg}
	hw := c.w / 2

	p := cv.Path(c.sh.data)
	res := p.Stroke(c.w, c.cap.c, c.join.j, c.tol)
	if !sameData(p.Data(), c.sh.data) {
		viol(r, "input-path-modified", oracle.Fmt(p.Data()))
	}
	var rd []float64
	if res != nil {
		rd = res.Data()
	}
	rsp, err := oracle.Decode(rd)
	if err != nil {
		viol(r, "malformed-result", err.Error()+": "+oracle.Fmt(rd))
		return
	}
	R := oracle.Dense(rsp, 64)

	radii := []float64{hw - 3*mg, hw - 1.2*mg, hw / 2, hw + 1.2*mg, hw + 3*mg}
	var extra []float64
	if c.join.limit > 0 {
		extra = append(extra, c.join.limit*hw+1.2*mg, hw*math.Sqrt(c.join.limit*c.join.limit+1)+1.2*mg, 0.6*c.join.limit*hw)
	}
	if c.cap.kind == oracle.CapSquare {
		extra = append(extra, hw*math.Sqrt2+1.5*mg, hw*1.2)
	}
	ps := probes(m, sps, radii, extra, c.w+3*mg)

	nIn, nOut, nSkip := 0, 0, 0
	type bad struct {
		n     int
		first string
	}
	bads := map[string]*bad{}
	for _, s := range ps {
		v, why := m.Classify(s, spec)
		if v == 0 {
			nSkip++
			continue
		}
		filled := oracle.Winding(R, s) != 0
		var class string
		if v > 0 {
			nIn++
			if !filled {
				class = "stroke-misses-" + why
			}
		} else {
			nOut++
			if filled {
				class = "stroke-exceeds"
			}
		}
		if class != "" {
			b := bads[class]
			if b == nil {
				b = &bad{}
				bads[class] = b
				b.first = fmt.Sprintf("point (%.6g,%.6g) at distance %.6g from the path", s.X, s.Y, oracle.Dist(m.Pls, s, false))
			}
			b.n++
		}
	}
	r.Count("probes_inside", int64(nIn))
	r.Count("probes_outside", int64(nOut))
	r.Count("probes_undecided", int64(nSkip))
	kind := "open"
	if sps[0].Closed {
		kind = "closed"
	}
	switch {
	case nIn > 0 && nOut > 0:
		r.NontrivialIdx()
	case nIn == 0:
		r.Outcome("only-outside-decidable(w/2<=tol+delta)")
	}
	if b := bads["stroke-misses-segment-beyond-butt-cut"]; b != nil {
		// the statement exempts points beyond the cut of a butt cap; tallied, not a violation
		r.Outcome("exempt:misses-points-beyond-a-butt-cut-that-lie-in-another-segment's-band/" + kind + "-" + c.sh.class)
		delete(bads, "stroke-misses-segment-beyond-butt-cut")
	}
	for _, class := range []string{"stroke-misses-segment", "stroke-misses-join", "stroke-misses-cap", "stroke-exceeds"} {
		if b := bads[class]; b != nil {
			viol(r, class+"/"+kind+"-"+c.sh.class, fmt.Sprintf("%d of %d decided probes wrong (expected %s); first: %s; w/2=%g margin=%g; result=%s", b.n, nIn+nOut,
				map[bool]string{true: "outside", false: "inside"}[class == "stroke-exceeds"], b.first, hw, mg, oracle.Fmt(rd)))
		}
	}
	if len(bads) == 0 {
		r.Outcome(kind + ":" + c.sh.class + ":ok")
	} else {
		r.Outcome(kind + ":" + c.sh.class + ":violation")
	}
	r.Outcome(fmt.Sprintf("result-subpaths:%d", min(len(rsp), 4)))
}

func sameData(a, b []float64) bool {
	if len(a) != len(b) {
		return false
	}
	for i := range a {
		if math.Float64bits(a[i]) != math.Float64bits(b[i]) {
			return false
		}
	}
	return true
}

func strokeFamily(name string, shapes []shape, caps []capper, joins []joiner) fw.Family {
	dec := func(i int64) strokeCase {
		g := oracle.Digits(i, len(shapes), len(widths), len(caps), len(joins), len(tols))
		return strokeCase{shapes[g[0]], widths[g[1]], caps[g[2]], joins[g[3]], tols[g[4]]}
	}
	return fw.Family{
		Name:  name,
		N:     oracle.Prod(len(shapes), len(widths), len(caps), len(joins), len(tols)),
		Check: func(i int64, r *fw.R) { checkStroke(dec(i), r) },
		Desc:  func(i int64) string { return dec(i).String() },
	}
}

// fastStrokeFamily: the same check with the package switch FastStroke on (the result is not settled;
// its doc comment promises the same region under the non-zero rule for the trivial cases, which is how
// the probes are judged).
func fastStrokeFamily(name string, shapes []shape, caps []capper, joins []joiner, ws []float64) fw.Family {
	dec := func(i int64) strokeCase {
		g := oracle.Digits(i, len(shapes), len(ws), len(caps), len(joins), len(tols))
		c := strokeCase{shapes[g[0]], ws[g[1]], caps[g[2]], joins[g[3]], tols[g[4]]}
		return c
	}
	return fw.Family{
		Name: name,
		N:    oracle.Prod(len(shapes), len(ws), len(caps), len(joins), len(tols)),
		Check: func(i int64, r *fw.R) {
			canvas.FastStroke = true
			defer func() { canvas.FastStroke = false }()
			checkStroke(dec(i), r)
		},
		Desc: func(i int64) string { return "FastStroke=true; " + dec(i).String() },
	}
}

// ---------------------------------------------------------------------------------------------
// Offset

var offsets = []float64{0.3, -0.3, 1, -1}

type offsetCase struct {
	sh  shape
	d   float64
	tol float64
}

func (c offsetCase) String() string {
	return fmt.Sprintf("path=%s Offset(%g, tol=%g)", oracle.Fmt(c.sh.data), c.d, c.tol)
}

func checkOffset(c offsetCase, r *fw.R) {
	sps, err := oracle.Decode(c.sh.data)
	if err != nil {
		panic(err)
	}
	P := oracle.Dense(sps, 256)
	area := oracle.Area(P)
	ccw := area > 0
	grow := ccw == (c.d > 0)
	dist := math.Abs(c.d)
	mg := c.tol + 2*c.tol

	p := cv.Path(c.sh.data)
	res := p.Offset(c.d, c.tol)
	if !sameData(p.Data(), c.sh.data) {
		viol(r, "input-path-modified", oracle.Fmt(p.Data()))
	}
	var rd []float64
	if res != nil {
		rd = res.Data()
	}
	rsp, err := oracle.Decode(rd)
	if err != nil {
		viol(r, "malformed-result", err.Error()+": "+oracle.Fmt(rd))
		return
	}
	R := oracle.Dense(rsp, 64)

	m := oracle.NewStrokeModel(sps, 64)
	radii := []float64{dist - 3*mg, dist - 1.2*mg, dist / 2, dist + 1.2*mg, dist + 3*mg}
	ps := probes(m, sps, radii, nil, dist+3*mg)
	nIn, nOut, nSkip := 0, 0, 0
	missing, extra := 0, 0
	var firstMissing, firstExtra string
	for _, s := range ps {
		inside := oracle.Winding(P, s) != 0
		bd := oracle.Dist(P, s, true)
		v := oracle.OffsetClassify(inside, bd, dist, mg, grow)
		if v == 0 {
			nSkip++
			continue
		}
		filled := oracle.Winding(R, s) != 0
		if v > 0 {
			nIn++
			if !filled {
				if missing == 0 {
					firstMissing = fmt.Sprintf("point (%.6g,%.6g), inside input=%v, distance to its boundary %.6g", s.X, s.Y, inside, bd)
				}
				missing++
			}
		} else {
			nOut++
			if filled {
				if extra == 0 {
					firstExtra = fmt.Sprintf("point (%.6g,%.6g), inside input=%v, distance to its boundary %.6g", s.X, s.Y, inside, bd)
				}
				extra++
			}
		}
	}
	r.Count("offset_probes_inside", int64(nIn))
	r.Count("offset_probes_outside", int64(nOut))
	r.Count("offset_probes_undecided", int64(nSkip))
	if nIn > 0 && nOut > 0 {
		r.NontrivialIdx()
	}
	or := "cw"
	if ccw {
		or = "ccw"
	}
	gs := "shrink"
	if grow {
		gs = "grow"
	}
	if nIn == 0 {
		gs += "-to-nothing"
	}
	what := fmt.Sprintf("%s contour, d=%g: boundary must move %g to the %s", or, c.d, dist, map[bool]string{true: "outside", false: "inside"}[grow])
	if missing > 0 {
		viol(r, "offset-misses", fmt.Sprintf("%d of %d decided probes not filled; %s; first: %s; result=%s", missing, nIn+nOut, what, firstMissing, oracle.Fmt(rd)))
	}
	if extra > 0 {
		viol(r, "offset-exceeds", fmt.Sprintf("%d of %d decided probes wrongly filled; %s; first: %s; result=%s", extra, nIn+nOut, what, firstExtra, oracle.Fmt(rd)))
	}
	if missing+extra == 0 {
		r.Outcome("offset:" + or + ":" + gs + ":ok")
	} else {
		r.Outcome("offset:" + or + ":" + gs + ":violation")
	}
}

func offsetFamily(name string, shapes []shape) fw.Family {
	dec := func(i int64) offsetCase {
		g := oracle.Digits(i, len(shapes), len(offsets), len(tols))
		return offsetCase{shapes[g[0]], offsets[g[1]], tols[g[2]]}
	}
	return fw.Family{
		Name:  name,
		N:     oracle.Prod(len(shapes), len(offsets), len(tols)),
		Check: func(i int64, r *fw.R) { checkOffset(dec(i), r) },
		Desc:  func(i int64) string { return dec(i).String() },
	}
}

func simpleOnly(in []shape) []shape {
	var out []shape
	for _, s := range in {
		if s.class != "simple" {
			continue
		}
		sps, _ := oracle.Decode(s.data)
		if oracle.Area(oracle.Dense(sps, 1)) != 0 {
			out = append(out, s)
		}
	}
	return out
}

// ---------------------------------------------------------------------------------------------

func families(tier string) []fw.Family {
	square := []capper{cappers[2]}
	curved := curvedShapes()
	closedCurved := []shape{curved[11], curved[12], curved[13], curved[14], curved[15], curved[16], curved[17]}
	fs := []fw.Family{
		strokeFamily("open 1-segment polylines (L4 mod translation)", openShapes(4, 1), cappers, joiners[:1]),
		strokeFamily("open 2-segment polylines (L4 mod translation)", openShapes(4, 2), cappers, joiners),
		strokeFamily("closed triangles (L4 mod rotation, translation), square capper", closedShapes(4, 3), square, joiners),
		strokeFamily("curved menu", curved, cappers, joiners),
		strokeFamily("open 2-segment polylines (L4 mod translation), tight join limits", openShapes(4, 2), cappers[:1], tightJoiners),
		strokeFamily("closed triangles (L4 mod rotation, translation), square capper, tight join limits", closedShapes(4, 3), square, tightJoiners),
		strokeFamily("curved menu, tight join limits", curved, cappers[:1], tightJoiners),
		offsetFamily("Offset: simple triangles (L4) and curved closed contours", append(simpleOnly(closedShapes(4, 3)), closedCurved...)),
	}
	fs = append(fs,
		fastStrokeFamily("FastStroke: simple closed triangles (L4), both orientations, square capper", simpleOnly(closedShapes(4, 3)), square, joiners, widths),
		fastStrokeFamily("FastStroke: open 2-segment polylines (L4 mod translation)", openShapes(4, 2), cappers, joiners, widths),
	)
	if tier == "thorough" {
		fs = append(fs,
			strokeFamily("closed quadrilaterals (L4 mod rotation, translation), square capper", closedShapes(4, 4), square, joiners),
			strokeFamily("open 3-segment polylines (L4 mod translation)", openShapes(4, 3), cappers, joiners),
			offsetFamily("Offset: simple quadrilaterals (L4)", simpleOnly(closedShapes(4, 4))),
		)
	} else {
		fs = append(fs,
			strokeFamily("closed quadrilaterals (L3 mod rotation, translation), square capper", closedShapes(3, 4), square, joiners),
			offsetFamily("Offset: simple quadrilaterals (L3)", simpleOnly(closedShapes(3, 4))),
		)
	}
	// debugging aid: VERIF_C04_FAMILY=<substring> restricts the run to the matching families
	if f := os.Getenv("VERIF_C04_FAMILY"); f != "" {
		var sel []fw.Family
		for _, x := range fs {
			if strings.Contains(x.Name, f) {
				sel = append(sel, x)
			}
		}
		return sel
	}
	return fs
}

// Prop is the C04 check.
func Prop() *fw.Property {
	return &fw.Property{
		ID:    "C04",
		Level: "exploration",
		Rule: "every open polyline with 1-2 (thorough: 1-3) segments and every closed triangle/quadrilateral on the 4x4 lattice (mod translation; simple, self-touching and self-crossing ones tallied separately) plus a menu of 18 curved paths, x widths {1,0.4,2.5} x cappers {Butt,Round,Square} x joiners {Bevel,Round,Miter(4),Miter(2),MiterClip(4),Arcs(4),ArcsClip(4)} x tolerances {0.1,0.01}; " +
			"NonZero membership of the result (oracle winding on the oracle's flattening) compared with the SVG/PDF stroke definition at grid probes over the bbox grown by w and at probes w/2 -/+ 1.2 and 3 margins from every segment, vertex and end; margin = tol+2*tol; " +
			"Offset(d, tol) of simple closed contours, both orientations, d in {+-0.3,+-1} compared with the Minkowski dilation/erosion; non-trivial = probes were decidable on both sides",
		Assumptions: []string{
			"must-be-inside = on a normal of a segment at distance < w/2-margin; in the outer sector of a vertex within w/2-margin for round joins, miter joins within the limit and miter-clip joins; in the bevel triangle (margin away from the bevel edge) for every other join; in the half disc / the w x w/2 rectangle of round / square caps. The statement's literal 'every point closer than w/2-tol' is NOT demanded in the outer sector beyond a bevel (or a miter beyond its limit) nor beyond a butt cut, where no stroke definition fills it",
			"must-be-outside = farther than w/2+margin from the path and farther than limit*w/2+margin from every join vertex for miter/arcs joins (w/2*sqrt(limit^2+1) for the clip variants, whose clip edge corners lie there by the SVG 2 definition) and outside the w x w/2 rectangle (grown by the margin) of a square cap; closed subpaths are checked with the square capper so that a cap on a closed subpath would be seen",
			"arcs joins next to a curved segment: only the weak outside bound is checked",
			"coordinates on the 4x4 integer lattice; curves only from the menu; widths, limits and tolerances only from the menus; probes are a finite sample of the plane (grid step = extent/13.7 plus feature probes)",
		},
		KnownPredicates: knownPredicates(),
		Families:        families,
	}
}

// ---------------------------------------------------------------------------------------------
// predicates for known_findings.json: all computed from the case (input) alone

var caseRe = regexp.MustCompile(`^path=(.*?) (Stroke|Offset)\((?:w=)?(-?[0-9.]+)`)

func parseCase(c string) (sps []oracle.Subpath, w float64, ok bool) {
	m := caseRe.FindStringSubmatch(c)
	if m == nil {
		return nil, 0, false
	}
	p, err := canvas.ParseSVGPath(m[1])
	if err != nil {
		return nil, 0, false
	}
	sps, err = oracle.Decode(p.Data())
	if err != nil {
		return nil, 0, false
	}
	w, _ = strconv.ParseFloat(m[3], 64)
	return sps, w, true
}

// minCurvatureRadius: smallest circumradius of consecutive sample triples on curved segments.
func minCurvatureRadius(sps []oracle.Subpath) float64 {
	best := math.Inf(1)
	for _, sp := range sps {
		for _, s := range sp.Segs {
			if s.Kind == oracle.CmdLine || s.Kind == oracle.CmdClose {
				continue
			}
			pts := s.Sample(400)
			for i := 1; i+1 < len(pts); i++ {
				a, b, c := pts[i-1], pts[i], pts[i+1]
				area2 := math.Abs(oracle.Orient(a, b, c))
				if area2 < 1e-15 {
					continue
				}
				rad := a.Dist(b) * b.Dist(c) * c.Dist(a) / (2 * area2)
				best = math.Min(best, rad)
			}
		}
	}
	return best
}

// inradiusBelow: no interior point of the closed polygon is farther than h from its boundary.
func inradiusBelow(sps []oracle.Subpath, h float64) bool {
	pls := oracle.Dense(sps, 64)
	lo, hi, ok := oracle.BBox(pls)
	if !ok {
		return false
	}
	for y := lo.Y; y <= hi.Y; y += 0.02 {
		for x := lo.X; x <= hi.X; x += 0.02 {
			q := oracle.Pt{X: x, Y: y}
			if oracle.Winding(pls, q) != 0 && oracle.Dist(pls, q, true) >= h {
				return false
			}
		}
	}
	return true
}

func knownPredicates() map[string]func(*fw.Violation) bool {
	return map[string]func(*fw.Violation) bool{
		// S3: the half width exceeds the inradius of a closed simple contour (inner side vanishes)
		"closed-contour-narrower-than-half-width": func(v *fw.Violation) bool {
			sps, w, ok := parseCase(v.Case)
			return ok && strings.Contains(v.Case, "[simple]") && len(sps) == 1 && sps[0].Closed && inradiusBelow(sps, w/2)
		},
		// residual of S2: closed contours that touch themselves (a vertex on another edge, overlapping edges)
		"closed-self-touching": func(v *fw.Violation) bool {
			sps, _, ok := parseCase(v.Case)
			return ok && strings.Contains(v.Case, "[self-touching]") && len(sps) == 1 && sps[0].Closed
		},
		// S5/S6: the half width exceeds the smallest radius of curvature of the path (the offset curve has cusps)
		"curvature-radius-below-half-width": func(v *fw.Violation) bool {
			sps, w, ok := parseCase(v.Case)
			return ok && strings.Contains(v.Case, "Stroke(") && minCurvatureRadius(sps) < w/2
		},
		// S1: an open path with a straight segment shorter than w/2 next to a bend
		"open-segment-shorter-than-half-width": func(v *fw.Violation) bool {
			sps, w, ok := parseCase(v.Case)
			if !ok || !strings.Contains(v.Case, "Stroke(") || len(sps) != 1 || sps[0].Closed || len(sps[0].Segs) < 2 {
				return false
			}
			for _, s := range sps[0].Segs {
				if s.P0.Dist(s.P1) < w/2 {
					return true
				}
			}
			return false
		},
		// a closed curved contour with a straight segment shorter than w/2
		"closed-curved-segment-shorter-than-half-width": func(v *fw.Violation) bool {
			sps, w, ok := parseCase(v.Case)
			if !ok || !strings.Contains(v.Case, "Stroke(") || !strings.Contains(v.Case, "[curved]") || len(sps) != 1 || !sps[0].Closed {
				return false
			}
			for _, s := range sps[0].Segs {
				if (s.Kind == oracle.CmdLine || s.Kind == oracle.CmdClose) && s.P0.Dist(s.P1) > 0 && s.P0.Dist(s.P1) < w/2 {
					return true
				}
			}
			return false
		},
		// the stroker offsets an elliptical arc A rx ry by the arcs A rx+-w/2 ry+-w/2, which is not
		// the offset curve unless rx = ry: visible from an axis ratio of 2 on
		"open-elliptical-arc-axis-ratio-2-or-more": func(v *fw.Violation) bool {
			sps, _, ok := parseCase(v.Case)
			if !ok || !strings.Contains(v.Case, "Stroke(") || len(sps) != 1 || sps[0].Closed {
				return false
			}
			for _, s := range sps[0].Segs {
				if s.Kind == oracle.CmdArc && (s.Rx >= 2*s.Ry || s.Ry >= 2*s.Rx) {
					return true
				}
			}
			return false
		},
		// S4: Offset of a clockwise contour made of arcs only: CCW() misreports the orientation
		"clockwise-all-arc-contour": func(v *fw.Violation) bool {
			sps, _, ok := parseCase(v.Case)
			if !ok || len(sps) != 1 || !sps[0].Closed {
				return false
			}
			for _, s := range sps[0].Segs {
				if s.Kind != oracle.CmdArc && s.Kind != oracle.CmdClose {
					return false
				}
			}
			return oracle.Area(oracle.Dense(sps, 64)) < 0
		},
	}
}
