package c18

import (
	"fmt"
	"image"
	"math"

	"github.com/tdewolff/canvas"

	"verif/internal/fontread"
	"verif/internal/oracle"
)

// fullSeg is a segment with its start point, in final coordinates (mm).
type fullSeg struct {
	op byte // L, Q, C
	p  [4]oracle.Pt
}

type affine [6]float64

func (a affine) pt(x, y float64) oracle.Pt {
	return oracle.Pt{X: a[0]*x + a[2]*y + a[4], Y: a[1]*x + a[3]*y + a[5]}
}

// compose returns the map "first a, then b".
func compose(a, b affine) affine {
	return affine{
		b[0]*a[0] + b[2]*a[1], b[1]*a[0] + b[3]*a[1],
		b[0]*a[2] + b[2]*a[3], b[1]*a[2] + b[3]*a[3],
		b[0]*a[4] + b[2]*a[5] + b[4], b[1]*a[4] + b[3]*a[5] + b[5],
	}
}

// placeOutline maps a glyph outline (font units) through t and appends its segments and its
// closed contours.
func placeOutline(segs []fontread.Seg, t affine, out *[]fullSeg, sps *[]oracle.Subpath) {
	var cur oracle.Pt
	var sp *oracle.Subpath
	flush := func() {
		if sp != nil && len(sp.Segs) > 0 {
			sp.Closed = true
			*sps = append(*sps, *sp)
		}
		sp = nil
	}
	for _, s := range segs {
		switch s.Op {
		case 'M':
			flush()
			cur = t.pt(s.P[0][0], s.P[0][1])
			sp = &oracle.Subpath{Start: cur}
		case 'L':
			p := t.pt(s.P[0][0], s.P[0][1])
			if p != cur {
				*out = append(*out, fullSeg{'L', [4]oracle.Pt{cur, p}})
				sp.Segs = append(sp.Segs, oracle.Seg{Kind: oracle.CmdLine, P0: cur, P1: p})
			}
			cur = p
		case 'Q':
			c, p := t.pt(s.P[0][0], s.P[0][1]), t.pt(s.P[1][0], s.P[1][1])
			*out = append(*out, fullSeg{'Q', [4]oracle.Pt{cur, c, p}})
			sp.Segs = append(sp.Segs, oracle.Seg{Kind: oracle.CmdQuad, P0: cur, C1: c, P1: p})
			cur = p
		case 'C':
			c1, c2, p := t.pt(s.P[0][0], s.P[0][1]), t.pt(s.P[1][0], s.P[1][1]), t.pt(s.P[2][0], s.P[2][1])
			*out = append(*out, fullSeg{'C', [4]oracle.Pt{cur, c1, c2, p}})
			sp.Segs = append(sp.Segs, oracle.Seg{Kind: oracle.CmdCube, P0: cur, C1: c1, C2: c2, P1: p})
			cur = p
		}
	}
	flush()
}

// canvasSegs decodes raw canvas path data and maps it through t.
func canvasSegs(data []float64, t affine, out *[]fullSeg, sps *[]oracle.Subpath) error {
	dec, err := oracle.Decode(data)
	if err != nil {
		return err
	}
	m := func(p oracle.Pt) oracle.Pt { return t.pt(p.X, p.Y) }
	for _, sp := range dec {
		nsp := oracle.Subpath{Start: m(sp.Start), Closed: sp.Closed}
		for _, s := range sp.Segs {
			switch s.Kind {
			case oracle.CmdLine, oracle.CmdClose:
				a, b := m(s.P0), m(s.P1)
				if a != b {
					*out = append(*out, fullSeg{'L', [4]oracle.Pt{a, b}})
				}
				nsp.Segs = append(nsp.Segs, oracle.Seg{Kind: oracle.CmdLine, P0: a, P1: b})
			case oracle.CmdQuad:
				a, c, b := m(s.P0), m(s.C1), m(s.P1)
				*out = append(*out, fullSeg{'Q', [4]oracle.Pt{a, c, b}})
				nsp.Segs = append(nsp.Segs, oracle.Seg{Kind: oracle.CmdQuad, P0: a, C1: c, P1: b})
			case oracle.CmdCube:
				a, c1, c2, b := m(s.P0), m(s.C1), m(s.C2), m(s.P1)
				*out = append(*out, fullSeg{'C', [4]oracle.Pt{a, c1, c2, b}})
				nsp.Segs = append(nsp.Segs, oracle.Seg{Kind: oracle.CmdCube, P0: a, C1: c1, C2: c2, P1: b})
			default:
				return fmt.Errorf("glyph path contains segment kind %v", s.Kind)
			}
		}
		if len(nsp.Segs) > 0 {
			*sps = append(*sps, nsp)
		}
	}
	return nil
}

// segDist is the largest control point distance between two segments of the same kind.
func segDist(a, b fullSeg) float64 {
	d := 0.0
	n := map[byte]int{'L': 2, 'Q': 3, 'C': 4}[a.op]
	for k := 0; k < n; k++ {
		d = math.Max(d, a.p[k].Dist(b.p[k]))
	}
	return d
}

// outlineDistance compares two outlines. If the segments pair up one to one (same kind, control
// points within tol) the distance is the worst control point distance (which bounds the
// Hausdorff distance of the curves); otherwise it is the two-sided dense Hausdorff distance.
func outlineDistance(want, got []fullSeg, wantSp, gotSp []oracle.Subpath, tol float64) (dist float64, how string) {
	if len(want) == len(got) {
		used := make([]bool, len(got))
		worst := 0.0
		hint := 0
		matched := true
		for _, w := range want {
			best, bestD := -1, math.Inf(1)
			// segments usually come in the same order: look near the hint first
			for off := 0; off < len(got); off++ {
				i := (hint + off) % len(got)
				if used[i] || got[i].op != w.op {
					continue
				}
				if d := segDist(w, got[i]); d < bestD {
					best, bestD = i, d
					if d <= tol {
						break
					}
				}
			}
			if best < 0 || bestD > tol {
				matched = false
				break
			}
			used[best] = true
			hint = best + 1
			worst = math.Max(worst, bestD)
		}
		if matched {
			return worst, "segments-pair-up"
		}
	}
	if len(want) == 0 || len(got) == 0 {
		if len(want) == len(got) {
			return 0, "both-empty"
		}
		return math.Inf(1), "one-empty"
	}
	a, b := oracle.Dense(wantSp, 8), oracle.Dense(gotSp, 8)
	d := math.Max(oracle.HausdorffOneSided(a, b, 1, false), oracle.HausdorffOneSided(b, a, 1, false))
	return d, "dense-hausdorff"
}

// recorder is a canvas.Renderer that keeps what RenderAsPath hands to it.
type recorder struct {
	paths []recPath
}

type recPath struct {
	data []float64
	m    affine
}

func (r *recorder) Size() (float64, float64) { return 100, 80 }
func (r *recorder) RenderPath(p *canvas.Path, style canvas.Style, m canvas.Matrix) {
	r.paths = append(r.paths, recPath{append([]float64(nil), p.Data()...), affine(matOf(m))})
}
func (r *recorder) RenderText(t *canvas.Text, m canvas.Matrix) { panic("RenderText from RenderAsPath") }
func (r *recorder) RenderImage(img image.Image, m canvas.Matrix) {
	panic("RenderImage from RenderAsPath")
}
