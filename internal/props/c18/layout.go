package c18

import (
	"fmt"
	"math"
	"os"
	"strings"

	"github.com/tdewolff/canvas"

	"verif/internal/fontread"
)

// ---------------------------------------------------------------------------------------------
// fonts

type fontSrc struct {
	name, file string
	bytes      []byte
	fr         *fontread.Font // x/image reader of the source program (plus the exact readers)
}

var fontMenu = []*fontSrc{
	{name: "DejaVuSerif", file: "/repo/resources/DejaVuSerif.ttf"},
	{name: "EBGaramond", file: "/repo/resources/EBGaramond12-Regular.otf"},
	{name: "Dynalight", file: "/repo/resources/Dynalight-Regular.otf"},
}

func (f *fontSrc) load() *fontSrc {
	if f.bytes != nil {
		return f
	}
	b, err := os.ReadFile(f.file)
	if err != nil {
		panic(err)
	}
	fr, err := fontread.Open(b)
	if err != nil {
		panic(fmt.Sprintf("source font %s: %v", f.file, err))
	}
	if len(fr.Patched) != 0 {
		panic(fmt.Sprintf("source font %s is not read as it is: %v", f.file, fr.Patched))
	}
	if _, err := fr.ExactOutline(0); err != nil {
		panic(fmt.Sprintf("source font %s: exact reader: %v", f.file, err))
	}
	f.bytes, f.fr = b, fr
	return f
}

// fresh loads a new *canvas.Font (the PDF writer mutates font objects while subsetting).
func (f *fontSrc) fresh() *canvas.Font {
	f.load()
	cf, err := canvas.LoadFont(f.bytes, 0, canvas.FontRegular)
	if err != nil {
		panic(err)
	}
	return cf
}

// exactOutline is the outline of a source glyph in font units read by the exact readers of
// internal/fontread (x/image truncates implied TrueType points and rounds fixed-point charstring
// operands, which is fine for comparing two programs but not for 1e-6 of the size).
func (f *fontSrc) exactOutline(gid int) ([]fontread.Seg, error) {
	return f.fr.ExactOutline(gid)
}

// ---------------------------------------------------------------------------------------------
// strings

var tokens = []string{"A", "V", "f", "i", "é", " ", "x", "-"}

// stringsUpTo lists all strings of at most n tokens, shortest first.
func stringsUpTo(alpha []string, n int) []string {
	out := []string{""}
	prev := []string{""}
	for l := 1; l <= n; l++ {
		var cur []string
		for _, p := range prev {
			for _, t := range alpha {
				cur = append(cur, p+t)
			}
		}
		out = append(out, cur...)
		prev = cur
	}
	return out
}

// ---------------------------------------------------------------------------------------------
// layouts (the inputs of the property: what canvas laid out)

type kind struct {
	name string
	// face makes the face; text lays the string out; m is the view the text is drawn with
	size     float64 // points
	xoff     int32   // face offsets in font units (as FontFamily.Face sets for sub/superscript)
	yoff     int32
	italic   float64 // FauxItalic of the face (what FontFamily.Face sets when the family has no italic style)
	build    func(face *canvas.FontFace, s string) *canvas.Text
	m        canvas.Matrix
	vertical bool
}

var (
	viewPlain   = canvas.Identity.Translate(10, 20)
	viewRotated = canvas.Identity.Translate(30, 25).Rotate(30).Scale(1.5, 1.5)
)

const boxEm = 2.2 // width of the narrow justified box in em

var kinds = []kind{
	{name: "NewTextLine(face 12pt, s, Left)", size: 12, m: viewPlain,
		build: func(f *canvas.FontFace, s string) *canvas.Text { return canvas.NewTextLine(f, s, canvas.Left) }},
	{name: "NewTextBox(face 12pt, s, 0, 0, Left, Top, 0, 0)", size: 12, m: viewPlain,
		build: func(f *canvas.FontFace, s string) *canvas.Text {
			return canvas.NewTextBox(f, s, 0, 0, canvas.Left, canvas.Top, 0, 0)
		}},
	{name: "NewTextBox(face 12pt, s, 2.2em, 0, Justify, Top, 0, 0)", size: 12, m: viewPlain,
		build: func(f *canvas.FontFace, s string) *canvas.Text {
			return canvas.NewTextBox(f, s, boxEm*f.Size, 0, canvas.Justify, canvas.Top, 0, 0)
		}},
	{name: "NewTextLine(face 12pt, s, Right)", size: 12, m: viewPlain,
		build: func(f *canvas.FontFace, s string) *canvas.Text { return canvas.NewTextLine(f, s, canvas.Right) }},
	{name: "RichText(face 12pt).SetWritingMode(VerticalRL).WriteString(s).ToText(0, 0, Left, Top, 0, 0)", size: 12, m: viewPlain, vertical: true,
		build: func(f *canvas.FontFace, s string) *canvas.Text {
			rt := canvas.NewRichText(f)
			rt.SetWritingMode(canvas.VerticalRL)
			rt.WriteString(s)
			return rt.ToText(0, 0, canvas.Left, canvas.Top, 0, 0)
		}},
	{name: "RichText(face 12pt).SetWritingMode(VerticalRL).SetTextOrientation(Upright).WriteString(s).ToText(0, 0, Left, Top, 0, 0)", size: 12, m: viewPlain, vertical: true,
		build: func(f *canvas.FontFace, s string) *canvas.Text {
			rt := canvas.NewRichText(f)
			rt.SetWritingMode(canvas.VerticalRL)
			rt.SetTextOrientation(canvas.Upright)
			rt.WriteString(s)
			return rt.ToText(0, 0, canvas.Left, canvas.Top, 0, 0)
		}},
	{name: "NewTextLine(face 8pt with XOffset=37 YOffset=350 font units, s, Left)", size: 8, xoff: 37, yoff: 350, m: viewPlain,
		build: func(f *canvas.FontFace, s string) *canvas.Text { return canvas.NewTextLine(f, s, canvas.Left) }},
	{name: "NewTextLine(face 12pt, s, Left) drawn with Translate(30,25).Rotate(30).Scale(1.5,1.5)", size: 12, m: viewRotated,
		build: func(f *canvas.FontFace, s string) *canvas.Text { return canvas.NewTextLine(f, s, canvas.Left) }},
	{name: "RichText(face 12pt).SetWritingMode(VerticalRL).SetTextOrientation(Upright).WriteString(s).ToText(0, 0, Left, Top, 0, 0) drawn with Translate(30,25).Rotate(30).Scale(1.5,1.5)", size: 12, m: viewRotated, vertical: true,
		build: func(f *canvas.FontFace, s string) *canvas.Text {
			rt := canvas.NewRichText(f)
			rt.SetWritingMode(canvas.VerticalRL)
			rt.SetTextOrientation(canvas.Upright)
			rt.WriteString(s)
			return rt.ToText(0, 0, canvas.Left, canvas.Top, 0, 0)
		}},
	{name: "RichText(face 12pt).SetWritingMode(VerticalRL).WriteString(s).ToText(0, 0, Left, Top, 0, 0) drawn with Translate(30,25).Rotate(30).Scale(1.5,1.5)", size: 12, m: viewRotated, vertical: true,
		build: func(f *canvas.FontFace, s string) *canvas.Text {
			rt := canvas.NewRichText(f)
			rt.SetWritingMode(canvas.VerticalRL)
			rt.WriteString(s)
			return rt.ToText(0, 0, canvas.Left, canvas.Top, 0, 0)
		}},
	{name: "RichText(face 8pt with XOffset=37 YOffset=350 font units).SetWritingMode(VerticalRL).WriteString(s).ToText(0, 0, Left, Top, 0, 0)", size: 8, xoff: 37, yoff: 350, m: viewPlain, vertical: true,
		build: func(f *canvas.FontFace, s string) *canvas.Text {
			rt := canvas.NewRichText(f)
			rt.SetWritingMode(canvas.VerticalRL)
			rt.WriteString(s)
			return rt.ToText(0, 0, canvas.Left, canvas.Top, 0, 0)
		}},
	// faux italic faces (nBaseKinds..): the shear belongs to the glyphs' own frame, also where the span is turned
	{name: "NewTextLine(face 12pt with FauxItalic=0.3, s, Left)", size: 12, italic: 0.3, m: viewPlain,
		build: func(f *canvas.FontFace, s string) *canvas.Text { return canvas.NewTextLine(f, s, canvas.Left) }},
	{name: "RichText(face 12pt with FauxItalic=0.3).SetWritingMode(VerticalRL).WriteString(s).ToText(0, 0, Left, Top, 0, 0)", size: 12, italic: 0.3, m: viewPlain, vertical: true,
		build: func(f *canvas.FontFace, s string) *canvas.Text {
			rt := canvas.NewRichText(f)
			rt.SetWritingMode(canvas.VerticalRL)
			rt.WriteString(s)
			return rt.ToText(0, 0, canvas.Left, canvas.Top, 0, 0)
		}},
	{name: "RichText(face 8pt with XOffset=37 YOffset=350 font units and FauxItalic=0.3).SetWritingMode(VerticalLR).WriteString(s).ToText(0, 0, Left, Top, 0, 0) drawn with Translate(30,25).Rotate(30).Scale(1.5,1.5)", size: 8, xoff: 37, yoff: 350, italic: 0.3, m: viewRotated, vertical: true,
		build: func(f *canvas.FontFace, s string) *canvas.Text {
			rt := canvas.NewRichText(f)
			rt.SetWritingMode(canvas.VerticalLR)
			rt.WriteString(s)
			return rt.ToText(0, 0, canvas.Left, canvas.Top, 0, 0)
		}},
	{name: "RichText(face 12pt with FauxItalic=0.3).SetWritingMode(VerticalRL).SetTextOrientation(Upright).WriteString(s).ToText(0, 0, Left, Top, 0, 0)", size: 12, italic: 0.3, m: viewPlain, vertical: true,
		build: func(f *canvas.FontFace, s string) *canvas.Text {
			rt := canvas.NewRichText(f)
			rt.SetWritingMode(canvas.VerticalRL)
			rt.SetTextOrientation(canvas.Upright)
			rt.WriteString(s)
			return rt.ToText(0, 0, canvas.Left, canvas.Top, 0, 0)
		}},
}

// nBaseKinds: the layouts every family runs; the faux italic layouts after them have families of their own
const nBaseKinds = 11

const (
	kindLine      = 0
	kindJustified = 2
	kindUpright   = 5
)

func (k *kind) face(cf *canvas.Font) *canvas.FontFace {
	face := cf.Face(k.size, canvas.Black)
	face.XOffset, face.YOffset = k.xoff, k.yoff
	face.FauxItalic = k.italic
	return face
}

// glyphL is one laid-out glyph.
type glyphL struct {
	id         int
	xadv, yadv int
	xoff, yoff int
	vertical   bool
	cluster    int
	text       rune
}

// spanL is one laid-out text span with the position WalkSpans reports for it.
type spanL struct {
	x, y     float64 // mm, in the coordinates of the text object (before the view)
	size     float64 // mm per em
	upem     int
	src      *fontSrc
	rotation float64 // degrees
	italic   float64 // faux italic: the glyphs are sheared in their own frame about the baseline of the face
	width    float64
	text     string
	glyphs   []glyphL
}

// drawL is one RenderText call.
type drawL struct {
	src   *fontSrc
	kind  int
	s     string
	m     [6]float64 // a b c d e f of the view
	mode  canvas.WritingMode
	spans []spanL
}

func matOf(m canvas.Matrix) [6]float64 {
	return [6]float64{m[0][0], m[1][0], m[0][1], m[1][1], m[0][2], m[1][2]}
}

func apply(m [6]float64, x, y float64) (float64, float64) {
	return m[0]*x + m[2]*y + m[4], m[1]*x + m[3]*y + m[5]
}

func applyLin(m [6]float64, x, y float64) (float64, float64) {
	return m[0]*x + m[2]*y, m[1]*x + m[3]*y
}

func rot(deg, x, y float64) (float64, float64) {
	if deg == 0 {
		return x, y
	}
	s, c := math.Sincos(deg * math.Pi / 180)
	if math.Mod(deg, 90) == 0 { // exact quarter turns
		s, c = math.Round(s), math.Round(c)
	}
	return x*c - y*s, x*s + y*c
}

// record reads the layout out of a canvas.Text through its public walker.
func record(t *canvas.Text, src *fontSrc, k int, s string) drawL {
	d := drawL{src: src, kind: k, s: s, m: matOf(kinds[k].m), mode: t.WritingMode}
	t.WalkSpans(func(x, y float64, sp canvas.TextSpan) {
		if !sp.IsText() {
			panic("object span in a text-only layout")
		}
		l := spanL{x: x, y: y, size: sp.Face.Size, upem: int(sp.Face.Font.SFNT.Head.UnitsPerEm), src: src,
			rotation: float64(sp.Rotation), italic: sp.Face.FauxItalic, width: sp.Width, text: sp.Text}
		for _, g := range sp.Glyphs {
			l.glyphs = append(l.glyphs, glyphL{id: int(g.ID), xadv: int(g.XAdvance), yadv: int(g.YAdvance),
				xoff: int(g.XOffset), yoff: int(g.YOffset), vertical: g.Vertical, cluster: int(g.Cluster), text: g.Text})
		}
		d.spans = append(d.spans, l)
	})
	return d
}

// glyphOrigin is where the layout puts the origin of glyph i of the span, in the coordinates of
// the text object (mm): the span position plus the preceding advances plus the glyph's own
// offsets, in the span's (possibly rotated) frame.
func (sp *spanL) glyphOrigin(i int) (float64, float64) {
	px, py := 0, 0
	for _, g := range sp.glyphs[:i] {
		px += g.xadv
		py += g.yadv
	}
	g := sp.glyphs[i]
	f := sp.size / float64(sp.upem)
	// faux italic shears the span in its own frame about the baseline of the face (where sp.x, sp.y is):
	// what lies above the baseline moves forward
	dx, dy := rot(sp.rotation, f*float64(px+g.xoff)+sp.italic*f*float64(py+g.yoff), f*float64(py+g.yoff))
	return sp.x + dx, sp.y + dy
}

func (sp *spanL) String() string {
	var sb strings.Builder
	fmt.Fprintf(&sb, "span %q at (%.6g,%.6g) mm, size %.6g mm, rotation %g:", sp.text, sp.x, sp.y, sp.size, sp.rotation)
	for _, g := range sp.glyphs {
		fmt.Fprintf(&sb, " [gid %d %q adv (%d,%d) off (%d,%d)", g.id, g.text, g.xadv, g.yadv, g.xoff, g.yoff)
		if g.vertical {
			sb.WriteString(" vertical")
		}
		sb.WriteString("]")
	}
	return sb.String()
}
